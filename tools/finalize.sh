#!/bin/bash
# Final consolidation: regenerate MANIFEST.json and DESIGN §10/§11, run every quick check on /repo itself with
# seed 1 (evidence from clean-tree runs), validate MANIFEST and evidence against the schemas, report.
cd "$(dirname "$0")/.."
python3 tools/mkmanifest.py
tools/runall.sh 1 quick C01 C02 C03 C04 C05 C06 C07 C08 C09 C10 C11 C12 C13 C14 C15 C16 C17 C18 C19 C20 | tee work/finalize_runall.log | cut -c1-200
python3 tools/mkresults.py
python3-vt - <<'PY'
import json, jsonschema, glob
m = json.load(open('MANIFEST.json')); jsonschema.validate(m, json.load(open('/root/.vp/MANIFEST.schema.json')))
es = json.load(open('/root/.vp/EVIDENCE.schema.json')); bad = 0
for c in m['checks']:
    f = c['evidence_file']
    try:
        d = json.load(open(f)); jsonschema.validate(d, es)
        cov = d['coverage']
        if d.get('violations') or cov.get('obligations') != cov.get('discharged'):
            print('ATTENTION', f, 'violations', d.get('violations'), cov.get('discharged'), '/', cov.get('obligations')); bad += 1
    except Exception as e:
        print('INVALID', f, str(e)[:200]); bad += 1
print('manifest valid; %d checks; %d evidence problems' % (len(m['checks']), bad))
PY
grep -c "rc=0" work/finalize_runall.log
