#!/bin/bash
# Differential self-test of the translator (harness/srcgen): the functions of harness/srcgen-selftest/fx are
# translated to Gallina, run in Go on pseudo-random inputs (seed $1, default 1), and every observed result
# becomes `Example … : go_f args = <Go's result>. Proof. vm_compute. reflexivity. Qed.` checked by coqc.
# Writes work/srcgen_selftest.json; exit 0 iff every Example was accepted.
set -u
seed=${1:-1}
R=$(cd "$(dirname "$0")/.." && pwd)
cd $R
d=work/srcgen-selftest; rm -rf $d; mkdir -p $d/Gen
export GOFLAGS=-mod=mod GOPROXY=off
[ -x work/bin/srcgen ] || (cd harness/srcgen && go build -o $R/work/bin/srcgen .) || exit 2
out=$(work/bin/srcgen -repo $R/harness/srcgen-selftest -spec harness/srcgen-selftest/spec.json -out $R/$d/Gen/Selftest.v 2>&1) || { echo "srcgen selftest: translation failed: $out"; echo '{"ok":false,"why":"translation failed"}' > work/srcgen_selftest.json; exit 1; }
(cd harness/srcgen-selftest && go run . $seed) > $d/SelftestCases.v || { echo "srcgen selftest: go run failed"; echo '{"ok":false,"why":"go run failed"}' > work/srcgen_selftest.json; exit 1; }
n=$(grep -c '^Example' $d/SelftestCases.v)
[ -f coq/theories/Common/GoList.vo ] || (cd coq && coqc -Q theories Sdns theories/Common/Base.v && coqc -Q theories Sdns theories/Common/GoList.v)
# stage 2: repository functions with their third-party callees, and the library functions GoList.v models
# for ASCII input (dns.IsFqdn/Fqdn/CanonicalName, strings.ToLower/IndexByte/Contains/Trim*/EqualFold)
REPO=${VERIF_REPO:-/repo}
work/bin/srcgen -repo $REPO -spec harness/srcgen-selftest/repo_spec.json -out $R/$d/Gen/SelftestRepo.v > $d/log2 2>&1 || { echo "srcgen selftest: translation of repository functions failed: $(tail -1 $d/log2)"; echo '{"ok":false,"why":"repo translation failed"}' > work/srcgen_selftest.json; exit 1; }
printf '{"Replace":{"%s/internal/dnsname/zz_verif_srcgen_selftest_test.go":"%s/harness/overlay/internal/dnsname/zz_verif_srcgen_selftest_test.go"}}' $REPO $R > $d/overlay.json
(cd $REPO && go test -c -vet=off -tags verif -overlay $R/$d/overlay.json -o $R/$d/selftest_repo.test ./internal/dnsname) > $d/log3 2>&1 || { echo "srcgen selftest: repo driver build failed: $(tail -2 $d/log3)"; echo '{"ok":false,"why":"repo driver build failed"}' > work/srcgen_selftest.json; exit 1; }
VERIF_OUT=$R/$d/body.v VERIF_SEED=$seed $d/selftest_repo.test -test.run '^TestVerifSrcgenSelftest$' > $d/log4 2>&1 || { echo "srcgen selftest: repo driver failed"; echo '{"ok":false,"why":"repo driver failed"}' > work/srcgen_selftest.json; exit 1; }
{ echo 'From Sdns Require Import Common.Base Common.GoList Gen.SelftestRepo.'; echo 'Open Scope Z_scope.'; cat $d/body.v; } > $d/SelftestRepoCases.v
m=$(grep -c '^Example' $d/SelftestRepoCases.v)
cd $d
if timeout 600 coqc -Q $R/coq/theories Sdns -Q . Sdns Gen/Selftest.v > log 2>&1 && timeout 900 coqc -Q $R/coq/theories Sdns -Q . Sdns SelftestCases.v >> log 2>&1 \
   && timeout 600 coqc -Q $R/coq/theories Sdns -Q . Sdns Gen/SelftestRepo.v >> log 2>&1 && timeout 900 coqc -Q $R/coq/theories Sdns -Q . Sdns SelftestRepoCases.v >> log 2>&1; then
  echo "srcgen selftest: $n + $m cases agree (seed $seed)"; echo "{\"ok\":true,\"cases\":$((n+m)),\"fx_cases\":$n,\"repo_and_library_cases\":$m,\"seed\":$seed}" > $R/work/srcgen_selftest.json; exit 0
fi
echo "srcgen selftest: MISMATCH between Go and the translation"; head -5 log
echo "{\"ok\":false,\"cases\":$((n+m)),\"seed\":$seed,\"why\":\"coqc rejected an Example\"}" > $R/work/srcgen_selftest.json; exit 1
