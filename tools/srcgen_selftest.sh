#!/bin/bash
# Differential self-test of the translator (harness/srcgen): the functions of harness/srcgen-selftest/fx are
# translated to Gallina, run in Go on pseudo-random inputs (seed $1, default 1), and every observed result
# becomes `Example … : go_f args = <Go's result>. Proof. vm_compute. reflexivity. Qed.` checked by coqc.
# Writes work/srcgen_selftest.json; exit 0 iff every Example was accepted.
set -u
seed=${1:-1}
R=$(cd "$(dirname "$0")/.." && pwd)
cd $R
d=work/srcgen-selftest; rm -rf $d; mkdir -p $d/Gen
export GOFLAGS=-mod=mod GOPROXY=off
[ -x work/bin/srcgen ] || (cd harness/srcgen && go build -o $R/work/bin/srcgen .) || exit 2
out=$(work/bin/srcgen -repo $R/harness/srcgen-selftest -spec harness/srcgen-selftest/spec.json -out $R/$d/Gen/Selftest.v 2>&1) || { echo "srcgen selftest: translation failed: $out"; echo '{"ok":false,"why":"translation failed"}' > work/srcgen_selftest.json; exit 1; }
(cd harness/srcgen-selftest && go run . $seed) > $d/SelftestCases.v || { echo "srcgen selftest: go run failed"; echo '{"ok":false,"why":"go run failed"}' > work/srcgen_selftest.json; exit 1; }
n=$(grep -c '^Example' $d/SelftestCases.v)
[ -f coq/theories/Common/GoList.vo ] || (cd coq && coqc -Q theories Sdns theories/Common/Base.v && coqc -Q theories Sdns theories/Common/GoList.v)
cd $d
if timeout 600 coqc -Q $R/coq/theories Sdns -Q . Sdns Gen/Selftest.v > log 2>&1 && timeout 900 coqc -Q $R/coq/theories Sdns -Q . Sdns SelftestCases.v >> log 2>&1; then
  echo "srcgen selftest: $n cases agree (seed $seed)"; echo "{\"ok\":true,\"cases\":$n,\"seed\":$seed}" > $R/work/srcgen_selftest.json; exit 0
fi
echo "srcgen selftest: MISMATCH between Go and the translation"; head -5 log
echo "{\"ok\":false,\"cases\":$n,\"seed\":$seed,\"why\":\"coqc rejected an Example\"}" > $R/work/srcgen_selftest.json; exit 1
