#!/usr/bin/env python3
"""saveseed.py Cnn <srcdir-with-1,2,3> "<result 1>" "<result 2>" "<result 3>"  — keep seeded changes under /verif/seeded"""
import sys, os, json, shutil
pid, src = sys.argv[1], sys.argv[2]
res = sys.argv[3:]
for i, r in enumerate(res, 1):
    s = os.path.join(src, str(i))
    if not os.path.isdir(s):
        continue
    d = "/verif/seeded/%s-%d" % (pid, i)
    os.makedirs(d, exist_ok=True)
    for f in os.listdir(s):
        if f != "meta.json":
            shutil.copy(os.path.join(s, f), d)
    try:
        m = json.load(open(os.path.join(s, "meta.json")))
    except Exception:
        m = {"property": pid}
    m["confirmed_by_maintainer"] = {"ran": "tools/seedtest.sh %s seeded/%s-%d/patch.diff (patch applied to a scratch worktree of /repo, check run with VERIF_REPO, worktree removed)" % (pid, pid, i), "result": r}
    json.dump(m, open(os.path.join(d, "meta.json"), "w"), indent=1)
print("saved")
