#!/bin/bash
# usage: tools/seedbatch.sh Cnn ...   (expects /tmp/seed-cnn-out/{1,2,3}/patch.diff)
cd /verif
for p in "$@"; do l=$(echo $p | tr A-Z a-z)
  for i in 1 2 3; do
    [ -f /tmp/seed-$l-out/$i/patch.diff ] || continue
    out=$(SEED_TAIL=40 tools/seedtest.sh $p /tmp/seed-$l-out/$i/patch.diff 2>&1)
    v=$(echo "$out" | grep -E "^VIOLATION|OK $p|seedtest rc|patch does not apply" | tr '\n' ' ')
    echo "$p seed $i: $v"
    cp work/$p/replay_seed_last.json work/$p/replay_seed_$i.json 2>/dev/null
  done
done
