#!/usr/bin/env python3
"""seedconfirm.py Cnn <srcdir> <dest-index>

Confirms a seeded change delivered by an independent sub-agent in <srcdir> (patch.diff, a demo *_test.go, meta.json)
in a scratch worktree of /repo: the patch applies and builds, the existing tests of every package it touches
still pass, the demonstration FAILS with the patch and PASSES without it. Then runs the property's check against
the patched worktree (tools/seedtest.sh). On success of the confirmation the change is kept as
/verif/seeded/Cnn-<dest-index>/ with meta.json extended by what was run here.
Prints one summary line; exit 0 = confirmed (whatever the check said), 1 = not a valid seeded change."""
import sys, os, json, subprocess, shutil, re, glob, time

pid, src, idx = sys.argv[1], sys.argv[2].rstrip("/"), sys.argv[3]
ENV = dict(os.environ, GOFLAGS="-mod=mod", GOPROXY="off")
wt = "/tmp/seedconf-%s-%d" % (pid, os.getpid())


def sh(cmd, cwd=None, timeout=1800):
    t0 = time.time()
    try:
        p = subprocess.run(cmd, shell=True, cwd=cwd, env=ENV, stdout=subprocess.PIPE, stderr=subprocess.STDOUT, text=True, timeout=timeout, errors="replace")
        return p.returncode, p.stdout, time.time() - t0
    except subprocess.TimeoutExpired as e:
        return 124, (e.stdout or b"").decode("utf-8", "replace") if isinstance(e.stdout, bytes) else (e.stdout or ""), time.time() - t0


def done(ok, msg, ran, check=None):
    sh("git -C /repo worktree remove --force %s" % wt)
    shutil.rmtree(wt, ignore_errors=True)
    print("%s-%s %s: %s" % (pid, idx, "CONFIRMED" if ok else "REJECTED", msg), flush=True)
    if ok:
        d = "/verif/seeded/%s-%s" % (pid, idx)
        os.makedirs(d, exist_ok=True)
        for f in os.listdir(src):
            if f not in ("meta.json", "PROMPT.txt") and os.path.isfile(os.path.join(src, f)):
                shutil.copy(os.path.join(src, f), d)
        try:
            m = json.load(open(os.path.join(src, "meta.json")))
        except Exception:
            m = {"property": pid}
        m["confirmed_by_maintainer"] = {"ran": ran, "result": check or "pending"}
        json.dump(m, open(os.path.join(d, "meta.json"), "w"), indent=1)
    sys.exit(0 if ok else 1)


meta = {}
try:
    meta = json.load(open(os.path.join(src, "meta.json")))
except Exception as e:
    pass
patch = os.path.join(src, "patch.diff")
demos = [f for f in os.listdir(src) if f.endswith("_test.go")]
ran = []
if not os.path.exists(patch) or not demos:
    done(False, "patch.diff or demo missing", ran)
place = (meta.get("demo") or {}).get("place_in", "").strip().strip("/").split(" ")[0].strip("/")
place = re.sub(r"^\./", "", place)
runcmd = (meta.get("demo") or {}).get("run", "")
rc, out, _ = sh("git -C /repo worktree add --detach %s HEAD -q" % wt)
if rc != 0:
    done(False, "worktree: " + out[-200:], ran)
if not place or not os.path.isdir(os.path.join(wt, place)):
    # guess from the package clause / run command
    m = re.search(r"\./([\w/]+?)/?(\s|$)", runcmd)
    place = m.group(1) if m else ""
if not place or not os.path.isdir(os.path.join(wt, place)):
    done(False, "cannot tell where the demo goes (%r)" % place, ran)
m = re.search(r"-run\s+'?\"?([^\s'\"]+)", runcmd)
runpat = m.group(1) if m else "."
touched = sorted({os.path.dirname(l[6:].strip()) for l in open(patch) if l.startswith("+++ b/") and l.strip().endswith(".go")})
if any(l.startswith("+++ b/") and l.strip().endswith("_test.go") for l in open(patch)):
    done(False, "patch touches test files", ran)
rc, out, _ = sh("git apply %s" % patch, cwd=wt)
ran.append("git apply patch.diff on a scratch worktree of /repo HEAD -> rc=%d" % rc)
if rc != 0:
    done(False, "patch does not apply to HEAD: " + out[-300:], ran)
rc, out, dt = sh("go build ./...", cwd=wt, timeout=900)
ran.append("with patch: go build ./... -> rc=%d" % rc)
if rc != 0:
    done(False, "does not build: " + out[-300:], ran)
pk = " ".join("./%s/" % p for p in touched)
rc, out, dt = sh("go test -vet=off -count=1 -timeout 25m %s" % pk, cwd=wt, timeout=1700)
if rc != 0:
    # one re-run: the suite has tests that flake under load
    rc2, out2, dt2 = sh("go test -vet=off -count=1 -timeout 25m %s" % pk, cwd=wt, timeout=1700)
    ran.append("with patch: go test %s -> FAIL then rc=%d on re-run" % (pk, rc2))
    if rc2 != 0:
        fails = sorted(set(re.findall(r"^--- FAIL: (\S+)", out + out2, re.M)))
        # does it fail on the unchanged tree too?
        sh("git apply -R %s" % patch, cwd=wt)
        rc3, out3, _ = sh("go test -vet=off -count=1 -timeout 25m %s" % pk, cwd=wt, timeout=1700)
        sh("git apply %s" % patch, cwd=wt)
        if rc3 == 0:
            done(False, "existing tests fail with the patch: %s" % ",".join(fails)[:300], ran)
        ran.append("(the same tests fail on the unchanged tree: baseline flake/failure, not counted)")
else:
    ran.append("with patch: go test -count=1 %s -> ok (%.0fs)" % (pk, dt))
for f in demos:
    shutil.copy(os.path.join(src, f), os.path.join(wt, place, "zz_seed_" + f))
democmd = "go test -vet=off -count=1 -timeout 15m -run '%s' ./%s/" % (runpat, place)
rc, out, dt = sh(democmd, cwd=wt, timeout=1000)
ran.append("with patch: %s -> %s" % (democmd, "FAIL" if rc != 0 else "ok"))
if rc == 0:
    done(False, "demo passes WITH the patch", ran)
if "[build failed]" in out or "cannot find package" in out:
    done(False, "demo does not build: " + out[-300:], ran)
sh("git apply -R %s" % patch, cwd=wt)
rc, out, dt = sh(democmd, cwd=wt, timeout=1000)
ran.append("without patch: %s -> %s" % (democmd, "ok" if rc == 0 else "FAIL"))
if rc != 0:
    done(False, "demo fails WITHOUT the patch too: " + out[-300:], ran)
sh("git -C /repo worktree remove --force %s" % wt)
if os.environ.get("SEEDCONFIRM_NOCHECK") == "1":
    done(True, "demo confirmed; check not run here (the builder runs tools/seedtest.sh)", ran, "pending")
# the property's check against the patched tree
rc, out, dt = sh("SEED_TAIL=12 /verif/tools/seedtest.sh %s %s" % (pid, patch), cwd="/verif", timeout=3000)
line = " | ".join(l for l in out.splitlines() if re.search(r"VIOLATION|OK C|cases=|seedtest rc", l))
if os.path.exists("/verif/work/%s/replay.json" % pid) and "VIOLATION" in out:
    shutil.copy("/verif/work/%s/replay.json" % pid, "/verif/work/%s/replay_seed_%s.json" % (pid, idx))
verdict = ("caught on first run: " if "VIOLATION" in out else "MISSED on first run (exit 0): ") + line[:600]
ran.append("tools/seedtest.sh %s seeded/%s-%s/patch.diff -> rc=%d" % (pid, pid, idx, rc))
done(True, verdict, ran, verdict)
