#!/bin/bash
# usage: tools/runall.sh [seed] [tier] ids...  — run checks sequentially, one summary line each
seed=${1:-1}; tier=${2:-quick}; shift 2
cd "$(dirname "$0")/.."
for p in "$@"; do
  s=$(date +%s)
  out=$(VERIF_SEED=$seed python3 tools/check.py $p --tier $tier 2>&1); rc=$?
  e=$(( $(date +%s) - s ))
  echo "$p rc=$rc ${e}s $(echo "$out" | grep -E '^VIOLATION|^KNOWN-FINDING' | cut -c1-100 | tr '\n' ';') $(echo "$out" | grep -E 'cases=' | tail -1 | sed 's/\[check\] //')"
done
