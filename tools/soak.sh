#!/bin/bash
# usage: tools/soak.sh "2 3 4 5" C01 C02 ...   — false-alarm soak: every listed seed on every listed property, one after the other
cd "$(dirname "$0")/.."
seeds=$1; shift
for s in $seeds; do tools/runall.sh $s quick "$@" | sed "s/^/seed=$s /" | cut -c1-170; done
