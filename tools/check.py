#!/usr/bin/env python3
"""check.py — one property check, end to end (see DESIGN.md §2.1).

  python3 tools/check.py --setup
  python3 tools/check.py Cnn [--tier quick|thorough] [--replay PATH]

Steps: srcgen (regenerate Gen/Cnn.v from /repo) -> coq build (full .vo) ->
Print Assumptions -> in-package Go drivers via -overlay (observations of the
real code) -> cases_k.v evaluated with vm_compute (model vs observed, spec
oracle vs observed) -> verdict, evidence, optional violation search.
"""
import sys, os, json, re, subprocess, time, glob, fcntl, hashlib, shutil, argparse

ROOT = os.path.dirname(os.path.dirname(os.path.abspath(__file__)))
REPO = os.environ.get("VERIF_REPO", "/repo")
COQ = os.path.join(ROOT, "coq")
WORK = os.path.join(ROOT, "work")
GOENV = dict(os.environ, GOFLAGS="-mod=mod", GOPROXY="off", CGO_ENABLED=os.environ.get("CGO_ENABLED", "0"))
GOENV.pop("GOSUMDB", None)
GOENV.pop("GOTOOLCHAIN", None)
FORBIDDEN = re.compile(r"\b(Admitted|admit|Axiom|Axioms|Parameter|Parameters|Conjecture|Conjectures|Hypothesis|Variable|Variables)\b|Unset Guard|bypass_check|Admit Obligations|-type-in-type|native_compute")


def log(*a):
    print("[check]", *a, flush=True)


def run(cmd, cwd=None, env=None, timeout=None, inp=None):
    t0 = time.time()
    try:
        p = subprocess.run(cmd, cwd=cwd, env=env, timeout=timeout, input=inp, stdout=subprocess.PIPE, stderr=subprocess.STDOUT, text=True, errors="replace")
        return p.returncode, p.stdout, time.time() - t0
    except subprocess.TimeoutExpired as e:
        out = e.stdout or ""
        if isinstance(out, bytes):
            out = out.decode("utf-8", "replace")
        return 124, out + "\n[timeout after %ss]" % timeout, time.time() - t0


class Lock:
    def __init__(self, name):
        os.makedirs(WORK, exist_ok=True)
        self.path = os.path.join(WORK, ".lock." + name)

    def __enter__(self):
        self.f = open(self.path, "w")
        fcntl.flock(self.f, fcntl.LOCK_EX)
        return self

    def __exit__(self, *a):
        fcntl.flock(self.f, fcntl.LOCK_UN)
        self.f.close()


def load_prop(pid):
    p = os.path.join(ROOT, "props", pid, "prop.json")
    with open(p) as f:
        d = json.load(f)
    d.setdefault("deps", [])
    d.setdefault("drivers", [])
    d.setdefault("trusted_base", [])
    d.setdefault("assumptions", [])
    return d


# ------------------------------------------------------------------ srcgen

def build_srcgen():
    binp = os.path.join(WORK, "bin", "srcgen")
    src = glob.glob(os.path.join(ROOT, "harness", "srcgen", "*.go"))
    if os.path.exists(binp) and all(os.path.getmtime(binp) >= os.path.getmtime(s) for s in src):
        return binp, ""
    with Lock("srcgen"):
        os.makedirs(os.path.dirname(binp), exist_ok=True)
        rc, out, _ = run(["go", "build", "-o", binp, "."], cwd=os.path.join(ROOT, "harness", "srcgen"), env=GOENV, timeout=600)
        if rc != 0:
            raise SystemExit("srcgen build failed:\n" + out)
    return binp, out


def repo_fingerprint():
    """hash of every non-test .go file (and go.mod) of the repository working tree"""
    h = hashlib.sha1()
    for root, dirs, files in os.walk(REPO):
        dirs[:] = sorted(d for d in dirs if d not in (".git", "node_modules"))
        for f in sorted(files):
            if (f.endswith(".go") and not f.endswith("_test.go")) or f == "go.mod":
                fp = os.path.join(root, f)
                h.update(os.path.relpath(fp, REPO).encode())
                try:
                    h.update(open(fp, "rb").read())
                except OSError:
                    pass
    return h.hexdigest()


_FP = {}


def srcgen(pid):
    """returns (ok, message). Skipped when neither the repository's Go sources, the spec nor the
    translator changed since Gen/Cnn.v was last generated (the translator is deterministic)."""
    spec = os.path.join(ROOT, "props", pid, "srcgen.json")
    outv = os.path.join(COQ, "theories", "Gen", pid + ".v")
    if not os.path.exists(spec):
        return True, "no srcgen spec"
    binp, _ = build_srcgen()
    if "repo" not in _FP:
        _FP["repo"] = repo_fingerprint()
    h = hashlib.sha1()
    h.update(_FP["repo"].encode())
    h.update(open(spec, "rb").read())
    h.update(open(binp, "rb").read())
    fp = h.hexdigest()
    fpfile = os.path.join(WORK, pid, "srcgen.fp")
    os.makedirs(os.path.dirname(fpfile), exist_ok=True)
    if os.path.exists(outv) and os.path.exists(fpfile):
        try:
            d = json.load(open(fpfile))
            if d.get("fp") == fp and d.get("out") == hashlib.sha1(open(outv, "rb").read()).hexdigest():
                return True, "srcgen: sources unchanged, %s is current" % os.path.basename(outv)
        except Exception:
            pass
    rc, out, _ = run([binp, "-repo", REPO, "-spec", spec, "-out", outv], cwd=REPO, env=GOENV, timeout=900)
    if rc != 0:
        if os.path.exists(fpfile):
            os.remove(fpfile)
        return False, out.strip()
    with open(fpfile, "w") as f:
        json.dump({"fp": fp, "out": hashlib.sha1(open(outv, "rb").read()).hexdigest()}, f)
    return True, out.strip()


# --------------------------------------------------------------- coq build

def theory_files(pid, prop):
    files = sorted(glob.glob(os.path.join(COQ, "theories", "Common", "*.v")))
    for d in prop["deps"] + [pid]:
        g = os.path.join(COQ, "theories", "Gen", d + ".v")
        if os.path.exists(g):
            files.append(g)
        files += sorted(glob.glob(os.path.join(COQ, "theories", d, "*.v")))
    return [os.path.relpath(f, COQ) for f in files]


def coq_make(name, files, jobs=16, timeout=3000):
    proj = os.path.join(COQ, "_CoqProject." + name)
    content = "-Q theories Sdns\n" + "\n".join(files) + "\n"
    old = open(proj).read() if os.path.exists(proj) else None
    mk = "Makefile." + name
    if old != content or not os.path.exists(os.path.join(COQ, mk)):
        with open(proj, "w") as f:
            f.write(content)
        rc, out, _ = run(["coq_makefile", "-f", "_CoqProject." + name, "-o", mk], cwd=COQ, timeout=120)
        if rc != 0:
            return rc, out, "coq_makefile"
    cmd = ["timeout", str(timeout), "make", "-f", mk, "-j%d" % jobs, "-k"]
    rc, out, _ = run(cmd, cwd=COQ, timeout=timeout + 30)
    if rc != 0 and ("inconsistent assumptions" in out or "Error" not in out):
        # a coqc killed from outside (memory pressure) leaves no Coq error; a library rebuilt underneath a
        # running build leaves stale .vo files ("inconsistent assumptions"): both are infrastructure outcomes.
        # make resumes where it stopped; stale dependents are removed first
        if "inconsistent assumptions" in out:
            for m in re.finditer(r"Compiled library (\S+) \(in file ([^)]+\.vo)\) makes inconsistent assumptions", out):
                try:
                    os.remove(m.group(2))
                except OSError:
                    pass
        rc, out2, _ = run(cmd, cwd=COQ, timeout=timeout + 30)
        out = out2 if rc == 0 else out + "\n[second make]\n" + out2
    return rc, out, " ".join(cmd)


def parse_coq_errors(out):
    """[(file, line, message)]"""
    errs = []
    for m in re.finditer(r'File "([^"]+)", line (\d+), characters [\d-]+:\s*\n((?:.*\n){0,12}?)(?=File "|make|COQC|$)', out):
        body = m.group(3)
        if "Error" in body:
            errs.append((m.group(1), int(m.group(2)), body.strip()[:600]))
    return errs


def enclosing_name(path, line):
    try:
        lines = open(os.path.join(COQ, path) if not os.path.isabs(path) else path).read().split("\n")
    except OSError:
        return "?"
    for i in range(min(line, len(lines)) - 1, -1, -1):
        m = re.match(r"\s*(?:Local |Global |#\[[^\]]*\]\s*)*(Theorem|Lemma|Corollary|Example|Definition|Fixpoint|Instance|Fact|Remark|Proposition)\s+([A-Za-z0-9_']+)", lines[i])
        if m:
            return m.group(2)
    return "?"


def gate_forbidden(files):
    bad = []
    for f in files:
        p = os.path.join(COQ, f)
        txt = open(p).read()
        # strip comments (nested-unaware but adequate: we forbid the words in comments of proofs too only if outside "(* *)")
        stripped = re.sub(r"\(\*.*?\*\)", "", txt, flags=re.S)
        insection = 0
        for ln, l in enumerate(stripped.split("\n"), 1):
            if re.match(r"\s*Section\b", l):
                insection += 1
            if re.match(r"\s*End\b", l) and insection > 0:
                insection -= 1
            m = FORBIDDEN.search(l)
            if m:
                w = m.group(0)
                if w in ("Variable", "Variables", "Hypothesis") and insection > 0:
                    continue
                bad.append("%s:%d: %s" % (f, ln, w))
    return bad


def property_theorems(pid):
    p = os.path.join(COQ, "theories", pid, "Properties.v")
    if not os.path.exists(p):
        return []
    txt = re.sub(r"\(\*.*?\*\)", "", open(p).read(), flags=re.S)
    return re.findall(r"^\s*Theorem\s+([A-Za-z0-9_']+)", txt, flags=re.M)


def gen_lemmas(pid):
    res = []
    for f in glob.glob(os.path.join(COQ, "theories", pid, "*.v")):
        txt = re.sub(r"\(\*.*?\*\)", "", open(f).read(), flags=re.S)
        res += re.findall(r"^\s*(?:Lemma|Theorem)\s+(gen_[A-Za-z0-9_']+)", txt, flags=re.M)
    return sorted(set(res))


def print_assumptions(pid, thms):
    wd = os.path.join(WORK, pid)
    os.makedirs(wd, exist_ok=True)
    src = "From Sdns Require Import %s.Properties.\n" % pid
    for t in thms:
        src += 'Print Assumptions %s.\n' % t
    with open(os.path.join(wd, "assumptions.v"), "w") as f:
        f.write(src)
    rc, out, _ = run(["coqc", "-Q", os.path.join(COQ, "theories"), "Sdns", "assumptions.v"], cwd=wd, timeout=600)
    res = {}
    if rc != 0:
        return res, out
    chunks = re.split(r"(?=Closed under the global context|Axioms:)", out)
    chunks = [c.strip() for c in chunks if c.strip()]
    for t, c in zip(thms, chunks):
        res[t] = " ".join(c.split())
    return res, out


# ------------------------------------------------------------------ drivers

def build_driver(pid, drv):
    """compile the in-package driver test binary with the overlay; returns (ok, binpath, output)"""
    wd = os.path.join(WORK, pid)
    os.makedirs(wd, exist_ok=True)
    ov = {"Replace": {}}
    for rel in drv["overlay"]:
        src = os.path.join(ROOT, "harness", "overlay", rel)
        if not os.path.exists(src):
            return False, None, "overlay source missing: " + src
        ov["Replace"][os.path.join(REPO, rel)] = src
    ovp = os.path.join(wd, "overlay_%s.json" % drv["name"])
    with open(ovp, "w") as f:
        json.dump(ov, f)
    binp = os.path.join(wd, drv["name"] + ".test")
    cmd = ["go", "test", "-c", "-vet=off", "-tags", "verif", "-overlay", ovp, "-o", binp, "./" + drv["pkg"]]
    if drv.get("race"):
        cmd.insert(3, "-race")
    env = dict(GOENV)
    if drv.get("race"):
        env["CGO_ENABLED"] = "1"
    rc, out, dt = run(cmd, cwd=REPO, env=env, timeout=1500)
    return rc == 0, binp, out


def run_driver(pid, drv, tier, seed, n=None, replay=None, tag=""):
    wd = os.path.join(WORK, pid)
    trace = os.path.join(wd, "trace_%s%s.jsonl" % (drv["name"], tag))
    if os.path.exists(trace):
        os.remove(trace)
    binp = os.path.join(wd, drv["name"] + ".test")
    env = dict(os.environ)
    env["VERIF_SEED"] = str(seed)
    env["VERIF_TIER"] = tier
    env["VERIF_N"] = str(n if n is not None else drv.get(tier + "_n", drv.get("quick_n", 1000)))
    env["VERIF_OUT"] = trace
    env["VERIF_CORPUS"] = os.path.join(ROOT, "corpus", pid)
    if replay:
        env["VERIF_REPLAY"] = replay
    rundir = os.path.join(wd, "run_" + drv["name"])
    shutil.rmtree(rundir, ignore_errors=True)
    os.makedirs(rundir, exist_ok=True)
    env["VERIF_SCRATCH"] = rundir
    to = drv.get(tier + "_timeout", drv.get("timeout", 600))
    cmd = [binp, "-test.run", "^%s$" % drv["test"], "-test.timeout", "%ds" % to, "-test.count=1"]
    rc, out, dt = run(cmd, cwd=rundir, env=env, timeout=to + 60)
    shutil.rmtree(rundir, ignore_errors=True)
    lines = []
    if os.path.exists(trace):
        with open(trace) as f:
            for l in f:
                l = l.strip()
                if l:
                    try:
                        lines.append(json.loads(l))
                    except json.JSONDecodeError:
                        pass
    return rc, out, lines, dt


# ------------------------------------------------------------ coq evaluation

def mem_available_gb():
    try:
        for l in open("/proc/meminfo"):
            if l.startswith("MemAvailable:"):
                return int(l.split()[1]) / 1048576.0
    except OSError:
        pass
    return 1e9


def eval_cases(pid, cases, shard=800, shard_bytes=120000):
    """cases: list of trace dicts having 'coq'. returns (mismatch_idx, specfail_idx, error)"""
    wd = os.path.join(WORK, pid)
    idx = [i for i, c in enumerate(cases) if c.get("coq")]
    shards, cur, curb = [], [], 0
    for i in idx:
        b = len(cases[i]["coq"])
        if cur and (len(cur) >= shard or curb + b > shard_bytes):
            shards.append(cur)
            cur, curb = [], 0
        cur.append(i)
        curb += b
    if cur:
        shards.append(cur)
    procs = []
    for k, sh in enumerate(shards):
        fn = "cases_%d.v" % k
        body = ";\n  ".join(cases[i]["coq"] for i in sh)
        src = ("From Sdns Require Import Common.Base %s.Run.\nDefinition cases : list case :=\n  [ %s ].\n"
               "Definition M := Eval vm_compute in (failing check_case cases, failing spec_case cases).\nPrint M.\n") % (pid, body)
        with open(os.path.join(wd, fn), "w") as f:
            f.write(src)
        procs.append((k, sh, subprocess.Popen(["timeout", "1500", "coqc", "-Q", os.path.join(COQ, "theories"), "Sdns", fn], cwd=wd,
                                              stdout=subprocess.PIPE, stderr=subprocess.STDOUT, text=True)))
        # at most 16 in flight, and none started while the machine is short of memory (a shard needs ~0.5 GB;
        # a coqc killed by the kernel's OOM killer is an infrastructure outcome that costs a re-run)
        waited = 0.0
        while sum(1 for _, _, p in procs if p.poll() is None) >= 16 or (mem_available_gb() < 3.0 and waited < 300 and any(p.poll() is None for _, _, p in procs)):
            time.sleep(0.05)
            waited += 0.05
    mism, specf = [], []
    err = None
    for k, sh, p in procs:
        out, _ = p.communicate()
        if p.returncode != 0 and "Error" not in out:
            # killed from outside (memory pressure, a stray signal) or timed out without a Coq error:
            # an infrastructure outcome, not a verdict — evaluate that shard once more, alone
            rc2, out2 = 1, ""
            for attempt in range(3):
                rc2, out2, _ = run(["timeout", "1500", "coqc", "-Q", os.path.join(COQ, "theories"), "Sdns", "cases_%d.v" % k], cwd=wd, timeout=1600)
                if rc2 == 0 or "Error" in out2:
                    break
                time.sleep(10 * (attempt + 1))  # killed again: let the memory pressure pass
            if rc2 == 0:
                out = out2
                p.returncode = 0
            else:
                out = out + "\n[re-run alone: rc=%d]\n" % rc2 + out2
        if p.returncode != 0:
            err = "coqc cases_%d.v failed:\n%s" % (k, out[-2000:])
            continue
        m = re.search(r"M\s*=\s*(.*?)\s*:\s*list N \* list N", out, flags=re.S)
        if not m:
            err = "cannot parse coqc output for cases_%d.v:\n%s" % (k, out[-2000:])
            continue
        body = m.group(1)
        depth, split = 0, None
        for pos, ch in enumerate(body):
            if ch in "([":
                depth += 1
            elif ch in ")]":
                depth -= 1
            elif ch == "," and depth == 1:
                split = pos
                break
        if split is None:
            err = "cannot split result: " + body[:200]
            continue
        a = [int(x) for x in re.findall(r"\d+", body[:split])]
        b = [int(x) for x in re.findall(r"\d+", body[split:])]
        mism += [sh[j] for j in a]
        specf += [sh[j] for j in b]
    for f in glob.glob(os.path.join(wd, "cases_*.vo")) + glob.glob(os.path.join(wd, "cases_*.glob")) + glob.glob(os.path.join(wd, ".cases_*.aux")) + glob.glob(os.path.join(wd, "cases_*.vok")) + glob.glob(os.path.join(wd, "cases_*.vos")):
        try:
            os.remove(f)
        except OSError:
            pass
    return sorted(mism), sorted(specf), err


# ---------------------------------------------------------- known findings

def known_findings(pid):
    res = {}
    p = os.path.join(ROOT, "KNOWN_FINDINGS.txt")
    if not os.path.exists(p):
        return res
    for l in open(p):
        m = re.match(r"known:\s+property=(\S+)\s+key=(\S+)\s+(.*)", l.strip())
        if m and m.group(1) == pid:
            res[m.group(2)] = m.group(3)
    return res


# ------------------------------------------------------------------ verdict

def write_evidence(pid, ev):
    os.makedirs(os.path.join(ROOT, "evidence"), exist_ok=True)
    dest = os.path.join(ROOT, "evidence", pid + ".json")
    if os.path.realpath(REPO) != "/repo":
        # runs against a scratch copy (mutation testing) never touch the committed evidence
        dest = os.path.join(WORK, pid, "evidence_scratch.json")
        ev["coverage"]["scratch_repo"] = REPO
    with open(dest, "w") as f:
        json.dump(ev, f, indent=1, sort_keys=True)
        f.write("\n")


def case_key(c):
    return hashlib.sha1((c.get("coq") or json.dumps(c.get("desc"), sort_keys=True)).encode()).hexdigest()


def replay_case(pid, path):
    """re-evaluate a recorded failing case against model and spec (and print it)"""
    rec = json.load(open(path))
    c = rec.get("case") or rec.get("first_mismatching_case")
    if not c or not c.get("coq"):
        print(json.dumps(rec, indent=1)[:4000])
        print("replay: no concrete case recorded (obligation-level violation): rerun the check itself")
        return 1
    prop = load_prop(pid)
    srcgen(pid)
    with Lock("coq-" + pid):
        coq_make(pid, theory_files(pid, prop))
    mism, specf, err = eval_cases(pid, [c])
    print(json.dumps(c.get("desc"), indent=1)[:3000])
    print("replay: model-vs-observed %s; spec-vs-observed %s; go oracle: %s%s" % ("MISMATCH" if mism else "agree", "FAIL" if specf else "ok", c.get("go_fail") or "ok", ("; eval error: " + err) if err else ""))
    print("(observed values are the ones recorded when the violation was found; to re-observe the implementation run the check again with VERIF_SEED=%s)" % rec.get("seed"))
    return 1 if (mism or specf or c.get("go_fail")) else 0


def coqchk(pid, prop, files):
    """independent re-check of the compiled property theorems; cached by content hash"""
    h = hashlib.sha1()
    for f in files:
        h.update(open(os.path.join(COQ, f), "rb").read())
    hv = h.hexdigest()
    cache = os.path.join(WORK, pid, "coqchk.json")
    if os.path.exists(cache):
        try:
            d = json.load(open(cache))
            if d.get("hash") == hv:
                return d["rc"], d["out"]
        except Exception:
            pass
    rc, out, dt = run(["timeout", "2400", "coqchk", "-silent", "-o", "-Q", "theories", "Sdns", "Sdns.%s.Properties" % pid], cwd=COQ, timeout=2500)
    out = out[-6000:]
    with open(cache, "w") as f:
        json.dump({"hash": hv, "rc": rc, "out": out, "wall_s": dt}, f)
    return rc, out


def check(pid, tier, replay=None):
    if replay:
        return replay_case(pid, replay)
    t0 = time.time()
    seed = int(os.environ.get("VERIF_SEED", "1") or "1")
    prop = load_prop(pid)
    wd = os.path.join(WORK, pid)
    os.makedirs(wd, exist_ok=True)
    if os.path.exists(os.path.join(wd, "replay.json")):
        os.remove(os.path.join(wd, "replay.json"))
    broken = []        # (kind, name, detail) — proof obligations / ties that no longer check
    notes = []

    # 1. translator
    ok, msg = srcgen(pid)
    log("srcgen:", msg.split("\n")[-1] if msg else "")
    for d in prop["deps"]:
        ok2, msg2 = srcgen(d)
        if not ok2:
            broken.append(("srcgen", "Gen/%s.v" % d, msg2))
    if not ok:
        broken.append(("srcgen", "Gen/%s.v" % pid, msg))

    # 2. coq build
    files = theory_files(pid, prop)
    gate = gate_forbidden(files)
    if gate:
        broken.append(("gate", "forbidden-construct", "; ".join(gate)))
    common = [f for f in files if f.startswith("theories/Common/")]
    with Lock("coq-common"):
        coq_make("Common", common, timeout=600)
    locks = [Lock("coq-" + d) for d in sorted(set(prop["deps"] + [pid]))]
    for l in locks:
        l.__enter__()
    try:
        rc, out, make_cmd = coq_make(pid, files, timeout=int(prop.get("coq_timeout", 1500)))
    finally:
        for l in reversed(locks):
            l.__exit__()
    model_ok = os.path.exists(os.path.join(COQ, "theories", pid, "Run.vo"))
    if rc != 0:
        errs = parse_coq_errors(out)
        if not errs:
            broken.append(("coq", "build", out[-1500:]))
        for f, ln, body in errs:
            nm = enclosing_name(f, ln)
            broken.append(("coq", "%s:%s" % (os.path.basename(os.path.dirname(f)) + "/" + os.path.basename(f), nm), body))
        # a stale Run.vo must not be used when Run/Model failed to rebuild
        for f, ln, body in errs:
            if re.search(r"/(Model|Run|Spec)\.v$", f) or "/Gen/" in f or "/Common/" in f:
                model_ok = False
        log("coq build FAILED (%d error sites)" % len(errs))
    else:
        log("coq build ok")
    thms = property_theorems(pid)
    glem = gen_lemmas(pid)
    chk_out = None
    if rc == 0 and tier == "thorough" and os.environ.get("VERIF_NO_COQCHK") != "1":
        with Lock("coq-" + pid):
            crc, chk_out = coqchk(pid, prop, files)
        if crc != 0:
            broken.append(("coq", "coqchk", chk_out[-1200:]))
        log("coqchk rc=%d" % crc)
    assum = {}
    if rc == 0 and thms:
        assum, aout = print_assumptions(pid, thms)
        if len(assum) != len(thms):
            broken.append(("coq", "Print Assumptions", aout[-800:]))

    # 3. drivers
    all_cases = []
    drv_info = []
    inconclusive = 0
    for drv in prop["drivers"]:
        if tier == "quick" and drv.get("thorough_only"):
            continue
        okb, binp, bout = build_driver(pid, drv)
        if not okb:
            broken.append(("driver-build", drv["name"], bout[-1500:]))
            log("driver %s: BUILD FAILED" % drv["name"])
            continue
        rcd, dout, lines, dt = run_driver(pid, drv, tier, seed, replay=replay)
        if rcd in (-9, 137) and not any(l.get("go_fail") for l in lines):
            # killed from outside (the kernel's OOM killer under memory pressure): an infrastructure outcome — once more
            log("driver %s: killed from outside (rc %d), running it once more" % (drv["name"], rcd))
            time.sleep(15)
            rcd, dout, lines, dt = run_driver(pid, drv, tier, seed, replay=replay)
        info = {"driver": drv["name"], "pkg": drv["pkg"], "cases": len(lines), "wall_s": round(dt, 1), "exit": rcd}
        drv_info.append(info)
        log("driver %s: %d cases in %.1fs (exit %d)" % (drv["name"], len(lines), dt, rcd))
        if rcd != 0 and not any(l.get("go_fail") for l in lines):
            # the driver itself failed (panic, timeout) without pointing at an input
            broken.append(("driver-run", drv["name"], dout[-1500:]))
        for l in lines:
            l["_driver"] = drv["name"]
            if l.get("inconclusive"):
                inconclusive += 1
                continue
            all_cases.append(l)

    # 4. model evaluation
    mism, specf, everr = [], [], None
    if model_ok and all_cases:
        mism, specf, everr = eval_cases(pid, all_cases)
        if everr:
            broken.append(("coq-eval", "cases", everr))
    elif not model_ok and prop["drivers"]:
        notes.append("model not evaluated (Model/Run did not build); Go-side oracle only")
    gofail = [i for i, c in enumerate(all_cases) if c.get("go_fail")]
    log("cases=%d mismatches=%d spec_failures=%d go_oracle_failures=%d broken=%d" % (len(all_cases), len(mism), len(specf), len(gofail), len(broken)))

    # 5. verdict
    kf = known_findings(pid)
    concrete = sorted(set(specf) | set(gofail))
    unlisted = [i for i in concrete if all_cases[i].get("fkey") not in kf]
    listed_keys = sorted({all_cases[i].get("fkey") for i in concrete if all_cases[i].get("fkey") in kf})
    # mismatches on inputs that are themselves listed findings are part of that finding
    mism_unlisted = [i for i in mism if all_cases[i].get("fkey") not in kf]
    violation = None
    if unlisted:
        violation = ("concrete", unlisted)
    elif mism_unlisted or broken:
        # search harder for a failing input of the implementation
        found = []
        if not replay:
            for drv in prop["drivers"]:
                if not os.path.exists(os.path.join(wd, drv["name"] + ".test")):
                    continue
                n = int(drv.get(tier + "_n", drv.get("quick_n", 1000))) * int(drv.get("search_factor", 8))
                rcd, dout, lines, dt = run_driver(pid, drv, tier, seed + 7919, n=n, tag="_search")
                lines = [l for l in lines if not l.get("inconclusive")]
                log("search: driver %s %d cases in %.1fs" % (drv["name"], len(lines), dt))
                sf = []
                if model_ok and lines:
                    _, sf, _ = eval_cases(pid, lines)
                gf = [i for i, c in enumerate(lines) if c.get("go_fail")]
                for i in sorted(set(sf) | set(gf)):
                    if lines[i].get("fkey") not in kf:
                        lines[i]["_driver"] = drv["name"]
                        found.append(lines[i])
                if found:
                    break
        if found:
            all_cases = all_cases + found
            violation = ("concrete", list(range(len(all_cases) - len(found), len(all_cases))))
        else:
            violation = ("no-input", mism_unlisted)

    wall = time.time() - t0
    nontrivial = len({case_key(c) for c in all_cases if c.get("nontrivial", True)})
    dist = {}
    for c in all_cases:
        dist[c.get("k", "?")] = dist.get(c.get("k", "?"), 0) + 1
    obligations = len(thms) + len(glem) + 2
    failed_obl = len({b[1] for b in broken if b[0] in ("coq", "gate", "srcgen")}) + (1 if (mism_unlisted or everr) else 0) + (1 if unlisted else 0)
    discharged = max(0, obligations - failed_obl)
    samples = []
    seen_k = set()
    for c in all_cases:
        if c.get("k") not in seen_k and len(samples) < 6:
            seen_k.add(c.get("k"))
            samples.append({"kind": c.get("k"), "driver": c.get("_driver"), "input_and_observed": c.get("desc"), "coq_case": (c.get("coq") or "")[:400]})
    if not samples:
        samples = [{"obligation": t, "assumptions": assum.get(t, "?")} for t in thms[:4]] or [{"note": "no cases"}]
    ev = {
        "property_id": pid, "tier": tier, "seed": seed, "level": prop.get("level", "proof"),
        "coverage": {
            "obligations": obligations, "discharged": discharged,
            "checker_cmd": "cd coq && " + make_cmd + "  # then coqc work/%s/cases_*.v (vm_compute) and Print Assumptions" % pid,
            "trusted_base": ["Coq 8.16.1 kernel + vm_compute (no native_compute)", "harness/srcgen translator", "tools/check.py, Go -overlay drivers under harness/overlay"] + prop["trusted_base"],
            "property_theorems": thms, "translator_lemmas": glem,
            "print_assumptions": assum,
            "coqchk": (chk_out[-1500:] if chk_out else "thorough tier only"),
            "evaluations": len(all_cases), "distinct_nontrivial": nontrivial,
            "rule": prop.get("rule", "cases generated by the in-package Go drivers from VERIF_SEED; a case is non-trivial unless the driver marks it trivial; distinct = distinct Coq case term"),
            "samples": samples,
            "case_kinds": dist, "drivers": drv_info,
            "mismatches_model_vs_code": len(mism), "spec_failures": len(specf), "go_oracle_failures": len(gofail),
            "inconclusive": inconclusive,
            "known_findings_reproduced": listed_keys,
            "partial_theorems": [t for t in thms if t.endswith("_partial")],
            "refuted_theorems": [t for t in thms if t.endswith("_refuted")],
            "broken": [{"kind": b[0], "name": b[1], "detail": b[2][:400]} for b in broken],
            "translator_selftest": selftest_status(),
            "notes": notes,
        },
        "assumptions": prop["assumptions"],
        "wall_s": round(wall, 2),
        "violations": 0,
    }
    for k in listed_keys:
        print("KNOWN-FINDING: property=%s %s — %s" % (pid, k, kf[k]), flush=True)
    if violation is None:
        write_evidence(pid, ev)
        log("OK %s tier=%s wall=%.1fs obligations=%d cases=%d" % (pid, tier, wall, obligations, len(all_cases)))
        return 0
    ev["violations"] = 1
    rp = os.path.join(wd, "replay.json")
    if violation[0] == "concrete":
        # report the smallest failing case (by term size) as the replay: closest to a minimal input
        best = min(violation[1], key=lambda i: len(all_cases[i].get("coq") or json.dumps(all_cases[i].get("desc"))))
        c = all_cases[best]
        rec = {"property": pid, "kind": "failing-input", "driver": c.get("_driver"), "seed": seed, "case": {k: v for k, v in c.items() if not k.startswith("_")},
               "how": "spec oracle (Coq Run.spec_case) or Go-side oracle rejects the implementation's observed behaviour on this input",
               "other_failing_cases": len(violation[1]) - 1, "broken_obligations": [b[1] for b in broken]}
        with open(rp, "w") as f:
            json.dump(rec, f, indent=1)
        write_evidence(pid, ev)
        print("VIOLATION property=%s replay=%s" % (pid, rp), flush=True)
        return 1
    names = [b[1] for b in broken]
    if violation[1]:
        names.append("%s.Run.check_case (model/implementation correspondence)" % pid)
    rec = {"property": pid, "kind": "obligation-no-longer-checks", "seed": seed, "no_longer_checks": names,
           "details": [{"kind": b[0], "name": b[1], "detail": b[2]} for b in broken],
           "first_mismatching_case": ({k: v for k, v in all_cases[violation[1][0]].items() if not k.startswith("_")} if violation[1] else None),
           "search": "drivers re-run with a larger budget and a different seed; no input found on which the implementation's observed behaviour fails the specification"}
    with open(rp, "w") as f:
        json.dump(rec, f, indent=1)
    write_evidence(pid, ev)
    print("VIOLATION property=%s replay=%s no-failing-input-found" % (pid, rp), flush=True)
    return 1


def selftest_status():
    """result of the last tools/srcgen_selftest.sh run (differential test of the translator itself, run by --setup)"""
    try:
        return json.load(open(os.path.join(WORK, "srcgen_selftest.json")))
    except Exception:
        return {"ok": None, "why": "not run (python3 tools/check.py --setup runs it)"}


def setup():
    t0 = time.time()
    os.makedirs(WORK, exist_ok=True)
    build_srcgen()
    rc, out, dt = run(["bash", os.path.join(ROOT, "tools", "srcgen_selftest.sh"), "1"], cwd=ROOT, env=GOENV, timeout=1500)
    log("setup", out.strip().split("\n")[-1] if out.strip() else "srcgen selftest rc=%d" % rc)
    pids = sorted(os.path.basename(os.path.dirname(p)) for p in glob.glob(os.path.join(ROOT, "props", "*", "prop.json")))
    for pid in pids:
        ok, msg = srcgen(pid)
        log("setup srcgen", pid, msg.split("\n")[-1])
    files = sorted(glob.glob(os.path.join(COQ, "theories", "Common", "*.v"))) + sorted(glob.glob(os.path.join(COQ, "theories", "Gen", "*.v")))
    for pid in pids:
        files += sorted(glob.glob(os.path.join(COQ, "theories", pid, "*.v")))
    files = [os.path.relpath(f, COQ) for f in files]
    with Lock("coq"):
        rc, out, cmd = coq_make("all", files)
    log("setup coq build rc=%d" % rc)
    if rc != 0:
        print(out[-3000:])
    for pid in pids:
        prop = load_prop(pid)
        for drv in prop["drivers"]:
            okb, _, bout = build_driver(pid, drv)
            log("setup driver", pid, drv["name"], "ok" if okb else "FAILED")
            if not okb:
                print(bout[-1500:])
    log("setup done in %.0fs" % (time.time() - t0))
    return 0


def main():
    ap = argparse.ArgumentParser()
    ap.add_argument("pid", nargs="?")
    ap.add_argument("--tier", default=os.environ.get("VERIF_TIER") or "quick")
    ap.add_argument("--replay")
    ap.add_argument("--setup", action="store_true")
    a = ap.parse_args()
    if a.setup:
        sys.exit(setup())
    if not a.pid:
        ap.error("property id required")
    if a.tier not in ("quick", "thorough"):
        a.tier = "quick"
    sys.exit(check(a.pid, a.tier, a.replay))


if __name__ == "__main__":
    main()
