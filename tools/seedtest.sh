#!/bin/bash
# usage: tools/seedtest.sh <Cnn> <patch.diff> [tier]
# applies the patch to a scratch worktree of /repo, runs the check against it, removes the worktree.
set -u
pid=$1; patch=$(readlink -f $2); tier=${3:-quick}
wt=/tmp/seedwt-$pid-$$
git -C /repo worktree add --detach $wt HEAD -q || exit 2
( cd $wt && git apply $patch ) || { git -C /repo worktree remove --force $wt; echo "patch does not apply"; exit 2; }
cd /verif
VERIF_REPO=$wt python3 tools/check.py $pid --tier $tier 2>&1 | tail -${SEED_TAIL:-6}
rc=${PIPESTATUS[0]}
if [ -f work/$pid/replay.json ]; then cp work/$pid/replay.json work/$pid/replay_seed_last.json; fi
git -C /repo worktree remove --force $wt
echo "seedtest rc=$rc"
exit $rc
