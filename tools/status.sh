#!/bin/bash
cd /verif
for i in $(seq -w 1 20); do p=C$i
  pj=$([ -f props/$p/prop.json ] && echo P || echo -)
  nv=$(ls coq/theories/$p/*.v 2>/dev/null | wc -l)
  th=$(grep -c "^ *Theorem" coq/theories/$p/Properties.v 2>/dev/null || echo 0)
  ln=$(cat coq/theories/$p/*.v 2>/dev/null | wc -l)
  dr=$(ls harness/overlay/*/zz_verif_c${i}* harness/overlay/*/*/zz_verif_c${i}* harness/overlay/*/*/*/zz_verif_c${i}* 2>/dev/null | wc -l)
  ev=$([ -f evidence/$p.json ] && python3 -c "import json;d=json.load(open('evidence/$p.json'));print('viol=%s obl=%s/%s cases=%s wall=%s'%(d.get('violations'),d['coverage'].get('discharged'),d['coverage'].get('obligations'),d['coverage'].get('evaluations'),d.get('wall_s')))" 2>/dev/null || echo "no-evidence")
  nt=$([ -f props/$p/NOTES.md ] && echo N || echo -)
  echo "$p $pj$nt vfiles=$nv lines=$ln thms=$th drivers=$dr $ev"
done
