#!/usr/bin/env python3
"""print a markdown table of /verif/seeded/*/meta.json (which checks catch which seeded changes)"""
import json, glob, os, re
rows = []
for d in sorted(glob.glob("/verif/seeded/*")):
    mp = os.path.join(d, "meta.json")
    if not os.path.exists(mp):
        continue
    m = json.load(open(mp))
    what = (m.get("what") or "").replace("|", "/").replace("\n", " ")
    needs = (m.get("needs") or "").replace("|", "/").replace("\n", " ")
    res = m.get("confirmed_by_maintainer", {}).get("result", "?").replace("|", "/").replace("\n", " ")
    rows.append("| %s | %s | %s | %s |" % (os.path.basename(d), what[:260], needs[:200], res[:300]))
print("| seeded change | what it breaks | needs | result of the property's check |\n|---|---|---|---|")
print("\n".join(rows))
