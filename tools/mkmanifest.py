#!/usr/bin/env python3
"""mkmanifest.py — regenerate MANIFEST.json. READY lists the properties whose checks are live."""
import json, os, sys

ROOT = os.path.dirname(os.path.dirname(os.path.abspath(__file__)))
READY = json.load(open(os.path.join(ROOT, "tools", "ready.json")))

TEXT = {
 "C01": ("Coq theorems over a symbolic (Dolev-Yao style) DNSSEC validator model for every key-tag function and every tamper combination; real crypto is an oracle; unit driver on dnssec.Verify* with real keys and tag collisions, lab driver on the hermetic resolver harness compared with zone ground truth", "crypto primitives and denial verification are oracles; resolver control flow outside the validators tied by the lab driver only"),
 "C02": ("Coq theorems: canonical order is a total order, NSEC cover = strict (wrapping) interval, aggressive NSEC/NSEC3 classifiers sound for every zone and every subset of its genuine chain; exact verifiers refuted where the code is wrong (known findings) and proved on the rest; driver builds real NSEC/NSEC3 records from generated zones and judges every Verify*/EvaluateAggressive* verdict against zone ground truth", "NSEC3 under a stated no-collision hypothesis; SHA-1 iteration is an oracle"),
 "C03": ("Coq theorems for EVERY hash function (constant = forced collision included): wire and presentation preimages are byte-identical, preimage injective, a hit on any route implies same folded name/type/class/CD and a scope containing the client; drivers compare real preimage bytes and probe forged-key placements through every lookup route of the real cache", "xxhash itself is an arbitrary function in the theorems"),
 "C04": ("Coq theorems over the entry-lifetime calculus (admission TTL clamp, remaining = min(stored+ttl, cut) - now, min-fold over request tree, CAS late-write guard) for all histories; drivers run histories on the real cache with a timestamp shifter emulating clock advance", "time.Now reads emulated by shifting stored instants"),
 "C05": ("Coq theorem parse_wire_sound for every byte list (strict admission never accepts what the library model rejects and reads the same facts), accept table agreement, reply-header equality over all 2^16 header words, ladder refinement over an abstract store; two-real-server differential for what is not modelled", "PARTIAL: alias composition, byte-built OPT, limiter tokens and inline/replay hand-off are compared differentially only; miekg Unpack is hand-modelled"),
 "C06": ("Coq theorems over the reply-shaping model (QR/ID/opcode echo, no OPT unless asked, DNSSEC strip, AD discipline, cookie rule, UDP size bound, accept table) for every query x downstream response; refuted clauses are known findings; drivers capture raw reply bytes at UDP/TCP/DoH/DoQ entries and the edns handler", "miekg option codes/constants written in the model and tied by boundary cases"),
 "C07": ("Coq theorems: exchange guard, glue bailiwick, referral progress and well-founded descent, cacheable-answer ownership, containment (partial where the code is wrong: known findings); drivers on dnsclient/resolver/cache functions and a scripted malicious-authority lab", "the 'who is authoritative' oracle is the lab's zone tree"),
 "C08": ("Coq theorems over the lease calculus on a virtual clock (lease_def, lease_not_extendable, learned_through_dies_with_lease with the 12 h ceiling refuted/partial: known finding); drivers on authority.Cache with scripted now and on the hermetic resolver harness with timestamp shifting", "time emulated by shifting stored instants"),
 "C09": ("Coq theorems over a block-by-block model of AutoTA with arbitrary key-tag function, disk crash model and restarts (unauthenticated_changes_nothing, revocation_permanent partial/refuted, new_key_needs_30d partial/refuted, fail-closed rules, missing_90d); driver runs real NewResolver/AutoTA against a loopback root with real Ed25519 keys, FirstSeen rewriting, fault injection and crash prefixes", "signatures symbolic in the model; atomic rename assumed"),
 "C10": ("Coq theorems over interleaving automata for UDP job slabs, TCP stream framing and shared-lookup copies (send_belongs_to_lease, no_leftover_reply, stream_framing, shared_lookup_isolated) for every schedule of the modelled steps; op-level differential on the real udpJob/tcpStream and loopback stress", "PARTIAL: real goroutine interleavings, sendmmsg batching, Go memory aliasing and DoH/DoQ internals are not modelled"),
 "C11": ("Coq theorems over the writer automaton, WaitGroup generations and request automaton (at_most_one_write, one_leader_per_generation, followers_released, regroup_converges, terminal_outcome_exists); op-sequence differential on the real responseWriter/WaitGroup and fault-script pipeline driver", "PARTIAL: wall-clock latency bound and goroutine/slab leak freedom are observed, not proved"),
 "C12": ("Coq theorems: CAS ledger never exceeds its cap under every interleaving, attempt guard ceiling, resolver skeleton defined by recursion on the code's own counters (termination accepted by Coq) with exchange counts bounded by the budgets for every adversary; drivers on the real ledger/guard and the repo's attack harness counting packets at scripted upstreams", "PARTIAL: that the real control flow is the skeleton is established by packet counts only"),
 "C13": ("Coq theorems for every hash function: backoff envelope for all streaks, retry-after bound over all histories, hit only from the exact five-tuple or an ancestor zone, request-local causes never recorded, kill switch inert; drivers on the real FailureCache with scripted clock, the cache pipeline and the resolver zone-failure filter", "concurrent CAS interleaving of streak renewal not modelled (partial)"),
 "C14": ("Coq theorems: streaming key tag = RFC 4034 App. B for every byte list, RFC 3110 parse round-trip, PKCS#1 v1.5 verification = big-integer reference with square-and-multiply proved equal to pow-mod, canonical RRset form sorted/duplicate-free/permutation-invariant, binding never more permissive; three-way driver sdns vs miekg/math-big vs model", "hashes and ECDSA/Ed25519 verification are oracles"),
 "C15": ("Coq theorems: header word bit-exact, extended rcode, compressibility, OPT selection equal to the library for all values; try_pack = lib_pack and pool-state non-interference over an abstract record packer (partial under stated premises; refuted corner is a known finding); drivers compare TryPack/PackClone with dns.Msg.Pack byte for byte incl. pool reuse", "PARTIAL: byte parity of individual RR encoders by construction (same library calls) and tested"),
 "C16": ("Coq theorems for every hash: open-addressing table refines a finite map (put/get/delete with backward shift, grow, evict) preserving the probe-chain invariant; segment-map capacity/length statements; op-history differential on the real UInt64Map comparing the full slot array", "concurrent schedules beyond the modelled atomic sections are stress-tested only"),
 "C17": ("Coq theorems over the ipset model for all CIDR lists x all addresses and every sorted permutation (bounds, stabbing-query exactness, membership = 'in at least one CIDR', 4-in-6, access-list decision, first-match view, sub-pipeline filter) with ones/lessEq/ClientOnly/chain order re-translated from the source on every run; five drivers incl. the real default chain over wire/decoded/TCP paths", "netip parsing/masking and sort.Slice modelled by hand and tied by differential drivers"),
 "C18": ("Coq theorems: Exists = label-wise specification, reply shape, disk convergence for every interleaving of mutate/persist steps, crash leaves a complete file, reload equivalence (exactness refuted for special characters: known findings); drivers on the real BlockList, API router, concurrent persists and kernel-enforced write interruption", "file system: atomic rename assumed"),
 "C19": ("Coq theorems over the ECS policy model (build fail-closed, clamp bounded with host bits zero for both families, all client options stripped, no ECS to client, scoped answers only inside scope and capped/never prefetched, ECS/CD trees bypass shared denials); drivers on internal/ecs, SetEdns0, edns and the real cache with scripted scoped upstreams", "mask arithmetic cross-checked against net/netip"),
 "C20": ("Coq theorems: RFC 6052 extract(embed)=id symbolically for all six lengths/all prefixes/all IPv4, layout, PTR round-trip, illegal prefixes rejected, synthesis only when allowed, WKP exclusions, owner/TTL bounds and never-AD (refuted corners are known findings, proved for the repaired variants); driver through the real DNS64 handler with scripted downstream and queryer", "miekg EDE constants tied through driver cases"),
}


def main():
    props = [json.loads(l) for l in open(os.path.join(ROOT, "properties.jsonl"))]
    man = {
        "version": 1,
        "setup_cmd": "python3 tools/check.py --setup",
        "hooks": {
            "guard": "verif",
            "enable": "go test -c -tags verif -overlay work/Cnn/overlay_<driver>.json (files under /verif/harness/overlay are mapped into /repo package directories at build time; nothing is committed to /repo for hooks)",
            "baseline_off_cmd": "cd /repo && GOFLAGS=-mod=mod GOPROXY=off go test -json -vet=off -count=1 -timeout 25m ./...",
            "source_commits": [],
            "add_only": True,
        },
        "engines": [{
            "name": "coq-proof+correspondence", "path": "tools/check.py", "serves_properties": READY,
            "kind_free_text": "Coq 8.16.1 model + theorems per property (coq_makefile full .vo build, Print Assumptions, coqchk in thorough); harness/srcgen re-translates constants, tables, pure functions, loops (fuelled Fixpoints), slices/strings and receiver-mutating methods from /repo on every run (and is itself tested differentially at set-up); in-package Go drivers (-overlay, tag verif) record the real code's behaviour, evaluated against model and specification with vm_compute",
        }],
        "checks": [],
        "not_applicable": [],
        "notes": "Every property is decided by machine-checked proof in Coq tied to the source by a translator and a correspondence check; see DESIGN.md. Genuine defects the checks reproduced were repaired in /repo as unguarded fix: commits (FIXES_LANDED.md, DESIGN.md section 6; `fixed:` lines in KNOWN_FINDINGS.txt, which suppress nothing); the two that were not small and safe to repair are `known:` lines there and are printed as KNOWN-FINDING lines (C05 rdata-name-case, C18 blocklist-entry-spelling). No theorem depends on any axiom.",
    }
    for p in props:
        pid = p["id"]
        text, note = TEXT[pid]
        # the builders keep the current wording next to the check: props/Cnn/prop.json
        try:
            pj = json.load(open(os.path.join(ROOT, "props", pid, "prop.json")))
            text = pj.get("manifest_text") or text
            note = pj.get("manifest_note") or note
        except Exception:
            pass
        if pid in READY:
            man["checks"].append({
                "property_id": pid,
                "quick_cmd": "python3 tools/check.py %s --tier quick" % pid,
                "thorough_cmd": "python3 tools/check.py %s --tier thorough" % pid,
                "evidence_file": "evidence/%s.json" % pid,
                "replay_cmd_template": "python3 tools/check.py %s --replay {path}" % pid,
                "engine": "coq-proof+correspondence",
                "level_claimed": {"category": "proof", "text": text, "design_ref": "DESIGN.md §5 %s, props/%s/NOTES.md" % (pid, pid)},
                "level_note": "Trusted: Coq kernel + vm_compute (no native_compute, no axioms), harness/srcgen translator, tools/check.py and the overlay drivers; modelled rather than verified: " + note,
                "technique": "machine-checked proof in Coq (theorems over an executable model) + source translator + model/implementation correspondence by vm_compute",
            })
        else:
            man["not_applicable"].append({"property_id": pid, "reason": "check still under construction in this session (not yet validated on the unchanged tree); planned design in DESIGN.md §5 " + pid})
    json.dump(man, open(os.path.join(ROOT, "MANIFEST.json"), "w"), indent=1)
    print("MANIFEST: %d checks, %d not yet live" % (len(man["checks"]), len(man["not_applicable"])))


if __name__ == "__main__":
    main()
