//go:build verif

package contextutil

// C11 driver (f): the request context. Generated sequences of Err / Done /
// Cancel / parent cancel / sleep / EffectiveError on a REAL LazyDeadline inside
// a testing/synctest bubble (virtual clock), with deadlines before, at and
// after the instants the operations run at.

import (
	"context"
	"encoding/json"
	"errors"
	"fmt"
	"math/rand"
	"os"
	"strconv"
	"strings"
	"testing"
	"testing/synctest"
	"time"
)

func vC11ErrCode(err error) int {
	switch {
	case err == nil:
		return 0
	case errors.Is(err, context.DeadlineExceeded):
		return 1
	default:
		return 2
	}
}

func TestVerifC11Lazy(t *testing.T) {
	out := os.Getenv("VERIF_OUT")
	if out == "" {
		t.Skip("VERIF_OUT not set")
	}
	f, err := os.Create(out)
	if err != nil {
		t.Fatal(err)
	}
	defer f.Close()
	seed, _ := strconv.Atoi(os.Getenv("VERIF_SEED"))
	n, _ := strconv.Atoi(os.Getenv("VERIF_N"))
	if n == 0 {
		n = 200
	}
	r := rand.New(rand.NewSource(int64(seed)*86028121 + 7))
	for c := 0; c < n; c++ {
		deadline := []int{-10, 0, 5, 10, 20, 30, 1000}[r.Intn(7)]
		nops := 3 + r.Intn(9)
		var ops, obs, desc []string
		synctest.Test(t, func(t *testing.T) {
			start := time.Now()
			parent, pcancel := context.WithCancel(context.Background())
			defer pcancel()
			ctx := WithLazyDeadline(parent, start.Add(time.Duration(deadline)*time.Millisecond))
			defer ctx.Cancel()
			for i := 0; i < nops; i++ {
				switch k := r.Intn(12); {
				case k < 3:
					v := vC11ErrCode(ctx.Err())
					ops, obs, desc = append(ops, "LErr"), append(obs, fmt.Sprintf("%d%%N", v)), append(desc, fmt.Sprintf("Err=%d", v))
				case k < 5:
					v := 0
					select {
					case <-ctx.Done():
						v = 1
					default:
					}
					ops, obs, desc = append(ops, "LDone"), append(obs, fmt.Sprintf("%d%%N", v)), append(desc, fmt.Sprintf("Done closed=%d", v))
				case k < 6:
					ctx.Cancel()
					synctest.Wait()
					ops, obs, desc = append(ops, "LCancel"), append(obs, "0%N"), append(desc, "Cancel")
				case k < 7:
					pcancel()
					synctest.Wait()
					ops, obs, desc = append(ops, "LParentCancel"), append(obs, "0%N"), append(desc, "parent cancel")
				case k < 10:
					d := []int{5, 10, 20}[r.Intn(3)]
					time.Sleep(time.Duration(d) * time.Millisecond)
					synctest.Wait()
					ops, obs, desc = append(ops, fmt.Sprintf("LSleep %d", d)), append(obs, "0%N"), append(desc, fmt.Sprintf("sleep %dms", d))
				default:
					v := vC11ErrCode(EffectiveError(ctx))
					ops, obs, desc = append(ops, "LEffective"), append(obs, fmt.Sprintf("%d%%N", v)), append(desc, fmt.Sprintf("EffectiveError=%d", v))
				}
			}
		})
		dl := fmt.Sprintf("%d", deadline)
		if deadline < 0 {
			dl = fmt.Sprintf("(%d)", deadline)
		}
		b, _ := json.Marshal(map[string]any{
			"k":          "lazy-deadline",
			"coq":        fmt.Sprintf("CaseLazy %s [%s] [%s]", dl, strings.Join(ops, "; "), strings.Join(obs, "; ")),
			"nontrivial": true,
			"desc":       map[string]any{"deadline_ms": deadline, "ops": desc},
		})
		f.Write(append(b, '\n'))
	}
}
