//go:build verif

package dnsutil

// C19 correspondence driver for dnsutil.SetEdns0 (overlay-injected, never
// committed to /repo): generated requests whose additional section carries
// zero to three OPT records with arbitrary client options (subnet options of
// every shape, cookies, NSID, padding, keepalive, local codes), run through
// SetEdns0 under generated policies and client addresses.  Recorded: the
// additional section before and after.  Go-side oracle: nothing but a
// correctly clamped subnet option may survive, and only for an eligible client.

import (
	"encoding/json"
	"fmt"
	"math/big"
	"math/rand"
	"net"
	"net/netip"
	"os"
	"strconv"
	"strings"
	"testing"

	"github.com/miekg/dns"
	"github.com/semihalev/sdns/internal/ecs"
)

type vC19Trace struct{ f *os.File }

func vC19Open(t *testing.T) *vC19Trace {
	p := os.Getenv("VERIF_OUT")
	if p == "" {
		t.Skip("VERIF_OUT not set")
	}
	f, err := os.Create(p)
	if err != nil {
		t.Fatal(err)
	}
	return &vC19Trace{f: f}
}

func (v *vC19Trace) emit(m map[string]any) {
	b, _ := json.Marshal(m)
	v.f.Write(append(b, '\n'))
}

func vC19EnvInt(name string, def int) int {
	if s := os.Getenv(name); s != "" {
		if n, err := strconv.Atoi(s); err == nil {
			return n
		}
	}
	return def
}

// ---- Coq term rendering

func vC19Bool(b bool) string {
	if b {
		return "true"
	}
	return "false"
}

func vC19Bytes(b []byte) string {
	return fmt.Sprintf("(mk_ipb %d %s)", len(b), new(big.Int).SetBytes(b).String())
}

func vC19AddrVal(a netip.Addr) *big.Int {
	if a.Is4() {
		b := a.As4()
		return new(big.Int).SetBytes(b[:])
	}
	b := a.As16()
	return new(big.Int).SetBytes(b[:])
}

func vC19Addr(a netip.Addr) string {
	if !a.IsValid() {
		return "None"
	}
	return fmt.Sprintf("(Some (mk_addr %s %s))", vC19Bool(a.Is4()), vC19AddrVal(a).String())
}

func vC19PfxRaw(p netip.Prefix) string {
	return fmt.Sprintf("(mk_pfx %s %s %d)", vC19Bool(p.Addr().Is4()), vC19AddrVal(p.Addr()).String(), p.Bits())
}

func vC19Pfx(p netip.Prefix) string {
	if !p.IsValid() {
		return "None"
	}
	return "(Some " + vC19PfxRaw(p) + ")"
}

func vC19Policy(p *ecs.Policy) string {
	if p == nil {
		return "None"
	}
	var nets []string
	for _, n := range p.ClientNetworks {
		nets = append(nets, vC19PfxRaw(n))
	}
	return fmt.Sprintf("(Some (mk_policy %s %d %d [%s] %d %d))", vC19Bool(p.Enabled), p.ForwardV4Max, p.ForwardV6Max,
		strings.Join(nets, "; "), p.MinScopeV4, p.MinScopeV6)
}

func vC19EcsRaw(e *dns.EDNS0_SUBNET) string {
	return fmt.Sprintf("(mk_ecs %d %d %d %s)", e.Family, e.SourceNetmask, e.SourceScope, vC19Bytes(e.Address))
}

func vC19Ecs(e *dns.EDNS0_SUBNET) string {
	if e == nil {
		return "None"
	}
	return "(Some " + vC19EcsRaw(e) + ")"
}

func vC19Opts(opts []dns.EDNS0) string {
	var s []string
	for _, o := range opts {
		if e, ok := o.(*dns.EDNS0_SUBNET); ok {
			s = append(s, "OEcs "+vC19EcsRaw(e))
		} else {
			s = append(s, fmt.Sprintf("OOther %d", o.Option()))
		}
	}
	return "[" + strings.Join(s, "; ") + "]"
}

// ---- generators

func vC19Uint8(r *rand.Rand, around ...int) uint8 {
	switch r.Intn(4) {
	case 0:
		return uint8([]int{0, 1, 8, 16, 23, 24, 25, 31, 32, 33, 48, 55, 56, 57, 64, 127, 128, 129, 200, 255}[r.Intn(20)])
	case 1:
		if len(around) > 0 {
			v := around[r.Intn(len(around))] + r.Intn(3) - 1
			if v < 0 {
				v = 0
			}
			if v > 255 {
				v = 255
			}
			return uint8(v)
		}
	}
	return uint8(r.Intn(256))
}

func vC19RandAddr(r *rand.Rand, is4 bool) netip.Addr {
	if is4 {
		var b [4]byte
		r.Read(b[:])
		switch r.Intn(4) {
		case 0:
			b[0], b[1] = 10, byte(r.Intn(3))
		case 1:
			b = [4]byte{203, 0, 113, byte(r.Intn(256))}
		}
		return netip.AddrFrom4(b)
	}
	var b [16]byte
	r.Read(b[:])
	switch r.Intn(5) {
	case 0:
		copy(b[:], []byte{0x20, 0x01, 0x0d, 0xb8, 0, byte(r.Intn(2)), 0, byte(r.Intn(2))})
	case 1: // IPv4-mapped
		for i := 0; i < 10; i++ {
			b[i] = 0
		}
		b[10], b[11] = 0xff, 0xff
	case 2: // nearly mapped
		for i := 0; i < 10; i++ {
			b[i] = 0
		}
		b[10], b[11] = 0xff, 0xfe
	}
	return netip.AddrFrom16(b)
}

func vC19RandPrefix(r *rand.Rand) netip.Prefix {
	is4 := r.Intn(2) == 0
	a := vC19RandAddr(r, is4)
	w := a.BitLen()
	var bits int
	switch r.Intn(4) {
	case 0:
		bits = []int{0, 1, w - 1, w}[r.Intn(4)]
	case 1:
		bits = []int{8, 16, 24, 32}[r.Intn(4)]
	default:
		bits = r.Intn(w + 1)
	}
	return netip.PrefixFrom(a, bits) // host bits kept
}

var vC19Malformed = []string{"", " ", "\t", "  ", " 10.0.0.0/8", "10.0.0.0/8 ", "10.0.0.0", "10.0.0.0/33", "::/129", "10.0.0.0/-1", "10.0.0.256/8", "fe80::1%eth0/64", "1.2.3.4/ 8", "/8", "2001:db8::/x", "", " "}

type vC19BuildArgs struct {
	enabled        bool
	f4, f6, m4, m6 uint8
	nets           []string
}

func (b vC19BuildArgs) coq() string {
	var nets []string
	for _, s := range b.nets {
		p, err := netip.ParsePrefix(s)
		if err != nil {
			nets = append(nets, "None")
		} else {
			nets = append(nets, "Some "+vC19PfxRaw(p))
		}
	}
	return fmt.Sprintf("(mk_bargs %s %d %d %d %d [%s])", vC19Bool(b.enabled), b.f4, b.f6, b.m4, b.m6, strings.Join(nets, "; "))
}

func vC19GenBuildArgs(r *rand.Rand) vC19BuildArgs {
	b := vC19BuildArgs{enabled: r.Intn(8) != 0}
	pick := func(lim int) uint8 {
		switch r.Intn(10) {
		case 0, 1, 2:
			return 0
		case 3:
			return uint8(lim)
		case 4:
			return uint8(lim + 1)
		case 5:
			return uint8(r.Intn(256))
		case 6:
			return 1
		}
		return uint8(1 + r.Intn(lim))
	}
	b.f4, b.f6, b.m4, b.m6 = pick(32), pick(128), pick(32), pick(128)
	if r.Intn(3) == 0 { // mostly valid configurations
		if b.f4 > 32 {
			b.f4 = 24
		}
		if b.f6 > 128 {
			b.f6 = 56
		}
		if b.m4 > 32 {
			b.m4 = 0
		}
		if b.m6 > 128 {
			b.m6 = 0
		}
	}
	n := r.Intn(4)
	if r.Intn(3) == 0 {
		n = 0
	}
	for i := 0; i < n; i++ {
		if r.Intn(7) == 0 {
			b.nets = append(b.nets, vC19Malformed[r.Intn(len(vC19Malformed))])
		} else {
			b.nets = append(b.nets, vC19RandPrefix(r).String())
		}
	}
	return b
}

// a policy: from Build (mostly), nil, or hand-made (disabled but non-nil, ceilings beyond the width)
func vC19GenPolicy(r *rand.Rand) *ecs.Policy {
	switch r.Intn(10) {
	case 0:
		return nil
	case 1:
		p := &ecs.Policy{Enabled: r.Intn(2) == 0, ForwardV4Max: vC19Uint8(r, 24, 32), ForwardV6Max: vC19Uint8(r, 56, 128),
			MinScopeV4: vC19Uint8(r, 24, 32), MinScopeV6: vC19Uint8(r, 56, 128)}
		for i := r.Intn(3); i > 0; i-- {
			p.ClientNetworks = append(p.ClientNetworks, vC19RandPrefix(r))
		}
		return p
	}
	for {
		b := vC19GenBuildArgs(r)
		b.enabled = true
		p, err := ecs.Build(b.enabled, b.f4, b.f6, b.m4, b.m6, b.nets)
		if err == nil && p != nil {
			return p
		}
	}
}

func vC19GenECS(r *rand.Rand, p *ecs.Policy) *dns.EDNS0_SUBNET {
	e := &dns.EDNS0_SUBNET{Code: dns.EDNS0SUBNET}
	fam := 1 + r.Intn(2)
	is4 := fam == 1
	a := vC19RandAddr(r, is4)
	e.Family = uint16(fam)
	e.Address = net.IP(a.AsSlice())
	ceil := []int{24, 56}
	if p != nil {
		ceil = []int{int(p.ForwardV4Max), int(p.ForwardV6Max), int(p.MinScopeV4), int(p.MinScopeV6)}
	}
	w := a.BitLen()
	switch r.Intn(5) {
	case 0:
		e.SourceNetmask = uint8([]int{0, 1, w - 1, w}[r.Intn(4)])
	case 1:
		e.SourceNetmask = vC19Uint8(r, ceil...)
	default:
		e.SourceNetmask = uint8(r.Intn(w + 1))
	}
	e.SourceScope = 0
	if r.Intn(3) == 0 {
		e.SourceScope = uint8(r.Intn(w + 1))
	}
	// deviations
	switch r.Intn(30) {
	case 0:
		e.Family = uint16([]int{0, 3, 65535}[r.Intn(3)])
	case 1: // family / address mismatch
		e.Family = uint16(3 - fam)
	case 2:
		e.Address = nil
	case 3:
		e.Address = net.IP{}
	case 4:
		e.Address = net.IP(e.Address[:len(e.Address)-1])
	case 5: // v4 in 16-byte form
		if is4 {
			e.Address = net.IP(a.AsSlice()).To16()
		}
	case 6:
		e.SourceNetmask = vC19Uint8(r)
	case 7:
		e.Address = append(net.IP{}, append(e.Address, 7)...)
	}
	return e
}

func vC19AddrOfIP(ip net.IP) (netip.Addr, bool) {
	if v4 := ip.To4(); v4 != nil {
		return netip.AddrFromSlice(v4)
	}
	return netip.AddrFromSlice(ip)
}

// independent judgement of a forwarded option
func vC19ForwardedOK(p *ecs.Policy, in, out *dns.EDNS0_SUBNET) string {
	if p == nil || in == nil {
		return "option produced without a policy / without an input"
	}
	ia, ok := vC19AddrOfIP(in.Address)
	if !ok {
		return "option produced from an unusable address"
	}
	var ceil int
	switch out.Family {
	case 1:
		ceil = int(p.ForwardV4Max)
		if !ia.Is4() || len(out.Address) != 4 {
			return "family 1 with a non-IPv4 address"
		}
	case 2:
		ceil = int(p.ForwardV6Max)
		if !ia.Is6() || ia.Is4In6() || len(out.Address) != 16 {
			return "family 2 with a non-IPv6 address"
		}
	default:
		return fmt.Sprintf("family %d forwarded", out.Family)
	}
	if out.Family != in.Family {
		return "family changed"
	}
	if int(out.SourceNetmask) > ceil || out.SourceNetmask > in.SourceNetmask {
		return fmt.Sprintf("source prefix /%d beyond ceiling /%d or client /%d", out.SourceNetmask, ceil, in.SourceNetmask)
	}
	if out.SourceScope != 0 {
		return "query SCOPE not 0"
	}
	oa, ok := netip.AddrFromSlice(out.Address)
	if !ok {
		return "bad output address"
	}
	want, err := ia.Prefix(int(out.SourceNetmask))
	if err != nil {
		return "prefix length beyond the address width"
	}
	if netip.PrefixFrom(oa, int(out.SourceNetmask)).Masked().Addr() != oa {
		return "host bits set in forwarded address " + oa.String()
	}
	if want.Addr() != oa {
		return fmt.Sprintf("forwarded %s, client network is %s", oa, want.Addr())
	}
	return ""
}


func vC19Extra(extra []dns.RR) string {
	var s []string
	for _, rr := range extra {
		if o, ok := rr.(*dns.OPT); ok {
			s = append(s, fmt.Sprintf("ROpt (mk_optrr %d %s)", o.Version(), vC19Opts(o.Option)))
		} else {
			s = append(s, "ROther")
		}
	}
	return "[" + strings.Join(s, "; ") + "]"
}

func vC19GenOption(r *rand.Rand, p *ecs.Policy) dns.EDNS0 {
	switch r.Intn(9) {
	case 0:
		return &dns.EDNS0_COOKIE{Code: dns.EDNS0COOKIE, Cookie: "0011223344556677"}
	case 1:
		return &dns.EDNS0_NSID{Code: dns.EDNS0NSID}
	case 2:
		return &dns.EDNS0_PADDING{Padding: make([]byte, r.Intn(8))}
	case 3:
		return &dns.EDNS0_TCP_KEEPALIVE{Code: dns.EDNS0TCPKEEPALIVE}
	case 4:
		return &dns.EDNS0_LOCAL{Code: uint16(65001 + r.Intn(20)), Data: []byte{1, 2, 3}}
	}
	return vC19GenECS(r, p)
}

func vC19GenExtra(r *rand.Rand, p *ecs.Policy) []dns.RR {
	var extra []dns.RR
	nopt := 1
	switch r.Intn(40) {
	case 0, 1, 2, 3:
		nopt = 0
	case 4, 5:
		nopt = 2
	case 6:
		nopt = 3
	}
	other := func() {
		if r.Intn(5) == 0 {
			extra = append(extra, &dns.A{Hdr: dns.RR_Header{Name: "ns.example.", Rrtype: dns.TypeA, Class: dns.ClassINET, Ttl: 60}, A: net.IPv4(192, 0, 2, 1).To4()})
		}
	}
	other()
	for i := 0; i < nopt; i++ {
		o := &dns.OPT{Hdr: dns.RR_Header{Name: ".", Rrtype: dns.TypeOPT}}
		o.SetUDPSize(uint16([]int{0, 512, 1232, 4096, 65535}[r.Intn(5)]))
		if r.Intn(2) == 0 {
			o.SetDo()
		}
		if r.Intn(15) == 0 {
			o.SetVersion(uint8(1 + r.Intn(3)))
		}
		cnt := r.Intn(4)
		if r.Intn(3) == 0 {
			cnt = 1
		}
		for j := 0; j < cnt; j++ {
			o.Option = append(o.Option, vC19GenOption(r, p))
		}
		extra = append(extra, o)
		other()
	}
	return extra
}

func vC19Eligible(p *ecs.Policy, client netip.Addr) bool {
	if p == nil || !p.Enabled || !client.IsValid() {
		return false
	}
	if len(p.ClientNetworks) == 0 {
		return true
	}
	for _, q := range p.ClientNetworks {
		if q.Masked().Contains(client) {
			return true
		}
	}
	return false
}

// independent privacy oracle for an upstream-bound additional section
func vC19UpstreamOK(p *ecs.Policy, client netip.Addr, before []*dns.EDNS0_SUBNET, after []dns.RR) string {
	necs := 0
	for _, rr := range after {
		o, ok := rr.(*dns.OPT)
		if !ok {
			continue
		}
		for _, opt := range o.Option {
			e, isECS := opt.(*dns.EDNS0_SUBNET)
			if !isECS {
				return fmt.Sprintf("client option code %d survived", opt.Option())
			}
			necs++
			if !vC19Eligible(p, client) {
				return fmt.Sprintf("subnet option %s forwarded for an ineligible client %s", e.String(), client)
			}
			why := "no client subnet option to derive it from"
			for _, in := range before {
				if why = vC19ForwardedOK(p, in, e); why == "" {
					break
				}
			}
			if why != "" {
				return "forwarded subnet option " + e.String() + ": " + why
			}
		}
	}
	if necs > 1 {
		return "more than one subnet option forwarded"
	}
	return ""
}

func vC19SnapECS(extra []dns.RR) (all []*dns.EDNS0_SUBNET, leftovers bool, nopt int) {
	last := -1
	for i, rr := range extra {
		if _, ok := rr.(*dns.OPT); ok {
			last = i
			nopt++
		}
	}
	for i, rr := range extra {
		o, ok := rr.(*dns.OPT)
		if !ok {
			continue
		}
		if i != last && len(o.Option) > 0 {
			leftovers = true
		}
		for _, opt := range o.Option {
			if e, ok := opt.(*dns.EDNS0_SUBNET); ok {
				c := *e
				c.Address = append(net.IP(nil), e.Address...)
				if e.Address == nil {
					c.Address = nil
				}
				all = append(all, &c)
			}
		}
	}
	return
}

func TestVerifC19SetEdns0(t *testing.T) {
	tr := vC19Open(t)
	defer tr.f.Close()
	r := rand.New(rand.NewSource(int64(vC19EnvInt("VERIF_SEED", 1))))
	n := vC19EnvInt("VERIF_N", 1500)
	run := func(p *ecs.Policy, client netip.Addr, extra []dns.RR, kpfx string) {
		req := new(dns.Msg)
		req.SetQuestion("www.example.org.", dns.TypeA)
		req.Extra = extra
		before := vC19Extra(req.Extra)
		snap, leftovers, nopt := vC19SnapECS(req.Extra)
		var bdesc []string
		for _, rr := range req.Extra {
			bdesc = append(bdesc, rr.String())
		}
		opt, _, _, _, _ := SetEdns0(req, p, client)
		after := vC19Extra(req.Extra)
		goFail := vC19UpstreamOK(p, client, snap, req.Extra)
		if opt == nil || opt != req.IsEdns0() {
			goFail = "returned OPT is not the request's selected OPT"
		}
		_ = leftovers
		if goFail == "" && nopt >= 1 {
			n := 0
			for _, rr := range req.Extra {
				if _, ok := rr.(*dns.OPT); ok {
					n++
				}
			}
			if n != 1 {
				goFail = fmt.Sprintf("%d OPT records on the upstream-bound request", n)
			}
		}
		k := "setedns0-stripped"
		fw := false
		for _, o := range opt.Option {
			if _, ok := o.(*dns.EDNS0_SUBNET); ok {
				fw = true
			}
		}
		switch {
		case nopt == 0:
			k = "setedns0-no-opt"
		case nopt >= 2:
			k = "setedns0-multi-opt"
		case fw:
			k = "setedns0-forwarded"
		}
		var adesc []string
		for _, rr := range req.Extra {
			adesc = append(adesc, rr.String())
		}
		tr.emit(map[string]any{"k": kpfx + k, "coq": fmt.Sprintf("CaseSetEdns0 %s %s %s %s", vC19Policy(p), vC19Addr(client), before, after),
			"go_fail": goFail, "nontrivial": len(snap) > 0 || nopt > 0,
			"desc": map[string]any{"policy": fmt.Sprintf("%+v", p), "client": client.String(), "extra_before": bdesc, "extra_after": adesc}})
	}
	// regression for the former finding multi-opt-request-unstripped (fixed by d979d25): two OPT records, no policy
	{
		o1 := &dns.OPT{Hdr: dns.RR_Header{Name: ".", Rrtype: dns.TypeOPT}}
		o1.Option = []dns.EDNS0{&dns.EDNS0_SUBNET{Code: dns.EDNS0SUBNET, Family: 1, SourceNetmask: 32, Address: net.IP{203, 0, 113, 77}},
			&dns.EDNS0_COOKIE{Code: dns.EDNS0COOKIE, Cookie: "0011223344556677"}}
		o2 := &dns.OPT{Hdr: dns.RR_Header{Name: ".", Rrtype: dns.TypeOPT}}
		run(nil, netip.Addr{}, []dns.RR{o1, o2}, "replay-two-opt-")
	}
	for c := 0; c < n; c++ {
		p := vC19GenPolicy(r)
		if r.Intn(4) == 0 && p != nil { // open policy so that forwarding is exercised often
			p.ClientNetworks = nil
			p.Enabled = true
		}
		client := vC19RandAddr(r, r.Intn(2) == 0)
		if p != nil && len(p.ClientNetworks) > 0 && r.Intn(2) == 0 {
			client = p.ClientNetworks[r.Intn(len(p.ClientNetworks))].Masked().Addr()
		}
		if r.Intn(20) == 0 {
			client = netip.Addr{}
		}
		run(p, client, vC19GenExtra(r, p), "")
	}
}
