//go:build verif

package dnsutil

// C04 driver (TTL calculus): CalculateCacheTTL, getRRSIGTTL and
// ClassifyResponse on generated messages — record TTLs around the 5 s floor
// and the 24 h ceiling, SOA minimum in every section, RRSIGs with arbitrary
// windows (expired, expiring inside the floor, beyond the record TTL), OPT in
// the additional section, every response class.

import (
	"encoding/json"
	"fmt"
	"math/rand"
	"os"
	"strconv"
	"strings"
	"testing"
	"time"

	"github.com/miekg/dns"
)

func vC04EnvInt(name string, def int) int {
	if s := os.Getenv(name); s != "" {
		if n, err := strconv.Atoi(s); err == nil {
			return n
		}
	}
	return def
}

var vC04TTLs = []uint32{0, 1, 4, 5, 6, 30, 60, 299, 300, 3600, 86399, 86400, 86401, 100000, 604800, 4294967295}

func vC04TTL(r *rand.Rand) uint32 {
	if r.Intn(4) == 0 {
		return uint32(r.Intn(90000))
	}
	return vC04TTLs[r.Intn(len(vC04TTLs))]
}

var vC04SigDeltas = []int64{-100000, -100, -1, 0, 1, 2, 4, 5, 6, 7, 59, 60, 61, 299, 300, 301, 3600, 86399, 86400, 86401, 200000}

type vC04RR struct {
	sec  int
	ttl  uint32
	kind string // Coq rkind term
	rr   dns.RR
}

func vC04Class(mt ResponseType) string {
	switch mt {
	case TypeSuccess:
		return "RSuccess"
	case TypeNXDomain:
		return "RNXDomain"
	case TypeNoRecords:
		return "RNoRecords"
	case TypeReferral:
		return "RReferral"
	case TypeServerFailure:
		return "RServFail"
	case TypeNotCacheable:
		return "RNotCacheable"
	case TypeExpiredSignature:
		return "RExpiredSig"
	default:
		return "ROther"
	}
}

func vC04GenRR(r *rand.Rand, sec int, owner string, nowUnix int64) vC04RR {
	ttl := vC04TTL(r)
	hdr := func(t uint16) dns.RR_Header {
		return dns.RR_Header{Name: owner, Rrtype: t, Class: dns.ClassINET, Ttl: ttl}
	}
	switch k := r.Intn(10); {
	case k < 4:
		return vC04RR{sec, ttl, "KPlain", &dns.A{Hdr: hdr(dns.TypeA), A: []byte{192, 0, 2, byte(r.Intn(250))}}}
	case k < 6:
		min := vC04TTL(r)
		return vC04RR{sec, ttl, fmt.Sprintf("(KSoa %d)", min), &dns.SOA{Hdr: hdr(dns.TypeSOA), Ns: "ns.example.", Mbox: "h.example.", Serial: 1, Refresh: 1, Retry: 1, Expire: 1, Minttl: min}}
	case k < 9:
		exp := nowUnix + vC04SigDeltas[r.Intn(len(vC04SigDeltas))]
		if r.Intn(5) == 0 {
			exp = nowUnix + int64(r.Intn(400)) - 20
		}
		return vC04RR{sec, ttl, fmt.Sprintf("(KSig %d)", exp), &dns.RRSIG{Hdr: hdr(dns.TypeRRSIG), TypeCovered: dns.TypeA, Algorithm: 8, Labels: 2, OrigTtl: ttl,
			Expiration: uint32(exp), Inception: uint32(nowUnix - 3600), KeyTag: 1, SignerName: "example.", Signature: "AAAA"}}
	default:
		return vC04RR{sec, ttl, "KPlain", &dns.NS{Hdr: hdr(dns.TypeNS), Ns: "ns1.example."}}
	}
}

func vC04RRsCoq(rrs []vC04RR) string {
	var p []string
	for _, x := range rrs {
		p = append(p, fmt.Sprintf("mk_rr %d %d %s", x.sec, x.ttl, x.kind))
	}
	return "[" + strings.Join(p, "; ") + "]"
}

func TestVerifC04TTL(t *testing.T) {
	p := os.Getenv("VERIF_OUT")
	if p == "" {
		t.Skip("VERIF_OUT not set")
	}
	f, err := os.Create(p)
	if err != nil {
		t.Fatal(err)
	}
	defer f.Close()
	r := rand.New(rand.NewSource(int64(vC04EnvInt("VERIF_SEED", 1)) + 404))
	n := vC04EnvInt("VERIF_N", 1500)
	emit := func(m map[string]any) {
		b, _ := json.Marshal(m)
		f.Write(append(b, '\n'))
	}
	for c := 0; c < n; c++ {
		switch c % 5 {
		case 0: // getRRSIGTTL with an explicit clock: exact, sub-second boundaries included
			sec := int64(1700000000 + r.Intn(200000000))
			nsec := int64(0)
			switch r.Intn(4) {
			case 0:
				nsec = int64(r.Intn(1000000000))
			case 1:
				nsec = 999999999
			case 2:
				nsec = 1
			}
			now := time.Unix(sec, nsec)
			ttl := vC04TTL(r)
			exp := sec + vC04SigDeltas[r.Intn(len(vC04SigDeltas))]
			sig := &dns.RRSIG{Hdr: dns.RR_Header{Name: "a.example.", Rrtype: dns.TypeRRSIG, Class: dns.ClassINET, Ttl: ttl}, Expiration: uint32(exp)}
			got := getRRSIGTTL(sig, now)
			nowNs := sec*1000000000 + nsec
			fail := ""
			until := exp*1000000000 - nowNs
			if until > 0 && int64(got) > until && until >= int64(MinCacheTTL) {
				fail = "getRRSIGTTL exceeds the time to expiry"
			}
			emit(map[string]any{"k": "sigttl", "nontrivial": true, "go_fail": fail,
				"coq":  fmt.Sprintf("CSigTTL %d %d %d %d", ttl, exp, nowNs, int64(got)),
				"desc": map[string]any{"ttl": ttl, "expiration": exp, "now_ns": nowNs, "got_ns": int64(got)}})
		default:
			nowUnix := time.Now().Unix()
			m := new(dns.Msg)
			qtype := dns.TypeA
			if r.Intn(12) == 0 {
				qtype = dns.TypeDNSKEY
			}
			qname := "www.example."
			m.SetQuestion(qname, qtype)
			m.Response = true
			switch r.Intn(10) {
			case 0:
				m.Rcode = dns.RcodeServerFailure
			case 1, 2:
				m.Rcode = dns.RcodeNameError
			case 3:
				m.Rcode = dns.RcodeRefused
			}
			if r.Intn(40) == 0 {
				m.Opcode = dns.OpcodeNotify
			}
			if r.Intn(40) == 0 {
				m.Question[0].Qtype = dns.TypeAXFR
			}
			var rrs []vC04RR
			nAns := 0
			if m.Rcode == dns.RcodeSuccess && r.Intn(3) > 0 {
				nAns = 1 + r.Intn(3)
			} else if r.Intn(6) == 0 {
				nAns = 1
			}
			for i := 0; i < nAns; i++ {
				x := vC04GenRR(r, 0, qname, nowUnix)
				rrs = append(rrs, x)
				m.Answer = append(m.Answer, x.rr)
			}
			for i, k := 0, r.Intn(4); i < k; i++ {
				owner := "example."
				if r.Intn(4) == 0 {
					owner = "sub.www.example." // not an ancestor: no delegation
				}
				x := vC04GenRR(r, 1, owner, nowUnix)
				rrs = append(rrs, x)
				m.Ns = append(m.Ns, x.rr)
			}
			for i, k := 0, r.Intn(3); i < k; i++ {
				if r.Intn(3) == 0 {
					o := new(dns.OPT)
					o.Hdr.Name = "."
					o.Hdr.Rrtype = dns.TypeOPT
					o.Hdr.Ttl = uint32(r.Intn(70000))
					o.SetUDPSize(1232)
					rrs = append(rrs, vC04RR{2, o.Hdr.Ttl, "KOpt", o})
					m.Extra = append(m.Extra, o)
					continue
				}
				x := vC04GenRR(r, 2, "ns1.example.", nowUnix)
				rrs = append(rrs, x)
				m.Extra = append(m.Extra, x.rr)
			}
			if c%5 == 1 {
				// classification with an explicit clock
				now := time.Unix(nowUnix+int64(r.Intn(5))-2, int64(r.Intn(1000000000)))
				mt, _ := ClassifyResponse(m, now)
				meta := false
				if q := m.Question[0].Qtype; q == dns.TypeAXFR || q == dns.TypeIXFR || m.Opcode == dns.OpcodeUpdate || m.Opcode == dns.OpcodeNotify {
					meta = true
				}
				rc := m.Rcode
				if rc != 0 && rc != 2 && rc != 3 {
					rc = 9
				}
				emit(map[string]any{"k": "classify-" + vC04Class(mt), "nontrivial": true,
					"coq": fmt.Sprintf("CClassify %d %v %d %v %v %v %s %d %s", rc, meta, len(m.Answer), isDelegation(m), hasSOA(m), shouldCache(m),
						vC04RRsCoq(rrs), now.Unix(), vC04Class(mt)),
					"desc": map[string]any{"msg": m.String(), "now": now.Unix(), "class": vC04Class(mt)}})
				continue
			}
			mt, _ := ClassifyResponse(m, time.Now())
			if r.Intn(6) == 0 { // CalculateCacheTTL is total in the class argument
				mt = []ResponseType{TypeSuccess, TypeNXDomain, TypeNoRecords, TypeReferral, TypeServerFailure, TypeNotCacheable, TypeExpiredSignature, TypeMetaQuery}[r.Intn(8)]
			}
			w0 := time.Now().UnixNano()
			got := CalculateCacheTTL(m, mt)
			w1 := time.Now().UnixNano()
			// Go-side oracle: floor, ceiling, and no term at or above the floor is exceeded
			fail := ""
			if mt == TypeSuccess || mt == TypeNXDomain || mt == TypeNoRecords {
				if got < MinCacheTTL || got > MaxCacheTTL {
					fail = "outside [5s,24h]"
				}
				for _, x := range rrs {
					if x.kind == "KOpt" && x.sec == 2 {
						continue
					}
					term := time.Duration(x.ttl) * time.Second
					if term >= MinCacheTTL && got > term {
						fail = fmt.Sprintf("exceeds record ttl %v", term)
					}
					if sig, ok := x.rr.(*dns.RRSIG); ok {
						rem := time.Duration(int64(sig.Expiration)*1000000000 - w0)
						if rem >= MinCacheTTL && got > rem {
							fail = fmt.Sprintf("exceeds RRSIG remaining %v", rem)
						}
					}
					if soa, ok := x.rr.(*dns.SOA); ok && x.sec == 1 && mt != TypeSuccess {
						term := time.Duration(soa.Minttl) * time.Second
						if term >= MinCacheTTL && got > term {
							fail = fmt.Sprintf("exceeds SOA minimum %v", term)
						}
					}
				}
			}
			emit(map[string]any{"k": "calc-" + vC04Class(mt), "nontrivial": len(rrs) > 0, "go_fail": fail,
				"coq":  fmt.Sprintf("CCalc %s %s %d %d %d", vC04Class(mt), vC04RRsCoq(rrs), w0, w1, int64(got)),
				"desc": map[string]any{"msg": m.String(), "class": vC04Class(mt), "got_ns": int64(got)}})
		}
	}
}
