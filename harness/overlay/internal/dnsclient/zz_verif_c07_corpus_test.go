//go:build verif

package dnsclient

// C07: fixed regression scripts for Conn.Exchange from $VERIF_CORPUS/exchange.json, replayed first on
// every run (the inputs on which mutations and seeded changes were caught), so that a regression is
// seen even if the random generators drift.

import (
	"encoding/json"
	"fmt"
	"os"
	"path/filepath"
	"strings"

	"github.com/miekg/dns"
)

type vC07CorpusQ struct {
	Name  string `json:"name"`
	Type  uint16 `json:"type"`
	Class uint16 `json:"class"`
}

type vC07CorpusDg struct {
	Kind   string `json:"kind"` // "" = message, "zeros", "garbage"
	Zeros  int    `json:"zeros"`
	ID     string `json:"id"`
	Rcode  int    `json:"rcode"`
	Q      string `json:"q"`
	Repeat int    `json:"repeat"`
}

type vC07CorpusCase struct {
	Why       string         `json:"why"`
	Stream    bool           `json:"stream"`
	ReqID     uint16         `json:"req_id"`
	Q         *vC07CorpusQ   `json:"q"`
	AllRcodes bool           `json:"all_rcodes"`
	Script    []vC07CorpusDg `json:"script"`
}

func vC07ParsePlain(s string) vC07Name {
	var out vC07Name
	for _, l := range strings.Split(strings.TrimSuffix(s, "."), ".") {
		if l != "" {
			out = append(out, l)
		}
	}
	return out
}

func vC07ClientCorpus(emit func(map[string]any)) {
	dir := os.Getenv("VERIF_CORPUS")
	if dir == "" {
		return
	}
	raw, err := os.ReadFile(filepath.Join(dir, "exchange.json"))
	if err != nil {
		return
	}
	var doc struct {
		Cases []vC07CorpusCase `json:"cases"`
	}
	if err := json.Unmarshal(raw, &doc); err != nil {
		panic("corpus/C07/exchange.json: " + err.Error())
	}
	for ci, c := range doc.Cases {
		rcodes := []int{-1}
		if c.AllRcodes {
			rcodes = []int{0, 1, 2, 3, 4, 5, 9, 10}
		}
		for _, forced := range rcodes {
			req := new(dns.Msg)
			req.Id = c.ReqID
			var rq *vC07Q
			rqCoq := "None"
			if c.Q != nil {
				q := vC07Q{name: vC07ParsePlain(c.Q.Name), qtype: c.Q.Type, class: c.Q.Class}
				rq = &q
				req.Question = []dns.Question{q.dns()}
				rqCoq = "(Some " + q.coq() + ")"
			}
			var dgs []vC07Dg
			for _, e := range c.Script {
				rep := e.Repeat
				if rep < 1 {
					rep = 1
				}
				for k := 0; k < rep; k++ {
					d := vC07Dg{tag: "corpus"}
					switch e.Kind {
					case "zeros":
						d.kind, d.zeros = 1, e.Zeros
					case "garbage":
						d.kind = 2
					default:
						d.rcode = e.Rcode
						if forced >= 0 {
							d.rcode = forced
						}
						switch e.ID {
						case "other":
							d.id = c.ReqID + 1 + uint16(k)
						case "flip15":
							d.id = c.ReqID ^ 0x8000
						default:
							d.id = c.ReqID
						}
						if rq != nil {
							q := *rq
							switch e.Q {
							case "none":
							case "case":
								nm := append(vC07Name{}, q.name...)
								for i := range nm {
									nm[i] = strings.ToUpper(nm[i])
								}
								q.name = nm
								d.qs = []vC07Q{q}
							case "other":
								q.name = vC07Name{"www", "victim", "test"}
								d.qs = []vC07Q{q}
							case "class":
								q.class = dns.ClassCHAOS + dns.ClassINET - q.class
								d.qs = []vC07Q{q}
							case "type":
								q.qtype = dns.TypeA + dns.TypeAAAA - q.qtype
								if q.qtype != dns.TypeA && q.qtype != dns.TypeAAAA {
									q.qtype = dns.TypeTXT
								}
								d.qs = []vC07Q{q}
							case "two":
								d.qs = []vC07Q{q, q}
							default:
								d.qs = []vC07Q{q}
							}
						}
					}
					dgs = append(dgs, d)
				}
			}
			proto := "udp"
			if c.Stream {
				proto = "stream"
			}
			vC07RunScript(c.Stream, req, rq, rqCoq, dgs, []string{fmt.Sprintf("corpus#%d", ci), c.Why}, "corpus-"+proto, emit)
		}
	}
}
