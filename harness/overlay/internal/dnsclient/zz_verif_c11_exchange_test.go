//go:build verif

package dnsclient

// C11 driver "exchange": a lookup's fan-out of upstream exchanges on ONE real
// InterruptGroup (NewInterruptGroup / Conn.ExchangeInterruptible / Close, with
// the fallback to Conn.ExchangeContext when the group is full), each exchange
// on a scripted net.Conn with socket deadline semantics, inside a
// testing/synctest bubble (virtual clock).  Upstream scripts per exchange:
// silence, the matching response early / late / after the bound, datagrams
// with another ID in front of it, the right ID with another question, bytes
// that do not unpack, short datagrams; UDP (net.PacketConn) and stream
// connections.  The lookup's context is cancelled at a scripted instant (then
// Close, the order of Resolver.lookup's defers) or only after everything ended.
//
// Instants are kept apart by residues mod 8 so that neither Go's scheduler nor
// select picks an order: starts 0, arrivals 1/3/5/7, network deadlines 2, the
// cancellation 4.
//
// A second kind of case ties the srcgen translation of QuestionMatches.

import (
	"context"
	"encoding/json"
	"errors"
	"fmt"
	"math/rand"
	"net"
	"os"
	"sort"
	"strconv"
	"strings"
	"sync"
	"testing"
	"testing/synctest"
	"time"

	"github.com/miekg/dns"
)

const (
	vC11Good = iota
	vC11WrongId
	vC11WrongQ
	vC11Garbage
	vC11Short
)

var vC11KindName = []string{"DGood", "DWrongId", "DWrongQ", "DGarbage", "DShort"}

type vC11Arrival struct {
	at   int // ms after the bubble's start
	kind int
	data []byte
}

type vC11Addr struct{}

func (vC11Addr) Network() string { return "verif" }
func (vC11Addr) String() string  { return "verif" }

// vC11Conn is a scripted socket: a Read / Write issued at or after the armed
// bound fails with a timeout; a blocked Read is released at the bound or when
// SetDeadline moves it; the bound wins a tie with data.
type vC11Conn struct {
	mu       sync.Mutex
	origin   time.Time
	deadline time.Time
	changed  chan struct{}
	arr      []vC11Arrival
	stream   bool
	buf      []byte
	hits     int  // SetDeadline(t) with t not after now: an interruption
	late     int  // interruptions that arrived after the exchange had returned
	returned bool // set by the driver when ExchangeInterruptible returned
	written  int
}

type vC11Timeout struct{}

func (vC11Timeout) Error() string   { return "i/o timeout (scripted)" }
func (vC11Timeout) Timeout() bool   { return true }
func (vC11Timeout) Temporary() bool { return true }

func (c *vC11Conn) ms() int { return int(time.Since(c.origin) / time.Millisecond) }

func (c *vC11Conn) Read(p []byte) (int, error) {
	for {
		c.mu.Lock()
		if len(c.buf) > 0 {
			n := copy(p, c.buf)
			c.buf = c.buf[n:]
			c.mu.Unlock()
			return n, nil
		}
		now := time.Now()
		if !c.deadline.IsZero() && !now.Before(c.deadline) {
			c.mu.Unlock()
			return 0, &net.OpError{Op: "read", Net: "verif", Err: vC11Timeout{}}
		}
		var wait time.Duration = -1
		if len(c.arr) > 0 {
			at := c.origin.Add(time.Duration(c.arr[0].at) * time.Millisecond)
			if !now.Before(at) {
				a := c.arr[0]
				c.arr = c.arr[1:]
				if c.stream {
					c.buf = append([]byte{byte(len(a.data) >> 8), byte(len(a.data))}, a.data...)
					c.mu.Unlock()
					continue
				}
				n := copy(p, a.data)
				c.mu.Unlock()
				return n, nil
			}
			wait = at.Sub(now)
		}
		if !c.deadline.IsZero() {
			if d := c.deadline.Sub(now); wait < 0 || d < wait {
				wait = d
			}
		}
		ch := c.changed
		c.mu.Unlock()
		if wait < 0 {
			<-ch
			continue
		}
		t := time.NewTimer(wait)
		select {
		case <-t.C:
		case <-ch:
			t.Stop()
		}
	}
}

func (c *vC11Conn) Write(p []byte) (int, error) {
	c.mu.Lock()
	defer c.mu.Unlock()
	if !c.deadline.IsZero() && !time.Now().Before(c.deadline) {
		return 0, &net.OpError{Op: "write", Net: "verif", Err: vC11Timeout{}}
	}
	c.written++
	return len(p), nil
}

func (c *vC11Conn) SetDeadline(t time.Time) error {
	c.mu.Lock()
	c.deadline = t
	if !t.IsZero() && !t.After(time.Now()) {
		c.hits++
		if c.returned {
			c.late++
		}
	}
	close(c.changed)
	c.changed = make(chan struct{})
	c.mu.Unlock()
	return nil
}
func (c *vC11Conn) SetReadDeadline(t time.Time) error  { return c.SetDeadline(t) }
func (c *vC11Conn) SetWriteDeadline(t time.Time) error { return c.SetDeadline(t) }
func (c *vC11Conn) Close() error                       { return nil }
func (c *vC11Conn) LocalAddr() net.Addr                { return vC11Addr{} }
func (c *vC11Conn) RemoteAddr() net.Addr               { return vC11Addr{} }

// vC11PktConn is the same socket seen as a connected UDP socket.
type vC11PktConn struct{ *vC11Conn }

func (c vC11PktConn) ReadFrom(p []byte) (int, net.Addr, error) {
	n, err := c.vC11Conn.Read(p)
	return n, vC11Addr{}, err
}
func (c vC11PktConn) WriteTo(p []byte, _ net.Addr) (int, error) { return c.vC11Conn.Write(p) }

type vC11Exchange struct {
	start, deadline int
	stream          bool
	arr             []vC11Arrival
	// observed
	ret, class, hits, late int
	failNote               string
}

const vC11QName = "Host.Example.Org."

func vC11Request() *dns.Msg {
	m := new(dns.Msg)
	m.SetQuestion(vC11QName, dns.TypeA)
	m.Id = 0x4b1d
	return m
}

func vC11Datagram(r *rand.Rand, kind int) []byte {
	m := new(dns.Msg)
	m.Id = 0x4b1d
	m.Response = true
	name := vC11QName
	if r.Intn(2) == 0 {
		name = strings.ToLower(name) // 0x20: names compare without regard to letter case
	}
	m.Question = []dns.Question{{Name: name, Qtype: dns.TypeA, Qclass: dns.ClassINET}}
	switch kind {
	case vC11Good:
		rr, _ := dns.NewRR(name + " 60 IN A 198.51.100.7")
		m.Answer = append(m.Answer, rr)
	case vC11WrongId:
		m.Id = uint16(0x4b1d + 1 + r.Intn(5))
		if r.Intn(3) == 0 { // a stray reply to another question altogether
			m.Question[0].Name = "other.example.org."
		}
	case vC11WrongQ:
		switch r.Intn(5) {
		case 0:
			m.Question[0].Name = "host.example.net."
		case 1:
			m.Question[0].Qtype = dns.TypeAAAA
		case 2:
			m.Question[0].Qclass = dns.ClassCHAOS
		case 3:
			m.Question = nil
		default:
			m.Question = append(m.Question, dns.Question{Name: "second.example.org.", Qtype: dns.TypeA, Qclass: dns.ClassINET})
		}
	case vC11Garbage:
		b, _ := m.Pack()
		if r.Intn(2) == 0 {
			b[0] ^= 0x55 // the ID does not matter: an undecodable datagram ends the exchange
		}
		return b[:12+3+r.Intn(6)] // a header announcing one question, the question cut short
	case vC11Short:
		return []byte{0x4b, 0x1d, 0x80, 0x00, 0x00}[:1+r.Intn(5)]
	}
	b, err := m.Pack()
	if err != nil {
		panic(err)
	}
	return b
}

func vC11ResultClass(m, r *dns.Msg, err error) (int, string) {
	var ne net.Error
	switch {
	case err == nil:
		if r == nil || r.Id != m.Id || len(r.Question) != 1 || !strings.EqualFold(r.Question[0].Name, m.Question[0].Name) ||
			r.Question[0].Qtype != m.Question[0].Qtype || r.Question[0].Qclass != m.Question[0].Qclass {
			return 0, "accepted a response that does not carry the request's ID and question"
		}
		return 0, ""
	case errors.As(err, &ne) && ne.Timeout():
		return 1, ""
	case errors.Is(err, ErrQuestion):
		return 2, ""
	case errors.Is(err, dns.ErrShortRead):
		return 4, ""
	case errors.Is(err, dns.ErrId):
		return 5, ""
	default:
		return 3, ""
	}
}

type vC11FanCase struct {
	kind   string
	cancel int // -1: only after everything ended
	xs     []*vC11Exchange
}

func vC11GenArrivals(r *rand.Rand, start, deadline int, stream bool) []vC11Arrival {
	var arr []vC11Arrival
	t := start
	n := 0
	switch k := r.Intn(10); {
	case k < 2: // silence
		return nil
	case k < 5:
		n = 1
	default:
		n = 1 + r.Intn(4)
	}
	for j := 0; j < n; j++ {
		gap := []int{1, 3, 9, 17, 41, 95, 201}[r.Intn(7)] // odd: arrivals stay on odd residues
		t += gap + (gap+1)%2
		if t%2 == 0 {
			t++
		}
		kind := vC11Good
		if j < n-1 {
			kind = []int{vC11WrongId, vC11WrongId, vC11WrongId, vC11WrongQ, vC11Garbage, vC11Short, vC11Good}[r.Intn(7)]
		} else {
			kind = []int{vC11Good, vC11Good, vC11Good, vC11Good, vC11WrongId, vC11WrongQ, vC11Garbage, vC11Short}[r.Intn(8)]
		}
		arr = append(arr, vC11Arrival{at: t, kind: kind, data: vC11Datagram(r, kind)})
	}
	return arr
}

func vC11GenFan(r *rand.Rand, c int) *vC11FanCase {
	fc := &vC11FanCase{cancel: -1}
	n := 1 + r.Intn(4)
	netTimeout := []int{50, 98, 202, 402}[r.Intn(4)] // ≡ 2 mod 8 when added to a start ≡ 0
	tmpl := c % 6
	switch tmpl {
	case 0:
		fc.kind = "fan-plain"
	case 1:
		fc.kind = "fan-winner" // one answers, the lookup cancels the stragglers
	case 2:
		fc.kind = "fan-overflow" // more exchanges in flight than the group has slots
		n = 9 + r.Intn(4)
		netTimeout = 402
	case 3:
		fc.kind = "fan-latestart" // exchanges that start after the cancellation
	case 4:
		fc.kind = "fan-strays"
	default:
		fc.kind = "fan-stream"
	}
	start := 0
	for i := 0; i < n; i++ {
		x := &vC11Exchange{start: start, stream: tmpl == 5 && r.Intn(3) > 0}
		x.deadline = start + netTimeout
		for x.deadline%8 != 2 {
			x.deadline++
		}
		x.arr = vC11GenArrivals(r, x.start, x.deadline, x.stream)
		if tmpl == 4 && !x.stream { // a run of strays in front of whatever comes
			var pre []vC11Arrival
			t := x.start
			for j := 0; j < 1+r.Intn(4); j++ {
				t += 1 + 2*r.Intn(6)
				if t%2 == 0 {
					t++
				}
				pre = append(pre, vC11Arrival{at: t, kind: vC11WrongId, data: vC11Datagram(r, vC11WrongId)})
			}
			for j := range x.arr {
				x.arr[j].at += t - x.start + (t-x.start)%2
			}
			x.arr = append(pre, x.arr...)
		}
		if tmpl == 2 && r.Intn(4) > 0 {
			x.arr = nil // stragglers that hold their slot
		}
		fc.xs = append(fc.xs, x)
		start += 8 * (1 + r.Intn(4))
	}
	last := fc.xs[n-1].start
	switch tmpl {
	case 1:
		fc.cancel = 8*r.Intn(last/8+12) + 4
	case 2:
		if r.Intn(4) > 0 { // after the last start: the group was full when it fired
			fc.cancel = last + 8*r.Intn(12) + 4
		} else if r.Intn(2) == 0 {
			fc.cancel = 8*r.Intn(last/8+1) + 4
		}
	case 3:
		fc.cancel = 8*r.Intn(last/8+1) + 4
	default:
		if r.Intn(3) == 0 {
			fc.cancel = 8*r.Intn(last/8+30) + 4
		}
	}
	return fc
}

func vC11RunFan(t *testing.T, fc *vC11FanCase) (samples []int, series []int) {
	set := map[int]bool{}
	for _, x := range fc.xs {
		set[x.start] = true
		set[x.deadline] = true
		for _, a := range x.arr {
			set[a.at] = true
		}
	}
	if fc.cancel >= 0 {
		set[fc.cancel] = true
	}
	for T := range set {
		samples = append(samples, T)
	}
	sort.Ints(samples)
	synctest.Test(t, func(t *testing.T) {
		origin := time.Now()
		ctx, cancel := context.WithCancel(context.Background())
		g := NewInterruptGroup(ctx)
		var wg sync.WaitGroup
		for _, x := range fc.xs {
			x := x
			base := &vC11Conn{origin: origin, changed: make(chan struct{}), arr: x.arr, stream: x.stream}
			var nc net.Conn = base
			if !x.stream {
				nc = vC11PktConn{base}
			}
			wg.Add(1)
			go func() {
				defer wg.Done()
				time.Sleep(time.Duration(x.start) * time.Millisecond)
				co := &Conn{Conn: nc}
				// as Resolver.exchange: the ordinary network deadline first
				_ = co.SetDeadline(origin.Add(time.Duration(x.deadline) * time.Millisecond))
				m := vC11Request()
				r, _, err := co.ExchangeInterruptible(ctx, g, m)
				base.mu.Lock()
				base.returned = true
				base.mu.Unlock()
				x.ret = base.ms()
				x.class, x.failNote = vC11ResultClass(m, r, err)
			}()
			defer func() {
				base.mu.Lock()
				x.hits, x.late = base.hits, base.late
				base.mu.Unlock()
			}()
		}
		for _, T := range samples {
			time.Sleep(time.Until(origin.Add(time.Duration(T) * time.Millisecond)))
			if T == fc.cancel {
				// the exit of Resolver.lookup: cancel runs first, then the group is detached
				cancel()
				g.Close()
			}
			synctest.Wait()
			occ := 0
			g.mu.Lock()
			for _, c := range g.conns {
				if c != nil {
					occ++
				}
			}
			g.mu.Unlock()
			series = append(series, occ)
		}
		wg.Wait()
		cancel()
		g.Close()
		synctest.Wait()
	})
	return samples, series
}

func vC11Z(v int) string {
	if v < 0 {
		return fmt.Sprintf("(%d)", v)
	}
	return strconv.Itoa(v)
}

func vC11Bytes(s string) string {
	var b []string
	for i := 0; i < len(s); i++ {
		b = append(b, strconv.Itoa(int(s[i])))
	}
	return "[" + strings.Join(b, ";") + "]%N"
}

func vC11Q(q dns.Question) string {
	return fmt.Sprintf("(mk_T_Question %s %d%%N %d%%N)", vC11Bytes(q.Name), q.Qtype, q.Qclass)
}

func TestVerifC11Exchange(t *testing.T) {
	out := os.Getenv("VERIF_OUT")
	if out == "" {
		t.Skip("VERIF_OUT not set")
	}
	f, err := os.Create(out)
	if err != nil {
		t.Fatal(err)
	}
	defer f.Close()
	seed, _ := strconv.Atoi(os.Getenv("VERIF_SEED"))
	n, _ := strconv.Atoi(os.Getenv("VERIF_N"))
	if n == 0 {
		n = 100
	}
	r := rand.New(rand.NewSource(int64(seed)*50331653 + 11))
	emit := func(m map[string]any) {
		b, _ := json.Marshal(m)
		f.Write(append(b, '\n'))
	}
	for c := 0; c < n; c++ {
		if c%5 == 4 {
			// QuestionMatches against its translation
			names := []string{"host.example.org.", "HOST.example.ORG.", "host.example.net.", "example.org.", ".", "h\\.ost.example.org.", "hosu.example.org."}
			types := []uint16{dns.TypeA, dns.TypeAAAA, dns.TypeNS}
			classes := []uint16{dns.ClassINET, dns.ClassCHAOS}
			req := dns.Question{Name: names[r.Intn(len(names))], Qtype: types[r.Intn(3)], Qclass: classes[r.Intn(2)]}
			var resp []dns.Question
			for j, k := 0, []int{1, 1, 1, 1, 0, 2}[r.Intn(6)]; j < k; j++ {
				q := req
				if r.Intn(3) == 0 {
					q.Name = names[r.Intn(len(names))]
				}
				if r.Intn(5) == 0 {
					q.Qtype = types[r.Intn(3)]
				}
				if r.Intn(6) == 0 {
					q.Qclass = classes[r.Intn(2)]
				}
				resp = append(resp, q)
			}
			got := QuestionMatches(req, resp)
			var qs []string
			for _, q := range resp {
				qs = append(qs, vC11Q(q))
			}
			emit(map[string]any{
				"k":          "qmatch",
				"coq":        fmt.Sprintf("CaseQMatch %s [%s] %v", vC11Q(req), strings.Join(qs, "; "), got),
				"nontrivial": len(resp) == 1,
				"desc":       map[string]any{"req": req, "resp": resp, "matches": got},
			})
			continue
		}
		fc := vC11GenFan(r, c)
		samples, series := vC11RunFan(t, fc)
		var xs, obs, ts, ser, desc []string
		goFail := ""
		nontrivial := false
		for i, x := range fc.xs {
			var arr, carr []string
			for _, a := range x.arr {
				arr = append(arr, fmt.Sprintf("(%d, %s)", a.at, vC11KindName[a.kind]))
				carr = append(carr, fmt.Sprintf("arr %d %s", a.at, vC11KindName[a.kind]))
			}
			xs = append(xs, fmt.Sprintf("mk_xs %d %d %v [%s]", x.start, x.deadline, x.stream, strings.Join(carr, "; ")))
			obs = append(obs, fmt.Sprintf("mk_xobs %d %d %d %d", x.ret, x.class, x.hits, x.late))
			desc = append(desc, fmt.Sprintf("exchange %d (stream=%v) started %d ms, network deadline %d ms, upstream %s -> returned at %d ms class %d, interrupted %d time(s), %d after it had returned",
				i, x.stream, x.start, x.deadline, strings.Join(arr, " "), x.ret, x.class, x.hits, x.late))
			bound := x.deadline
			if fc.cancel >= 0 && max(fc.cancel, x.start) < bound {
				bound = max(fc.cancel, x.start)
			}
			if goFail == "" && x.failNote != "" {
				goFail = fmt.Sprintf("exchange %d: %s", i, x.failNote)
			}
			if goFail == "" && x.ret > max(bound, x.start) {
				goFail = fmt.Sprintf("exchange %d returned at %d ms, after its network deadline / the cancellation of its lookup (%d ms)", i, x.ret, bound)
			}
			if goFail == "" && x.late > 0 {
				goFail = fmt.Sprintf("exchange %d: its connection was interrupted %d time(s) after the exchange had returned", i, x.late)
			}
			if fc.cancel >= 0 && x.start <= fc.cancel && x.ret >= fc.cancel {
				nontrivial = true
				if goFail == "" && x.hits != 1 {
					goFail = fmt.Sprintf("exchange %d was in flight when its lookup was cancelled at %d ms and was interrupted %d times", i, fc.cancel, x.hits)
				}
			}
		}
		for i, T := range samples {
			ts = append(ts, strconv.Itoa(T))
			ser = append(ser, strconv.Itoa(series[i]))
		}
		cancel := "None"
		if fc.cancel >= 0 {
			cancel = fmt.Sprintf("(Some %d%%Z)", fc.cancel)
		}
		m := map[string]any{
			"k": fc.kind,
			"coq": fmt.Sprintf("CaseFan %s [%s] [%s]%%Z [%s] [%s]%%nat", cancel, strings.Join(xs, "; "), strings.Join(ts, "; "),
				strings.Join(obs, "; "), strings.Join(ser, "; ")),
			"nontrivial": nontrivial,
			"desc":       map[string]any{"cancel_ms": fc.cancel, "exchanges": desc, "slots_held_at_samples": series},
		}
		if goFail != "" {
			m["go_fail"] = goFail
		}
		emit(m)
	}
}
