//go:build verif

package dnsclient

// C07 driver, transport level: the real QuestionMatches and the real
// Conn.Exchange.  Exchange is driven (a) over scripted in-memory
// connections — a net.PacketConn implementation for the datagram branch, a
// plain net.Conn for the stream branch — with generated read scripts
// (wrong-ID, wrong-question, case-mixed, short, unparsable datagrams before
// or instead of the real reply), and (b) for a smaller share over a real UDP
// socket pair on loopback against a scripted peer.

import (
	"encoding/binary"
	"encoding/json"
	"errors"
	"fmt"
	"io"
	"math/rand"
	"net"
	"os"
	"strconv"
	"strings"
	"sync"
	"testing"
	"time"

	"github.com/miekg/dns"
)

func vC07EnvInt(name string, def int) int {
	if s := os.Getenv(name); s != "" {
		if n, err := strconv.Atoi(s); err == nil {
			return n
		}
	}
	return def
}

// ---- names: labels as raw octets, leaf first -------------------------------

type vC07Name []string

var vC07Labels = []string{"com", "example", "notexample", "Example", "EXAMPLE", "exAmple", "www", "ns", "ns1", "a", "b", "evil", "co", "uk", "exam", "ple", "x.y", "net", "COM", "Www"}

func (n vC07Name) String() string {
	if len(n) == 0 {
		return "."
	}
	var sb strings.Builder
	for _, l := range n {
		for i := 0; i < len(l); i++ {
			c := l[i]
			switch {
			case c == '.' || c == '\\':
				sb.WriteByte('\\')
				sb.WriteByte(c)
			default:
				sb.WriteByte(c)
			}
		}
		sb.WriteByte('.')
	}
	return sb.String()
}

// root-first list of octet lists
func (n vC07Name) coq() string {
	var parts []string
	for i := len(n) - 1; i >= 0; i-- {
		var bs []string
		for j := 0; j < len(n[i]); j++ {
			bs = append(bs, strconv.Itoa(int(n[i][j])))
		}
		parts = append(parts, "["+strings.Join(bs, ";")+"]")
	}
	return "[" + strings.Join(parts, ";") + "]"
}

func vC07RandName(r *rand.Rand) vC07Name {
	bases := []vC07Name{{"www", "example", "com"}, {"ns", "example", "co", "uk"}, {"a", "b", "evil", "com"}, {"example", "com"}, {"com"}, {}}
	if r.Intn(4) != 0 {
		b := bases[r.Intn(len(bases))]
		return append(vC07Name{}, b...)
	}
	n := r.Intn(5)
	out := vC07Name{}
	for i := 0; i < n; i++ {
		out = append(out, vC07Labels[r.Intn(len(vC07Labels))])
	}
	return out
}

func vC07FlipCase(r *rand.Rand, s string) string {
	b := []byte(s)
	for i := range b {
		if r.Intn(2) == 0 {
			switch {
			case b[i] >= 'a' && b[i] <= 'z':
				b[i] -= 32
			case b[i] >= 'A' && b[i] <= 'Z':
				b[i] += 32
			}
		}
	}
	return string(b)
}

// a name related to n: identical, case-mixed, near-miss label, parent, child, sibling
func vC07Mutate(r *rand.Rand, n vC07Name) (vC07Name, string) {
	out := append(vC07Name{}, n...)
	switch r.Intn(8) {
	case 0:
		return out, "same"
	case 1, 2:
		for i := range out {
			out[i] = vC07FlipCase(r, out[i])
		}
		return out, "case"
	case 3:
		if len(out) > 0 {
			i := r.Intn(len(out))
			out[i] = "not" + out[i]
			return out, "nearmiss"
		}
		return vC07Name{"com"}, "nearmiss"
	case 4:
		if len(out) > 0 {
			return out[1:], "parent"
		}
		return out, "same"
	case 5:
		return append(vC07Name{vC07Labels[r.Intn(len(vC07Labels))]}, out...), "child"
	case 6:
		if len(out) > 0 {
			out[0] = vC07Labels[r.Intn(len(vC07Labels))]
			return out, "sibling"
		}
		return out, "same"
	default:
		if len(out) > 0 {
			// same octets, one label boundary moved: exam.ple vs example
			i := r.Intn(len(out))
			if len(out[i]) > 1 {
				k := 1 + r.Intn(len(out[i])-1)
				a, b := out[i][:k], out[i][k:]
				res := append(vC07Name{}, out[:i]...)
				res = append(res, b, a)
				res = append(res, out[i+1:]...)
				return res, "split"
			}
		}
		return out, "same"
	}
}

type vC07Q struct {
	name  vC07Name
	qtype uint16
	class uint16
}

func (q vC07Q) coq() string {
	return fmt.Sprintf("(mk_q %s %d %d)", q.name.coq(), q.qtype, q.class)
}
func (q vC07Q) dns() dns.Question {
	return dns.Question{Name: q.name.String(), Qtype: q.qtype, Qclass: q.class}
}
func (q vC07Q) String() string {
	return fmt.Sprintf("%s/%d/%d", q.name.String(), q.qtype, q.class)
}

var vC07Types = []uint16{dns.TypeA, dns.TypeAAAA, dns.TypeNS, dns.TypeCNAME, dns.TypeMX}

func vC07RandQ(r *rand.Rand) vC07Q {
	q := vC07Q{name: vC07RandName(r), qtype: vC07Types[r.Intn(len(vC07Types))], class: dns.ClassINET}
	if r.Intn(10) == 0 {
		q.class = dns.ClassCHAOS
	}
	return q
}

// a question related to q
func vC07MutQ(r *rand.Rand, q vC07Q) (vC07Q, string) {
	out := q
	switch r.Intn(7) {
	case 0:
		out.qtype = vC07Types[r.Intn(len(vC07Types))]
		if out.qtype == q.qtype {
			return out, "q-same"
		}
		return out, "q-type"
	case 1:
		out.class = dns.ClassCHAOS + dns.ClassINET - q.class
		return out, "q-class"
	case 2, 3:
		var k string
		out.name, k = vC07Mutate(r, q.name)
		return out, "q-name-" + k
	default:
		for i := range q.name {
			_ = i
		}
		nm := append(vC07Name{}, q.name...)
		for i := range nm {
			nm[i] = vC07FlipCase(r, nm[i])
		}
		out.name = nm
		return out, "q-case"
	}
}

// ---- scripted connections --------------------------------------------------

type vC07Script struct {
	mu    sync.Mutex
	reads [][]byte
	idx   int
	wrote int
}

func (c *vC07Script) next() ([]byte, bool) {
	c.mu.Lock()
	defer c.mu.Unlock()
	if c.idx >= len(c.reads) {
		return nil, false
	}
	b := c.reads[c.idx]
	c.idx++
	return b, true
}

type vC07Addr struct{}

func (vC07Addr) Network() string { return "verif" }
func (vC07Addr) String() string  { return "verif" }

// datagram flavour: implements net.PacketConn, one script entry per Read
type vC07Packet struct{ vC07Script }

func (c *vC07Packet) Read(p []byte) (int, error) {
	b, ok := c.next()
	if !ok {
		return 0, os.ErrDeadlineExceeded
	}
	return copy(p, b), nil
}
func (c *vC07Packet) Write(p []byte) (int, error)        { c.wrote++; return len(p), nil }
func (c *vC07Packet) Close() error                       { return nil }
func (c *vC07Packet) LocalAddr() net.Addr                { return vC07Addr{} }
func (c *vC07Packet) RemoteAddr() net.Addr               { return vC07Addr{} }
func (c *vC07Packet) SetDeadline(t time.Time) error      { return nil }
func (c *vC07Packet) SetReadDeadline(t time.Time) error  { return nil }
func (c *vC07Packet) SetWriteDeadline(t time.Time) error { return nil }
func (c *vC07Packet) ReadFrom(p []byte) (int, net.Addr, error) {
	n, err := c.Read(p)
	return n, vC07Addr{}, err
}
func (c *vC07Packet) WriteTo(p []byte, a net.Addr) (int, error) { return c.Write(p) }

// stream flavour: NOT a net.PacketConn; frames are length-prefixed, delivered byte-wise
type vC07Stream struct {
	vC07Script
	cur []byte
}

func (c *vC07Stream) Read(p []byte) (int, error) {
	if len(c.cur) == 0 {
		b, ok := c.next()
		if !ok {
			return 0, os.ErrDeadlineExceeded
		}
		c.cur = make([]byte, 2+len(b))
		binary.BigEndian.PutUint16(c.cur, uint16(len(b)))
		copy(c.cur[2:], b)
	}
	n := copy(p, c.cur)
	c.cur = c.cur[n:]
	return n, nil
}
func (c *vC07Stream) Write(p []byte) (int, error)        { c.wrote++; return len(p), nil }
func (c *vC07Stream) Close() error                       { return nil }
func (c *vC07Stream) LocalAddr() net.Addr                { return vC07Addr{} }
func (c *vC07Stream) RemoteAddr() net.Addr               { return vC07Addr{} }
func (c *vC07Stream) SetDeadline(t time.Time) error      { return nil }
func (c *vC07Stream) SetReadDeadline(t time.Time) error  { return nil }
func (c *vC07Stream) SetWriteDeadline(t time.Time) error { return nil }

// counting wrapper around a real UDP socket (still a net.PacketConn through embedding)
type vC07CountUDP struct {
	*net.UDPConn
	reads int
}

func (c *vC07CountUDP) Read(p []byte) (int, error) {
	n, err := c.UDPConn.Read(p)
	if err == nil {
		c.reads++
	}
	return n, err
}

// ---- script entries ----------------------------------------------------------

type vC07Dg struct {
	kind  int // 0 message, 1 zeros, 2 garbage
	rcode int
	id    uint16
	qs    []vC07Q
	zeros int
	tag   string
}

func (d vC07Dg) coq() string {
	switch d.kind {
	case 1:
		return fmt.Sprintf("(DgZeros %d)", d.zeros)
	case 2:
		return "DgGarbage"
	}
	var qs []string
	for _, q := range d.qs {
		qs = append(qs, q.coq())
	}
	return fmt.Sprintf("(DgMsg (mk_wmsg %d %d [%s]))", d.id, d.rcode, strings.Join(qs, ";"))
}

func (d vC07Dg) String() string {
	switch d.kind {
	case 1:
		return fmt.Sprintf("zeros(%d)", d.zeros)
	case 2:
		return "garbage"
	}
	var qs []string
	for _, q := range d.qs {
		qs = append(qs, q.String())
	}
	return fmt.Sprintf("msg{id=%d rcode=%d q=%v %s}", d.id, d.rcode, qs, d.tag)
}

var vC07Garbage = func() []byte {
	// header announcing one question, followed by a label longer than what is left
	b := make([]byte, 12, 16)
	b[5] = 1
	b = append(b, 63, 'a', 'b', 'c')
	return b
}()

func (d vC07Dg) wire(idx int, reqID uint16) []byte {
	switch d.kind {
	case 1:
		return make([]byte, d.zeros)
	case 2:
		b := append([]byte{}, vC07Garbage...)
		binary.BigEndian.PutUint16(b, reqID) // even with the right ID it does not parse
		return b
	}
	m := new(dns.Msg)
	m.Id = d.id
	m.Response = true
	m.Rcode = d.rcode
	for _, q := range d.qs {
		m.Question = append(m.Question, q.dns())
	}
	// position marker so that the driver knows which scripted message came back
	m.Extra = append(m.Extra, &dns.A{Hdr: dns.RR_Header{Name: "idx.", Rrtype: dns.TypeA, Class: dns.ClassINET, Ttl: 1}, A: net.IPv4(10, 0, byte(idx>>8), byte(idx))})
	b, err := m.Pack()
	if err != nil {
		panic(err)
	}
	return b
}

func vC07Marker(m *dns.Msg) int {
	if m == nil {
		return -1
	}
	for _, rr := range m.Extra {
		if a, ok := rr.(*dns.A); ok && a.Hdr.Name == "idx." {
			ip := a.A.To4()
			return int(ip[2])<<8 | int(ip[3])
		}
	}
	return -1
}

func vC07GenScript(r *rand.Rand, reqID uint16, rq *vC07Q) ([]vC07Dg, []string) {
	var dgs []vC07Dg
	var tags []string
	n := r.Intn(5)
	good := func() vC07Dg {
		d := vC07Dg{kind: 0, id: reqID, tag: "good"}
		if rq != nil {
			q := *rq
			if r.Intn(2) == 0 {
				nm := append(vC07Name{}, q.name...)
				for i := range nm {
					nm[i] = vC07FlipCase(r, nm[i])
				}
				q.name = nm
				d.tag = "good-case"
			}
			d.qs = []vC07Q{q}
		}
		return d
	}
	for i := 0; i < n; i++ {
		var d vC07Dg
		switch r.Intn(12) {
		case 0, 1, 2:
			d = good()
			d.id = reqID + uint16(1+r.Intn(3))
			if r.Intn(4) == 0 {
				d.id = reqID ^ 0x8000
			}
			d.tag = "wrong-id"
		case 3, 4:
			d = good()
			if rq != nil {
				q, k := vC07MutQ(r, *rq)
				d.qs = []vC07Q{q}
				d.tag = "right-id-" + k
			}
		case 5:
			d = good()
			d.qs = nil
			d.tag = "right-id-noq"
		case 6:
			d = good()
			if rq != nil {
				d.qs = append(d.qs, *rq)
				d.tag = "right-id-twoq"
			}
		case 7:
			d = vC07Dg{kind: 1, zeros: r.Intn(13), tag: "zeros"}
			if r.Intn(3) == 0 {
				d.zeros = 11 + r.Intn(2)
			}
		case 8:
			d = vC07Dg{kind: 2, tag: "garbage"}
		case 9:
			d = good()
			d.id = reqID + 1
			if rq != nil {
				q, _ := vC07MutQ(r, *rq)
				d.qs = []vC07Q{q}
			}
			d.tag = "wrong-id-wrong-q"
		default:
			d = good()
		}
		vC07RandRcode(r, &d)
		dgs = append(dgs, d)
		tags = append(tags, d.tag)
	}
	if r.Intn(8) != 0 {
		d := good()
		vC07RandRcode(r, &d)
		dgs = append(dgs, d)
		tags = append(tags, d.tag)
	}
	return dgs, tags
}

// error replies are replies too: every scripted message gets a response code, mostly NOERROR,
// otherwise one of the codes authorities really send (bare header, no sections)
func vC07RandRcode(r *rand.Rand, d *vC07Dg) {
	if d.kind != 0 || r.Intn(5) < 3 {
		return
	}
	d.rcode = []int{dns.RcodeNameError, dns.RcodeNameError, dns.RcodeRefused, dns.RcodeServerFailure, dns.RcodeFormatError, dns.RcodeNotImplemented, dns.RcodeNotAuth}[r.Intn(7)]
	d.tag += "-" + strings.ToLower(dns.RcodeToString[d.rcode])
}

// a long run of stray datagrams (8..40: late replies to timed-out queries, or an off-path
// flood echoing the question) before the real reply, or before nothing at all
func vC07GenBurst(r *rand.Rand, reqID uint16, rq *vC07Q) ([]vC07Dg, []string) {
	var dgs []vC07Dg
	n := 8 + r.Intn(33)
	if r.Intn(3) == 0 {
		n = 7 + r.Intn(4) // around the smallest interesting lengths
	}
	mode := r.Intn(3)
	for i := 0; i < n; i++ {
		d := vC07Dg{kind: 0, id: reqID + uint16(1+r.Intn(200)), tag: "wrong-id"}
		if rq != nil {
			q := *rq
			switch {
			case mode == 1 && r.Intn(2) == 0:
				q, _ = vC07MutQ(r, *rq)
			case mode == 2:
				nm := append(vC07Name{}, q.name...)
				for j := range nm {
					nm[j] = vC07FlipCase(r, nm[j])
				}
				q.name = nm
			}
			d.qs = []vC07Q{q}
		}
		if mode == 1 && r.Intn(6) == 0 && rq != nil {
			// right ID, wrong question in the middle of the run: ends the exchange with ErrQuestion
			d.id = reqID
			q, k := vC07MutQ(r, *rq)
			d.qs = []vC07Q{q}
			d.tag = "right-id-" + k
		}
		vC07RandRcode(r, &d)
		dgs = append(dgs, d)
	}
	tags := []string{fmt.Sprintf("%d strays", n)}
	if r.Intn(6) != 0 {
		d := vC07Dg{kind: 0, id: reqID, tag: "good"}
		if rq != nil {
			d.qs = []vC07Q{*rq}
		}
		dgs = append(dgs, d)
		tags = append(tags, "good")
	}
	return dgs, tags
}

func vC07Outcome(resp *dns.Msg, err error, lastRead int) (string, string) {
	mark := vC07Marker(resp)
	if mark < 0 {
		mark = lastRead // the all-zero header carries no marker; it is the read that just completed
	}
	switch {
	case err == nil:
		return fmt.Sprintf("(XAccept %d)", mark), "accept"
	case errors.Is(err, dns.ErrShortRead):
		return fmt.Sprintf("(XErrShort %d)", lastRead), "err-short"
	case errors.Is(err, dns.ErrId):
		return fmt.Sprintf("(XErrId %d)", lastRead), "err-id"
	case errors.Is(err, ErrQuestion):
		return fmt.Sprintf("(XErrQuestion %d)", mark), "err-question"
	case errors.Is(err, os.ErrDeadlineExceeded):
		return "XTimeout", "timeout"
	default:
		var ne net.Error
		if errors.As(err, &ne) && ne.Timeout() {
			return "XTimeout", "timeout"
		}
		if errors.Is(err, io.EOF) || errors.Is(err, io.ErrUnexpectedEOF) {
			return "XTimeout", "timeout"
		}
		return fmt.Sprintf("(XErrUnpack %d)", lastRead), "err-unpack"
	}
}

// the Go-side oracle: an accepted message must be the scripted one with the request's ID and question
func vC07GoOracle(outcome string, resp *dns.Msg, err error, req *dns.Msg, dgs []vC07Dg) string {
	if err != nil {
		return ""
	}
	i := vC07Marker(resp)
	if i < 0 || i >= len(dgs) {
		if resp != nil && resp.Id == 0 && req.Id == 0 && len(req.Question) == 0 {
			return "" // the twelve-zero-octet message
		}
		return "accepted a message that is not in the script"
	}
	if resp.Id != req.Id {
		return fmt.Sprintf("accepted ID %d for request ID %d", resp.Id, req.Id)
	}
	if len(req.Question) > 0 {
		if len(resp.Question) != 1 {
			return "accepted a reply with a question count other than one"
		}
		a, b := resp.Question[0], req.Question[0]
		if a.Qtype != b.Qtype || a.Qclass != b.Qclass || !strings.EqualFold(a.Name, b.Name) {
			return fmt.Sprintf("accepted question %v for request %v", a, b)
		}
	}
	return ""
}

// vC07RunScript runs the real Conn.Exchange for req over a scripted connection and emits the case
func vC07RunScript(stream bool, req *dns.Msg, rq *vC07Q, rqCoq string, dgs []vC07Dg, tags []string, proto string, emit func(map[string]any)) {
	var reads [][]byte
	var cd []string
	for i, d := range dgs {
		reads = append(reads, d.wire(i, req.Id))
		cd = append(cd, d.coq())
	}
	var resp *dns.Msg
	var xerr error
	var last int
	if stream {
		sc := &vC07Stream{vC07Script: vC07Script{reads: reads}}
		co := &Conn{Conn: sc}
		resp, _, xerr = co.Exchange(req)
		last = sc.idx - 1
	} else {
		pc := &vC07Packet{vC07Script{reads: reads}}
		co := &Conn{Conn: pc}
		resp, _, xerr = co.Exchange(req)
		last = pc.idx - 1
	}
	out, ok := vC07Outcome(resp, xerr, last)
	emit(map[string]any{
		"k":          "xchg-" + proto + "-" + ok,
		"coq":        fmt.Sprintf("CaseExchange %v %d %s [%s] %s", stream, req.Id, rqCoq, strings.Join(cd, ";"), out),
		"nontrivial": len(dgs) > 1,
		"go_fail":    vC07GoOracle(out, resp, xerr, req, dgs),
		"desc":       map[string]any{"proto": proto, "req_id": req.Id, "req_q": fmt.Sprint(rq), "script": tags, "outcome": out, "err": fmt.Sprint(xerr)},
	})
}

func TestVerifC07Client(t *testing.T) {
	p := os.Getenv("VERIF_OUT")
	if p == "" {
		t.Skip("VERIF_OUT not set")
	}
	f, err := os.Create(p)
	if err != nil {
		t.Fatal(err)
	}
	defer f.Close()
	r := rand.New(rand.NewSource(int64(vC07EnvInt("VERIF_SEED", 1))*7919 + 7))
	n := vC07EnvInt("VERIF_N", 2000)
	emit := func(m map[string]any) {
		b, _ := json.Marshal(m)
		f.Write(append(b, '\n'))
	}

	// --- fixed regression scripts (corpus/C07/exchange.json), replayed first --------
	vC07ClientCorpus(emit)

	// --- QuestionMatches -------------------------------------------------------
	for c := 0; c < n/2; c++ {
		req := vC07RandQ(r)
		var resp []vC07Q
		kind := "one"
		switch r.Intn(10) {
		case 0:
			kind = "none"
		case 1:
			q1, _ := vC07MutQ(r, req)
			resp = []vC07Q{req, q1}
			kind = "two"
		default:
			q1, k := vC07MutQ(r, req)
			resp = []vC07Q{q1}
			kind = k
		}
		var dq []dns.Question
		var cq []string
		for _, q := range resp {
			dq = append(dq, q.dns())
			cq = append(cq, q.coq())
		}
		obs := QuestionMatches(req.dns(), dq)
		goFail := ""
		if obs {
			if len(dq) != 1 || dq[0].Qtype != req.qtype || dq[0].Qclass != req.class || !strings.EqualFold(dq[0].Name, req.name.String()) {
				goFail = "QuestionMatches accepted a different question"
			}
		}
		emit(map[string]any{
			"k": "qm-" + kind, "coq": fmt.Sprintf("CaseQM %s [%s] %v", req.coq(), strings.Join(cq, ";"), obs),
			"nontrivial": len(resp) == 1, "go_fail": goFail,
			"desc": map[string]any{"req": req.String(), "resp": fmt.Sprint(resp), "matches": obs},
		})
	}

	// --- Conn.Exchange over scripted connections --------------------------------
	for c := 0; c < n/2; c++ {
		stream := r.Intn(3) == 0
		req := new(dns.Msg)
		req.Id = uint16(r.Intn(65536))
		if r.Intn(12) == 0 {
			req.Id = 0
		}
		var rq *vC07Q
		rqCoq := "None"
		if r.Intn(10) != 0 {
			q := vC07RandQ(r)
			rq = &q
			req.Question = []dns.Question{q.dns()}
			rqCoq = "(Some " + q.coq() + ")"
		}
		if r.Intn(2) == 0 {
			req.SetEdns0(1232, false)
		}
		dgs, tags := vC07GenScript(r, req.Id, rq)
		burst := c%16 == 5
		if burst {
			dgs, tags = vC07GenBurst(r, req.Id, rq)
		}
		proto := "udp"
		if stream {
			proto = "stream"
		}
		if burst {
			proto += "-burst"
		}
		vC07RunScript(stream, req, rq, rqCoq, dgs, tags, proto, emit)
	}

	// --- Conn.Exchange over a real UDP socket pair on loopback -------------------
	real := n / 40
	if real < 12 {
		real = 12
	}
	for c := 0; c < real; c++ {
		req := new(dns.Msg)
		req.Id = uint16(1 + r.Intn(65000))
		q := vC07RandQ(r)
		req.Question = []dns.Question{q.dns()}
		dgs, tags := vC07GenScript(r, req.Id, &q)
		if c%4 == 1 {
			dgs, tags = vC07GenBurst(r, req.Id, &q)
			if dgs[len(dgs)-1].tag == "good" {
				dgs, tags = dgs[:len(dgs)-1], tags[:len(tags)-1]
			}
		}
		// keep the real-socket share free of waits: the script always ends with the real reply
		good := vC07Dg{kind: 0, id: req.Id, qs: []vC07Q{q}, tag: "good"}
		dgs = append(dgs, good)
		tags = append(tags, "good")
		var cd []string
		for _, d := range dgs {
			cd = append(cd, d.coq())
		}
		var out, ok string
		var goFail string
		var errText string
		inconclusive := true
		for attempt := 0; attempt < 3 && inconclusive; attempt++ {
			srv, err := net.ListenPacket("udp", "127.0.0.1:0")
			if err != nil {
				continue
			}
			done := make(chan struct{})
			go func() {
				defer close(done)
				buf := make([]byte, 4096)
				_ = srv.SetReadDeadline(time.Now().Add(2 * time.Second))
				_, from, err := srv.ReadFrom(buf)
				if err != nil {
					return
				}
				for i, d := range dgs {
					_, _ = srv.WriteTo(d.wire(i, req.Id), from)
				}
			}()
			uc, err := net.DialUDP("udp", nil, srv.LocalAddr().(*net.UDPAddr))
			if err != nil {
				srv.Close()
				<-done
				continue
			}
			cu := &vC07CountUDP{UDPConn: uc}
			co := &Conn{Conn: cu}
			_ = co.SetDeadline(time.Now().Add(1500 * time.Millisecond))
			resp, _, xerr := co.Exchange(req)
			<-done
			uc.Close()
			srv.Close()
			out, ok = vC07Outcome(resp, xerr, cu.reads-1)
			errText = fmt.Sprint(xerr)
			goFail = vC07GoOracle(out, resp, xerr, req, dgs)
			inconclusive = ok == "timeout" // every script here ends with the real reply: a timeout is a lost datagram
		}
		emit(map[string]any{
			"k":            "xchg-realudp-" + ok,
			"coq":          fmt.Sprintf("CaseExchange false %d (Some %s) [%s] %s", req.Id, q.coq(), strings.Join(cd, ";"), out),
			"nontrivial":   len(dgs) > 1,
			"go_fail":      goFail,
			"inconclusive": inconclusive,
			"desc":         map[string]any{"proto": "udp-loopback", "req_id": req.Id, "req_q": q.String(), "script": tags, "outcome": out, "err": errText},
		})
	}
}
