//go:build verif

// Package vc15gen is the message generator and reference tooling shared by the
// C15 drivers (overlay-injected, never committed to /repo).  It lives outside the
// library's package on purpose: every type declared here is "foreign" to
// wire.libraryOwned.
package vc15gen

import (
	"encoding/base32"
	"encoding/base64"
	"encoding/binary"
	"encoding/hex"
	"fmt"
	"math/rand"
	"net"
	"reflect"
	"sort"
	"strings"
	"unsafe"

	"github.com/miekg/dns"
)

// ---------------------------------------------------------------- foreign types

// VC15WrapRR satisfies dns.RR through promotion of an embedded interface.
type VC15WrapRR struct{ dns.RR }

// VC15EmbedA embeds a concrete library pointer.
type VC15EmbedA struct{ *dns.A }

// VC15EmbedOPT is an OPT-shaped wrapper: Header().Rrtype is 41, the Go type is not *dns.OPT.
type VC15EmbedOPT struct{ *dns.OPT }

// VC15Opt is a foreign EDNS0 option (promotion through the embedded interface).
type VC15Opt struct{ dns.EDNS0 }

// VC15OptPtr embeds a concrete library option.
type VC15OptPtr struct{ *dns.EDNS0_NSID }

// VC15Svcb is a foreign SVCB key/value.
type VC15Svcb struct{ dns.SVCBKeyValue }

// VC15PrivData is registrant rdata for dns.PrivateRR.
type VC15PrivData struct{ Data string }

func (r *VC15PrivData) String() string         { return r.Data }
func (r *VC15PrivData) Parse(s []string) error { r.Data = strings.Join(s, " "); return nil }
func (r *VC15PrivData) Len() int               { return len(r.Data) }
func (r *VC15PrivData) Pack(b []byte) (int, error) {
	if len(b) < len(r.Data) {
		return 0, dns.ErrBuf
	}
	return copy(b, r.Data), nil
}
func (r *VC15PrivData) Unpack(b []byte) (int, error) { r.Data = string(b); return len(b), nil }
func (r *VC15PrivData) Copy(d dns.PrivateRdata) error {
	d.(*VC15PrivData).Data = r.Data
	return nil
}

// ---------------------------------------------------------------- case

// VC15Case is one generated message with the generator's own knowledge about it.
type VC15Case struct {
	Msg   *dns.Msg
	Tags  []string // what was put in (distribution)
	Clean []bool   // per record (Answer ++ Ns ++ Extra): built as a plain non-nil library record with library-owned nested values, not PrivateRR
}

func (c *VC15Case) tag(s string) {
	for _, t := range c.Tags {
		if t == s {
			return
		}
	}
	c.Tags = append(c.Tags, s)
}

// VC15Records lists the records in packing order.
func VC15Records(m *dns.Msg) []dns.RR {
	out := make([]dns.RR, 0, len(m.Answer)+len(m.Ns)+len(m.Extra))
	out = append(out, m.Answer...)
	out = append(out, m.Ns...)
	out = append(out, m.Extra...)
	return out
}

// ---------------------------------------------------------------- names

var vLabels = []string{"a", "b", "www", "example", "com", "org", "net", "xn--bcher-kva", "EXAMPLE", "mail", "ns1", "_tcp", "*"}

func vLabel(r *rand.Rand, n int) string {
	const al = "abcdefghijklmnopqrstuvwxyz0123456789-"
	b := make([]byte, n)
	for i := range b {
		b[i] = al[r.Intn(len(al))]
	}
	return string(b)
}

// VC15Name returns a mostly valid fully qualified name sharing suffixes with its siblings.
func VC15Name(r *rand.Rand) string {
	switch r.Intn(40) {
	case 0:
		return "."
	case 1: // escapes
		return []string{`ex\.ample.com.`, `\065bc.example.com.`, `a\\b.example.org.`, `\000.example.com.`, `a\255z.com.`, `\..`, `sp\ ace.example.com.`}[r.Intn(7)]
	case 2: // 63-octet label
		return vLabel(r, 63) + ".example.com."
	case 3: // total wire length 255: 3*(1+63) + (1+61) + 1
		return vLabel(r, 63) + "." + vLabel(r, 63) + "." + vLabel(r, 63) + "." + vLabel(r, 61) + "."
	case 4: // invalid shapes: not fully qualified, empty label, label too long, empty string, too long
		return []string{"example.com", "a..b.", ".a.", vLabel(r, 64) + ".com.", "", vLabel(r, 63) + "." + vLabel(r, 63) + "." + vLabel(r, 63) + "." + vLabel(r, 62) + ".", `bad\`}[r.Intn(7)]
	case 5: // many labels (name-heavy: fills the compression dictionary)
		n := 10 + r.Intn(30)
		parts := make([]string, n)
		for i := range parts {
			parts[i] = vLabel(r, 1+r.Intn(3))
		}
		return strings.Join(parts, ".") + ".example.com."
	}
	n := 1 + r.Intn(4)
	parts := make([]string, 0, n+2)
	for i := 0; i < n; i++ {
		if r.Intn(5) == 0 {
			parts = append(parts, vLabel(r, 1+r.Intn(8)))
		} else {
			parts = append(parts, vLabels[r.Intn(len(vLabels))])
		}
	}
	tail := []string{"example.com.", "example.org.", "com.", "a.example.com.", "Example.COM."}[r.Intn(5)]
	return strings.Join(parts, ".") + "." + tail
}

// VC15OddQName: question names on which dns.Question.pack and a name-normalising twin differ.
func VC15OddQName(r *rand.Rand) string {
	return []string{"", "", "unqualified", "unqualified.example.com", "www.example", ".", "a..b.", ".a."}[r.Intn(8)]
}

func vText(r *rand.Rand, max int) string {
	n := r.Intn(max + 1)
	var sb strings.Builder
	for i := 0; i < n; i++ {
		switch r.Intn(30) {
		case 0:
			sb.WriteString(`\"`)
		case 1:
			sb.WriteString(fmt.Sprintf(`\%03d`, r.Intn(256)))
		case 2:
			sb.WriteString(`\\`)
		default:
			sb.WriteByte(byte(' ' + r.Intn(95)))
		}
	}
	s := sb.String()
	// a lone backslash or quote would be a different story per type; keep them escaped only
	s = strings.ReplaceAll(s, `"`, `x`)
	if strings.HasSuffix(s, `\`) && !strings.HasSuffix(s, `\\`) {
		s += `\`
	}
	return s
}

func vBytes(r *rand.Rand, n int) []byte {
	b := make([]byte, n)
	r.Read(b)
	return b
}

// ---------------------------------------------------------------- record fill

func vIP(r *rand.Rand, n int) net.IP {
	ip := make(net.IP, n)
	r.Read(ip)
	return ip
}

func vBitmap(r *rand.Rand) []uint16 {
	n := r.Intn(8)
	set := map[uint16]bool{}
	for i := 0; i < n; i++ {
		switch r.Intn(4) {
		case 0:
			set[uint16(r.Intn(65536))] = true
		default:
			set[uint16(1+r.Intn(260))] = true
		}
	}
	out := make([]uint16, 0, len(set))
	for k := range set {
		out = append(out, k)
	}
	sort.Slice(out, func(i, j int) bool { return out[i] < out[j] })
	if len(out) > 1 && r.Intn(25) == 0 { // out of order: the library errors
		out[0], out[len(out)-1] = out[len(out)-1], out[0]
	}
	if r.Intn(25) == 0 {
		out = append(out, 0)
	}
	return out
}

// VC15Options returns library EDNS0 options of every kind.
func VC15Options(r *rand.Rand, n int) []dns.EDNS0 {
	var out []dns.EDNS0
	for i := 0; i < n; i++ {
		out = append(out, vOption(r))
	}
	return out
}

func vOption(r *rand.Rand) dns.EDNS0 {
	switch r.Intn(18) {
	case 0:
		return &dns.EDNS0_NSID{Code: dns.EDNS0NSID, Nsid: hex.EncodeToString(vBytes(r, r.Intn(12)))}
	case 1:
		if r.Intn(2) == 0 {
			return &dns.EDNS0_SUBNET{Code: dns.EDNS0SUBNET, Family: 1, SourceNetmask: uint8(r.Intn(33)), SourceScope: uint8(r.Intn(33)), Address: vIP(r, 4)}
		}
		return &dns.EDNS0_SUBNET{Code: dns.EDNS0SUBNET, Family: 2, SourceNetmask: uint8(r.Intn(129)), SourceScope: uint8(r.Intn(129)), Address: vIP(r, 16)}
	case 2:
		return &dns.EDNS0_COOKIE{Code: dns.EDNS0COOKIE, Cookie: hex.EncodeToString(vBytes(r, 8+r.Intn(25)))}
	case 3:
		return &dns.EDNS0_UL{Code: dns.EDNS0UL, Lease: r.Uint32(), KeyLease: r.Uint32() * uint32(r.Intn(2))}
	case 4:
		return &dns.EDNS0_LLQ{Code: dns.EDNS0LLQ, Version: 1, Opcode: uint16(r.Intn(4)), Error: uint16(r.Intn(7)), Id: r.Uint64(), LeaseLife: r.Uint32()}
	case 5:
		return &dns.EDNS0_DAU{Code: dns.EDNS0DAU, AlgCode: vBytes(r, r.Intn(6))}
	case 6:
		return &dns.EDNS0_DHU{Code: dns.EDNS0DHU, AlgCode: vBytes(r, r.Intn(6))}
	case 7:
		return &dns.EDNS0_N3U{Code: dns.EDNS0N3U, AlgCode: vBytes(r, r.Intn(6))}
	case 8:
		return &dns.EDNS0_EXPIRE{Code: dns.EDNS0EXPIRE, Expire: r.Uint32(), Empty: r.Intn(3) == 0}
	case 9:
		return &dns.EDNS0_LOCAL{Code: uint16(65001 + r.Intn(500)), Data: vBytes(r, r.Intn(20))}
	case 10:
		return &dns.EDNS0_TCP_KEEPALIVE{Code: dns.EDNS0TCPKEEPALIVE, Timeout: uint16(r.Intn(3) * r.Intn(65536)), Length: uint16(r.Intn(3))}
	case 11:
		return &dns.EDNS0_PADDING{Padding: vBytes(r, r.Intn(40))}
	case 12:
		return &dns.EDNS0_EDE{InfoCode: uint16(r.Intn(30)), ExtraText: vText(r, 30)}
	case 13:
		return &dns.EDNS0_ESU{Code: dns.EDNS0ESU, Uri: "sip:+123@" + vLabel(r, 5) + ".example.com"}
	case 14:
		return &dns.EDNS0_REPORTING{Code: dns.EDNS0REPORTING, AgentDomain: VC15Name(r)}
	case 15:
		return &dns.EDNS0_ZONEVERSION{Code: dns.EDNS0ZONEVERSION, LabelCount: uint8(r.Intn(5)), Type: uint8(r.Intn(2)), Version: hex.EncodeToString(vBytes(r, 4))}
	case 16: // invalid hex: the library errors
		return &dns.EDNS0_NSID{Code: dns.EDNS0NSID, Nsid: "zz"}
	}
	return &dns.EDNS0_LOCAL{Code: dns.EDNS0LOCALSTART, Data: nil}
}

// VC15SVCBValues returns library SVCB key/value pairs of every kind.
func VC15SVCBValues(r *rand.Rand, n int) []dns.SVCBKeyValue {
	var out []dns.SVCBKeyValue
	used := map[int]bool{}
	for i := 0; i < n; i++ {
		k := r.Intn(10)
		if used[k] && r.Intn(10) != 0 { // repeated keys are a library error: keep them rare
			continue
		}
		used[k] = true
		switch k {
		case 0:
			out = append(out, &dns.SVCBMandatory{Code: []dns.SVCBKey{dns.SVCB_ALPN, dns.SVCB_PORT}[:1+r.Intn(2)]})
		case 1:
			out = append(out, &dns.SVCBAlpn{Alpn: []string{"h2", "h3", "http/1.1", vLabel(r, 3)}[:1+r.Intn(4)]})
		case 2:
			out = append(out, &dns.SVCBNoDefaultAlpn{})
		case 3:
			out = append(out, &dns.SVCBPort{Port: uint16(r.Intn(65536))})
		case 4:
			h := &dns.SVCBIPv4Hint{}
			for j := r.Intn(3); j >= 0; j-- {
				h.Hint = append(h.Hint, vIP(r, 4))
			}
			out = append(out, h)
		case 5:
			out = append(out, &dns.SVCBECHConfig{ECH: vBytes(r, r.Intn(40))})
		case 6:
			h := &dns.SVCBIPv6Hint{}
			for j := r.Intn(3); j >= 0; j-- {
				h.Hint = append(h.Hint, vIP(r, 16))
			}
			out = append(out, h)
		case 7:
			out = append(out, &dns.SVCBDoHPath{Template: "/dns-query{?dns}"})
		case 8:
			out = append(out, &dns.SVCBOhttp{})
		case 9:
			out = append(out, &dns.SVCBLocal{KeyCode: dns.SVCBKey(65280 + r.Intn(200)), Data: vBytes(r, r.Intn(20))})
		}
	}
	return out
}

func vAPL(r *rand.Rand) []dns.APLPrefix {
	var out []dns.APLPrefix
	for j := r.Intn(4); j > 0; j-- {
		if r.Intn(2) == 0 {
			bits := r.Intn(33)
			ip := vIP(r, 4)
			m := net.CIDRMask(bits, 32)
			out = append(out, dns.APLPrefix{Negation: r.Intn(2) == 0, Network: net.IPNet{IP: ip.Mask(m), Mask: m}})
		} else {
			bits := r.Intn(129)
			ip := vIP(r, 16)
			m := net.CIDRMask(bits, 128)
			out = append(out, dns.APLPrefix{Negation: r.Intn(2) == 0, Network: net.IPNet{IP: ip.Mask(m), Mask: m}})
		}
	}
	return out
}

var vB32 = base32.HexEncoding.WithPadding(base32.NoPadding)

// vFill randomises every exported field of a library record after the header,
// guided by the library's own struct tags.
func vFill(r *rand.Rand, rr dns.RR) {
	v := reflect.ValueOf(rr).Elem()
	vFillStruct(r, v)
}

func vFillStruct(r *rand.Rand, v reflect.Value) {
	t := v.Type()
	for i := 0; i < t.NumField(); i++ {
		f := t.Field(i)
		fv := v.Field(i)
		if f.Name == "Hdr" || !fv.CanSet() {
			continue
		}
		if f.Anonymous && f.Type.Kind() == reflect.Struct { // HTTPS{SVCB}, CDS{DS}, ...
			vFillStruct(r, fv)
			continue
		}
		tag := f.Tag.Get("dns")
		bad := r.Intn(40) == 0
		switch {
		case tag == "domain-name" || tag == "cdomain-name":
			if fv.Kind() == reflect.String {
				fv.SetString(VC15Name(r))
			} else if fv.Kind() == reflect.Slice {
				var l []string
				for j := r.Intn(3); j > 0; j-- {
					l = append(l, VC15Name(r))
				}
				fv.Set(reflect.ValueOf(l))
			}
		case tag == "txt":
			var l []string
			for j := r.Intn(4); j > 0; j-- {
				l = append(l, vText(r, 40))
			}
			if bad {
				l = append(l, strings.Repeat("x", 256))
			}
			if r.Intn(30) == 0 {
				l = append(l, strings.Repeat("y", 255))
			}
			fv.Set(reflect.ValueOf(l))
		case tag == "hex":
			s := hex.EncodeToString(vBytes(r, r.Intn(24)))
			if bad {
				s = "zz"
			}
			if r.Intn(3) == 0 {
				s = strings.ToUpper(s)
			}
			fv.SetString(s)
		case tag == "base64":
			s := base64.StdEncoding.EncodeToString(vBytes(r, r.Intn(48)))
			if bad {
				s = "!!"
			}
			fv.SetString(s)
		case strings.HasPrefix(tag, "size-"):
			n := r.Intn(20)
			var s string
			switch {
			case strings.HasPrefix(tag, "size-hex:"):
				s = hex.EncodeToString(vBytes(r, n))
			case strings.HasPrefix(tag, "size-base64:"):
				s = base64.StdEncoding.EncodeToString(vBytes(r, n))
			case strings.HasPrefix(tag, "size-base32:"):
				s = vB32.EncodeToString(vBytes(r, n))
			}
			fv.SetString(s)
			ln := v.FieldByName(tag[strings.Index(tag, ":")+1:])
			if ln.IsValid() && ln.CanSet() {
				if bad {
					n += 1 + r.Intn(3)
				}
				ln.SetUint(uint64(n))
			}
		case tag == "octet":
			fv.SetString(vText(r, 40))
		case tag == "nsec":
			fv.Set(reflect.ValueOf(vBitmap(r)))
		case tag == "a":
			switch {
			case bad:
				fv.Set(reflect.ValueOf(vIP(r, 16)))
			case r.Intn(20) == 0:
				fv.Set(reflect.ValueOf(net.IP(nil)))
			case r.Intn(10) == 0:
				fv.Set(reflect.ValueOf(net.IPv4(byte(r.Intn(256)), 2, 3, 4)))
			default:
				fv.Set(reflect.ValueOf(vIP(r, 4)))
			}
		case tag == "aaaa":
			switch {
			case bad:
				fv.Set(reflect.ValueOf(vIP(r, 5)))
			case r.Intn(20) == 0:
				fv.Set(reflect.ValueOf(net.IP(nil)))
			case r.Intn(10) == 0:
				fv.Set(reflect.ValueOf(vIP(r, 4)))
			default:
				fv.Set(reflect.ValueOf(vIP(r, 16)))
			}
		case tag == "uint48":
			x := r.Uint64() >> 16
			if bad {
				x = r.Uint64()
			}
			fv.SetUint(x)
		case tag == "any":
			fv.SetString(string(vBytes(r, r.Intn(40))))
		case tag == "opt":
			fv.Set(reflect.ValueOf(VC15Options(r, r.Intn(4))))
		case tag == "pairs":
			fv.Set(reflect.ValueOf(VC15SVCBValues(r, r.Intn(5))))
		case tag == "apl":
			fv.Set(reflect.ValueOf(vAPL(r)))
		case tag == "ipsechost" || tag == "amtrelayhost":
			gt := v.FieldByName("GatewayType")
			ga := v.FieldByName("GatewayAddr")
			k := r.Intn(4)
			base := uint64(0)
			if tag == "amtrelayhost" && r.Intn(2) == 0 {
				base = 0x80 // discovery-optional bit lives in the same octet
			}
			switch k {
			case 0:
				fv.SetString(".")
			case 1:
				if bad { // an IPv6 address behind the IPv4 gateway type
					ga.Set(reflect.ValueOf(vIP(r, 16)))
				} else {
					ga.Set(reflect.ValueOf(vIP(r, 4)))
				}
			case 2:
				ga.Set(reflect.ValueOf(vIP(r, 16)))
			case 3:
				fv.SetString(VC15Name(r))
			}
			if gt.IsValid() && gt.CanSet() {
				gt.SetUint(base | uint64(k))
			}
		case tag == "-":
			// handled with its companion field
		default:
			switch fv.Kind() {
			case reflect.Uint8, reflect.Uint16, reflect.Uint32, reflect.Uint64:
				if f.Name == "GatewayType" || strings.HasSuffix(f.Name, "Length") || f.Name == "MACSize" || f.Name == "OtherLen" || f.Name == "KeySize" || f.Name == "HashLength" {
					// set together with the field it measures; give it a default first
					if fv.Uint() == 0 && strings.HasSuffix(f.Name, "Length") && r.Intn(4) == 0 {
						fv.SetUint(uint64(r.Intn(4)))
					}
					continue
				}
				switch r.Intn(6) {
				case 0:
					fv.SetUint(0)
				case 1:
					fv.SetUint(^uint64(0) >> (64 - uint(fv.Type().Bits())))
				default:
					fv.SetUint(r.Uint64() >> (64 - uint(fv.Type().Bits())))
				}
			case reflect.String:
				fv.SetString(vText(r, 24))
			case reflect.Bool:
				fv.SetBool(r.Intn(2) == 0)
			case reflect.Slice:
				if fv.Type().Elem().Kind() == reflect.String {
					var l []string
					for j := r.Intn(3); j > 0; j-- {
						l = append(l, vText(r, 12))
					}
					fv.Set(reflect.ValueOf(l))
				} else if fv.Type().Elem().Kind() == reflect.Uint8 {
					fv.SetBytes(vBytes(r, r.Intn(16)))
				}
			}
		}
	}
}

var vTypes []uint16

func init() {
	for t := range dns.TypeToRR {
		vTypes = append(vTypes, t)
	}
	sort.Slice(vTypes, func(i, j int) bool { return vTypes[i] < vTypes[j] })
}

// VC15Types is the sorted list of record types the library registers.
func VC15Types() []uint16 { return vTypes }

var vCommon = []uint16{dns.TypeA, dns.TypeAAAA, dns.TypeNS, dns.TypeCNAME, dns.TypeSOA, dns.TypeMX, dns.TypeTXT, dns.TypePTR,
	dns.TypeSRV, dns.TypeRRSIG, dns.TypeNSEC, dns.TypeNSEC3, dns.TypeDS, dns.TypeDNSKEY, dns.TypeSVCB, dns.TypeHTTPS, dns.TypeCAA, dns.TypeNULL}

// VC15LibRR builds one library record of type t (0: pick) with randomised fields.
func VC15LibRR(r *rand.Rand, t uint16) dns.RR {
	if t == 0 {
		if r.Intn(2) == 0 {
			t = vCommon[r.Intn(len(vCommon))]
		} else {
			t = vTypes[r.Intn(len(vTypes))]
		}
	}
	var rr dns.RR
	if t == dns.TypeOPT {
		return VC15OPT(r)
	}
	if mk, ok := dns.TypeToRR[t]; ok {
		rr = mk()
	} else {
		rr = &dns.RFC3597{Rdata: hex.EncodeToString(vBytes(r, r.Intn(20)))}
	}
	h := rr.Header()
	h.Name = VC15Name(r)
	h.Rrtype = t
	h.Class = []uint16{dns.ClassINET, dns.ClassINET, dns.ClassINET, dns.ClassCHAOS, dns.ClassANY, dns.ClassNONE, uint16(r.Intn(65536))}[r.Intn(7)]
	h.Ttl = []uint32{0, 1, 300, 3600, 86400, 0x7FFFFFFF, 0x80000000, 0xFFFFFFFF, r.Uint32()}[r.Intn(9)]
	h.Rdlength = uint16(40000 + r.Intn(20000)) // never what a pack computes: a write shows
	vFill(r, rr)
	return rr
}

// VC15OPT builds an OPT record with random flags, version, stale extended rcode and options.
func VC15OPT(r *rand.Rand) *dns.OPT {
	o := &dns.OPT{}
	o.Hdr.Name = "."
	o.Hdr.Rrtype = dns.TypeOPT
	o.Hdr.Class = []uint16{512, 1232, 4096, 65535, 0}[r.Intn(5)]
	o.Hdr.Ttl = []uint32{0, 0x8000, 0x00008000 | 0x4000, 0xFF000000, 0x12FF8000, r.Uint32()}[r.Intn(6)]
	o.Hdr.Rdlength = uint16(40000 + r.Intn(20000))
	o.Option = VC15Options(r, []int{0, 0, 1, 1, 2, 3, 6}[r.Intn(7)])
	return o
}

// ---------------------------------------------------------------- messages

func vRcode(r *rand.Rand) int {
	switch r.Intn(12) {
	case 0:
		return []int{15, 16, 17, 4095, 4094, 255, 256, 4080}[r.Intn(8)]
	case 1:
		return []int{-1, 4096, 4097, 65536, 65536 + 16, -4096, 1 << 20, 0xFFF + 1}[r.Intn(8)]
	case 2, 3:
		return r.Intn(4096)
	}
	return r.Intn(6)
}

func vOpcode(r *rand.Rand) int {
	switch r.Intn(12) {
	case 0:
		return []int{15, 16, 17, 31, 32, -1, 65536 + 2, 1 << 30, -16}[r.Intn(9)]
	case 1:
		return r.Intn(16)
	}
	return []int{0, 0, 0, 0, 4, 5, 2}[r.Intn(7)]
}

// VC15Header randomises the message header.
func VC15Header(r *rand.Rand, m *dns.Msg) {
	m.Id = uint16(r.Intn(65536))
	m.Response = r.Intn(2) == 0
	m.Opcode = vOpcode(r)
	m.Authoritative = r.Intn(2) == 0
	m.Truncated = r.Intn(4) == 0
	m.RecursionDesired = r.Intn(2) == 0
	m.RecursionAvailable = r.Intn(2) == 0
	m.Zero = r.Intn(4) == 0
	m.AuthenticatedData = r.Intn(2) == 0
	m.CheckingDisabled = r.Intn(2) == 0
	m.Rcode = vRcode(r)
}

// VC15Gen generates one message.  hostile=false keeps every record a plain library
// record (the shape this server produces); hostile=true mixes in nil, typed-nil,
// foreign and private records, foreign nested values and OPT-shaped impostors.
func VC15Gen(r *rand.Rand, hostile bool) *VC15Case {
	c := &VC15Case{Msg: new(dns.Msg)}
	m := c.Msg
	VC15Header(r, m)
	m.Compress = r.Intn(3) != 0

	nq := []int{1, 1, 1, 1, 1, 0, 2, 3}[r.Intn(8)]
	for i := 0; i < nq; i++ {
		q := dns.Question{Name: VC15Name(r), Qtype: vCommon[r.Intn(len(vCommon))], Qclass: dns.ClassINET}
		if i > 0 && r.Intn(2) == 0 {
			q.Name = m.Question[0].Name
		}
		if r.Intn(10) == 0 {
			q.Qtype, q.Qclass = uint16(r.Intn(65536)), uint16(r.Intn(65536))
		}
		m.Question = append(m.Question, q)
	}
	c.tag(fmt.Sprintf("q%d", nq))

	owner := VC15Name(r)
	if nq > 0 && r.Intn(2) == 0 {
		owner = m.Question[0].Name
	}
	sections := [3]*[]dns.RR{&m.Answer, &m.Ns, &m.Extra}
	sizes := [3]int{r.Intn(5), r.Intn(3), r.Intn(3)}
	switch r.Intn(10) {
	case 0:
		sizes = [3]int{0, 0, 0}
	case 1:
		sizes = [3]int{8 + r.Intn(20), r.Intn(6), r.Intn(6)}
	}
	for s, sec := range sections {
		for i := 0; i < sizes[s]; i++ {
			rr := VC15LibRR(r, 0)
			if _, isOpt := rr.(*dns.OPT); !isOpt && r.Intn(2) == 0 {
				rr.Header().Name = owner
			}
			*sec = append(*sec, rr)
		}
	}
	// The question section is the one part of a message the pooled packer encodes with code
	// of its own (packQuestion) instead of a library record packer: names the library treats
	// specially there — empty (no octets at all, yet one octet in Len()), not fully qualified
	// (ErrFqdn), the root, an empty label — in any question position, after the owners were
	// chosen so that the records stay as they are.
	if nq > 0 && r.Intn(12) == 0 {
		m.Question[r.Intn(nq)].Name = VC15OddQName(r)
		c.tag("q-odd-name")
	}

	// EDNS: none / last / first / middle / several / aliased / outside Extra / disguised
	var opts []*dns.OPT
	switch r.Intn(14) {
	case 0, 1, 2:
		c.tag("noopt")
	case 3, 4, 5, 6, 7:
		o := VC15OPT(r)
		opts = append(opts, o)
		m.Extra = append(m.Extra, o)
		c.tag("opt-last")
	case 8:
		o := VC15OPT(r)
		opts = append(opts, o)
		m.Extra = append([]dns.RR{o}, m.Extra...)
		c.tag("opt-first")
	case 9:
		o1, o2 := VC15OPT(r), VC15OPT(r)
		opts = append(opts, o1, o2)
		m.Extra = append([]dns.RR{o1}, m.Extra...)
		m.Extra = append(m.Extra, o2)
		if r.Intn(2) == 0 {
			m.Extra = append(m.Extra, VC15LibRR(r, dns.TypeA))
		}
		c.tag("opt-multi")
	case 10:
		o := VC15OPT(r)
		opts = append(opts, o)
		m.Extra = append([]dns.RR{o}, m.Extra...)
		m.Extra = append(m.Extra, o)
		if r.Intn(2) == 0 {
			o2 := VC15OPT(r)
			pos := r.Intn(len(m.Extra) + 1)
			m.Extra = append(m.Extra[:pos:pos], append([]dns.RR{o2}, m.Extra[pos:]...)...)
			opts = append(opts, o2)
		}
		c.tag("opt-aliased")
	case 11:
		o := VC15OPT(r)
		opts = append(opts, o)
		if r.Intn(2) == 0 {
			m.Extra = append(m.Extra, o)
			c.tag("opt-aliased-sections")
		} else {
			c.tag("opt-outside-extra")
		}
		if r.Intn(2) == 0 {
			m.Answer = append(m.Answer, o)
		} else {
			m.Ns = append([]dns.RR{o}, m.Ns...)
		}
	case 12: // an OPT whose header type is something else: the library does not select it
		o := VC15OPT(r)
		o.Hdr.Rrtype = []uint16{0, dns.TypeA, dns.TypeTXT, 65535}[r.Intn(4)]
		m.Extra = append(m.Extra, o)
		if r.Intn(2) == 0 {
			o2 := VC15OPT(r)
			m.Extra = append([]dns.RR{o2}, m.Extra...)
		}
		c.tag("opt-retyped")
	case 13: // a library record wearing the OPT type: IsEdns0's assertion panics
		rr := VC15LibRR(r, []uint16{dns.TypeA, dns.TypeTXT, dns.TypeNULL}[r.Intn(3)])
		rr.Header().Rrtype = dns.TypeOPT
		pos := r.Intn(len(m.Extra) + 1)
		m.Extra = append(m.Extra[:pos:pos], append([]dns.RR{rr}, m.Extra[pos:]...)...)
		if r.Intn(2) == 0 {
			m.Extra = append(m.Extra, VC15OPT(r))
		}
		c.tag("opt-impostor")
	}
	if len(opts) > 0 && r.Intn(4) != 0 && (m.Rcode < 0 || m.Rcode > 4095) {
		m.Rcode = r.Intn(4096)
	}

	n := len(m.Answer) + len(m.Ns) + len(m.Extra)
	c.Clean = make([]bool, n)
	for i := range c.Clean {
		c.Clean[i] = true
	}
	if hostile {
		vHostile(r, c)
	}
	return c
}

// vHostile replaces or inserts records this path must decline on.
func vHostile(r *rand.Rand, c *VC15Case) {
	m := c.Msg
	k := 1 + r.Intn(2)
	for ; k > 0; k-- {
		// insert a new slot at a random position of a random section
		sec := [3]*[]dns.RR{&m.Answer, &m.Ns, &m.Extra}[r.Intn(3)]
		at := r.Intn(len(*sec) + 1)
		var rr dns.RR
		clean := false
		switch r.Intn(13) {
		case 0:
			rr = nil
			c.tag("nil")
		case 1:
			rr = (*dns.A)(nil)
			c.tag("typednil")
		case 2:
			rr = (*dns.OPT)(nil)
			c.tag("typednil-opt")
		case 3:
			rr = &VC15WrapRR{VC15LibRR(r, 0)}
			c.tag("foreign-wrap-ptr")
		case 4:
			rr = VC15WrapRR{VC15LibRR(r, 0)}
			c.tag("foreign-wrap-val")
		case 5:
			rr = VC15EmbedA{VC15LibRR(r, dns.TypeA).(*dns.A)}
			c.tag("foreign-embed")
		case 6:
			rr = &VC15EmbedOPT{VC15OPT(r)}
			c.tag("foreign-opt-shaped")
		case 7:
			p := &dns.PrivateRR{Data: &VC15PrivData{Data: vText(r, 10)}}
			p.Hdr = dns.RR_Header{Name: VC15Name(r), Rrtype: 65280, Class: dns.ClassINET, Ttl: 60}
			rr = p
			c.tag("private")
		case 8:
			o := VC15OPT(r)
			o.Option = append(o.Option, VC15Opt{&dns.EDNS0_NSID{Code: dns.EDNS0NSID, Nsid: "aa"}})
			if r.Intn(2) == 0 {
				o.Option = append(o.Option, VC15Options(r, 1)...)
			}
			rr = o
			c.tag("opt-foreign-option")
		case 9:
			o := VC15OPT(r)
			switch r.Intn(3) {
			case 0:
				o.Option = append(o.Option, nil)
				c.tag("opt-nil-option")
			case 1:
				o.Option = append(o.Option, (*dns.EDNS0_NSID)(nil))
				c.tag("opt-typednil-option")
			default:
				o.Option = append(o.Option, &VC15OptPtr{&dns.EDNS0_NSID{Code: dns.EDNS0NSID, Nsid: "bb"}})
				c.tag("opt-foreign-option-ptr")
			}
			rr = o
		case 10:
			t := []uint16{dns.TypeSVCB, dns.TypeHTTPS}[r.Intn(2)]
			s := VC15LibRR(r, t)
			var vals *[]dns.SVCBKeyValue
			if sv, ok := s.(*dns.SVCB); ok {
				vals = &sv.Value
			} else {
				vals = &s.(*dns.HTTPS).Value
			}
			switch r.Intn(3) {
			case 0:
				*vals = append(*vals, VC15Svcb{&dns.SVCBLocal{KeyCode: 65400, Data: []byte("x")}})
				c.tag("svcb-foreign-value")
			case 1:
				*vals = append(*vals, nil)
				c.tag("svcb-nil-value")
			default:
				*vals = append(*vals, (*dns.SVCBPort)(nil))
				c.tag("svcb-typednil-value")
			}
			rr = s
		case 11: // a private record: typed nil
			rr = (*dns.PrivateRR)(nil)
			c.tag("typednil-private")
		default: // harmless: one more plain record, so hostile runs also contain clean messages
			rr = VC15LibRR(r, 0)
			clean = true
		}
		*sec = append((*sec)[:at:at], append([]dns.RR{rr}, (*sec)[at:]...)...)
		// recompute the flat index of the inserted slot
		flat := at
		if sec == &m.Ns {
			flat += len(m.Answer)
		} else if sec == &m.Extra {
			flat += len(m.Answer) + len(m.Ns)
		}
		c.Clean = append(c.Clean[:flat:flat], append([]bool{clean}, c.Clean[flat:]...)...)
	}
}

// VC15Sized returns a plain message whose uncompressed length is exactly target
// (when reachable), by adding one NULL record of the right size.
func VC15Sized(r *rand.Rand, target int) *VC15Case {
	for try := 0; try < 20; try++ {
		c := VC15Gen(r, false)
		m := c.Msg
		if m.Rcode < 0 || m.Rcode > 4095 {
			m.Rcode = 0
		}
		probe := *m
		probe.Compress = false
		ok := true
		func() {
			defer func() {
				if recover() != nil {
					ok = false
				}
			}()
			l := probe.Len()
			const fixed = 1 + 10 // root owner + type/class/ttl/rdlength
			if target-l-fixed < 0 {
				ok = false
				return
			}
			null := &dns.NULL{Hdr: dns.RR_Header{Name: ".", Rrtype: dns.TypeNULL, Class: dns.ClassINET, Ttl: 5, Rdlength: 7}, Data: string(vBytes(r, target-l-fixed))}
			switch r.Intn(3) {
			case 0:
				m.Answer = append(m.Answer, null)
				c.Clean = append(c.Clean[:len(m.Answer)-1:len(m.Answer)-1], append([]bool{true}, c.Clean[len(m.Answer)-1:]...)...)
			case 1:
				m.Extra = append(m.Extra, null)
				c.Clean = append(c.Clean, true)
			default:
				m.Extra = append([]dns.RR{null}, m.Extra...)
				at := len(m.Answer) + len(m.Ns)
				c.Clean = append(c.Clean[:at:at], append([]bool{true}, c.Clean[at:]...)...)
			}
		}()
		if ok {
			c.tag("sized")
			return c
		}
	}
	c := VC15Gen(r, false)
	return c
}

// ---------------------------------------------------------------- deep copy

type vMemoKey struct {
	p unsafe.Pointer
	t reflect.Type
}

// VC15DeepCopy copies a message completely, preserving aliasing between pointers
// (one OPT object appearing twice stays one object in the copy).
func VC15DeepCopy(m *dns.Msg) *dns.Msg {
	if m == nil {
		return nil
	}
	memo := map[vMemoKey]reflect.Value{}
	out := vDeep(reflect.ValueOf(m), memo)
	return out.Interface().(*dns.Msg)
}

func vDeep(v reflect.Value, memo map[vMemoKey]reflect.Value) reflect.Value {
	switch v.Kind() {
	case reflect.Pointer:
		if v.IsNil() {
			return reflect.Zero(v.Type())
		}
		key := vMemoKey{v.UnsafePointer(), v.Type()}
		if c, ok := memo[key]; ok {
			return c
		}
		n := reflect.New(v.Type().Elem())
		memo[key] = n
		vDeepInto(n.Elem(), v.Elem(), memo)
		return n
	case reflect.Interface:
		if v.IsNil() {
			return reflect.Zero(v.Type())
		}
		inner := vDeep(v.Elem(), memo)
		n := reflect.New(v.Type()).Elem()
		n.Set(inner)
		return n
	case reflect.Slice:
		if v.IsNil() {
			return reflect.Zero(v.Type())
		}
		n := reflect.MakeSlice(v.Type(), v.Len(), v.Len())
		for i := 0; i < v.Len(); i++ {
			n.Index(i).Set(vDeep(v.Index(i), memo))
		}
		return n
	case reflect.Struct, reflect.Array:
		n := reflect.New(v.Type()).Elem()
		vDeepInto(n, v, memo)
		return n
	case reflect.Map:
		if v.IsNil() {
			return reflect.Zero(v.Type())
		}
		n := reflect.MakeMapWithSize(v.Type(), v.Len())
		it := v.MapRange()
		for it.Next() {
			n.SetMapIndex(vDeep(it.Key(), memo), vDeep(it.Value(), memo))
		}
		return n
	}
	return v
}

func vDeepInto(dst, src reflect.Value, memo map[vMemoKey]reflect.Value) {
	switch src.Kind() {
	case reflect.Struct:
		if src.CanInterface() || src.CanAddr() || true {
			// whole-value copy first: carries unexported fields (shallow)
			dst.Set(src)
		}
		for i := 0; i < src.NumField(); i++ {
			if !dst.Field(i).CanSet() {
				continue
			}
			dst.Field(i).Set(vDeep(src.Field(i), memo))
		}
	case reflect.Array:
		for i := 0; i < src.Len(); i++ {
			dst.Index(i).Set(vDeep(src.Index(i), memo))
		}
	default:
		dst.Set(vDeep(src, memo))
	}
}

// VC15Diff compares a message with a snapshot taken earlier (deep), and the
// record slots with the interface values they held (shallow identity).
func VC15Diff(now, snap *dns.Msg, slots []dns.RR) string {
	if now.MsgHdr != snap.MsgHdr {
		return "header changed"
	}
	if now.Compress != snap.Compress {
		return "Compress changed"
	}
	if !reflect.DeepEqual(now.Question, snap.Question) {
		return "question changed"
	}
	cur := VC15Records(now)
	if len(cur) != len(slots) || len(now.Answer) != len(snap.Answer) || len(now.Ns) != len(snap.Ns) || len(now.Extra) != len(snap.Extra) {
		return "section lengths changed"
	}
	was := VC15Records(snap)
	for i := range cur {
		if !vSameIface(cur[i], slots[i]) {
			return fmt.Sprintf("record slot %d now holds a different value", i)
		}
		if !reflect.DeepEqual(cur[i], was[i]) {
			return fmt.Sprintf("record %d modified: %s", i, vDescribe(cur[i], was[i]))
		}
	}
	return ""
}

func vSameIface(a, b dns.RR) bool {
	if a == nil || b == nil {
		return a == nil && b == nil
	}
	ta, tb := reflect.TypeOf(a), reflect.TypeOf(b)
	if ta != tb {
		return false
	}
	if ta.Kind() == reflect.Pointer {
		return reflect.ValueOf(a).UnsafePointer() == reflect.ValueOf(b).UnsafePointer()
	}
	return reflect.DeepEqual(a, b)
}

func vDescribe(now, was dns.RR) (s string) {
	defer func() {
		if recover() != nil {
			s = "(unprintable)"
		}
	}()
	hn, hw := now.Header(), was.Header()
	if *hn != *hw {
		return fmt.Sprintf("header %+v was %+v", *hn, *hw)
	}
	return fmt.Sprintf("%T rdata", now)
}

// ---------------------------------------------------------------- reference

// VC15LibPack runs the library's own Pack, catching its panics.
func VC15LibPack(m *dns.Msg) (b []byte, err error, panicked bool) {
	defer func() {
		if r := recover(); r != nil {
			b, err, panicked = nil, nil, true
		}
	}()
	b, err = m.Pack()
	return b, err, false
}

// VC15WireRR is what a wire-level walk sees of one record.
type VC15WireRR struct {
	Type  uint16
	TTL   uint32
	Start int // offset of the owner name
	End   int // offset after the rdata
}

func vSkipName(b []byte, off int) (int, bool) {
	for {
		if off >= len(b) {
			return 0, false
		}
		c := int(b[off])
		switch {
		case c == 0:
			return off + 1, true
		case c&0xC0 == 0xC0:
			if off+2 > len(b) {
				return 0, false
			}
			return off + 2, true
		case c&0xC0 != 0:
			return 0, false
		default:
			off += 1 + c
		}
	}
}

// VC15Walk reads the header word, the counts and every record's type and TTL from
// packed bytes without the library's unpacker.
func VC15Walk(b []byte) (bits uint16, counts [4]uint16, rrs []VC15WireRR, ok bool) {
	if len(b) < 12 {
		return 0, counts, nil, false
	}
	bits = binary.BigEndian.Uint16(b[2:])
	for i := 0; i < 4; i++ {
		counts[i] = binary.BigEndian.Uint16(b[4+2*i:])
	}
	off := 12
	for i := 0; i < int(counts[0]); i++ {
		var good bool
		off, good = vSkipName(b, off)
		if !good || off+4 > len(b) {
			return bits, counts, nil, false
		}
		off += 4
	}
	n := int(counts[1]) + int(counts[2]) + int(counts[3])
	for i := 0; i < n; i++ {
		var good bool
		start := off
		off, good = vSkipName(b, off)
		if !good || off+10 > len(b) {
			return bits, counts, nil, false
		}
		t := binary.BigEndian.Uint16(b[off:])
		ttl := binary.BigEndian.Uint32(b[off+4:])
		rdl := int(binary.BigEndian.Uint16(b[off+8:]))
		off += 10 + rdl
		if off > len(b) {
			return bits, counts, nil, false
		}
		rrs = append(rrs, VC15WireRR{t, ttl, start, off})
	}
	return bits, counts, rrs, off == len(b)
}

// ---------------------------------------------------------------- Coq shapes

// VC15Shapes renders the records as Run.v compact shapes, numbering objects by
// (dynamic type, address) and packages by first appearance (index 0 = the library).
type VC15Shapes struct {
	Pkgs   []string
	PtrIDs map[vMemoKey]int
	Shapes []string // per record
	PtrOf  []int    // per record: object id (0 for nil / non-pointer values)
	TypNil []bool   // per record: typed-nil pointer
}

func (s *VC15Shapes) pkg(p string) int {
	for i, q := range s.Pkgs {
		if q == p {
			return i
		}
	}
	s.Pkgs = append(s.Pkgs, p)
	return len(s.Pkgs) - 1
}

func vBool(b bool) string {
	if b {
		return "true"
	}
	return "false"
}

func (s *VC15Shapes) dyn(v any) string {
	t := reflect.TypeOf(v)
	if t == nil {
		return "(D true false false 0)"
	}
	isPtr := t.Kind() == reflect.Pointer
	ptrNil := false
	if isPtr {
		ptrNil = reflect.ValueOf(v).IsNil()
		t = t.Elem()
	}
	return fmt.Sprintf("(D false %s %s %d)", vBool(isPtr), vBool(ptrNil), s.pkg(t.PkgPath()))
}

// VC15LibraryPkgPath is the package path reflect reports for a library type.
func VC15LibraryPkgPath() string { return reflect.TypeOf(dns.A{}).PkgPath() }

// VC15MakeShapes describes every record of m.
func VC15MakeShapes(m *dns.Msg) *VC15Shapes {
	s := &VC15Shapes{PtrIDs: map[vMemoKey]int{}}
	s.pkg(VC15LibraryPkgPath())
	for _, rr := range VC15Records(m) {
		kind := "KOther"
		var nested []string
		ptr := 0
		var typ uint16
		var ttl uint32
		typedNil := false
		if rr != nil {
			rv := reflect.ValueOf(rr)
			if rv.Kind() == reflect.Pointer {
				if rv.IsNil() {
					typedNil = true
				} else {
					key := vMemoKey{rv.UnsafePointer(), rv.Type()}
					id, ok := s.PtrIDs[key]
					if !ok {
						id = len(s.PtrIDs) + 1
						s.PtrIDs[key] = id
					}
					ptr = id
				}
			}
			switch v := rr.(type) {
			case *dns.OPT:
				kind = "KOpt"
				if v != nil {
					for _, o := range v.Option {
						nested = append(nested, s.dyn(o))
					}
				}
			case *dns.SVCB:
				kind = "KSvcb"
				if v != nil {
					for _, o := range v.Value {
						nested = append(nested, s.dyn(o))
					}
				}
			case *dns.HTTPS:
				kind = "KHttps"
				if v != nil {
					for _, o := range v.Value {
						nested = append(nested, s.dyn(o))
					}
				}
			case *dns.PrivateRR:
				kind = "KPrivate"
			}
			if !typedNil {
				func() {
					defer func() { _ = recover() }()
					h := rr.Header()
					typ, ttl = h.Rrtype, h.Ttl
				}()
			}
		}
		s.Shapes = append(s.Shapes, fmt.Sprintf("S %s %s [%s] %d %d %d", s.dyn(rr), kind, strings.Join(nested, ";"), ptr, typ, ttl))
		s.PtrOf = append(s.PtrOf, ptr)
		s.TypNil = append(s.TypNil, typedNil)
	}
	return s
}

// VC15CoqBytes renders a byte string as a Coq list of N.
func VC15CoqBytes(b string) string {
	if len(b) == 0 {
		return "[]"
	}
	parts := make([]string, len(b))
	for i := 0; i < len(b); i++ {
		parts[i] = fmt.Sprint(b[i])
	}
	return "[" + strings.Join(parts, ";") + "]%N"
}

// VC15CoqHeader renders the header as a Model.mhdr.
func VC15CoqHeader(m *dns.Msg) string {
	z := func(i int) string {
		if i < 0 {
			return fmt.Sprintf("(%d)", i)
		}
		return fmt.Sprint(i)
	}
	return fmt.Sprintf("(mk_mhdr %d %s %s %s %s %s %s %s %s %s %s)", m.Id, vBool(m.Response), z(m.Opcode), vBool(m.Authoritative),
		vBool(m.Truncated), vBool(m.RecursionDesired), vBool(m.RecursionAvailable), vBool(m.Zero), vBool(m.AuthenticatedData),
		vBool(m.CheckingDisabled), z(m.Rcode))
}

// VC15InterfaceFields lists library record types (other than OPT, SVCB, HTTPS and
// PrivateRR) that carry an interface-valued field: the admission check's premise
// is that there are none.
func VC15InterfaceFields() []string {
	var bad []string
	var walk func(t reflect.Type, depth int) bool
	walk = func(t reflect.Type, depth int) bool {
		if depth > 6 {
			return false
		}
		switch t.Kind() {
		case reflect.Interface:
			return true
		case reflect.Pointer, reflect.Slice, reflect.Array:
			return walk(t.Elem(), depth+1)
		case reflect.Map:
			return walk(t.Key(), depth+1) || walk(t.Elem(), depth+1)
		case reflect.Struct:
			for i := 0; i < t.NumField(); i++ {
				if walk(t.Field(i).Type, depth+1) {
					return true
				}
			}
		}
		return false
	}
	for _, ty := range vTypes {
		rr := dns.TypeToRR[ty]()
		switch rr.(type) {
		case *dns.OPT, *dns.SVCB, *dns.HTTPS:
			continue
		}
		if walk(reflect.TypeOf(rr).Elem(), 0) {
			bad = append(bad, fmt.Sprintf("%T", rr))
		}
	}
	return bad
}

// VC15Blame names the record whose wire range covers offset at in packed bytes b.
func VC15Blame(b []byte, at int, recs []dns.RR) string {
	_, _, rrs, ok := VC15Walk(b)
	if !ok || len(rrs) != len(recs) {
		return "unlocated"
	}
	for i, x := range rrs {
		if at >= x.Start && at < x.End {
			s := fmt.Sprintf("%T", recs[i])
			func() {
				defer func() { _ = recover() }()
				s = fmt.Sprintf("record %d %T at +%d of %d: %#v", i, recs[i], at-x.Start, x.End-x.Start, reflect.ValueOf(recs[i]).Elem().Interface())
			}()
			if len(s) > 500 {
				s = s[:500]
			}
			return s
		}
	}
	return "outside records"
}

// VC15StaleA reports whether a record's rdata goes through the library's packDataA
// with a 16-byte address that is not IPv4-mapped: packDataA then advances four
// octets without writing them (copy(msg[off:], a.To4()) with To4() == nil), so the
// rdata is whatever the output buffer held before — zeros in the library's fresh
// buffer, bytes of an earlier message in a pooled one.  (Finding stale-a-rdata.)
func VC15StaleA(m *dns.Msg) bool {
	bad := func(ip net.IP) bool { return len(ip) == net.IPv6len && ip.To4() == nil }
	for _, rr := range VC15Records(m) {
		switch v := rr.(type) {
		case *dns.A:
			if v != nil && bad(v.A) {
				return true
			}
		case *dns.L32:
			if v != nil && bad(v.Locator32) {
				return true
			}
		case *dns.IPSECKEY:
			if v != nil && v.GatewayType == dns.IPSECGatewayIPv4 && bad(v.GatewayAddr) {
				return true
			}
		case *dns.AMTRELAY:
			if v != nil && v.GatewayType&0x7f == dns.IPSECGatewayIPv4 && bad(v.GatewayAddr) {
				return true
			}
		}
	}
	return false
}

// VC15Bare returns a record-free message with several questions that share names:
// the one shape where the question count alone decides compressibility.
func VC15Bare(r *rand.Rand) *VC15Case {
	c := &VC15Case{Msg: new(dns.Msg)}
	m := c.Msg
	VC15Header(r, m)
	if m.Rcode < 0 || m.Rcode > 15 {
		m.Rcode = r.Intn(6)
	}
	m.Compress = r.Intn(4) != 0
	name := VC15Name(r)
	for i := 1 + r.Intn(3); i > 0; i-- {
		q := dns.Question{Name: name, Qtype: vCommon[r.Intn(len(vCommon))], Qclass: dns.ClassINET}
		if r.Intn(3) == 0 {
			q.Name = "sub." + name
		}
		m.Question = append(m.Question, q)
	}
	c.tag(fmt.Sprintf("bare-q%d", len(m.Question)))
	return c
}

// VC15AliasedOversize returns a library-built message too large for the pooled buffer
// whose selected OPT is the same object in Extra and in another section: the shape
// on which the immutable fallback has to swap every alias.
func VC15AliasedOversize(r *rand.Rand) *VC15Case {
	c := VC15Sized(r, 4096+50+r.Intn(500))
	m := c.Msg
	o := VC15OPT(r)
	o.Hdr.Ttl = 0xAB000000 | uint32(r.Intn(1<<16))
	m.Extra = append(m.Extra, o)
	c.Clean = append(c.Clean, true)
	if r.Intn(2) == 0 {
		m.Answer = append(m.Answer, o)
		at := len(m.Answer) - 1
		c.Clean = append(c.Clean[:at:at], append([]bool{true}, c.Clean[at:]...)...)
	} else {
		m.Ns = append([]dns.RR{o}, m.Ns...)
		at := len(m.Answer)
		c.Clean = append(c.Clean[:at:at], append([]bool{true}, c.Clean[at:]...)...)
	}
	if m.Rcode < 0 || m.Rcode > 4095 {
		m.Rcode = r.Intn(4096)
	}
	c.tag("aliased-oversize")
	return c
}

// VC15AddHole appends one record whose library packer advances over rdata octets without
// writing them (packDataA on a 16-byte non-IPv4 address) to an ordinary message: the
// record through which whatever a pooled buffer still holds would show on the wire.
func VC15AddHole(r *rand.Rand, c *VC15Case) {
	m := c.Msg
	var rr dns.RR
	if r.Intn(4) == 0 {
		rr = &dns.L32{Hdr: dns.RR_Header{Name: VC15Name(r), Rrtype: dns.TypeL32, Class: dns.ClassINET, Ttl: 300, Rdlength: 41000}, Preference: 10, Locator32: vIP(r, 16)}
	} else {
		rr = &dns.A{Hdr: dns.RR_Header{Name: VC15Name(r), Rrtype: dns.TypeA, Class: dns.ClassINET, Ttl: 300, Rdlength: 41000}, A: vIP(r, 16)}
	}
	switch r.Intn(3) {
	case 0:
		m.Answer = append(m.Answer, rr)
		at := len(m.Answer) - 1
		c.Clean = append(c.Clean[:at:at], append([]bool{true}, c.Clean[at:]...)...)
	case 1:
		m.Ns = append(m.Ns, rr)
		at := len(m.Answer) + len(m.Ns) - 1
		c.Clean = append(c.Clean[:at:at], append([]bool{true}, c.Clean[at:]...)...)
	default:
		m.Extra = append([]dns.RR{rr}, m.Extra...)
		at := len(m.Answer) + len(m.Ns)
		c.Clean = append(c.Clean[:at:at], append([]bool{true}, c.Clean[at:]...)...)
	}
	c.tag("hole")
}

// ---------------------------------------------------------------- small concrete replies (consumer model ties)

func vSmallBool(b bool) string {
	if b {
		return "true"
	}
	return "false"
}

func vSmallBytes(b []byte) string { return VC15CoqBytes(string(b)) }

// VC15SmallSteps: the rdata of the record types this generator builds, as C15.Concrete steps.
func VC15SmallSteps(rr dns.RR) (string, bool) {
	lit := func(x []byte) string { return "SBytes " + vSmallBytes(x) }
	nm := func(s string, compressible bool) string {
		return fmt.Sprintf("SName %s %s", VC15CoqBytes(s), vSmallBool(compressible))
	}
	u16 := func(v uint16) []byte { return []byte{byte(v >> 8), byte(v)} }
	u32 := func(v uint32) []byte { return []byte{byte(v >> 24), byte(v >> 16), byte(v >> 8), byte(v)} }
	var parts []string
	switch v := rr.(type) {
	case *dns.A:
		if len(v.A) != 4 {
			return "", false
		}
		parts = append(parts, lit(v.A))
	case *dns.AAAA:
		if len(v.AAAA) != 16 {
			return "", false
		}
		parts = append(parts, lit(v.AAAA))
	case *dns.NS:
		parts = append(parts, nm(v.Ns, true))
	case *dns.CNAME:
		parts = append(parts, nm(v.Target, true))
	case *dns.MX:
		parts = append(parts, lit(u16(v.Preference)), nm(v.Mx, true))
	case *dns.TXT:
		if len(v.Txt) == 0 {
			return "", false
		}
		for _, s := range v.Txt {
			if strings.Contains(s, "\\") || len(s) > 255 {
				return "", false
			}
			parts = append(parts, lit(append([]byte{byte(len(s))}, s...)))
		}
	case *dns.SOA:
		fixed := append(append(append(append(u32(v.Serial), u32(v.Refresh)...), u32(v.Retry)...), u32(v.Expire)...), u32(v.Minttl)...)
		parts = append(parts, nm(v.Ns, true), nm(v.Mbox, true), lit(fixed))
	case *dns.DS:
		d, err := hex.DecodeString(v.Digest)
		if err != nil || len(d) == 0 {
			return "", false
		}
		parts = append(parts, lit(append(append(u16(v.KeyTag), v.Algorithm, v.DigestType), d...)))
	case *dns.RRSIG:
		sig, err := base64.StdEncoding.DecodeString(v.Signature)
		if err != nil || len(sig) == 0 || len(sig)%3 != 0 {
			return "", false
		}
		fixed := append(u16(v.TypeCovered), v.Algorithm, v.Labels)
		fixed = append(append(append(append(fixed, u32(v.OrigTtl)...), u32(v.Expiration)...), u32(v.Inception)...), u16(v.KeyTag)...)
		parts = append(parts, lit(fixed), nm(v.SignerName, false), lit(sig))
	case *dns.NSEC:
		// RFC 4034 4.1.2, one window: types below 256, strictly increasing, not empty
		if len(v.TypeBitMap) == 0 {
			return "", false
		}
		var block [32]byte
		n := 0
		for i, t := range v.TypeBitMap {
			if t > 255 || (i > 0 && t <= v.TypeBitMap[i-1]) {
				return "", false
			}
			block[t/8] |= 1 << (7 - t%8)
			n = int(t/8) + 1
		}
		parts = append(parts, nm(v.NextDomain, false), lit(append([]byte{0, byte(n)}, block[:n]...)))
	case *dns.OPT:
		for _, o := range v.Option {
			var data []byte
			switch e := o.(type) {
			case *dns.EDNS0_EDE:
				data = append(u16(e.InfoCode), e.ExtraText...)
			case *dns.EDNS0_PADDING:
				data = e.Padding
			default:
				return "", false
			}
			parts = append(parts, lit(append(u16(o.Option()), u16(uint16(len(data)))...)))
			if len(data) > 0 {
				parts = append(parts, lit(data))
			}
		}
	default:
		return "", false
	}
	return "[" + strings.Join(parts, ";") + "]", true
}

// VC15SmallReply: a small reply of such records.
func VC15SmallReply(r *rand.Rand) *dns.Msg {
	m := new(dns.Msg)
	VC15Header(r, m)
	m.Rcode = []int{0, 0, 0, 0, 0, 0, 2, 3, 3, 3, 5, 16, 23, 4095}[r.Intn(14)]
	m.Compress = r.Intn(2) == 0
	base := []string{"example.com.", "a.example.org.", "Example.COM.", "xn--bcher-kva.example.", "."}[r.Intn(5)]
	pick := func() string {
		switch r.Intn(5) {
		case 0:
			return base
		case 1:
			return "www." + base
		case 2:
			return "ns1.a." + strings.ToLower(base)
		case 3:
			return "mail.example.net."
		}
		return "a.b." + base
	}
	if base == "." {
		pick = func() string { return []string{".", "com.", "a.root-servers.net.", "net."}[r.Intn(4)] }
	}
	qname := pick()
	qtype := []uint16{dns.TypeA, dns.TypeA, dns.TypeAAAA, dns.TypeMX, dns.TypeCNAME, dns.TypeDS, dns.TypeRRSIG, dns.TypeTXT}[r.Intn(8)]
	for i := []int{1, 1, 1, 1, 1, 1, 0, 2}[r.Intn(8)]; i > 0; i-- {
		m.Question = append(m.Question, dns.Question{Name: qname, Qtype: qtype, Qclass: dns.ClassINET})
		qtype = dns.TypeRRSIG // a second question asking for signatures does not count
	}
	if len(m.Question) > 0 && r.Intn(10) == 0 {
		m.Question[0].Name = VC15OddQName(r)
	}
	rb := func(n int) []byte { d := make([]byte, n); r.Read(d); return d }
	hdr := func(name string, t uint16) dns.RR_Header {
		return dns.RR_Header{Name: name, Rrtype: t, Class: dns.ClassINET, Ttl: uint32(r.Intn(90000)), Rdlength: uint16(40000 + r.Intn(100))}
	}
	sig := func(owner string, covered uint16) dns.RR {
		return &dns.RRSIG{Hdr: hdr(owner, dns.TypeRRSIG), TypeCovered: covered, Algorithm: 13, Labels: uint8(r.Intn(5)), OrigTtl: 3600, Expiration: r.Uint32(), Inception: r.Uint32(),
			KeyTag: uint16(r.Intn(65536)), SignerName: base, Signature: base64.StdEncoding.EncodeToString(rb(3 * (1 + r.Intn(8))))}
	}
	mk := func() dns.RR {
		owner := pick()
		if r.Intn(3) == 0 {
			owner = qname
		}
		switch r.Intn(11) {
		case 0, 1:
			return &dns.A{Hdr: hdr(owner, dns.TypeA), A: net.IP(rb(4))}
		case 2:
			return &dns.AAAA{Hdr: hdr(owner, dns.TypeAAAA), AAAA: net.IP(rb(16))}
		case 3:
			return &dns.NS{Hdr: hdr(owner, dns.TypeNS), Ns: pick()}
		case 4:
			return &dns.CNAME{Hdr: hdr(owner, dns.TypeCNAME), Target: pick()}
		case 5:
			return &dns.MX{Hdr: hdr(owner, dns.TypeMX), Preference: uint16(r.Intn(100)), Mx: pick()}
		case 6:
			return &dns.TXT{Hdr: hdr(owner, dns.TypeTXT), Txt: []string{"v=spf1 -all", "x"}[:1+r.Intn(2)]}
		case 7:
			return &dns.SOA{Hdr: hdr(owner, dns.TypeSOA), Ns: pick(), Mbox: pick(), Serial: r.Uint32(), Refresh: 7200, Retry: 900, Expire: 1209600, Minttl: 300}
		case 8:
			return &dns.DS{Hdr: hdr(owner, dns.TypeDS), KeyTag: uint16(r.Intn(65536)), Algorithm: 13, DigestType: 2, Digest: hex.EncodeToString(rb(32))}
		case 9:
			var ts []uint16
			t := 0
			for i := 1 + r.Intn(5); i > 0; i-- {
				t += 1 + r.Intn(40)
				ts = append(ts, uint16(t))
			}
			return &dns.NSEC{Hdr: hdr(owner, dns.TypeNSEC), NextDomain: pick(), TypeBitMap: ts}
		}
		return sig(owner, dns.TypeA)
	}
	signed := r.Intn(3) != 0
	fill := func(n int) []dns.RR {
		var out []dns.RR
		for i := 0; i < n; i++ {
			rr := mk()
			out = append(out, rr)
			if _, isSig := rr.(*dns.RRSIG); signed && !isSig && r.Intn(2) == 0 {
				out = append(out, sig(rr.Header().Name, rr.Header().Rrtype))
			}
		}
		return out
	}
	m.Answer, m.Ns, m.Extra = fill(r.Intn(4)), fill(r.Intn(3)), fill(r.Intn(3))
	// a DNSSEC object wearing another type, another object wearing a DNSSEC type: the filters go by object
	if all := append(append([]dns.RR{}, m.Answer...), m.Ns...); len(all) > 0 && r.Intn(5) == 0 {
		rr := all[r.Intn(len(all))]
		if _, isSig := rr.(*dns.RRSIG); isSig {
			rr.Header().Rrtype = dns.TypeTXT
		} else {
			rr.Header().Rrtype = []uint16{dns.TypeRRSIG, dns.TypeNSEC, dns.TypeNSEC3}[r.Intn(3)]
		}
	}
	// EDNS: none / last / first / two / retyped object / the object also in another section / with options
	mkOpt := func() *dns.OPT {
		o := &dns.OPT{Hdr: dns.RR_Header{Name: ".", Rrtype: dns.TypeOPT, Class: 1232, Ttl: []uint32{0, 0x8000, 0xAB008000}[r.Intn(3)], Rdlength: 77}}
		switch r.Intn(4) {
		case 0:
			o.Option = append(o.Option, &dns.EDNS0_EDE{InfoCode: uint16(r.Intn(30)), ExtraText: []string{"", "signature expired"}[r.Intn(2)]})
		case 1:
			o.Option = append(o.Option, &dns.EDNS0_PADDING{Padding: make([]byte, r.Intn(12))}, &dns.EDNS0_EDE{InfoCode: 6})
		}
		return o
	}
	switch r.Intn(9) {
	case 0, 1:
	case 2, 3, 4:
		m.Extra = append(m.Extra, mkOpt())
	case 5:
		m.Extra = append([]dns.RR{mkOpt()}, m.Extra...)
	case 6:
		m.Extra = append(append([]dns.RR{mkOpt()}, m.Extra...), mkOpt())
	case 7:
		o := mkOpt()
		o.Hdr.Rrtype = []uint16{0, dns.TypeA, dns.TypeTXT}[r.Intn(3)]
		at := r.Intn(len(m.Extra) + 1)
		m.Extra = append(m.Extra[:at:at], append([]dns.RR{o}, m.Extra[at:]...)...)
		if r.Intn(2) == 0 {
			m.Extra = append(m.Extra, mkOpt())
		}
	default:
		o := mkOpt()
		m.Extra = append(m.Extra, o)
		if r.Intn(2) == 0 {
			m.Answer = append(m.Answer, o)
		} else {
			m.Ns = append([]dns.RR{o}, m.Ns...)
		}
	}
	if r.Intn(20) == 0 {
		if recs := VC15Records(m); len(recs) > 0 {
			if rr := recs[r.Intn(len(recs))]; rr.Header().Rrtype != dns.TypeOPT {
				rr.Header().Name = "not-fully-qualified" // the library refuses: no entry
			}
		}
	}
	return m
}

func VC15IsDNSSECObject(rr dns.RR) bool {
	switch rr.(type) {
	case *dns.RRSIG, *dns.NSEC, *dns.NSEC3:
		return true
	}
	return false
}


// VC15SmallTerm renders a reply of VC15SmallReply as a C15.Run.cmsg term, with the ids of the
// objects whose Go type is RRSIG / NSEC / NSEC3 (a Coq list of N).
func VC15SmallTerm(m *dns.Msg) (term string, dnssecIDs string, ok bool) {
	sh := VC15MakeShapes(m)
	recs := VC15Records(m)
	var ids []string
	seen := map[int]bool{}
	ok = true
	render := func(lo, hi int) string {
		var parts []string
		for i := lo; i < hi; i++ {
			rr := recs[i]
			steps, okSteps := VC15SmallSteps(rr)
			if !okSteps {
				ok = false
			}
			kind := "KOther"
			if _, isOpt := rr.(*dns.OPT); isOpt {
				kind = "KOpt"
			}
			if VC15IsDNSSECObject(rr) && !seen[sh.PtrOf[i]] {
				seen[sh.PtrOf[i]] = true
				ids = append(ids, fmt.Sprint(sh.PtrOf[i]))
			}
			h := rr.Header()
			parts = append(parts, fmt.Sprintf("R %s %s %d %d %d %d %d %s", VC15CoqBytes(h.Name), kind, sh.PtrOf[i], h.Rrtype, h.Class, h.Ttl, h.Rdlength, steps))
		}
		return "[" + strings.Join(parts, ";") + "]"
	}
	var qs []string
	for _, q := range m.Question {
		qs = append(qs, fmt.Sprintf("(%s, %d%%N, %d%%N)", VC15CoqBytes(q.Name), q.Qtype, q.Qclass))
	}
	na, nn := len(m.Answer), len(m.Ns)
	term = fmt.Sprintf("(CM %s %s [%s] %s %s %s)", VC15CoqHeader(m), vBool(m.Compress), strings.Join(qs, ";"),
		render(0, na), render(na, na+nn), render(na+nn, len(recs)))
	dnssecIDs = "[]"
	if len(ids) > 0 {
		dnssecIDs = "[" + strings.Join(ids, ";") + "]%N"
	}
	return term, dnssecIDs, ok
}
