//go:build verif

package authority

// C08 correspondence driver for the delegation cache (overlay-injected, never
// committed to /repo).  Operation histories on a real authority.Cache whose
// `now` field is scripted: Set / SetUntil / Remove / Get around the expiry
// instant, past deadlines, zero and negative TTLs, the 12 h ceiling from both
// entry points, re-writes of live and dead entries.  One trace line per
// history: a Coq term for C08.Run (CaseAuth) plus a Go-side oracle that keeps
// its own table of (deadline, servers) per key.

import (
	"encoding/json"
	"errors"
	"fmt"
	"math/rand"
	"os"
	"strconv"
	"strings"
	"testing"
	"time"

	"github.com/semihalev/sdns/internal/cache"
)

func vC08AuthEnvInt(name string, def int) int {
	if s := os.Getenv(name); s != "" {
		if n, err := strconv.Atoi(s); err == nil {
			return n
		}
	}
	return def
}

func vC08AuthZ(x int64) string {
	if x < 0 {
		return fmt.Sprintf("(%d)", x)
	}
	return strconv.FormatInt(x, 10)
}

func TestVerifC08Auth(t *testing.T) {
	outp := os.Getenv("VERIF_OUT")
	if outp == "" {
		t.Skip("VERIF_OUT not set")
	}
	f, err := os.Create(outp)
	if err != nil {
		t.Fatal(err)
	}
	defer f.Close()
	seed := int64(vC08AuthEnvInt("VERIF_SEED", 1))
	n := vC08AuthEnvInt("VERIF_N", 1000)
	r := rand.New(rand.NewSource(seed))

	base := time.Now()
	const h12 = int64(12 * time.Hour)
	// interesting durations (ns)
	durs := []int64{0, 1, -1, int64(time.Second), 4 * int64(time.Second), int64(time.Minute), int64(time.Hour),
		h12 - 1, h12, h12 + 1, 2 * h12, 48 * int64(time.Hour), -int64(time.Hour), 1 << 40}
	pickDur := func() int64 {
		if r.Intn(3) == 0 {
			return r.Int63n(3*h12) - int64(time.Hour)
		}
		return durs[r.Intn(len(durs))]
	}

	for c := 0; c < n; c++ {
		ca := NewCache()
		var now int64 // virtual ns since base
		ca.now = func() time.Time { return base.Add(time.Duration(now)) }
		nkeys := 1 + r.Intn(3)
		servers := []*Servers{}
		srvID := map[*Servers]int{}
		newServers := func() *Servers {
			s := &Servers{Zone: fmt.Sprintf("z%d.", len(servers))}
			servers = append(servers, s)
			srvID[s] = len(servers)
			return s
		}
		type ent struct {
			dl  int64
			srv int
			ok  bool
		}
		oracle := map[int]ent{}
		var ops, desc []string
		goFail := ""
		nops := 3 + r.Intn(14)
		gets, hits, miss := 0, 0, 0
		var lastDL int64
		for i := 0; i < nops; i++ {
			// advance the clock: often to exactly a known deadline +-1
			switch r.Intn(6) {
			case 0:
			case 1:
				if lastDL != 0 {
					now = lastDL + []int64{-1, 0, 1}[r.Intn(3)]
				}
			case 2:
				now += r.Int63n(int64(time.Hour))
			case 3:
				now += pickDur()
				if now < 0 {
					now = 0
				}
			default:
				now += r.Int63n(1000)
			}
			k := r.Intn(nkeys)
			switch r.Intn(7) {
			case 0, 1: // Set
				ttl := pickDur()
				s := newServers()
				ca.Set(uint64(k), nil, s, time.Duration(ttl))
				if ttl > 0 {
					e := ttl
					if e > h12 {
						e = h12
					}
					oracle[k] = ent{now + e, srvID[s], true}
					lastDL = now + e
				}
				ops = append(ops, fmt.Sprintf("OpSet %s %d %d %s", vC08AuthZ(now), k, srvID[s], vC08AuthZ(ttl)))
				desc = append(desc, fmt.Sprintf("t=%d Set(k%d,ttl=%d)", now, k, ttl))
			case 2, 3: // SetUntil
				var exp int64
				switch r.Intn(4) {
				case 0:
					exp = now + []int64{-1, 0, 1}[r.Intn(3)]
				case 1:
					exp = now + h12 + []int64{-1, 0, 1}[r.Intn(3)]
				default:
					exp = now + pickDur()
				}
				s := newServers()
				ca.SetUntil(uint64(k), nil, s, base.Add(time.Duration(exp)))
				if exp > now {
					e := exp
					if e > now+h12 {
						e = now + h12
					}
					oracle[k] = ent{e, srvID[s], true}
					lastDL = e
				}
				ops = append(ops, fmt.Sprintf("OpSetUntil %s %d %d %s", vC08AuthZ(now), k, srvID[s], vC08AuthZ(exp)))
				desc = append(desc, fmt.Sprintf("t=%d SetUntil(k%d,exp=%d)", now, k, exp))
			case 4:
				if r.Intn(3) == 0 {
					ca.Remove(uint64(k))
					delete(oracle, k)
					ops = append(ops, fmt.Sprintf("OpRemove %d", k))
					desc = append(desc, fmt.Sprintf("t=%d Remove(k%d)", now, k))
					break
				}
				fallthrough
			default: // Get
				d, gerr := ca.Get(uint64(k))
				res, exp, sid := 2, int64(0), 0
				switch {
				case gerr == nil:
					res, exp, sid = 0, int64(d.ExpiresAt.Sub(base)), srvID[d.Servers]
					hits++
				case errors.Is(gerr, cache.ErrCacheExpired):
					res = 1
					miss++
				default:
					miss++
				}
				gets++
				o, ok := oracle[k]
				want := 2
				if ok {
					want = 1
					if now < o.dl {
						want = 0
					}
				}
				if goFail == "" && (want != res || (res == 0 && (exp != o.dl || sid != o.srv))) {
					goFail = fmt.Sprintf("Get(k%d) at t=%d: got res=%d exp=%d srv=%d, table says res=%d exp=%d srv=%d", k, now, res, exp, sid, want, o.dl, o.srv)
				}
				ops = append(ops, fmt.Sprintf("OpGet %s %d %d %s %d", vC08AuthZ(now), k, res, vC08AuthZ(exp), sid))
				desc = append(desc, fmt.Sprintf("t=%d Get(k%d)=%d/exp=%d/srv=%d", now, k, res, exp, sid))
			}
		}
		b, _ := json.Marshal(map[string]any{
			"k":          "auth-history",
			"coq":        "CaseAuth [" + strings.Join(ops, "; ") + "]",
			"go_fail":    goFail,
			"nontrivial": hits > 0 && miss > 0,
			"desc":       desc,
		})
		f.Write(append(b, '\n'))
	}
}
