//go:build verif

package authority

// C08 export hooks (overlay-injected with the build tag `verif`, never
// committed to /repo): virtual-clock support for the delegation cache, used by
// the C08 lab driver in package middleware/resolver.

import "time"

// VC08SetNow installs a scripted clock into the delegation cache.
func VC08SetNow(c *Cache, f func() time.Time) { c.now = f }

// VC08Shift emulates a clock advance of d: every stored delegation's absolute
// expiry moves d into the past (entries are replaced, never mutated: Delegation
// is documented as immutable once published).
func VC08Shift(c *Cache, d time.Duration) {
	type kv struct {
		k uint64
		v *Delegation
	}
	var all []kv
	c.cache.ForEach(func(key uint64, value any) bool {
		if dl, ok := value.(*Delegation); ok {
			all = append(all, kv{key, dl})
		}
		return true
	})
	for _, e := range all {
		c.cache.Add(e.k, &Delegation{Servers: e.v.Servers, DSSet: e.v.DSSet, ExpiresAt: e.v.ExpiresAt.Add(-d)})
	}
}

// VC08Raw returns the stored entry for key without the expiry test.
func VC08Raw(c *Cache, key uint64) (*Delegation, bool) {
	el, ok := c.cache.Get(key)
	if !ok {
		return nil, false
	}
	d, ok := el.(*Delegation)
	return d, ok
}
