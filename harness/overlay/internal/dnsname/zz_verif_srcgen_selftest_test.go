//go:build verif

package dnsname

// Differential test of the translator (harness/srcgen) on real repository code and on the library
// functions it models for ASCII input: prints `Example … : go_f args = <what Go computed>` lines
// for tools/srcgen_selftest.sh (VERIF_OUT names the file; VERIF_SEED the seed).

import (
	"fmt"
	"math/rand"
	"os"
	"strconv"
	"strings"
	"testing"
	"unicode"

	"github.com/miekg/dns"
)

func vSGBytes(s string) string {
	if s == "" {
		return "(@nil N)"
	}
	p := make([]string, len(s))
	for i := 0; i < len(s); i++ {
		p[i] = strconv.Itoa(int(s[i]))
	}
	return "([" + strings.Join(p, "; ") + "]%N)"
}

func TestVerifSrcgenSelftest(t *testing.T) {
	path := os.Getenv("VERIF_OUT")
	if path == "" {
		t.Skip("VERIF_OUT not set")
	}
	seed, _ := strconv.ParseInt(os.Getenv("VERIF_SEED"), 10, 64)
	r := rand.New(rand.NewSource(seed + 77))
	var b strings.Builder
	n := 0
	ex := func(lhs, rhs string) {
		n++
		fmt.Fprintf(&b, "Example r_%d : %s = %s.\nProof. vm_compute. reflexivity. Qed.\n", n, lhs, rhs)
	}
	labels := []string{"a", "B", "www", "Example", "com", "x-1", "_tcp", "a\\.b", "c\\\\", "z\\065", "*", "0", "a b", "t\tx"}
	name := func() string {
		k := r.Intn(5)
		if k == 0 && r.Intn(3) == 0 {
			return "."
		}
		var p []string
		for i := 0; i <= k; i++ {
			p = append(p, labels[r.Intn(len(labels))])
		}
		s := strings.Join(p, ".")
		if r.Intn(6) != 0 {
			s += "."
		}
		return s
	}
	related := func(a string) string {
		switch r.Intn(4) {
		case 0:
			return strings.ToUpper(a)
		case 1:
			if i := strings.Index(a, "."); i >= 0 && i+1 < len(a) {
				return a[i+1:]
			}
		case 2:
			return labels[r.Intn(len(labels))] + "." + a
		}
		return name()
	}
	fq := func(s string) string { return dns.Fqdn(s) }
	const fuel = "300%nat"
	for i := 0; i < 150; i++ {
		a := name()
		c := related(a)
		// library functions modelled in Common/GoList.v for ASCII input
		ex("go_is_fqdn_ascii "+vSGBytes(a), fmt.Sprint(dns.IsFqdn(a)))
		ex("go_fqdn_ascii "+vSGBytes(a), vSGBytes(dns.Fqdn(a)))
		ex("go_canonical_name_ascii "+vSGBytes(a), vSGBytes(dns.CanonicalName(a)))
		ex("go_ascii_lower "+vSGBytes(a), vSGBytes(strings.ToLower(a)))
		ex("go_index_byte "+vSGBytes(a)+" 46%N", fmt.Sprintf("(%d)%%Z", strings.IndexByte(a, '.')))
		ex("go_last_index_byte "+vSGBytes(a)+" 46%N", fmt.Sprintf("(%d)%%Z", strings.LastIndexByte(a, '.')))
		ex("go_contains "+vSGBytes(a)+" "+vSGBytes(c), fmt.Sprint(strings.Contains(a, c)))
		ex("go_index_space_ascii "+vSGBytes(a), fmt.Sprintf("(%d)%%Z", strings.IndexFunc(a, unicode.IsSpace)))
		ex("go_trim_suffix "+vSGBytes(a)+" "+vSGBytes(c), vSGBytes(strings.TrimSuffix(a, c)))
		ex("go_trim_prefix "+vSGBytes(a)+" "+vSGBytes(c), vSGBytes(strings.TrimPrefix(a, c)))
		ex("go_equal_fold_ascii "+vSGBytes(a)+" "+vSGBytes(c), fmt.Sprint(strings.EqualFold(a, c)))
		// repository functions translated with their miekg callees (fully qualified names only:
		// the library's label walkers are specified on those)
		fa, fc := fq(a), fq(c)
		ex("go_NextLabel "+fuel+" "+vSGBytes(fa)+" (0)%Z", func() string { i, e := dns.NextLabel(fa, 0); return fmt.Sprintf("Some ((%d)%%Z, %v)", i, e) }())
		ex("go_CountLabel "+fuel+" "+vSGBytes(fa), fmt.Sprintf("Some (%d)%%Z", dns.CountLabel(fa)))
		ex("go_CompareSuffix "+fuel+" "+vSGBytes(fa)+" "+vSGBytes(fc), fmt.Sprintf("Some (%d)%%Z", CompareSuffix(fa, fc)))
		ex("go_Sub "+fuel+" "+vSGBytes(fc)+" "+vSGBytes(fa), fmt.Sprintf("Some %v", Sub(fc, fa)))
		ex("go_CanonicalCompare "+fuel+" "+vSGBytes(fa)+" "+vSGBytes(fc), fmt.Sprintf("Some (%d)%%Z", CanonicalCompare(fa, fc)))
	}
	if err := os.WriteFile(path, []byte(b.String()), 0o644); err != nil {
		t.Fatal(err)
	}
}
