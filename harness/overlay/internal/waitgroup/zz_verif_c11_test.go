//go:build verif

package waitgroup

// C11 driver (b): generated schedules on the REAL WaitGroup.
//
// Sequential part: one goroutine drives JoinGeneration / Regroup /
// DoneGeneration / Add / Done / Get / Wait on a few keys in generated orders;
// "the bounded wait of generation g elapses" is produced by replacing g's
// context with one whose deadline has already passed (exactly what the timer
// does: Err() = DeadlineExceeded, Done() closed, later cancel is a no-op).
// Generations are numbered in creation order (pointer identity), which is the
// model's numbering.
//
// Concurrent part: real goroutines wait on one generation's Done channel; the
// leader completes it (or its real, short timer fires); every follower then
// calls Regroup at once. Recorded: how many distinct next generations they
// obtained, how many were told "leader", whether they got the previous one back.

import (
	"context"
	"encoding/json"
	"errors"
	"fmt"
	"math/rand"
	"os"
	"strconv"
	"strings"
	"sync"
	"testing"
	"time"
)

func vC11EnvInt(name string, def int) int {
	if s := os.Getenv(name); s != "" {
		if n, err := strconv.Atoi(s); err == nil {
			return n
		}
	}
	return def
}

type vC11Seq struct {
	wg   *WaitGroup
	gens []*Generation
}

func (s *vC11Seq) idx(g *Generation) int {
	for i, x := range s.gens {
		if x == g {
			return i
		}
	}
	s.gens = append(s.gens, g)
	return len(s.gens) - 1
}

// discover generations created without being returned (legacy Add)
func (s *vC11Seq) scan(keys []uint64) {
	for _, k := range keys {
		if g, ok := s.wg.groups[k]; ok {
			s.idx(g)
		}
	}
}

func vC11Status(g *Generation) int {
	switch err := g.ctx.Err(); {
	case err == nil:
		return 0
	case errors.Is(err, context.DeadlineExceeded):
		return 2
	default:
		return 1
	}
}

func (s *vC11Seq) cur(k uint64) int {
	if g, ok := s.wg.groups[k]; ok {
		return s.idx(g) + 1
	}
	return 0
}

func vC11Opt(i int) string {
	if i < 0 {
		return "None"
	}
	return fmt.Sprintf("(Some %d%%nat)", i)
}

func TestVerifC11WaitGroup(t *testing.T) {
	out := os.Getenv("VERIF_OUT")
	if out == "" {
		t.Skip("VERIF_OUT not set")
	}
	f, err := os.Create(out)
	if err != nil {
		t.Fatal(err)
	}
	defer f.Close()
	seed := int64(vC11EnvInt("VERIF_SEED", 1))
	n := vC11EnvInt("VERIF_N", 500)
	r := rand.New(rand.NewSource(seed*104729 + 5))
	keys := []uint64{0, 1, 2}
	emit := func(m map[string]any) {
		b, _ := json.Marshal(m)
		f.Write(append(b, '\n'))
	}
	nconc := n / 25
	if nconc < 6 {
		nconc = 6
	}
	for c := 0; c < n; c++ {
		s := &vC11Seq{wg: New(time.Hour)}
		legacy := r.Intn(10) < 3
		nops := 4 + r.Intn(22)
		var ops, obs, desc []string
		created := map[int]uint64{} // generation -> key it was created under
		regroups, dones, expires := 0, 0, 0
		var waiters sync.WaitGroup
		for i := 0; i < nops; i++ {
			k := keys[r.Intn(len(keys))]
			kind := r.Intn(100)
			if len(s.gens) == 0 && kind >= 25 && kind < 78 {
				kind = 0
			}
			switch {
			case kind < 25: // JoinGeneration (or the key-only Join)
				var g *Generation
				var leader bool
				if r.Intn(4) == 0 {
					before := s.wg.groups[k]
					chn := s.wg.Join(k)
					leader = chn == nil
					g = s.wg.groups[k]
					if !leader {
						g = before
					}
				} else {
					g, leader = s.wg.JoinGeneration(k)
				}
				gi := s.idx(g)
				if leader {
					created[gi] = k
				}
				ops = append(ops, fmt.Sprintf("OJoin %d", k))
				obs = append(obs, fmt.Sprintf("mk_wgobs %d %v 0 0", gi, leader))
				desc = append(desc, fmt.Sprintf("Join(%d)=(g%d,%v)", k, gi, leader))
			case kind < 50: // Regroup
				pi := -1
				var prev *Generation
				if r.Intn(10) != 0 {
					pi = r.Intn(len(s.gens))
					prev = s.gens[pi]
					// mostly regroup under the key the previous generation lived under,
					// sometimes under another key (the cache switches to the retry key)
					if ck, ok := created[pi]; ok && r.Intn(4) != 0 {
						k = ck
					}
				}
				pst := 0
				if prev != nil {
					pst = vC11Status(prev)
				}
				g, leader := s.wg.Regroup(k, prev)
				gi := s.idx(g)
				if leader {
					created[gi] = k
				}
				ops = append(ops, fmt.Sprintf("ORegroup %d %s", k, vC11Opt(pi)))
				obs = append(obs, fmt.Sprintf("mk_wgobs %d %v %d 0", gi, leader, pst))
				desc = append(desc, fmt.Sprintf("Regroup(%d,g%d[st%d])=(g%d,%v)", k, pi, pst, gi, leader))
				regroups++
			case kind < 70: // DoneGeneration
				gi := r.Intn(len(s.gens))
				if ck, ok := created[gi]; ok && r.Intn(10) < 7 {
					k = ck
				}
				var g *Generation
				if r.Intn(25) == 0 {
					gi = -1
				} else {
					g = s.gens[gi]
				}
				before := s.cur(k)
				s.wg.DoneGeneration(k, g)
				after := s.cur(k)
				ops = append(ops, fmt.Sprintf("ODoneGen %d %s", k, vC11Opt(gi)))
				obs = append(obs, fmt.Sprintf("mk_wgobs 0 false %d %d", before, after))
				desc = append(desc, fmt.Sprintf("DoneGeneration(%d,g%d): cur %d->%d", k, gi, before, after))
				dones++
			case kind < 78: // the bounded wait of a generation elapses
				gi := r.Intn(len(s.gens))
				g := s.gens[gi]
				if g.ctx.Err() == nil {
					old := g.cancel
					g.ctx, g.cancel = context.WithDeadline(context.Background(), time.Unix(1, 0)) //nolint
					old()
				}
				ops = append(ops, fmt.Sprintf("OExpire %d", gi))
				obs = append(obs, "mk_wgobs 0 false 0 0")
				desc = append(desc, fmt.Sprintf("Expire(g%d)", gi))
				expires++
			case kind < 84 && legacy:
				s.wg.Add(k)
				ops = append(ops, fmt.Sprintf("OAdd %d", k))
				obs = append(obs, "mk_wgobs 0 false 0 0")
				desc = append(desc, fmt.Sprintf("Add(%d)", k))
			case kind < 90 && legacy:
				s.wg.Done(k)
				ops = append(ops, fmt.Sprintf("ODone %d", k))
				obs = append(obs, "mk_wgobs 0 false 0 0")
				desc = append(desc, fmt.Sprintf("Done(%d)", k))
			case kind < 98:
				v := s.wg.Get(k)
				ops = append(ops, fmt.Sprintf("OGet %d", k))
				obs = append(obs, fmt.Sprintf("mk_wgobs 0 false %d 0", v))
				desc = append(desc, fmt.Sprintf("Get(%d)=%d", k, v))
			default: // Wait: does it block?
				live := false
				if g, ok := s.wg.groups[k]; ok && g.ctx.Err() == nil {
					live = true
				}
				done := make(chan struct{})
				waiters.Add(1)
				go func() { defer waiters.Done(); s.wg.Wait(k); close(done) }()
				blocked := 0
				limit := 10 * time.Second // must return: only a wedged Wait takes this long
				if live {
					limit = 40 * time.Millisecond // must block: give a wrong early return time to show
				}
				select {
				case <-done:
				case <-time.After(limit):
					blocked = 1
				}
				ops = append(ops, fmt.Sprintf("OWait %d", k))
				obs = append(obs, fmt.Sprintf("mk_wgobs 0 false %d 0", blocked))
				desc = append(desc, fmt.Sprintf("Wait(%d) blocked=%d", k, blocked))
			}
			s.scan(keys)
		}
		var fin, kf []string
		for _, g := range s.gens {
			nx := -1
			if g.next != nil {
				nx = s.idx(g.next)
			}
			fin = append(fin, fmt.Sprintf("mk_gfin %d %d %s", vC11Status(g), g.dups, vC11Opt(nx)))
		}
		for _, k := range keys {
			kf = append(kf, fmt.Sprintf("mk_kfin %d %s", k, vC11Opt(s.cur(k)-1)))
		}
		// release every goroutine parked in Wait
		for _, g := range s.gens {
			g.cancel()
		}
		waiters.Wait()
		kind := "wg-gen-api"
		if legacy {
			kind = "wg-legacy-mix"
		}
		emit(map[string]any{
			"k":            kind,
			"coq":          fmt.Sprintf("CaseWG [%s] [%s] [%s] [%s]", strings.Join(ops, "; "), strings.Join(obs, "; "), strings.Join(fin, "; "), strings.Join(kf, "; ")),
			"nontrivial":   regroups > 0 && dones+expires > 0,
			"desc":         map[string]any{"ops": desc, "final": fin},
		})
	}

	// concurrent part
	for c := 0; c < nconc; c++ {
		followers := 1 + r.Intn(8)
		expired := r.Intn(3) == 0
		timeout := time.Hour
		if expired {
			timeout = 30 * time.Millisecond
		}
		wg := New(timeout)
		const key = 7
		lead, isLeader := wg.JoinGeneration(key)
		if !isLeader {
			t.Fatal("first join not leader")
		}
		type res struct {
			g      *Generation
			leader bool
			joined *Generation
			jl     bool
		}
		results := make([]res, followers)
		joined := make(chan struct{}, followers)
		var grp sync.WaitGroup
		for i := 0; i < followers; i++ {
			grp.Add(1)
			go func(i int) {
				defer grp.Done()
				g, l := wg.JoinGeneration(key)
				results[i].joined, results[i].jl = g, l
				joined <- struct{}{}
				if l {
					return
				}
				<-g.Done()
				results[i].g, results[i].leader = wg.Regroup(key, g)
			}(i)
		}
		inconclusive := false
		for i := 0; i < followers; i++ {
			select {
			case <-joined:
			case <-time.After(20 * time.Second):
				inconclusive = true
			}
		}
		if !expired {
			wg.DoneGeneration(key, lead)
		}
		fin := make(chan struct{})
		go func() { grp.Wait(); close(fin) }()
		goFail := ""
		select {
		case <-fin:
		case <-time.After(20 * time.Second):
			// followers not released by Done / by the bounded wait
			goFail = "followers still blocked 20 s after the leader's Done / the 30 ms bound"
		}
		distinct := map[*Generation]bool{}
		leaders := 0
		same := true
		if goFail == "" {
			for _, x := range results {
				if x.jl || x.joined != lead {
					goFail = "a follower joining while the leader was registered did not get the leader's generation"
					continue
				}
				distinct[x.g] = true
				if x.leader {
					leaders++
				}
				if x.g != lead {
					same = false
				}
			}
		}
		// tidy: complete whatever was created
		for g := range distinct {
			wg.DoneGeneration(key, g)
		}
		wg.DoneGeneration(key, lead)
		kind := "wg-conc-done"
		if expired {
			kind = "wg-conc-expired"
		}
		emit(map[string]any{
			"k":            kind,
			"coq":          fmt.Sprintf("CaseWGConc %d %v %d %d %v", followers, expired, len(distinct), leaders, same),
			"nontrivial":   followers >= 2,
			"go_fail":      goFail,
			"inconclusive": inconclusive,
			"desc":         map[string]any{"followers": followers, "expired": expired, "distinct_next": len(distinct), "leaders": leaders, "got_previous_back": same},
		})
	}
}
