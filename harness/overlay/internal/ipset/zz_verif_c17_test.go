//go:build verif

package ipset

// C17 correspondence driver (overlay-injected, never committed to /repo).
// Generates CIDR lists with overlaps, nesting, adjacency, duplicates, host
// bits, both families and malformed entries; probes addresses at and around
// every range boundary (plus 4-in-6 forms); records ipset.Contains for each.
// One trace line per list: a Coq term for C17.Run plus a Go-side naive
// oracle verdict (netip.Prefix.Contains).

import (
	"encoding/binary"
	"encoding/json"
	"fmt"
	"math/big"
	"math/rand"
	"net/netip"
	"os"
	"strconv"
	"strings"
	"testing"
)

type vTrace struct {
	f *os.File
}

func vOpen(t *testing.T) *vTrace {
	p := os.Getenv("VERIF_OUT")
	if p == "" {
		t.Skip("VERIF_OUT not set")
	}
	f, err := os.Create(p)
	if err != nil {
		t.Fatal(err)
	}
	return &vTrace{f: f}
}

func (v *vTrace) emit(m map[string]any) {
	b, _ := json.Marshal(m)
	v.f.Write(append(b, '\n'))
}

func vEnvInt(name string, def int) int {
	if s := os.Getenv(name); s != "" {
		if n, err := strconv.Atoi(s); err == nil {
			return n
		}
	}
	return def
}

func addrBig(a netip.Addr) *big.Int {
	if a.Is4() {
		b := a.As4()
		return new(big.Int).SetUint64(uint64(binary.BigEndian.Uint32(b[:])))
	}
	b := a.As16()
	return new(big.Int).SetBytes(b[:])
}

func bigAddr(is4 bool, v *big.Int) netip.Addr {
	if is4 {
		var b [4]byte
		binary.BigEndian.PutUint32(b[:], uint32(v.Uint64()))
		return netip.AddrFrom4(b)
	}
	var b [16]byte
	v.FillBytes(b[:])
	return netip.AddrFrom16(b)
}

func randAddr(r *rand.Rand, is4 bool) netip.Addr {
	if is4 {
		var b [4]byte
		r.Read(b[:])
		if r.Intn(3) == 0 { // cluster
			b[0], b[1] = 10, byte(r.Intn(2))
		}
		return netip.AddrFrom4(b)
	}
	var b [16]byte
	r.Read(b[:])
	switch r.Intn(4) {
	case 0:
		copy(b[:], []byte{0x20, 0x01, 0x0d, 0xb8, 0, 0, 0, byte(r.Intn(2))})
	case 1: // low half only varies: exercises the hi==hi, lo compare
		for i := 0; i < 8; i++ {
			b[i] = 0
		}
	}
	return netip.AddrFrom16(b)
}

func genBits(r *rand.Rand, is4 bool) int {
	w := 128
	if is4 {
		w = 32
	}
	switch r.Intn(6) {
	case 0:
		return []int{0, 1, w - 1, w}[r.Intn(4)]
	case 1:
		if !is4 {
			return []int{63, 64, 65}[r.Intn(3)]
		}
	}
	return r.Intn(w + 1)
}

func TestVerifC17Ipset(t *testing.T) {
	tr := vOpen(t)
	defer tr.f.Close()
	seed := int64(vEnvInt("VERIF_SEED", 1))
	n := vEnvInt("VERIF_N", 500)
	r := rand.New(rand.NewSource(seed))
	malformed := []string{"", "1", "10.0.0.0", "10.0.0.0/33", "::/129", "10.0.0.0/-1", "10.0.0.256/8", "fe80::1%eth0/64", "1.2.3.4/ 8", "::ffff:1.2.3.4/40x", "/8"}
	// fixed regression inputs first: the minimal failing inputs of past seeded changes
	type fixedCase struct {
		cidrs  []string
		probes []string
	}
	fixed := []fixedCase{
		{[]string{"2001:db8::/48", "2001:db8::/32"}, []string{"2001:db8:1::1", "2001:db8::1", "2001:db9::1", "2001:db7:ffff:ffff:ffff:ffff:ffff:ffff"}},
		{[]string{"2001:db8::/32", "2001:db8::/48"}, []string{"2001:db8:1::1", "2001:db8:ffff:ffff:ffff:ffff:ffff:ffff", "2001:db9::"}},
		{[]string{"::ffff:10.0.0.0/8"}, []string{"2001:db8::1", "10.1.2.3", "::ffff:10.1.2.3", "::1", "ff00::1"}},
		{[]string{"::ffff:0.0.0.0/64"}, []string{"::1", "0:0:0:1::1", "10.0.0.1", "::ffff:10.0.0.1"}},
		{[]string{"::ffff:10.0.0.0/104"}, []string{"10.1.2.3", "::ffff:10.1.2.3", "::ffff:11.0.0.0"}},
		{[]string{"10.0.0.0/8", "10.0.0.0/8", "10.128.0.0/9"}, []string{"9.255.255.255", "10.0.0.0", "10.255.255.255", "11.0.0.0", "::ffff:10.200.0.1"}},
		{[]string{"0.0.0.0/0"}, []string{"0.0.0.0", "255.255.255.255", "::", "::ffff:1.2.3.4"}},
		{[]string{"::/0"}, []string{"::", "ffff:ffff:ffff:ffff:ffff:ffff:ffff:ffff", "1.2.3.4", "::ffff:1.2.3.4"}},
		{[]string{"fe80::/64", "fe80::/63", "fe80:0:0:1::/64"}, []string{"fe80::1", "fe80:0:0:1::1", "fe80:0:0:2::", "fe7f:ffff:ffff:ffff:ffff:ffff:ffff:ffff"}},
	}
	// ... and the corpus (corpus/C17/ipset.json): minimal failing inputs of every seeded change this driver caught
	if dir := os.Getenv("VERIF_CORPUS"); dir != "" {
		if raw, err := os.ReadFile(dir + "/ipset.json"); err == nil {
			var extra []struct {
				Cidrs  []string `json:"cidrs"`
				Probes []string `json:"probes"`
			}
			if err := json.Unmarshal(raw, &extra); err != nil {
				t.Fatalf("corpus ipset.json: %v", err)
			}
			for _, e := range extra {
				fixed = append(fixed, fixedCase{e.Cidrs, e.Probes})
			}
		}
	}
	for _, fc := range fixed {
		set, _ := New(fc.cidrs)
		var good []netip.Prefix
		for _, c := range fc.cidrs {
			if p, err := netip.ParsePrefix(c); err == nil {
				good = append(good, p)
			}
		}
		var pcoq, acoq, adesc []string
		goFail := ""
		for _, p := range good {
			pcoq = append(pcoq, fmt.Sprintf("mk_prefix %v %s %d", p.Addr().Is4(), addrBig(p.Addr()).String(), p.Bits()))
		}
		for _, ps := range fc.probes {
			a := netip.MustParseAddr(ps)
			got := set.Contains(a)
			ua := a
			if ua.Is4In6() {
				ua = ua.Unmap()
			}
			want := false
			for _, p := range good {
				if p.Masked().Contains(ua) {
					want = true
				}
			}
			if got != want && goFail == "" {
				goFail = fmt.Sprintf("Contains(%s)=%v but naive scan over %v says %v", a, got, fc.cidrs, want)
			}
			acoq = append(acoq, fmt.Sprintf("(mk_addr %v %s, %v)", a.Is4(), addrBig(a).String(), got))
			adesc = append(adesc, fmt.Sprintf("%s=%v", a, got))
		}
		tr.emit(map[string]any{"k": "set-fixed-regression", "coq": "CaseSet [" + strings.Join(pcoq, "; ") + "] [" + strings.Join(acoq, "; ") + "]", "go_fail": goFail, "nontrivial": true,
			"desc": map[string]any{"cidrs": fc.cidrs, "probes": adesc}})
	}
	for c := 0; c < n; c++ {
		var cidrs []string
		var good []netip.Prefix
		nb := 0
		cnt := r.Intn(9)
		if r.Intn(10) == 0 {
			cnt = 20 + r.Intn(40)
		}
		var pool []netip.Prefix
		for i := 0; i < cnt; i++ {
			var p netip.Prefix
			kind := r.Intn(9)
			if kind == 8 {
				kind = 0
			}
			if len(pool) == 0 && kind >= 2 && kind <= 5 {
				kind = 0
			}
			switch kind {
			case 2: // duplicate
				p = pool[r.Intn(len(pool))]
			case 3: // nested: longer prefix inside an existing one
				q := pool[r.Intn(len(pool))]
				w := q.Addr().BitLen()
				b := q.Bits() + r.Intn(w-q.Bits()+1)
				lo := addrBig(q.Masked().Addr())
				span := new(big.Int).Lsh(big.NewInt(1), uint(w-q.Bits()))
				off := new(big.Int).Rand(r, span)
				p = netip.PrefixFrom(bigAddr(q.Addr().Is4(), lo.Add(lo, off)), b)
			case 4, 5: // adjacent block before / after
				q := pool[r.Intn(len(pool))]
				w := q.Addr().BitLen()
				lo := addrBig(q.Masked().Addr())
				span := new(big.Int).Lsh(big.NewInt(1), uint(w-q.Bits()))
				var nv *big.Int
				if kind == 4 {
					nv = new(big.Int).Sub(lo, big.NewInt(1))
				} else {
					nv = new(big.Int).Add(lo, span)
				}
				max := new(big.Int).Lsh(big.NewInt(1), uint(w))
				if nv.Sign() < 0 || nv.Cmp(max) >= 0 {
					nv = lo
				}
				p = netip.PrefixFrom(bigAddr(q.Addr().Is4(), nv), genBitsAtLeast(r, q.Addr().Is4(), 0))
			case 6: // malformed
				cidrs = append(cidrs, malformed[r.Intn(len(malformed))])
				nb++
				continue
			case 7: // an IPv4-mapped IPv6 prefix, any length (also shorter than /96)
				var b [4]byte
				r.Read(b[:])
				if r.Intn(2) == 0 {
					b[0], b[1] = 10, byte(r.Intn(2))
				}
				a16 := netip.AddrFrom4(b).As16()
				bits := []int{0, 8, 64, 95, 96, 97, 104, 120, 128}[r.Intn(9)]
				if r.Intn(3) == 0 {
					bits = r.Intn(129)
				}
				p = netip.PrefixFrom(netip.AddrFrom16(a16), bits)
			default:
				is4 := r.Intn(2) == 0
				p = netip.PrefixFrom(randAddr(r, is4), genBits(r, is4))
			}
			if !p.IsValid() {
				continue
			}
			pool = append(pool, p)
			good = append(good, p)
			cidrs = append(cidrs, p.String()) // host bits kept: String prints addr/bits unmasked
		}
		set, bad := New(cidrs)
		// probes
		var probes []netip.Addr
		for _, p := range good {
			w := p.Addr().BitLen()
			lo := addrBig(p.Masked().Addr())
			span := new(big.Int).Lsh(big.NewInt(1), uint(w-p.Bits()))
			hi := new(big.Int).Add(lo, span)
			hi.Sub(hi, big.NewInt(1))
			max := new(big.Int).Lsh(big.NewInt(1), uint(w))
			for _, v := range []*big.Int{new(big.Int).Sub(lo, big.NewInt(1)), lo, hi, new(big.Int).Add(hi, big.NewInt(1)), new(big.Int).Add(lo, new(big.Int).Rand(r, span))} {
				if v.Sign() < 0 || v.Cmp(max) >= 0 {
					continue
				}
				a := bigAddr(p.Addr().Is4(), v)
				probes = append(probes, a)
				if a.Is4In6() && r.Intn(2) == 0 {
					probes = append(probes, a.Unmap()) // the IPv4 address a mapped range "carries"
				}
				if a.Is4() && r.Intn(3) == 0 {
					probes = append(probes, netip.AddrFrom16(a.As16())) // 4-in-6 form
				}
			}
		}
		for i := 0; i < 4; i++ {
			probes = append(probes, randAddr(r, r.Intn(2) == 0))
		}
		if len(probes) > 40 {
			r.Shuffle(len(probes), func(i, j int) { probes[i], probes[j] = probes[j], probes[i] })
			probes = probes[:40]
		}
		var pcoq, acoq []string
		var pdesc []string
		for _, p := range good {
			pcoq = append(pcoq, fmt.Sprintf("mk_prefix %v %s %d", p.Addr().Is4(), addrBig(p.Addr()).String(), p.Bits()))
			pdesc = append(pdesc, p.String())
		}
		goFail := ""
		hits := 0
		var adesc []string
		for _, a := range probes {
			got := set.Contains(a)
			want := false
			ua := a
			if ua.Is4In6() {
				ua = ua.Unmap()
			}
			for _, p := range good {
				if p.Masked().Contains(ua) {
					want = true
				}
			}
			if got {
				hits++
			}
			if got != want && goFail == "" {
				goFail = fmt.Sprintf("Contains(%s)=%v but naive scan over %v says %v", a, got, pdesc, want)
			}
			acoq = append(acoq, fmt.Sprintf("(mk_addr %v %s, %v)", a.Is4(), addrBig(a).String(), got))
			adesc = append(adesc, fmt.Sprintf("%s=%v", a, got))
		}
		if len(bad) != nb && goFail == "" {
			goFail = fmt.Sprintf("bad entries reported %d, malformed supplied %d", len(bad), nb)
		}
		k := "set"
		if len(good) == 0 {
			k = "set-empty"
		} else if nb > 0 {
			k = "set-with-malformed"
		}
		tr.emit(map[string]any{
			"k":          k,
			"coq":        "CaseSet [" + strings.Join(pcoq, "; ") + "] [" + strings.Join(acoq, "; ") + "]",
			"go_fail":    goFail,
			"nontrivial": len(good) > 0 && hits > 0 && hits < len(probes),
			"desc":       map[string]any{"cidrs": cidrs, "probes": adesc},
		})
	}
}

func genBitsAtLeast(r *rand.Rand, is4 bool, min int) int {
	b := genBits(r, is4)
	if b < min {
		b = min
	}
	return b
}

// TestVerifC17IpsetSmall — thorough tier only: exhaustive small scope. Every ORDERED list of up to three prefixes
// (the order a list is configured in is what an unstable sort may or may not preserve) over a tiny universe, and
// every address of the universe plus its two outside neighbours, in three places: an IPv4 block of 8 addresses
// (all 15 prefixes /29../32 inside it), the same block probed in 4-in-6 form, and 8 IPv6 addresses straddling the
// 64-bit half boundary of the 128-bit key (H:ffff:ffff:ffff:fffc .. H+1::3 — the /63, both /64, the /126, /127, /128
// inside: 17 prefixes; ordered pairs and unordered triples).
func TestVerifC17IpsetSmall(t *testing.T) {
	tr := vOpen(t)
	defer tr.f.Close()
	run := func(kind string, cidrs []netip.Prefix, probes []netip.Addr) {
		var cs []string
		for _, p := range cidrs {
			cs = append(cs, p.String())
		}
		set, _ := New(cs)
		var pcoq, acoq, adesc []string
		goFail := ""
		for _, p := range cidrs {
			pcoq = append(pcoq, fmt.Sprintf("mk_prefix %v %s %d", p.Addr().Is4(), addrBig(p.Addr()).String(), p.Bits()))
		}
		hits := 0
		for _, a := range probes {
			got := set.Contains(a)
			ua := a
			if ua.Is4In6() {
				ua = ua.Unmap()
			}
			want := false
			for _, p := range cidrs {
				if p.Masked().Contains(ua) {
					want = true
				}
			}
			if got {
				hits++
			}
			if got != want && goFail == "" {
				goFail = fmt.Sprintf("Contains(%s)=%v but naive scan over %v says %v", a, got, cs, want)
			}
			acoq = append(acoq, fmt.Sprintf("(mk_addr %v %s, %v)", a.Is4(), addrBig(a).String(), got))
			adesc = append(adesc, fmt.Sprintf("%s=%v", a, got))
		}
		tr.emit(map[string]any{"k": kind, "coq": "CaseSet [" + strings.Join(pcoq, "; ") + "] [" + strings.Join(acoq, "; ") + "]", "go_fail": goFail,
			"nontrivial": hits > 0 && hits < len(probes), "desc": map[string]any{"cidrs": cs, "probes": adesc}})
	}
	universe := func(base netip.Addr, top int, addrs []netip.Addr) []netip.Prefix {
		seen := map[netip.Prefix]bool{}
		var out []netip.Prefix
		for bits := top; bits <= base.BitLen(); bits++ {
			for _, a := range addrs {
				p, _ := a.Prefix(bits)
				if !seen[p] {
					seen[p] = true
					// host bits kept on every second prefix: New must mask them
					if len(out)%2 == 1 {
						p = netip.PrefixFrom(a, bits)
					}
					out = append(out, p)
				}
			}
		}
		return out
	}
	// IPv4: 10.0.0.8/29
	var a4 []netip.Addr
	for i := 0; i < 8; i++ {
		a4 = append(a4, netip.AddrFrom4([4]byte{10, 0, 0, byte(8 + i)}))
	}
	u4 := universe(a4[0], 29, a4)
	probes4 := append([]netip.Addr{netip.MustParseAddr("10.0.0.7"), netip.MustParseAddr("10.0.0.16")}, a4...)
	var probes4in6 []netip.Addr
	for _, a := range probes4 {
		probes4in6 = append(probes4in6, netip.AddrFrom16(a.As16()))
	}
	run("small-v4", nil, probes4)
	for i := range u4 {
		run("small-v4", []netip.Prefix{u4[i]}, probes4)
		for j := range u4 {
			run("small-v4", []netip.Prefix{u4[i], u4[j]}, probes4)
			for k := range u4 {
				pr := probes4
				if (i+j+k)%4 == 0 {
					pr = probes4in6
				}
				run("small-v4", []netip.Prefix{u4[i], u4[j], u4[k]}, pr)
			}
		}
	}
	// IPv6 across the half boundary: 2001:db8:0:2:ffff:ffff:ffff:fffc .. 2001:db8:0:3::3
	var a6 []netip.Addr
	first := netip.MustParseAddr("2001:db8:0:2:ffff:ffff:ffff:fffc")
	a := first
	for i := 0; i < 8; i++ {
		a6 = append(a6, a)
		a = a.Next()
	}
	var u6 []netip.Prefix
	for _, bits := range []int{63, 64, 126, 127, 128} {
		seen := map[netip.Prefix]bool{}
		for _, x := range a6 {
			p, _ := x.Prefix(bits)
			if !seen[p] {
				seen[p] = true
				if len(u6)%2 == 1 {
					p = netip.PrefixFrom(x, bits)
				}
				u6 = append(u6, p)
			}
		}
	}
	probes6 := append([]netip.Addr{first.Prev(), a, netip.MustParseAddr("2001:db8:0:2::"), netip.MustParseAddr("2001:db8:0:3:ffff:ffff:ffff:ffff"), netip.MustParseAddr("2001:db8:0:4::"), netip.MustParseAddr("2001:db8:0:1:ffff:ffff:ffff:ffff")}, a6...)
	for i := range u6 {
		run("small-v6-half-boundary", []netip.Prefix{u6[i]}, probes6)
		for j := range u6 {
			run("small-v6-half-boundary", []netip.Prefix{u6[i], u6[j]}, probes6)
			for k := j + 1; k < len(u6); k++ {
				if i < j {
					run("small-v6-half-boundary", []netip.Prefix{u6[i], u6[j], u6[k]}, probes6)
				}
			}
		}
	}
}
