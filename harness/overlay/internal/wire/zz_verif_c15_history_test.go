//go:build verif

package wire

// C15: pool HISTORIES as cases.  A short sequence of concrete messages is packed through
// TryPack one after the other on one P (the pooled state a pack gets is the one the previous
// pack put back) — some handled, some declined before a state is borrowed, some ABANDONED
// part-way (admitted, sized, header / questions / k records written, then a record the library
// refuses) — and then the message under test, which usually carries a record whose packer
// advances over rdata octets without writing them.  The Coq side runs the same history through
// the model (C15.Run.CaseHistory: fold of try_pack_c over the history from a dirty state) and
// demands the model's bytes = the observed bytes; the specification oracle demands observed =
// the library's bytes whatever the history was.

import (
	"bytes"
	"fmt"
	"math/rand"
	"net"
	"strings"

	"github.com/miekg/dns"
	"github.com/semihalev/sdns/internal/vc15gen"
)

// vC15CoqMsg renders a concrete message as a C15.Run.cmsg term.
func vC15CoqMsg(m *dns.Msg) (string, bool) {
	sh := vc15gen.VC15MakeShapes(m)
	recs := vc15gen.VC15Records(m)
	ok := true
	render := func(lo, hi int) string {
		var parts []string
		for i := lo; i < hi; i++ {
			rr := recs[i]
			steps, okSteps := vC15Steps(rr)
			if !okSteps {
				ok = false
			}
			kind := "KOther"
			if _, isOpt := rr.(*dns.OPT); isOpt {
				kind = "KOpt"
			}
			h := rr.Header()
			parts = append(parts, fmt.Sprintf("R %s %s %d %d %d %d %d (%s)", vC15CoqName(h.Name), kind, sh.PtrOf[i], h.Rrtype, h.Class, h.Ttl, h.Rdlength, steps))
		}
		return "[" + strings.Join(parts, ";") + "]"
	}
	var qs []string
	for _, q := range m.Question {
		qs = append(qs, fmt.Sprintf("(%s, %d%%N, %d%%N)", vC15CoqName(q.Name), q.Qtype, q.Qclass))
	}
	na, nn := len(m.Answer), len(m.Ns)
	term := fmt.Sprintf("(CM %s %s [%s] %s %s %s)", vc15gen.VC15CoqHeader(m), vC15Bool(m.Compress), strings.Join(qs, ";"),
		render(0, na), render(na, na+nn), render(na+nn, len(recs)))
	return term, ok
}

// vC15Abandon makes the library refuse the message part-way: filler records first (so that the
// pooled buffer is written well past where a later small message keeps its rdata), then a
// record whose owner or rdata name is not fully qualified.
func vC15Abandon(r *rand.Rand, m *dns.Msg) {
	if m.Rcode > 15 {
		m.Rcode &= 0xF
	}
	fill := make([]byte, 20+r.Intn(200))
	for i := range fill {
		fill[i] = byte(1 + r.Intn(255))
	}
	pad := &dns.NULL{Hdr: dns.RR_Header{Name: "pad.example.", Rrtype: dns.TypeNULL, Class: dns.ClassINET, Ttl: 5, Rdlength: 40001}, Data: string(fill)}
	m.Answer = append([]dns.RR{pad}, m.Answer...)
	var bad dns.RR
	if r.Intn(2) == 0 {
		bad = &dns.NS{Hdr: dns.RR_Header{Name: "not-fully-qualified", Rrtype: dns.TypeNS, Class: dns.ClassINET, Ttl: 5, Rdlength: 40001}, Ns: "ns.example."}
	} else {
		bad = &dns.NS{Hdr: dns.RR_Header{Name: "late.example.", Rrtype: dns.TypeNS, Class: dns.ClassINET, Ttl: 5, Rdlength: 40001}, Ns: "not-fully-qualified"}
	}
	switch r.Intn(3) {
	case 0:
		m.Answer = append(m.Answer, bad)
	case 1:
		m.Ns = append(m.Ns, bad)
	default:
		m.Extra = append([]dns.RR{bad}, m.Extra...)
	}
}

func vC15HistoryCase(tr *vC15Trace, r *rand.Rand, fixed int) {
	var hist []*dns.Msg
	steps := 1 + r.Intn(3)
	if fixed > 0 {
		steps = fixed
	}
	kinds := make([]string, 0, steps)
	for i := 0; i < steps; i++ {
		m := vC15ConcreteMsg(r)
		switch x := r.Intn(4); {
		case x <= 1 || (fixed > 0 && i == steps-1):
			vC15Abandon(r, m)
			kinds = append(kinds, "abandoned")
		default:
			kinds = append(kinds, "plain")
		}
		hist = append(hist, m)
	}
	// the message under test: small, usually with an octet-skipping A / L32 early in the answer
	m := vC15ConcreteMsg(r)
	if fixed > 0 || r.Intn(4) != 0 {
		ip := make(net.IP, 16)
		r.Read(ip)
		ip[0] = 0x20 // never IPv4-mapped
		hole := &dns.A{Hdr: dns.RR_Header{Name: "hole.example.", Rrtype: dns.TypeA, Class: dns.ClassINET, Ttl: 60, Rdlength: 40001}, A: ip}
		m.Answer = append([]dns.RR{hole}, m.Answer...)
		for i := range m.Answer {
			if m.Answer[i].Header().Name == "notfqdn.example" {
				m.Answer[i].Header().Name = "fqdn.example."
			}
		}
	}
	var terms []string
	for _, h := range hist {
		t, ok := vC15CoqMsg(h)
		if !ok {
			return
		}
		terms = append(terms, t)
	}
	mt, ok := vC15CoqMsg(m)
	if !ok {
		return
	}
	want, werr, wpanic := vc15gen.VC15LibPack(vc15gen.VC15DeepCopy(m))
	if wpanic {
		return
	}
	// the history, then the pack under test, back to back (one P: same pooled state)
	outcome := make([]string, len(hist))
	for i, h := range hist {
		hd, _ := TryPack(h, func([]byte) error { return nil })
		outcome[i] = kinds[i] + fmt.Sprintf("/handled=%v", hd)
	}
	var got []byte
	handled, _ := TryPack(m, func(b []byte) error { got = append([]byte{}, b...); return nil })
	line := map[string]any{
		"coq": fmt.Sprintf("CaseHistory [%s] %s %s %s %s %s", strings.Join(terms, ";"), mt, vC15Bool(handled), vC15Bool(werr == nil),
			vc15gen.VC15CoqBytes(string(got)), vc15gen.VC15CoqBytes(string(want))),
		"k":          fmt.Sprintf("history/%d/handled=%v", len(hist), handled),
		"desc":       map[string]any{"history": outcome, "len": len(got), "liberr": vC15ErrStr(werr), "types": vC15Types(vc15gen.VC15Records(m))},
		"nontrivial": handled,
	}
	if handled && (werr != nil || !bytes.Equal(got, want)) {
		line["go_fail"] = fmt.Sprintf("after the history %v TryPack's bytes differ from the library's at %d", outcome, vC15FirstDiff(got, want))
	}
	tr.emit(line)
}

func vC15HistoryCases(tr *vC15Trace, r *rand.Rand, n int) {
	for i := 1; i <= 3; i++ {
		vC15HistoryCase(tr, r, i) // deterministic shapes: i steps, the last one abandoned, then a hole
	}
	for i := 0; i < n; i++ {
		vC15HistoryCase(tr, r, 0)
	}
}
