//go:build verif

package wire

// C15: record fields -> Coq layout terms (C15.Layouts.steps_of) for the record types with a
// hand-written layout in the model, and a generic walk over the library's struct tags for every
// other registered type (zmsg.go is generated from exactly those tags: field order + tag = wire
// layout).  Neither uses the records' pack methods; hex / base64 / base32 / bitmaps are decoded
// with the standard library or by this file.  What Len() counts beyond what is packed is taken
// from the observed dns.Len(rr) as an SOver step, so the model's sizing equals the library's.

import (
	"encoding/base32"
	"encoding/base64"
	"encoding/hex"
	"fmt"
	"net"
	"reflect"
	"sort"
	"strings"

	"github.com/miekg/dns"
	"github.com/semihalev/sdns/internal/vc15gen"
)

func vC15Octets(x []byte) string { return vc15gen.VC15CoqBytes(string(x)) }

// vC15DecLen: the number of octets a presentation text stands for (a backslash and three digits, or
// a backslash and one other octet, are one octet; a lone backslash at the very end is none) — the
// driver's own count, not the library's escapedNameLen.
func vC15DecLen(s string) int {
	n := 0
	for i := 0; i < len(s); i++ {
		if s[i] == '\\' {
			if i+1 == len(s) {
				break
			}
			if i+3 < len(s) && vC15Digit(s[i+1]) && vC15Digit(s[i+2]) && vC15Digit(s[i+3]) {
				i += 3
			} else {
				i++
			}
		}
		n++
	}
	return n
}

func vC15Digit(c byte) bool { return c >= '0' && c <= '9' }

func vC15NameLen(s string) int {
	if s == "" || s == "." {
		return 1
	}
	return vC15DecLen(s) + 1
}

// vC15Typed: the record types whose layout is written in C15.Layouts.
func vC15Typed(rr dns.RR) (string, bool) {
	optSalt := func(s string) (string, bool) {
		if s == "-" {
			return "None", true
		}
		d, err := hex.DecodeString(s)
		if err != nil {
			return "", false
		}
		return "(Some " + vC15Octets(d) + ")", true
	}
	switch v := rr.(type) {
	case *dns.A:
		return "steps_of (RA " + vC15Octets(v.A) + ")", true
	case *dns.AAAA:
		return "steps_of (RAAAA " + vC15Octets(v.AAAA) + ")", true
	case *dns.L32:
		return fmt.Sprintf("steps_of (RL32 %d %s)", v.Preference, vC15Octets(v.Locator32)), true
	case *dns.LOC:
		return fmt.Sprintf("steps_of (RLOC %d %d %d %d %d %d %d)", v.Version, v.Size, v.HorizPre, v.VertPre, v.Latitude, v.Longitude, v.Altitude), true
	case *dns.NSEC3:
		salt, ok := optSalt(v.Salt)
		if !ok {
			return "", false
		}
		next, err := base32.HexEncoding.WithPadding(base32.NoPadding).DecodeString(strings.ToUpper(v.NextDomain))
		if err != nil {
			return "", false
		}
		bm, ok := vC15Bitmap(v.TypeBitMap)
		if !ok {
			return "", false
		}
		return fmt.Sprintf("steps_of (RNSEC3 %d %d %d %d %s %d %s %d %s)", v.Hash, v.Flags, v.Iterations, v.SaltLength, salt, v.HashLength,
			vC15Octets(next), len(v.NextDomain), vC15Octets(bm)), true
	case *dns.NSEC3PARAM:
		salt, ok := optSalt(v.Salt)
		if !ok {
			return "", false
		}
		return fmt.Sprintf("steps_of (RNSEC3PARAM %d %d %d %d %s)", v.Hash, v.Flags, v.Iterations, v.SaltLength, salt), true
	case *dns.SVCB:
		return vC15SVCB(v.Priority, v.Target, v.Value)
	case *dns.HTTPS:
		return vC15SVCB(v.Priority, v.Target, v.Value)
	case *dns.IPSECKEY:
		key, err := base64.StdEncoding.DecodeString(v.PublicKey)
		if err != nil {
			return "", false
		}
		return fmt.Sprintf("steps_of (RIPSECKEY %d %d %d %s %s %s %d)", v.Precedence, v.GatewayType, v.Algorithm, vC15Octets(v.GatewayAddr),
			vC15CoqName(v.GatewayHost), vC15Octets(key), len(v.PublicKey)), true
	case *dns.AMTRELAY:
		return fmt.Sprintf("steps_of (RAMTRELAY %d %d %s %s)", v.Precedence, v.GatewayType, vC15Octets(v.GatewayAddr), vC15CoqName(v.GatewayHost)), true
	}
	return "", false
}

func vC15SVCB(prio uint16, target string, vals []dns.SVCBKeyValue) (string, bool) {
	var pairs []string
	for _, kv := range vals {
		var data []byte
		switch e := kv.(type) {
		case *dns.SVCBMandatory:
			codes := append([]dns.SVCBKey{}, e.Code...)
			sort.Slice(codes, func(i, j int) bool { return codes[i] < codes[j] })
			for _, c := range codes {
				data = append(data, byte(c>>8), byte(c))
			}
		case *dns.SVCBAlpn:
			for _, a := range e.Alpn {
				if a == "" || len(a) > 255 {
					return "", false
				}
				data = append(append(data, byte(len(a))), a...)
			}
		case *dns.SVCBNoDefaultAlpn:
		case *dns.SVCBOhttp:
		case *dns.SVCBPort:
			data = []byte{byte(e.Port >> 8), byte(e.Port)}
		case *dns.SVCBIPv4Hint:
			for _, ip := range e.Hint {
				x := ip.To4()
				if x == nil {
					return "", false
				}
				data = append(data, x...)
			}
		case *dns.SVCBIPv6Hint:
			for _, ip := range e.Hint {
				if len(ip) != net.IPv6len || ip.To4() != nil {
					return "", false
				}
				data = append(data, ip...)
			}
		case *dns.SVCBECHConfig:
			data = e.ECH
		case *dns.SVCBDoHPath:
			data = []byte(e.Template)
		case *dns.SVCBLocal:
			data = e.Data
		default:
			return "", false
		}
		pairs = append(pairs, fmt.Sprintf("(%d%%N, %s)", uint16(kv.Key()), vC15Octets(data)))
	}
	return fmt.Sprintf("steps_of (RSVCB %d %s [%s])", prio, vC15CoqName(target), strings.Join(pairs, ";")), true
}

// vC15TagWalk decomposes any other library record by its struct tags.  ok=false: a field form
// the step model does not express (escaped names / strings, odd hex, "any", "apl", ...).
func vC15TagWalk(rr dns.RR) (string, bool) {
	v := reflect.ValueOf(rr)
	if v.Kind() != reflect.Pointer || v.IsNil() || v.Elem().Kind() != reflect.Struct {
		return "", false
	}
	v = v.Elem()
	t := v.Type()
	if t.NumField() == 1 && t.Field(0).Anonymous && t.Field(0).Type.Kind() == reflect.Struct {
		v = v.Field(0) // KEY{DNSKEY}, CDNSKEY{DNSKEY}, SIG{RRSIG}, CDS{DS}, DLV{DS}, NXT{NSEC}: the embedded layout
		t = v.Type()
	}
	if t.NumField() == 0 || t.Field(0).Name != "Hdr" {
		return "", false
	}
	var parts []string
	total := 0
	lit := func(x []byte) {
		parts = append(parts, "[SBytes "+vC15Octets(x)+"]")
		total += len(x)
	}
	// session 5: names and character-strings go to the model as written, escapes and all — the
	// model decodes them (C15.Concrete.pn_loop, C15.Layouts.unesc)
	for i := 1; i < t.NumField(); i++ {
		f := v.Field(i)
		tag := t.Field(i).Tag.Get("dns")
		switch {
		case tag == "-":
		case (tag == "cdomain-name" || tag == "domain-name") && f.Kind() == reflect.Slice: // HIP rendezvous servers
			ss, ok := f.Interface().([]string)
			if !ok {
				return "", false
			}
			for _, s := range ss {
				parts = append(parts, fmt.Sprintf("[SName %s %s]", vC15CoqName(s), vC15Bool(tag == "cdomain-name")))
				total += vC15NameLen(s)
			}
		case tag == "cdomain-name" || tag == "domain-name":
			s := f.String()
			parts = append(parts, fmt.Sprintf("[SName %s %s]", vC15CoqName(s), vC15Bool(tag == "cdomain-name")))
			total += vC15NameLen(s)
		case tag == "txt":
			ss, ok := f.Interface().([]string)
			if !ok {
				return "", false
			}
			if len(ss) == 0 {
				parts = append(parts, "[SPoke0]")
			}
			for _, s := range ss {
				parts = append(parts, "txt_string_steps "+vC15CoqName(s))
				total += len(s) + 1
			}
		case tag == "octet":
			s := f.String()
			parts = append(parts, "octet_steps "+vC15CoqName(s))
			total += len(s)
		case tag == "hex" || strings.HasPrefix(tag, "size-hex:"):
			d, err := hex.DecodeString(f.String())
			if err != nil {
				// odd length / not hex: the field packer refuses the value whatever the buffer; what
				// len() counted for it comes out of the SOver computed below
				parts = append(parts, "[SFail]")
				continue
			}
			lit(d)
		case tag == "base64" || strings.HasPrefix(tag, "size-base64:"):
			d, err := base64.StdEncoding.DecodeString(f.String())
			if err != nil {
				parts = append(parts, "[SFail]")
				continue
			}
			lit(d)
		case tag == "nsec":
			ts, ok := f.Interface().([]uint16)
			if !ok {
				return "", false
			}
			bm, ok := vC15Bitmap(ts)
			if !ok {
				return "", false
			}
			if len(bm) > 0 {
				lit(bm)
			}
		case tag == "a":
			ip, _ := f.Interface().(net.IP)
			parts = append(parts, "a_steps "+vC15Octets(ip))
			if len(ip) != 0 {
				total += 4
			}
		case tag == "aaaa":
			ip, _ := f.Interface().(net.IP)
			parts = append(parts, "aaaa_steps "+vC15Octets(ip))
			if len(ip) != 0 {
				total += 16
			}
		case tag == "apl": // RFC 3123: family, prefix length, N | AFDLENGTH, the masked address without trailing zero octets
			ps, ok := f.Interface().([]dns.APLPrefix)
			if !ok {
				return "", false
			}
			for _, p := range ps {
				ip, mask := p.Network.IP, p.Network.Mask
				if len(ip) != len(mask) || (len(ip) != net.IPv4len && len(ip) != net.IPv6len) {
					parts = append(parts, "[SFail]")
					continue
				}
				prefix, _ := mask.Size()
				addr := []byte(ip.Mask(mask))[:(prefix+7)/8]
				for len(addr) > 0 && addr[len(addr)-1] == 0 {
					addr = addr[:len(addr)-1]
				}
				fam := byte(1)
				if len(ip) == net.IPv6len {
					fam = 2
				}
				n := byte(len(addr)) & 0x7f
				if p.Negation {
					n |= 0x80
				}
				lit([]byte{0, fam})
				lit([]byte{byte(prefix)})
				lit([]byte{n})
				lit(append([]byte{}, addr...))
			}
		case tag == "uint48":
			x := f.Uint()
			lit([]byte{byte(x >> 40), byte(x >> 32), byte(x >> 24), byte(x >> 16), byte(x >> 8), byte(x)})
		case tag == "":
			switch f.Kind() {
			case reflect.Uint8:
				lit([]byte{byte(f.Uint())})
			case reflect.Uint16:
				x := f.Uint()
				lit([]byte{byte(x >> 8), byte(x)})
			case reflect.Uint32:
				x := f.Uint()
				lit([]byte{byte(x >> 24), byte(x >> 16), byte(x >> 8), byte(x)})
			case reflect.Uint64:
				x := f.Uint()
				lit([]byte{byte(x >> 56), byte(x >> 48), byte(x >> 40), byte(x >> 32), byte(x >> 24), byte(x >> 16), byte(x >> 8), byte(x)})
			case reflect.String: // packString: one length-prefixed character-string
				s := f.String()
				parts = append(parts, "txt_string_steps "+vC15CoqName(s))
				total += len(s) + 1
			default:
				return "", false
			}
		default: // any, opt, pairs, apl, base32, ipsechost, amtrelayhost, amtrelaytype
			return "", false
		}
	}
	h := rr.Header()
	over := dns.Len(rr) - (vC15NameLen(h.Name) + 10 + total)
	if over < 0 {
		return "", false // Len() under-counts this record: not expressible (and worth a look)
	}
	if over > 0 {
		parts = append(parts, fmt.Sprintf("[SOver %d]", over))
	}
	if len(parts) == 0 {
		return "[]", true
	}
	return strings.Join(parts, " ++ "), true
}

// vC15OptionOctets: the wire octets of the EDNS option kinds that are more than their field
// octets, from the RFCs (7871, 7314, 7828, 6975, 9567, 9660, the LLQ / UL drafts) — not through
// the option's pack method.  ok=false: a value the library refuses (bad family / netmask /
// address) or a name this encoder does not take.
func vC15OptionOctets(o dns.EDNS0) ([]byte, bool) {
	u16 := func(v uint16) []byte { return []byte{byte(v >> 8), byte(v)} }
	u32 := func(v uint32) []byte { return []byte{byte(v >> 24), byte(v >> 16), byte(v >> 8), byte(v)} }
	switch e := o.(type) {
	case *dns.EDNS0_SUBNET:
		switch e.Family {
		case 0:
			if e.SourceNetmask != 0 {
				return nil, false
			}
			return []byte{0, 0, 0, e.SourceScope}, true
		case 1, 2:
			bits, ip := 32, e.Address.To4()
			if e.Family == 2 {
				bits, ip = 128, e.Address
				if len(ip) != net.IPv6len {
					return nil, false
				}
			} else if len(ip) != net.IPv4len {
				return nil, false
			}
			if int(e.SourceNetmask) > bits {
				return nil, false
			}
			need := (int(e.SourceNetmask) + 7) / 8
			out := append(u16(e.Family), e.SourceNetmask, e.SourceScope)
			masked := make([]byte, len(ip))
			for i := range ip {
				keep := int(e.SourceNetmask) - 8*i
				switch {
				case keep >= 8:
					masked[i] = ip[i]
				case keep > 0:
					masked[i] = ip[i] & (0xFF << (8 - keep))
				}
			}
			return append(out, masked[:need]...), true
		}
		return nil, false
	case *dns.EDNS0_UL:
		if e.KeyLease == 0 {
			return u32(e.Lease), true
		}
		return append(u32(e.Lease), u32(e.KeyLease)...), true
	case *dns.EDNS0_LLQ:
		out := append(append(u16(e.Version), u16(e.Opcode)...), u16(e.Error)...)
		out = append(out, u32(uint32(e.Id>>32))...)
		out = append(out, u32(uint32(e.Id))...)
		return append(out, u32(e.LeaseLife)...), true
	case *dns.EDNS0_DAU:
		return e.AlgCode, true
	case *dns.EDNS0_DHU:
		return e.AlgCode, true
	case *dns.EDNS0_N3U:
		return e.AlgCode, true
	case *dns.EDNS0_EXPIRE:
		if e.Empty {
			return nil, true
		}
		return u32(e.Expire), true
	case *dns.EDNS0_TCP_KEEPALIVE:
		if e.Timeout > 0 {
			return u16(e.Timeout), true
		}
		return nil, true
	case *dns.EDNS0_ESU:
		return []byte(e.Uri), true
	case *dns.EDNS0_ZONEVERSION:
		return append([]byte{e.LabelCount, e.Type}, e.Version...), true
	case *dns.EDNS0_REPORTING:
		// the agent domain in uncompressed wire form
		s := e.AgentDomain
		if strings.Contains(s, "\\") {
			return nil, false
		}
		if s == "" || s == "." {
			return []byte{0}, true
		}
		s = strings.TrimSuffix(s, ".")
		var out []byte
		for _, lab := range strings.Split(s, ".") {
			if lab == "" || len(lab) > 63 {
				return nil, false
			}
			out = append(append(out, byte(len(lab))), lab...)
		}
		out = append(out, 0)
		if len(out) > 255 {
			return nil, false
		}
		return out, true
	}
	return nil, false
}
