//go:build verif

package wire

// C15 correspondence driver (overlay-injected, never committed to /repo).
//
// Generated messages go through the production entry points TryPack and PackClone
// and are compared with dns.Msg.Pack on an aliasing-preserving deep copy:
// byte parity, message deep-equality before/after, capacity of the slice handed to
// the consumer, number of consumer calls, error/panic parity of PackClone, the
// effect of dirty pooled state (previous junk message / arbitrary buffer bytes),
// release(), and concurrent packs sharing the pool and the messages.
// One trace line per message: a Coq term for C15.Run (header word, compress
// decision, per-record admission, OPT selection, handled verdict, wire TTLs) plus
// the Go-side oracle verdict.

import (
	"bytes"
	"encoding/base64"
	"encoding/hex"
	"encoding/json"
	"fmt"
	"math/rand"
	"net"
	"os"
	"reflect"
	"runtime"
	"sort"
	"strconv"
	"strings"
	"sync"
	"testing"

	"github.com/miekg/dns"
	"github.com/semihalev/sdns/internal/vc15gen"
)

type vC15Trace struct{ f *os.File }

func vC15Open(t *testing.T) *vC15Trace {
	p := os.Getenv("VERIF_OUT")
	if p == "" {
		t.Skip("VERIF_OUT not set")
	}
	f, err := os.Create(p)
	if err != nil {
		t.Fatal(err)
	}
	return &vC15Trace{f: f}
}

func (v *vC15Trace) emit(m map[string]any) {
	b, _ := json.Marshal(m)
	v.f.Write(append(b, '\n'))
}

func vC15EnvInt(name string, def int) int {
	if s := os.Getenv(name); s != "" {
		if n, err := strconv.Atoi(s); err == nil {
			return n
		}
	}
	return def
}

func vC15Bool(b bool) string {
	if b {
		return "true"
	}
	return "false"
}

func vC15Bools(l []bool) string {
	parts := make([]string, len(l))
	for i, b := range l {
		parts[i] = vC15Bool(b)
	}
	return "[" + strings.Join(parts, ";") + "]"
}

// vC15Dirty leaves arbitrary content in the pooled state the next pack on this
// goroutine is most likely to get: a junk message through TryPack itself, or
// arbitrary bytes in the buffer of a state taken from and returned to the pool.
func vC15Dirty(r *rand.Rand, how int) string {
	switch how {
	case 1: // a previous, large, name-heavy message packed through the production path
		m := new(dns.Msg)
		m.Id = 0xFFFF
		m.Response, m.Compress = true, true
		m.Question = []dns.Question{{Name: "junk.example.com.", Qtype: dns.TypeTXT, Qclass: dns.ClassINET}}
		names := 3 + r.Intn(90) // below and above the 64-entry retention bound
		for i := 0; i < names; i++ {
			m.Answer = append(m.Answer, &dns.NS{Hdr: dns.RR_Header{Name: vc15gen.VC15Name(r), Rrtype: dns.TypeNS, Class: dns.ClassINET, Ttl: 0xFFFFFFFF}, Ns: vc15gen.VC15Name(r)})
		}
		probe := *m
		probe.Compress = false
		l := 0
		func() {
			defer func() { _ = recover() }()
			l = probe.Len()
		}()
		if l > 0 && l < packBufferSize-16 {
			fill := make([]byte, packBufferSize-l-11)
			for i := range fill {
				fill[i] = 0xFF
			}
			m.Extra = append(m.Extra, &dns.NULL{Hdr: dns.RR_Header{Name: ".", Rrtype: dns.TypeNULL, Class: 0xFFFF, Ttl: 0xFFFFFFFF}, Data: string(fill)})
		}
		handled, _ := TryPack(m, func([]byte) error { return nil })
		return fmt.Sprintf("junk(names=%d,handled=%v)", names, handled)
	case 3: // history: a large message, then a small one — whatever the packer remembers
		// about a state (sizes, marks, dictionaries) is shaped by the LAST pack, while the
		// buffer still holds the residue of the one before
		first := vC15Dirty(r, 1)
		m := new(dns.Msg)
		m.Id, m.Response, m.Compress = 0xAAAA, true, r.Intn(2) == 0
		m.Question = []dns.Question{{Name: "small.example.com.", Qtype: dns.TypeA, Qclass: dns.ClassINET}}
		if r.Intn(2) == 0 {
			m.Answer = []dns.RR{&dns.A{Hdr: dns.RR_Header{Name: "small.example.com.", Rrtype: dns.TypeA, Class: dns.ClassINET, Ttl: 60}, A: net.IPv4(192, 0, 2, 1).To4()}}
		}
		handled, _ := TryPack(m, func([]byte) error { return nil })
		return fmt.Sprintf("%s+small(handled=%v)", first, handled)
	case 2: // arbitrary buffer content under the release invariant
		st := packStatePool.Get().(*packState)
		if r.Intn(2) == 0 {
			for i := range st.buf {
				st.buf[i] = 0xFF
			}
		} else {
			r.Read(st.buf[:])
		}
		packStatePool.Put(st)
		return "bytes"
	}
	return "none"
}

func vC15ErrStr(err error) string {
	if err == nil {
		return ""
	}
	return err.Error()
}

// vC15Run drives one message through the production entry points and the
// reference, and emits its trace line.
func vC15Run(tr *vC15Trace, r *rand.Rand, cs *vc15gen.VC15Case, dirty int, kind string) {
	msg := cs.Msg
	ref := vc15gen.VC15DeepCopy(msg)
	snap := vc15gen.VC15DeepCopy(msg)
	slots := vc15gen.VC15Records(msg)
	var fails []string
	fail := func(f string, a ...any) { fails = append(fails, fmt.Sprintf(f, a...)) }

	want, werr, wpanic := vc15gen.VC15LibPack(ref)
	lib := 0
	if wpanic {
		lib = 2
	} else if werr != nil {
		lib = 1
	}

	dirtied := vC15Dirty(r, dirty)

	// ---- TryPack
	var got []byte
	calls, capLeak := 0, 0
	handled, tpPanic := false, false
	var tpErr error
	func() {
		defer func() {
			if p := recover(); p != nil {
				tpPanic = true
			}
		}()
		handled, tpErr = TryPack(msg, func(body []byte) error {
			calls++
			got = append([]byte{}, body...)
			if cap(body) != len(body) {
				capLeak = cap(body) - len(body)
				full := body[:cap(body)]
				_ = full
			}
			return nil
		})
	}()
	if tpPanic && !wpanic {
		fail("TryPack panicked, the library does not")
	}
	if tpErr != nil {
		fail("TryPack returned an error the consumer did not produce: %v", tpErr)
	}
	if handled {
		if calls != 1 {
			fail("handled with %d consumer calls", calls)
		}
		switch {
		case wpanic:
			fail("handled a message the library panics on")
		case werr != nil:
			fail("handled a message the library rejects: %v", werr)
		case !bytes.Equal(got, want):
			fail("bytes differ from the library: first difference at %d (len %d vs %d) in %s", vC15FirstDiff(got, want), len(got), len(want), vc15gen.VC15Blame(want, vC15FirstDiff(got, want), vc15gen.VC15Records(msg)))
		}
		if capLeak != 0 {
			fail("consumer slice exposes %d bytes beyond its length", capLeak)
		}
	} else if calls != 0 {
		fail("declined after %d consumer calls", calls)
	}
	if d := vc15gen.VC15Diff(msg, snap, slots); d != "" {
		fail("TryPack modified the message: %s", d)
	}

	// ---- the pieces, observed one by one
	recs := vc15gen.VC15Records(msg)
	adm := make([]bool, len(recs))
	allAdm := true
	for i, rr := range recs {
		func() {
			defer func() {
				if recover() != nil {
					fail("admissibleRR panicked on record %d", i)
				}
			}()
			adm[i] = admissibleRR(rr)
		}()
		allAdm = allAdm && adm[i]
	}
	sh := vc15gen.VC15MakeShapes(msg)
	typedNilInExtra := false
	base := len(msg.Answer) + len(msg.Ns)
	for i := range msg.Extra {
		if sh.TypNil[base+i] {
			typedNilInExtra = true
		}
	}
	osel := "OSkip"
	var opt *dns.OPT
	selSafe := false
	if !typedNilInExtra {
		func() {
			defer func() {
				if recover() != nil {
					fail("selectOPT panicked")
				}
			}()
			o, safe := selectOPT(msg)
			opt, selSafe = o, safe
			switch {
			case !safe:
				osel = "OUnsafe"
			case o == nil:
				osel = "ONone"
			default:
				id := 0
				for i, rr := range msg.Extra {
					if p, ok := rr.(*dns.OPT); ok && p == o {
						id = sh.PtrOf[base+i]
					}
				}
				osel = fmt.Sprintf("(OSome %d)", id)
			}
		}()
	}
	ulen := 0
	packIntoOK := false
	if allAdm {
		func() {
			defer func() {
				if recover() != nil {
					fail("Len panicked on an admissible message")
				}
			}()
			probe := *msg
			probe.Compress = false
			ulen = probe.Len()
		}()
		if selSafe {
			func() {
				defer func() {
					if recover() != nil {
						fail("packInto panicked")
					}
				}()
				st := new(packState)
				compress := msg.Compress && msgIsCompressible(msg)
				var cm map[string]int
				if compress {
					cm = make(map[string]int)
					st.compression = cm
				}
				off, ok := st.packInto(msg, opt, cm, compress)
				packIntoOK = ok
				if ok && handled && !bytes.Equal(st.buf[:off], got) {
					fail("a clean state packs different bytes than the pooled (%s) one: first difference at %d", dirtied, vC15FirstDiff(st.buf[:off], got))
				}
				if st.rr.RR != nil {
					fail("packInto left the shim pointing at a record")
				}
			}()
			if d := vc15gen.VC15Diff(msg, snap, slots); d != "" {
				fail("packInto modified the message: %s", d)
			}
		}
	}

	// ---- PackClone
	allClean := true
	for _, c := range cs.Clean {
		allClean = allClean && c
	}
	var pc []byte
	var pcErr error
	pcPanic := false
	func() {
		defer func() {
			if recover() != nil {
				pcPanic = true
			}
		}()
		pc, pcErr = PackClone(msg)
	}()
	switch {
	case pcPanic != wpanic:
		fail("PackClone panic=%v, library panic=%v", pcPanic, wpanic)
	case pcPanic:
	case (pcErr == nil) != (werr == nil) || vC15ErrStr(pcErr) != vC15ErrStr(werr):
		fail("PackClone error %q, library error %q", vC15ErrStr(pcErr), vC15ErrStr(werr))
	case pcErr == nil && !bytes.Equal(pc, want):
		fail("PackClone bytes differ from the library: first difference at %d (len %d vs %d)", vC15FirstDiff(pc, want), len(pc), len(want))
	case pcErr == nil && cap(pc) != len(pc):
		fail("PackClone returned a slice with spare capacity %d", cap(pc)-len(pc))
	}
	if allClean {
		if d := vc15gen.VC15Diff(msg, snap, slots); d != "" {
			fail("PackClone modified a library-built message (handled=%v): %s", handled, d)
		}
	}

	// ---- wire view
	wireBits, ttls := "None", "None"
	out := got
	if !handled {
		out = want
	}
	if handled || lib == 0 {
		bits, _, rrs, ok := vc15gen.VC15Walk(out)
		// a message with an empty owner or question name ("" packs to nothing) is not
		// self-delimiting: trust the walk only when every record type is where the
		// message says it is
		if ok && len(rrs) == len(recs) {
			for i, rr := range recs {
				if rr == nil || sh.TypNil[i] {
					ok = false
					break
				}
				t := uint16(0)
				func() {
					defer func() { _ = recover() }()
					t = rr.Header().Rrtype
				}()
				if t != rrs[i].Type || rr.Header().Name == "" {
					ok = false
					break
				}
			}
			for _, q := range msg.Question {
				if q.Name == "" {
					ok = false
				}
			}
		}
		if ok && len(rrs) == len(recs) {
			wireBits = fmt.Sprintf("(Some %d%%N)", bits)
			parts := make([]string, len(rrs))
			for i, x := range rrs {
				parts[i] = fmt.Sprint(x.TTL)
			}
			if len(parts) == 0 {
				ttls = "(Some [])"
			} else {
				ttls = "(Some [" + strings.Join(parts, ";") + "]%N)"
			}
		}
	}

	// ---- case text
	pk := make([]string, len(sh.Pkgs))
	for i, p := range sh.Pkgs {
		pk[i] = vc15gen.VC15CoqBytes(p)
	}
	sec := func(lo, hi int) string { return "[" + strings.Join(sh.Shapes[lo:hi], ";") + "]" }
	na, nn := len(msg.Answer), len(msg.Ns)
	coq := fmt.Sprintf("CaseMsg [%s] %s %s %d %s %s %s %d (Obs %d %s %s %s %s %s %s %s %d %s)",
		strings.Join(pk, ";"), vc15gen.VC15CoqHeader(msg), vC15Bool(msg.Compress), len(msg.Question),
		sec(0, na), sec(na, na+nn), sec(na+nn, len(recs)), ulen,
		msgBits(msg), vC15Bool(msgIsCompressible(msg)), vC15Bools(adm), osel, vC15Bool(packIntoOK), vC15Bool(handled),
		wireBits, ttls, lib, vC15Bools(cs.Clean))

	verdict := "declined"
	if handled {
		verdict = "handled"
	}
	tags := append([]string{}, cs.Tags...)
	sort.Strings(tags)
	k := kind + "/" + verdict
	if !handled {
		switch {
		case !allAdm:
			k += "-admission"
		case msg.Rcode < 0 || msg.Rcode > 4095:
			k += "-rcode"
		case !selSafe:
			k += "-unsafe-opt"
		case ulen > packBufferSize:
			k += "-size"
		case opt == nil && msg.Rcode > 15:
			k += "-ext-noopt"
		default:
			k += "-pack"
		}
	}
	line := map[string]any{
		"coq": coq,
		"k":   k,
		"desc": map[string]any{
			"tags": tags, "dirty": dirtied, "rcode": msg.Rcode, "opcode": msg.Opcode, "compress": msg.Compress,
			"sections": []int{len(msg.Question), na, nn, len(msg.Extra)}, "ulen": ulen, "handled": handled,
			"lib": []string{"ok", "error", "panic"}[lib], "liberr": vC15ErrStr(werr), "len": len(out), "types": vC15Types(recs),
		},
		"nontrivial": (handled && (len(recs) >= 2 || opt != nil)) || (!handled && (!allClean || ulen > packBufferSize || lib != 0)),
	}
	if len(coq) > 6000 { // keep vm_compute input small; the Go oracles above still ran
		delete(line, "coq")
		line["k"] = k + "/go-only"
	}
	if vc15gen.VC15StaleA(msg) {
		// the shape of the fixed finding stale-a-rdata (a876f32): packDataA leaves four
		// rdata octets unwritten; judged strictly like every other case — reverting the
		// fix makes exactly these cases fail
		line["k"] = line["k"].(string) + "/stale-a"
	}
	if len(fails) > 0 {
		line["go_fail"] = strings.Join(fails, " | ")
	}
	tr.emit(line)
}

func vC15Types(recs []dns.RR) string {
	var parts []string
	for i, rr := range recs {
		if i >= 12 {
			parts = append(parts, "...")
			break
		}
		parts = append(parts, fmt.Sprintf("%T", rr))
	}
	return strings.Join(parts, ",")
}

func vC15FirstDiff(a, b []byte) int {
	n := len(a)
	if len(b) < n {
		n = len(b)
	}
	for i := 0; i < n; i++ {
		if a[i] != b[i] {
			return i
		}
	}
	return n
}

// vC15Release observes release() on a state this test owns: number of dictionary
// entries a real pack left, then what release keeps.
func vC15Release(tr *vC15Trace, r *rand.Rand) {
	m := new(dns.Msg)
	m.Question = []dns.Question{{Name: "rel.example.com.", Qtype: dns.TypeNS, Qclass: dns.ClassINET}}
	// distinct names -> dictionary entries; aim around the 64-entry bound
	target := []int{0, 1, 5, 30, 60, 62, 63, 64, 65, 66, 70, 120}[r.Intn(12)]
	m.Compress = target > 30 || r.Intn(5) != 0
	for i := 0; len(m.Answer) < 200; i++ {
		m.Answer = append(m.Answer, &dns.NS{Hdr: dns.RR_Header{Name: "rel.example.com.", Rrtype: dns.TypeNS, Class: dns.ClassINET, Ttl: 1}, Ns: fmt.Sprintf("n%d.rel.example.com.", i)})
		if i+4 >= target {
			break
		}
	}
	o := &dns.OPT{Hdr: dns.RR_Header{Name: ".", Rrtype: dns.TypeOPT, Class: 1232}}
	o.Option = append(o.Option, &dns.EDNS0_NSID{Code: dns.EDNS0NSID, Nsid: "abcd"})
	m.Extra = append(m.Extra, o)
	st := new(packState)
	compress := m.Compress && msgIsCompressible(m)
	hadMap := r.Intn(4) != 0
	var cm map[string]int
	if compress {
		cm = make(map[string]int)
		st.compression = cm
	} else if hadMap {
		st.compression = make(map[string]int) // a retained, cleared dictionary from an earlier pack
	}
	var fails []string
	_, ok := st.packInto(m, o, cm, compress)
	if !ok {
		fails = append(fails, "packInto declined the release probe message")
	}
	had := st.compression != nil
	entries := len(st.compression)
	optHeld := len(st.opt.Option) > 0
	st.release() // Puts st into the pool; this goroutine still holds the pointer and looks at it before any other pack runs
	postNil := st.compression == nil
	postLen := len(st.compression)
	clean := st.rr.RR == nil && st.rr.hdr == (dns.RR_Header{}) && reflect.DeepEqual(st.opt, dns.OPT{})
	if !optHeld {
		fails = append(fails, "probe did not exercise the OPT copy")
	}
	line := map[string]any{
		"coq":        fmt.Sprintf("CaseRelease %s %d %s %d %s", vC15Bool(had), entries, vC15Bool(postNil), postLen, vC15Bool(clean)),
		"k":          fmt.Sprintf("release/%s", map[bool]string{true: "dropped", false: "kept"}[postNil && had]),
		"desc":       map[string]any{"had_map": had, "entries": entries, "post_nil": postNil, "post_len": postLen, "clean": clean},
		"nontrivial": had && entries > 0,
	}
	if len(fails) > 0 {
		line["go_fail"] = strings.Join(fails, " | ")
	}
	tr.emit(line)
}

// vC15Stress packs a shared set of messages from several goroutines at once, all
// drawing on the one pool, and compares every result with the bytes the library
// produced for a deep copy beforehand.  The messages themselves are shared too:
// TryPack promises not to write to them.
func vC15Stress(tr *vC15Trace, r *rand.Rand, rounds int) {
	type item struct {
		msg   *dns.Msg
		want  []byte
		ok    bool // library packs it
		snap  *dns.Msg
		slots []dns.RR
		clean bool // every record is a plain library record (the generator's own knowledge)
	}
	var items []item
	for len(items) < 48 {
		var cs *vc15gen.VC15Case
		switch len(items) % 6 {
		case 4:
			cs = vc15gen.VC15Sized(r, packBufferSize-r.Intn(3))
		case 5:
			cs = vc15gen.VC15Gen(r, true)
		default:
			cs = vc15gen.VC15Gen(r, false)
		}
		ref := vc15gen.VC15DeepCopy(cs.Msg)
		want, err, p := vc15gen.VC15LibPack(ref)
		if p {
			continue // a shape that panics the library has no reference bytes
		}
		clean := true
		for _, c := range cs.Clean {
			clean = clean && c
		}
		items = append(items, item{cs.Msg, want, err == nil, vc15gen.VC15DeepCopy(cs.Msg), vc15gen.VC15Records(cs.Msg), clean})
	}
	workers := 8
	var mu sync.Mutex
	var fails []string
	handledN, declinedN := 0, 0
	var wg sync.WaitGroup
	for w := 0; w < workers; w++ {
		wr := rand.New(rand.NewSource(r.Int63()))
		wg.Add(1)
		go func(wr *rand.Rand) {
			defer wg.Done()
			h, d := 0, 0
			var local []string
			for i := 0; i < rounds; i++ {
				it := items[wr.Intn(len(items))]
				var got []byte
				handled := false
				func() {
					defer func() {
						if recover() != nil {
							local = append(local, "TryPack panicked under concurrency")
						}
					}()
					handled, _ = TryPack(it.msg, func(body []byte) error {
						if wr.Intn(4) == 0 {
							runtime.Gosched() // hold the pooled state while others run
						}
						got = append([]byte{}, body...)
						if cap(body) != len(body) {
							local = append(local, "capacity leak under concurrency")
						}
						return nil
					})
				}()
				if handled {
					h++
					if !it.ok || !bytes.Equal(got, it.want) {
						local = append(local, fmt.Sprintf("concurrent pack differs from the library at %d", vC15FirstDiff(got, it.want)))
					}
				} else {
					d++
					if wr.Intn(4) == 0 && it.ok {
						// A message with a foreign / PrivateRR record keeps the library's semantics wholesale on
						// PackClone's fallback (pack.go, libraryPackImmutable: "parity wins") — the library's write
						// into the caller's OPT included, which on a SHARED message is a data race by that design.
						// The promise under test is for messages of library records: only those are cloned shared;
						// the others are cloned from a private copy (still through the shared pool).
						target := it.msg
						if !it.clean {
							target = vc15gen.VC15DeepCopy(it.msg)
						}
						pc, err := PackClone(target)
						if err != nil || !bytes.Equal(pc, it.want) {
							local = append(local, "concurrent PackClone differs from the library")
						}
					}
				}
				if len(local) > 5 {
					break
				}
			}
			mu.Lock()
			fails = append(fails, local...)
			handledN += h
			declinedN += d
			mu.Unlock()
		}(wr)
	}
	wg.Wait()
	for i, it := range items {
		allClean := true
		for _, rr := range it.slots {
			if !admissibleRR(rr) {
				allClean = false
			}
		}
		if !allClean {
			continue // PackClone keeps the library's semantics, mutation included, for these
		}
		if d := vc15gen.VC15Diff(it.msg, it.snap, it.slots); d != "" {
			fails = append(fails, fmt.Sprintf("shared message %d modified by concurrent packs: %s", i, d))
		}
	}
	line := map[string]any{
		"k":          "stress",
		"desc":       map[string]any{"workers": workers, "rounds": rounds, "messages": len(items), "handled": handledN, "declined": declinedN},
		"nontrivial": handledN > 0 && declinedN > 0,
	}
	if len(fails) > 0 {
		if len(fails) > 4 {
			fails = fails[:4]
		}
		line["go_fail"] = strings.Join(fails, " | ")
	}
	tr.emit(line)
}


// ---------------------------------------------------------------- concrete model ties

func vC15CoqName(s string) string { return vc15gen.VC15CoqBytes(s) }

func vC15PlainName(r *rand.Rand) string {
	for {
		n := vc15gen.VC15Name(r)
		if !strings.Contains(n, "\\") {
			return n
		}
	}
}

// vC15EscLabel: one label in presentation form with escapes: \DDD (also > 255: the library wraps
// modulo 256), an escaped dot, an escaped backslash, a backslash in front of an ordinary letter or
// of one or two digits only, plain letters in between.  With decoded = 63 / 64 the label DECODES to
// exactly that many octets (the 63-octet limit is on the decoded label, the text is longer).
func vC15EscLabel(r *rand.Rand, decoded int) string {
	n := decoded
	if n == 0 {
		n = 1 + r.Intn(6)
	}
	var sb strings.Builder
	for i := 0; i < n; i++ {
		switch r.Intn(9) {
		case 0:
			sb.WriteString(fmt.Sprintf(`\%03d`, r.Intn(256)))
		case 1:
			sb.WriteString(`\.`)
		case 2:
			sb.WriteString(`\\`)
		case 3:
			sb.WriteString(`\` + string(rune('a'+r.Intn(26))))
		case 4:
			// a backslash and one or two digits, then a letter: not \DDD, the first digit is taken literally
			if i+3 <= n && r.Intn(2) == 0 {
				sb.WriteString(fmt.Sprintf(`\%d%dx`, r.Intn(10), r.Intn(10)))
				i += 2
			} else if i+2 <= n {
				sb.WriteString(fmt.Sprintf(`\%dx`, r.Intn(10)))
				i++
			} else {
				sb.WriteByte('q')
			}
		case 5:
			if r.Intn(6) == 0 {
				sb.WriteString(fmt.Sprintf(`\%03d`, 256+r.Intn(744))) // 256..999: modulo 256
				break
			}
			sb.WriteByte("abcxyz019-_"[r.Intn(11)])
		default:
			sb.WriteByte("abcdefghijklmnopqrstuvwxyz0123456789-"[r.Intn(37)])
		}
	}
	return sb.String()
}

// vC15EscName: a name with escapes in some label, mostly valid and sharing suffixes with the plain
// names; plus the shapes on which IsFqdn and the label loop decide: an escaped final dot (not fully
// qualified), an even run of backslashes in front of the final dot (fully qualified), two digits
// and the label's dot after a backslash, decoded labels of 63 and 64 octets.
func vC15EscName(r *rand.Rand) string {
	tail := []string{"example.com.", "example.org.", "com.", "a.example.com.", `ex\.ample.com.`, `\065.example.com.`}[r.Intn(6)]
	switch r.Intn(12) {
	case 0:
		return []string{`abc\.`, `a\\.`, `a\\\.`, `a\\\\.`, `\.`, `\..`, `\\.`, `\12.com.`, `\1.com.`, `a\`, `a.b\`}[r.Intn(11)]
	case 1:
		return vC15EscLabel(r, 63) + "." + tail
	case 2:
		return vC15EscLabel(r, 64) + "." + tail
	case 3:
		return vc15gen.VC15Name(r)
	case 4: // an escape in the LAST label only
		return "www.example." + vC15EscLabel(r, 0) + "."
	}
	n := 1 + r.Intn(3)
	parts := make([]string, n)
	for i := range parts {
		if r.Intn(3) == 0 {
			parts[i] = []string{"www", "a", "mail", "EXAMPLE"}[r.Intn(4)]
		} else {
			parts[i] = vC15EscLabel(r, 0)
		}
	}
	return strings.Join(parts, ".") + "." + tail
}

// vC15AnyName: a plain name, or (1 in 4) one with escapes.
func vC15AnyName(r *rand.Rand) string {
	if r.Intn(4) == 0 {
		return vC15EscName(r)
	}
	return vC15PlainName(r)
}

// vC15LabelStarts: the offsets in the TEXT at which a label starts (escape-aware, the driver's own scan).
func vC15LabelStarts(s string) []int {
	out := []int{0}
	for i := 0; i < len(s); i++ {
		switch {
		case s[i] == '\\':
			if i+3 < len(s) && vC15Digit(s[i+1]) && vC15Digit(s[i+2]) && vC15Digit(s[i+3]) {
				i += 3
			} else {
				i++
			}
		case s[i] == '.' && i+1 < len(s):
			out = append(out, i+1)
		}
	}
	return out
}

// vC15NameCase runs dns.PackDomainName on a zeroed buffer of a chosen length with a
// chosen dictionary and records what it did, for C15.Concrete.pack_name_c.
func vC15NameCase(tr *vC15Trace, r *rand.Rand) {
	s := vC15AnyName(r)
	if r.Intn(12) == 0 {
		s = []string{"", ".", "a.", "example.com", vC15PlainName(r) + "x"}[r.Intn(5)]
	}
	off := r.Intn(40)
	if r.Intn(15) == 0 {
		off = 16384 + []int{-3, -1, 0, 5}[r.Intn(4)] // around maxCompressionOffset
	}
	var cm map[string]int
	cmCoq := "None"
	var initial [][2]any
	switch r.Intn(4) {
	case 0:
	case 1:
		cm = map[string]int{}
		cmCoq = "(Some [])"
	default:
		cm = map[string]int{}
		// suffixes of a sibling name (and sometimes of s itself) already in the dictionary
		sib := vC15AnyName(r)
		if r.Intn(2) == 0 && len(s) > 2 {
			sib = "x." + s
		}
		pos := 12
		for _, i := range vC15LabelStarts(sib) {
			if key := sib[i:]; key != "" && key != "." && r.Intn(3) != 0 {
				if _, dup := cm[key]; !dup {
					cm[key] = pos
					initial = append(initial, [2]any{key, pos})
				}
			}
			pos += 3 + r.Intn(9)
		}
		parts := make([]string, len(initial))
		for i, e := range initial {
			parts[i] = fmt.Sprintf("(%s, %d%%N)", vC15CoqName(e[0].(string)), e[1].(int))
		}
		cmCoq = "(Some [" + strings.Join(parts, ";") + "])"
	}
	compress := r.Intn(3) != 0
	// the uncompressed extent, then buffers exactly that long, one short, shorter, longer
	need := off + vC15NameLen(s)
	if s == "" {
		need = off
	}
	buflen := need + []int{0, 0, -1, -2, 1, 7, 30, -len(s) / 2}[r.Intn(8)]
	if buflen < 0 {
		buflen = 0
	}
	before := map[string]int{}
	for k, v := range cm {
		before[k] = v
	}
	buf := make([]byte, buflen)
	off1, err := 0, error(nil)
	panicked := false
	func() {
		defer func() {
			if recover() != nil {
				panicked = true
			}
		}()
		off1, err = dns.PackDomainName(s, buf, off, cm, compress)
	}()
	if panicked {
		tr.emit(map[string]any{"k": "name/panic", "desc": s, "nontrivial": false, "inconclusive": true})
		return
	}
	ok := err == nil
	written := "[]"
	if ok && off1 > off && off1 <= len(buf) {
		written = vc15gen.VC15CoqBytes(string(buf[off:off1]))
	}
	type kv struct {
		k string
		v int
	}
	var added []kv
	for k, v := range cm {
		if _, had := before[k]; !had {
			added = append(added, kv{k, v})
		}
	}
	sort.Slice(added, func(i, j int) bool { return added[i].v < added[j].v })
	ap := make([]string, len(added))
	for i, e := range added {
		ap[i] = fmt.Sprintf("(%s, %d%%N)", vC15CoqName(e.k), e.v)
	}
	if !ok { // what a failed call leaves in the dictionary is not part of the contract
		ap = nil
		off1 = 0
	}
	line := map[string]any{
		"coq": fmt.Sprintf("CaseName %s %d %d %s %s %s %d %s [%s]", vC15CoqName(s), buflen, off, cmCoq, vC15Bool(compress), vC15Bool(ok), off1, written, strings.Join(ap, ";")),
		"k":   fmt.Sprintf("name/ok=%v/dict=%v/compress=%v/esc=%v", ok, cm != nil, compress, strings.Contains(s, "\\")),
		"desc": map[string]any{"name": s, "buflen": buflen, "off": off, "dict": len(before), "compress": compress, "ok": ok, "off1": off1, "added": len(added),
			"err": vC15ErrStr(err)},
		"nontrivial": ok && (len(added) > 0 || off1-off < len(s)),
	}
	tr.emit(line)
}

func vC15Steps(rr dns.RR) (string, bool) {
	b := func(x []byte) string { return "SBytes " + vc15gen.VC15CoqBytes(string(x)) }
	if term, ok := vC15Typed(rr); ok {
		return term, true
	}
	switch v := rr.(type) {
	case *dns.A, *dns.AAAA, *dns.L32, *dns.LOC, *dns.NSEC3, *dns.NSEC3PARAM, *dns.SVCB, *dns.HTTPS, *dns.IPSECKEY, *dns.AMTRELAY:
		return "", false // a typed layout exists but this value is outside it
	case *dns.NULL:
		return "[" + b([]byte(v.Data)) + "]", true
	case *dns.OPT:
		// packDataOpt: code, length, then the option's own octets (opaque; rebuilt here from
		// the option's fields, not through its pack method)
		var parts []string
		for _, o := range v.Option {
			var data []byte
			switch e := o.(type) {
			case *dns.EDNS0_COOKIE:
				d, err := hex.DecodeString(e.Cookie)
				if err != nil {
					return "", false
				}
				data = d
			case *dns.EDNS0_NSID:
				d, err := hex.DecodeString(e.Nsid)
				if err != nil {
					return "", false
				}
				data = d
			case *dns.EDNS0_PADDING:
				data = e.Padding
			case *dns.EDNS0_EDE:
				data = append([]byte{byte(e.InfoCode >> 8), byte(e.InfoCode)}, e.ExtraText...)
			case *dns.EDNS0_LOCAL:
				data = e.Data
			default:
				d, ok := vC15OptionOctets(o)
				if !ok {
					return "", false
				}
				data = d
			}
			c, l := o.Option(), len(data)
			parts = append(parts, b([]byte{byte(c >> 8), byte(c), byte(l >> 8), byte(l)}), b(data))
		}
		return "[" + strings.Join(parts, ";") + "]", true
	}
	return vC15TagWalk(rr)
}

func vC15U32s(vs ...uint32) []byte {
	var out []byte
	for _, v := range vs {
		out = append(out, byte(v>>24), byte(v>>16), byte(v>>8), byte(v))
	}
	return out
}

// vC15Bitmap is RFC 4034 4.1.2 for a strictly increasing type list (the driver's own encoder).
func vC15Bitmap(ts []uint16) ([]byte, bool) {
	var out []byte
	for i := 0; i < len(ts); {
		if i > 0 && ts[i] <= ts[i-1] {
			return nil, false
		}
		w := ts[i] / 256
		var block [32]byte
		n := 0
		for ; i < len(ts) && ts[i]/256 == w; i++ {
			if i > 0 && ts[i] <= ts[i-1] {
				return nil, false
			}
			lo := int(ts[i] % 256)
			block[lo/8] |= 1 << (7 - lo%8)
			n = lo/8 + 1
		}
		out = append(out, byte(w), byte(n))
		out = append(out, block[:n]...)
	}
	return out, true
}

// vC15ConcreteMore: the record types whose rdata is literal octets and names in a fixed order.
func vC15ConcreteMore(r *rand.Rand, h dns.RR_Header, pick func() string) dns.RR {
	rb := func(n int) []byte { d := make([]byte, n); r.Read(d); return d }
	txt := func(max int) string {
		d := rb(r.Intn(max + 1))
		esc := r.Intn(3) == 0 // session 5: character-strings with escapes are decoded by the model
		for i := range d {
			if d[i] == '\\' && !esc {
				d[i] = '/'
			}
		}
		if !esc {
			return string(d)
		}
		var sb strings.Builder
		for _, c := range d {
			switch r.Intn(8) {
			case 0:
				sb.WriteString(fmt.Sprintf(`\%03d`, r.Intn(1000)))
			case 1:
				sb.WriteString(`\` + string([]byte{c}))
			case 2:
				sb.WriteString(fmt.Sprintf(`\%d`, r.Intn(100)))
			default:
				sb.WriteByte(c)
			}
		}
		if r.Intn(6) == 0 {
			sb.WriteByte('\\') // a lone backslash at the very end: dropped, after one more octet of room was asked for
		}
		return sb.String()
	}
	switch r.Intn(10) {
	case 0:
		h.Rrtype = dns.TypeTXT
		var ss []string
		switch r.Intn(6) {
		case 0: // no strings at all: a zero octet poked beyond what is advanced over
		case 1:
			ss = []string{""}
		case 2:
			ss = []string{txt(255), ""}
		default:
			for i := 1 + r.Intn(3); i > 0; i-- {
				ss = append(ss, txt(20))
			}
		}
		return &dns.TXT{Hdr: h, Txt: ss}
	case 1:
		h.Rrtype = dns.TypeSOA
		return &dns.SOA{Hdr: h, Ns: pick(), Mbox: pick(), Serial: r.Uint32(), Refresh: r.Uint32(), Retry: r.Uint32(), Expire: r.Uint32(), Minttl: r.Uint32()}
	case 2:
		h.Rrtype = dns.TypeSRV
		return &dns.SRV{Hdr: h, Priority: uint16(r.Intn(65536)), Weight: uint16(r.Intn(65536)), Port: uint16(r.Intn(65536)), Target: pick()}
	case 3:
		h.Rrtype = dns.TypeDS
		return &dns.DS{Hdr: h, KeyTag: uint16(r.Intn(65536)), Algorithm: uint8(r.Intn(256)), DigestType: uint8(r.Intn(256)), Digest: hex.EncodeToString(rb([]int{0, 20, 32, 48}[r.Intn(4)]))}
	case 4:
		h.Rrtype = dns.TypeDNSKEY
		return &dns.DNSKEY{Hdr: h, Flags: uint16(r.Intn(65536)), Protocol: 3, Algorithm: uint8(r.Intn(256)), PublicKey: base64.StdEncoding.EncodeToString(rb(3 * r.Intn(24)))}
	case 5:
		h.Rrtype = dns.TypeRRSIG
		return &dns.RRSIG{Hdr: h, TypeCovered: uint16(r.Intn(65536)), Algorithm: uint8(r.Intn(256)), Labels: uint8(r.Intn(8)), OrigTtl: r.Uint32(), Expiration: r.Uint32(), Inception: r.Uint32(),
			KeyTag: uint16(r.Intn(65536)), SignerName: pick(), Signature: base64.StdEncoding.EncodeToString(rb(3 * r.Intn(24)))}
	case 6:
		h.Rrtype = dns.TypeNSEC
		var ts []uint16
		t := 0
		for i := r.Intn(6); i > 0; i-- {
			t += 1 + r.Intn([]int{3, 40, 300, 9000}[r.Intn(4)])
			if t > 65535 {
				break
			}
			ts = append(ts, uint16(t))
		}
		return &dns.NSEC{Hdr: h, NextDomain: pick(), TypeBitMap: ts}
	case 7:
		h.Rrtype = dns.TypeTLSA
		return &dns.TLSA{Hdr: h, Usage: uint8(r.Intn(4)), Selector: uint8(r.Intn(2)), MatchingType: uint8(r.Intn(3)), Certificate: hex.EncodeToString(rb(r.Intn(40)))}
	case 8:
		h.Rrtype = dns.TypeCAA
		return &dns.CAA{Hdr: h, Flag: uint8(r.Intn(256)), Tag: []string{"issue", "issuewild", "iodef", ""}[r.Intn(4)], Value: []string{"", "letsencrypt.org", txt(30)}[r.Intn(3)]}
	}
	h.Rrtype = dns.TypeHINFO
	return &dns.HINFO{Hdr: h, Cpu: txt(12), Os: txt(12)}
}

// vC15ConcreteOptions: EDNS options whose wire form is their field octets.
func vC15ConcreteOptions(r *rand.Rand) []dns.EDNS0 {
	var out []dns.EDNS0
	if r.Intn(2) == 0 {
		// every option kind the library defines, from the generator of the differential cases, as
		// far as the value drawn is expressible (the driver's own encoders below)
		for try := 0; try < 20; try++ {
			opts := vc15gen.VC15Options(r, 1+r.Intn(3))
			if _, ok := vC15Steps(&dns.OPT{Hdr: dns.RR_Header{Name: ".", Rrtype: dns.TypeOPT}, Option: opts}); ok {
				return opts
			}
		}
	}
	for i := r.Intn(4); i > 0; i-- {
		d := make([]byte, r.Intn(20))
		r.Read(d)
		switch r.Intn(5) {
		case 0:
			out = append(out, &dns.EDNS0_COOKIE{Code: dns.EDNS0COOKIE, Cookie: hex.EncodeToString(d)})
		case 1:
			out = append(out, &dns.EDNS0_NSID{Code: dns.EDNS0NSID, Nsid: hex.EncodeToString(d)})
		case 2:
			out = append(out, &dns.EDNS0_PADDING{Padding: d})
		case 3:
			out = append(out, &dns.EDNS0_EDE{InfoCode: uint16(r.Intn(30)), ExtraText: string(d)})
		default:
			out = append(out, &dns.EDNS0_LOCAL{Code: uint16(65001 + r.Intn(500)), Data: d})
		}
	}
	return out
}

// vC15Force, when set, is a record the next concrete case must carry (the per-type sweep).
var vC15Force dns.RR

// vC15ConcreteSweep: one concrete case per registered record type (the first value out of 40
// drawn from the struct-tag generator that the step model expresses), and a census line naming
// the types for which no value was expressible — the types that stay under rdata_plan_ok.
func vC15ConcreteSweep(tr *vC15Trace, r *rand.Rand) {
	var never, partial []string
	for _, t := range vc15gen.VC15Types() {
		if t == dns.TypeOPT {
			continue // carried by the concrete cases themselves
		}
		var pickRR dns.RR
		okN := 0
		for try := 0; try < 40 || (pickRR == nil && try < 400); try++ {
			rr := vc15gen.VC15LibRR(r, t)
			rr.Header().Name = "host.example.org."
			if _, ok := vC15Steps(rr); ok {
				if try < 40 {
					okN++
				}
				if pickRR == nil || r.Intn(3) == 0 {
					pickRR = rr
				}
			}
		}
		name := dns.TypeToString[t]
		if pickRR == nil {
			never = append(never, name)
			continue
		}
		if okN < 40 {
			partial = append(partial, fmt.Sprintf("%s:%d/40", name, okN))
		}
		vC15Force = pickRR
		vC15ConcreteCase(tr, r)
		vC15Force = nil
	}
	tr.emit(map[string]any{"k": "concrete/census", "nontrivial": true,
		"desc": map[string]any{"registered": len(vc15gen.VC15Types()), "never_expressible": never, "partly_expressible": partial}})
}

// vC15ConcreteCase builds a message from records the concrete model can decompose, packs
// it through TryPack on a dirty pool and through the library, and records all bytes.
func vC15ConcreteMsg(r *rand.Rand) *dns.Msg {
	m := new(dns.Msg)
	vc15gen.VC15Header(r, m)
	if m.Rcode < 0 || m.Rcode > 4095 {
		m.Rcode = r.Intn(4096)
	}
	m.Compress = r.Intn(4) != 0
	base := vC15PlainName(r)
	if vC15Force == nil && r.Intn(4) == 0 {
		base = vC15EscName(r) // session 5: escaped names are part of the concrete model
	}
	pick := func() string {
		switch r.Intn(5) {
		case 0:
			return base
		case 1:
			return "www." + base
		case 2:
			if vC15Force == nil && r.Intn(8) == 0 {
				return vC15EscName(r)
			}
			return vC15PlainName(r)
		case 3:
			return strings.ToUpper(base)
		}
		return "a.b." + base
	}
	for i := []int{1, 1, 1, 0, 2}[r.Intn(5)]; i > 0; i-- {
		m.Question = append(m.Question, dns.Question{Name: pick(), Qtype: dns.TypeA, Qclass: dns.ClassINET})
	}
	if len(m.Question) > 0 && vC15Force == nil && r.Intn(6) == 0 {
		// question names the library treats specially (packQuestion is the packer's own code):
		// empty = no octets but one octet of Len(), unqualified = ErrFqdn, root, empty label
		m.Question[r.Intn(len(m.Question))].Name = vc15gen.VC15OddQName(r)
	}
	mk := func() dns.RR {
		h := dns.RR_Header{Name: pick(), Class: dns.ClassINET, Ttl: uint32(r.Intn(100000)), Rdlength: uint16(40000 + r.Intn(100))}
		switch r.Intn(13) {
		case 0:
			h.Rrtype = dns.TypeA
			ip := net.IP(make([]byte, 4))
			r.Read(ip)
			switch r.Intn(6) {
			case 0:
				ip = net.IPv4(ip[0], ip[1], ip[2], ip[3]) // 16-byte mapped form
			case 1:
				ip = make([]byte, 16) // not IPv4: the octet-skipping branch
				r.Read(ip)
			case 2:
				ip = nil
			}
			return &dns.A{Hdr: h, A: ip}
		case 1:
			h.Rrtype = dns.TypeAAAA
			ip := net.IP(make([]byte, 16))
			r.Read(ip)
			if r.Intn(8) == 0 {
				ip = nil
			}
			return &dns.AAAA{Hdr: h, AAAA: ip}
		case 2:
			h.Rrtype = dns.TypeNS
			return &dns.NS{Hdr: h, Ns: pick()}
		case 3:
			h.Rrtype = dns.TypeCNAME
			return &dns.CNAME{Hdr: h, Target: pick()}
		case 4:
			h.Rrtype = dns.TypePTR
			return &dns.PTR{Hdr: h, Ptr: pick()}
		case 5:
			h.Rrtype = dns.TypeMX
			return &dns.MX{Hdr: h, Preference: uint16(r.Intn(65536)), Mx: pick()}
		case 6:
			h.Rrtype = dns.TypeDNAME
			return &dns.DNAME{Hdr: h, Target: pick()}
		case 7:
			h.Rrtype = dns.TypeNULL
			d := make([]byte, r.Intn(12))
			r.Read(d)
			return &dns.NULL{Hdr: h, Data: string(d)}
		}
		if r.Intn(3) == 0 {
			// any registered record type with fields randomised from the library's struct tags, as
			// far as the step model expresses the value drawn (typed layouts first, tag walk else)
			for try := 0; try < 30; try++ {
				rr := vc15gen.VC15LibRR(r, 0)
				if _, isOpt := rr.(*dns.OPT); isOpt {
					continue
				}
				rr.Header().Name = pick()
				if _, ok := vC15Steps(rr); ok {
					return rr
				}
			}
		}
		if r.Intn(6) != 0 {
			return vC15ConcreteMore(r, h, pick)
		}
		h.Rrtype = dns.TypeA
		return &dns.A{Hdr: h, A: net.IPv4(10, 0, 0, byte(r.Intn(256))).To4()}
	}
	if vC15Force != nil {
		m.Answer = append(m.Answer, vC15Force)
	}
	for i := r.Intn(4); i > 0; i-- {
		m.Answer = append(m.Answer, mk())
	}
	for i := r.Intn(3); i > 0; i-- {
		m.Ns = append(m.Ns, mk())
	}
	for i := r.Intn(3); i > 0; i-- {
		m.Extra = append(m.Extra, mk())
	}
	if r.Intn(3) != 0 {
		o := &dns.OPT{Hdr: dns.RR_Header{Name: ".", Rrtype: dns.TypeOPT, Class: 1232, Ttl: []uint32{0, 0x8000, 0xAB008000, 0x01000000}[r.Intn(4)], Rdlength: 77}}
		if r.Intn(2) == 0 {
			o.Option = vC15ConcreteOptions(r)
		}
		m.Extra = append(m.Extra, o)
		if r.Intn(5) == 0 {
			m.Answer = append(m.Answer, o)
		}
	} else if m.Rcode > 15 && r.Intn(3) != 0 {
		m.Rcode &= 0xF
	}
	if r.Intn(25) == 0 && len(m.Answer) > 0 {
		m.Answer[0].Header().Name = "notfqdn.example" // the library errors; both decline
	}
	return m
}

// vC15ForceMsg, when set, is the message the next concrete case packs (the fixed escape family).
var vC15ForceMsg *dns.Msg

// vC15ConcreteEsc: on every run, messages whose QUESTION and owner names carry escapes, with and
// without a dictionary (packQuestion is the packer's own code; the dictionary is keyed on the
// source text), and character-strings with escapes incl. a lone backslash at the end.
func vC15ConcreteEsc(tr *vC15Trace, r *rand.Rand) {
	esc := `ex\.ample.\065bc.`
	hdr := func(n string, t uint16) dns.RR_Header {
		return dns.RR_Header{Name: n, Rrtype: t, Class: dns.ClassINET, Ttl: 300, Rdlength: 40001}
	}
	for i := 0; i < 6; i++ {
		m := new(dns.Msg)
		m.Id = uint16(4000 + i)
		m.Response = true
		m.Compress = i%2 == 1
		qn := esc
		if i >= 4 {
			qn = vC15EscName(r)
		}
		m.Question = []dns.Question{{Name: qn, Qtype: dns.TypeA, Qclass: dns.ClassINET}}
		switch i {
		case 2, 3:
			m.Answer = []dns.RR{
				&dns.CNAME{Hdr: hdr(esc, dns.TypeCNAME), Target: "www." + esc},
				&dns.CNAME{Hdr: hdr("www."+esc, dns.TypeCNAME), Target: `Abc.`},
				&dns.TXT{Hdr: hdr(`a\\.`+esc, dns.TypeTXT), Txt: []string{`a\065\`, `\"q\"`, `\9\99\999`}},
			}
		case 4, 5:
			m.Answer = []dns.RR{&dns.NS{Hdr: hdr(qn, dns.TypeNS), Ns: "ns." + qn}}
			m.Ns = []dns.RR{&dns.CAA{Hdr: hdr(qn, dns.TypeCAA), Tag: "issue", Value: `ca\.example\`}}
		}
		vC15ForceMsg = m
		vC15ConcreteCase(tr, r)
		vC15ForceMsg = nil
	}
}

func vC15ConcreteCase(tr *vC15Trace, r *rand.Rand) {
	m := vC15ConcreteMsg(r)
	if vC15ForceMsg != nil {
		m = vC15ForceMsg
	}

	ref := vc15gen.VC15DeepCopy(m)
	want, werr, wpanic := vc15gen.VC15LibPack(ref)
	if wpanic {
		return
	}
	vC15Dirty(r, 1+r.Intn(3))
	var got []byte
	handled, _ := TryPack(m, func(b []byte) error { got = append([]byte{}, b...); return nil })
	var fails []string
	if handled && (werr != nil || !bytes.Equal(got, want)) {
		fails = append(fails, "TryPack bytes differ from the library's")
	}
	sh := vc15gen.VC15MakeShapes(m)
	recs := vc15gen.VC15Records(m)
	undecomposed := false
	render := func(lo, hi int) string {
		var parts []string
		for i := lo; i < hi; i++ {
			rr := recs[i]
			steps, okSteps := vC15Steps(rr)
			if !okSteps {
				undecomposed = true
			}
			kind := "KOther"
			if _, isOpt := rr.(*dns.OPT); isOpt {
				kind = "KOpt"
			}
			h := rr.Header()
			parts = append(parts, fmt.Sprintf("R %s %s %d %d %d %d %d %s", vC15CoqName(h.Name), kind, sh.PtrOf[i], h.Rrtype, h.Class, h.Ttl, h.Rdlength, "("+steps+")"))
		}
		return "[" + strings.Join(parts, ";") + "]"
	}
	var qs []string
	for _, q := range m.Question {
		qs = append(qs, fmt.Sprintf("(%s, %d%%N, %d%%N)", vC15CoqName(q.Name), q.Qtype, q.Qclass))
	}
	na, nn := len(m.Answer), len(m.Ns)
	bytesCoq := "[]"
	if werr == nil {
		bytesCoq = vc15gen.VC15CoqBytes(string(want))
	}
	secA, secN, secE := render(0, na), render(na, na+nn), render(na+nn, len(recs))
	if undecomposed {
		tr.emit(map[string]any{"k": "concrete/driver", "desc": vC15Types(recs), "nontrivial": false,
			"go_fail": "driver: the concrete generator produced a record vC15Steps cannot decompose"})
		return
	}
	probe := *m
	probe.Compress = false
	ulen := probe.Len() // what TryPack's size probe sees
	line := map[string]any{
		"coq": fmt.Sprintf("CaseConcrete %s %s [%s] %s %s %s %s %s %s %d", vc15gen.VC15CoqHeader(m), vC15Bool(m.Compress), strings.Join(qs, ";"),
			secA, secN, secE, vC15Bool(handled), vC15Bool(werr == nil), bytesCoq, ulen),
		"k":          fmt.Sprintf("concrete/handled=%v/lib=%v", handled, werr == nil),
		"desc":       map[string]any{"rcode": m.Rcode, "compress": m.Compress, "sections": []int{len(m.Question), na, nn, len(m.Extra)}, "len": len(want), "liberr": vC15ErrStr(werr), "types": vC15Types(recs), "opts": vC15OptKinds(recs)},
		"nontrivial": handled && len(recs) >= 2,
	}
	if len(fails) > 0 {
		line["go_fail"] = strings.Join(fails, " | ")
	}
	tr.emit(line)
}


// ---------------------------------------------------------------- corpus

// A corpus entry is a declarative message plus the pool history to establish before it
// is packed; the minimal failing inputs of the finding and of every seeded change live in
// corpus/C15/*.json and are replayed first on every run.
type vC15CorpusRec struct {
	T      string `json:"t"`      // A AAAA NS CNAME MX TXT NULL OPT | NIL WRAP PRIVATE (inadmissible)
	Name   string `json:"name"`   // owner
	TTL    uint32 `json:"ttl"`
	IP     string `json:"ip"`     // hex octets (A / AAAA)
	Target string `json:"target"` // NS CNAME MX
	Len    int    `json:"len"`    // NULL: payload length; TXT: string length
	ID     string `json:"id"`     // same id = same object (aliasing)
	Rrtype *int   `json:"rrtype"` // header type override
	Class  *int   `json:"class"`
}
type vC15CorpusEntry struct {
	ID      string `json:"id"`
	Why     string `json:"why"`
	History []string `json:"history"` // junk | bytes | junk+small | declined-junk
	Via     string `json:"via"`       // "" (TryPack + PackClone)
	Msg     struct {
		ID       int  `json:"id"`
		Response bool `json:"response"`
		Opcode   int  `json:"opcode"`
		Rcode    int  `json:"rcode"`
		Compress bool `json:"compress"`
		Question []struct {
			Name string `json:"name"`
			Type int    `json:"type"`
		} `json:"question"`
		Answer []vC15CorpusRec `json:"answer"`
		Ns     []vC15CorpusRec `json:"ns"`
		Extra  []vC15CorpusRec `json:"extra"`
	} `json:"msg"`
}

func vC15HexIP(h string) net.IP {
	var out []byte
	for i := 0; i+1 < len(h); i += 2 {
		var b byte
		fmt.Sscanf(h[i:i+2], "%02x", &b)
		out = append(out, b)
	}
	return net.IP(out)
}

func vC15CorpusMsg(e *vC15CorpusEntry) *vc15gen.VC15Case {
	m := new(dns.Msg)
	m.Id, m.Response, m.Opcode, m.Rcode, m.Compress = uint16(e.Msg.ID), e.Msg.Response, e.Msg.Opcode, e.Msg.Rcode, e.Msg.Compress
	for _, q := range e.Msg.Question {
		m.Question = append(m.Question, dns.Question{Name: q.Name, Qtype: uint16(q.Type), Qclass: dns.ClassINET})
	}
	objs := map[string]dns.RR{}
	var clean []bool
	build := func(recs []vC15CorpusRec) []dns.RR {
		var out []dns.RR
		for _, c := range recs {
			switch c.T { // records the packer must decline on (not library-built: Clean = false)
			case "NIL":
				out, clean = append(out, nil), append(clean, false)
				continue
			case "WRAP":
				inner := &dns.A{Hdr: dns.RR_Header{Name: c.Name, Rrtype: dns.TypeA, Class: dns.ClassINET, Ttl: c.TTL}, A: net.IPv4(192, 0, 2, 7).To4()}
				out, clean = append(out, &vc15gen.VC15WrapRR{RR: inner}), append(clean, false)
				continue
			case "PRIVATE":
				p := &dns.PrivateRR{Data: &vc15gen.VC15PrivData{Data: "corpus"}}
				p.Hdr = dns.RR_Header{Name: c.Name, Rrtype: 65280, Class: dns.ClassINET, Ttl: c.TTL}
				out, clean = append(out, p), append(clean, false)
				continue
			}
			clean = append(clean, true)
			if c.ID != "" {
				if o, ok := objs[c.ID]; ok {
					out = append(out, o)
					continue
				}
			}
			h := dns.RR_Header{Name: c.Name, Class: dns.ClassINET, Ttl: c.TTL, Rdlength: 40001}
			var rr dns.RR
			switch c.T {
			case "A":
				h.Rrtype = dns.TypeA
				rr = &dns.A{Hdr: h, A: vC15HexIP(c.IP)}
			case "AAAA":
				h.Rrtype = dns.TypeAAAA
				rr = &dns.AAAA{Hdr: h, AAAA: vC15HexIP(c.IP)}
			case "NS":
				h.Rrtype = dns.TypeNS
				rr = &dns.NS{Hdr: h, Ns: c.Target}
			case "CNAME":
				h.Rrtype = dns.TypeCNAME
				rr = &dns.CNAME{Hdr: h, Target: c.Target}
			case "MX":
				h.Rrtype = dns.TypeMX
				rr = &dns.MX{Hdr: h, Preference: 10, Mx: c.Target}
			case "TXT":
				h.Rrtype = dns.TypeTXT
				rr = &dns.TXT{Hdr: h, Txt: []string{strings.Repeat("S", c.Len)}}
			case "NULL":
				h.Rrtype = dns.TypeNULL
				rr = &dns.NULL{Hdr: h, Data: strings.Repeat("\xEE", c.Len)}
			case "OPT":
				h.Rrtype = dns.TypeOPT
				h.Class = 1232
				rr = &dns.OPT{Hdr: h}
			default:
				clean = clean[:len(clean)-1]
				continue
			}
			if c.Rrtype != nil {
				rr.Header().Rrtype = uint16(*c.Rrtype)
			}
			if c.Class != nil {
				rr.Header().Class = uint16(*c.Class)
			}
			if c.ID != "" {
				objs[c.ID] = rr
			}
			out = append(out, rr)
		}
		return out
	}
	m.Answer, m.Ns, m.Extra = build(e.Msg.Answer), build(e.Msg.Ns), build(e.Msg.Extra)
	return &vc15gen.VC15Case{Msg: m, Tags: []string{"corpus:" + e.ID}, Clean: clean}
}

// vC15History establishes a named pool history.
func vC15History(r *rand.Rand, h string) {
	switch h {
	case "junk":
		vC15Dirty(r, 1)
	case "bytes":
		vC15Dirty(r, 2)
	case "junk+small":
		vC15Dirty(r, 3)
	case "declined-junk":
		// a name-heavy compressed message that fills the dictionary and then fails on its
		// last record: TryPack declines after packInto ran
		m := new(dns.Msg)
		m.Response, m.Compress = true, true
		m.Question = []dns.Question{{Name: "www.example.com.", Qtype: dns.TypeNS, Qclass: dns.ClassINET}}
		for i := 0; i < 12; i++ {
			m.Answer = append(m.Answer, &dns.NS{Hdr: dns.RR_Header{Name: "www.example.com.", Rrtype: dns.TypeNS, Class: dns.ClassINET, Ttl: 5}, Ns: fmt.Sprintf("pad%d.pad.example.com.", i)})
		}
		m.Answer = append(m.Answer, &dns.NS{Hdr: dns.RR_Header{Name: "www.example.com.", Rrtype: dns.TypeNS, Class: dns.ClassINET, Ttl: 5}, Ns: "not-fully-qualified"})
		TryPack(m, func([]byte) error { return nil })
	}
}

func vC15Corpus(t *testing.T, tr *vC15Trace, r *rand.Rand) {
	dir := os.Getenv("VERIF_CORPUS")
	if dir == "" {
		return
	}
	ents, err := os.ReadDir(dir)
	if err != nil {
		return
	}
	var names []string
	for _, e := range ents {
		if strings.HasSuffix(e.Name(), ".json") {
			names = append(names, e.Name())
		}
	}
	sort.Strings(names)
	for _, n := range names {
		raw, err := os.ReadFile(dir + "/" + n)
		if err != nil {
			continue
		}
		var list []vC15CorpusEntry
		if err := json.Unmarshal(raw, &list); err != nil {
			t.Fatalf("corpus %s: %v", n, err)
		}
		for i := range list {
			e := &list[i]
			for rep := 0; rep < 2; rep++ { // twice: the second run sees the state the first left
				for _, h := range e.History {
					vC15History(r, h)
				}
				vC15Run(tr, r, vC15CorpusMsg(e), 0, "corpus")
			}
		}
	}
}

// TestVerifC15Race is the thorough-tier stress built with the race detector: many
// goroutines pack and clone SHARED messages through the one pool; a data race on a
// message, a record or a pooled state fails the run.
func TestVerifC15Race(t *testing.T) {
	tr := vC15Open(t)
	defer tr.f.Close()
	seed := int64(vC15EnvInt("VERIF_SEED", 1))
	n := vC15EnvInt("VERIF_N", 4)
	r := rand.New(rand.NewSource(seed))
	if runtime.GOMAXPROCS(0) < 4 {
		runtime.GOMAXPROCS(4)
	}
	for c := 0; c < n; c++ {
		vC15Stress(tr, r, 600)
	}
}

func TestVerifC15Wire(t *testing.T) {
	tr := vC15Open(t)
	defer tr.f.Close()
	seed := int64(vC15EnvInt("VERIF_SEED", 1))
	n := vC15EnvInt("VERIF_N", 1000)
	r := rand.New(rand.NewSource(seed))

	// premise of the admission check on this library version
	if bad := vc15gen.VC15InterfaceFields(); len(bad) > 0 {
		tr.emit(map[string]any{"k": "premise", "desc": bad, "nontrivial": true,
			"go_fail": "library record types with interface-valued fields the admission check does not inspect: " + strings.Join(bad, ",")})
	}
	if vc15gen.VC15LibraryPkgPath() != libraryPkg {
		tr.emit(map[string]any{"k": "premise", "desc": libraryPkg, "nontrivial": true, "go_fail": "libraryPkg is not the package path reflect reports for library types: " + vc15gen.VC15LibraryPkgPath()})
	}
	// nil message
	func() {
		calls := 0
		handled, err := TryPack(nil, func([]byte) error { calls++; return nil })
		line := map[string]any{"k": "nilmsg", "desc": "TryPack(nil)", "nontrivial": false}
		if handled || err != nil || calls != 0 {
			line["go_fail"] = "TryPack(nil) did not decline cleanly"
		}
		tr.emit(line)
	}()

	prev := runtime.GOMAXPROCS(1) // one P: the pooled state a pack gets is the one the previous pack put back
	vC15Corpus(t, tr, r)
	// regression for the fixed finding stale-a-rdata, deterministically: the reply the blocklist builds for a
	// blocked A query when nullroute is configured as "::", after any earlier reply
	for i := 0; i < 6; i++ {
		m := new(dns.Msg)
		m.Id, m.Response, m.Authoritative, m.RecursionAvailable = uint16(7+i), true, true, true
		m.Question = []dns.Question{{Name: "blocked.example.com.", Qtype: dns.TypeA, Qclass: dns.ClassINET}}
		m.Answer = []dns.RR{&dns.A{Hdr: dns.RR_Header{Name: "blocked.example.com.", Rrtype: dns.TypeA, Class: dns.ClassINET, Ttl: 3600}, A: net.ParseIP("::")}}
		m.Compress = i%2 == 0
		vC15Run(tr, r, &vc15gen.VC15Case{Msg: m, Tags: []string{"nullroute-v6"}, Clean: []bool{true}}, 1+i%3, "regression")
	}
	for c := 0; c < n; c++ {
		var cs *vc15gen.VC15Case
		kind := "plain"
		switch c % 10 {
		case 6, 7:
			cs, kind = vc15gen.VC15Gen(r, true), "hostile"
		case 8:
			target := packBufferSize + []int{-2, -1, 0, 0, 1, 2, -12, 11}[r.Intn(8)]
			cs, kind = vc15gen.VC15Sized(r, target), "sized"
		case 4:
			cs = vc15gen.VC15Gen(r, false)
			if r.Intn(2) == 0 {
				vc15gen.VC15AddHole(r, cs)
			}
		case 5:
			if r.Intn(2) == 0 {
				cs, kind = vc15gen.VC15Bare(r), "bare"
			} else {
				cs = vc15gen.VC15Gen(r, false)
			}
		case 9:
			if x := r.Intn(3); x == 0 {
				cs, kind = vc15gen.VC15Sized(r, packBufferSize+100+r.Intn(3000)), "oversize"
			} else if x == 1 {
				cs, kind = vc15gen.VC15AliasedOversize(r), "oversize"
			} else {
				cs, kind = vc15gen.VC15Sized(r, 3000+r.Intn(1090)), "large"
			}
		default:
			cs = vc15gen.VC15Gen(r, false)
		}
		vC15Run(tr, r, cs, r.Intn(4), kind)
	}
	for c := 0; c < 12+n/25; c++ {
		vC15Release(tr, r)
	}
	for c := 0; c < 40+n/6; c++ {
		vC15NameCase(tr, r)
	}
	for c := 0; c < 30+n/10; c++ {
		vC15ConcreteCase(tr, r)
	}
	vC15ConcreteSweep(tr, r)
	vC15ConcreteEsc(tr, r)
	vC15HistoryCases(tr, r, 10+n/60)
	vC15PlanPremise(tr, r, 2+n/500)
	runtime.GOMAXPROCS(prev)
	if runtime.GOMAXPROCS(0) < 4 {
		runtime.GOMAXPROCS(4)
	}
	for c := 0; c < 3+n/400; c++ {
		vC15Stress(tr, r, 400)
	}
}

func vC15OptKinds(recs []dns.RR) string {
	var out []string
	for _, rr := range recs {
		if o, ok := rr.(*dns.OPT); ok {
			for _, e := range o.Option {
				out = append(out, strings.TrimPrefix(reflect.TypeOf(e).String(), "*dns.EDNS0_"))
			}
		}
	}
	return strings.Join(out, ",")
}
