//go:build verif

package wire

// C15: the one assumption the hybrid theorems (C15.Hybrid / Proofs_hybrid) keep about the
// library — `rdata_plan_ok`: a record packer is a buffer-blind plan whose extent Len() bounds —
// tested against dns.PackRR for EVERY record type the library registers, on this library
// version: the same record is packed at the same offset with equal dictionaries into an
// all-0x00 and an all-0xFF buffer of Len()+1 octets behind the offset.
//
//   same_success   both succeed or both fail;
//   frame          same end offset, same dictionary afterwards, and every octet is either equal
//                  in both buffers (written, same value) or still 0x00 / 0xFF (not written) —
//                  an octet computed FROM the buffer (`|=` on unzeroed memory) shows as a third
//                  combination;
//   len_bounds     the end offset is at most off + Len(rr);
//   len_suffices   a pack that succeeds in a roomy buffer succeeds in one of off + Len(rr) + 1;
//   in_bounds      the end offset is inside the buffer.
//
// A violation is a go_fail (the premise does not hold for that type on this library version).
// The number of octets advanced over but not written is reported per case (the A / L32 /
// gateway "holes" the finding was about; anything else would be news).

import (
	"fmt"
	"math/rand"
	"reflect"
	"strings"

	"github.com/miekg/dns"
	"github.com/semihalev/sdns/internal/vc15gen"
)

func vC15PlanDict(r *rand.Rand, rr dns.RR) map[string]int {
	if r.Intn(4) == 0 {
		return nil
	}
	cm := map[string]int{}
	// suffixes of the owner name (and of a sibling) at plausible offsets, so that pointers are emitted
	for _, s := range []string{rr.Header().Name, vc15gen.VC15Name(r)} {
		pos := 12
		for i := 0; i < len(s); i++ {
			if i == 0 || s[i-1] == '.' {
				if key := s[i:]; key != "" && key != "." && r.Intn(2) == 0 {
					if _, dup := cm[key]; !dup {
						cm[key] = pos
					}
				}
				pos += 2 + r.Intn(7)
			}
		}
	}
	return cm
}

func vC15PlanPack(rr dns.RR, buf []byte, off int, cm map[string]int, compress bool) (o int, err error, panicked bool) {
	defer func() {
		if recover() != nil {
			panicked = true
		}
	}()
	o, err = dns.PackRR(rr, buf, off, cm, compress)
	return
}

func vC15PlanCase(tr *vC15Trace, r *rand.Rand, t uint16) {
	rr := vc15gen.VC15LibRR(r, t)
	if r.Intn(10) == 0 {
		c := &vc15gen.VC15Case{Msg: &dns.Msg{Answer: []dns.RR{rr}}, Clean: []bool{true}}
		vc15gen.VC15AddHole(r, c) // the octet-skipping A / L32 record of the generator
		for _, x := range vc15gen.VC15Records(c.Msg) {
			if x != rr {
				rr = x
				break
			}
		}
	}
	tname := strings.TrimPrefix(reflect.TypeOf(rr).String(), "*dns.")
	off := r.Intn(30)
	compress := r.Intn(3) != 0
	rlen := dns.Len(rr)
	base := vC15PlanDict(r, rr)
	clone := func() map[string]int {
		if base == nil {
			return nil
		}
		m := make(map[string]int, len(base))
		for k, v := range base {
			m[k] = v
		}
		return m
	}
	n := off + rlen + 1
	b0, b1 := make([]byte, n), make([]byte, n)
	for i := range b1 {
		b1[i] = 0xFF
	}
	cm0, cm1 := clone(), clone()
	o0, e0, p0 := vC15PlanPack(dns.Copy(rr), b0, off, cm0, compress)
	o1, e1, p1 := vC15PlanPack(dns.Copy(rr), b1, off, cm1, compress)
	big := make([]byte, off+rlen+600)
	oB, eB, pB := vC15PlanPack(dns.Copy(rr), big, off, clone(), compress)

	var fails []string
	holes := 0
	switch {
	case p0 || p1 || pB:
		if !(p0 && p1 && pB) {
			fails = append(fails, "the pack panics depending on buffer content or size")
		}
	case (e0 == nil) != (e1 == nil):
		fails = append(fails, fmt.Sprintf("same_success: zero buffer err=%v, 0xFF buffer err=%v", e0, e1))
	case e0 == nil:
		if o0 != o1 {
			fails = append(fails, fmt.Sprintf("frame: end offset depends on buffer content (%d vs %d)", o0, o1))
		}
		if !reflect.DeepEqual(cm0, cm1) {
			fails = append(fails, "frame: dictionary depends on buffer content")
		}
		if o0 > n || o0 < off {
			fails = append(fails, fmt.Sprintf("in_bounds: end offset %d outside [%d, %d]", o0, off, n))
		}
		if o0 > off+rlen {
			fails = append(fails, fmt.Sprintf("len_bounds: advanced %d octets, Len() = %d", o0-off, rlen))
		}
		for i := 0; i < n; i++ {
			switch {
			case b0[i] == b1[i]:
			case b0[i] == 0 && b1[i] == 0xFF:
				if i >= off && i < o0 {
					holes++
				}
			default:
				fails = append(fails, fmt.Sprintf("frame: octet %d is computed from buffer content (%#x over zeroes, %#x over 0xFF)", i, b0[i], b1[i]))
				i = n
			}
		}
		for i := 0; i < off && i < n; i++ {
			if b0[i] != 0 || b1[i] != 0xFF {
				fails = append(fails, fmt.Sprintf("frame: octet %d in front of the offset was written", i))
				break
			}
		}
		if eB == nil && oB != o0 {
			fails = append(fails, fmt.Sprintf("frame: end offset depends on buffer length (%d vs %d)", o0, oB))
		}
	default:
		// both fail in the Len()+1 buffer: then the roomy one must fail too (len_suffices)
		if eB == nil {
			fails = append(fails, fmt.Sprintf("len_suffices: packs to %d in a roomy buffer but fails with room for Len()+1 = %d: %v", oB, n, e0))
		}
	}
	line := map[string]any{
		"k": fmt.Sprintf("plan/%s/ok=%v/holes=%v", tname, e0 == nil && !p0, holes > 0),
		"desc": map[string]any{"type": tname, "off": off, "len": rlen, "compress": compress, "dict": len(base), "end": o0, "holes": holes,
			"err": vC15ErrStr(e0)},
		"nontrivial": e0 == nil && !p0,
	}
	if len(fails) > 0 {
		line["go_fail"] = "library premise rdata_plan_ok: " + strings.Join(fails, " | ") + " :: " + fmt.Sprintf("%#v", rr)
	}
	tr.emit(line)
}

// vC15PlanPremise walks every registered type `rounds` times.
func vC15PlanPremise(tr *vC15Trace, r *rand.Rand, rounds int) {
	for k := 0; k < rounds; k++ {
		for _, t := range vc15gen.VC15Types() {
			vC15PlanCase(tr, r, t)
		}
	}
}
