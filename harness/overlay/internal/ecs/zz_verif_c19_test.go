//go:build verif

package ecs

// C19 correspondence driver for internal/ecs (overlay-injected, never
// committed to /repo).  Runs Build / Allows / Clamp / ReadResponseScope /
// ClampScope on generated policies x client addresses x subnet options of
// both families (any netmask, host bits set, family/address mismatches,
// odd address lengths, invalid configurations) and records what the code
// did as Coq terms for C19.Run.  The Go-side oracle redoes the mask
// arithmetic independently with net/netip.

import (
	"encoding/json"
	"fmt"
	"math/big"
	"math/rand"
	"net"
	"net/netip"
	"os"
	"strconv"
	"strings"
	"testing"

	"github.com/miekg/dns"
)

type vC19Trace struct{ f *os.File }

func vC19Open(t *testing.T) *vC19Trace {
	p := os.Getenv("VERIF_OUT")
	if p == "" {
		t.Skip("VERIF_OUT not set")
	}
	f, err := os.Create(p)
	if err != nil {
		t.Fatal(err)
	}
	return &vC19Trace{f: f}
}

func (v *vC19Trace) emit(m map[string]any) {
	b, _ := json.Marshal(m)
	v.f.Write(append(b, '\n'))
}

func vC19EnvInt(name string, def int) int {
	if s := os.Getenv(name); s != "" {
		if n, err := strconv.Atoi(s); err == nil {
			return n
		}
	}
	return def
}

// ---- Coq term rendering

func vC19Bool(b bool) string {
	if b {
		return "true"
	}
	return "false"
}

func vC19Bytes(b []byte) string {
	return fmt.Sprintf("(mk_ipb %d %s)", len(b), new(big.Int).SetBytes(b).String())
}

func vC19AddrVal(a netip.Addr) *big.Int {
	if a.Is4() {
		b := a.As4()
		return new(big.Int).SetBytes(b[:])
	}
	b := a.As16()
	return new(big.Int).SetBytes(b[:])
}

func vC19Addr(a netip.Addr) string {
	if !a.IsValid() {
		return "None"
	}
	return fmt.Sprintf("(Some (mk_addr %s %s))", vC19Bool(a.Is4()), vC19AddrVal(a).String())
}

func vC19PfxRaw(p netip.Prefix) string {
	return fmt.Sprintf("(mk_pfx %s %s %d)", vC19Bool(p.Addr().Is4()), vC19AddrVal(p.Addr()).String(), p.Bits())
}

func vC19Pfx(p netip.Prefix) string {
	if !p.IsValid() {
		return "None"
	}
	return "(Some " + vC19PfxRaw(p) + ")"
}

func vC19Policy(p *Policy) string {
	if p == nil {
		return "None"
	}
	var nets []string
	for _, n := range p.ClientNetworks {
		nets = append(nets, vC19PfxRaw(n))
	}
	return fmt.Sprintf("(Some (mk_policy %s %d %d [%s] %d %d))", vC19Bool(p.Enabled), p.ForwardV4Max, p.ForwardV6Max,
		strings.Join(nets, "; "), p.MinScopeV4, p.MinScopeV6)
}

func vC19EcsRaw(e *dns.EDNS0_SUBNET) string {
	return fmt.Sprintf("(mk_ecs %d %d %d %s)", e.Family, e.SourceNetmask, e.SourceScope, vC19Bytes(e.Address))
}

func vC19Ecs(e *dns.EDNS0_SUBNET) string {
	if e == nil {
		return "None"
	}
	return "(Some " + vC19EcsRaw(e) + ")"
}

func vC19Opts(opts []dns.EDNS0) string {
	var s []string
	for _, o := range opts {
		if e, ok := o.(*dns.EDNS0_SUBNET); ok {
			s = append(s, "OEcs "+vC19EcsRaw(e))
		} else {
			s = append(s, fmt.Sprintf("OOther %d", o.Option()))
		}
	}
	return "[" + strings.Join(s, "; ") + "]"
}

// ---- generators

func vC19Uint8(r *rand.Rand, around ...int) uint8 {
	switch r.Intn(4) {
	case 0:
		return uint8([]int{0, 1, 8, 16, 23, 24, 25, 31, 32, 33, 48, 55, 56, 57, 64, 127, 128, 129, 200, 255}[r.Intn(20)])
	case 1:
		if len(around) > 0 {
			v := around[r.Intn(len(around))] + r.Intn(3) - 1
			if v < 0 {
				v = 0
			}
			if v > 255 {
				v = 255
			}
			return uint8(v)
		}
	}
	return uint8(r.Intn(256))
}

func vC19RandAddr(r *rand.Rand, is4 bool) netip.Addr {
	if is4 {
		var b [4]byte
		r.Read(b[:])
		switch r.Intn(4) {
		case 0:
			b[0], b[1] = 10, byte(r.Intn(3))
		case 1:
			b = [4]byte{203, 0, 113, byte(r.Intn(256))}
		}
		return netip.AddrFrom4(b)
	}
	var b [16]byte
	r.Read(b[:])
	switch r.Intn(5) {
	case 0:
		copy(b[:], []byte{0x20, 0x01, 0x0d, 0xb8, 0, byte(r.Intn(2)), 0, byte(r.Intn(2))})
	case 1: // IPv4-mapped
		for i := 0; i < 10; i++ {
			b[i] = 0
		}
		b[10], b[11] = 0xff, 0xff
	case 2: // nearly mapped
		for i := 0; i < 10; i++ {
			b[i] = 0
		}
		b[10], b[11] = 0xff, 0xfe
	}
	return netip.AddrFrom16(b)
}

func vC19RandPrefix(r *rand.Rand) netip.Prefix {
	is4 := r.Intn(2) == 0
	a := vC19RandAddr(r, is4)
	w := a.BitLen()
	var bits int
	switch r.Intn(4) {
	case 0:
		bits = []int{0, 1, w - 1, w}[r.Intn(4)]
	case 1:
		bits = []int{8, 16, 24, 32}[r.Intn(4)]
	default:
		bits = r.Intn(w + 1)
	}
	return netip.PrefixFrom(a, bits) // host bits kept
}

var vC19Malformed = []string{"", " ", "\t", "  ", " 10.0.0.0/8", "10.0.0.0/8 ", "10.0.0.0", "10.0.0.0/33", "::/129", "10.0.0.0/-1", "10.0.0.256/8", "fe80::1%eth0/64", "1.2.3.4/ 8", "/8", "2001:db8::/x", "", " "}

type vC19BuildArgs struct {
	enabled        bool
	f4, f6, m4, m6 uint8
	nets           []string
}

func (b vC19BuildArgs) coq() string {
	var nets []string
	for _, s := range b.nets {
		p, err := netip.ParsePrefix(s)
		if err != nil {
			nets = append(nets, "None")
		} else {
			nets = append(nets, "Some "+vC19PfxRaw(p))
		}
	}
	return fmt.Sprintf("(mk_bargs %s %d %d %d %d [%s])", vC19Bool(b.enabled), b.f4, b.f6, b.m4, b.m6, strings.Join(nets, "; "))
}

func vC19GenBuildArgs(r *rand.Rand) vC19BuildArgs {
	b := vC19BuildArgs{enabled: r.Intn(8) != 0}
	pick := func(lim int) uint8 {
		switch r.Intn(10) {
		case 0, 1, 2:
			return 0
		case 3:
			return uint8(lim)
		case 4:
			return uint8(lim + 1)
		case 5:
			return uint8(r.Intn(256))
		case 6:
			return 1
		}
		return uint8(1 + r.Intn(lim))
	}
	b.f4, b.f6, b.m4, b.m6 = pick(32), pick(128), pick(32), pick(128)
	if r.Intn(3) == 0 { // mostly valid configurations
		if b.f4 > 32 {
			b.f4 = 24
		}
		if b.f6 > 128 {
			b.f6 = 56
		}
		if b.m4 > 32 {
			b.m4 = 0
		}
		if b.m6 > 128 {
			b.m6 = 0
		}
	}
	n := r.Intn(4)
	if r.Intn(3) == 0 {
		n = 0
	}
	for i := 0; i < n; i++ {
		if r.Intn(7) == 0 {
			b.nets = append(b.nets, vC19Malformed[r.Intn(len(vC19Malformed))])
		} else {
			b.nets = append(b.nets, vC19RandPrefix(r).String())
		}
	}
	return b
}

// a policy: from Build (mostly), nil, or hand-made (disabled but non-nil, ceilings beyond the width)
func vC19GenPolicy(r *rand.Rand) *Policy {
	switch r.Intn(10) {
	case 0:
		return nil
	case 1:
		p := &Policy{Enabled: r.Intn(2) == 0, ForwardV4Max: vC19Uint8(r, 24, 32), ForwardV6Max: vC19Uint8(r, 56, 128),
			MinScopeV4: vC19Uint8(r, 24, 32), MinScopeV6: vC19Uint8(r, 56, 128)}
		for i := r.Intn(3); i > 0; i-- {
			p.ClientNetworks = append(p.ClientNetworks, vC19RandPrefix(r))
		}
		return p
	}
	for {
		b := vC19GenBuildArgs(r)
		b.enabled = true
		p, err := Build(b.enabled, b.f4, b.f6, b.m4, b.m6, b.nets)
		if err == nil && p != nil {
			return p
		}
	}
}

func vC19GenECS(r *rand.Rand, p *Policy) *dns.EDNS0_SUBNET {
	e := &dns.EDNS0_SUBNET{Code: dns.EDNS0SUBNET}
	fam := 1 + r.Intn(2)
	is4 := fam == 1
	a := vC19RandAddr(r, is4)
	e.Family = uint16(fam)
	e.Address = net.IP(a.AsSlice())
	ceil := []int{24, 56}
	if p != nil {
		ceil = []int{int(p.ForwardV4Max), int(p.ForwardV6Max), int(p.MinScopeV4), int(p.MinScopeV6)}
	}
	w := a.BitLen()
	switch r.Intn(5) {
	case 0:
		e.SourceNetmask = uint8([]int{0, 1, w - 1, w}[r.Intn(4)])
	case 1:
		e.SourceNetmask = vC19Uint8(r, ceil...)
	default:
		e.SourceNetmask = uint8(r.Intn(w + 1))
	}
	e.SourceScope = 0
	if r.Intn(3) == 0 {
		e.SourceScope = uint8(r.Intn(w + 1))
	}
	// deviations
	switch r.Intn(30) {
	case 0:
		e.Family = uint16([]int{0, 3, 65535}[r.Intn(3)])
	case 1: // family / address mismatch
		e.Family = uint16(3 - fam)
	case 2:
		e.Address = nil
	case 3:
		e.Address = net.IP{}
	case 4:
		e.Address = net.IP(e.Address[:len(e.Address)-1])
	case 5: // v4 in 16-byte form
		if is4 {
			e.Address = net.IP(a.AsSlice()).To16()
		}
	case 6:
		e.SourceNetmask = vC19Uint8(r)
	case 7:
		e.Address = append(net.IP{}, append(e.Address, 7)...)
	}
	return e
}

func vC19AddrOfIP(ip net.IP) (netip.Addr, bool) {
	if v4 := ip.To4(); v4 != nil {
		return netip.AddrFromSlice(v4)
	}
	return netip.AddrFromSlice(ip)
}

// independent judgement of a forwarded option
func vC19ForwardedOK(p *Policy, in, out *dns.EDNS0_SUBNET) string {
	if p == nil || in == nil {
		return "option produced without a policy / without an input"
	}
	ia, ok := vC19AddrOfIP(in.Address)
	if !ok {
		return "option produced from an unusable address"
	}
	var ceil int
	switch out.Family {
	case 1:
		ceil = int(p.ForwardV4Max)
		if !ia.Is4() || len(out.Address) != 4 {
			return "family 1 with a non-IPv4 address"
		}
	case 2:
		ceil = int(p.ForwardV6Max)
		if !ia.Is6() || ia.Is4In6() || len(out.Address) != 16 {
			return "family 2 with a non-IPv6 address"
		}
	default:
		return fmt.Sprintf("family %d forwarded", out.Family)
	}
	if out.Family != in.Family {
		return "family changed"
	}
	if int(out.SourceNetmask) > ceil || out.SourceNetmask > in.SourceNetmask {
		return fmt.Sprintf("source prefix /%d beyond ceiling /%d or client /%d", out.SourceNetmask, ceil, in.SourceNetmask)
	}
	if out.SourceScope != 0 {
		return "query SCOPE not 0"
	}
	oa, ok := netip.AddrFromSlice(out.Address)
	if !ok {
		return "bad output address"
	}
	want, err := ia.Prefix(int(out.SourceNetmask))
	if err != nil {
		return "prefix length beyond the address width"
	}
	if netip.PrefixFrom(oa, int(out.SourceNetmask)).Masked().Addr() != oa {
		return "host bits set in forwarded address " + oa.String()
	}
	if want.Addr() != oa {
		return fmt.Sprintf("forwarded %s, client network is %s", oa, want.Addr())
	}
	return ""
}

func TestVerifC19Ecs(t *testing.T) {
	tr := vC19Open(t)
	defer tr.f.Close()
	r := rand.New(rand.NewSource(int64(vC19EnvInt("VERIF_SEED", 1))))
	n := vC19EnvInt("VERIF_N", 2000)
	for c := 0; c < n; c++ {
		switch c % 5 {
		case 0: // Build
			b := vC19GenBuildArgs(r)
			p, err := Build(b.enabled, b.f4, b.f6, b.m4, b.m6, b.nets)
			res, k := "BuildNil", "build-disabled"
			goFail := ""
			if err != nil {
				pe, ok := err.(*policyError)
				field := 0
				if ok {
					field = map[string]int{"forward_v4": 1, "forward_v6": 2, "min_scope_v4": 3, "min_scope_v6": 4, "client_networks": 5}[pe.Field()]
				}
				res, k = fmt.Sprintf("(BuildErr %d)", field), "build-invalid"
				if p != nil {
					goFail = "Build returned both a policy and an error"
				}
			} else if p != nil {
				res, k = "(BuildOk "+strings.TrimSuffix(strings.TrimPrefix(vC19Policy(p), "(Some "), ")")+")", "build-ok"
				// oracle: every invalid value must have failed closed
				bad := b.f4 > 32 || b.f6 > 128 || b.m4 > 32 || b.m6 > 128
				for _, s := range b.nets {
					if _, e := netip.ParsePrefix(s); e != nil {
						bad = true
					}
				}
				if bad || !b.enabled {
					goFail = fmt.Sprintf("invalid/disabled configuration %+v produced a policy", b)
				}
			}
			tr.emit(map[string]any{"k": k, "coq": "CaseBuild " + b.coq() + " " + res, "go_fail": goFail, "nontrivial": b.enabled,
				"desc": map[string]any{"args": fmt.Sprintf("%+v", b), "policy": fmt.Sprintf("%+v", p), "err": fmt.Sprint(err)}})
		case 1: // Allows
			p := vC19GenPolicy(r)
			var a netip.Addr
			switch r.Intn(8) {
			case 0:
				a = netip.Addr{}
			default:
				a = vC19RandAddr(r, r.Intn(2) == 0)
				if p != nil && len(p.ClientNetworks) > 0 && r.Intn(2) == 0 { // inside / at the edge of a listed network
					q := p.ClientNetworks[r.Intn(len(p.ClientNetworks))]
					m := q.Masked()
					a = m.Addr()
					if r.Intn(2) == 0 {
						v := vC19AddrVal(a)
						span := new(big.Int).Lsh(big.NewInt(1), uint(a.BitLen()-q.Bits()))
						v.Add(v, span)
						if r.Intn(2) == 0 {
							v.Sub(v, big.NewInt(1))
						}
						buf := make([]byte, a.BitLen()/8)
						if v.BitLen() <= a.BitLen() {
							v.FillBytes(buf)
							a, _ = netip.AddrFromSlice(buf)
						}
					}
				}
			}
			got := p.Allows(a)
			want := false
			if p != nil && p.Enabled && a.IsValid() {
				want = len(p.ClientNetworks) == 0
				for _, q := range p.ClientNetworks {
					if q.Masked().Contains(a) {
						want = true
					}
				}
			}
			goFail := ""
			if got != want {
				goFail = fmt.Sprintf("Allows(%s)=%v, naive scan says %v for %+v", a, got, want, p)
			}
			k := "allows-no"
			if got {
				k = "allows-yes"
			}
			tr.emit(map[string]any{"k": k, "coq": fmt.Sprintf("CaseAllows %s %s %s", vC19Policy(p), vC19Addr(a), vC19Bool(got)), "go_fail": goFail,
				"nontrivial": p != nil && len(p.ClientNetworks) > 0, "desc": map[string]any{"policy": fmt.Sprintf("%+v", p), "client": a.String(), "allows": got}})
		case 2: // Clamp
			p := vC19GenPolicy(r)
			var in *dns.EDNS0_SUBNET
			if r.Intn(25) != 0 {
				in = vC19GenECS(r, p)
			}
			var snap *dns.EDNS0_SUBNET
			if in != nil {
				c := *in
				c.Address = append(net.IP(nil), in.Address...)
				if in.Address == nil {
					c.Address = nil
				}
				snap = &c
			}
			out := p.Clamp(in)
			goFail := ""
			k := "clamp-nil"
			if out != nil {
				k = "clamp-kept"
				if snap != nil && out.SourceNetmask < snap.SourceNetmask {
					k = "clamp-shortened"
				}
				goFail = vC19ForwardedOK(p, snap, out)
			} else if p != nil && snap != nil {
				// completeness: a well-formed option under a sane policy must survive
				if a, ok := vC19AddrOfIP(snap.Address); ok && ((snap.Family == 1 && a.Is4() && p.ForwardV4Max <= 32) || (snap.Family == 2 && a.Is6() && !a.Is4In6() && p.ForwardV6Max <= 128)) && int(snap.SourceNetmask) <= a.BitLen() {
					goFail = "well-formed option dropped"
				}
			}
			if in != nil && snap != nil && (in.SourceNetmask != snap.SourceNetmask || !in.Address.Equal(snap.Address) && len(in.Address) == len(snap.Address) && len(in.Address) > 0) && goFail == "" {
				goFail = "Clamp modified its input"
			}
			tr.emit(map[string]any{"k": k, "coq": fmt.Sprintf("CaseClamp %s %s %s", vC19Policy(p), vC19Ecs(snap), vC19Ecs(out)), "go_fail": goFail,
				"nontrivial": out != nil, "desc": map[string]any{"policy": fmt.Sprintf("%+v", p), "in": fmt.Sprintf("%+v", snap), "out": fmt.Sprintf("%+v", out)}})
		case 3: // ReadResponseScope
			var m *dns.Msg
			var optsCoq = "None"
			var desc []string
			if r.Intn(20) != 0 {
				m = new(dns.Msg)
				m.SetQuestion("example.org.", dns.TypeA)
				nopt := 1
				switch r.Intn(10) {
				case 0:
					nopt = 0
				case 1:
					nopt = 2
				}
				for i := 0; i < nopt; i++ {
					o := &dns.OPT{Hdr: dns.RR_Header{Name: ".", Rrtype: dns.TypeOPT}}
					for j := 1 + r.Intn(3); j > 0; j-- {
						switch r.Intn(4) {
						case 0:
							o.Option = append(o.Option, &dns.EDNS0_NSID{Code: dns.EDNS0NSID, Nsid: "aa"})
						case 1:
							o.Option = append(o.Option, &dns.EDNS0_COOKIE{Code: dns.EDNS0COOKIE, Cookie: "0011223344556677"})
						default:
							e := vC19GenECS(r, nil)
							if r.Intn(4) != 0 {
								e.SourceScope = vC19Uint8(r, 24, 32, 56, 128)
							}
							o.Option = append(o.Option, e)
						}
					}
					m.Extra = append(m.Extra, o)
					if r.Intn(3) == 0 {
						m.Extra = append(m.Extra, &dns.A{Hdr: dns.RR_Header{Name: "x.", Rrtype: dns.TypeA, Class: dns.ClassINET}, A: net.IPv4(1, 2, 3, 4)})
					}
				}
				if sel := m.IsEdns0(); sel != nil {
					optsCoq = "(Some " + vC19Opts(sel.Option) + ")"
					for _, o := range sel.Option {
						desc = append(desc, o.String())
					}
				}
			}
			px, ok := ReadResponseScope(m)
			goFail := ""
			if ok != px.IsValid() {
				goFail = "ok flag and prefix validity disagree"
			}
			if ok && (px.Bits() == 0 || px.Masked() != px) && goFail == "" {
				goFail = "scope /0 or with host bits returned: " + px.String()
			}
			k := "scope-none"
			if ok {
				k = "scope-some"
			}
			tr.emit(map[string]any{"k": k, "coq": fmt.Sprintf("CaseReadScope %s %s", optsCoq, vC19Pfx(px)), "go_fail": goFail, "nontrivial": ok,
				"desc": map[string]any{"opt": desc, "scope": px.String()}})
		case 4: // ClampScope
			p := vC19GenPolicy(r)
			scope, source := netip.Prefix{}, netip.Prefix{}
			if r.Intn(12) != 0 {
				scope = vC19RandPrefix(r)
				if r.Intn(2) == 0 {
					scope = scope.Masked()
				}
			}
			if r.Intn(6) != 0 {
				source = vC19RandPrefix(r).Masked()
				if scope.IsValid() && r.Intn(3) != 0 { // usual shape: same family, source around the ceilings
					a := scope.Addr()
					ceil := 24
					if a.Is6() {
						ceil = 56
					}
					if p != nil {
						ceil = int(p.ForwardV4Max)
						if a.Is6() {
							ceil = int(p.ForwardV6Max)
						}
					}
					b := ceil - r.Intn(3)
					if r.Intn(3) == 0 {
						b = r.Intn(a.BitLen() + 1)
					}
					if b < 0 {
						b = 0
					}
					if b > a.BitLen() {
						b = a.BitLen()
					}
					source, _ = a.Prefix(b)
				}
			}
			got := p.ClampScope(scope, source)
			goFail := ""
			if p != nil && scope.IsValid() {
				floor := int(p.MinScopeV4)
				if !scope.Addr().Is4() {
					floor = int(p.MinScopeV6)
				}
				want := scope.Bits()
				if source.IsValid() && source.Bits() < want {
					want = source.Bits()
				}
				if floor < want {
					want = floor
				}
				wp, _ := scope.Addr().Prefix(want)
				if got != wp {
					goFail = fmt.Sprintf("ClampScope(%s, %s) = %s, independent min/mask gives %s", scope, source, got, wp)
				}
			} else if got != scope {
				goFail = "nil policy / invalid scope must return the input"
			}
			k := "clampscope-same"
			if got.IsValid() && scope.IsValid() && got.Bits() < scope.Bits() {
				k = "clampscope-widened"
			}
			tr.emit(map[string]any{"k": k, "coq": fmt.Sprintf("CaseClampScope %s %s %s %s", vC19Policy(p), vC19Pfx(scope), vC19Pfx(source), vC19Pfx(got)),
				"go_fail": goFail, "nontrivial": p != nil && scope.IsValid(),
				"desc": map[string]any{"policy": fmt.Sprintf("%+v", p), "scope": scope.String(), "source": source.String(), "clamped": got.String()}})
		}
	}
}
