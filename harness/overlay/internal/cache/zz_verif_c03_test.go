//go:build verif

package cache

// C03 correspondence driver for the key functions (overlay-injected, never
// committed to /repo).
//
// For generated wire names over all 256 label byte values (plus malformed
// wires) it records, per name:
//   - what dns.UnpackDomainName prints (only when re-packing that string
//     yields the same bytes, i.e. the wire is the plain uncompressed form);
//   - the PREIMAGE the production key functions hashed, observed through the
//     hasher's own chunk buffer (wire path) or witnessed by xxhash equality
//     against the production result (both paths);
//   - WireNameEqualsPresentation against related and unrelated strings.
// Go-side oracles: equalities between Key / KeyString / KeySimple /
// KeyWithPrefix / KeyWire / KeyWireWithPrefix on related inputs, inequalities
// on unrelated ones.

import (
	"encoding/json"
	"fmt"
	"math/rand"
	"net/netip"
	"os"
	"strconv"
	"strings"
	"testing"

	"github.com/cespare/xxhash/v2"
	"github.com/miekg/dns"
)

type vC03Trace struct{ f *os.File }

func vC03Open(t *testing.T) *vC03Trace {
	p := os.Getenv("VERIF_OUT")
	if p == "" {
		t.Skip("VERIF_OUT not set")
	}
	f, err := os.Create(p)
	if err != nil {
		t.Fatal(err)
	}
	return &vC03Trace{f: f}
}

func (v *vC03Trace) emit(m map[string]any) {
	b, _ := json.Marshal(m)
	v.f.Write(append(b, '\n'))
}

func vC03EnvInt(name string, def int) int {
	if s := os.Getenv(name); s != "" {
		if n, err := strconv.Atoi(s); err == nil {
			return n
		}
	}
	return def
}

func vC03Bytes(b []byte) string {
	var sb strings.Builder
	sb.WriteString("[")
	for i, x := range b {
		if i > 0 {
			sb.WriteByte(';')
		}
		sb.WriteString(strconv.Itoa(int(x)))
	}
	sb.WriteString("]%N")
	return sb.String()
}

func vC03OptBytes(b []byte, ok bool) string {
	if !ok {
		return "None"
	}
	return "(Some " + vC03Bytes(b) + ")"
}

func vC03Bool(b bool) string {
	if b {
		return "true"
	}
	return "false"
}

func vC03Scope(p netip.Prefix) string {
	if !p.IsValid() {
		return "None"
	}
	return fmt.Sprintf("(Some (mk_scope %s %d %s))", vC03Bool(p.Addr().Is4()), p.Bits(), vC03Bytes(p.Addr().AsSlice()))
}

// ---- generators

var vC03Specials = []byte{'.', ' ', '\'', '@', ';', '(', ')', '"', '\\'}

func vC03Byte(r *rand.Rand) byte {
	switch r.Intn(10) {
	case 0, 1:
		return byte('a' + r.Intn(26))
	case 2, 3:
		return byte('A' + r.Intn(26))
	case 4:
		return byte('0' + r.Intn(10))
	case 5:
		return vC03Specials[r.Intn(len(vC03Specials))]
	case 6:
		return byte(r.Intn(32)) // control
	case 7:
		return byte(127 + r.Intn(129)) // DEL and high half
	case 8:
		// neighbours of the fold / escape boundaries
		return []byte{'@', 'A', 'Z', '[', '`', 'a', 'z', '{', 31, 32, 33, 126, 127, 128, 255, 0, '-', '_', 0xC0, 0x40, 0x80, 4, 6}[r.Intn(23)]
	default:
		return byte(r.Intn(256))
	}
}

func vC03Label(r *rand.Rand, n int) []byte {
	l := make([]byte, n)
	mode := r.Intn(4)
	for i := range l {
		switch mode {
		case 0: // hostname-like
			l[i] = byte("abcdefghijklmnopqrstuvwxyzABCDEFGHIJKLMNOPQRSTUVWXYZ0123456789-"[r.Intn(63)])
		default:
			l[i] = vC03Byte(r)
		}
	}
	return l
}

func vC03Wire(labels [][]byte) []byte {
	var w []byte
	for _, l := range labels {
		w = append(w, byte(len(l)))
		w = append(w, l...)
	}
	return append(w, 0)
}

func vC03Labels(r *rand.Rand) [][]byte {
	switch r.Intn(24) {
	case 0:
		return nil // root
	case 1: // one maximal label
		return [][]byte{vC03Label(r, 63)}
	case 2: // exactly 255 octets: 3*64 + 62 + 1
		return [][]byte{vC03Label(r, 63), vC03Label(r, 63), vC03Label(r, 63), vC03Label(r, 61)}
	case 3: // 256 octets: one too many
		return [][]byte{vC03Label(r, 63), vC03Label(r, 63), vC03Label(r, 63), vC03Label(r, 62)}
	case 4: // many one-byte labels
		n := 100 + r.Intn(28)
		ls := make([][]byte, n)
		for i := range ls {
			ls[i] = vC03Label(r, 1)
		}
		return ls
	case 5: // long-ish
		n := 2 + r.Intn(5)
		ls := make([][]byte, n)
		for i := range ls {
			ls[i] = vC03Label(r, 1+r.Intn(30))
		}
		return ls
	}
	n := 1 + r.Intn(4)
	ls := make([][]byte, n)
	for i := range ls {
		ls[i] = vC03Label(r, 1+r.Intn(7))
	}
	return ls
}

// a well-formed name whose PRESENTATION form (what the decoder prints) is exactly L characters long: labels
// over all byte values (an escaped special costs 2 characters, a non-printable octet 4), the tail filled
// with letters.  Used to walk the preimage length across the sizes the key functions treat specially (the
// pooled 256-byte buffer of Key / KeyWithPrefix, the wire hasher's 192-byte chunk).
func vC03LabelsOfPresLen(r *rand.Rand, L int) [][]byte {
	cost := func(b byte) int {
		switch {
		case isPresentationSpecial(b):
			return 2
		case b < ' ' || b > '~':
			return 4
		}
		return 1
	}
	letter := func() byte { return byte("abcdefghijklmnopqrstuvwxyzABCDEFGHIJKLMNOPQRSTUVWXYZ"[r.Intn(52)]) }
	for try := 0; try < 200; try++ {
		var labels [][]byte
		cur, wire := 0, 1
		ok := true
		plain := try >= 100 || r.Intn(3) == 0 // letters only (254 characters = 255 octets at most)
		for cur < L {
			rem := L - cur
			if rem < 2 {
				ok = false
				break
			}
			var l []byte
			used := 1 // the dot
			max := 1 + r.Intn(63)
			for len(l) < max && used < rem {
				b := vC03Byte(r)
				if plain || used+cost(b) > rem {
					b = letter()
				}
				l = append(l, b)
				used += cost(b)
			}
			if rem-used == 1 { // a single character cannot be a label plus its dot
				if len(l) < 63 {
					l = append(l, letter())
					used++
				} else {
					ok = false
					break
				}
			}
			labels = append(labels, l)
			cur += used
			wire += 1 + len(l)
		}
		if !ok || cur != L || wire > 255 {
			continue
		}
		if s, _, err := dns.UnpackDomainName(vC03Wire(labels), 0); err == nil && len(s) == L {
			return labels
		}
	}
	return nil
}

type vC03LenPlan struct {
	total  int // length of the whole preimage: 5 header octets + name + scope tail
	prefix netip.Prefix
}

// preimage lengths on both sides of 192 (the wire hasher's chunk; scope kinds in turn) and of 256 (the pooled
// buffer of the presentation-side functions): without a scope every length from 249 to 264 (the name alone
// crosses 251 = buffer minus header), with a v4 and with a v6 scope every length from 254 to 263 (name and
// scope tail cross the boundary at different name lengths); the thorough tier runs every combination
func vC03LenPlans(seed int64, thorough bool) []vC03LenPlan {
	prefixes := []netip.Prefix{{}, netip.MustParsePrefix("198.51.0.0/16"), netip.MustParsePrefix("2001:db8:12:3400::/56")}
	var out []vC03LenPlan
	for t := 190; t <= 194; t++ {
		if thorough {
			for _, p := range prefixes {
				out = append(out, vC03LenPlan{t, p})
			}
		} else {
			out = append(out, vC03LenPlan{t, prefixes[(t+int(seed))%3]})
		}
	}
	for t := 249; t <= 264; t++ {
		for i, p := range prefixes {
			if i == 0 || thorough || (t >= 254 && t <= 263) {
				out = append(out, vC03LenPlan{t, p})
			}
		}
	}
	return out
}

// malformed or unusual wires
func vC03Mangle(r *rand.Rand, w []byte) ([]byte, string) {
	w = append([]byte(nil), w...)
	switch r.Intn(10) {
	case 0:
		return nil, "empty"
	case 1:
		return w[:len(w)-1], "no-root"
	case 2:
		return append(w, byte(r.Intn(256))), "trailing"
	case 3:
		if len(w) > 1 {
			return w[:1+r.Intn(len(w)-1)], "truncated"
		}
		return []byte{5, 'a'}, "truncated"
	case 4: // compression pointer in place of the root or a length
		i := 0
		for i < len(w) && w[i] != 0 && r.Intn(2) == 0 {
			i += 1 + int(w[i])
		}
		out := append(append([]byte(nil), w[:i]...), 0xC0, byte(r.Intn(len(w)+1)))
		if r.Intn(2) == 0 {
			out = append(out, w[i:]...)
		}
		return out, "pointer"
	case 5: // reserved label type
		w[0] = w[0] | []byte{0x40, 0x80}[r.Intn(2)]
		return w, "reserved"
	case 6: // pointer into the middle of a label that holds a zero byte (UnpackDomainName accepts it)
		return []byte{2, 0, 'a', 0xC0, 1}, "pointer-mid-label"
	case 7: // length byte 64..191 claims more than is there / reserved
		return append([]byte{byte(64 + r.Intn(128))}, w...), "biglen"
	case 8: // inner zero length then more labels
		return append([]byte{1, 'a', 0}, w...), "inner-root"
	default:
		return []byte{0xC0, 0x00}, "pointer-only"
	}
}

func vC03Prefix(r *rand.Rand) netip.Prefix {
	switch r.Intn(8) {
	case 0, 1, 2:
		return netip.Prefix{}
	case 3: // v4, unmasked host bits kept
		var b [4]byte
		r.Read(b[:])
		return netip.PrefixFrom(netip.AddrFrom4(b), []int{0, 1, 7, 8, 9, 16, 22, 23, 24, 25, 31, 32}[r.Intn(12)])
	case 4: // v4 masked
		var b [4]byte
		r.Read(b[:])
		p, _ := netip.AddrFrom4(b).Prefix(r.Intn(33))
		return p
	case 5: // v6
		var b [16]byte
		r.Read(b[:])
		return netip.PrefixFrom(netip.AddrFrom16(b), []int{0, 1, 8, 24, 32, 48, 55, 56, 57, 64, 96, 127, 128}[r.Intn(13)])
	case 6: // v6 whose leading bytes equal a v4 address
		var b [16]byte
		r.Read(b[:4])
		p, _ := netip.AddrFrom16(b).Prefix(r.Intn(33))
		return p
	default: // 4-in-6 mapped (an IPv6 address for netip)
		var b [4]byte
		r.Read(b[:])
		a := netip.AddrFrom16(netip.AddrFrom4(b).As16())
		return netip.PrefixFrom(a, 96+r.Intn(33))
	}
}

// ---- reference preimage (a witness generator: only accepted when the real hash agrees)

func vC03RefPre(name string, qtype, qclass uint16, cd bool, p netip.Prefix) []byte {
	b := []byte{byte(qclass >> 8), byte(qclass), byte(qtype >> 8), byte(qtype), 0}
	if cd {
		b[4] = 1
	}
	for i := 0; i < len(name); i++ {
		c := name[i]
		if c >= 'A' && c <= 'Z' {
			c += 32
		}
		b = append(b, c)
	}
	if p.IsValid() {
		if p.Addr().Is4() {
			b = append(b, 4)
		} else {
			b = append(b, 6)
		}
		b = append(b, byte(p.Bits()))
		a := p.Addr().AsSlice()
		n := (p.Bits() + 7) / 8
		if n > len(a) {
			n = len(a)
		}
		b = append(b, a[:n]...)
	}
	return b
}

// the wire path's preimage read from the production hasher's own buffer:
// KeyWireWithPrefix's statements replayed on a wireKeyHasher, the chunk read
// before sum() (only complete while nothing was flushed: <= 192 bytes).
func vC03ObserveWire(w []byte, qtype, qclass uint16, cd bool, p netip.Prefix) ([]byte, bool, bool) {
	var h wireKeyHasher
	h.init()
	h.writeHeader(qtype, qclass, cd)
	if !h.writeWireName(w) {
		return nil, false, true
	}
	if p.IsValid() {
		a := p.Addr().AsSlice()
		if p.Addr().Is4() {
			h.writeByte(4)
		} else {
			h.writeByte(6)
		}
		n := (p.Bits() + 7) / 8
		if n > len(a) {
			n = len(a)
		}
		h.writeByte(byte(p.Bits()))
		for _, b := range a[:n] {
			h.writeByte(b)
		}
	}
	if h.digest.Sum64() != func() uint64 { var d xxhash.Digest; d.Reset(); return d.Sum64() }() {
		return nil, true, false // something was flushed: the chunk is only the tail
	}
	return append([]byte(nil), h.chunk[:h.n]...), true, true
}

func vC03MixCase(r *rand.Rand, s string) string {
	b := []byte(s)
	for i := range b {
		if r.Intn(2) == 0 {
			if b[i] >= 'a' && b[i] <= 'z' {
				b[i] -= 32
			} else if b[i] >= 'A' && b[i] <= 'Z' {
				b[i] += 32
			}
		}
	}
	return string(b)
}

var vC03Types = []uint16{1, 2, 5, 6, 15, 16, 28, 43, 48, 255, 0, 65535, 256, 257}
var vC03Classes = []uint16{1, 1, 1, 3, 4, 254, 255, 0, 256, 65535}

// exhaustive small scope (thorough tier): every name of at most two labels, each of one or two octets over
// {'a', 'A', '.'} (a case pair and an octet whose printed form is an escape holding the label separator), plus
// the root, x two types x both CD bits x {no scope, 203.0.112.0/22, 203.0.112.0/24} (two lengths over the
// same byte-rounded address): the preimage the production wire hasher is fed, the hash of the presentation
// path on the printed name, and — Go-side — no two different questions with one preimage.
func vC03InjectivityCase() map[string]any {
	alphabet := []byte{'a', 'A', '.'}
	var labels [][]byte
	for _, x := range alphabet {
		labels = append(labels, []byte{x})
	}
	for _, x := range alphabet {
		for _, y := range alphabet {
			labels = append(labels, []byte{x, y})
		}
	}
	names := [][][]byte{{}}
	for _, l := range labels {
		names = append(names, [][]byte{l})
	}
	for _, l1 := range labels {
		for _, l2 := range labels {
			names = append(names, [][]byte{l1, l2})
		}
	}
	scopes := []netip.Prefix{{}, netip.MustParsePrefix("203.0.112.0/22"), netip.MustParsePrefix("203.0.112.0/24")}
	goFail := ""
	fail := func(f string, a ...any) {
		if goFail == "" {
			goFail = fmt.Sprintf(f, a...)
		}
	}
	byPre := map[string]string{}
	byKey := map[uint64]string{}
	byIdent := map[string]string{}
	var items []string
	for _, ls := range names {
		w := vC03Wire(ls)
		pres, _, err := dns.UnpackDomainName(w, 0)
		if err != nil {
			fail("UnpackDomainName(%v): %v", w, err)
			continue
		}
		for _, qtype := range []uint16{1, 28} {
			for _, cd := range []bool{false, true} {
				for _, sc := range scopes {
					hw, ok := KeyWireWithPrefix(w, qtype, 1, cd, sc)
					identK := fmt.Sprintf("%s|%d|%v|%v", strings.ToLower(pres), qtype, cd, sc)
					if other, dup := byKey[hw]; dup && other != identK {
						fail("questions %s and %s share the production key %#x", other, identK, hw)
					}
					byKey[hw] = identK
					obs, ok2, complete := vC03ObserveWire(w, qtype, 1, cd, sc)
					if !ok || !ok2 || !complete || xxhash.Sum64(obs) != hw {
						fail("KeyWireWithPrefix(%v, %d, cd=%v, %v): preimage not observable", w, qtype, cd, sc)
						continue
					}
					if hp := KeyWithPrefix(dns.Question{Name: pres, Qtype: qtype, Qclass: 1}, cd, sc); hp != hw {
						fail("presentation key of %q differs from the wire key of %v", pres, w)
					}
					ident := fmt.Sprintf("%s|%d|%v|%v", strings.ToLower(pres), qtype, cd, sc)
					if other, dup := byPre[string(obs)]; dup && other != ident {
						fail("questions %s and %s share the preimage %v", other, ident, obs)
					}
					byPre[string(obs)] = ident
					if other, dup := byIdent[ident]; dup && other != string(obs) {
						fail("question %s has two preimages", ident)
					}
					byIdent[ident] = string(obs)
					items = append(items, fmt.Sprintf("(%s, %d%%N, 1%%N, %s, %s, %s)", vC03Bytes(w), qtype, vC03Bool(cd), vC03Scope(sc), vC03Bytes(obs)))
				}
			}
		}
	}
	return map[string]any{
		"k":          "inj-exhaustive",
		"coq":        fmt.Sprintf("CaseInj [%s]", strings.Join(items, "; ")),
		"go_fail":    goFail,
		"nontrivial": len(items) > 1000,
		"desc":       map[string]any{"questions": len(items), "distinct preimages": len(byPre), "distinct questions": len(byIdent)},
	}
}

// ---- dns.UnpackDomainName on its own: the decoder whose output is the presentation text the key functions see.
// The model's unpack_name runs the TRANSLATED label-printing loop of this very function; these cases compare the
// whole walk (text, offset after the name, error or not) on plain names, names inside a message, compression
// pointers (backward into an earlier name, forward, into the middle of a label, chains on both sides of
// maxCompressionPointers, loops), names whose labels summed over pointer jumps exceed the 255-octet budget, and
// malformed wires.
func vC03UnpackOne(kind string, msg []byte, off int) map[string]any {
	s, o, err := dns.UnpackDomainName(msg, off)
	out := "None"
	if err == nil {
		out = fmt.Sprintf("(Some (%s, %d%%N))", vC03Bytes([]byte(s)), o)
	}
	errs := ""
	if err != nil {
		errs = err.Error()
	}
	goFail := ""
	// Go-side ground truth for generated plain names: the decoder consumes exactly the name
	if kind == "unpack-plain" && (err != nil || o != len(msg)) {
		if len(msg)-off <= 255 {
			goFail = fmt.Sprintf("UnpackDomainName(%v, %d) = %q, %d, %v on a plain well-formed name", msg, off, s, o, err)
		}
	}
	return map[string]any{
		"k":          kind,
		"coq":        fmt.Sprintf("CaseUnpack %s %d %s", vC03Bytes(msg), off, out),
		"go_fail":    goFail,
		"nontrivial": err == nil && len(s) > 1,
		"desc":       map[string]any{"msg": fmt.Sprintf("%v", msg), "off": off, "text": s, "next": o, "err": errs},
	}
}

func vC03ShortLabels(r *rand.Rand) [][]byte {
	n := 1 + r.Intn(3)
	ls := make([][]byte, n)
	for i := range ls {
		ls[i] = vC03Label(r, 1+r.Intn(5))
	}
	return ls
}

func vC03UnpackCases(r *rand.Rand, n int, emit func(map[string]any)) {
	// fixed boundary cases, every run: pointer chains of 125..128 hops ending at the root, a pointer onto
	// itself, a two-pointer loop, a label loop that exhausts the budget before the pointer limit
	for _, hops := range []int{1, 125, 126, 127, 128} {
		var msg []byte
		for i := 0; i < hops; i++ {
			msg = append(msg, 0xC0|byte((2*(i+1))>>8), byte(2*(i+1)))
		}
		msg = append(msg, 0)
		emit(vC03UnpackOne("unpack-chain", msg, 0))
	}
	emit(vC03UnpackOne("unpack-loop", []byte{0xC0, 0x00}, 0))
	emit(vC03UnpackOne("unpack-loop", []byte{0xC0, 0x02, 0xC0, 0x00}, 0))
	for _, l := range []int{1, 2, 63} {
		msg := append([]byte{byte(l)}, vC03Label(r, l)...)
		msg = append(msg, 0xC0, 0x00)
		emit(vC03UnpackOne("unpack-budget", msg, 0))
	}
	// total label octets over pointer jumps on both sides of the budget: k labels of one octet walked twice
	for _, k := range []int{62, 63, 64} {
		var msg []byte
		for i := 0; i < k; i++ {
			msg = append(msg, 1, byte('a'+i%26))
		}
		msg = append(msg, 0) // first name: k labels
		start := len(msg)
		for i := 0; i < k; i++ {
			msg = append(msg, 1, byte('A'+i%26))
		}
		msg = append(msg, 0xC0, 0) // second name: k labels, then the first name again
		emit(vC03UnpackOne("unpack-budget", msg, start))
	}
	for c := 0; c < n; c++ {
		switch r.Intn(8) {
		case 0, 1: // plain name at offset 0
			w := vC03Wire(vC03Labels(r))
			emit(vC03UnpackOne("unpack-plain", w, 0))
		case 2: // plain name behind other octets, read to the end of the message
			pre := vC03Label(r, 1+r.Intn(12))
			w := append(append([]byte(nil), pre...), vC03Wire(vC03ShortLabels(r))...)
			emit(vC03UnpackOne("unpack-plain", w, len(pre)))
		case 3: // plain name followed by more octets
			w := append(vC03Wire(vC03ShortLabels(r)), vC03Label(r, 1+r.Intn(6))...)
			emit(vC03UnpackOne("unpack-trailing", w, 0))
		case 4, 5: // a message with one name and a second one that ends in a pointer into the first
			pre := vC03Label(r, r.Intn(13))
			first := vC03ShortLabels(r)
			msg := append(append([]byte(nil), pre...), vC03Wire(first)...)
			// targets: a label boundary of the first name, its root octet, or an arbitrary octet before
			target := len(pre)
			switch r.Intn(4) {
			case 0:
				k := r.Intn(len(first) + 1)
				for i := 0; i < k; i++ {
					target += 1 + len(first[i])
				}
			case 1:
				target = len(msg) - 1
			case 2:
				target = r.Intn(len(msg))
			}
			start := len(msg)
			var own [][]byte
			if r.Intn(4) != 0 {
				own = vC03ShortLabels(r)
			}
			second := vC03Wire(own)
			second = second[:len(second)-1]
			msg = append(msg, second...)
			msg = append(msg, 0xC0|byte(target>>8), byte(target))
			if r.Intn(3) == 0 {
				msg = append(msg, vC03Label(r, 1+r.Intn(4))...)
			}
			emit(vC03UnpackOne("unpack-pointer", msg, start))
		case 6: // forward pointer / pointer past the end / offset at or past the end
			w := vC03Wire(vC03ShortLabels(r))
			switch r.Intn(3) {
			case 0:
				msg := append([]byte{0xC0, 2}, w...)
				emit(vC03UnpackOne("unpack-forward", msg, 0))
			case 1:
				msg := append([]byte{0xC0 | byte(r.Intn(64)), byte(r.Intn(256))}, w...)
				emit(vC03UnpackOne("unpack-forward", msg, 0))
			default:
				emit(vC03UnpackOne("unpack-offset", w, len(w)+r.Intn(2)))
			}
		default: // malformed wires of the key cases
			w, kind := vC03Mangle(r, vC03Wire(vC03Labels(r)))
			emit(vC03UnpackOne("unpack-"+kind, w, 0))
		}
	}
}

// exhaustive small scope (thorough tier): every message of at most four octets over {0, 1, 2, 'a', '.', 0x40,
// 0xC0, 0xC1} — the root, two label lengths, a letter, the octet that prints escaped, a reserved label type and
// two pointer octets — read at offset 0, and the four-octet ones also at offset 1: 4680 + 4096 walks of the
// decoder's outer loop (the hand-written part of the model) through every short combination of labels, pointers
// (backward, forward, onto themselves), truncations and reserved types
func vC03UnpackExhaustive(emit func(map[string]any)) {
	alphabet := []byte{0, 1, 2, 'a', '.', 0x40, 0xC0, 0xC1}
	var rec func(msg []byte)
	rec = func(msg []byte) {
		if len(msg) > 0 {
			emit(vC03UnpackOne("unpack-exhaustive", append([]byte(nil), msg...), 0))
			if len(msg) == 4 {
				emit(vC03UnpackOne("unpack-exhaustive", append([]byte(nil), msg...), 1))
			}
		}
		if len(msg) == 4 {
			return
		}
		for _, x := range alphabet {
			rec(append(msg, x))
		}
	}
	rec(nil)
}

func TestVerifC03Keys(t *testing.T) {
	tr := vC03Open(t)
	defer tr.f.Close()
	if os.Getenv("VERIF_TIER") == "thorough" {
		tr.emit(vC03InjectivityCase())
		vC03UnpackExhaustive(tr.emit)
	}
	seed := int64(vC03EnvInt("VERIF_SEED", 1))
	n := vC03EnvInt("VERIF_N", 1200)
	r := rand.New(rand.NewSource(seed))
	plans := vC03LenPlans(seed, os.Getenv("VERIF_TIER") == "thorough")
	vC03UnpackCases(rand.New(rand.NewSource(seed^0x5eed)), n/4, tr.emit)

	for c := 0; c < n+len(plans); c++ {
		labels := vC03Labels(r)
		w := vC03Wire(labels)
		kind := "wf"
		if r.Intn(6) == 0 {
			w, kind = vC03Mangle(r, w)
		}
		qtype := vC03Types[r.Intn(len(vC03Types))]
		qclass := vC03Classes[r.Intn(len(vC03Classes))]
		cd := r.Intn(2) == 0
		prefix := vC03Prefix(r)
		if c < len(plans) {
			// the name's printed length chosen so that the whole preimage has the planned length
			pl := plans[c]
			tail := 0
			if pl.prefix.IsValid() {
				tail = 2 + (pl.prefix.Bits()+7)/8
			}
			ls := vC03LabelsOfPresLen(r, pl.total-5-tail)
			if ls == nil {
				continue
			}
			labels, w, kind, prefix = ls, vC03Wire(ls), "wf-len", pl.prefix
		}

		// presentation form as the library prints it; only when w is the plain uncompressed encoding of it
		pres, presOK := "", false
		if len(w) > 0 {
			if s, off, err := dns.UnpackDomainName(w, 0); err == nil && off == len(w) {
				buf := make([]byte, 300)
				if o2, err2 := dns.PackDomainName(s, buf, 0, nil, false); err2 == nil && string(buf[:o2]) == string(w) {
					pres, presOK = s, true
				}
			}
		}

		goFail := ""
		fail := func(f string, a ...any) {
			if goFail == "" {
				goFail = fmt.Sprintf(f, a...)
			}
		}

		// --- wire path
		hw, okw := KeyWireWithPrefix(w, qtype, qclass, cd, prefix)
		var pWire []byte
		pWireOK := false
		if okw {
			if obs, ok2, complete := vC03ObserveWire(w, qtype, qclass, cd, prefix); ok2 && complete && xxhash.Sum64(obs) == hw {
				pWire, pWireOK = obs, true
			} else if presOK {
				if ref := vC03RefPre(pres, qtype, qclass, cd, prefix); xxhash.Sum64(ref) == hw {
					pWire, pWireOK = ref, true
				}
			}
			if !pWireOK {
				fail("KeyWireWithPrefix(%v) = %#x: no preimage could be witnessed (not the hash of the presentation preimage of %q)", w, hw, pres)
			}
			if !prefix.IsValid() {
				if h2, ok2 := KeyWire(w, qtype, qclass, cd); !ok2 || h2 != hw {
					fail("KeyWireWithPrefix(invalid prefix) != KeyWire for %v", w)
				}
			}
		} else if _, ok2 := KeyWire(w, qtype, qclass, cd); ok2 {
			fail("KeyWire accepts %v but KeyWireWithPrefix refuses", w)
		}

		// --- presentation path
		var pPres []byte
		pPresOK := false
		if presOK {
			q := dns.Question{Name: pres, Qtype: qtype, Qclass: qclass}
			hp := KeyWithPrefix(q, cd, prefix)
			if ref := vC03RefPre(pres, qtype, qclass, cd, prefix); xxhash.Sum64(ref) == hp {
				pPres, pPresOK = ref, true
			} else if pWireOK && xxhash.Sum64(pWire) == hp {
				pPres, pPresOK = pWire, true
			} else {
				fail("KeyWithPrefix(%q): no preimage could be witnessed", pres)
			}
			// equalities between the presentation entry points
			if !prefix.IsValid() {
				if Key(q, cd) != hp || KeyString(pres, qtype, qclass, cd) != hp || KeySimple(q, cd) != hp {
					fail("Key/KeyString/KeySimple/KeyWithPrefix(invalid) disagree on %q", pres)
				}
				if !cd && Key(q) != hp {
					fail("Key(q) without cd argument differs from Key(q,false) on %q", pres)
				}
			}
			// case-insensitive (ASCII), wire == presentation
			mixed := vC03MixCase(r, pres)
			if KeyWithPrefix(dns.Question{Name: mixed, Qtype: qtype, Qclass: qclass}, cd, prefix) != hp {
				fail("case mix %q keys differently from %q", mixed, pres)
			}
			if okw && hw != hp {
				fail("wire key %#x != presentation key %#x for %q", hw, hp, pres)
			}
			// related but different inputs must key differently
			if KeyWithPrefix(q, !cd, prefix) == hp {
				fail("CD does not separate keys for %q", pres)
			}
			if KeyWithPrefix(dns.Question{Name: pres, Qtype: qtype + 1, Qclass: qclass}, cd, prefix) == hp ||
				KeyWithPrefix(dns.Question{Name: pres, Qtype: qtype, Qclass: qclass + 1}, cd, prefix) == hp ||
				KeyWithPrefix(dns.Question{Name: pres, Qtype: qclass, Qclass: qtype}, cd, prefix) == hp && qtype != qclass {
				fail("type/class do not separate keys for %q", pres)
			}
			if prefix.IsValid() {
				if KeyWithPrefix(q, cd, netip.Prefix{}) == hp {
					fail("scoped and shared keys coincide for %q %v", pres, prefix)
				}
				if prefix.Bits() > 0 {
					if wider := netip.PrefixFrom(prefix.Addr(), prefix.Bits()-1); KeyWithPrefix(q, cd, wider) == hp {
						fail("/%d and /%d of %v share a key", prefix.Bits(), prefix.Bits()-1, prefix.Addr())
					}
				}
				if prefix.Addr().Is4() { // same leading bytes, other family
					var b [16]byte
					copy(b[:], prefix.Addr().AsSlice())
					if other := netip.PrefixFrom(netip.AddrFrom16(b), prefix.Bits()); KeyWithPrefix(q, cd, other) == hp {
						fail("v4 and v6 scopes with equal leading bytes share a key: %v", prefix)
					}
				}
			}
		}

		tr.emit(map[string]any{
			"k": "key-" + kind,
			"coq": fmt.Sprintf("CaseKey %s %s %d %d %s %s %s %s", vC03Bytes(w), vC03OptBytes([]byte(pres), presOK),
				qtype, qclass, vC03Bool(cd), vC03Scope(prefix), vC03OptBytes(pPres, pPresOK), vC03OptBytes(pWire, pWireOK)),
			"go_fail":    goFail,
			"nontrivial": presOK && len(labels) > 0,
			"desc":       map[string]any{"wire": fmt.Sprintf("%v", w), "pres": pres, "pres_ok": presOK, "wire_ok": okw, "qtype": qtype, "qclass": qclass, "cd": cd, "prefix": prefix.String()},
		})

		// --- Key over arbitrary presentation strings (not necessarily what Unpack prints)
		if c%4 == 0 {
			var name string
			pick := r.Intn(4)
			if kind == "wf-len" {
				pick = 0
			}
			switch pick {
			case 0:
				name = pres
			case 1: // raw bytes, no escaping
				name = string(vC03Label(r, 1+r.Intn(12))) + "."
			case 2: // > 251 bytes: the pooled buffer's heap fallback
				name = strings.Repeat(string(vC03Label(r, 7))+".", 40)
			default:
				name = vC03MixCase(r, "ExAmPlE-"+strconv.Itoa(r.Intn(1000))+".Test.")
			}
			q := dns.Question{Name: name, Qtype: qtype, Qclass: qclass}
			hp := KeyWithPrefix(q, cd, prefix)
			ref := vC03RefPre(name, qtype, qclass, cd, prefix)
			gf := ""
			if xxhash.Sum64(ref) != hp {
				gf = fmt.Sprintf("KeyWithPrefix(%q,%v): preimage not witnessed", name, prefix)
			}
			if !prefix.IsValid() && (KeyString(name, qtype, qclass, cd) != hp || Key(q, cd) != hp) {
				gf = fmt.Sprintf("Key/KeyString/KeyWithPrefix(invalid) disagree on %q", name)
			}
			tr.emit(map[string]any{
				"k":          "keystr",
				"coq":        fmt.Sprintf("CaseKeyStr %s %d %d %s %s %s", vC03Bytes([]byte(name)), qtype, qclass, vC03Bool(cd), vC03Scope(prefix), vC03Bytes(ref)),
				"go_fail":    gf,
				"nontrivial": len(name) > 1,
				"desc":       map[string]any{"name": name, "qtype": qtype, "qclass": qclass, "cd": cd, "prefix": prefix.String()},
			})
		}

		// --- WireNameEqualsPresentation
		if c%2 == 0 && kind != "wf-len" {
			var cands []string
			if presOK {
				cands = append(cands, pres, vC03MixCase(r, pres), strings.ToUpper(pres), strings.ToLower(pres))
				if len(pres) > 1 {
					cands = append(cands, pres[:len(pres)-1], pres[1:], pres+".", pres+"a.", "a."+pres)
					b := []byte(pres)
					i := r.Intn(len(b))
					b[i] ^= byte(1 << uint(r.Intn(8)))
					cands = append(cands, string(b))
					// other spellings of the same octets
					cands = append(cands, strings.Replace(pres, "a", "\\097", 1), strings.Replace(pres, "\\.", ".", 1), strings.Replace(pres, "\\ ", " ", 1))
					// broader-than-ASCII folds: Kelvin sign for k, long s for s, dotless/dotted i
					cands = append(cands, strings.Replace(strings.ToLower(pres), "k", "K", 1), strings.Replace(strings.ToLower(pres), "s", "ſ", 1))
					// '@' vs '`', '[' vs '{' (one bit from the letter range)
					cands = append(cands, strings.Map(func(x rune) rune {
						if x == '@' {
							return '`'
						}
						if x == '[' {
							return '{'
						}
						return x
					}, pres))
				}
			}
			other := vC03Wire(vC03Labels(r))
			if s, _, err := dns.UnpackDomainName(other, 0); err == nil {
				cands = append(cands, s)
			}
			cands = append(cands, "", ".", string(w))
			var tests, tdesc []string
			eqFail := ""
			seen := map[string]bool{}
			for _, s := range cands {
				if seen[s] || len(s) > 300 {
					continue
				}
				seen[s] = true
				got := WireNameEqualsPresentation(w, s)
				tests = append(tests, fmt.Sprintf("(%s, %s)", vC03Bytes([]byte(s)), vC03Bool(got)))
				tdesc = append(tdesc, fmt.Sprintf("%q=%v", s, got))
				if got && presOK && !strings.EqualFold(s, pres) && eqFail == "" {
					eqFail = fmt.Sprintf("WireNameEqualsPresentation(%v, %q) true but the name prints as %q", w, s, pres)
				}
				if !got && presOK && s == pres && eqFail == "" {
					eqFail = fmt.Sprintf("WireNameEqualsPresentation(%v, %q) false on the name's own printed form", w, s)
				}
			}
			if len(w) > 200 && len(tests) > 6 {
				tests, tdesc = tests[:6], tdesc[:6]
			}
			tr.emit(map[string]any{
				"k":          "eq-" + kind,
				"coq":        fmt.Sprintf("CaseEq %s [%s]", vC03Bytes(w), strings.Join(tests, "; ")),
				"go_fail":    eqFail,
				"nontrivial": presOK,
				"desc":       map[string]any{"wire": fmt.Sprintf("%v", w), "tests": tdesc},
			})
		}
	}
}
