//go:build verif

package cache

// C16 correspondence driver (overlay-injected, never committed to /repo).
//
// Part 1 (TestVerifC16Tab):  operation histories on UInt64Map — the probing
//   table itself — over colliding / clustered / wrap-around / sequential /
//   random / tiny / zero keys (colliding keys are built by inverting the
//   slot hash, so they collide at every table size up to 2^16), table sizes
//   8..4096 incl. growth.  After every operation: result, Len() and a digest
//   of the whole slot array + growAt (read from m.data directly); at the end
//   the full slot array.  A Go map is the reference (go_fail oracle) and every
//   reference key is re-read after every mutation.
// Part 2 (TestVerifC16Seg):  histories through SegmentUInt64Map and through
//   cache.Cache (Add/Get/Remove/CompareAndSwap/CompareAndDelete/ForEach/Len),
//   plus Go-side-only parts: goroutine stress (Len == reachable entries at
//   quiescence, no aliasing), growth of a table beyond 2^20 slots, and the
//   two scheduled interleavings that are recorded findings.

import (
	"encoding/json"
	"fmt"
	"math/rand"
	"os"
	"reflect"
	"runtime"
	"sort"
	"strconv"
	"strings"
	"sync"
	"sync/atomic"
	"testing"
	"time"
	"unsafe"
)

// ------------------------------------------------------------------ plumbing

type vC16Trace struct{ f *os.File }

func vC16Open(t *testing.T) *vC16Trace {
	p := os.Getenv("VERIF_OUT")
	if p == "" {
		t.Skip("VERIF_OUT not set")
	}
	f, err := os.Create(p)
	if err != nil {
		t.Fatal(err)
	}
	return &vC16Trace{f: f}
}

func (v *vC16Trace) emit(m map[string]any) {
	b, _ := json.Marshal(m)
	v.f.Write(append(b, '\n'))
}

func vC16EnvInt(name string, def int) int {
	if s := os.Getenv(name); s != "" {
		if n, err := strconv.Atoi(s); err == nil {
			return n
		}
	}
	return def
}

func vC16Z(v int64) string {
	if v < 0 {
		return fmt.Sprintf("(%d)", v)
	}
	return fmt.Sprintf("%d", v)
}

func vC16Opt(v uint64, ok bool) string {
	if ok {
		return fmt.Sprintf("(Some %d%%N)", v)
	}
	return "None"
}

func vC16NList(l []uint64) string {
	if len(l) == 0 {
		return "[]"
	}
	s := make([]string, len(l))
	for i, x := range l {
		s[i] = strconv.FormatUint(x, 10)
	}
	return "[" + strings.Join(s, ";") + "]%N"
}

type vC16Pair struct{ k, v uint64 }

func vC16PList(l []vC16Pair) string {
	if len(l) == 0 {
		return "[]"
	}
	s := make([]string, len(l))
	for i, x := range l {
		s[i] = fmt.Sprintf("(%d,%d)", x.k, x.v)
	}
	return "[" + strings.Join(s, ";") + "]%N"
}

// ------------------------------------------------------- hash inversion

var vC16MulInv = func() uint64 {
	a := uint64(0x9E3779B9)
	x := a // a*a = 1 mod 8
	for i := 0; i < 6; i++ {
		x *= 2 - a*x
	}
	return x
}()

// a key whose mixed hash (h ^ h>>16, h = k*0x9E3779B9) is t — if the code's
// constants are the ones this file knows; callers verify with primaryIndex.
func vC16InvMix(t uint64) uint64 {
	h := t ^ (t >> 16) ^ (t >> 32) ^ (t >> 48)
	return h * vC16MulInv
}

var vC16Probe = &UInt64Map[uint64]{mask: 0xFFFF}

// key whose home slot is (t & mask) for every mask <= 0xFFFF; hi varies the key
func vC16KeyAt(r *rand.Rand, t uint64) uint64 {
	for tries := 0; tries < 1<<22; tries++ {
		k := vC16InvMix(uint64(r.Uint32())<<32 | uint64(r.Intn(1<<16))<<16 | (t & 0xFFFF))
		if tries > 4 {
			k = r.Uint64() // constants differ from the ones known here: search
		}
		if k != 0 && vC16Probe.primaryIndex(k) == int(t&0xFFFF) {
			return k
		}
	}
	return r.Uint64() | 1
}

// ------------------------------------------------------------ table driver

const vC16DigP = 1099511628211

func vC16Digest(m *UInt64Map[uint64]) uint64 {
	acc := uint64(14695981039346656037) + uint64(len(m.data))*1000003 + uint64(m.growAt)
	for _, p := range m.data {
		acc = acc*vC16DigP + p.Key
		acc = acc*vC16DigP + p.Value
	}
	return acc
}

// structural oracle: slot array free of duplicates, size consistent, every
// reference entry reachable with its value, nothing else reachable
func vC16TabOracle(m *UInt64Map[uint64], ref map[uint64]uint64) string {
	if m.Len() != len(ref) {
		return fmt.Sprintf("Len()=%d but reference holds %d entries", m.Len(), len(ref))
	}
	seen := make(map[uint64]bool, len(ref))
	occ := 0
	for i, p := range m.data {
		if p.Key == 0 {
			if p.Value != 0 {
				return fmt.Sprintf("empty slot %d keeps value %d", i, p.Value)
			}
			continue
		}
		occ++
		if seen[p.Key] {
			return fmt.Sprintf("key %d stored twice in the slot array", p.Key)
		}
		seen[p.Key] = true
		if _, ok := ref[p.Key]; !ok {
			return fmt.Sprintf("slot %d holds key %d which the reference does not contain", i, p.Key)
		}
	}
	z := 0
	if m.hasZeroKey {
		z = 1
	}
	if occ+z != m.size {
		return fmt.Sprintf("size=%d but %d occupied slots + %d zero key", m.size, occ, z)
	}
	for k, v := range ref {
		got, ok := m.Get(k)
		if !ok || got != v {
			return fmt.Sprintf("Get(%d)=(%d,%v) but reference says %d (unreachable/aliased entry)", k, got, ok, v)
		}
		if !m.Has(k) {
			return fmt.Sprintf("Has(%d)=false for a stored key", k)
		}
	}
	return ""
}

type vC16KeyGen struct {
	r    *rand.Rand
	pool []uint64
	kind string
}

func vC16NewKeyGen(r *rand.Rand, kind string, n int) *vC16KeyGen {
	g := &vC16KeyGen{r: r, kind: kind}
	base := uint64(r.Intn(1 << 16))
	switch r.Intn(4) {
	case 0:
		base = 0xFFFC + uint64(r.Intn(4)) // homes at the very end of every table: chains wrap
	case 1:
		base = uint64(r.Intn(8))
	}
	seq := r.Uint64()
	for i := 0; i < n; i++ {
		var k uint64
		switch kind {
		case "collide": // one home slot at every size
			k = vC16KeyAt(r, base)
		case "cluster": // a few adjacent homes, several keys each
			k = vC16KeyAt(r, base+uint64(r.Intn(4)))
		case "wrap": // homes n-2, n-1, 0, 1 of every table size
			k = vC16KeyAt(r, 0xFFFE+uint64(r.Intn(4)))
		case "seq":
			k = seq + uint64(i)
		case "tiny":
			k = uint64(r.Intn(24))
		case "mixed":
			switch r.Intn(4) {
			case 0:
				k = vC16KeyAt(r, base+uint64(r.Intn(3)))
			case 1:
				k = uint64(r.Intn(16))
			case 2:
				k = seq + uint64(r.Intn(32))
			default:
				k = r.Uint64()
			}
		default:
			k = r.Uint64()
		}
		g.pool = append(g.pool, k)
	}
	if r.Intn(3) != 0 {
		g.pool[r.Intn(len(g.pool))] = 0 // the out-of-band zero key
	}
	return g
}

func (g *vC16KeyGen) key() uint64 { return g.pool[g.r.Intn(len(g.pool))] }

var vC16Kinds = []string{"collide", "cluster", "wrap", "seq", "tiny", "mixed", "random"}

func vC16SortedU(l []uint64) []uint64 {
	sort.Slice(l, func(i, j int) bool { return l[i] < l[j] })
	return l
}

// one history on a fresh UInt64Map
func vC16TabHistory(r *rand.Rand, capacity int, kind string, nops int, poolN int, churn bool) map[string]any {
	m := NewUInt64Map[uint64](capacity)
	ref := map[uint64]uint64{}
	g := vC16NewKeyGen(r, kind, poolN)
	n0, g0 := len(m.data), m.growAt
	var steps []string
	goFail := ""
	fail := func(f string, a ...any) {
		if goFail == "" {
			goFail = fmt.Sprintf("op %d: ", len(steps)) + fmt.Sprintf(f, a...)
		}
	}
	grew, shifted, wrapped, evicted := 0, 0, 0, 0
	var desc []string
	for i := 0; i < nops; i++ {
		lenBefore := len(m.data)
		k := g.key()
		v := uint64(r.Intn(1000))
		var op string
		x := r.Intn(100)
		if churn {
			// keep the table close to its growth threshold: long clusters, many shifts
			if m.size < m.growAt-1 {
				x = r.Intn(40)
			} else {
				x = 35 + r.Intn(65)
			}
		}
		mutated := true
		switch {
		case x < 35:
			m.Put(k, v)
			ref[k] = v
			op = fmt.Sprintf("TPut %d %d", k, v)
		case x < 42:
			rv, ins := m.PutIfNotExists(k, v)
			old, had := ref[k]
			if had {
				if ins || rv != old {
					fail("PutIfNotExists(%d,%d)=(%d,%v) but key present with %d", k, v, rv, ins, old)
				}
			} else {
				if !ins || rv != v {
					fail("PutIfNotExists(%d,%d)=(%d,%v) but key absent", k, v, rv, ins)
				}
				ref[k] = v
			}
			op = fmt.Sprintf("TPia %d %d %d %v", k, v, rv, ins)
		case x < 62:
			// find out whether this deletion moves entries (for the coverage figures)
			before := append([]Pair[uint64](nil), m.data...)
			ok := m.Del(k)
			_, had := ref[k]
			if ok != had {
				fail("Del(%d)=%v but reference presence %v", k, ok, had)
			}
			delete(ref, k)
			if ok && k != 0 {
				moves := 0
				for j := range before {
					if before[j].Key != 0 && before[j].Key != k && m.data[j].Key != before[j].Key {
						moves++
						if j == 0 {
							wrapped++
						}
					}
				}
				if moves > 0 {
					shifted++
				}
			}
			op = fmt.Sprintf("TDel %d %v", k, ok)
		case x < 72:
			off := int(r.Int63n(1 << 24))
			if r.Intn(6) == 0 {
				off = -r.Intn(100)
			}
			nmax := r.Intn(4)
			switch r.Intn(8) {
			case 0:
				nmax = -1
			case 1:
				nmax = 5 + r.Intn(40)
			}
			skip := k
			d := m.EvictKeysAt(off, nmax, skip)
			var gone []uint64
			for rk := range ref {
				if !m.Has(rk) {
					gone = append(gone, rk)
				}
			}
			vC16SortedU(gone)
			others := len(ref)
			if _, has := ref[skip]; has {
				others--
			}
			want := nmax
			if want < 0 {
				want = 0
			}
			if others < want {
				want = others
			}
			if d != want || len(gone) != d {
				fail("EvictKeysAt(%d,%d,skip=%d)=%d, %d keys vanished, expected min(n,#others)=%d", off, nmax, skip, d, len(gone), want)
			}
			for _, gk := range gone {
				if gk == skip {
					fail("EvictKeysAt evicted the protected key %d", skip)
				}
				delete(ref, gk)
			}
			evicted += d
			op = fmt.Sprintf("TEv %s %s %d %s %s", vC16Z(int64(off)), vC16Z(int64(nmax)), skip, vC16Z(int64(d)), vC16NList(gone))
		case x < 74 && !churn:
			m.Clear()
			ref = map[uint64]uint64{}
			op = "TClr"
		case x < 79:
			var all []vC16Pair
			m.ForEach(func(fk uint64, fv uint64) bool { all = append(all, vC16Pair{fk, fv}); return true })
			if len(all) != len(ref) {
				fail("ForEach yielded %d pairs, reference holds %d", len(all), len(ref))
			}
			seen := map[uint64]bool{}
			for _, p := range all {
				if rv, ok := ref[p.k]; !ok || rv != p.v || seen[p.k] {
					fail("ForEach yielded (%d,%d): not a reference entry or a duplicate", p.k, p.v)
				}
				seen[p.k] = true
			}
			// early stop honoured
			if len(all) > 1 {
				stopAt := 1 + r.Intn(len(all)-1)
				calls := 0
				m.ForEach(func(uint64, uint64) bool { calls++; return calls < stopAt })
				if calls != stopAt {
					fail("ForEach ignored the stop request: %d calls, stop asked at %d", calls, stopAt)
				}
			}
			op = "TAll " + vC16PList(all)
			mutated = false
		case x < 84:
			ok := m.Has(k)
			_, had := ref[k]
			if ok != had {
				fail("Has(%d)=%v but reference presence %v", k, ok, had)
			}
			op = fmt.Sprintf("THas %d %v", k, ok)
			mutated = false
		default:
			got, ok := m.Get(k)
			rv, had := ref[k]
			if ok != had || (ok && got != rv) {
				fail("Get(%d)=(%d,%v) but reference (%d,%v)", k, got, ok, rv, had)
			}
			if !ok && got != 0 {
				fail("Get(%d) miss returned non-zero value %d", k, got)
			}
			op = fmt.Sprintf("TGet %d %s", k, vC16Opt(got, ok))
			mutated = false
		}
		if len(m.data) != lenBefore {
			grew++
		}
		if mutated || i%8 == 0 {
			if s := vC16TabOracle(m, ref); s != "" {
				fail("%s", s)
			}
		}
		if len(m.data) <= 64 || i%16 == 0 || i == nops-1 {
			steps = append(steps, fmt.Sprintf("Sd (%s) %d %d", op, m.Len(), vC16Digest(m)&0xFFFFFFFF))
		} else {
			steps = append(steps, fmt.Sprintf("St (%s) %d", op, m.Len()))
		}
		if len(desc) < 40 {
			desc = append(desc, op)
		}
	}
	var fin []string
	for i, p := range m.data {
		if p.Key != 0 {
			fin = append(fin, fmt.Sprintf("(%d,%d,%d)", i, p.Key, p.Value))
		}
	}
	fins := "[]"
	if len(fin) > 0 {
		fins = "[" + strings.Join(fin, ";") + "]%N"
	}
	tag := "tab-" + kind
	if churn {
		tag += "-churn"
	}
	if grew > 0 {
		tag += "-grow"
	}
	return map[string]any{
		"k":          tag,
		"coq":        fmt.Sprintf("CaseTab %s %d %d [%s] %s %d", vC16Z(int64(capacity)), n0, g0, strings.Join(steps, ";"), fins, len(m.data)),
		"go_fail":    goFail,
		"nontrivial": shifted > 0 || grew > 0 || evicted > 0,
		"desc": map[string]any{"capacity": capacity, "keys": kind, "ops": nops, "first_ops": desc, "grow_events": grew,
			"deletes_that_shifted": shifted, "shifts_across_wrap": wrapped, "evicted": evicted, "final_slots": len(m.data), "final_len": m.Len()},
	}
}

func TestVerifC16Tab(t *testing.T) {
	tr := vC16Open(t)
	defer tr.f.Close()
	seed := int64(vC16EnvInt("VERIF_SEED", 1))
	n := vC16EnvInt("VERIF_N", 300)
	r := rand.New(rand.NewSource(seed))
	if dir := os.Getenv("VERIF_CORPUS"); dir != "" {
		for _, c := range vC16CorpusTab(dir + "/tab_scripts.json") {
			tr.emit(c)
		}
	}
	caps := []int{-3, 0, 1, 8, 9, 12, 13, 24, 25, 48, 49, 96, 100, 192, 200, 384, 385, 768, 1000, 1536, 3000}
	thorough := os.Getenv("VERIF_TIER") == "thorough"
	for c := 0; c < n; c++ {
		kind := vC16Kinds[c%len(vC16Kinds)]
		capacity := caps[r.Intn(8)]
		nops := 30 + r.Intn(60)
		poolN := 3 + r.Intn(28)
		churn := r.Intn(3) == 0
		switch {
		case c%25 == 7: // larger table, clusters and wrap-around inside it
			capacity = caps[8+r.Intn(len(caps)-8)]
			poolN = 20 + r.Intn(60)
			nops = 60 + r.Intn(60)
		case c%25 == 13: // growth 8 -> 64/128 through several rehashes, then churn
			capacity = caps[r.Intn(4)]
			poolN = 60 + r.Intn(60)
			nops = 120 + r.Intn(80)
			churn = false
		}
		if thorough && c%100 == 7 {
			// 8192 / 16384 slots (the digest after every operation makes these the dearest cases: few and short)
			capacity = []int{6000, 6144, 6145}[r.Intn(3)]
			poolN = 100 + r.Intn(100)
			nops = 60 + r.Intn(40)
		}
		tr.emit(vC16TabHistory(r, capacity, kind, nops, poolN, churn))
	}
	// many short histories on the smallest tables (8 / 16 slots, few keys): every
	// arrangement of a short cluster, its deletions and the wrap at the table end
	// comes up often; cheap to evaluate, so they carry most of the case count
	for c := 0; c < 2*n; c++ {
		kind := vC16Kinds[(c+3)%len(vC16Kinds)]
		tr.emit(vC16TabHistory(r, []int{0, 0, 0, 7, 9}[r.Intn(5)], kind, 8+r.Intn(14), 2+r.Intn(7), r.Intn(4) == 0))
	}
	// one marathon: 8 slots up to 1024 (quick) / 4096 (thorough)
	big := 700
	if os.Getenv("VERIF_TIER") == "thorough" {
		big = 3000
	}
	tr.emit(vC16TabHistory(r, 0, "mixed", big+big/3, big, false))
	tr.emit(vC16BigGrow())
	if thorough {
		tr.emit(vC16GrowSweep(22))
	} else {
		tr.emit(vC16GrowSweep(20))
	}
}

// Sweep over the table lengths that fit in memory (2^3 .. 2^21, thorough 2^22): a
// table of 2^p slots grows exactly when its size reaches 3*2^p/4, to 2^(p+1)
// slots with growAt 3*2^(p+1)/4 — the integer rule that Proofs_float.v proves equal
// to the code's float64 expression for every length up to 2^61.  Go side only.
func vC16GrowSweep(maxP int) map[string]any {
	goFail := ""
	for p := 3; p <= maxP && goFail == ""; p++ {
		n := 1 << p
		m := NewUInt64Map[uint64](3 * n / 4) // int(float64(3n/4) / 0.75) = n slots
		if p == 3 {
			m = NewUInt64Map[uint64](0)
		}
		if len(m.data) != n || m.growAt != 3*n/4 {
			goFail = fmt.Sprintf("NewUInt64Map(%d): %d slots, growAt %d; expected %d slots, growAt %d", 3*n/4, len(m.data), m.growAt, n, 3*n/4)
			break
		}
		for k := uint64(1); len(m.data) == n; k++ {
			if m.size > 3*n/4 {
				goFail = fmt.Sprintf("table of %d slots holds %d keys without having grown (growAt %d)", n, m.size, m.growAt)
				break
			}
			m.Put(k*0x9E3779B97F4A7C15|1, k)
		}
		if goFail == "" && (len(m.data) != 2*n || m.growAt != 3*(2*n)/4 || m.size != 3*n/4+1 || m.mask != 2*n-1) {
			goFail = fmt.Sprintf("growth from %d slots: %d slots, growAt %d, size %d; expected %d slots, growAt %d, size %d", n, len(m.data), m.growAt, m.size, 2*n, 3*(2*n)/4, 3*n/4+1)
		}
	}
	return map[string]any{"k": "go-grow-sweep", "go_fail": goFail, "nontrivial": true, "desc": map[string]any{"powers": fmt.Sprintf("3..%d", maxP)}}
}

// growth from 2^20 slots on takes the "1.5x then round up" route: Go side only
func vC16BigGrow() map[string]any {
	goFail := ""
	m := NewUInt64Map[uint64](700000) // 933333 -> 2^20 slots
	n0 := len(m.data)
	i := uint64(1)
	for len(m.data) == n0 && i < 1<<21 {
		m.Put(i, i)
		i++
	}
	if len(m.data) != 2*n0 || m.growAt != 2*n0/4*3 || m.Len() != int(i-1) {
		goFail = fmt.Sprintf("grow from %d slots gave %d slots, growAt %d, Len %d after %d puts", n0, len(m.data), m.growAt, m.Len(), i-1)
	}
	for j := uint64(1); j < i && goFail == ""; j += 97 {
		if v, ok := m.Get(j); !ok || v != j {
			goFail = fmt.Sprintf("after growth beyond 2^20 slots Get(%d)=(%d,%v)", j, v, ok)
		}
	}
	return map[string]any{"k": "go-biggrow", "go_fail": goFail, "nontrivial": true,
		"desc": map[string]any{"slots_before": n0, "slots_after": len(m.data), "entries": m.Len()}}
}

// ---------------------------------------------------------- segment driver

func vC16SegKeys(r *rand.Rand, m *SegmentUInt64Map[uint64], n int) []uint64 {
	// keys concentrated on few segments and few home slots, plus spread ones and zero
	var pool []uint64
	nseg := uint(len(m.segments))
	s0 := uint(r.Intn(int(nseg)))
	for len(pool) < n {
		k := r.Uint64()
		switch r.Intn(4) {
		case 0, 1:
			want := (s0 + uint(r.Intn(3))) % nseg
			for tries := 0; tries < 100000 && (m.getSegmentIndex(k) != want || k == 0); tries++ {
				k = r.Uint64()
			}
		case 2:
			k = uint64(r.Intn(64))
		}
		pool = append(pool, k)
	}
	if r.Intn(2) == 0 {
		pool[r.Intn(len(pool))] = 0
	}
	return pool
}

func vC16SegHistory(r *rand.Rand, power uint8, initcap int, nops int) map[string]any {
	m := NewSegmentUInt64Map[uint64](power, initcap)
	ref := map[uint64]uint64{}
	pool := vC16SegKeys(r, m, 6+r.Intn(40))
	caps := []int64{1, 2, 3, 5, 8, 13, 30}
	capacity := caps[r.Intn(len(caps))]
	var steps, desc []string
	goFail := ""
	fail := func(f string, a ...any) {
		if goFail == "" {
			goFail = fmt.Sprintf("op %d: ", len(steps)) + fmt.Sprintf(f, a...)
		}
	}
	evictions, spills := 0, 0
	verify := func() {
		if int(m.Len()) != len(ref) {
			fail("Len()=%d but reference holds %d", m.Len(), len(ref))
		}
		for k, v := range ref {
			if got, ok := m.Get(k); !ok || got != v {
				fail("Get(%d)=(%d,%v), reference says %d", k, got, ok, v)
			}
		}
	}
	for i := 0; i < nops; i++ {
		k := pool[r.Intn(len(pool))]
		v := uint64(r.Intn(1000))
		var op string
		x := r.Intn(100)
		switch {
		case x < 40:
			c := capacity
			switch r.Intn(12) {
			case 0:
				c = 0
			case 1:
				c = -1
			case 2:
				c = caps[r.Intn(len(caps))]
			}
			before := len(ref)
			_, had := ref[k]
			ownSeg := m.getSegmentIndex(k)
			m.SetWithCap(k, v, c)
			ref[k] = v
			var gone []uint64
			for rk := range ref {
				if !m.Has(rk) {
					gone = append(gone, rk)
				}
			}
			vC16SortedU(gone)
			for _, gk := range gone {
				if gk == k {
					fail("SetWithCap(%d) evicted the key it was writing", k)
				}
				if m.getSegmentIndex(gk) != ownSeg {
					spills++
				}
				delete(ref, gk)
			}
			evictions += len(gone)
			if c >= 1 && int64(before) <= c && int64(len(ref)) > c {
				fail("SetWithCap(%d,cap=%d): %d entries before, %d after (over capacity with no other writer)", k, c, before, len(ref))
			}
			if len(gone) > 2 {
				fail("SetWithCap evicted %d entries (toll is 2)", len(gone))
			}
			if !had && int64(before)+1 <= c && len(gone) > 0 {
				fail("SetWithCap evicted %d entries while within capacity %d", len(gone), c)
			}
			op = fmt.Sprintf("SSwc %d %d %s %s", k, v, vC16Z(c), vC16NList(gone))
			verify()
		case x < 48:
			m.Set(k, v)
			ref[k] = v
			op = fmt.Sprintf("SSet %d %d", k, v)
		case x < 54:
			rv, ins := m.PutIfNotExists(k, v)
			old, had := ref[k]
			if had && (ins || rv != old) || !had && (!ins || rv != v) {
				fail("PutIfNotExists(%d,%d)=(%d,%v), reference (%d,%v)", k, v, rv, ins, old, had)
			}
			if !had {
				ref[k] = v
			}
			op = fmt.Sprintf("SPia %d %d %d %v", k, v, rv, ins)
		case x < 70:
			ok := m.Del(k)
			_, had := ref[k]
			if ok != had {
				fail("Del(%d)=%v, reference presence %v", k, ok, had)
			}
			delete(ref, k)
			op = fmt.Sprintf("SDel %d %v", k, ok)
			verify()
		case x < 72:
			m.Clear()
			ref = map[uint64]uint64{}
			op = "SClr"
		case x < 75:
			idx := r.Intn(len(m.segments)+2) - 1
			if r.Intn(2) == 0 {
				idx = int(m.getSegmentIndex(k))
			}
			m.ClearSegment(idx)
			var gone []uint64
			for rk := range ref {
				if !m.Has(rk) {
					gone = append(gone, rk)
					if int(m.getSegmentIndex(rk)) != idx {
						fail("ClearSegment(%d) removed key %d of segment %d", idx, rk, m.getSegmentIndex(rk))
					}
				}
			}
			vC16SortedU(gone)
			for _, gk := range gone {
				delete(ref, gk)
			}
			op = fmt.Sprintf("SClrSeg %s %s", vC16Z(int64(idx)), vC16NList(gone))
			verify()
		case x < 80:
			var all []vC16Pair
			m.ForEach(func(fk uint64, fv uint64) bool { all = append(all, vC16Pair{fk, fv}); return true })
			if len(all) != len(ref) {
				fail("ForEach yielded %d pairs, reference holds %d", len(all), len(ref))
			}
			for _, p := range all {
				if rv, ok := ref[p.k]; !ok || rv != p.v {
					fail("ForEach yielded (%d,%d), not a reference entry", p.k, p.v)
				}
			}
			op = "SAll " + vC16PList(all)
		default:
			got, ok := m.Get(k)
			rv, had := ref[k]
			if ok != had || (ok && got != rv) {
				fail("Get(%d)=(%d,%v), reference (%d,%v)", k, got, ok, rv, had)
			}
			op = fmt.Sprintf("SGet %d %s", k, vC16Opt(got, ok))
		}
		if int(m.Len()) != len(ref) {
			fail("Len()=%d but reference holds %d", m.Len(), len(ref))
		}
		steps = append(steps, fmt.Sprintf("Ss (%s) %d", op, m.Len()))
		if len(desc) < 40 {
			desc = append(desc, op)
		}
	}
	return map[string]any{
		"k":          "seg",
		"coq":        fmt.Sprintf("CaseSeg %d %d %d [%s]", power, initcap, len(m.segments), strings.Join(steps, ";")),
		"go_fail":    goFail,
		"nontrivial": evictions > 0,
		"desc":       map[string]any{"power": power, "initcap": initcap, "capacity": capacity, "ops": nops, "evictions": evictions, "evictions_in_other_segments": spills, "first_ops": desc},
	}
}

// cache.Cache with pointer values: identity is the pointer, not the pointee
func vC16CacheHistory(r *rand.Rand, size int, nops int) map[string]any {
	c := New(size)
	eff := size
	if eff < 1 {
		eff = 1
	}
	seg := c.data.data
	ids := map[*int]uint64{}
	var ptrs []*int
	newPtr := func(content int) *int {
		p := new(int)
		*p = content
		ids[p] = uint64(len(ids) + 1)
		ptrs = append(ptrs, p)
		return p
	}
	ref := map[uint64]*int{}
	var pool []uint64
	s0 := uint(r.Intn(len(seg.segments)))
	for len(pool) < 5+r.Intn(30) {
		k := r.Uint64()
		if r.Intn(2) == 0 {
			want := (s0 + uint(r.Intn(2))) % uint(len(seg.segments))
			for tries := 0; tries < 200000 && (seg.getSegmentIndex(k) != want || k == 0); tries++ {
				k = r.Uint64()
			}
		} else if r.Intn(3) == 0 {
			k = uint64(r.Intn(8))
		}
		pool = append(pool, k)
	}
	var steps, desc []string
	goFail := ""
	fail := func(f string, a ...any) {
		if goFail == "" {
			goFail = fmt.Sprintf("op %d: ", len(steps)) + fmt.Sprintf(f, a...)
		}
	}
	casHit, casMiss, evictions := 0, 0, 0
	verify := func() {
		if c.Len() != len(ref) {
			fail("Len()=%d but reference holds %d", c.Len(), len(ref))
		}
		for k, v := range ref {
			if got, ok := c.Get(k); !ok || got.(*int) != v {
				fail("Get(%d) does not return the stored value", k)
			}
		}
	}
	for i := 0; i < nops; i++ {
		k := pool[r.Intn(len(pool))]
		var op string
		x := r.Intn(100)
		switch {
		case x < 35:
			p := newPtr(r.Intn(3))
			before := len(ref)
			c.Add(k, p)
			ref[k] = p
			var gone []uint64
			for rk := range ref {
				if _, ok := c.Get(rk); !ok {
					gone = append(gone, rk)
				}
			}
			vC16SortedU(gone)
			for _, gk := range gone {
				if gk == k {
					fail("Add(%d) evicted the key it was writing", k)
				}
				delete(ref, gk)
			}
			evictions += len(gone)
			if before <= eff && len(ref) > eff {
				fail("Add(%d): %d entries before, %d after, capacity %d, no other writer", k, before, len(ref), eff)
			}
			op = fmt.Sprintf("SSwc %d %d %d %s", k, ids[p], eff, vC16NList(gone))
			verify()
		case x < 55:
			// CompareAndSwap: with the current value, with an equal-content other pointer, on a missing key
			cur, had := ref[k]
			old := cur
			mode := r.Intn(3)
			if !had || mode == 1 {
				content := 0
				if had {
					content = *cur
				}
				old = newPtr(content) // same content, different identity
			} else if mode == 2 && len(ptrs) > 0 {
				old = ptrs[r.Intn(len(ptrs))]
			}
			nv := newPtr(r.Intn(3))
			// boundary values of the expected value: the untyped nil interface (what an absent key
			// reads as) and a typed nil pointer — no stored value is identical to either (id 0)
			var oldAny any = old
			oldID := ids[old]
			switch r.Intn(10) {
			case 0:
				oldAny, oldID = nil, 0
			case 1:
				oldAny, oldID = (*int)(nil), 0
			}
			ok := c.CompareAndSwap(k, oldAny, nv)
			want := had && cur == old && oldID != 0
			if ok != want {
				fail("CompareAndSwap(%d, old=%T)=%v, identical current value present: %v", k, oldAny, ok, want)
			}
			if want {
				ref[k] = nv
				casHit++
			} else {
				casMiss++
			}
			op = fmt.Sprintf("SCas %d %d %d %v", k, oldID, ids[nv], ok)
			verify()
		case x < 70:
			cur, had := ref[k]
			old := cur
			if !had || r.Intn(2) == 0 {
				content := 0
				if had {
					content = *cur
				}
				old = newPtr(content)
			}
			var oldAny any = old
			oldID := ids[old]
			switch r.Intn(10) {
			case 0:
				oldAny, oldID = nil, 0
			case 1:
				oldAny, oldID = (*int)(nil), 0
			}
			ok := c.CompareAndDelete(k, oldAny)
			want := had && cur == old && oldID != 0
			if ok != want {
				fail("CompareAndDelete(%d, old=%T)=%v, identical current value present: %v", k, oldAny, ok, want)
			}
			if want {
				delete(ref, k)
				casHit++
			} else {
				casMiss++
			}
			op = fmt.Sprintf("SCad %d %d %v", k, oldID, ok)
			verify()
		case x < 80:
			c.Remove(k)
			delete(ref, k)
			op = fmt.Sprintf("SRem %d", k)
			verify()
		case x < 84:
			var all []vC16Pair
			c.ForEach(func(fk uint64, fv any) bool { all = append(all, vC16Pair{fk, ids[fv.(*int)]}); return true })
			if len(all) != len(ref) {
				fail("ForEach yielded %d pairs, reference holds %d", len(all), len(ref))
			}
			op = "SAll " + vC16PList(all)
		default:
			got, ok := c.Get(k)
			rv, had := ref[k]
			if ok != had || (ok && got.(*int) != rv) {
				fail("Get(%d) presence %v, reference %v, or wrong value", k, ok, had)
			}
			var id uint64
			if ok {
				id = ids[got.(*int)]
			}
			op = fmt.Sprintf("SGet %d %s", k, vC16Opt(id, ok))
		}
		if c.Len() != len(ref) {
			fail("Len()=%d but reference holds %d", c.Len(), len(ref))
		}
		steps = append(steps, fmt.Sprintf("Ss (%s) %d", op, c.Len()))
		if len(desc) < 40 {
			desc = append(desc, op)
		}
	}
	return map[string]any{
		"k":          "cache",
		"coq":        fmt.Sprintf("CaseCache %s [%s]", vC16Z(int64(size)), strings.Join(steps, ";")),
		"go_fail":    goFail,
		"nontrivial": casHit > 0 && casMiss > 0,
		"desc":       map[string]any{"size": size, "ops": nops, "cas_hits": casHit, "cas_misses": casMiss, "evictions": evictions, "first_ops": desc},
	}
}


// ------------------------------------------------------------------ corpus
// Fixed scripts (minimal forms of every finding / mutation / seeded change the
// check caught) replayed first on every run.  Keys are given by home slot (table
// scripts) or by segment (cache scripts), so they adapt to the hash constants.

type vC16TabScript struct {
	Name     string         `json:"name"`
	Capacity int            `json:"capacity"`
	Keys     map[string]int `json:"keys"`
	Ops      [][]any        `json:"ops"`
}

func vC16CorpusTab(path string) []map[string]any {
	b, err := os.ReadFile(path)
	if err != nil {
		return nil
	}
	var scripts []vC16TabScript
	if json.Unmarshal(b, &scripts) != nil {
		return []map[string]any{{"k": "corpus-tab", "go_fail": "corpus file " + path + " does not parse", "nontrivial": false}}
	}
	var out []map[string]any
	for si, sc := range scripts {
		r := rand.New(rand.NewSource(int64(1000 + si)))
		names := make([]string, 0, len(sc.Keys))
		for n := range sc.Keys {
			names = append(names, n)
		}
		sort.Strings(names)
		key := map[string]uint64{"zero": 0}
		for _, n := range names {
			key[n] = vC16KeyAt(r, uint64(sc.Keys[n]))
		}
		m := NewUInt64Map[uint64](sc.Capacity)
		ref := map[uint64]uint64{}
		n0, g0 := len(m.data), m.growAt
		var steps []string
		goFail := ""
		fail := func(f string, a ...any) {
			if goFail == "" {
				goFail = fmt.Sprintf("%s: op %d: ", sc.Name, len(steps)) + fmt.Sprintf(f, a...)
			}
		}
		num := func(x any) int { f, _ := x.(float64); return int(f) }
		for _, o := range sc.Ops {
			var op string
			kind, _ := o[0].(string)
			var k uint64
			if len(o) > 1 {
				if nm, ok := o[1].(string); ok {
					k = key[nm]
				}
			}
			switch kind {
			case "put":
				v := uint64(num(o[2]))
				m.Put(k, v)
				ref[k] = v
				op = fmt.Sprintf("TPut %d %d", k, v)
			case "pia":
				v := uint64(num(o[2]))
				rv, ins := m.PutIfNotExists(k, v)
				if old, had := ref[k]; had && (ins || rv != old) || !had && (!ins || rv != v) {
					fail("PutIfNotExists=(%d,%v)", rv, ins)
				} else if !had {
					ref[k] = v
				}
				op = fmt.Sprintf("TPia %d %d %d %v", k, v, rv, ins)
			case "del":
				ok := m.Del(k)
				if _, had := ref[k]; ok != had {
					fail("Del=%v, reference presence %v", ok, had)
				}
				delete(ref, k)
				op = fmt.Sprintf("TDel %d %v", k, ok)
			case "get":
				got, ok := m.Get(k)
				if rv, had := ref[k]; ok != had || (ok && got != rv) {
					fail("Get(%s)=(%d,%v), reference (%d,%v)", o[1], got, ok, rv, had)
				}
				op = fmt.Sprintf("TGet %d %s", k, vC16Opt(got, ok))
			case "has":
				ok := m.Has(k)
				if _, had := ref[k]; ok != had {
					fail("Has(%s)=%v, reference %v", o[1], ok, had)
				}
				op = fmt.Sprintf("THas %d %v", k, ok)
			case "evict":
				off, nmax := num(o[1]), num(o[2])
				skip := key[o[3].(string)]
				d := m.EvictKeysAt(off, nmax, skip)
				var gone []uint64
				for rk := range ref {
					if !m.Has(rk) {
						gone = append(gone, rk)
					}
				}
				vC16SortedU(gone)
				others := len(ref)
				if _, has := ref[skip]; has {
					others--
				}
				want := nmax
				if others < want {
					want = others
				}
				if d != want || len(gone) != d {
					fail("EvictKeysAt(%d,%d,skip=%s)=%d, %d keys vanished, expected %d", off, nmax, o[3], d, len(gone), want)
				}
				for _, gk := range gone {
					if gk == skip {
						fail("EvictKeysAt evicted the protected key")
					}
					delete(ref, gk)
				}
				op = fmt.Sprintf("TEv %d %d %d %d %s", off, nmax, skip, d, vC16NList(gone))
			case "all":
				var all []vC16Pair
				m.ForEach(func(fk uint64, fv uint64) bool { all = append(all, vC16Pair{fk, fv}); return true })
				if len(all) != len(ref) {
					fail("ForEach yielded %d pairs, reference holds %d", len(all), len(ref))
				}
				op = "TAll " + vC16PList(all)
			default:
				fail("unknown corpus op %q", kind)
				continue
			}
			if s := vC16TabOracle(m, ref); s != "" {
				fail("%s", s)
			}
			steps = append(steps, fmt.Sprintf("Sd (%s) %d %d", op, m.Len(), vC16Digest(m)&0xFFFFFFFF))
		}
		var fin []string
		for i, p := range m.data {
			if p.Key != 0 {
				fin = append(fin, fmt.Sprintf("(%d,%d,%d)", i, p.Key, p.Value))
			}
		}
		fins := "[]"
		if len(fin) > 0 {
			fins = "[" + strings.Join(fin, ";") + "]%N"
		}
		out = append(out, map[string]any{
			"k":          "corpus-tab",
			"coq":        fmt.Sprintf("CaseTab %s %d %d [%s] %s %d", vC16Z(int64(sc.Capacity)), n0, g0, strings.Join(steps, ";"), fins, len(m.data)),
			"go_fail":    goFail,
			"nontrivial": true,
			"desc":       map[string]any{"script": sc.Name},
		})
	}
	return out
}

type vC16CacheScript struct {
	Name string         `json:"name"`
	Size int            `json:"size"`
	Keys map[string]int `json:"keys"` // name -> segment
	Ops  [][]string     `json:"ops"`
}

func vC16CorpusCache(path string) []map[string]any {
	b, err := os.ReadFile(path)
	if err != nil {
		return nil
	}
	var scripts []vC16CacheScript
	if json.Unmarshal(b, &scripts) != nil {
		return []map[string]any{{"k": "corpus-cache", "go_fail": "corpus file " + path + " does not parse", "nontrivial": false}}
	}
	var out []map[string]any
	for _, sc := range scripts {
		c := New(sc.Size)
		eff := sc.Size
		if eff < 1 {
			eff = 1
		}
		m := c.data.data
		key := map[string]uint64{"zero": 0}
		names := make([]string, 0, len(sc.Keys))
		for n := range sc.Keys {
			names = append(names, n)
		}
		sort.Strings(names)
		for i, n := range names {
			key[n] = vC16KeyInSeg(m, uint(sc.Keys[n])%uint(len(m.segments)), uint64(1+1000*i))
		}
		// pointer names: "p1" and "q1" have equal content and different identity
		ptr := map[string]*int{}
		ids := map[*int]uint64{}
		getPtr := func(n string) *int {
			if p, ok := ptr[n]; ok {
				return p
			}
			p := new(int)
			fmt.Sscanf(n[1:], "%d", p)
			ptr[n] = p
			ids[p] = uint64(len(ids) + 1)
			return p
		}
		ref := map[uint64]*int{}
		var steps []string
		goFail := ""
		fail := func(f string, a ...any) {
			if goFail == "" {
				goFail = fmt.Sprintf("%s: op %d: ", sc.Name, len(steps)) + fmt.Sprintf(f, a...)
			}
		}
		for _, o := range sc.Ops {
			k := key[o[1]]
			var op string
			switch o[0] {
			case "add":
				p := getPtr(o[2])
				before := len(ref)
				c.Add(k, p)
				ref[k] = p
				var gone []uint64
				for rk := range ref {
					if _, ok := c.Get(rk); !ok {
						gone = append(gone, rk)
					}
				}
				vC16SortedU(gone)
				for _, gk := range gone {
					if gk == k {
						fail("Add(%s) evicted the key it was writing", o[1])
					}
					delete(ref, gk)
				}
				if before <= eff && len(ref) > eff {
					fail("Add: %d entries after, capacity %d", len(ref), eff)
				}
				op = fmt.Sprintf("SSwc %d %d %d %s", k, ids[p], eff, vC16NList(gone))
			case "get":
				got, ok := c.Get(k)
				rv, had := ref[k]
				if ok != had || (ok && got.(*int) != rv) {
					fail("Get(%s) presence %v, reference %v, or wrong value", o[1], ok, had)
				}
				var id uint64
				if ok {
					id = ids[got.(*int)]
				}
				op = fmt.Sprintf("SGet %d %s", k, vC16Opt(id, ok))
			case "cas":
				old, nv := getPtr(o[2]), getPtr(o[3])
				var oldAny any = old
				if o[2] == "nil" { // the untyped nil interface: identical to no stored value
					oldAny, old = nil, nil
				}
				ok := c.CompareAndSwap(k, oldAny, nv)
				cur, had := ref[k]
				if want := had && cur == old && old != nil; ok != want {
					fail("CompareAndSwap(%s,%s,%s)=%v, identical current value present: %v", o[1], o[2], o[3], ok, want)
				} else if want {
					ref[k] = nv
				}
				op = fmt.Sprintf("SCas %d %d %d %v", k, ids[old], ids[nv], ok)
			case "cad":
				old := getPtr(o[2])
				var oldAny any = old
				if o[2] == "nil" {
					oldAny, old = nil, nil
				}
				ok := c.CompareAndDelete(k, oldAny)
				cur, had := ref[k]
				if want := had && cur == old && old != nil; ok != want {
					fail("CompareAndDelete(%s,%s)=%v, identical current value present: %v", o[1], o[2], ok, want)
				} else if want {
					delete(ref, k)
				}
				op = fmt.Sprintf("SCad %d %d %v", k, ids[old], ok)
			case "remove":
				c.Remove(k)
				delete(ref, k)
				op = fmt.Sprintf("SRem %d", k)
			default:
				fail("unknown corpus op %q", o[0])
				continue
			}
			if c.Len() != len(ref) {
				fail("Len()=%d but reference holds %d", c.Len(), len(ref))
			}
			steps = append(steps, fmt.Sprintf("Ss (%s) %d", op, c.Len()))
		}
		out = append(out, map[string]any{
			"k":          "corpus-cache",
			"coq":        fmt.Sprintf("CaseCache %s [%s]", vC16Z(int64(sc.Size)), strings.Join(steps, ";")),
			"go_fail":    goFail,
			"nontrivial": true,
			"desc":       map[string]any{"script": sc.Name},
		})
	}
	return out
}

// ------------------------------------------------- concurrency (Go side only)

func vC16KeyInSeg(m *SegmentUInt64Map[any], seg uint, start uint64) uint64 {
	for k := start; ; k++ {
		if k != 0 && m.getSegmentIndex(k) == seg {
			return k
		}
	}
}

// entries reachable through ForEach, checked for duplicates and for Get agreement
func vC16Reachable(c *Cache) (int, string) {
	seen := map[uint64]bool{}
	bad := ""
	c.ForEach(func(k uint64, v any) bool {
		if seen[k] {
			bad = fmt.Sprintf("ForEach yields key %d twice", k)
		}
		seen[k] = true
		return true
	})
	for k := range seen {
		if _, ok := c.Get(k); !ok && bad == "" {
			bad = fmt.Sprintf("key %d enumerated by ForEach but Get misses it", k)
		}
	}
	return len(seen), bad
}

// goroutine stress: values encode their key, so aliasing is visible to readers;
// at quiescence Len() == reachable entries and the slot arrays are consistent.
func vC16Stress(seed int64, size, workers, opsPer int) map[string]any {
	c := New(size)
	var aliased, dupes, passes atomic.Int64
	var stop atomic.Bool
	var rwg sync.WaitGroup
	// a reader iterating all the time: ForEach concurrent with writers is not a
	// snapshot, but it never yields a key twice (theorem foreach_no_duplicates)
	// and never a value stored under another key
	rwg.Add(1)
	go func() {
		defer rwg.Done()
		for !stop.Load() {
			seen := map[uint64]bool{}
			c.ForEach(func(k uint64, v any) bool {
				if seen[k] {
					dupes.Add(1)
				}
				seen[k] = true
				if v.(uint64)/1000 != k {
					aliased.Add(1)
				}
				return true
			})
			passes.Add(1)
		}
	}()
	var wg sync.WaitGroup
	for w := 0; w < workers; w++ {
		wg.Add(1)
		go func(w int) {
			defer wg.Done()
			r := rand.New(rand.NewSource(seed*1000 + int64(w)))
			for i := 0; i < opsPer; i++ {
				k := uint64(r.Intn(size * 3))
				if r.Intn(4) == 0 {
					k = uint64(r.Intn(16)) // hot keys incl. zero
				}
				switch r.Intn(10) {
				case 0, 1, 2, 3:
					c.Add(k, k*1000+uint64(w))
				case 4:
					c.Remove(k)
				case 5:
					if v, ok := c.Get(k); ok {
						c.CompareAndSwap(k, v, k*1000+uint64(w)+500)
					}
				case 6:
					if v, ok := c.Get(k); ok {
						c.CompareAndDelete(k, v)
					}
				default:
					if v, ok := c.Get(k); ok && v.(uint64)/1000 != k {
						aliased.Add(1)
					}
				}
			}
		}(w)
	}
	hung := !vC16WaitOrHang(&wg)
	stop.Store(true)
	if hung || !vC16WaitOrHang(&rwg) {
		return map[string]any{"k": "go-stress", "go_fail": fmt.Sprintf("deadlock: %d workers and a ForEach reader on cache.New(%d) did not finish", workers, size), "nontrivial": true,
			"desc": map[string]any{"size": size, "workers": workers, "ops_per_worker": opsPer}}
	}
	goFail := ""
	if dupes.Load() > 0 {
		goFail = fmt.Sprintf("ForEach concurrent with writers yielded a key twice (%d times in %d passes)", dupes.Load(), passes.Load())
	}
	n, bad := vC16Reachable(c)
	if goFail != "" {
	} else if bad != "" {
		goFail = bad
	} else if aliased.Load() > 0 {
		goFail = fmt.Sprintf("%d reads returned a value stored under another key", aliased.Load())
	} else if c.Len() != n {
		goFail = fmt.Sprintf("after all writers stopped Len()=%d but %d entries are reachable", c.Len(), n)
	}
	eff := size
	if eff < 1 {
		eff = 1
	}
	for si, s := range c.data.data.segments {
		occ := 0
		for _, p := range s.data.data {
			if p.Key != 0 {
				occ++
			}
		}
		z := 0
		if s.data.hasZeroKey {
			z = 1
		}
		if occ+z != s.data.size && goFail == "" {
			goFail = fmt.Sprintf("segment %d: size %d but %d occupied slots + %d zero key", si, s.data.size, occ, z)
		}
	}
	if goFail == "" && n > eff {
		// same class as the scheduled replay below (swc-sparse-scan-race, fixed by 47c8f66): strict
		goFail = fmt.Sprintf("at quiescence %d entries, capacity %d, no writer left", n, eff)
	}
	return map[string]any{"k": "go-stress", "go_fail": goFail, "nontrivial": true,
		"desc": map[string]any{"size": size, "workers": workers, "ops_per_worker": opsPer, "final_len": c.Len(), "reachable": n}}
}



// wait for a group of workers; false = they did not finish (deadlock).  The
// bound only turns a hang into a reported failure; a passing run takes well
// under a second.
func vC16WaitOrHang(wg *sync.WaitGroup) bool {
	done := make(chan struct{})
	go func() { wg.Wait(); close(done) }()
	select {
	case <-done:
		return true
	case <-time.After(150 * time.Second):
		return false
	}
}

// Lock discipline (theorem no_nested_locks, observed on the code): a writer that
// waits for a segment lock holds no other segment lock.  A writer is parked in
// the middle of its spill scan (the test owns the lock of the segment it reaches
// next); every other segment must then be lockable.  A lock found busy is
// re-tried for several seconds, so a writer that is merely still inside its own
// section (and not parked) is never reported.
func vC16LockNesting() map[string]any {
	goFail := ""
	var desc []string
	for _, nseg := range []uint8{4, 8} {
		m := NewSegmentUInt64Map[any](nseg, 0)
		ns := uint(len(m.segments))
		seg := func(s uint) uint64 {
			for k := uint64(1); ; k++ {
				if m.getSegmentIndex(k) == s {
					return k
				}
			}
		}
		const capacity = 1
		m.SetWithCap(seg(5%ns), "x", capacity)
		for _, own := range []uint{0, ns - 1, 3} {
			hold := (own + 2) % ns
			m.segments[hold].rwlock.Lock()
			var wg sync.WaitGroup
			wg.Add(1)
			go func() { defer wg.Done(); m.SetWithCap(seg(own), "w", capacity) }()
			// let the writer reach the held segment
			for i := 0; i < 50; i++ {
				runtime.Gosched()
				time.Sleep(time.Millisecond)
			}
			for s := uint(0); s < ns && goFail == ""; s++ {
				if s == hold {
					continue
				}
				free := false
				for try := 0; try < 3000 && !free; try++ {
					if m.segments[s].rwlock.TryLock() {
						m.segments[s].rwlock.Unlock()
						free = true
					} else {
						time.Sleep(time.Millisecond)
					}
				}
				if !free {
					goFail = fmt.Sprintf("%d segments: a SetWithCap writer of segment %d waiting for segment %d keeps segment %d locked (nested segment locks: other readers/writers wait on unrelated work, two spilling writers can deadlock)", ns, own, hold, s)
				}
			}
			m.segments[hold].rwlock.Unlock()
			if !vC16WaitOrHang(&wg) && goFail == "" {
				goFail = "SetWithCap did not return after the held segment was released"
			}
			desc = append(desc, fmt.Sprintf("nseg=%d own=%d held=%d", ns, own, hold))
		}
	}
	return map[string]any{"k": "go-lock-nesting", "go_fail": goFail, "nontrivial": true, "desc": map[string]any{"probes": desc}}
}

// CompareAndSwap / CompareAndDelete atomicity under contention (Go side only):
// every worker reads the current box of a hot key and tries to replace it by a
// box holding count+1.  If a CAS succeeds only when the identical current value
// is present, every success extends the chain by exactly one, so at the end the
// stored count equals the number of successful CAS calls (no lost update, no
// success against a value that was no longer current).  A second phase does the
// same with CompareAndDelete + Add of a successor.
type vC16Box struct {
	n    int64
	prev *vC16Box
}

func vC16CasStress(seed int64, workers, iters int) map[string]any {
	c := New(4096) // far from capacity: no eviction interferes
	keys := []uint64{0, 1, 0x9E3779B97F4A7C15, uint64(seed)*2654435761 + 7}
	for _, k := range keys {
		c.Add(k, &vC16Box{})
	}
	succ := make([]atomic.Int64, len(keys))
	var wg sync.WaitGroup
	for w := 0; w < workers; w++ {
		wg.Add(1)
		go func(w int) {
			defer wg.Done()
			r := rand.New(rand.NewSource(seed*977 + int64(w)))
			for i := 0; i < iters; i++ {
				ki := r.Intn(len(keys))
				k := keys[ki]
				v, ok := c.Get(k)
				if !ok {
					continue
				}
				old := v.(*vC16Box)
				nw := &vC16Box{n: old.n + 1, prev: old}
				if i%5 == 4 {
					// delete-then-republish: only the deleter may publish the successor
					if c.CompareAndDelete(k, old) {
						succ[ki].Add(1)
						c.Add(k, nw)
					}
					continue
				}
				if c.CompareAndSwap(k, old, nw) {
					succ[ki].Add(1)
				}
			}
		}(w)
	}
	if !vC16WaitOrHang(&wg) {
		return map[string]any{"k": "go-cas-stress", "go_fail": "deadlock: CAS workers did not finish", "nontrivial": true, "desc": map[string]any{"workers": workers}}
	}
	goFail := ""
	var total int64
	for ki, k := range keys {
		v, ok := c.Get(k)
		if !ok {
			goFail = fmt.Sprintf("key %d vanished although nothing removes it for good", k)
			break
		}
		b := v.(*vC16Box)
		total += succ[ki].Load()
		if b.n != succ[ki].Load() && goFail == "" {
			goFail = fmt.Sprintf("key %d: %d CompareAndSwap/CompareAndDelete calls reported success but the stored chain has length %d (a CAS acted although the identical value was no longer current)", k, succ[ki].Load(), b.n)
		}
		// the chain is intact: n decreases by one per link
		for p := b; p != nil && goFail == ""; p = p.prev {
			if p.prev != nil && p.prev.n != p.n-1 {
				goFail = fmt.Sprintf("key %d: broken value chain at %d", k, p.n)
			}
		}
	}
	if c.Len() != len(keys) && goFail == "" {
		goFail = fmt.Sprintf("Len()=%d after the CAS stress, %d keys stored", c.Len(), len(keys))
	}
	return map[string]any{"k": "go-cas-stress", "go_fail": goFail, "nontrivial": total > 0,
		"desc": map[string]any{"workers": workers, "iters": iters, "successful_cas": total}}
}

// Regression for swc-sparse-scan-race (fixed in /repo by 47c8f66, strict now; with
// the old spill loop this ended with Len()=2 at capacity 1): three Cache.Add calls
// in flight on a sparse cache.  Two writers are held in the middle of their spill scan (the test
// owns the lock of the segment they reach next — any reader or writer of that
// segment would do the same), a third runs to completion and pays its toll of
// two with the entries the first two were still going to reach.  Both resume and
// find nothing on the rest of their first round; the old loop returned there with
// the count above capacity, the repaired one goes round again.
func vC16RaceSparse() map[string]any {
	old := runtime.GOMAXPROCS(1)
	defer runtime.GOMAXPROCS(old)
	var res string
	worst, capacity := 0, 1
	for attempt := 0; attempt < 5 && worst <= capacity; attempt++ {
		c := New(capacity)
		m := c.data.data
		ns := uint(len(m.segments))
		kx, ky := vC16KeyInSeg(m, 5%ns, 1), vC16KeyInSeg(m, 6%ns, 1)
		ka, ko := vC16KeyInSeg(m, 0, 1), vC16KeyInSeg(m, 1, 1)
		c.Add(kx, "x")
		m.segments[2].rwlock.Lock()
		var wg sync.WaitGroup
		wg.Add(2)
		go func() { defer wg.Done(); c.Add(ky, "y") }() // scans 7..,0,1 then waits for segment 2
		for i := 0; i < 200; i++ {
			runtime.Gosched()
		}
		go func() { defer wg.Done(); c.Add(ka, "a") }() // scans 1 then waits for segment 2
		for i := 0; i < 200; i++ {
			runtime.Gosched()
		}
		m.segments[2].rwlock.Unlock()
		c.Add(ko, "o") // evicts x and y, returns
		if !vC16WaitOrHang(&wg) {
			return map[string]any{"k": "go-race-sparse", "go_fail": "deadlock: the parked Add calls did not return", "nontrivial": true, "desc": map[string]any{}}
		}
		n, _ := vC16Reachable(c)
		if n > worst {
			worst = n
		}
		res = fmt.Sprintf("capacity %d, no Add in flight any more: Len()=%d, %d reachable entries", capacity, c.Len(), n)
	}
	goFail := ""
	if worst > capacity {
		goFail = "occupancy above capacity with no concurrent writer left: " + res
	}
	return map[string]any{"k": "go-race-sparse", "go_fail": goFail, "nontrivial": true,
		"desc": map[string]any{"schedule": "Add(x@5); [Add(y@6) scans to seg 2, held] [Add(a@0) scans to seg 2, held] Add(o@1) evicts x,y; release", "observed": res}}
}

// Regression for clear-count-race (fixed in /repo by aae41ee): Clear used to
// store 0 into the counter after it had released every segment, so a Set that
// landed in an already cleared segment before that store was counted out for
// good.  Must pass strictly now.
func vC16RaceClear() map[string]any {
	m := NewSegmentUInt64Map[any](4, 0)
	last := len(m.segments) - 1
	k0 := vC16KeyInSeg(m, 0, 1)
	m.Set(vC16KeyInSeg(m, 3, 1), "old")
	m.segments[last].rwlock.Lock()
	done := make(chan struct{})
	go func() { m.Clear(); close(done) }()
	for i := 0; i < 2000 && m.segments[3].data.Len() != 0; i++ {
		runtime.Gosched()
	}
	m.Set(k0, "new")
	m.segments[last].rwlock.Unlock()
	<-done
	n := 0
	m.ForEach(func(uint64, any) bool { n++; return true })
	goFail := ""
	if int(m.Len()) != n {
		goFail = fmt.Sprintf("Clear() concurrent with Set: all calls returned, Len()=%d but %d entries reachable", m.Len(), n)
	}
	return map[string]any{"k": "go-race-clear", "go_fail": goFail, "nontrivial": true,
		"desc": map[string]any{"schedule": "Clear() clears segments 0..14, waits for 15; Set(k@0); release; Clear finishes", "len": m.Len(), "reachable": n}}
}

// --------------------------------------------------------- forced schedules
// The tie between the interleaving model (Conc.v) and the code.  The test owns the
// write lock of every segment of a 16-segment map, so every thread it starts runs
// up to the first lock it needs and waits there.  Releasing one lock lets exactly
// the threads in front of it run — each until it stands in front of another lock
// or returns — then the test takes the lock back and records the counter, every
// segment's content, who has returned and how many threads wait where.  The Coq
// side replays the actions on the model (all interleavings of the released
// threads' atomic steps) and keeps the outcomes that agree.
//
// "Everybody is parked" is read from the lock words: sync.Mutex counts its
// sleeping waiters in state>>3, a write-held RWMutex its pending readers in
// readerCount.  The field offsets are looked up by name and the reading is
// calibrated on a scratch lock first; if that fails (another runtime layout) the
// cases are reported inconclusive.  No verdict depends on time: waiting is bounded
// only to turn a hang into a reported failure.

type vC16LockPeek struct {
	offW, offR uintptr
	ok         bool
}

func vC16NewLockPeek() vC16LockPeek {
	var pk vC16LockPeek
	t := reflect.TypeOf(sync.RWMutex{})
	fw, ok := t.FieldByName("w")
	if !ok {
		return pk
	}
	off := fw.Offset
	mt := fw.Type
	if fm, ok := mt.FieldByName("mu"); ok {
		off += fm.Offset
		mt = fm.Type
	}
	fs, ok := mt.FieldByName("state")
	if !ok || fs.Type.Kind() != reflect.Int32 {
		return pk
	}
	pk.offW = off + fs.Offset
	fr, ok := t.FieldByName("readerCount")
	if !ok {
		return pk
	}
	offr := fr.Offset
	if fr.Type.Kind() == reflect.Struct {
		fv, ok := fr.Type.FieldByName("v")
		if !ok {
			return pk
		}
		offr += fv.Offset
	}
	pk.offR = offr
	// calibration: one pending writer and one pending reader on a write-held lock
	var rw sync.RWMutex
	rw.Lock()
	var wg sync.WaitGroup
	wg.Add(2)
	go func() { defer wg.Done(); rw.Lock(); rw.Unlock() }()
	go func() { defer wg.Done(); rw.RLock(); rw.RUnlock() }()
	for i := 0; i < 40000 && !pk.ok; i++ {
		w, r := pk.waiting(&rw)
		pk.ok = w == 1 && r == 1
		if !pk.ok {
			if i < 2000 {
				runtime.Gosched()
			} else {
				time.Sleep(50 * time.Microsecond)
			}
		}
	}
	rw.Unlock()
	wg.Wait()
	if w, r := pk.waiting(&rw); w != 0 || r != 0 {
		pk.ok = false
	}
	return pk
}

// sleeping writers, pending readers (the latter only meaningful while the lock is write-held)
func (pk vC16LockPeek) waiting(rw *sync.RWMutex) (int, int) {
	st := atomic.LoadInt32((*int32)(unsafe.Add(unsafe.Pointer(rw), pk.offW)))
	rc := atomic.LoadInt32((*int32)(unsafe.Add(unsafe.Pointer(rw), pk.offR)))
	r := 0
	if rc < 0 {
		r = int(rc + 1<<30)
	}
	return int(st >> 3), r
}

type vC16SCall struct {
	kind      string
	k, v, old uint64
}

func (c vC16SCall) coq(capacity int64) string {
	switch c.kind {
	case "swc":
		return fmt.Sprintf("CSwc %d %d %d", c.k, c.v, capacity)
	case "set":
		return fmt.Sprintf("CSet %d %d", c.k, c.v)
	case "pia":
		return fmt.Sprintf("CPia %d %d", c.k, c.v)
	case "del":
		return fmt.Sprintf("CDel %d", c.k)
	case "cas":
		return fmt.Sprintf("CCas %d %d %d", c.k, c.old, c.v)
	case "cad":
		return fmt.Sprintf("CCad %d %d", c.k, c.old)
	case "clear":
		return "CClear"
	case "get":
		return fmt.Sprintf("CGet %d", c.k)
	default:
		return "CAll"
	}
}

// script: fixed list of actions ("go t" / "rel j") or nil for random choices
func vC16Sched(r *rand.Rand, pk vC16LockPeek, capacity int64, prefix []vC16SCall, progs [][]vC16SCall, script []string, name string) map[string]any {
	if !pk.ok {
		return map[string]any{"k": "sched", "inconclusive": true, "desc": map[string]any{"why": "lock words of this runtime not recognised"}}
	}
	m := NewSegmentUInt64Map[any](4, 0)
	c := &Cache{data: &SyncUInt64Map[any]{data: m}, maxSize: capacity}
	ns := len(m.segments)
	for _, p := range prefix {
		c.Add(p.k, p.v)
	}
	held := make([]bool, ns) // segment locks the test owns
	for i := 0; i < ns; i++ {
		m.segments[i].rwlock.Lock()
		held[i] = true
	}
	T := len(progs)
	done := make([]atomic.Bool, T)
	var finished atomic.Int64
	reads := make([][]string, T)
	var wg sync.WaitGroup
	launch := func(t int) {
		wg.Add(1)
		go func() {
			defer wg.Done()
			defer func() { done[t].Store(true); finished.Add(1) }()
			for _, cl := range progs[t] {
				switch cl.kind {
				case "swc":
					c.Add(cl.k, cl.v)
				case "set":
					m.Set(cl.k, cl.v)
				case "pia":
					m.PutIfNotExists(cl.k, cl.v)
				case "del":
					c.Remove(cl.k)
				case "cas":
					c.CompareAndSwap(cl.k, cl.old, cl.v)
				case "cad":
					c.CompareAndDelete(cl.k, cl.old)
				case "clear":
					m.Clear()
				case "get":
					v, ok := c.Get(cl.k)
					var id uint64
					if ok {
						id = v.(uint64)
					}
					reads[t] = append(reads[t], fmt.Sprintf("(%d%%nat, ObGet %d %s)", t, cl.k, vC16Opt(id, ok)))
				default:
					var all []vC16Pair
					c.ForEach(func(k uint64, v any) bool { all = append(all, vC16Pair{k, v.(uint64)}); return true })
					reads[t] = append(reads[t], fmt.Sprintf("(%d%%nat, ObAll %s)", t, vC16PList(all)))
				}
			}
		}()
	}
	started := 0
	isStarted := make([]bool, T)
	waitAt := func(i int) int { w, rd := pk.waiting(&m.segments[i].rwlock); return w + rd }
	// every started thread has returned or sleeps in front of a lock other than j, nobody is left at j, and j is ours again
	settle := func(j int) string {
		for it := 0; it < 60000; it++ {
			fin := int(finished.Load())
			sum := 0
			for i := 0; i < ns; i++ {
				if i != j {
					sum += waitAt(i)
				}
			}
			if fin+sum == started && (j < 0 || waitAt(j) == 0) {
				if j < 0 || m.segments[j].rwlock.TryLock() {
					return ""
				}
			}
			if it < 4000 {
				runtime.Gosched()
			} else {
				time.Sleep(100 * time.Microsecond)
			}
		}
		fin := int(finished.Load())
		sum := 0
		for i := 0; i < ns; i++ {
			if i != j {
				sum += waitAt(i)
			}
		}
		if fin+sum == started {
			return fmt.Sprintf("every thread has returned or waits for a lock, yet segment %d stays locked: a waiting thread holds a segment lock", j)
		}
		return fmt.Sprintf("after releasing segment %d: %d of %d threads neither return nor reach another lock", j, started-fin-sum, started)
	}
	var steps []string
	goFail := ""
	capped := capacity >= 1
	for _, p := range progs {
		for _, cl := range p {
			if cl.kind == "set" || cl.kind == "pia" {
				capped = false
			}
		}
	}
	maxWait := 0
	observe := func(act string) {
		var segs, waits, dn []string
		entries := 0
		for i := 0; i < ns; i++ {
			var all []vC16Pair
			m.segments[i].data.ForEach(func(k uint64, v any) bool { all = append(all, vC16Pair{k, v.(uint64)}); return true })
			if len(all) > 0 {
				segs = append(segs, fmt.Sprintf("(%d%%nat, %s)", i, vC16PList(all)))
				entries += len(all)
			}
			if w := waitAt(i); w > 0 {
				waits = append(waits, fmt.Sprintf("(%d,%d)", i, w))
				if w > maxWait {
					maxWait = w
				}
			}
		}
		returned := 0
		for t := 0; t < T; t++ {
			dn = append(dn, fmt.Sprintf("%v", done[t].Load()))
			if done[t].Load() {
				returned++
			}
		}
		cnt := m.count.Load()
		lst := func(l []string, scope string) string {
			if len(l) == 0 {
				return "[]"
			}
			return "[" + strings.Join(l, ";") + "]" + scope
		}
		steps = append(steps, fmt.Sprintf("Grant (%s) %s %s %s %s", act, vC16Z(cnt), lst(segs, ""), lst(dn, ""), lst(waits, "%nat")))
		if goFail == "" && returned == started && cnt != int64(entries) {
			goFail = fmt.Sprintf("%s: every call has returned, Len()=%d but %d entries are stored", name, cnt, entries)
		}
		if goFail == "" && capped && int64(entries) > capacity+int64(started-returned) {
			goFail = fmt.Sprintf("%s: %d entries, capacity %d, %d calls in flight", name, entries, capacity, started-returned)
		}
	}
	complete := true
	si := 0
	for n := 0; n < 700 && goFail == ""; n++ {
		if int(finished.Load()) == T {
			break
		}
		var cands []int
		for i := 0; i < ns; i++ {
			if w := waitAt(i); w > 0 && w <= 3 {
				cands = append(cands, i)
			}
		}
		act, arg := "", 0
		if script != nil {
			if si >= len(script) {
				complete = false
				break
			}
			fmt.Sscanf(script[si], "%s %d", &act, &arg)
			si++
		} else if started < T && (len(cands) == 0 || r.Intn(4) == 0) {
			act = "go"
			for arg = r.Intn(T); isStarted[arg]; arg = (arg + 1) % T {
			}
		} else if len(cands) > 0 {
			act, arg = "rel", cands[r.Intn(len(cands))]
		} else {
			complete = false // more than three threads in front of every candidate lock: stop here
			break
		}
		if act == "go" {
			if arg >= T || isStarted[arg] {
				continue
			}
			isStarted[arg] = true
			started++
			launch(arg)
			if e := settle(-1); e != "" {
				goFail = name + ": " + e
				break
			}
			observe(fmt.Sprintf("Go %d", arg))
		} else {
			if waitAt(arg) == 0 {
				continue // scripted release with nobody waiting: nothing to see
			}
			m.segments[arg].rwlock.Unlock()
			held[arg] = false
			if e := settle(arg); e != "" {
				goFail = name + ": " + e
				break
			}
			held[arg] = true
			observe(fmt.Sprintf("Rel %d", arg))
		}
	}
	if int(finished.Load()) != started || started != T {
		complete = false
	}
	// let everybody finish
	for i := 0; i < ns; i++ {
		if held[i] {
			m.segments[i].rwlock.Unlock()
		}
	}
	if !vC16WaitOrHang(&wg) && goFail == "" {
		goFail = name + ": threads did not return after every lock was released"
	}
	var pre, pr, rd []string
	for _, p := range prefix {
		pre = append(pre, fmt.Sprintf("(%d%%N,%d%%N,%s%%Z)", p.k, p.v, vC16Z(capacity)))
	}
	for t := range progs {
		var cs []string
		for _, cl := range progs[t] {
			cs = append(cs, cl.coq(capacity))
		}
		pr = append(pr, "["+strings.Join(cs, ";")+"]")
		if complete {
			rd = append(rd, reads[t]...)
		}
	}
	lst := func(l []string) string { return "[" + strings.Join(l, ";") + "]" }
	return map[string]any{
		"k":          "sched",
		"coq":        fmt.Sprintf("CaseSched %s %s %s %s %v", lst(pre), lst(pr), lst(steps), lst(rd), complete),
		"go_fail":    goFail,
		"nontrivial": maxWait >= 2,
		"desc":       map[string]any{"name": name, "threads": T, "capacity": capacity, "actions": len(steps), "complete": complete, "max_waiting_at_one_lock": maxWait},
	}
}

// random programs over a few keys of neighbouring segments (so that spill scans,
// evictions and the other operations meet), small capacities
func vC16SchedRandom(r *rand.Rand, pk vC16LockPeek, idx int) map[string]any {
	probe := NewSegmentUInt64Map[any](4, 0)
	ns := uint(len(probe.segments))
	base := uint(r.Intn(int(ns)))
	var keys []uint64
	for i := 0; i < 4+r.Intn(4); i++ {
		keys = append(keys, vC16KeyInSeg(probe, (base+uint(r.Intn(6)))%ns, uint64(1+r.Intn(500))))
	}
	if r.Intn(3) == 0 {
		keys = append(keys, 0)
	}
	capacity := int64(1 + r.Intn(3))
	next := uint64(100)
	val := func() uint64 { next++; return next }
	var prefix []vC16SCall
	var stored []uint64
	for i := 0; i < r.Intn(int(capacity)+2); i++ {
		v := val()
		prefix = append(prefix, vC16SCall{kind: "swc", k: keys[r.Intn(len(keys))], v: v})
		stored = append(stored, v)
	}
	T := 2 + r.Intn(3)
	uncapped := r.Intn(6) == 0
	progs := make([][]vC16SCall, T)
	for t := range progs {
		for n := 0; n < 1+r.Intn(2); n++ {
			k := keys[r.Intn(len(keys))]
			cl := vC16SCall{k: k}
			old := uint64(101 + r.Intn(6))
			if len(stored) > 0 && r.Intn(2) == 0 {
				old = stored[r.Intn(len(stored))]
			}
			switch x := r.Intn(100); {
			case x < 55:
				cl.kind, cl.v = "swc", val()
				stored = append(stored, cl.v)
			case x < 65:
				cl.kind = "del"
			case x < 75:
				cl.kind = "get"
			case x < 82:
				cl.kind, cl.old, cl.v = "cas", old, val()
			case x < 88:
				cl.kind, cl.old = "cad", old
			case x < 92:
				cl.kind = "all"
			case x < 95:
				cl.kind = "clear"
			default:
				if uncapped {
					cl.kind, cl.v = []string{"set", "pia"}[r.Intn(2)], val()
				} else {
					cl.kind, cl.v = "swc", val()
				}
			}
			progs[t] = append(progs[t], cl)
		}
	}
	return vC16Sched(r, pk, capacity, prefix, progs, nil, fmt.Sprintf("random-%d", idx))
}

// the shape of finding swc-sparse-scan-race as far as lock gating can force it:
// x stored; y@6 scans to segment 2 and waits; a@0 and o@1 insert behind it and
// catch up; from segment 2 on the three go round together.  Who gets x is not up
// to the test, so the overshoot shows up in some runs only; every outcome must be
// one the model has.
func vC16SchedSparse(r *rand.Rand, pk vC16LockPeek) map[string]any {
	probe := NewSegmentUInt64Map[any](4, 0)
	kx, ky := vC16KeyInSeg(probe, 5, 1), vC16KeyInSeg(probe, 6, 1)
	ka, ko := vC16KeyInSeg(probe, 0, 1), vC16KeyInSeg(probe, 1, 1)
	script := []string{"go 0", "rel 6"}
	for j := 7; j < 16; j++ {
		script = append(script, fmt.Sprintf("rel %d", j))
	}
	script = append(script, "rel 0", "rel 1", "go 1", "rel 0", "rel 1", "go 2", "rel 1")
	for round := 0; round < 3; round++ {
		for j := 0; j < 16; j++ {
			script = append(script, fmt.Sprintf("rel %d", (j+2)%16))
		}
	}
	return vC16Sched(r, pk, 1, []vC16SCall{{kind: "swc", k: kx, v: 1}},
		[][]vC16SCall{{{kind: "swc", k: ky, v: 2}}, {{kind: "swc", k: ka, v: 3}}, {{kind: "swc", k: ko, v: 4}}}, script, "sparse-scan")
}

type vC16SchedScript struct {
	Name     string         `json:"name"`
	Capacity int64          `json:"capacity"`
	Keys     map[string]int `json:"keys"` // name -> segment
	Prefix   [][]any        `json:"prefix"`
	Progs    [][][]any      `json:"progs"`
	Script   []string       `json:"script"`
}

// fixed schedules (corpus/C16/sched_scripts.json), keys given by segment
func vC16CorpusSched(r *rand.Rand, pk vC16LockPeek, path string) []map[string]any {
	b, err := os.ReadFile(path)
	if err != nil {
		return nil
	}
	var scripts []vC16SchedScript
	if json.Unmarshal(b, &scripts) != nil {
		return []map[string]any{{"k": "corpus-sched", "go_fail": "corpus file " + path + " does not parse", "nontrivial": false}}
	}
	probe := NewSegmentUInt64Map[any](4, 0)
	var out []map[string]any
	for _, sc := range scripts {
		key := map[string]uint64{"zero": 0}
		for n, sg := range sc.Keys {
			key[n] = vC16KeyInSeg(probe, uint(sg)%uint(len(probe.segments)), 1)
		}
		call := func(o []any) vC16SCall {
			cl := vC16SCall{}
			cl.kind, _ = o[0].(string)
			num := func(i int) uint64 {
				if i < len(o) {
					if f, ok := o[i].(float64); ok {
						return uint64(f)
					}
				}
				return 0
			}
			if len(o) > 1 {
				if nm, ok := o[1].(string); ok {
					cl.k = key[nm]
				}
			}
			switch cl.kind {
			case "swc", "set", "pia":
				cl.v = num(2)
			case "cas":
				cl.old, cl.v = num(2), num(3)
			case "cad":
				cl.old = num(2)
			}
			return cl
		}
		var prefix []vC16SCall
		for _, o := range sc.Prefix {
			prefix = append(prefix, call(o))
		}
		progs := make([][]vC16SCall, len(sc.Progs))
		for t := range sc.Progs {
			for _, o := range sc.Progs[t] {
				progs[t] = append(progs[t], call(o))
			}
		}
		c := vC16Sched(r, pk, sc.Capacity, prefix, progs, sc.Script, sc.Name)
		c["k"] = "corpus-sched"
		out = append(out, c)
		if vC16SchedStuck(c) {
			break
		}
	}
	return out
}

func TestVerifC16Sched(t *testing.T) {
	tr := vC16Open(t)
	defer tr.f.Close()
	seed := int64(vC16EnvInt("VERIF_SEED", 1))
	n := vC16EnvInt("VERIF_N", 40)
	r := rand.New(rand.NewSource(seed + 4242))
	pk := vC16NewLockPeek()
	var corpus []map[string]any
	if dir := os.Getenv("VERIF_CORPUS"); dir != "" {
		corpus = vC16CorpusSched(r, pk, dir+"/sched_scripts.json")
	}
	halted := false
	for _, c := range corpus {
		tr.emit(c)
		halted = halted || vC16SchedStuck(c)
	}
	for i := -1; i < n && !halted; i++ {
		var c map[string]any
		if i < 0 {
			c = vC16SchedSparse(r, pk)
		} else {
			c = vC16SchedRandom(r, pk, i)
		}
		tr.emit(c)
		halted = vC16SchedStuck(c)
	}
}

// a case that ends with threads stuck (nested locks, a deadlock) costs its whole
// waiting budget: the first one is reported and the driver stops there
func vC16SchedStuck(c map[string]any) bool {
	f, _ := c["go_fail"].(string)
	return strings.Contains(f, "stays locked") || strings.Contains(f, "neither return nor reach") || strings.Contains(f, "did not return")
}

// ---------------------------------------------------------- linearizability
// Recorded concurrent histories of Cache.Get / Add / Remove / CompareAndSwap /
// CompareAndDelete, checked against the sequential specification of a map
// (per key: a register that can be absent).  Every operation is stamped with a
// logical clock before the call and after the return; the history of one key is
// linearizable iff its operations can be put into one order that respects
// "returned before the other was called" and in which every result is what the
// sequential register gives.  A map is linearizable iff every key's history is
// (locality), as long as nothing but the recorded operations touches a key: the
// cache is kept far below its capacity, so no Add evicts.  The search is Wing &
// Gong's with memoisation on (set of linearized operations, register state).

type vC16LinOp struct {
	kind     int    // 0 Get, 1 Add, 2 Remove, 3 CompareAndSwap, 4 CompareAndDelete
	old, val uint64 // CAS/CAD expected value; Add/CAS new value (values are unique, never 0)
	res      uint64 // Get: value returned (0 = miss)
	ok       bool   // CAS / CAD result
	call, ret int64
}

func (o vC16LinOp) String() string {
	n := []string{"Get", "Add", "Remove", "CAS", "CAD"}[o.kind]
	return fmt.Sprintf("%s(old=%d,new=%d)->(%d,%v)@[%d,%d]", n, o.old, o.val, o.res, o.ok, o.call, o.ret)
}

// sequential register: state 0 = absent; returns the new state and whether the
// recorded result is the one the register gives
func vC16LinApply(state uint64, o vC16LinOp) (uint64, bool) {
	switch o.kind {
	case 0:
		return state, o.res == state
	case 1:
		return o.val, true
	case 2:
		return 0, true
	case 3:
		hit := state != 0 && state == o.old
		if hit != o.ok {
			return state, false
		}
		if hit {
			return o.val, true
		}
		return state, true
	default:
		hit := state != 0 && state == o.old
		if hit != o.ok {
			return state, false
		}
		if hit {
			return 0, true
		}
		return state, true
	}
}

// at most 64 operations
func vC16Linearizable(ops []vC16LinOp) bool {
	n := len(ops)
	if n > 64 {
		return false
	}
	full := uint64(1)<<uint(n) - 1
	if n == 64 {
		full = ^uint64(0)
	}
	type memoKey struct{ done, state uint64 }
	seen := map[memoKey]bool{}
	var rec func(done, state uint64) bool
	rec = func(done, state uint64) bool {
		if done == full {
			return true
		}
		mk := memoKey{done, state}
		if seen[mk] {
			return false
		}
		seen[mk] = true
		// an operation may come next only if no pending operation returned before it was called
		minRet := int64(1) << 62
		for i := 0; i < n; i++ {
			if done&(1<<uint(i)) == 0 && ops[i].ret < minRet {
				minRet = ops[i].ret
			}
		}
		for i := 0; i < n; i++ {
			if done&(1<<uint(i)) != 0 || ops[i].call > minRet {
				continue
			}
			if ns, ok := vC16LinApply(state, ops[i]); ok && rec(done|1<<uint(i), ns) {
				return true
			}
		}
		return false
	}
	return rec(0, 0)
}

// the checker itself: accepts a concurrent history that has a linearization and
// rejects the three classical anomalies (stale read after a completed overwrite,
// CAS success against a value that was never current at that time, lost delete)
func vC16LinSelfTest() string {
	good := []vC16LinOp{
		{kind: 1, val: 7, call: 1, ret: 4}, {kind: 0, res: 0, call: 2, ret: 3}, {kind: 0, res: 7, call: 5, ret: 6},
		{kind: 3, old: 7, val: 8, ok: true, call: 7, ret: 10}, {kind: 0, res: 8, call: 8, ret: 9}, {kind: 4, old: 7, ok: false, call: 11, ret: 12},
	}
	if !vC16Linearizable(good) {
		return "checker rejects a linearizable history"
	}
	bad := [][]vC16LinOp{
		{{kind: 1, val: 7, call: 1, ret: 2}, {kind: 1, val: 8, call: 3, ret: 4}, {kind: 0, res: 7, call: 5, ret: 6}},
		{{kind: 1, val: 7, call: 1, ret: 2}, {kind: 1, val: 8, call: 3, ret: 4}, {kind: 3, old: 7, val: 9, ok: true, call: 5, ret: 6}},
		{{kind: 1, val: 7, call: 1, ret: 2}, {kind: 2, call: 3, ret: 4}, {kind: 0, res: 7, call: 5, ret: 6}},
		{{kind: 1, val: 7, call: 1, ret: 2}, {kind: 3, old: 7, val: 8, ok: true, call: 3, ret: 6}, {kind: 3, old: 7, val: 9, ok: true, call: 4, ret: 5}},
	}
	for i, h := range bad {
		if vC16Linearizable(h) {
			return fmt.Sprintf("checker accepts the non-linearizable history #%d", i)
		}
	}
	return ""
}

func vC16Linearize(seed int64, rounds, workers int) map[string]any {
	goFail := vC16LinSelfTest()
	const perKey = 64
	totalOps, overlapped := 0, 0
	for round := 0; round < rounds && goFail == ""; round++ {
		c := New(4096)
		m := c.data.data
		// three keys: zero, and two that share a segment (one lock, one slot table)
		k1 := vC16KeyInSeg(m, uint(round)%uint(len(m.segments)), uint64(1+round*13))
		keys := []uint64{0, k1, vC16KeyInSeg(m, uint(round)%uint(len(m.segments)), k1+1)}
		budget := perKey / workers
		hist := make([][]vC16LinOp, workers)
		var clk, arrive atomic.Int64
		var wg sync.WaitGroup
		start := make(chan struct{})
		for w := 0; w < workers; w++ {
			wg.Add(1)
			go func(w int) {
				defer wg.Done()
				r := rand.New(rand.NewSource(seed*7919 + int64(round)*131 + int64(w)))
				left := make([]int, len(keys))
				for i := range left {
					left[i] = budget
				}
				lastSeen := make([]uint64, len(keys))
				<-start
				for n := 0; n < budget*len(keys); n++ {
					if true {
						// line the workers up again so that the next operations really overlap
						arrive.Add(1)
						for spin := 0; arrive.Load() < int64(workers*(n+1)) && spin < 1<<24; spin++ {
							if spin&1023 == 1023 {
								runtime.Gosched() // fewer processors than workers: let the others arrive
							}
						}
					}
					ki := r.Intn(len(keys))
					if left[ki] == 0 {
						continue
					}
					left[ki]--
					k := keys[ki]
					id := uint64(w+1)<<32 | uint64(n+1)
					o := vC16LinOp{}
					old := lastSeen[ki]
					if old == 0 || r.Intn(5) == 0 {
						old = uint64(r.Intn(workers)+1)<<32 | uint64(r.Intn(n+1)+1) // mostly a value that is not current
					}
					switch x := r.Intn(10); {
					case x < 3:
						o = vC16LinOp{kind: 0}
						o.call = clk.Add(1)
						v, ok := c.Get(k)
						o.ret = clk.Add(1)
						if ok {
							o.res = v.(uint64)
							lastSeen[ki] = o.res
						}
					case x < 5:
						o = vC16LinOp{kind: 1, val: id}
						o.call = clk.Add(1)
						c.Add(k, id)
						o.ret = clk.Add(1)
						lastSeen[ki] = id
					case x < 6:
						o = vC16LinOp{kind: 2}
						o.call = clk.Add(1)
						c.Remove(k)
						o.ret = clk.Add(1)
					case x < 9:
						o = vC16LinOp{kind: 3, old: old, val: id}
						o.call = clk.Add(1)
						o.ok = c.CompareAndSwap(k, old, id)
						o.ret = clk.Add(1)
						if o.ok {
							lastSeen[ki] = id
						}
					default:
						o = vC16LinOp{kind: 4, old: old}
						o.call = clk.Add(1)
						o.ok = c.CompareAndDelete(k, old)
						o.ret = clk.Add(1)
					}
					hist[w] = append(hist[w], vC16LinOpKeyed(o, ki))
					if r.Intn(3) == 0 {
						runtime.Gosched()
					}
				}
			}(w)
		}
		close(start)
		if !vC16WaitOrHang(&wg) {
			goFail = "deadlock: linearizability workers did not finish"
			break
		}
		for ki, k := range keys {
			var ops []vC16LinOp
			for w := range hist {
				for _, o := range hist[w] {
					if int(o.old>>60) == ki {
						o.old &= 1<<60 - 1
						ops = append(ops, o)
					}
				}
			}
			sort.Slice(ops, func(a, b int) bool { return ops[a].call < ops[b].call })
			// the final value is one more read after everything returned
			fin := vC16LinOp{kind: 0, call: clk.Add(1)}
			if v, ok := c.Get(k); ok {
				fin.res = v.(uint64)
			}
			fin.ret = clk.Add(1)
			if len(ops) < 64 {
				ops = append(ops, fin)
			}
			totalOps += len(ops)
			for i := 1; i < len(ops); i++ {
				if ops[i].call < ops[i-1].ret {
					overlapped++
				}
			}
			if !vC16Linearizable(ops) {
				var hs []string
				for _, o := range ops {
					hs = append(hs, o.String())
				}
				h := strings.Join(hs, " ")
				if len(h) > 1800 {
					h = h[:1800] + " ..."
				}
				goFail = fmt.Sprintf("history of key %d (round %d, %d workers) has no linearization as a map entry: %s", k, round, workers, h)
				break
			}
		}
		if c.Len() > len(keys) && goFail == "" {
			goFail = fmt.Sprintf("Len()=%d with %d keys in use", c.Len(), len(keys))
		}
	}
	return map[string]any{"k": "go-linearize", "go_fail": goFail, "nontrivial": overlapped > 0,
		"desc": map[string]any{"rounds": rounds, "workers": workers, "ops_checked": totalOps, "overlapping_pairs": overlapped}}
}

// the key index travels in the top bits of .old while the histories are per worker
func vC16LinOpKeyed(o vC16LinOp, ki int) vC16LinOp {
	o.old = o.old&(1<<60-1) | uint64(ki)<<60
	return o
}

// Recorded concurrent histories as Coq cases (CaseLin): small rounds of real
// goroutines on one cache.Cache (Get/Add/Remove/CompareAndSwap/CompareAndDelete on
// the zero key and two keys of one segment, far below capacity so nothing is
// evicted), every call stamped with a logical clock before and after.  Run.v looks
// for a linearization that is legal for the sequential map specification of Lin.v —
// the one Proofs_lin.v proves for every schedule of the interleaving model.  The
// Go-side Wing-Gong search judges the same history per key (go_fail).  Of `rounds`
// recorded rounds every rejected one (at most 4) and the `emit` with the most
// overlapping calls are written out (quick: 2400 rounds of 3 workers x 4 calls, 60 emitted).
func vC16LinCases(seed int64, rounds, emit, workers, perWorker int) []map[string]any {
	type rec struct {
		c        map[string]any
		overlap  int
		rejected bool
	}
	var all []rec
	for round := 0; round < rounds; round++ {
		c := New(4096)
		m := c.data.data
		sg := uint(round) % uint(len(m.segments))
		k1 := vC16KeyInSeg(m, sg, uint64(1+round*7))
		keys := []uint64{0, k1, vC16KeyInSeg(m, sg, k1+1)}
		hot := round % len(keys)
		hist := make([][]vC16LinOp, workers)
		kidx := make([][]int, workers)
		var clk, arrive atomic.Int64
		var wg sync.WaitGroup
		start := make(chan struct{})
		for w := 0; w < workers; w++ {
			wg.Add(1)
			go func(w int) {
				defer wg.Done()
				r := rand.New(rand.NewSource(seed*104729 + int64(round)*977 + int64(w)))
				lastSeen := make([]uint64, len(keys))
				<-start
				for n := 0; n < perWorker; n++ {
					arrive.Add(1)
					for spin := 0; arrive.Load() < int64(workers*(n+1)) && spin < 1<<22; spin++ {
						if spin&255 == 255 {
							runtime.Gosched()
						}
					}
					ki := r.Intn(len(keys))
					if r.Intn(10) < 7 {
						ki = hot // mostly one key, so that calls on it overlap
					}
					k := keys[ki]
					id := uint64(w+1)*100 + uint64(n+1)
					old := lastSeen[ki]
					if old == 0 || r.Intn(5) == 0 {
						old = uint64(r.Intn(workers)+1)*100 + uint64(r.Intn(n+1)+1)
					}
					o := vC16LinOp{}
					switch x := r.Intn(10); {
					case x < 2:
						o = vC16LinOp{kind: 0}
						o.call = clk.Add(1)
						v, ok := c.Get(k)
						o.ret = clk.Add(1)
						if ok {
							o.res = v.(uint64)
							lastSeen[ki] = o.res
						}
					case x < 5:
						o = vC16LinOp{kind: 1, val: id}
						o.call = clk.Add(1)
						c.Add(k, id)
						o.ret = clk.Add(1)
						lastSeen[ki] = id
					case x < 6 && r.Intn(2) == 0:
						o = vC16LinOp{kind: 2}
						o.call = clk.Add(1)
						c.Remove(k)
						o.ret = clk.Add(1)
					case x < 7:
						o = vC16LinOp{kind: 3, old: old, val: id}
						o.call = clk.Add(1)
						o.ok = c.CompareAndSwap(k, old, id)
						o.ret = clk.Add(1)
						if o.ok {
							lastSeen[ki] = id
						}
					default:
						o = vC16LinOp{kind: 4, old: old}
						o.call = clk.Add(1)
						o.ok = c.CompareAndDelete(k, old)
						o.ret = clk.Add(1)
					}
					hist[w] = append(hist[w], o)
					kidx[w] = append(kidx[w], ki)
				}
			}(w)
		}
		close(start)
		if !vC16WaitOrHang(&wg) {
			all = append(all, rec{c: map[string]any{"k": "lin", "coq": "CaseGo 9", "go_fail": "deadlock: recorded-history workers did not finish", "nontrivial": false, "desc": "hang"}, rejected: true})
			break
		}
		// one more read of every key after everything returned
		fin := make([]vC16LinOp, len(keys))
		for ki, k := range keys {
			fin[ki] = vC16LinOp{kind: 0, call: clk.Add(1)}
			if v, ok := c.Get(k); ok {
				fin[ki].res = v.(uint64)
			}
			fin[ki].ret = clk.Add(1)
		}
		goFail := ""
		overlap := 0
		var hops, descs []string
		hop := func(w int, k uint64, o vC16LinOp) {
			ev := ""
			switch o.kind {
			case 0:
				ev = fmt.Sprintf("LGet %d %d %s", w, k, vC16Opt(o.res, o.res != 0))
			case 1:
				ev = fmt.Sprintf("LStore %d %d %d", w, k, o.val)
			case 2:
				ev = fmt.Sprintf("LRem %d %d", w, k)
			case 3:
				ev = fmt.Sprintf("LCas %d %d %d %d %v", w, k, o.old, o.val, o.ok)
			default:
				ev = fmt.Sprintf("LCad %d %d %d %v", w, k, o.old, o.ok)
			}
			hops = append(hops, fmt.Sprintf("mk_hop (%s) %d %d", ev, o.call, o.ret))
			descs = append(descs, fmt.Sprintf("w%d key %d %s", w, k, o.String()))
		}
		for ki, k := range keys {
			var ops []vC16LinOp
			for w := range hist {
				for i, o := range hist[w] {
					if kidx[w][i] == ki {
						ops = append(ops, o)
					}
				}
			}
			sort.Slice(ops, func(a, b int) bool { return ops[a].call < ops[b].call })
			for i := 1; i < len(ops); i++ {
				if ops[i].call < ops[i-1].ret {
					overlap++
				}
			}
			ops = append(ops, fin[ki])
			if goFail == "" && !vC16Linearizable(ops) {
				goFail = fmt.Sprintf("recorded history of key %d has no linearization as a map entry", k)
			}
		}
		for w := range hist {
			for i, o := range hist[w] {
				hop(w, keys[kidx[w][i]], o)
			}
		}
		for ki, k := range keys {
			hop(workers, k, fin[ki])
		}
		if c.Len() > len(keys) && goFail == "" {
			goFail = fmt.Sprintf("Len()=%d with %d keys in use", c.Len(), len(keys))
		}
		all = append(all, rec{overlap: overlap, rejected: goFail != "", c: map[string]any{
			"k": "lin", "coq": "CaseLin [" + strings.Join(hops, "; ") + "]", "go_fail": goFail,
			"nontrivial": overlap > 0, "desc": map[string]any{"round": round, "overlapping_pairs": overlap, "history": strings.Join(descs, " | ")}}})
	}
	sort.SliceStable(all, func(a, b int) bool {
		if all[a].rejected != all[b].rejected {
			return all[a].rejected
		}
		return all[a].overlap > all[b].overlap
	})
	var out []map[string]any
	nrej := 0
	for _, x := range all {
		if x.rejected {
			if nrej++; nrej > 4 {
				continue
			}
		} else if len(out)-min(nrej, 4) >= emit {
			break
		}
		out = append(out, x.c)
	}
	return out
}

func TestVerifC16Seg(t *testing.T) {
	tr := vC16Open(t)
	defer tr.f.Close()
	seed := int64(vC16EnvInt("VERIF_SEED", 1))
	n := vC16EnvInt("VERIF_N", 100)
	r := rand.New(rand.NewSource(seed + 77))
	if dir := os.Getenv("VERIF_CORPUS"); dir != "" {
		for _, c := range vC16CorpusCache(dir + "/cache_scripts.json") {
			tr.emit(c)
		}
	}
	powers := []uint8{0, 4, 4, 4, 5, 9}
	initcaps := []int{0, 0, 128, 1000, 4096}
	sizes := []int{-1, 0, 1, 2, 3, 5, 8, 20, 100, 1500}
	for c := 0; c < n; c++ {
		if c%3 == 2 {
			tr.emit(vC16CacheHistory(r, sizes[r.Intn(len(sizes))], 30+r.Intn(50)))
		} else {
			tr.emit(vC16SegHistory(r, powers[r.Intn(len(powers))], initcaps[r.Intn(len(initcaps))], 30+r.Intn(60)))
		}
	}
	// short histories at the smallest capacities: the toll and the spill loop run on almost every Add
	for c := 0; c < 2*n; c++ {
		if c%2 == 0 {
			tr.emit(vC16CacheHistory(r, []int{1, 1, 2, 3, 5}[r.Intn(5)], 8+r.Intn(12)))
		} else {
			tr.emit(vC16SegHistory(r, 4, 0, 8+r.Intn(12)))
		}
	}
	tr.emit(vC16LockNesting())
	rounds, ops := 4, 4000
	if os.Getenv("VERIF_TIER") == "thorough" {
		rounds, ops = 12, 20000
	}
	for i := 0; i < rounds; i++ {
		size := []int{1, 4, 32, 300}[i%4]
		tr.emit(vC16Stress(seed+int64(i), size, 8, ops))
	}
	casRounds, casIters := 3, 30000
	if os.Getenv("VERIF_TIER") == "thorough" {
		casRounds, casIters = 8, 200000
	}
	for i := 0; i < casRounds; i++ {
		tr.emit(vC16CasStress(seed+int64(i), 8, casIters))
	}
	linRounds := 60
	if os.Getenv("VERIF_TIER") == "thorough" {
		linRounds = 600
	}
	tr.emit(vC16Linearize(seed, linRounds, 4))
	tr.emit(vC16Linearize(seed+1, linRounds/2, 8))
	for _, c := range vC16LinCases(seed, 40*linRounds, linRounds, 3, 4) {
		tr.emit(c)
	}
	tr.emit(vC16RaceSparse())
	tr.emit(vC16RaceClear())
}

// Thorough tier, built with -race: the goroutine stresses only (no forced
// schedules, which peek at internals on purpose).  A data race reported by the
// detector fails the test binary and therefore the check.
func TestVerifC16Race(t *testing.T) {
	tr := vC16Open(t)
	defer tr.f.Close()
	seed := int64(vC16EnvInt("VERIF_SEED", 1))
	n := vC16EnvInt("VERIF_N", 6)
	for i := 0; i < n; i++ {
		size := []int{1, 4, 32, 300}[i%4]
		tr.emit(vC16Stress(seed+int64(100+i), size, 8, 6000))
	}
	for i := 0; i < 2; i++ {
		tr.emit(vC16CasStress(seed+int64(200+i), 8, 40000))
	}
	// linearizability of Get/Add/Remove/CompareAndSwap/CompareAndDelete, race detector on
	tr.emit(vC16Linearize(seed+300, 20*n, 4))
	tr.emit(vC16Linearize(seed+301, 10*n, 8))
}
