//go:build verif

package resolver

// C08 alias driver (overlay-injected, never committed to /repo): the full
// pipeline (cache middleware + resolver, production-like internal queryer)
// against root -> tld. -> { a.tld., b.tld. } on loopback, where a.tld. (the
// OUTER zone) publishes aliases into b.tld. (the TARGET zone): "d.a.tld." is a
// DNAME onto b.tld. (the resolver follows the target leg itself, Resolver.answer /
// checkDname) and "c<x>.a.tld." is a CNAME onto "<x>.b.tld." (the cache layer
// chases it, Cache.additionalAnswer).  The two zones are delegated with
// different leases - mostly a long outer lease and a short target lease - and
// the target leg ends positively (an address), in NXDOMAIN or in NODATA.
//
// Per case: optional warm-up that caches b.tld.'s delegation beforehand (the
// target leg then descends through the cached, partly used lease), the client
// asks the alias name, the stored delegations and the entries admitted for the
// outer and for the target question are dumped; then tld. re-points b.tld. to
// other servers with other content (or withdraws it), the virtual clock moves to
// the end of the lease the parent side granted for b.tld. (+3 s) - the outer
// zone's lease and every record TTL still running - and the client repeats the
// question: the reply must not carry the old target servers' data (positive or
// negative) and the old servers must not be asked.

import (
	"context"
	"encoding/json"
	"fmt"
	"math/rand"
	"os"
	"path/filepath"
	"strings"
	"testing"
	"time"

	"github.com/miekg/dns"
	"github.com/semihalev/sdns/internal/mock"
	"github.com/semihalev/sdns/middleware"
	cachemw "github.com/semihalev/sdns/middleware/cache"
)

type vC08AliasParams struct {
	TLD, A, B uint32 // NS TTLs of the three referrals (s)
	Dname     bool   // DNAME leg (resolver) or CNAME chase (cache layer)
	Outcome   int    // 0 address, 1 NXDOMAIN, 2 NODATA
	AliasTTL  uint32
	AnsTTL    uint32
	NegTTL    uint32
	Warm      bool  // b.tld. cached beforehand
	GapS      int64 // virtual seconds between the warm-up and the main tree
	Withdraw  bool  // tld. withdraws b.tld. instead of re-pointing it
	Wire      bool
	Bare      bool // the target zone's servers deny with the bare rcode: no SOA, empty authority section
}

// vC08AliasReply: rcode and provenance (id of the server whose address / SOA the reply carries, -1 none)
type vC08AliasReply struct {
	rcode, src int
	ok         bool
}

func (p *vC08Pipe) askAlias(name string, qtype uint16, wire bool) vC08AliasReply {
	req := new(dns.Msg)
	req.SetQuestion(dns.Fqdn(name), qtype)
	req.SetEdns0(1232, false)
	mw := mock.NewWriter("udp", "127.0.0.1:0")
	ch := middleware.NewChain([]middleware.Handler{p.cm, p.h})
	if wire {
		raw, err := req.Pack()
		wreq := new(middleware.Request)
		if err != nil || !wreq.ParseWire(raw, time.Now(), nil) {
			return vC08AliasReply{src: -1}
		}
		ch.ResetWire(mw, wreq)
		ch.Next(context.Background())
		ch.Finish()
	} else {
		ch.Reset(mw, req)
		ch.Next(context.Background())
	}
	if !mw.Written() {
		return vC08AliasReply{src: -1}
	}
	m := mw.Msg()
	out := vC08AliasReply{rcode: m.Rcode, src: -1, ok: true}
	for _, rr := range m.Answer {
		if a, ok := rr.(*dns.A); ok {
			if ip := a.A.To4(); ip != nil && ip[0] == 10 {
				out.src = int(ip[1])
			}
		}
	}
	for _, rr := range m.Ns {
		if soa, ok := rr.(*dns.SOA); ok && out.src < 0 {
			out.src = int(soa.Serial) - 1
		}
	}
	return out
}

func vC08PeekAny(p *vC08Pipe, name string, qtype uint16) (cachemw.VC08Entry, bool) {
	q := dns.Question{Name: dns.Fqdn(name), Qtype: qtype, Qclass: dns.ClassINET}
	if e, ok := cachemw.VC08Peek(p.cm, q, false); ok {
		return e, true
	}
	return cachemw.VC08Peek(p.cm, q, true)
}

func vC08EntryTermQ(p *vC08Pipe, name string, qtype uint16) (string, string) {
	e, ok := vC08PeekAny(p, name, qtype)
	if !ok {
		return "None", name + "=absent"
	}
	cutOK := !e.CutUntil.IsZero()
	return fmt.Sprintf("(Some (%s%%Z, %s%%Z, %s))", vC08Z(p.virt(e.Stored)), vC08Z(int64(e.TTL)), vC08OZ2(cutOK, p.virt(e.CutUntil))),
		fmt.Sprintf("%s: stored=%v ttl=%v cut=%v/%v rcode=%d answers=%d", name, time.Duration(p.virt(e.Stored)), e.TTL, cutOK, time.Duration(p.virt(e.CutUntil)), e.Rcode, e.Answers)
}

func vC08AliasCase(t *testing.T, o *vC08Out, w *vC08World, pr vC08AliasParams, kindPrefix string) {
	const sec = int64(time.Second)
	w.mu.Lock()
	for _, s := range w.srvs {
		s.deleg, s.mode, s.ansTTL, s.negTTL = map[string]*vC08Deleg{}, 0, pr.AnsTTL, pr.NegTTL
		s.dnameTo, s.cnameTo, s.aliasTTL, s.allExist, s.bareNeg = "", "", pr.AliasTTL, false, false
	}
	w.srvs[3].bareNeg = pr.Bare
	w.srvs[0].deleg["tld."] = &vC08Deleg{nsTTL: []uint32{pr.TLD}, target: 1, active: true}
	w.srvs[1].deleg["a.tld."] = &vC08Deleg{nsTTL: []uint32{pr.A}, target: 2, active: true}
	w.srvs[1].deleg["b.tld."] = &vC08Deleg{nsTTL: []uint32{pr.B}, target: 3, active: true}
	w.srvs[2].dnameTo, w.srvs[2].cnameTo = "b.tld.", "b.tld."
	w.srvs[4].allExist = true
	w.log = nil
	w.mu.Unlock()

	p := vC08NewPipeWith(t, w, 0, 0, nil)
	defer p.close()
	var sub middleware.Queryer = &vC08GuardQueryer{handlers: []middleware.Handler{p.cm, p.h}}
	p.cm.SetQueryer(sub)
	p.h.resolver.queryer.Store(&sub)

	// the question: leaf label by outcome; DNAME: <leaf>.d.a.tld. -> <leaf>.b.tld.; CNAME: c<leaf>.a.tld. -> <leaf>.b.tld.
	leaf := []string{"w1", "nx1", "w1"}[pr.Outcome]
	qtype := dns.TypeA
	if pr.Outcome == 2 {
		qtype = dns.TypeAAAA
	}
	outer := "c" + leaf + ".a.tld."
	if pr.Dname {
		outer = leaf + ".d.a.tld."
	}
	target := leaf + ".b.tld."

	inconcl, why := false, ""
	var w0, w1 int64
	if pr.Warm {
		w0 = p.now()
		rep := p.askAlias("w9.b.tld.", dns.TypeA, pr.Wire)
		w1 = p.now()
		if !rep.ok || rep.rcode != dns.RcodeSuccess || w1-w0 > sec {
			inconcl, why = true, "warm-up failed"
		}
		w.takeLog()
		if pr.GapS > 0 {
			p.advance(time.Duration(pr.GapS * sec))
		}
	}
	t0 := p.now()
	rep := p.askAlias(outer, qtype, pr.Wire)
	t1 := p.now()
	log := w.takeLog()
	if !rep.ok || t1-t0 > sec {
		inconcl, why = true, why+" slow or no reply"
	}
	wantRcode := []int{dns.RcodeSuccess, dns.RcodeNameError, dns.RcodeSuccess}[pr.Outcome]
	// a bare denial carries no provenance: no address, no SOA
	bareDenial := pr.Bare && pr.Outcome != 0
	wantSrc := 3
	if bareDenial {
		wantSrc = -1
	}
	if rep.rcode != wantRcode || rep.src != wantSrc {
		inconcl, why = true, why+fmt.Sprintf(" unexpected first reply rcode=%d src=%d", rep.rcode, rep.src)
	}
	sawB := false
	for _, e := range log {
		if e.srv == 1 && e.kind == vC08RespReferral && e.refZ == "b.tld." {
			sawB = true
		}
	}
	if pr.Warm && sawB {
		inconcl, why = true, why+" warm-up lease over"
	}

	var ds, dsDesc []string
	for _, z := range []string{"tld.", "a.tld.", "b.tld."} {
		e, ok := p.deleg(z)
		ds = append(ds, vC08OZ2(ok, e))
		if ok {
			dsDesc = append(dsDesc, fmt.Sprintf("%s exp=%v", z, time.Duration(e)))
		} else {
			dsDesc = append(dsDesc, z+" none")
		}
	}
	outerTerm, outerDesc := vC08EntryTermQ(p, outer, qtype)
	targetTerm, targetDesc := vC08EntryTermQ(p, target, qtype)

	// the parent re-points (other servers, other content) or withdraws the target zone
	w.mu.Lock()
	d := w.srvs[1].deleg["b.tld."]
	if pr.Withdraw {
		d.active = false
	} else {
		d.target = 4
	}
	w.mu.Unlock()
	h12 := int64(12 * time.Hour)
	capd := func(ttl uint32) int64 {
		v := int64(ttl) * sec
		if v > h12 {
			v = h12
		}
		return v
	}
	obs := t1
	if pr.Warm {
		obs = w1
	}
	lease := obs + capd(pr.TLD)
	if v := obs + capd(pr.B); v < lease {
		lease = v
	}
	if dd := lease + vC08Margin - p.now(); dd > 0 {
		p.advance(time.Duration(dd))
	}
	t4 := p.now()
	rep4 := p.askAlias(outer, qtype, pr.Wire)
	log4 := w.takeLog()
	oldAsked := false
	for _, e := range log4 {
		if e.srv == 3 {
			oldAsked = true
		}
	}
	if !rep4.ok {
		inconcl, why = true, why+" no second reply"
	}
	// every current server's reply names its source (tld.'s NXDOMAIN and the new servers' denials carry their SOA, the new
	// servers' addresses their id): a denial without any provenance can only be the old servers' bare denial
	fromOld := rep4.src == 3 || (bareDenial && rep4.ok && rep4.rcode == wantRcode && rep4.src < 0)
	goFail := ""
	if !inconcl && t4 >= lease && (fromOld || oldAsked) {
		goFail = fmt.Sprintf("ghost: %s %s asked again at t=%v, after the lease the parent side granted for b.tld. ended (%v) and tld. had re-pointed/withdrawn it: rcode=%d, reply carries the old target servers' data=%v, old servers asked=%v",
			outer, dns.TypeToString[qtype], time.Duration(t4), time.Duration(lease), rep4.rcode, fromOld, oldAsked)
	}
	warmTerm := "None"
	if pr.Warm {
		warmTerm = fmt.Sprintf("(Some (%s%%Z, %s%%Z))", vC08Z(w0), vC08Z(w1))
	}
	// the target's entry is admitted with the answer's / the denial's TTL; the outer entry holds the alias records
	// (the target's address records are re-chased on a hit), a composed denial also the target's SOA
	msgTTL := int64(pr.AnsTTL)
	outerTTL := int64(pr.AliasTTL)
	if pr.Outcome != 0 {
		msgTTL = int64(pr.NegTTL)
		if bareDenial {
			// a reply without records is admitted with dnsutil.MinCacheTTL; the composed denial holds the alias records only
			msgTTL = int64(vC08BareNegTTL)
		} else if msgTTL < outerTTL {
			outerTTL = msgTTL
		}
	}
	// the shape of the target leg's reply as the chase sees it: a denial in the RFC 2308 form carries its SOA, a bare one
	// nothing; an address reply its records
	legRecords, legNX := !bareDenial, pr.Outcome == 1
	kind := kindPrefix + "alias-" + map[bool]string{true: "dname", false: "cname"}[pr.Dname] + "-" + []string{"address", "nxdomain", "nodata"}[pr.Outcome]
	if bareDenial {
		kind += "-bare"
	}
	if pr.Warm {
		kind += "-warm"
	}
	m := map[string]any{
		"k": kind, "go_fail": goFail, "nontrivial": !inconcl,
		"coq": fmt.Sprintf("CaseAlias %s %s %s %d %d %d %s %s %s %s %s [%s] %s %s %s %s %s",
			vC08B(pr.Dname), vC08B(legRecords), vC08B(legNX), pr.TLD, pr.A, pr.B, vC08Z(outerTTL*sec), vC08Z(msgTTL*sec), warmTerm, vC08Z(t0), vC08Z(t1),
			strings.Join(ds, "; "), outerTerm, targetTerm, vC08Z(t4), vC08B(fromOld), vC08B(oldAsked)),
		"desc": fmt.Sprintf("TTLs tld %d a.tld. %d b.tld. %d alias %d answer %d neg %d; %s %s -> %s (outcome %d) warm=%v gap=%ds withdraw=%v wire=%v bare=%v: tree [%v..%v] rcode=%d src=%d; %v; %s; %s; lease end %v, asked again at t=%v: rcode=%d src=%d old servers asked=%v",
			pr.TLD, pr.A, pr.B, pr.AliasTTL, pr.AnsTTL, pr.NegTTL, outer, dns.TypeToString[qtype], target, pr.Outcome, pr.Warm, pr.GapS, pr.Withdraw, pr.Wire, pr.Bare,
			time.Duration(t0), time.Duration(t1), rep.rcode, rep.src, dsDesc, outerDesc, targetDesc, time.Duration(lease), time.Duration(t4), rep4.rcode, rep4.src, oldAsked),
	}
	if inconcl {
		m["inconclusive"] = true
		m["desc"] = m["desc"].(string) + " | inconclusive:" + why + fmt.Sprintf(" log=%v", log)
	}
	o.emit(m)
}

func vC08AliasCorpus(t *testing.T) []vC08AliasParams {
	dir := os.Getenv("VERIF_CORPUS")
	if dir == "" {
		return nil
	}
	raw, err := os.ReadFile(filepath.Join(dir, "alias.json"))
	if err != nil {
		return nil
	}
	var items []vC08AliasParams
	if err := json.Unmarshal(raw, &items); err != nil {
		t.Fatalf("corpus alias.json: %v", err)
	}
	return items
}

func TestVerifC08Alias(t *testing.T) {
	o := vC08Open(t)
	defer o.f.Close()
	seed := int64(vC08EnvInt("VERIF_SEED", 1))
	n := vC08EnvInt("VERIF_N", 80)
	r := rand.New(rand.NewSource(seed*49979687 + 5))
	w := &vC08World{}
	for _, z := range []string{".", "tld.", "a.tld.", "b.tld.", "b.tld."} {
		w.start(t, z)
	}
	defer w.stopAll()
	for _, pr := range vC08AliasCorpus(t) {
		vC08AliasCase(t, o, w, pr, "corpus-")
	}
	for c := 0; c < n; c++ {
		pr := vC08AliasParams{
			TLD:      []uint32{3600, 86400, 172800}[r.Intn(3)],
			A:        []uint32{3600, 43200, 172800}[r.Intn(3)],
			B:        []uint32{2, 4, 10, 30, 300}[r.Intn(5)],
			Dname:    r.Intn(2) == 0,
			Outcome:  []int{0, 1, 1, 2}[r.Intn(4)], // a denied target name is terminal for every later chase: half of the cases
			AliasTTL: []uint32{60, 3600, 86400}[r.Intn(3)],
			AnsTTL:   []uint32{60, 3600, 86400}[r.Intn(3)],
			NegTTL:   []uint32{30, 600, 3600}[r.Intn(3)],
			Warm:     r.Intn(3) == 0,
			Withdraw: r.Intn(2) == 0,
			Wire:     r.Intn(2) == 0,
		}
		pr.Bare = r.Intn(3) == 0
		if r.Intn(6) == 0 {
			// the other way round: the outer zone's lease is the short one
			pr.A, pr.B = pr.B, pr.A
		}
		if eff := min(pr.B, pr.TLD, 43200); pr.Warm && eff >= 10 && r.Intn(2) == 0 {
			pr.GapS = int64(eff) / 2 // half of b.tld.'s lease (itself limited by tld.'s) has run
		}
		vC08AliasCase(t, o, w, pr, "")
	}
}
