//go:build verif

package resolver

// C07 lab: a small zone tree on loopback in which one authoritative server
// (the attacker, authoritative for vC07Evil) answers with scripted hostile
// messages, driven through the REAL resolver handler behind the REAL cache
// middleware.  Ground truth = the lab's own zone tree.
//
//   .            root server R     delegates l1. and l2.
//   l1.          server T1         delegates evil.l1. (attacker) and bank.l1.
//   l2.          server T2         delegates victim.l2.
//   evil.l1.     server A          scripted attacker
//   bank.l1.     server B          honest
//   victim.l2.   server V          honest
//
// Glue is TEST-NET-1 (192.0.2.x), remapped to the loopback sockets through
// Resolver.resolveTarget exactly as the repository's own hermetic harness does.

import (
	"context"
	"fmt"
	"net"
	"os"
	"sort"
	"strings"
	"sync"
	"time"

	"github.com/miekg/dns"
	"github.com/semihalev/sdns/config"
	"github.com/semihalev/sdns/internal/mock"
	"github.com/semihalev/sdns/middleware"
	cachemw "github.com/semihalev/sdns/middleware/cache"
	"github.com/semihalev/zlog/v2"
)

const (
	vC07Evil   = "evil.l1."
	vC07Bank   = "bank.l1."
	vC07Victim = "victim.l2."
	vC07Evil3  = "evil.l3."
	vC07Bank3  = "bank.l3."
	vC07Other  = "other.l2."
)

// vC07Auth is one scripted authoritative UDP socket.
type vC07Auth struct {
	label  string
	addr   string
	mu     sync.Mutex
	asked  []string // "name/type" in arrival order
	handle func(q dns.Question) *dns.Msg
	srv    *dns.Server
}

func vC07StartAuth(label string, handle func(q dns.Question) *dns.Msg) (*vC07Auth, error) {
	pc, err := net.ListenPacket("udp", "127.0.0.1:0")
	if err != nil {
		return nil, err
	}
	a := &vC07Auth{label: label, handle: handle, addr: pc.LocalAddr().String()}
	mux := dns.NewServeMux()
	mux.HandleFunc(".", func(w dns.ResponseWriter, r *dns.Msg) {
		if len(r.Question) != 1 {
			return
		}
		q := r.Question[0]
		a.mu.Lock()
		a.asked = append(a.asked, strings.ToLower(q.Name)+"/"+dns.TypeToString[q.Qtype])
		h := a.handle
		a.mu.Unlock()
		src := h(q)
		if src == nil {
			return
		}
		reply := new(dns.Msg)
		reply.SetReply(r)
		reply.Authoritative = src.Authoritative
		reply.Rcode = src.Rcode
		reply.Answer = src.Answer
		reply.Ns = src.Ns
		reply.Extra = src.Extra
		if len(src.Question) > 0 {
			reply.Question = src.Question // a server that rewrites the question section
		}
		_ = w.WriteMsg(reply)
	})
	a.srv = &dns.Server{Net: "udp", PacketConn: pc, Handler: mux}
	started := make(chan struct{})
	a.srv.NotifyStartedFunc = func() { close(started) }
	go func() { _ = a.srv.ActivateAndServe() }()
	select {
	case <-started:
	case <-time.After(2 * time.Second):
		return nil, fmt.Errorf("server %s did not start", label)
	}
	return a, nil
}

func (a *vC07Auth) stop() { _ = a.srv.Shutdown() }

func (a *vC07Auth) setHandle(h func(q dns.Question) *dns.Msg) {
	a.mu.Lock()
	a.handle = h
	a.mu.Unlock()
}

func (a *vC07Auth) takeAsked() []string {
	a.mu.Lock()
	defer a.mu.Unlock()
	r := a.asked
	a.asked = nil
	return r
}

func vC07RR(s string) dns.RR {
	rr, err := dns.NewRR(s)
	if err != nil {
		panic(fmt.Sprintf("NewRR(%q): %v", s, err))
	}
	return rr
}

func vC07SoftNeg(zone string, nx bool) *dns.Msg {
	m := &dns.Msg{}
	m.Authoritative = true
	if nx {
		m.Rcode = dns.RcodeNameError
	}
	ns, mbox := "ns."+zone, "hostmaster."+zone
	if zone == "." {
		ns, mbox = "ns.root.", "hostmaster.root."
	}
	m.Ns = []dns.RR{vC07RR(zone + " 30 IN SOA " + ns + " " + mbox + " 1 30 30 30 30")}
	return m
}

// vC07Zone is honest zone data: records by lower-case "name/type", child cuts.
type vC07Zone struct {
	name     string
	records  map[string][]dns.RR
	names    map[string]bool
	children map[string]*dns.Msg // delegated zone -> referral (Ns + Extra)
}

func vC07NewZone(name string) *vC07Zone {
	return &vC07Zone{name: name, records: map[string][]dns.RR{}, names: map[string]bool{name: true}, children: map[string]*dns.Msg{}}
}

func (z *vC07Zone) add(rrs ...string) {
	for _, s := range rrs {
		rr := vC07RR(s)
		k := strings.ToLower(rr.Header().Name) + "/" + dns.TypeToString[rr.Header().Rrtype]
		z.records[k] = append(z.records[k], rr)
		n := strings.ToLower(rr.Header().Name)
		for {
			z.names[n] = true
			if n == z.name || n == "." {
				break
			}
			i, end := dns.NextLabel(n, 0)
			if end {
				break
			}
			n = n[i:]
		}
	}
}

func (z *vC07Zone) delegate(child string, ns, glue []string) {
	m := &dns.Msg{}
	for _, s := range ns {
		m.Ns = append(m.Ns, vC07RR(s))
	}
	for _, s := range glue {
		m.Extra = append(m.Extra, vC07RR(s))
	}
	z.children[child] = m
	// every name between the zone and the cut exists as an empty non-terminal
	n := child
	for {
		i, end := dns.NextLabel(n, 0)
		if end {
			break
		}
		n = n[i:]
		if n == z.name || !dns.IsSubDomain(z.name, n) {
			break
		}
		z.names[n] = true
	}
}

func (z *vC07Zone) serve(q dns.Question) *dns.Msg {
	name := strings.ToLower(q.Name)
	for child, ref := range z.children {
		if dns.IsSubDomain(child, name) && !(name == child && q.Qtype == dns.TypeDS) {
			return &dns.Msg{Ns: ref.Ns, Extra: ref.Extra}
		}
	}
	if rrs, ok := z.records[name+"/"+dns.TypeToString[q.Qtype]]; ok {
		m := &dns.Msg{}
		m.Authoritative = true
		m.Answer = rrs
		return m
	}
	if rrs, ok := z.records[name+"/CNAME"]; ok && q.Qtype != dns.TypeDS {
		m := &dns.Msg{}
		m.Authoritative = true
		m.Answer = rrs
		return m
	}
	return vC07SoftNeg(z.name, !z.names[name])
}

// vC07ServeMulti serves several zones from one socket (longest matching apex wins).
func vC07ServeMulti(zs ...*vC07Zone) func(q dns.Question) *dns.Msg {
	return func(q dns.Question) *dns.Msg {
		name := strings.ToLower(q.Name)
		var best *vC07Zone
		for _, z := range zs {
			if dns.IsSubDomain(z.name, name) && (best == nil || dns.CountLabel(z.name) > dns.CountLabel(best.name)) {
				best = z
			}
		}
		if best == nil {
			m := &dns.Msg{}
			m.Rcode = dns.RcodeRefused
			return m
		}
		return best.serve(q)
	}
}

// vC07Lab is the whole namespace plus the servers.
type vC07Lab struct {
	root, t1, t2, evil, bank, victim *vC07Auth
	zRoot, zT1, zT2, zBank, zVictim  *vC07Zone
	zEvil, zEvil3                    *vC07Zone // what an honest attacker zone would serve (fallback of the attacker)
	zBank3, zOther                   *vC07Zone
	honestEvil, honestBank           func(q dns.Question) *dns.Msg
	remap                            map[string]string
	all                              []*vC07Auth
}

// Advertised (glue) addresses.
const (
	vC07AddrT1     = "192.0.2.11"
	vC07AddrT2     = "192.0.2.12"
	vC07AddrEvil   = "192.0.2.66"
	vC07AddrBank   = "192.0.2.21"
	vC07AddrVictim = "192.0.2.22"
	// an address the attacker would like the resolver to use for victim hosts;
	// it is remapped to the attacker's own socket so that a successful
	// poisoning is observable as a query arriving at the attacker.
	vC07AddrRogue = "192.0.2.99"
)

func vC07NewLab() (*vC07Lab, error) {
	l := &vC07Lab{remap: map[string]string{}}
	l.zRoot = vC07NewZone(".")
	l.zRoot.add(". 3600 IN NS ns.root.")
	l.zRoot.delegate("l1.", []string{"l1. 3600 IN NS ns.l1."}, []string{"ns.l1. 3600 IN A " + vC07AddrT1})
	l.zRoot.delegate("l2.", []string{"l2. 3600 IN NS ns.l2."}, []string{"ns.l2. 3600 IN A " + vC07AddrT2})
	// l3. is served by the root itself (no cut at l3.): the root delegates two labels at once.
	l.zRoot.delegate(vC07Evil3, []string{"evil.l3. 3600 IN NS ns.evil.l3."}, []string{"ns.evil.l3. 3600 IN A " + vC07AddrEvil})
	l.zRoot.delegate(vC07Bank3, []string{"bank.l3. 3600 IN NS ns.bank.l3."}, []string{"ns.bank.l3. 3600 IN A " + vC07AddrBank})
	l.zT1 = vC07NewZone("l1.")
	l.zT1.add("l1. 3600 IN NS ns.l1.", "ns.l1. 3600 IN A "+vC07AddrT1)
	l.zT1.delegate(vC07Evil, []string{"evil.l1. 3600 IN NS ns.evil.l1."}, []string{"ns.evil.l1. 3600 IN A " + vC07AddrEvil})
	l.zT1.delegate(vC07Bank, []string{"bank.l1. 3600 IN NS ns.bank.l1."}, []string{"ns.bank.l1. 3600 IN A " + vC07AddrBank})
	l.zT2 = vC07NewZone("l2.")
	l.zT2.add("l2. 3600 IN NS ns.l2.", "ns.l2. 3600 IN A "+vC07AddrT2)
	// other.l2. is served by the bank's server and named by an out-of-bailiwick host: glueless
	l.zT2.delegate(vC07Other, []string{"other.l2. 3600 IN NS ns.bank.l3."}, nil)
	l.zT2.delegate(vC07Victim, []string{"victim.l2. 3600 IN NS ns.victim.l2."}, []string{"ns.victim.l2. 3600 IN A " + vC07AddrVictim})
	l.zBank = vC07NewZone(vC07Bank)
	l.zBank.add("bank.l1. 3600 IN NS ns.bank.l1.", "ns.bank.l1. 3600 IN A "+vC07AddrBank,
		"www.bank.l1. 300 IN A 198.51.100.21", "bank.l1. 300 IN A 198.51.100.20")
	l.zBank3 = vC07NewZone(vC07Bank3)
	l.zBank3.add("bank.l3. 3600 IN NS ns.bank.l3.", "ns.bank.l3. 3600 IN A "+vC07AddrBank, "www.bank.l3. 300 IN A 198.51.100.31")
	l.zOther = vC07NewZone(vC07Other)
	l.zOther.add("other.l2. 3600 IN NS ns.bank.l3.", "www.other.l2. 300 IN A 198.51.100.32")
	l.zVictim = vC07NewZone(vC07Victim)
	l.zVictim.add("victim.l2. 3600 IN NS ns.victim.l2.", "ns.victim.l2. 3600 IN A "+vC07AddrVictim,
		"www.victim.l2. 300 IN A 198.51.100.22", "victim.l2. 300 IN A 198.51.100.23", "mail.victim.l2. 300 IN A 198.51.100.24")
	l.zEvil = vC07NewZone(vC07Evil)
	l.zEvil.add("evil.l1. 3600 IN NS ns.evil.l1.", "ns.evil.l1. 3600 IN A "+vC07AddrEvil, "ok.evil.l1. 300 IN A 198.51.100.66")
	l.zEvil3 = vC07NewZone(vC07Evil3)
	l.zEvil3.add("evil.l3. 3600 IN NS ns.evil.l3.", "ns.evil.l3. 3600 IN A "+vC07AddrEvil, "ok.evil.l3. 300 IN A 198.51.100.67")

	var err error
	mk := func(label string, zs ...*vC07Zone) *vC07Auth {
		if err != nil {
			return nil
		}
		var a *vC07Auth
		a, err = vC07StartAuth(label, vC07ServeMulti(zs...))
		if a != nil {
			l.all = append(l.all, a)
		}
		return a
	}
	l.root = mk("root", l.zRoot)
	l.t1 = mk("l1", l.zT1)
	l.t2 = mk("l2", l.zT2)
	l.evil = mk("evil", l.zEvil, l.zEvil3)
	l.bank = mk("bank", l.zBank, l.zBank3, l.zOther)
	l.honestEvil = vC07ServeMulti(l.zEvil, l.zEvil3)
	l.honestBank = vC07ServeMulti(l.zBank, l.zBank3, l.zOther)
	l.victim = mk("victim", l.zVictim)
	if err != nil {
		l.stop()
		return nil, err
	}
	l.remap[vC07AddrT1+":53"] = l.t1.addr
	l.remap[vC07AddrT2+":53"] = l.t2.addr
	l.remap[vC07AddrEvil+":53"] = l.evil.addr
	l.remap[vC07AddrBank+":53"] = l.bank.addr
	l.remap[vC07AddrVictim+":53"] = l.victim.addr
	l.remap[vC07AddrRogue+":53"] = l.evil.addr
	return l, nil
}

func (l *vC07Lab) stop() {
	for _, a := range l.all {
		a.stop()
	}
}

// truth reports whether rr is genuine data of the zone that really owns its
// name (the lab tree), i.e. what that zone's own server would put in an answer.
func (l *vC07Lab) truth(rr dns.RR) bool {
	owner := strings.ToLower(rr.Header().Name)
	var z *vC07Zone
	switch {
	case dns.IsSubDomain(vC07Evil, owner), dns.IsSubDomain(vC07Evil3, owner):
		return true // the attacker may say anything about its own names
	case dns.IsSubDomain(vC07Bank, owner):
		z = l.zBank
	case dns.IsSubDomain(vC07Bank3, owner):
		z = l.zBank3
	case dns.IsSubDomain(vC07Other, owner):
		z = l.zOther
	case dns.IsSubDomain(vC07Victim, owner):
		z = l.zVictim
	case dns.IsSubDomain("l1.", owner):
		z = l.zT1
	case dns.IsSubDomain("l2.", owner):
		z = l.zT2
	default:
		z = l.zRoot
	}
	for _, g := range z.records[owner+"/"+dns.TypeToString[rr.Header().Rrtype]] {
		if dns.IsDuplicate(g, rr) {
			return true
		}
	}
	return false
}

func (l *vC07Lab) drainAsked() map[string][]string {
	res := map[string][]string{}
	for _, a := range l.all {
		if q := a.takeAsked(); len(q) > 0 {
			res[a.label] = q
		}
	}
	return res
}

// vC07Pipe is one fresh resolver behind one fresh cache.
type vC07Pipe struct {
	h   *DNSHandler
	cm  *cachemw.Cache
	rec *vC07RecQueryer
}

type vC07ChainQueryer struct{ handlers []middleware.Handler }

func (q *vC07ChainQueryer) Query(ctx context.Context, req *dns.Msg) (*dns.Msg, error) {
	w := mock.NewWriter("tcp", "127.0.0.255:0")
	ch := middleware.NewChain(q.handlers)
	ch.Reset(w, req)
	ch.Next(ctx)
	if !w.Written() {
		return nil, middleware.ErrNoResponse
	}
	return w.Msg(), nil
}

// vC07RecQueryer wraps the cache's Queryer and records every sub-query with what it returned
type vC07SubRec struct {
	name   string
	qtype  uint16
	err    bool
	rcode  int
	answer []dns.RR
	hasNs  bool
}

type vC07RecQueryer struct {
	inner middleware.Queryer
	mu    sync.Mutex
	recs  []vC07SubRec
}

func (q *vC07RecQueryer) Query(ctx context.Context, req *dns.Msg) (*dns.Msg, error) {
	name, qtype := req.Question[0].Name, req.Question[0].Qtype
	resp, err := q.inner.Query(ctx, req)
	rec := vC07SubRec{name: name, qtype: qtype, err: err != nil || resp == nil}
	if !rec.err {
		rec.rcode = resp.Rcode
		rec.answer = append([]dns.RR{}, resp.Answer...)
		rec.hasNs = len(resp.Ns) > 0
	}
	q.mu.Lock()
	q.recs = append(q.recs, rec)
	q.mu.Unlock()
	return resp, err
}

func (q *vC07RecQueryer) take() []vC07SubRec {
	q.mu.Lock()
	defer q.mu.Unlock()
	r := q.recs
	q.recs = nil
	return r
}

var vC07QuietOnce sync.Once

func vC07Quiet() {
	vC07QuietOnce.Do(func() {
		logger := zlog.NewStructured()
		logger.SetWriter(zlog.StdoutTerminal())
		logger.SetLevel(zlog.LevelFatal)
		zlog.SetDefault(logger)
	})
}

func (l *vC07Lab) newPipe(minLevel int, scratch string) *vC07Pipe {
	vC07Quiet()
	cfg := new(config.Config)
	cfg.RootServers = []string{l.root.addr}
	cfg.Root6Servers = nil
	cfg.Maxdepth = 30
	cfg.Expire = 600
	cfg.CacheSize = 1024
	cfg.Timeout.Duration = 1500 * time.Millisecond
	cfg.Directory = scratch
	cfg.IPv6Access = false
	cfg.DNSSEC = "off"
	cfg.RateLimit = 0
	cfg.QnameMinLevel = minLevel
	h := New(cfg)
	remap := l.remap
	mapper := func(addr string) string {
		if to, ok := remap[addr]; ok {
			return to
		}
		return addr
	}
	h.resolver.resolveTarget.Store(&mapper)
	cm := cachemw.New(cfg)
	sub := &vC07ChainQueryer{handlers: []middleware.Handler{cm, h}}
	rec := &vC07RecQueryer{inner: sub}
	cm.SetQueryer(rec)
	cm.SetPrefetchQueryer(sub)
	var qr middleware.Queryer = sub
	h.resolver.queryer.Store(&qr)
	return &vC07Pipe{h: h, cm: cm, rec: rec}
}

func (p *vC07Pipe) close() {
	p.cm.Stop()
	p.h.Stop()
}

func (p *vC07Pipe) ask(name string, qtype uint16) *dns.Msg {
	req := new(dns.Msg)
	req.SetQuestion(name, qtype)
	req.SetEdns0(1232, false)
	w := mock.NewWriter("udp", "127.0.0.1:0")
	ch := middleware.NewChain([]middleware.Handler{p.cm, p.h})
	ch.Reset(w, req)
	ctx, cancel := context.WithTimeout(context.Background(), 8*time.Second)
	defer cancel()
	ch.Next(ctx)
	if !w.Written() {
		return nil
	}
	return w.Msg()
}

func vC07Scratch() string {
	d := os.Getenv("VERIF_SCRATCH")
	if d == "" {
		d = "."
	}
	return d
}

func vC07RRStrings(rrs []dns.RR) []string {
	var out []string
	for _, rr := range rrs {
		if rr.Header().Rrtype == dns.TypeOPT {
			continue
		}
		h := *rr.Header()
		s := strings.Join(strings.Fields(strings.Replace(rr.String(), h.String(), "", 1)), " ")
		out = append(out, fmt.Sprintf("%s %s %s", strings.ToLower(h.Name), dns.TypeToString[h.Rrtype], s))
	}
	return out
}

func vC07Sorted(m map[string][]string) []string {
	var out []string
	for k, v := range m {
		out = append(out, k+": "+strings.Join(v, ","))
	}
	sort.Strings(out)
	return out
}
