//go:build verif

package resolver

// C08 chain driver (overlay-injected, never committed to /repo): the full
// pipeline (cache middleware + resolver) against root -> tld. -> { z0.tld. ..
// zn.tld. } on loopback, where every zone but the last publishes CNAMEs into
// the next one: "c..c<leaf>.z0.tld." -> "c..<leaf>.z1.tld." -> .. ->
// "<leaf>.zn.tld.".  Each zone is delegated with its own lease.  The cache layer
// (Cache.additionalAnswer) chases each alias with sub-queries under forked
// request trees, nested: leg k's chase resolves leg k+1 (which chases leg k+2
// ..) and, when that reply ends in an alias without a record of the question's
// type, asks the last alias target again (answered from the entry the deeper
// leg stored).
//
// The sub-queries are OBSERVED: the cache's internal queryer is wrapped so that
// every Query is logged with the question that was being served when it was
// issued, whether an authoritative server was asked while it ran (miss / hit)
// and the shape of its reply as the chase loop sees it.  The Coq side runs the
// model's loop (Model.chase) over those shapes and requires that it issues
// exactly these sub-queries and inherits exactly where the code did (the stored
// entries' cuts).
//
// Then tld. re-points (or withdraws) one zone of the chain - the victim - the
// virtual clock moves to the end of the lease the parent side granted for it
// (+3 s) and the client repeats the question: the reply must not carry data
// reached through the victim's old servers and those must not be asked.

import (
	"context"
	"encoding/json"
	"fmt"
	"math/rand"
	"os"
	"path/filepath"
	"strings"
	"sync"
	"testing"
	"time"

	"github.com/miekg/dns"
	"github.com/semihalev/sdns/middleware"
)

type vC08ChainParams struct {
	TLD      uint32
	NS       []uint32 // NS TTL of zone k's referral (s); len = number of zones (2..4)
	Alias    []uint32 // TTL of zone k's CNAMEs (k < n)
	Outcome  int      // of the final name: 0 address, 1 NXDOMAIN, 2 NODATA
	Bare     bool     // the final zone denies with the bare rcode
	AnsTTL   uint32
	NegTTL   uint32
	Victim   int
	Withdraw bool
	Wire     bool
	Warm     bool  // a client asked the final name itself beforehand: the last leg is answered from the stored entry
	GapS     int64 // virtual seconds between the warm-up and the chain's tree
}

// one logged sub-query of the cache layer
type vC08SubQ struct {
	parent  string // question being served when it was issued
	name    string
	miss    bool // an authoritative server was asked while it ran
	err     bool
	records bool
	nx      bool
	more    bool
}

// vC08ChainQueryer: the guard queryer with a log.  Sub-queries nest synchronously on one goroutine per request tree.
type vC08ChainQueryer struct {
	inner middleware.Queryer
	w     *vC08World
	mu    sync.Mutex
	stack []string
	subs  []*vC08SubQ
}

func (q *vC08ChainQueryer) asked() int {
	q.w.mu.Lock()
	defer q.w.mu.Unlock()
	return len(q.w.log)
}

func (q *vC08ChainQueryer) Query(ctx context.Context, req *dns.Msg) (*dns.Msg, error) {
	name := dns.CanonicalName(req.Question[0].Name)
	qtype := req.Question[0].Qtype
	q.mu.Lock()
	e := &vC08SubQ{parent: q.stack[len(q.stack)-1], name: name}
	q.subs = append(q.subs, e)
	q.stack = append(q.stack, name)
	q.mu.Unlock()
	before := q.asked()
	res, err := q.inner.Query(ctx, req)
	after := q.asked()
	q.mu.Lock()
	q.stack = q.stack[:len(q.stack)-1]
	e.miss = after > before
	e.err = err != nil || res == nil
	if res != nil {
		e.records = len(res.Answer) > 0 || len(res.Ns) > 0
		e.nx = res.Rcode == dns.RcodeNameError
		alias, hasType := false, false
		for _, rr := range res.Answer {
			if rr.Header().Rrtype == dns.TypeCNAME {
				alias = true
			}
			if rr.Header().Rrtype == qtype {
				hasType = true
			}
		}
		e.more = alias && !hasType
	}
	q.mu.Unlock()
	return res, err
}

func vC08ChainCase(t *testing.T, o *vC08Out, w *vC08World, pr vC08ChainParams, kindPrefix string) {
	const sec = int64(time.Second)
	nz := len(pr.NS)
	n := nz - 1 // aliases
	spare := 2 + 4
	zone := func(k int) string { return fmt.Sprintf("z%d.tld.", k) }
	w.mu.Lock()
	for _, s := range w.srvs {
		s.deleg, s.mode, s.ansTTL, s.negTTL = map[string]*vC08Deleg{}, 0, pr.AnsTTL, pr.NegTTL
		s.dnameTo, s.cnameTo, s.aliasTTL, s.allExist, s.bareNeg = "", "", 0, false, false
	}
	w.srvs[0].deleg["tld."] = &vC08Deleg{nsTTL: []uint32{pr.TLD}, target: 1, active: true}
	for k := 0; k < nz; k++ {
		w.srvs[1].deleg[zone(k)] = &vC08Deleg{nsTTL: []uint32{pr.NS[k]}, target: 2 + k, active: true}
		if k < n {
			w.srvs[2+k].cnameTo, w.srvs[2+k].aliasTTL = zone(k+1), pr.Alias[k]
		}
	}
	w.srvs[2+n].bareNeg = pr.Bare
	w.srvs[spare].zone = zone(pr.Victim)
	w.srvs[spare].allExist = true
	w.log = nil
	w.mu.Unlock()

	p := vC08NewPipeWith(t, w, 0, 0, nil)
	defer p.close()
	var guard middleware.Queryer = &vC08GuardQueryer{handlers: []middleware.Handler{p.cm, p.h}}
	leaf := []string{"w1", "nx1", "w1"}[pr.Outcome]
	qtype := dns.TypeA
	if pr.Outcome == 2 {
		qtype = dns.TypeAAAA
	}
	qname := func(k int) string { return strings.Repeat("c", n-k) + leaf + "." + zone(k) }
	cq := &vC08ChainQueryer{inner: guard, w: w, stack: []string{qname(0)}}
	var sub middleware.Queryer = cq
	p.cm.SetQueryer(sub)
	p.h.resolver.queryer.Store(&guard)

	inconcl, why := false, ""
	wantRcode := []int{dns.RcodeSuccess, dns.RcodeNameError, dns.RcodeSuccess}[pr.Outcome]
	var w0, w1 int64
	if pr.Warm {
		cq.mu.Lock()
		cq.stack = []string{qname(n)}
		cq.mu.Unlock()
		w0 = p.now()
		wrep := p.askAlias(qname(n), qtype, pr.Wire)
		w1 = p.now()
		if !wrep.ok || wrep.rcode != wantRcode || w1-w0 > sec {
			inconcl, why = true, "warm-up failed"
		}
		w.takeLog()
		if pr.GapS > 0 {
			p.advance(time.Duration(pr.GapS * sec))
		}
		cq.mu.Lock()
		cq.stack = []string{qname(0)}
		if len(cq.subs) > 0 {
			inconcl, why = true, why+" warm-up issued sub-queries"
		}
		cq.mu.Unlock()
	}
	t0 := p.now()
	rep := p.askAlias(qname(0), qtype, pr.Wire)
	t1 := p.now()
	for _, e := range w.takeLog() {
		if pr.Warm && e.srv == 2+n {
			inconcl, why = true, why+" warm-up entry or lease over"
		}
	}
	if !rep.ok || t1-t0 > sec {
		inconcl, why = true, why+" slow or no reply"
	}
	bareDenial := pr.Bare && pr.Outcome != 0
	wantSrc := 2 + n
	if bareDenial {
		wantSrc = -1
	}
	if rep.rcode != wantRcode || rep.src != wantSrc {
		inconcl, why = true, why+fmt.Sprintf(" unexpected first reply rcode=%d src=%d", rep.rcode, rep.src)
	}

	// the observed sub-queries, per leg
	legOf := map[string]int{}
	for k := 0; k < nz; k++ {
		legOf[qname(k)] = k
	}
	hops := make([][]string, nz)
	hopsDesc := make([][]string, nz)
	cq.mu.Lock()
	for _, e := range cq.subs {
		pk, ok1 := legOf[e.parent]
		j, ok2 := legOf[e.name]
		if !ok1 || !ok2 || e.err {
			inconcl, why = true, why+fmt.Sprintf(" sub-query outside the chain or failed: %+v", *e)
			continue
		}
		hops[pk] = append(hops[pk], fmt.Sprintf("(%d%%nat, %s, %s, %s, %s)", j, vC08B(!e.miss), vC08B(e.records), vC08B(e.nx), vC08B(e.more)))
		hopsDesc[pk] = append(hopsDesc[pk], fmt.Sprintf("%s(hit=%v records=%v nx=%v more=%v)", e.name, !e.miss, e.records, e.nx, e.more))
	}
	cq.subs = nil
	cq.mu.Unlock()

	var ds, dsDesc []string
	for _, z := range append([]string{"tld."}, func() []string {
		var l []string
		for k := 0; k < nz; k++ {
			l = append(l, zone(k))
		}
		return l
	}()...) {
		e, ok := p.deleg(z)
		ds = append(ds, vC08OZ2(ok, e))
		if ok {
			dsDesc = append(dsDesc, fmt.Sprintf("%s exp=%v", z, time.Duration(e)))
		} else {
			dsDesc = append(dsDesc, z+" none")
		}
	}
	// the TTL the final denial's records carry when they reach the legs above: as published - or, after a warm-up, what the
	// stored entry's hit hands out: its remaining lifetime in whole seconds (CacheEntry.ToMsg) at the instant of the hit,
	// somewhere in [t0, t1]
	negTTL := int64(pr.NegTTL)
	if pr.Warm {
		if e, ok := vC08PeekAny(p, qname(n), qtype); ok {
			rem := func(at int64) int64 {
				r := int64(e.TTL) - (at - p.virt(e.Stored))
				if !e.CutUntil.IsZero() {
					if c := p.virt(e.CutUntil) - at; c < r {
						r = c
					}
				}
				return r / sec
			}
			negTTL = rem(t0)
			if rem(t1) != negTTL {
				inconcl, why = true, why+" the hit's TTL crossed a whole second inside the bracket"
			}
		}
	}
	var ents, entsDesc, legs []string
	for k := 0; k < nz; k++ {
		et, ed := vC08EntryTermQ(p, qname(k), qtype)
		ents = append(ents, et)
		entsDesc = append(entsDesc, ed)
		// the TTL leg k's entry is admitted with: the stored message keeps the records of the leg's own question - its
		// alias - and, for a denial, the authority section; a reply without any record gets dnsutil.MinCacheTTL
		var ttl int64
		switch {
		case k == n && pr.Outcome == 0:
			ttl = int64(pr.AnsTTL)
		case k == n && bareDenial:
			ttl = int64(vC08BareNegTTL)
		case k == n:
			ttl = int64(pr.NegTTL)
		default:
			ttl = int64(pr.Alias[k])
			if pr.Outcome != 0 && !bareDenial && negTTL < ttl {
				ttl = negTTL
			}
		}
		legs = append(legs, fmt.Sprintf("(%d%%Z, %s%%Z, [%s])", pr.NS[k], vC08Z(ttl*sec), strings.Join(hops[k], "; ")))
	}

	// the parent re-points (a spare server with other content) or withdraws the victim zone
	w.mu.Lock()
	d := w.srvs[1].deleg[zone(pr.Victim)]
	if pr.Withdraw {
		d.active = false
	} else {
		d.target = spare
	}
	w.mu.Unlock()
	h12 := int64(12 * time.Hour)
	capd := func(ttl uint32) int64 {
		v := int64(ttl) * sec
		if v > h12 {
			v = h12
		}
		return v
	}
	obsFirst := t1
	if pr.Warm {
		obsFirst = w1
	}
	lease := obsFirst + capd(pr.TLD)
	obsV := t1
	if pr.Victim == n {
		obsV = obsFirst
	}
	if v := obsV + capd(pr.NS[pr.Victim]); v < lease {
		lease = v
	}
	if dd := lease + vC08Margin - p.now(); dd > 0 {
		p.advance(time.Duration(dd))
	}
	cq.mu.Lock()
	cq.stack = []string{qname(0)}
	cq.mu.Unlock()
	t4 := p.now()
	rep4 := p.askAlias(qname(0), qtype, pr.Wire)
	log4 := w.takeLog()
	oldAsked := false
	for _, e := range log4 {
		if e.srv == 2+pr.Victim {
			oldAsked = true
		}
	}
	if !rep4.ok {
		inconcl, why = true, why+" no second reply"
	}
	// what lies behind the victim's old alias is the old final zone's data: its address / its SOA; a denial without any
	// provenance can only be the old final servers' bare denial (tld.'s and the spare's replies name their source)
	fromOld := rep4.src == 2+n || (bareDenial && rep4.ok && rep4.rcode == wantRcode && rep4.src < 0)
	goFail := ""
	if !inconcl && t4 >= lease && (fromOld || oldAsked) {
		goFail = fmt.Sprintf("ghost: %s %s asked again at t=%v, after the lease the parent side granted for %s ended (%v) and tld. had re-pointed/withdrawn it: rcode=%d src=%d, reply carries data reached through the old servers=%v, old servers asked=%v",
			qname(0), dns.TypeToString[qtype], time.Duration(t4), zone(pr.Victim), time.Duration(lease), rep4.rcode, rep4.src, fromOld, oldAsked)
	}
	kind := fmt.Sprintf("%schain%d-%s", kindPrefix, n, []string{"address", "nxdomain", "nodata"}[pr.Outcome])
	if bareDenial {
		kind += "-bare"
	}
	kind += fmt.Sprintf("-victim%d", pr.Victim)
	warmTerm := "None"
	if pr.Warm {
		kind += "-warm"
		warmTerm = fmt.Sprintf("(Some (%s%%Z, %s%%Z))", vC08Z(w0), vC08Z(w1))
	}
	m := map[string]any{
		"k": kind, "go_fail": goFail, "nontrivial": !inconcl,
		"coq": fmt.Sprintf("CaseChain %d [%s] %s %s %s [%s] [%s] %d %s %s %s",
			pr.TLD, strings.Join(legs, "; "), warmTerm, vC08Z(t0), vC08Z(t1), strings.Join(ds, "; "), strings.Join(ents, "; "),
			pr.Victim, vC08Z(t4), vC08B(fromOld), vC08B(oldAsked)),
		"desc": fmt.Sprintf("TTLs tld %d zones %v aliases %v answer %d neg %d bare=%v; %s %s (outcome %d) victim z%d withdraw=%v wire=%v warm=%v gap=%ds: tree [%v..%v] rcode=%d src=%d; sub-queries per leg %v; %v; %v; lease end %v, asked again at t=%v: rcode=%d src=%d old servers asked=%v",
			pr.TLD, pr.NS, pr.Alias, pr.AnsTTL, pr.NegTTL, pr.Bare, qname(0), dns.TypeToString[qtype], pr.Outcome, pr.Victim, pr.Withdraw, pr.Wire, pr.Warm, pr.GapS,
			time.Duration(t0), time.Duration(t1), rep.rcode, rep.src, hopsDesc, dsDesc, entsDesc, time.Duration(lease), time.Duration(t4), rep4.rcode, rep4.src, oldAsked),
	}
	if inconcl {
		m["inconclusive"] = true
		m["desc"] = m["desc"].(string) + " | inconclusive:" + why
	}
	o.emit(m)
}

func vC08ChainCorpus(t *testing.T) []vC08ChainParams {
	dir := os.Getenv("VERIF_CORPUS")
	if dir == "" {
		return nil
	}
	raw, err := os.ReadFile(filepath.Join(dir, "chain.json"))
	if err != nil {
		return nil
	}
	var items []vC08ChainParams
	if err := json.Unmarshal(raw, &items); err != nil {
		t.Fatalf("corpus chain.json: %v", err)
	}
	return items
}

func TestVerifC08Chain(t *testing.T) {
	o := vC08Open(t)
	defer o.f.Close()
	seed := int64(vC08EnvInt("VERIF_SEED", 1))
	n := vC08EnvInt("VERIF_N", 60)
	r := rand.New(rand.NewSource(seed*86028121 + 11))
	w := &vC08World{}
	for _, z := range []string{".", "tld.", "z0.tld.", "z1.tld.", "z2.tld.", "z3.tld.", "z0.tld."} {
		w.start(t, z)
	}
	defer w.stopAll()
	for _, pr := range vC08ChainCorpus(t) {
		vC08ChainCase(t, o, w, pr, "corpus-")
	}
	for c := 0; c < n; c++ {
		nz := 2 + r.Intn(3)
		pr := vC08ChainParams{
			TLD:      []uint32{3600, 86400, 172800}[r.Intn(3)],
			Outcome:  []int{0, 1, 2, 2}[r.Intn(4)],
			Bare:     r.Intn(3) == 0,
			AnsTTL:   []uint32{60, 3600, 86400}[r.Intn(3)],
			NegTTL:   []uint32{30, 600, 3600}[r.Intn(3)],
			Withdraw: r.Intn(2) == 0,
			Wire:     r.Intn(2) == 0,
		}
		for k := 0; k < nz; k++ {
			pr.NS = append(pr.NS, []uint32{3600, 43200, 172800}[r.Intn(3)])
			pr.Alias = append(pr.Alias, []uint32{60, 3600, 86400}[r.Intn(3)])
		}
		pr.Alias = pr.Alias[:nz-1]
		// one zone with a short lease: the victim most of the time (everything else is still running when it ends)
		short := r.Intn(nz)
		pr.NS[short] = []uint32{2, 4, 10, 30, 300}[r.Intn(5)]
		pr.Victim = short
		if r.Intn(4) == 0 {
			pr.Victim = r.Intn(nz)
		}
		pr.Warm = r.Intn(3) == 0
		own := []uint32{pr.AnsTTL, pr.NegTTL, pr.NegTTL}[pr.Outcome]
		if pr.Bare && pr.Outcome != 0 {
			own = vC08BareNegTTL
		}
		if eff := min(pr.NS[nz-1], pr.TLD, 43200, own); pr.Warm && eff >= 4 && r.Intn(2) == 0 {
			pr.GapS = int64(eff) / 2 // half of the stored answer's life (its own TTL, the last zone's lease, tld.'s) has run
		}
		vC08ChainCase(t, o, w, pr, "")
	}
}
