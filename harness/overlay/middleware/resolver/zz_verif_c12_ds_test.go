//go:build verif

package resolver

// C12 driver (DS digest work): dnssec.VerifyDSWithWork and, when it succeeded, dnssec.DSMatchedKeys — the sequence
// Resolver.verifyDNSSEC runs on the DNSKEY RRset of a signed zone — governed by the resolver's real dnssecWorkBudget
// adapter over a real RecursionWorkLedger.
//
// Generated input (a plan, so that corpus/C12/ds.json can name one): DNSKEYs in 1..3 key-tag groups (the keys of a
// group collide on their tag: arbitrary 32-octet Ed25519-shaped keys whose last two octets are solved for the tag) and
// a DS set of 0..14 records: genuine ones (miekg's DNSKEY.ToDS, SHA-1 / SHA-256 / SHA-384), records naming a key with a
// wrong digest of the right or of a wrong length (several per key; the DS order is by tag, algorithm, digest type,
// digest text, so they fall before and after the genuine one), unsupported digest types and algorithms, undecodable and
// empty digests, a tag no key has, another (supported) algorithm, duplicates in another letter case.
// Limits (candidates per DS record, DS digests per tree) are small and random; mode is enforce or shadow.
// Observed: VerifyDS's verdict, the set of keys DSMatchedKeys returned, the ledger (DS-digest counter, exhaustion
// bits, first latched kind).  The case gives the shape in PROCESSING order, computed here independently: DS records
// unique by identity and sorted as dsID orders them, candidates = the usable keys of the record's tag bucket sorted by
// public-key text, "matches" by comparing with miekg's ToDS.

import (
	"context"
	"encoding/hex"
	"encoding/json"
	"errors"
	"fmt"
	"math/rand"
	"os"
	"sort"
	"strconv"
	"strings"
	"testing"

	"github.com/miekg/dns"
	"github.com/semihalev/sdns/middleware"
	"github.com/semihalev/sdns/middleware/resolver/dnssec"
)

// DS record kinds of a plan
const (
	vC12DSGenuine = iota
	vC12DSWrong
	vC12DSWrongLen
	vC12DSUnsupType
	vC12DSUndecodable
	vC12DSEmpty
	vC12DSUnknownTag
	vC12DSOtherAlg
	vC12DSDuplicate
	vC12DSUnsupAlg
)

type vC12DSPlan struct {
	Mode int      `json:"mode"` // 1 shadow, 2 enforce
	K    uint32   `json:"K"`
	D    uint32   `json:"D"`
	Tags []int    `json:"tags"` // keys per tag group
	DS   [][3]int `json:"ds"`   // kind, key index (over all keys, group after group), digest type
}

func vC12RandDSPlan(r *rand.Rand) vC12DSPlan {
	p := vC12DSPlan{Mode: 2, K: uint32(1 + r.Intn(5)), D: uint32(1 + r.Intn(12))}
	if r.Intn(4) == 0 {
		p.Mode = 1
	}
	if r.Intn(4) == 0 {
		p.K, p.D = 4, 32 // the defaults
	}
	heavy := r.Intn(4) == 0
	if r.Intn(2) == 0 {
		p.Tags = []int{1 + r.Intn(5)}
		if heavy {
			p.Tags = []int{1 + r.Intn(2)}
		}
	} else {
		for g := 2 + r.Intn(2); g > 0; g-- {
			p.Tags = append(p.Tags, 1+r.Intn(3))
		}
	}
	nkeys := 0
	for _, n := range p.Tags {
		nkeys += n
	}
	dts := []int{int(dns.SHA1), int(dns.SHA256), int(dns.SHA384)}
	nds := r.Intn(15)
	if heavy {
		nds = 8 + r.Intn(7)
	}
	for i := 0; i < nds; i++ {
		kind := vC12DSWrong
		switch x := r.Intn(100); {
		case heavy && x < 80:
		case heavy:
			kind = vC12DSGenuine
		case x < 25:
			kind = vC12DSGenuine
		case x < 60:
		case x < 65:
			kind = vC12DSWrongLen
		case x < 72:
			kind = vC12DSUnsupType
		case x < 76:
			kind = vC12DSUndecodable
		case x < 79:
			kind = vC12DSEmpty
		case x < 85:
			kind = vC12DSUnknownTag
		case x < 90:
			kind = vC12DSOtherAlg
		case x < 96:
			kind = vC12DSDuplicate
		default:
			kind = vC12DSUnsupAlg
		}
		p.DS = append(p.DS, [3]int{kind, r.Intn(nkeys), dts[r.Intn(3)]})
	}
	return p
}

func TestVerifC12DS(t *testing.T) {
	path := os.Getenv("VERIF_OUT")
	if path == "" {
		t.Skip("VERIF_OUT not set")
	}
	f, err := os.Create(path)
	if err != nil {
		t.Fatal(err)
	}
	defer f.Close()
	seed, _ := strconv.Atoi(os.Getenv("VERIF_SEED"))
	n, _ := strconv.Atoi(os.Getenv("VERIF_N"))
	if n == 0 {
		n = 150
	}
	r := rand.New(rand.NewSource(int64(seed)*49979687 + 12))
	var plans []vC12DSPlan
	if dir := os.Getenv("VERIF_CORPUS"); dir != "" {
		if b, err := os.ReadFile(dir + "/ds.json"); err == nil {
			_ = json.Unmarshal(b, &plans)
		}
	}
	for c := 0; c < n+len(plans); c++ {
		var plan vC12DSPlan
		if c < len(plans) {
			plan = plans[c]
			ok := len(plan.Tags) > 0 && plan.K > 0 && plan.D > 0
			nk := 0
			for _, g := range plan.Tags {
				ok = ok && g > 0
				nk += g
			}
			for _, d := range plan.DS {
				ok = ok && d[1] >= 0 && d[1] < nk
			}
			if !ok {
				continue
			}
		} else {
			plan = vC12RandDSPlan(r)
		}
		mode := middleware.RecursionWorkEnforce
		if plan.Mode == 1 {
			mode = middleware.RecursionWorkShadow
		}
		pol := middleware.RecursionWorkPolicy{Mode: mode, MaxOutboundQueries: 128, MaxInternalQueries: 32, MaxDNSKEYCandidates: plan.K,
			MaxRRsetSignatureChecks: 8, MaxSignatureChecks: 32, MaxDSDigests: plan.D, MaxNSEC3Hashes: 32, MaxConcurrentCrypto: 32}

		// ---- keys
		var all []*dns.DNSKEY
		keys := map[uint16][]*dns.DNSKEY{}
		used := map[uint16]bool{}
		for _, g := range plan.Tags {
			tag := uint16(r.Intn(65536))
			for used[tag] {
				tag = uint16(r.Intn(65536))
			}
			used[tag] = true
			for j := 0; j < g; j++ {
				k := vC12Colliding(r, tag)
				all = append(all, k)
				keys[tag] = append(keys[tag], k)
			}
		}
		// ---- DS set
		var dsset []dns.RR
		for _, d := range plan.DS {
			kind, key, dt := d[0], all[d[1]], uint8(d[2])
			ds := key.ToDS(dt)
			if ds == nil {
				ds = key.ToDS(dns.SHA256)
			}
			randHex := func(n int) string {
				b := make([]byte, n)
				r.Read(b)
				return hex.EncodeToString(b)
			}
			switch kind {
			case vC12DSWrong:
				ds.Digest = randHex(len(ds.Digest) / 2)
			case vC12DSWrongLen:
				ds.Digest = randHex(len(ds.Digest)/2 - 1 - r.Intn(3))
			case vC12DSUnsupType:
				ds.DigestType = []uint8{3, 5, 200}[r.Intn(3)]
			case vC12DSUndecodable:
				ds.Digest = "zz" + ds.Digest[2:]
			case vC12DSEmpty:
				ds.Digest = ""
			case vC12DSUnknownTag:
				tag := uint16(r.Intn(65536))
				for used[tag] {
					tag = uint16(r.Intn(65536))
				}
				ds.KeyTag = tag
			case vC12DSOtherAlg:
				ds.Algorithm = dns.ECDSAP256SHA256
			case vC12DSUnsupAlg:
				ds.Algorithm = 200
			case vC12DSDuplicate:
				if len(dsset) > 0 {
					prev := dsset[r.Intn(len(dsset))].(*dns.DS)
					cp := *prev
					if r.Intn(2) == 0 {
						cp.Digest = strings.ToUpper(cp.Digest)
					}
					ds = &cp
				}
			}
			dsset = append(dsset, ds)
		}
		r.Shuffle(len(dsset), func(i, j int) { dsset[i], dsset[j] = dsset[j], dsset[i] })
		for tag := range keys {
			ks := keys[tag]
			r.Shuffle(len(ks), func(i, j int) { ks[i], ks[j] = ks[j], ks[i] })
		}

		// ---- the shape in processing order, computed independently of the code under test
		type dsKey struct {
			tag      uint16
			alg, dt  uint8
			digestUp string
		}
		seen := map[dsKey]bool{}
		var uniq []*dns.DS
		for _, rr := range dsset {
			ds := rr.(*dns.DS)
			id := dsKey{ds.KeyTag, ds.Algorithm, ds.DigestType, strings.ToUpper(ds.Digest)}
			if seen[id] {
				continue
			}
			seen[id] = true
			uniq = append(uniq, ds)
		}
		sort.SliceStable(uniq, func(i, j int) bool {
			a, b := uniq[i], uniq[j]
			switch {
			case a.KeyTag != b.KeyTag:
				return a.KeyTag < b.KeyTag
			case a.Algorithm != b.Algorithm:
				return a.Algorithm < b.Algorithm
			case a.DigestType != b.DigestType:
				return a.DigestType < b.DigestType
			default:
				return strings.ToUpper(a.Digest) < strings.ToUpper(b.Digest)
			}
		})
		// key ids: tag ascending, then public-key text — also the canonical visiting order of DSMatchedKeys
		ordered := append([]*dns.DNSKEY(nil), all...)
		tagOf := map[*dns.DNSKEY]uint16{}
		for tag, ks := range keys {
			for _, k := range ks {
				tagOf[k] = tag
			}
		}
		sort.Slice(ordered, func(i, j int) bool {
			if tagOf[ordered[i]] != tagOf[ordered[j]] {
				return tagOf[ordered[i]] < tagOf[ordered[j]]
			}
			return ordered[i].PublicKey < ordered[j].PublicKey
		})
		idOf := map[*dns.DNSKEY]int{}
		var korder []string
		for i, k := range ordered {
			idOf[k] = i
			korder = append(korder, fmt.Sprintf("%d%%nat", i))
		}
		vouched := map[int]bool{}
		var shape []string
		for _, ds := range uniq {
			sup := (ds.DigestType == dns.SHA1 || ds.DigestType == dns.SHA256 || ds.DigestType == dns.SHA384) &&
				(ds.Algorithm == dns.ED25519 || ds.Algorithm == dns.ECDSAP256SHA256)
			raw, derr := hex.DecodeString(ds.Digest)
			dec := derr == nil && len(raw) > 0
			var cands []string
			for _, k := range ordered {
				if tagOf[k] != ds.KeyTag || k.Algorithm != ds.Algorithm {
					continue
				}
				match := false
				if ref := k.ToDS(ds.DigestType); ref != nil && dec {
					match = strings.EqualFold(ref.Digest, ds.Digest)
				}
				if match && sup {
					vouched[idOf[k]] = true
				}
				cands = append(cands, fmt.Sprintf("(%d%%nat,%s)", idOf[k], vC12Flag(match)))
			}
			shape = append(shape, fmt.Sprintf("(%s,%s,[%s])", vC12Flag(sup), vC12Flag(dec), strings.Join(cands, ";")))
		}

		// ---- the code under test
		ledger := middleware.NewRecursionWorkLedger(pol)
		ctx := middleware.WithRecursionWork(context.Background(), ledger)
		work := (&Resolver{}).dnssecWork(ctx)
		unsupportedOnly, verr := dnssec.VerifyDSWithWork(keys, dsset, work)
		verdict, ekind := 0, 0
		var le *middleware.RecursionWorkLimitError
		var matched []int
		goFail := ""
		switch {
		case verr == nil:
			anchored := dnssec.DSMatchedKeys(keys, dsset, work)
			for _, ks := range anchored {
				for _, k := range ks {
					id, known := idOf[k]
					if !known {
						goFail = "DSMatchedKeys returned a key that is not in the key map"
					}
					if !vouched[id] {
						goFail = fmt.Sprintf("key %d confirmed although no supported DS carries its digest", id)
					}
					matched = append(matched, id)
				}
			}
			sort.Ints(matched)
		case errors.As(verr, &le):
			verdict, ekind = 1, int(le.Kind)
		case unsupportedOnly:
			verdict = 3
		default:
			verdict = 2
		}
		snap := ledger.Snapshot()
		var exh uint32
		if snap.DNSKEYCandidatesExhausted {
			exh |= 4
		}
		if snap.DSDigestsExhausted {
			exh |= 32
		}
		first := 0
		if e := ledger.EnforcementError(); errors.As(e, &le) {
			first = int(le.Kind) + 1
		}
		if mode == middleware.RecursionWorkEnforce && snap.DSDigests > plan.D {
			goFail = fmt.Sprintf("%d DS digests debited on a budget of %d", snap.DSDigests, plan.D)
		}
		ms, fam := "enforce", "multi"
		if mode == middleware.RecursionWorkShadow {
			ms = "shadow"
		}
		if len(plan.Tags) == 1 {
			fam = "single"
		}
		var ml []string
		for _, id := range matched {
			ml = append(ml, fmt.Sprintf("%d%%nat", id))
		}
		b, _ := json.Marshal(map[string]any{
			"k": "ds-" + ms + "-" + fam,
			"coq": fmt.Sprintf("CaseDS %d %d %d [%s] [%s] %s %d %d [%s] %d %d %d", mode, plan.K, plan.D, strings.Join(shape, ";"),
				strings.Join(korder, ";"), vC12Flag(len(plan.Tags) == 1), verdict, ekind, strings.Join(ml, ";"), snap.DSDigests, exh, first),
			"nontrivial": verdict == 1 || exh != 0 || snap.DSDigests >= 3,
			"go_fail":    goFail,
			"desc": map[string]any{"mode": ms, "max_dnskey_candidates": plan.K, "max_ds_digests": plan.D, "keys_per_tag": plan.Tags,
				"plan(kind,key,digest type)": plan.DS, "ds records (supported, decodes, [(key, matches)])": shape, "verify_ds_verdict": verdict, "limit_kind": ekind,
				"confirmed_keys": matched, "ds_digests": snap.DSDigests, "exhausted_bits": exh, "first": first},
		})
		f.Write(append(b, '\n'))
	}
}
