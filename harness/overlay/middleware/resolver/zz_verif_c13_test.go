//go:build verif

package resolver

// C13 correspondence driver for the resolver-side admission filter
// (overlay-injected).  Resolver.recordResolutionZoneFailure is called with
// every combination of: empty zone, optional-enrichment context, request
// context state (live, cancelled, deadline exceeded, deadline reached but not
// yet published), and the error that ended the zone's server loop (none =
// failure rcode from every server, network errors, and every request-local
// error, bare and wrapped).  Observed: did the call reach the store's
// RecordZoneFailure, and with which zone and class.

import (
	"context"
	"encoding/json"
	"errors"
	"fmt"
	"math/rand"
	"net"
	"os"
	"strconv"
	"strings"
	"sync"
	"testing"
	"time"

	"github.com/miekg/dns"
	"github.com/semihalev/sdns/internal/authority"
	"github.com/semihalev/sdns/middleware"
)

type vC13ZoneStore struct {
	recorded []string
	cleared  []string
}

func (s *vC13ZoneStore) Get(*dns.Msg) (*dns.Msg, bool)             { return nil, false }
func (s *vC13ZoneStore) SetFromResponse(*dns.Msg, bool, time.Time) {}
func (s *vC13ZoneStore) RecordZoneFailure(q dns.Question, zone string) {
	s.recorded = append(s.recorded, fmt.Sprintf("%s/%d", zone, q.Qclass))
}
func (s *vC13ZoneStore) ClearZoneFailure(q dns.Question, zone string) {
	s.cleared = append(s.cleared, fmt.Sprintf("%s/%d", zone, q.Qclass))
}

type vC13DeadlineCtx struct {
	context.Context
	at time.Time
}

func (c vC13DeadlineCtx) Deadline() (time.Time, bool) { return c.at, true }

func TestVerifC13ZoneAdmit(t *testing.T) {
	p := os.Getenv("VERIF_OUT")
	if p == "" {
		t.Skip("VERIF_OUT not set")
	}
	f, err := os.Create(p)
	if err != nil {
		t.Fatal(err)
	}
	defer f.Close()
	seed := int64(1)
	if s, err := strconv.Atoi(os.Getenv("VERIF_SEED")); err == nil {
		seed = int64(s)
	}
	reps := 1
	if n, err := strconv.Atoi(os.Getenv("VERIF_N")); err == nil && n > 400 {
		reps = n / 200
	}
	r := rand.New(rand.NewSource(seed))
	type causeT struct {
		coq  string
		name string
		err  error
	}
	attempt := &middleware.ResolutionAttemptLimitError{Question: dns.Question{Name: "x.", Qtype: 1, Qclass: 1}, Endpoint: "192.0.2.1:53", Transport: "udp"}
	causes := []causeT{
		{"CNone", "failure rcode from every server (nil)", nil},
		{"CNetwork", "i/o timeout", &net.OpError{Op: "read", Net: "udp", Err: os.ErrDeadlineExceeded}},
		{"CNetwork", "connection refused", errors.New("dial udp: connection refused")},
		{"CNetwork", "no reachable authority", errNoReachableAuth},
		{"CCanceled", "context.Canceled", context.Canceled},
		{"CCanceled", "wrapped canceled", fmt.Errorf("exchange: %w", context.Canceled)},
		{"CDeadline", "context.DeadlineExceeded", context.DeadlineExceeded},
		{"CDeadline", "wrapped deadline", fmt.Errorf("lookup: %w", context.DeadlineExceeded)},
		{"CWorkLimit", "work limit", middleware.ErrRecursionWorkLimit},
		{"CWorkLimit", "wrapped work limit", fmt.Errorf("debit: %w", middleware.ErrRecursionWorkLimit)},
		{"CAttemptLimit", "attempt limit", middleware.ErrResolutionAttemptLimit},
		{"CAttemptLimit", "typed attempt limit", attempt},
		{"CMaxRecursion", "max recursion", middleware.ErrMaxRecursion},
		{"CMaxRecursion", "wrapped max recursion", fmt.Errorf("depth: %w", middleware.ErrMaxRecursion)},
	}
	zones := []string{"example.", ".", "Sub.Example.", "a\\.b.example."}
	for rep := 0; rep < reps; rep++ {
		for _, zoneEmpty := range []bool{false, true} {
			for _, bestEffort := range []bool{false, true} {
				for ctxState := 0; ctxState < 4; ctxState++ {
					for budget := 0; budget < 4; budget++ {
						for _, c := range causes {
							st := &vC13ZoneStore{}
							res := &Resolver{}
							var ms middleware.Store = st
							res.store.Store(&ms)
							ctx := context.Background()
							cancel := func() {}
							if bestEffort {
								ctx = middleware.WithBestEffortRecursionWork(ctx)
							}
							// the request tree's work ledger: none / enforce mode, budget crossed (an enforcement
							// rejection is latched) / shadow mode, crossed (nothing latched) / enforce mode, within budget
							budgetHow := []string{"no ledger", "over budget (enforce)", "crossed in shadow mode", "within budget (enforce)"}[budget]
							if budget > 0 {
								mode := middleware.RecursionWorkEnforce
								if budget == 2 {
									mode = middleware.RecursionWorkShadow
								}
								ledger := middleware.NewRecursionWorkLedger(middleware.RecursionWorkPolicy{Mode: mode, MaxOutboundQueries: 1, MaxInternalQueries: 1, MaxSignatureChecks: 1})
								kind := []middleware.RecursionWorkKind{middleware.RecursionWorkOutboundQuery, middleware.RecursionWorkInternalQuery, middleware.RecursionWorkSignature}[r.Intn(3)]
								_ = ledger.Debit(kind)
								if budget != 3 {
									_ = ledger.Debit(kind)
								}
								ctx = middleware.WithRecursionWork(ctx, ledger)
							}
							overBudget := middleware.RecursionWorkEnforcementError(ctx) != nil
							how := "live"
							switch ctxState {
							case 1:
								c2, cf := context.WithCancel(ctx)
								cf()
								ctx = c2
								how = "canceled"
							case 2:
								c2, cf := context.WithDeadline(ctx, time.Unix(1, 0))
								ctx, cancel = c2, cf
								how = "deadline exceeded"
							case 3:
								ctx = vC13DeadlineCtx{Context: ctx, at: time.Unix(1, 0)}
								how = "deadline reached, Err not yet published"
							}
							zone := zones[r.Intn(len(zones))]
							if zoneEmpty {
								zone = ""
							}
							qclass := uint16([]int{1, 3}[r.Intn(2)])
							res.recordResolutionZoneFailure(ctx, dns.Question{Name: "www." + zone, Qtype: dns.TypeA, Qclass: qclass}, zone, c.err)
							cancel()
							obs := len(st.recorded) == 1
							goFail := ""
							if len(st.recorded) > 1 || len(st.cleared) != 0 {
								goFail = fmt.Sprintf("unexpected store calls: recorded=%v cleared=%v", st.recorded, st.cleared)
							}
							if obs && st.recorded[0] != fmt.Sprintf("%s/%d", zone, qclass) {
								goFail = fmt.Sprintf("recorded %q for zone %q class %d", st.recorded[0], zone, qclass)
							}
							k := "zone-admit-shared"
							if overBudget != (budget == 1) {
								goFail = fmt.Sprintf("ledger state %q but RecursionWorkEnforcementError != nil is %v", budgetHow, overBudget)
							}
							if zoneEmpty || bestEffort || ctxState != 0 || budget == 1 || (c.coq != "CNone" && c.coq != "CNetwork") {
								k = "zone-admit-request-local"
							}
							b, _ := json.Marshal(map[string]any{
								"k":          k,
								"coq":        fmt.Sprintf("CaseZoneAdmit %v %v %v %v %s %v", zoneEmpty, bestEffort, ctxState != 0, budget == 1, c.coq, obs),
								"go_fail":    goFail,
								"nontrivial": true,
								"desc":       map[string]any{"zone": zone, "best_effort": bestEffort, "ctx": how, "work_ledger": budgetHow, "cause": c.name, "recorded": obs},
							})
							f.Write(append(b, '\n'))
						}
					}
				}
			}
		}
	}
	vC13Glueless(f, r, reps)
}

// ---- glue-less delegations: Resolver.processDelegation -> lookupV4Nss ----------------------
//
// A referral to child.example. naming 1..4 nameserver hosts without glue.  The address lookup
// of each host goes through the installed Queryer, scripted per host: no address (NXDOMAIN /
// empty NOERROR / an ordinary lookup error) or a request-local cause (the request tree's retry
// guard rejected the tuple, work budget, recursion depth, cancellation, deadline).  A zone
// failure for the child zone may be filed only when EVERY host was looked up and simply had no
// address; as soon as one host could not be looked up for a cause local to this request the
// delegation must end in a request-local error and nothing shared.  Observed: the order in which
// the hosts were looked up, zone failures filed, the class of the returned error and whether
// middleware.IsRequestLocalResolutionError recognises it.
const (
	vC13HostNXDomain = iota
	vC13HostLookupError
	vC13HostAttemptLimit
	vC13HostWorkLimit
	vC13HostMaxRecursion
	vC13HostCanceled
	vC13HostDeadline
	vC13HostEmptyNoError
)

var vC13HostNames = []string{"NXDOMAIN", "lookup error", "attempt limit (retry guard)", "work limit", "max recursion", "canceled", "deadline exceeded", "empty NOERROR"}

type vC13HostQueryer struct {
	mu     sync.Mutex
	behave map[string]int
	order  []string
}

func (q *vC13HostQueryer) Query(ctx context.Context, req *dns.Msg) (*dns.Msg, error) {
	name := strings.ToLower(req.Question[0].Name)
	q.mu.Lock()
	q.order = append(q.order, name)
	b := q.behave[name]
	q.mu.Unlock()
	resp := new(dns.Msg)
	resp.SetReply(req)
	resp.Authoritative = true
	switch b {
	case vC13HostNXDomain:
		resp.Rcode = dns.RcodeNameError
		return resp, nil
	case vC13HostEmptyNoError:
		return resp, nil
	case vC13HostLookupError:
		return nil, &net.OpError{Op: "read", Net: "udp", Err: os.ErrDeadlineExceeded}
	case vC13HostAttemptLimit:
		return nil, &middleware.ResolutionAttemptLimitError{Question: req.Question[0], Endpoint: "203.0.113.53:53", Transport: "udp"}
	case vC13HostWorkLimit:
		return nil, fmt.Errorf("debit: %w", middleware.ErrRecursionWorkLimit)
	case vC13HostMaxRecursion:
		return nil, fmt.Errorf("depth: %w", middleware.ErrMaxRecursion)
	case vC13HostCanceled:
		return nil, fmt.Errorf("exchange: %w", context.Canceled)
	default:
		return nil, fmt.Errorf("lookup: %w", context.DeadlineExceeded)
	}
}

func vC13Glueless(f *os.File, r *rand.Rand, reps int) {
	run := func(codes []int, overBudget bool, kind string) {
		child := "child.example."
		q := &vC13HostQueryer{behave: map[string]int{}}
		resp := new(dns.Msg)
		req := new(dns.Msg)
		req.SetQuestion("www."+child, dns.TypeA)
		resp.SetReply(req)
		var hosts []string
		for i, c := range codes {
			h := fmt.Sprintf("ns%d.%s", i, []string{child, "elsewhere.test.", "Other.Example."}[(i+len(codes))%3])
			hosts = append(hosts, h)
			q.behave[strings.ToLower(h)] = c
			resp.Ns = append(resp.Ns, &dns.NS{Hdr: dns.RR_Header{Name: child, Rrtype: dns.TypeNS, Class: dns.ClassINET, Ttl: 3600}, Ns: h})
		}
		parent := &authority.Servers{Zone: "example."}
		res := vC13LabResolver(parent)
		var mq middleware.Queryer = q
		res.queryer.Store(&mq)
		st := &vC13ZoneStore{}
		var ms middleware.Store = st
		res.store.Store(&ms)
		ctx := context.Background()
		if overBudget {
			ledger := middleware.NewRecursionWorkLedger(middleware.RecursionWorkPolicy{Mode: middleware.RecursionWorkEnforce, MaxOutboundQueries: 1, MaxInternalQueries: 1, MaxSignatureChecks: 1})
			_ = ledger.Debit(middleware.RecursionWorkSignature)
			_ = ledger.Debit(middleware.RecursionWorkSignature)
			ctx = middleware.WithRecursionWork(ctx, ledger)
		}
		info := res.extractDelegationInfo(resp)
		rs := &resolveState{req: req, servers: parent, depth: 5, level: 1}
		_, err := res.processDelegation(ctx, rs, resp, info, false)
		// hosts in the order they were looked up, the ones never reached last
		seen := map[string]bool{}
		var ordered []int
		var orderedNames []string
		for _, n := range q.order {
			if !seen[n] {
				seen[n] = true
				ordered = append(ordered, q.behave[n])
				orderedNames = append(orderedNames, n+"="+vC13HostNames[q.behave[n]])
			}
		}
		reached := len(ordered)
		for _, h := range hosts {
			if !seen[strings.ToLower(h)] {
				ordered = append(ordered, q.behave[strings.ToLower(h)])
				orderedNames = append(orderedNames, strings.ToLower(h)+"="+vC13HostNames[q.behave[strings.ToLower(h)]]+" (not reached)")
			}
		}
		class := 9
		switch {
		case err == nil:
			class = 0
		case errors.Is(err, errNoReachableAuth):
			class = 1
		case errors.Is(err, middleware.ErrResolutionAttemptLimit):
			class = 2
		case errors.Is(err, middleware.ErrRecursionWorkLimit):
			class = 3
		case errors.Is(err, middleware.ErrMaxRecursion):
			class = 4
		case errors.Is(err, context.Canceled):
			class = 5
		case errors.Is(err, context.DeadlineExceeded):
			class = 6
		}
		local := err != nil && middleware.IsRequestLocalResolutionError(err)
		goFail := ""
		for _, z := range st.recorded {
			if z != fmt.Sprintf("%s/%d", child, dns.ClassINET) {
				goFail = fmt.Sprintf("zone failure filed for %q, the delegation is %q", z, child)
			}
		}
		var cs []string
		for _, c := range ordered {
			cs = append(cs, strconv.Itoa(c))
		}
		errText := ""
		if err != nil {
			errText = err.Error()
		}
		b, _ := json.Marshal(map[string]any{
			"k":          kind,
			"coq":        fmt.Sprintf("CaseGlueless [%s]%%N %d %v %d %d %v", strings.Join(cs, ";"), reached, overBudget, len(st.recorded), class, local),
			"go_fail":    goFail,
			"nontrivial": len(codes) > 1,
			"desc":       map[string]any{"delegation": child, "ns_hosts_in_lookup_order": orderedNames, "request_tree_over_budget": overBudget, "zone_failures_filed": st.recorded, "error": errText, "request_local_error": local},
		})
		f.Write(append(b, '\n'))
	}
	// every combination of one and two hosts, then random larger sets
	for a := 0; a < 8; a++ {
		run([]int{a}, false, "glueless-1")
		for b := 0; b < 8; b++ {
			run([]int{a, b}, false, "glueless-2")
		}
	}
	noAddr := []int{vC13HostNXDomain, vC13HostLookupError, vC13HostEmptyNoError}
	for i := 0; i < 120*reps; i++ {
		k := 2 + r.Intn(3)
		codes := make([]int, k)
		for j := range codes {
			codes[j] = noAddr[r.Intn(len(noAddr))]
		}
		switch i % 4 {
		case 1: // one host rejected by the retry guard among address-less ones
			codes[r.Intn(k)] = vC13HostAttemptLimit
		case 2: // any mix
			for j := range codes {
				codes[j] = r.Intn(8)
			}
		case 3: // one request-local cause of any kind
			codes[r.Intn(k)] = 2 + r.Intn(5)
		}
		run(codes, i%8 == 0, "glueless-n")
	}
}
