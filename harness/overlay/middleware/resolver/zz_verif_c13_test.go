//go:build verif

package resolver

// C13 correspondence driver for the resolver-side admission filter
// (overlay-injected).  Resolver.recordResolutionZoneFailure is called with
// every combination of: empty zone, optional-enrichment context, request
// context state (live, cancelled, deadline exceeded, deadline reached but not
// yet published), and the error that ended the zone's server loop (none =
// failure rcode from every server, network errors, and every request-local
// error, bare and wrapped).  Observed: did the call reach the store's
// RecordZoneFailure, and with which zone and class.

import (
	"context"
	"encoding/json"
	"errors"
	"fmt"
	"math/rand"
	"net"
	"os"
	"strconv"
	"testing"
	"time"

	"github.com/miekg/dns"
	"github.com/semihalev/sdns/middleware"
)

type vC13ZoneStore struct {
	recorded []string
	cleared  []string
}

func (s *vC13ZoneStore) Get(*dns.Msg) (*dns.Msg, bool)             { return nil, false }
func (s *vC13ZoneStore) SetFromResponse(*dns.Msg, bool, time.Time) {}
func (s *vC13ZoneStore) RecordZoneFailure(q dns.Question, zone string) {
	s.recorded = append(s.recorded, fmt.Sprintf("%s/%d", zone, q.Qclass))
}
func (s *vC13ZoneStore) ClearZoneFailure(q dns.Question, zone string) {
	s.cleared = append(s.cleared, fmt.Sprintf("%s/%d", zone, q.Qclass))
}

type vC13DeadlineCtx struct {
	context.Context
	at time.Time
}

func (c vC13DeadlineCtx) Deadline() (time.Time, bool) { return c.at, true }

func TestVerifC13ZoneAdmit(t *testing.T) {
	p := os.Getenv("VERIF_OUT")
	if p == "" {
		t.Skip("VERIF_OUT not set")
	}
	f, err := os.Create(p)
	if err != nil {
		t.Fatal(err)
	}
	defer f.Close()
	seed := int64(1)
	if s, err := strconv.Atoi(os.Getenv("VERIF_SEED")); err == nil {
		seed = int64(s)
	}
	reps := 1
	if n, err := strconv.Atoi(os.Getenv("VERIF_N")); err == nil && n > 400 {
		reps = n / 200
	}
	r := rand.New(rand.NewSource(seed))
	type causeT struct {
		coq  string
		name string
		err  error
	}
	attempt := &middleware.ResolutionAttemptLimitError{Question: dns.Question{Name: "x.", Qtype: 1, Qclass: 1}, Endpoint: "192.0.2.1:53", Transport: "udp"}
	causes := []causeT{
		{"CNone", "failure rcode from every server (nil)", nil},
		{"CNetwork", "i/o timeout", &net.OpError{Op: "read", Net: "udp", Err: os.ErrDeadlineExceeded}},
		{"CNetwork", "connection refused", errors.New("dial udp: connection refused")},
		{"CNetwork", "no reachable authority", errNoReachableAuth},
		{"CCanceled", "context.Canceled", context.Canceled},
		{"CCanceled", "wrapped canceled", fmt.Errorf("exchange: %w", context.Canceled)},
		{"CDeadline", "context.DeadlineExceeded", context.DeadlineExceeded},
		{"CDeadline", "wrapped deadline", fmt.Errorf("lookup: %w", context.DeadlineExceeded)},
		{"CWorkLimit", "work limit", middleware.ErrRecursionWorkLimit},
		{"CWorkLimit", "wrapped work limit", fmt.Errorf("debit: %w", middleware.ErrRecursionWorkLimit)},
		{"CAttemptLimit", "attempt limit", middleware.ErrResolutionAttemptLimit},
		{"CAttemptLimit", "typed attempt limit", attempt},
		{"CMaxRecursion", "max recursion", middleware.ErrMaxRecursion},
		{"CMaxRecursion", "wrapped max recursion", fmt.Errorf("depth: %w", middleware.ErrMaxRecursion)},
	}
	zones := []string{"example.", ".", "Sub.Example.", "a\\.b.example."}
	for rep := 0; rep < reps; rep++ {
		for _, zoneEmpty := range []bool{false, true} {
			for _, bestEffort := range []bool{false, true} {
				for ctxState := 0; ctxState < 4; ctxState++ {
					for _, c := range causes {
						st := &vC13ZoneStore{}
						res := &Resolver{}
						var ms middleware.Store = st
						res.store.Store(&ms)
						ctx := context.Background()
						cancel := func() {}
						if bestEffort {
							ctx = middleware.WithBestEffortRecursionWork(ctx)
						}
						how := "live"
						switch ctxState {
						case 1:
							c2, cf := context.WithCancel(ctx)
							cf()
							ctx = c2
							how = "canceled"
						case 2:
							c2, cf := context.WithDeadline(ctx, time.Unix(1, 0))
							ctx, cancel = c2, cf
							how = "deadline exceeded"
						case 3:
							ctx = vC13DeadlineCtx{Context: ctx, at: time.Unix(1, 0)}
							how = "deadline reached, Err not yet published"
						}
						zone := zones[r.Intn(len(zones))]
						if zoneEmpty {
							zone = ""
						}
						qclass := uint16([]int{1, 3}[r.Intn(2)])
						res.recordResolutionZoneFailure(ctx, dns.Question{Name: "www." + zone, Qtype: dns.TypeA, Qclass: qclass}, zone, c.err)
						cancel()
						obs := len(st.recorded) == 1
						goFail := ""
						if len(st.recorded) > 1 || len(st.cleared) != 0 {
							goFail = fmt.Sprintf("unexpected store calls: recorded=%v cleared=%v", st.recorded, st.cleared)
						}
						if obs && st.recorded[0] != fmt.Sprintf("%s/%d", zone, qclass) {
							goFail = fmt.Sprintf("recorded %q for zone %q class %d", st.recorded[0], zone, qclass)
						}
						k := "zone-admit-shared"
						if zoneEmpty || bestEffort || ctxState != 0 || (c.coq != "CNone" && c.coq != "CNetwork") {
							k = "zone-admit-request-local"
						}
						b, _ := json.Marshal(map[string]any{
							"k":          k,
							"coq":        fmt.Sprintf("CaseZoneAdmit %v %v %v %s %v", zoneEmpty, bestEffort, ctxState != 0, c.coq, obs),
							"go_fail":    goFail,
							"nontrivial": true,
							"desc":       map[string]any{"zone": zone, "best_effort": bestEffort, "ctx": how, "cause": c.name, "recorded": obs},
						})
						f.Write(append(b, '\n'))
					}
				}
			}
		}
	}
}
