//go:build verif

package resolver

// C11 driver "breaker": the per-server circuit breaker of the resolver. Generated schedules
// of canQuery / recordFailure / recordSuccess / cleanupOnce over 2-3 servers on a REAL
// circuitBreaker (built without its ticker goroutine; cleanupOnce is called as an operation)
// inside a testing/synctest bubble: runs of failures up to and across the trip count, a success
// in the middle of a run, questions asked just before / at / just after the open interval ends
// (the record keeps whole seconds, the question is asked in ns), idle periods around the
// eviction age. Recorded per operation: what canQuery answered.

import (
	"encoding/json"
	"fmt"
	"math/rand"
	"os"
	"strconv"
	"strings"
	"testing"
	"testing/synctest"
	"time"
)

func TestVerifC11Breaker(t *testing.T) {
	out := os.Getenv("VERIF_OUT")
	if out == "" {
		t.Skip("VERIF_OUT not set")
	}
	f, err := os.Create(out)
	if err != nil {
		t.Fatal(err)
	}
	defer f.Close()
	seed, _ := strconv.Atoi(os.Getenv("VERIF_SEED"))
	n, _ := strconv.Atoi(os.Getenv("VERIF_N"))
	if n == 0 {
		n = 100
	}
	r := rand.New(rand.NewSource(int64(seed)*15485863 + 3))
	servers := []string{"198.51.100.1:53", "198.51.100.2:53", "[2001:db8::3]:53"}
	for c := 0; c < n; c++ {
		nops := 8 + r.Intn(30)
		var ops, obs, desc []string
		var startMs int64
		refusals, trips := 0, 0
		goFail := ""
		synctest.Test(t, func(t *testing.T) {
			cb := &circuitBreaker{failures: make(map[string]*serverFailure)}
			// a start that is not on a whole second in most cases: Unix() truncates
			time.Sleep(time.Duration(r.Intn(2000)) * time.Millisecond)
			startMs = time.Now().UnixMilli()
			streak := map[int]int{}
			lastFail := map[int]int64{} // whole seconds, as the record keeps it
			for i := 0; i < nops; i++ {
				s := r.Intn(2 + c%2)
				switch k := r.Intn(20); {
				case k < 6:
					ok := cb.canQuery(servers[s])
					if !ok {
						refusals++
						if streak[s] < 5 && goFail == "" {
							goFail = fmt.Sprintf("server %d was refused at %d ms with only %d failures in a row on record", s, time.Now().UnixMilli()-startMs, streak[s])
						}
					}
					ops, obs = append(ops, fmt.Sprintf("BCan %d", s)), append(obs, strconv.FormatBool(ok))
					desc = append(desc, fmt.Sprintf("%d ms: canQuery(server %d) = %v", time.Now().UnixMilli()-startMs, s, ok))
				case k < 12:
					// a run of failures, often exactly up to or across the trip count
					run := 1
					if r.Intn(2) == 0 {
						run = []int{3, 4, 5, 6}[r.Intn(4)] - streak[s]%5
						if run < 1 {
							run = 1
						}
					}
					for j := 0; j < run; j++ {
						cb.recordFailure(servers[s])
						lastFail[s] = time.Now().Unix()
						streak[s]++
						if streak[s] == 5 {
							trips++
						}
						ops, obs = append(ops, fmt.Sprintf("BFail %d", s)), append(obs, "true")
						desc = append(desc, fmt.Sprintf("%d ms: recordFailure(server %d)", time.Now().UnixMilli()-startMs, s))
					}
				case k < 14:
					cb.recordSuccess(servers[s])
					streak[s] = 0
					ops, obs = append(ops, fmt.Sprintf("BSucc %d", s)), append(obs, "true")
					desc = append(desc, fmt.Sprintf("%d ms: recordSuccess(server %d)", time.Now().UnixMilli()-startMs, s))
				case k < 16 && lastFail[s] != 0:
					// to the edge of the open interval of server s (1 ms before, on it, 1 ms after),
					// or of its eviction age, then the question
					edge := lastFail[s]*1000 + 30000
					if r.Intn(4) == 0 {
						edge = lastFail[s]*1000 + 300000 + 1000*int64(r.Intn(2))
					}
					target := edge + int64(r.Intn(3)) - 1
					if d := target - time.Now().UnixMilli(); d > 0 {
						time.Sleep(time.Duration(d) * time.Millisecond)
						ops, obs = append(ops, fmt.Sprintf("BSleep %d", d)), append(obs, "true")
						desc = append(desc, fmt.Sprintf("sleep %d ms (to %d ms after the second of server %d's last failure)", d, target-lastFail[s]*1000, s))
					}
					if r.Intn(3) == 0 {
						cb.cleanupOnce(time.Now().Unix())
						ops, obs = append(ops, "BCleanup"), append(obs, "true")
						desc = append(desc, fmt.Sprintf("%d ms: cleanupOnce", time.Now().UnixMilli()-startMs))
					}
					ok := cb.canQuery(servers[s])
					if !ok {
						refusals++
					}
					ops, obs = append(ops, fmt.Sprintf("BCan %d", s)), append(obs, strconv.FormatBool(ok))
					desc = append(desc, fmt.Sprintf("%d ms: canQuery(server %d) = %v", time.Now().UnixMilli()-startMs, s, ok))
				case k < 17:
					cb.cleanupOnce(time.Now().Unix())
					ops, obs = append(ops, "BCleanup"), append(obs, "true")
					desc = append(desc, fmt.Sprintf("%d ms: cleanupOnce", time.Now().UnixMilli()-startMs))
				default:
					d := []int{1, 7, 250, 999, 1000, 5000, 28999, 29000, 29999, 30000, 30001, 30999, 31000, 31001, 60000, 299000, 300000, 301000, 302000}[r.Intn(19)]
					time.Sleep(time.Duration(d) * time.Millisecond)
					ops, obs = append(ops, fmt.Sprintf("BSleep %d", d)), append(obs, "true")
					desc = append(desc, fmt.Sprintf("sleep %d ms", d))
				}
			}
		})
		b, _ := json.Marshal(map[string]any{
			"k":          "breaker",
			"coq":        fmt.Sprintf("CaseBreaker %d [%s] [%s]", startMs, strings.Join(ops, "; "), strings.Join(obs, "; ")),
			"nontrivial": refusals > 0 && trips > 0,
			"go_fail":    goFail,
			"desc":       map[string]any{"start_unix_ms": startMs, "ops": desc},
		})
		f.Write(append(b, '\n'))
	}
}
