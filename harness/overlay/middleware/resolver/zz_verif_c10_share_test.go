//go:build verif

package resolver

// C10 driver "share": n concurrent callers of the REAL Resolver.groupLookup for
// one question against a slow stand-in authoritative server on loopback, so
// that they collapse onto one upstream lookup (singleflight). Observed: the
// message each caller got back (ID, content with the ID zeroed), and whether
// the returned messages are pairwise distinct objects.
//
// The message groupLookup returns is the caller's to keep: upstack it is edited
// in place (tags, rcode, sections, the client's OPT). So most callers EDIT what
// they got the moment groupLookup returns — a marker record appended to the
// additional section and the first answer's TTL overwritten in place, both
// carrying the caller's own tag — while the other callers may still be on their
// way out of the flight. Afterwards every message must show its own caller's
// marks and nobody else's. Half of the cases run under GOMAXPROCS(1), where the
// flight's leader resumes (and edits) before any follower has taken its copy;
// the other half under the default scheduler.

import (
	"context"
	"encoding/json"
	"fmt"
	"math/rand"
	"net"
	"os"
	"path/filepath"
	"runtime"
	"sort"
	"strconv"
	"strings"
	"sync"
	"sync/atomic"
	"testing"
	"time"

	"github.com/miekg/dns"
	"github.com/semihalev/sdns/internal/authority"
)

func vC10SRLE(b []byte) string {
	var sb strings.Builder
	sb.WriteString("[")
	for i := 0; i < len(b); {
		j := i
		for j < len(b) && b[j] == b[i] {
			j++
		}
		if i > 0 {
			sb.WriteString(";")
		}
		fmt.Fprintf(&sb, "(%d,%d)", j-i, b[i])
		i = j
	}
	sb.WriteString("]")
	return sb.String()
}

func TestVerifC10Share(t *testing.T) {
	out := os.Getenv("VERIF_OUT")
	if out == "" {
		t.Skip("VERIF_OUT not set")
	}
	f, err := os.Create(out)
	if err != nil {
		t.Fatal(err)
	}
	defer f.Close()
	seed, _ := strconv.Atoi(os.Getenv("VERIF_SEED"))
	n, _ := strconv.Atoi(os.Getenv("VERIF_N"))
	if n == 0 {
		n = 20
	}
	rnd := rand.New(rand.NewSource(int64(seed)*2654435761 + 10))

	pc, err := net.ListenUDP("udp4", &net.UDPAddr{IP: net.IPv4(127, 0, 0, 1)})
	if err != nil {
		t.Fatal(err)
	}
	defer pc.Close()
	var upstream sync.Map // qname -> *atomic.Int64
	go func() {
		buf := make([]byte, 4096)
		for {
			m, ra, err := pc.ReadFromUDPAddrPort(buf)
			if err != nil {
				return
			}
			q := new(dns.Msg)
			if q.Unpack(buf[:m]) != nil || len(q.Question) != 1 {
				continue
			}
			name := q.Question[0].Name
			c, _ := upstream.LoadOrStore(strings.ToLower(name), new(atomic.Int64))
			c.(*atomic.Int64).Add(1)
			go func(q *dns.Msg) {
				time.Sleep(30 * time.Millisecond) // long enough for the other callers to join the flight
				r := new(dns.Msg)
				r.SetReply(q)
				r.Authoritative = true
				r.Answer = []dns.RR{&dns.A{Hdr: dns.RR_Header{Name: q.Question[0].Name, Rrtype: dns.TypeA, Class: dns.ClassINET, Ttl: 60},
					A: net.IPv4(192, 0, 2, byte(len(q.Question[0].Name)))}}
				b, err := r.Pack()
				if err == nil {
					_, _ = pc.WriteToUDPAddrPort(b, ra)
				}
			}(q)
		}
	}()
	addr := pc.LocalAddr().String()
	r := newAttackHarnessResolver(&authority.Servers{Zone: "."})

	// corpus/C10/share-*.json: fixed caller configurations replayed first
	// ([{"callers": 4, "tags": [0,0,0,4], "one_p": true}, ...])
	type fixedShare struct {
		Callers int    `json:"callers"`
		Tags    []byte `json:"-"`
		TagInts []int  `json:"tags"`
		OneP    bool   `json:"one_p"`
	}
	var corpus []fixedShare
	if dir := os.Getenv("VERIF_CORPUS"); dir != "" {
		files, _ := filepath.Glob(filepath.Join(dir, "share-*.json"))
		sort.Strings(files)
		for _, p := range files {
			if b, err := os.ReadFile(p); err == nil {
				var cs []fixedShare
				if json.Unmarshal(b, &cs) == nil {
					corpus = append(corpus, cs...)
				}
			}
		}
	}

	for cn := -len(corpus); cn < n; cn++ {
		nw := 1 + rnd.Intn(6)
		if rnd.Intn(4) == 0 {
			nw = 1
		}
		var fixed *fixedShare
		if cn < 0 {
			fixed = &corpus[cn+len(corpus)]
			if fixed.Callers >= 1 && fixed.Callers <= 16 {
				nw = fixed.Callers
			}
		}
		name := fmt.Sprintf("share%d-s%d.c10.test.", cn+1000, seed)
		servers := &authority.Servers{Zone: ".", List: []*authority.Server{authority.NewServer(addr, authority.IPv4)}}
		ids := make([]uint16, nw)
		for i := range ids {
			ids[i] = uint16(1 + rnd.Intn(65000))
		}
		if nw >= 2 && rnd.Intn(3) == 0 {
			ids[1] = ids[0] // two callers may well use the same ID
		}
		// tag 0 = this caller leaves its message alone
		tags := make([]byte, nw)
		marks := make([]*dns.TXT, nw)
		for i := range tags {
			if rnd.Intn(4) != 0 {
				tags[i] = byte(1 + i)
				marks[i] = &dns.TXT{Hdr: dns.RR_Header{Name: "mark.", Rrtype: dns.TypeTXT, Class: dns.ClassINET}, Txt: []string{fmt.Sprint(tags[i])}}
			}
		}
		oneP := rnd.Intn(2) == 0
		if fixed != nil {
			oneP = fixed.OneP
			for i := range tags {
				tags[i], marks[i] = 0, nil
				if i < len(fixed.TagInts) && fixed.TagInts[i] > 0 && fixed.TagInts[i] < 250 {
					tags[i] = byte(fixed.TagInts[i])
					marks[i] = &dns.TXT{Hdr: dns.RR_Header{Name: "mark.", Rrtype: dns.TypeTXT, Class: dns.ClassINET}, Txt: []string{fmt.Sprint(tags[i])}}
				}
			}
		}
		prevP := 0
		if oneP {
			prevP = runtime.GOMAXPROCS(1)
		}
		resps := make([]*dns.Msg, nw)
		errs := make([]error, nw)
		start := make(chan struct{})
		var wg sync.WaitGroup
		for i := 0; i < nw; i++ {
			wg.Add(1)
			go func(i int) {
				defer wg.Done()
				req := new(dns.Msg)
				req.SetQuestion(name, dns.TypeA)
				req.Id = ids[i]
				req.SetEdns0(1232, false)
				<-start
				ctx, cancel := context.WithTimeout(context.Background(), 4*time.Second)
				defer cancel()
				m, err := r.groupLookup(ctx, &resolveState{req: req, requestID: req.Id}, req, servers, false)
				if m != nil && marks[i] != nil {
					// the caller's own in-place edits, before anything else happens
					m.Extra = append(m.Extra, marks[i])
					if len(m.Answer) > 0 {
						m.Answer[0].Header().Ttl = 1000 + uint32(tags[i])
					}
				}
				resps[i], errs[i] = m, err
			}(i)
		}
		close(start)
		wg.Wait()
		if oneP {
			runtime.GOMAXPROCS(prevP)
		}
		kind := fmt.Sprintf("share-%d-callers", nw)
		if oneP {
			kind += "-1p"
		}
		if fixed != nil {
			kind = "corpus:" + kind
		}
		line := map[string]any{"k": kind}
		inconclusive := false
		var got, idsCoq, editsCoq []string
		var bodies [][]byte
		goFail := ""
		for i := 0; i < nw; i++ {
			idsCoq = append(idsCoq, fmt.Sprint(ids[i]))
			var want []byte
			if tags[i] != 0 {
				want = []byte{tags[i], tags[i]}
			}
			editsCoq = append(editsCoq, vC10SRLE(want))
			if errs[i] != nil || resps[i] == nil {
				inconclusive = true
				continue
			}
			m := resps[i]
			id := m.Id
			// the message = its content with every caller mark taken out, followed by the
			// marks found in it (marker records in order, then the TTL mark)
			cp := m.Copy()
			cp.Id = 0
			var found []byte
			var extra []dns.RR
			for _, rr := range cp.Extra {
				if x, ok := rr.(*dns.TXT); ok && x.Hdr.Name == "mark." && len(x.Txt) == 1 {
					v, _ := strconv.Atoi(x.Txt[0])
					found = append(found, byte(v))
					continue
				}
				extra = append(extra, rr)
			}
			cp.Extra = extra
			if len(cp.Answer) > 0 {
				if ttl := cp.Answer[0].Header().Ttl; ttl >= 1000 && ttl < 1256 {
					found = append(found, byte(ttl-1000))
				}
				cp.Answer[0].Header().Ttl = 0
			}
			b, err := cp.Pack()
			if err != nil {
				inconclusive = true
				continue
			}
			bodies = append(bodies, b)
			got = append(got, fmt.Sprintf("(%d,%s)", id, vC10SRLE(append(append([]byte(nil), b...), found...))))
			if string(found) != string(want) {
				goFail = fmt.Sprintf("caller %d (tag %d) holds a message with the caller marks %v: it carries what another caller wrote into ITS message, or lost its own", i, tags[i], found)
			}
			if len(m.Question) != 1 || !strings.EqualFold(m.Question[0].Name, name) {
				goFail = fmt.Sprintf("caller %d asked %q and got a message about %v", i, name, m.Question)
			}
			if len(m.Answer) != 1 || !strings.EqualFold(m.Answer[0].Header().Name, name) {
				goFail = fmt.Sprintf("caller %d: answer section %v for %q", i, m.Answer, name)
			}
		}
		distinct := true
		for i := 0; i < nw; i++ {
			for j := i + 1; j < nw; j++ {
				if resps[i] != nil && resps[i] == resps[j] {
					distinct = false
				}
			}
		}
		up := int64(0)
		if c, ok := upstream.Load(strings.ToLower(name)); ok {
			up = c.(*atomic.Int64).Load()
		}
		body := "[]"
		if len(bodies) > 0 {
			body = vC10SRLE(bodies[0])
		}
		line["coq"] = fmt.Sprintf("CaseShare 0 %s [%s] %s [%s] [%s] %s", body, strings.Join(idsCoq, ";"), map[bool]string{true: "true", false: "false"}[nw >= 2],
			strings.Join(editsCoq, ";"), strings.Join(got, ";"), map[bool]string{true: "true", false: "false"}[distinct])
		line["nontrivial"] = nw >= 2 && up < int64(nw)
		line["desc"] = map[string]any{"callers": nw, "upstream_queries": up, "ids": ids, "tags": fmt.Sprint(tags), "gomaxprocs_1": oneP, "distinct_objects": distinct}
		if goFail != "" {
			line["go_fail"] = goFail
		}
		if inconclusive {
			line["inconclusive"] = true
		}
		b, _ := json.Marshal(line)
		f.Write(append(b, '\n'))
	}
}
