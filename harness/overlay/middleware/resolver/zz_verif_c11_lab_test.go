//go:build verif

package resolver

// C11 driver (e): fault-script lab. The REAL cache middleware in front of the
// REAL resolver handler, whose root hint and glue point (through
// Resolver.resolveTarget, as the repository's hermetic harness does) at
// loopback authorities that misbehave on command: drop, answer late, answer
// after the client's budget, truncate and then answer / stall / reset over
// TCP, answer with the wrong ID, the wrong question, garbage, SERVFAIL,
// REFUSED. The script for the two name servers of the test zone is encoded
// in the first label of the query name, so duplicates and distinct names mix
// freely. Clients issue duplicate and distinct queries at once, each under
// its own lazy deadline (the server's serveMsgBy shape); some go away.
//
// This part is TESTING against wall-clock time: query budget 400 ms,
// per-exchange timeout 100 ms. Verdicts are counts (writes per query), the
// rcode where the scripts leave no choice, a latency bound of 10x the budget,
// and the goroutine count after the drain; a loopback hiccup is classified
// inconclusive.

import (
	"context"
	"encoding/binary"
	"encoding/json"
	"fmt"
	"io"
	"math/rand"
	"net"
	"os"
	"runtime"
	"strconv"
	"strings"
	"sync"
	"sync/atomic"
	"testing"
	"time"

	"github.com/miekg/dns"
	"github.com/semihalev/sdns/config"
	"github.com/semihalev/sdns/internal/contextutil"
	"github.com/semihalev/sdns/middleware"
	cachemw "github.com/semihalev/sdns/middleware/cache"
	"github.com/semihalev/zlog/v2"
)

const (
	vC11QT      = 400 * time.Millisecond
	vC11NetTO   = 100 * time.Millisecond
	vC11LabZone = "z.c11."
)

var vC11Scripts = []string{"ok", "ok", "lag", "lag", "lag", "tcok", "tcok", "slow", "slow", "ok", "drop", "slow", "late", "tcok", "tcstall", "tcreset", "wrongid", "wrongq", "garbage", "servfail", "refused"}

// does this script, alone, let the name server produce a usable answer in time?
func vC11ScriptGood(s string) int {
	switch s {
	case "ok", "tcok", "lag":
		return 1 // certainly usable
	case "slow":
		return 0 // usable only if the resolver waits past its per-exchange timeout: either
	default:
		return -1 // never usable
	}
}

type vC11Auth struct {
	idx   int // 0 root, 1 ns1, 2 ns2
	pc    net.PacketConn
	ln    net.Listener
	addr  string
	lab   *vC11Lab
	stall chan struct{}
	wg    sync.WaitGroup
}

type vC11Lab struct {
	root, ns1, ns2 *vC11Auth
	remap          map[string]string
	udpSeen        atomic.Int64
	asked          sync.Map // lower-cased query name -> *atomic.Int64: queries ns1/ns2 received for it (UDP and TCP)
}

func (l *vC11Lab) note(name string) {
	v, _ := l.asked.LoadOrStore(strings.ToLower(name), new(atomic.Int64))
	v.(*atomic.Int64).Add(1)
}

func (l *vC11Lab) askedFor(name string) int64 {
	if v, ok := l.asked.Load(strings.ToLower(name)); ok {
		return v.(*atomic.Int64).Load()
	}
	return 0
}

func vC11RR(s string) dns.RR {
	rr, err := dns.NewRR(s)
	if err != nil {
		panic(err)
	}
	return rr
}

func vC11StartAuth(lab *vC11Lab, idx int) (*vC11Auth, error) {
	for try := 0; try < 20; try++ {
		pc, err := net.ListenPacket("udp4", "127.0.0.1:0")
		if err != nil {
			return nil, err
		}
		ln, err := net.Listen("tcp4", pc.LocalAddr().String())
		if err != nil {
			pc.Close()
			continue
		}
		a := &vC11Auth{idx: idx, pc: pc, ln: ln, addr: pc.LocalAddr().String(), lab: lab, stall: make(chan struct{})}
		a.wg.Add(2)
		go a.serveUDP()
		go a.serveTCP()
		return a, nil
	}
	return nil, fmt.Errorf("no udp+tcp port pair")
}

func (a *vC11Auth) stop() {
	close(a.stall)
	a.pc.Close()
	a.ln.Close()
	a.wg.Wait()
}

// script for this server out of the first label "s1-s2-n"
func (a *vC11Auth) script(q dns.Question) string {
	lbl := strings.SplitN(strings.ToLower(q.Name), ".", 2)[0]
	parts := strings.Split(lbl, "-")
	if len(parts) < 3 {
		return "ok"
	}
	return parts[a.idx-1]
}

func (a *vC11Auth) answer(r *dns.Msg) *dns.Msg {
	q := r.Question[0]
	m := new(dns.Msg)
	m.SetReply(r)
	name := strings.ToLower(q.Name)
	if a.idx == 0 {
		switch {
		case name == "." && q.Qtype == dns.TypeNS:
			m.Authoritative = true
			m.Answer = []dns.RR{vC11RR(". 3600 IN NS a.root-c11.")}
			m.Extra = []dns.RR{vC11RR("a.root-c11. 3600 IN A 198.51.100.250")}
		case dns.IsSubDomain(vC11LabZone, name):
			m.Ns = []dns.RR{vC11RR(vC11LabZone + " 3600 IN NS ns1." + vC11LabZone), vC11RR(vC11LabZone + " 3600 IN NS ns2." + vC11LabZone)}
			m.Extra = []dns.RR{vC11RR("ns1." + vC11LabZone + " 3600 IN A 198.51.100.1"), vC11RR("ns2." + vC11LabZone + " 3600 IN A 198.51.100.2")}
		default:
			m.Authoritative = true
			m.Rcode = dns.RcodeNameError
			m.Ns = []dns.RR{vC11RR(". 30 IN SOA a.root-c11. h.root-c11. 1 30 30 30 30")}
		}
		return m
	}
	m.Authoritative = true
	switch {
	case name == "ns1."+vC11LabZone && q.Qtype == dns.TypeA:
		m.Answer = []dns.RR{vC11RR(name + " 3600 IN A 198.51.100.1")}
	case name == "ns2."+vC11LabZone && q.Qtype == dns.TypeA:
		m.Answer = []dns.RR{vC11RR(name + " 3600 IN A 198.51.100.2")}
	case q.Qtype == dns.TypeA:
		m.Answer = []dns.RR{vC11RR(name + " 60 IN A 192.0.2.80")}
	default:
		m.Ns = []dns.RR{vC11RR(vC11LabZone + " 30 IN SOA ns1." + vC11LabZone + " h." + vC11LabZone + " 1 30 30 30 30")}
	}
	return m
}

func (a *vC11Auth) serveUDP() {
	defer a.wg.Done()
	buf := make([]byte, 4096)
	for {
		n, from, err := a.pc.ReadFrom(buf)
		if err != nil {
			return
		}
		a.lab.udpSeen.Add(1)
		r := new(dns.Msg)
		if r.Unpack(buf[:n]) != nil || len(r.Question) != 1 {
			continue
		}
		send := func(m *dns.Msg) {
			if b, err := m.Pack(); err == nil {
				_, _ = a.pc.WriteTo(b, from)
			}
		}
		if a.idx == 0 {
			send(a.answer(r))
			continue
		}
		a.lab.note(r.Question[0].Name)
		switch a.script(r.Question[0]) {
		case "ok":
			send(a.answer(r))
		case "drop":
		case "lag": // well inside the per-exchange timeout, long enough for clients to leave meanwhile
			m := a.answer(r)
			time.AfterFunc(vC11NetTO/2, func() { send(m) })
		case "slow":
			m := a.answer(r)
			time.AfterFunc(vC11NetTO+50*time.Millisecond, func() { send(m) })
		case "late":
			m := a.answer(r)
			time.AfterFunc(vC11QT+200*time.Millisecond, func() { send(m) })
		case "tcok", "tcstall", "tcreset":
			m := new(dns.Msg)
			m.SetReply(r)
			m.Authoritative = true
			m.Truncated = true
			send(m)
		case "wrongid":
			m := a.answer(r)
			m.Id ^= 0x5555
			send(m)
		case "wrongq":
			m := a.answer(r)
			m.Question[0].Name = "other." + vC11LabZone
			for _, rr := range m.Answer {
				rr.Header().Name = "other." + vC11LabZone
			}
			send(m)
		case "garbage":
			_, _ = a.pc.WriteTo([]byte{1, 2, 3, 4, 5, 6, 7}, from)
		case "servfail":
			m := new(dns.Msg)
			m.SetRcode(r, dns.RcodeServerFailure)
			send(m)
		case "refused":
			m := new(dns.Msg)
			m.SetRcode(r, dns.RcodeRefused)
			send(m)
		default:
			send(a.answer(r))
		}
	}
}

func (a *vC11Auth) serveTCP() {
	defer a.wg.Done()
	for {
		c, err := a.ln.Accept()
		if err != nil {
			return
		}
		a.wg.Add(1)
		go func(c net.Conn) {
			defer a.wg.Done()
			defer c.Close()
			_ = c.SetDeadline(time.Now().Add(5 * time.Second))
			var l [2]byte
			if _, err := io.ReadFull(c, l[:]); err != nil {
				return
			}
			b := make([]byte, binary.BigEndian.Uint16(l[:]))
			if _, err := io.ReadFull(c, b); err != nil {
				return
			}
			r := new(dns.Msg)
			if r.Unpack(b) != nil || len(r.Question) != 1 {
				return
			}
			script := "tcok"
			if a.idx != 0 {
				script = a.script(r.Question[0])
				a.lab.note(r.Question[0].Name)
			}
			reply := func(m *dns.Msg) {
				out, err := m.Pack()
				if err != nil {
					return
				}
				frame := make([]byte, 2+len(out))
				binary.BigEndian.PutUint16(frame, uint16(len(out)))
				copy(frame[2:], out)
				_, _ = c.Write(frame)
			}
			// the stream side of every script fails the way its datagram side does, so that
			// "this name server never yields a usable answer" is ground truth on both transports
			switch script {
			case "tcstall", "drop", "late":
				// hold the connection without a byte until the resolver gives up and closes it
				_ = c.SetReadDeadline(time.Now().Add(3 * time.Second))
				_, _ = io.Copy(io.Discard, c)
			case "tcreset", "garbage":
				if tc, ok := c.(*net.TCPConn); ok {
					_ = tc.SetLinger(0)
				}
			case "wrongid":
				m := a.answer(r)
				m.Id ^= 0x5555
				reply(m)
			case "wrongq":
				m := a.answer(r)
				m.Question[0].Name = "other." + vC11LabZone
				for _, rr := range m.Answer {
					rr.Header().Name = "other." + vC11LabZone
				}
				reply(m)
			case "servfail":
				m := new(dns.Msg)
				m.SetRcode(r, dns.RcodeServerFailure)
				reply(m)
			case "refused":
				m := new(dns.Msg)
				m.SetRcode(r, dns.RcodeRefused)
				reply(m)
			default:
				reply(a.answer(r))
			}
		}(c)
	}
}

type vC11LabTransport struct {
	mu     sync.Mutex
	writes int
	rcode  int
	at     time.Time
}

func (t *vC11LabTransport) LocalAddr() net.Addr {
	return &net.UDPAddr{IP: net.IPv4(127, 0, 0, 1), Port: 53}
}
func (t *vC11LabTransport) RemoteAddr() net.Addr {
	return &net.UDPAddr{IP: net.IPv4(192, 0, 2, 77), Port: 40000}
}
func (t *vC11LabTransport) Close() error { return nil }
func (t *vC11LabTransport) rec(rcode int) {
	t.mu.Lock()
	t.writes++
	if t.writes == 1 {
		t.rcode = rcode
		t.at = time.Now()
	}
	t.mu.Unlock()
}
func (t *vC11LabTransport) WriteMsg(m *dns.Msg) error { t.rec(m.Rcode); return nil }
func (t *vC11LabTransport) Write(b []byte) (int, error) {
	m := new(dns.Msg)
	if m.Unpack(b) == nil {
		t.rec(m.Rcode)
	} else {
		t.rec(-1)
	}
	return len(b), nil
}

type vC11LabQueryer struct{ handlers []middleware.Handler }

type vC11BufWriter struct {
	vC11LabTransport
	msg *dns.Msg
}

func (w *vC11BufWriter) RemoteAddr() net.Addr {
	return &net.UDPAddr{IP: net.IPv4(127, 0, 0, 255), Port: 0}
}
func (w *vC11BufWriter) WriteMsg(m *dns.Msg) error { w.msg = m; return nil }
func (w *vC11BufWriter) Internal() bool            { return true }

func (q *vC11LabQueryer) Query(ctx context.Context, req *dns.Msg) (*dns.Msg, error) {
	w := &vC11BufWriter{}
	ch := middleware.NewChain(q.handlers)
	ch.Reset(w, req)
	ch.Next(ctx)
	if w.msg == nil {
		return nil, fmt.Errorf("no response")
	}
	return w.msg, nil
}

var vC11QuietOnce sync.Once

// vC11Lag watches the machine, not the resolver: a goroutine that sleeps 10 ms at a time and
// records by how much the scheduler overshoots. The lab runs on the wall clock; when the
// scheduler stalled this goroutine for 100 ms or more during a scenario, every verdict of that
// scenario that is derived from a duration (an answerable name failed inside its budget, slots
// returned late) is an observation about the machine and the case is inconclusive. Verdicts
// that are counts (two replies, no reply, slots or goroutines that never come back) stand.
type vC11Lag struct {
	max  atomic.Int64
	stop chan struct{}
	done chan struct{}
}

func vC11StartLag() *vC11Lag {
	l := &vC11Lag{stop: make(chan struct{}), done: make(chan struct{})}
	go func() {
		defer close(l.done)
		for {
			t0 := time.Now()
			select {
			case <-l.stop:
				return
			case <-time.After(10 * time.Millisecond):
			}
			if over := int64(time.Since(t0) - 10*time.Millisecond); over > l.max.Load() {
				l.max.Store(over)
			}
		}
	}()
	return l
}

func (l *vC11Lag) slow() bool { return time.Duration(l.max.Load()) >= 100*time.Millisecond }
func (l *vC11Lag) end()       { close(l.stop); <-l.done }

func TestVerifC11Lab(t *testing.T) {
	out := os.Getenv("VERIF_OUT")
	if out == "" {
		t.Skip("VERIF_OUT not set")
	}
	f, err := os.Create(out)
	if err != nil {
		t.Fatal(err)
	}
	defer f.Close()
	vC11QuietOnce.Do(func() {
		logger := zlog.NewStructured()
		logger.SetWriter(zlog.StdoutTerminal())
		logger.SetLevel(zlog.LevelFatal)
		zlog.SetDefault(logger)
	})
	seed, _ := strconv.Atoi(os.Getenv("VERIF_SEED"))
	n, _ := strconv.Atoi(os.Getenv("VERIF_N"))
	if n == 0 {
		n = 10
	}
	r := rand.New(rand.NewSource(int64(seed)*49979687 + 29))
	scratch := os.Getenv("VERIF_SCRATCH")
	if scratch == "" {
		scratch = "."
	}
	emit := func(m map[string]any) {
		b, _ := json.Marshal(m)
		f.Write(append(b, '\n'))
	}
	lab := &vC11Lab{}
	var lerr error
	if lab.root, lerr = vC11StartAuth(lab, 0); lerr == nil {
		if lab.ns1, lerr = vC11StartAuth(lab, 1); lerr == nil {
			lab.ns2, lerr = vC11StartAuth(lab, 2)
		}
	}
	if lerr != nil {
		emit(map[string]any{"k": "lab", "coq": "CaseLab 400 [] 0 0", "inconclusive": true, "nontrivial": false, "desc": "loopback bind failed: " + lerr.Error()})
		return
	}
	defer lab.root.stop()
	defer lab.ns1.stop()
	defer lab.ns2.stop()
	lab.remap = map[string]string{"198.51.100.250:53": lab.root.addr, "198.51.100.1:53": lab.ns1.addr, "198.51.100.2:53": lab.ns2.addr}

	serial := 0
	for c := 0; c < n; c++ {
		cfg := new(config.Config)
		cfg.RootServers = []string{lab.root.addr}
		cfg.Maxdepth = 30
		cfg.Expire = 600
		cfg.CacheSize = 1024
		cfg.Timeout.Duration = vC11NetTO
		cfg.QueryTimeout.Duration = vC11QT
		cfg.Directory = scratch
		cfg.DNSSEC = "off"
		cfg.QnameMinLevel = 0
		// a long per-exchange timeout (far beyond the client's budget) separates "a straggler
		// was interrupted when its lookup ended" from "it sat out its socket timeout"
		// scenario templates besides the general mix (each aims at one mechanism of the
		// property, none at a particular defect):
		//   serialTiny - a starved attempt pool (1-2 slots) and clients that come one at a
		//                time: nothing competes, so usable name servers must give the answer
		//   flood      - many distinct names of one silent zone at once: the per-zone quota
		//                sheds the excess; every limiter must be empty again afterwards
		//   impatient  - clients whose budget ends while their exchange is in the air, one
		//                after another, then a client with a normal budget: it must not pay
		//                for the others' expiry
		//   shed       - a zone held at its in-flight quota by names whose servers answer only
		//                after the clients' budgets (with a long per-exchange timeout, so that
		//                no exchange times out and no name server is ever at fault: every
		//                lookup ends with its own client's deadline); a client asks an
		//                answerable name of that zone meanwhile (it may be refused: that is its
		//                own SERVFAIL), and once the zone is idle again OTHER clients ask the
		//                same name: they must be resolved, not served the first client's refusal
		tmpl := ""
		switch r.Intn(8) {
		case 0:
			tmpl = "serialTiny"
		case 1:
			tmpl = "flood"
		case 2:
			tmpl = "impatient"
		case 3:
			tmpl = "shed"
		}
		longNet := (r.Intn(3) == 0 && tmpl == "") || tmpl == "shed"
		if longNet {
			cfg.Timeout.Duration = 2 * time.Second
		}
		// template: every name has one name server that answers at once and one that stays
		// silent, and the clients bring a long budget: the round is over in milliseconds, and
		// whatever still holds a concurrency slot afterwards is a straggler nobody interrupted
		quickWin := r.Intn(4) == 0 && tmpl == ""
		qt := vC11QT
		if quickWin {
			qt = 2 * time.Second
			cfg.Timeout.Duration = 2 * time.Second
			cfg.QueryTimeout.Duration = qt
			longNet = true
		}
		tiny := (r.Intn(4) == 0 && !quickWin && tmpl == "") || tmpl == "serialTiny"
		if tiny {
			cfg.MaxConcurrentQueries = 1 + r.Intn(2) // forces capacity refusals
		}
		if tmpl == "flood" || tmpl == "shed" {
			cfg.MaxConcurrentQueries = 64 // per-zone quota 16, global pool with room to spare
		}
		h := New(cfg)
		remap := lab.remap
		mapper := func(addr string) string {
			if to, ok := remap[addr]; ok {
				return to
			}
			return addr
		}
		h.resolver.resolveTarget.Store(&mapper)
		cm := cachemw.New(cfg)
		sub := &vC11LabQueryer{handlers: []middleware.Handler{cm, h}}
		cm.SetQueryer(sub)
		cm.SetPrefetchQueryer(sub)
		var qr middleware.Queryer = sub
		h.resolver.queryer.Store(&qr)
		// without the cache in front, duplicates meet in the resolver's own singleflight
		// (groupLookup): followers of a leader whose client left must still be answered
		handlers := []middleware.Handler{cm, h}
		nocache := r.Intn(3) == 0 && tmpl != "flood" && tmpl != "shed"
		if nocache {
			handlers = []middleware.Handler{h}
		}
		// steady state: a resolver that has already talked to both name servers (their
		// round-trip times are measured, so it races the two fastest instead of probing)
		warmed := quickWin || tmpl == "flood" || tmpl == "impatient" || tmpl == "shed" || r.Intn(2) == 0
		if warmed {
			for wq := 0; wq < 4; wq++ {
				serial++
				msg := new(dns.Msg)
				msg.SetQuestion(fmt.Sprintf("ok-ok-%d.%s", serial, vC11LabZone), dns.TypeA)
				msg.SetEdns0(1232, false)
				wctx, wcancel := context.WithTimeout(context.Background(), 2*time.Second)
				ch := middleware.NewChain(handlers)
				ch.Reset(&vC11LabTransport{}, msg)
				ch.Next(wctx)
				wcancel()
			}
		}
		lag := vC11StartLag()
		time.Sleep(5 * time.Millisecond)
		baseline := runtime.NumGoroutine()

		type qrec struct {
			name      string
			s1, s2    string
			expect    int // 0 either, 1 must be NOERROR, 2 must be SERVFAIL
			cancelAt  time.Duration
			tr        *vC11LabTransport
			start     time.Time
			done      chan struct{}
			cancelled bool
			budget    time.Duration
			serial    bool // the next client comes only after this one has its reply
			barrier   bool // comes only after every earlier client has its reply
			pause     time.Duration // comes this long after the previous client was launched
			askedPre  int64
			askedPost int64
			again     bool // asks a name an earlier client of this scenario asked
		}
		newQ := func(s1, s2 string, expect int) *qrec {
			serial++
			return &qrec{name: fmt.Sprintf("%s-%s-%d.%s", s1, s2, serial, vC11LabZone), s1: s1, s2: s2, expect: expect,
				cancelAt: -1, tr: &vC11LabTransport{}, done: make(chan struct{}), budget: qt}
		}
		nnames := 1 + r.Intn(3)
		if tmpl != "" {
			nnames = 0
		}
		// template: the singleflight leader's client leaves while the lookup is in the air
		leaderLeaves := nocache && !tiny && !quickWin && r.Intn(2) == 0
		var qs []*qrec
		for i := 0; i < nnames; i++ {
			serial++
			s1 := vC11Scripts[r.Intn(len(vC11Scripts))]
			s2 := vC11Scripts[r.Intn(len(vC11Scripts))]
			if r.Intn(4) == 0 {
				s2 = s1
			}
			if quickWin {
				s1, s2 = []string{"ok", "lag"}[r.Intn(2)], []string{"drop", "late"}[r.Intn(2)]
				if r.Intn(2) == 0 {
					s1, s2 = s2, s1
				}
			}
			name := fmt.Sprintf("%s-%s-%d.%s", s1, s2, serial, vC11LabZone)
			g1, g2 := vC11ScriptGood(s1), vC11ScriptGood(s2)
			expect := 0
			switch {
			case g1 == 1 && g2 == 1 && !tiny:
				expect = 1
			case g1 == -1 && g2 == -1:
				expect = 2
			}
			dups := 1 + r.Intn(5)
			for d := 0; d < dups; d++ {
				q := &qrec{name: name, s1: s1, s2: s2, expect: expect, cancelAt: -1, tr: &vC11LabTransport{}, done: make(chan struct{}), budget: qt}
				if r.Intn(5) == 0 && !quickWin {
					q.cancelAt = time.Duration(5+r.Intn(120)) * time.Millisecond
					q.cancelled = true
				}
				qs = append(qs, q)
			}
		}
		r.Shuffle(len(qs), func(i, j int) { qs[i], qs[j] = qs[j], qs[i] })
		if leaderLeaves {
			serial++
			name := fmt.Sprintf("lag-lag-%d.%s", serial, vC11LabZone)
			var cohort []*qrec
			for d := 0; d < 3+r.Intn(3); d++ {
				q := &qrec{name: name, s1: "lag", s2: "lag", expect: 1, cancelAt: -1, tr: &vC11LabTransport{}, done: make(chan struct{}), budget: qt}
				if d == 0 {
					q.cancelAt = time.Duration(8+r.Intn(25)) * time.Millisecond
					q.cancelled = true
				}
				cohort = append(cohort, q)
			}
			qs = append(cohort, qs...)
		}
		good := []string{"ok", "lag", "tcok"}
		silent := []string{"drop", "late", "tcstall"}
		switch tmpl {
		case "serialTiny":
			for i := 0; i < 3+r.Intn(4); i++ {
				s1, s2 := good[r.Intn(3)], good[r.Intn(3)]
				expect := 1
				if r.Intn(4) == 0 {
					s2 = vC11Scripts[r.Intn(len(vC11Scripts))]
					if vC11ScriptGood(s2) != 1 {
						expect = 0
					}
				}
				q := newQ(s1, s2, expect)
				q.serial = true
				qs = append(qs, q)
			}
		case "flood":
			for i := 0; i < 24+r.Intn(17); i++ {
				qs = append(qs, newQ(silent[r.Intn(3)], silent[r.Intn(3)], 2))
			}
		case "shed":
			// the zone at its quota: more slow names than the quota admits, all at once
			for i := 0; i < 18+r.Intn(6); i++ {
				qs = append(qs, newQ("late", "late", 2))
			}
			// the victims: answerable names asked while the zone is saturated (1-2 names, 1-2
			// clients each at once: the second is a follower of the first in the cache's dedup)
			var victims []*qrec
			for v := 0; v < 1+r.Intn(2); v++ {
				first := newQ("ok", "ok", 0)
				if v == 0 {
					first.pause = 30 * time.Millisecond // the slow lookups have reached the zone by now
				}
				victims = append(victims, first)
				qs = append(qs, first)
				if r.Intn(2) == 0 {
					qs = append(qs, &qrec{name: first.name, s1: "ok", s2: "ok", expect: 0, cancelAt: -1, tr: &vC11LabTransport{}, done: make(chan struct{}), budget: qt, again: true})
				}
			}
			// afterwards, the zone idle: other clients ask the victims' names
			for i, v := range victims {
				q := &qrec{name: v.name, s1: "ok", s2: "ok", expect: 1, cancelAt: -1, tr: &vC11LabTransport{}, done: make(chan struct{}), budget: qt, serial: true, again: true}
				q.barrier = i == 0
				qs = append(qs, q)
			}
		case "impatient":
			for i := 0; i < 6+r.Intn(4); i++ {
				q := newQ("lag", "lag", 0)
				q.budget = vC11NetTO / 4
				q.serial = true
				qs = append(qs, q)
			}
			for i := 0; i < 1+r.Intn(2); i++ {
				q := newQ(good[r.Intn(2)], "lag", 1)
				q.serial = true
				qs = append(qs, q)
			}
		}
		waitOne := func(i int, q *qrec, inconclusive *bool, goFail *string) {
			select {
			case <-q.done:
			case <-time.After(10 * vC11QT):
				// one more grace period tells a wedge from an overloaded machine
				select {
				case <-q.done:
					*inconclusive = true
				case <-time.After(20 * vC11QT):
					*goFail = fmt.Sprintf("query %d (%s) did not return within 30x the query timeout", i, q.name)
				}
			}
		}
		inconclusive := false
		goFail := ""
		launch := func(q *qrec) {
			parent, cancel := context.WithCancel(context.Background())
			if q.cancelAt >= 0 {
				time.AfterFunc(q.cancelAt, cancel)
			}
			msg := new(dns.Msg)
			msg.SetQuestion(q.name, dns.TypeA)
			msg.SetEdns0(1232, false)
			q.start = time.Now()
			go func() {
				defer close(q.done)
				defer cancel()
				ctx := contextutil.WithLazyDeadline(parent, q.start.Add(q.budget))
				defer ctx.Cancel()
				ch := middleware.NewChain(handlers)
				ch.Reset(q.tr, msg)
				ch.Next(ctx)
			}()
		}
		for qi, q := range qs {
			if q.barrier {
				for j := 0; j < qi; j++ {
					waitOne(j, qs[j], &inconclusive, &goFail)
				}
			}
			if q.pause > 0 {
				time.Sleep(q.pause)
			}
			q.askedPre = lab.askedFor(q.name)
			launch(q)
			if q.serial {
				waitOne(qi, q, &inconclusive, &goFail)
				q.askedPost = lab.askedFor(q.name)
			}
			if r.Intn(3) == 0 && !leaderLeaves && tmpl == "" {
				time.Sleep(time.Duration(r.Intn(30)) * time.Millisecond)
			}
			if leaderLeaves && q == qs[0] {
				time.Sleep(3 * time.Millisecond) // let it become the singleflight leader
			}
		}
		for i, q := range qs {
			waitOne(i, q, &inconclusive, &goFail)
		}
		// retry in isolation: a client that stayed, asked for a name both of whose servers
		// answer usably, and was failed at the end of its budget is either the victim of an
		// overloaded machine or of a wedge. A wedge repeats when the same kind of query is
		// asked again, alone; a hiccup does not.
		retried := map[*qrec]bool{}
		for _, q := range qs {
			q.tr.mu.Lock()
			failedLate := q.expect == 1 && !q.cancelled && q.tr.writes == 1 && q.tr.rcode == dns.RcodeServerFailure &&
				q.tr.at.Sub(q.start) >= 3*q.budget/4
			q.tr.mu.Unlock()
			if !failedLate {
				continue
			}
			recovered := false
			for try := 0; try < 2 && !recovered; try++ {
				again := newQ(q.s1, q.s2, 1)
				launch(again)
				waitOne(-1, again, &inconclusive, &goFail)
				again.tr.mu.Lock()
				recovered = again.tr.writes == 1 && again.tr.rcode == dns.RcodeSuccess
				again.tr.mu.Unlock()
			}
			retried[q] = recovered
		}
		// limiter quiescence: once every client has its reply no lookup is running, so every
		// concurrency slot must come back at once (stragglers are interrupted, not waited out)
		slotsMs := 0
		slotStart := time.Now()
		for len(h.resolver.maxConcurrent) > 0 || len(h.resolver.resolutionSlots) > 0 {
			if time.Since(slotStart) > 6*time.Second {
				break
			}
			time.Sleep(5 * time.Millisecond)
		}
		slotsMs = int(time.Since(slotStart) / time.Millisecond)
		// goroutines drain: everything the resolver spawned for these queries ends within
		// the per-exchange timeout and the TCP stall bound
		left := 0
		deadline := time.Now().Add(8 * time.Second)
		for {
			left = runtime.NumGoroutine() - baseline
			if left <= 0 || time.Now().After(deadline) {
				break
			}
			time.Sleep(20 * time.Millisecond)
		}
		if left < 0 {
			left = 0
		}
		var obs []string
		var desc []map[string]any
		nontrivial := false
		for i, q := range qs {
			q.tr.mu.Lock()
			writes, rcode, at := q.tr.writes, q.tr.rcode, q.tr.at
			q.tr.mu.Unlock()
			lat := 0
			if writes > 0 {
				lat = int(at.Sub(q.start) / time.Millisecond)
			}
			cls := 0
			switch {
			case writes == 0:
			case rcode == dns.RcodeSuccess:
				cls = 1
			case rcode == dns.RcodeServerFailure:
				cls = 2
			default:
				cls = 8
			}
			obs = append(obs, fmt.Sprintf("mk_lobs %d %d %d %d %v", q.expect, writes, cls, lat, q.cancelled))
			desc = append(desc, map[string]any{"i": i, "name": q.name, "ns1": q.s1, "ns2": q.s2, "expect": []string{"either", "NOERROR", "SERVFAIL"}[q.expect], "writes": writes, "class": cls, "latency_ms": lat, "client_went_away": q.cancelled, "asked_again": q.again, "authority_queries_for_name_before": q.askedPre, "authority_queries_for_name_after": q.askedPost})
			if writes > 1 && goFail == "" {
				goFail = fmt.Sprintf("query %d (%s): %d writes", i, q.name, writes)
			}
			if writes == 0 && !q.cancelled && goFail == "" {
				goFail = fmt.Sprintf("query %d (%s): no reply", i, q.name)
			}
			// a count, not a duration: a client that came alone (serial), after everybody else had
			// been answered, for a name both of whose servers answer, was failed although no name
			// server was asked anything for it: the failure it got is somebody else's, kept in
			// shared state
			if q.serial && q.again && q.expect == 1 && writes == 1 && rcode == dns.RcodeServerFailure && q.askedPost == q.askedPre && goFail == "" {
				goFail = fmt.Sprintf("query %d (%s): another client's failure was served to this one: SERVFAIL in %d ms, and its name servers were not asked for the name (asked %d times before and after)", i, q.name, lat, q.askedPre)
			}
			if recovered, was := retried[q]; was && recovered {
				// failed at the end of its budget, but the same query asked again alone is
				// answered: an overloaded machine, not a verdict
				inconclusive = true
			}
			if lat > int(10*vC11QT/time.Millisecond) {
				// ten times the budget: the machine, not the resolver
				inconclusive = true
			}
			if q.expect == 2 || len(qs) > 2 {
				nontrivial = true
			}
		}
		if left > 0 && goFail == "" {
			// stuck goroutines would be a failure; give a loaded machine the benefit of the doubt once
			time.Sleep(3 * time.Second)
			if runtime.NumGoroutine()-baseline > 0 {
				goFail = fmt.Sprintf("%d goroutines above the baseline 11 s after the last reply", runtime.NumGoroutine()-baseline)
				left = runtime.NumGoroutine() - baseline
			} else {
				left = 0
			}
		}
		k := "lab"
		if tiny {
			k = "lab-tiny-capacity"
		}
		if nocache {
			k += "-nocache"
		}
		if longNet {
			k += "-longnet"
		}
		if quickWin {
			k += "-quickwin"
		}
		if warmed {
			k += "-warmed"
		}
		if tmpl != "" {
			k = "lab-" + tmpl
		}
		if slotsMs > int(vC11QT/time.Millisecond) && goFail == "" {
			goFail = fmt.Sprintf("concurrency slots still held %d ms after the last client was answered", slotsMs)
		}
		lag.end()
		if lag.slow() {
			// duration-derived verdicts are about the machine when the scheduler stalled us
			if slotsMs > int(vC11QT/time.Millisecond) && slotsMs < 6000 {
				inconclusive = true
			}
			for _, q := range qs {
				q.tr.mu.Lock()
				if q.expect == 1 && !q.cancelled && q.tr.writes == 1 && q.tr.rcode == dns.RcodeServerFailure &&
					!(q.serial && q.again && q.askedPost == q.askedPre) { // that one is a count, not a duration
					inconclusive = true
				}
				q.tr.mu.Unlock()
			}
		}
		emit(map[string]any{
			"k":            k,
			"coq":          fmt.Sprintf("CaseLab %d [%s] %d %d", int(vC11QT/time.Millisecond), strings.Join(obs, "; "), left, slotsMs),
			"nontrivial":   nontrivial,
			"go_fail":      goFail,
			"inconclusive": inconclusive,
			"desc":         map[string]any{"scheduler_lag_max_ms": int(time.Duration(lag.max.Load()) / time.Millisecond), "query_timeout_ms": int(vC11QT / time.Millisecond), "exchange_timeout_ms": int(vC11NetTO / time.Millisecond), "max_concurrent": cfg.MaxConcurrentQueries, "queries": desc, "goroutines_left": left, "slots_held_ms_after_last_reply": slotsMs},
		})
		cm.Stop()
		h.Stop()
	}
}
