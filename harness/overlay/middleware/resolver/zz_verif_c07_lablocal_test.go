//go:build verif

package resolver

// C07 lab, local-interface glue: the attacker's server (evil.l1.) delegates sub.evil.l1. to in-bailiwick
// hosts whose glue carries an address that is REALLY configured on a non-loopback interface of this
// machine (enumerated with net.InterfaceAddrs, not taken from the package under test), alone or next to
// a usable address, a second spelling of itself, or a loopback address.  The package's own interface
// list is whatever its init() collected - nothing is pinned.  Observed through the real DNSHandler:
// what is on file in the NS-address cache for the referral's hosts, which servers the delegation cache
// lists for sub.evil.l1., which advertised addresses the resolver dialled (resolveTarget hook) and
// whether a query arrived at the socket standing in for the machine's own address.

import (
	"fmt"
	"math/rand"
	"net"
	"net/netip"
	"sort"
	"strings"
	"sync"

	"github.com/miekg/dns"
	"github.com/semihalev/sdns/internal/cache"
)

const vC07AddrSub = "192.0.2.98" // usable glue for the delegated zone's server

func vC07LabLocal(l *vC07Lab, r *rand.Rand, cnt int, scratch string, emit func(map[string]any)) {
	hostAll, hostExt := vC07HostAddrs()
	var own4 []net.IP
	for _, ip := range hostExt {
		if b := ip.To4(); b != nil && !ip.Equal(net.ParseIP(vC07AddrSub)) {
			own4 = append(own4, b)
		}
	}
	if len(own4) == 0 {
		emit(map[string]any{"k": "lablocal-none", "nontrivial": false,
			"desc": "this host has no non-loopback IPv4 interface address: nothing to offer as local glue"})
		return
	}
	localCoq := vC07CoqIPList(hostAll)
	// what an address lookup for an NS host of the delegated zone returns in the current scenario
	var nsMu sync.Mutex
	nsAnswers := map[string][]dns.RR{}
	nsAnswer := func(q dns.Question) *dns.Msg {
		nsMu.Lock()
		rrs, ok := nsAnswers[strings.ToLower(q.Name)]
		nsMu.Unlock()
		if !ok || q.Qtype != dns.TypeA {
			return nil
		}
		m := &dns.Msg{}
		m.Authoritative = true
		m.Answer = rrs
		return m
	}
	answer := func(q dns.Question) *dns.Msg {
		name := strings.ToLower(q.Name)
		if m := nsAnswer(q); m != nil {
			return m
		}
		if strings.HasPrefix(name, "ns") || q.Qtype != dns.TypeA {
			return vC07SoftNeg("sub.evil.l1.", false)
		}
		m := &dns.Msg{}
		m.Authoritative = true
		m.Answer = []dns.RR{vC07RR(q.Name + " 300 IN A 198.51.100.70")}
		return m
	}
	sub, err := vC07StartAuth("sub", answer)
	if err != nil {
		emit(map[string]any{"k": "lablocal", "inconclusive": true, "desc": fmt.Sprint(err)})
		return
	}
	defer sub.stop()
	// stands in for "this machine, port 53": if the resolver ever dials one of its own addresses the
	// query lands here (and is answered, so that a broken filter shows as a completed resolution)
	own, err := vC07StartAuth("own", answer)
	if err != nil {
		emit(map[string]any{"k": "lablocal", "inconclusive": true, "desc": fmt.Sprint(err)})
		return
	}
	defer own.stop()

	for c := 0; c < cnt; c++ {
		qn := vC07Name{fmt.Sprintf("h%d", c), "sub", "evil", "l1"}
		qs := qn.String()
		mine := own4[r.Intn(len(own4))]
		hostsAvail := []string{"ns.sub.evil.l1.", "ns2.sub.evil.l1.", "ns3.evil.l1."}
		var attack vC07Attack
		var tags []string
		nsrr := func(h string) {
			attack.ns = append(attack.ns, vC07RRSpec{owner: vC07N("sub.evil.l1."), rrtype: dns.TypeNS, class: dns.ClassINET, ttl: 300, target: vC07N(h)})
		}
		glue := func(h string, ip []byte) {
			attack.extra = append(attack.extra, vC07RRSpec{owner: vC07N(h), rrtype: dns.TypeA, class: dns.ClassINET, ttl: 300, ip: ip})
		}
		subIP := []byte(net.ParseIP(vC07AddrSub).To4())
		lookupIP := []byte{192, 0, 2, 97} // a usable address an NS-host lookup returns next to the own one
		var lookups []vC07RRSpec      // the records the address lookup for hostsAvail[0] returns
		switch c % 7 {
		case 0: // the machine's own address is all the referral offers
			nsrr(hostsAvail[0])
			glue(hostsAvail[0], mine)
			tags = []string{"own-only"}
		case 1: // one host on the machine's own address, one on a usable address
			nsrr(hostsAvail[0])
			nsrr(hostsAvail[1])
			glue(hostsAvail[0], mine)
			glue(hostsAvail[1], subIP)
			tags = []string{"own+usable-host"}
		case 2: // one host with both addresses, the usable one first or second
			nsrr(hostsAvail[0])
			if r.Intn(2) == 0 {
				glue(hostsAvail[0], subIP)
				glue(hostsAvail[0], mine)
			} else {
				glue(hostsAvail[0], mine)
				glue(hostsAvail[0], subIP)
			}
			tags = []string{"own+usable-same-host"}
		case 3: // 16-octet spelling of the own address (as an A record's net.IP may be), loopback on a second host
			nsrr(hostsAvail[0])
			nsrr(hostsAvail[2])
			glue(hostsAvail[0], []byte(net.IP(mine).To16()))
			glue(hostsAvail[2], []byte{127, 0, 0, 1})
			glue(hostsAvail[2], subIP)
			tags = []string{"own-16-octets+loopback"}
		case 5: // no glue for the first host: its address LOOKUP returns the own address next to a usable one
			nsrr(hostsAvail[0])
			nsrr(hostsAvail[1])
			glue(hostsAvail[1], subIP)
			lookups = []vC07RRSpec{{owner: vC07N(hostsAvail[0]), rrtype: dns.TypeA, class: dns.ClassINET, ttl: 300, ip: mine},
				{owner: vC07N(hostsAvail[0]), rrtype: dns.TypeA, class: dns.ClassINET, ttl: 300, ip: lookupIP}}
			tags = []string{"lookup-own+usable"}
		case 6: // the only host has no glue and its address lookup returns nothing but the own address
			nsrr(hostsAvail[0])
			lookups = []vC07RRSpec{{owner: vC07N(hostsAvail[0]), rrtype: dns.TypeA, class: dns.ClassINET, ttl: 300, ip: mine}}
			tags = []string{"lookup-own-only"}
		default: // random mix
			k := 1 + r.Intn(3)
			for i := 0; i < k; i++ {
				nsrr(hostsAvail[i])
				for j, na := 0, 1+r.Intn(2); j < na; j++ {
					switch r.Intn(4) {
					case 0, 1:
						glue(hostsAvail[i], own4[r.Intn(len(own4))])
					case 2:
						glue(hostsAvail[i], subIP)
					default:
						near := append([]byte{}, mine...)
						near[3] ^= 1
						glue(hostsAvail[i], near) // the neighbour of the own address: usable (nobody answers there)
					}
				}
			}
			tags = []string{"own-mix"}
		}
		amsg := attack.msg()
		amsg.Authoritative = false
		nsMu.Lock()
		nsAnswers = map[string][]dns.RR{}
		if len(lookups) > 0 {
			nsAnswers[hostsAvail[0]] = vC07RRs(lookups)
		}
		nsMu.Unlock()
		l.evil.setHandle(func(q dns.Question) *dns.Msg {
			if strings.EqualFold(q.Name, qs) {
				return amsg
			}
			if m := nsAnswer(q); m != nil {
				return m
			}
			return l.honestEvil(q)
		})
		p := l.newPipe(0, scratch)
		// record every advertised address the resolver resolves a dial target for
		var dmu sync.Mutex
		dialled := map[string]bool{}
		remap := map[string]string{}
		for k, v := range l.remap {
			remap[k] = v
		}
		remap[vC07AddrSub+":53"] = sub.addr
		remap[net.IP(lookupIP).String()+":53"] = sub.addr
		ownSet := map[string]bool{}
		for _, ip := range own4 {
			remap[net.IP(ip).String()+":53"] = own.addr
			ownSet[net.IP(ip).String()] = true
		}
		near := append([]byte{}, mine...)
		near[3] ^= 1
		if !ownSet[net.IP(near).String()] {
			remap[net.IP(near).String()+":53"] = sub.addr
		}
		mapper := func(addr string) string {
			dmu.Lock()
			dialled[addr] = true
			dmu.Unlock()
			if to, ok := remap[addr]; ok {
				return to
			}
			return addr
		}
		p.h.resolver.resolveTarget.Store(&mapper)
		rep := p.ask(qs, dns.TypeA)
		asked := l.drainAsked()
		ownAsked := own.takeAsked()
		sub.takeAsked()

		// NS-address cache for the referral's hosts
		var filedCoq, filedDesc, probeCoq []string
		var allAddrs []netip.Addr
		for _, h := range hostsAvail {
			if addrs, ok := p.h.resolver.getIPv4Cache(h); ok {
				probeCoq = append(probeCoq, fmt.Sprintf("(%s, Some %s)", vC07N(h).coq(), vC07CoqAddrs(addrs)))
				filedCoq = append(filedCoq, fmt.Sprintf("(%s, %s)", vC07N(h).coq(), vC07CoqAddrs(addrs)))
				filedDesc = append(filedDesc, fmt.Sprintf("%s=%v", h, addrs))
				allAddrs = append(allAddrs, addrs...)
			} else {
				probeCoq = append(probeCoq, fmt.Sprintf("(%s, None)", vC07N(h).coq()))
			}
		}
		// delegation cache: the server list on file for sub.evil.l1.
		var srv []netip.Addr
		for _, cd := range []bool{true, false} {
			d, derr := p.h.resolver.delegations.Get(cache.Key(dns.Question{Name: "sub.evil.l1.", Qtype: dns.TypeNS, Qclass: dns.ClassINET}, cd))
			if derr != nil || len(srv) > 0 {
				continue
			}
			d.Servers.RLock()
			for _, sv := range d.Servers.List {
				if ap, perr := netip.ParseAddrPort(sv.Addr); perr == nil {
					srv = append(srv, ap.Addr())
				}
			}
			d.Servers.RUnlock()
		}
		// advertised glue addresses of this referral that were dialled
		glueSet := map[string]bool{}
		for _, s := range append(append([]vC07RRSpec{}, attack.extra...), lookups...) {
			if a, ok := netip.AddrFromSlice(s.ip); ok {
				glueSet[a.Unmap().String()] = true
			}
		}
		var dl []netip.Addr
		dmu.Lock()
		for k := range dialled {
			if ap, perr := netip.ParseAddrPort(k); perr == nil && ap.Port() == 53 && glueSet[ap.Addr().String()] {
				dl = append(dl, ap.Addr())
			}
		}
		dmu.Unlock()
		sort.Slice(dl, func(i, j int) bool { return dl[i].Less(dl[j]) })
		p.close()
		l.evil.setHandle(l.honestEvil)

		goFail := ""
		for _, a := range append(append(append([]netip.Addr{}, allAddrs...), srv...), dl...) {
			if ownSet[a.String()] {
				goFail = "glue address " + a.String() + " is configured on an interface of this machine and was "
				switch {
				case len(ownAsked) > 0:
					goFail += "queried"
				default:
					goFail += "kept as a server address"
				}
			}
		}
		if len(ownAsked) > 0 && goFail == "" {
			goFail = "a query was sent to one of this machine's own addresses: " + strings.Join(ownAsked, ",")
			if !strings.HasPrefix(ownAsked[0], strings.ToLower(qs)) {
				goFail += " (sent by an earlier scenario's resolver and delivered after that scenario was judged)"
			}
		}
		crc := -1
		var repAns []string
		if rep != nil {
			crc = rep.Rcode
			repAns = vC07RRStrings(rep.Answer)
		}
		coq := fmt.Sprintf("CaseLabLocal %s 2 %s (mk_q %s 1 1) %s [%s] %s %s %v", localCoq, vC07N(vC07Evil).coq(), qn.coq(), attack.coq(),
			strings.Join(filedCoq, ";"), vC07CoqAddrs(srv), vC07CoqAddrs(dl), len(ownAsked) > 0)
		if len(lookups) > 0 {
			// the lookup route is part of the NS-address-cache history model: one referral event whose glue-less host is
			// resolved by an address lookup returning [lookups]
			var hostNames []vC07Name
			for _, s := range attack.ns {
				hostNames = append(hostNames, s.target)
			}
			coq = fmt.Sprintf("CaseGlueHist %s [GlueReferral 2 %s %s %s [(%s, %s)]] [%s]", localCoq, qn.coq(), vC07CoqNames(hostNames), vC07CoqRRs(attack.extra),
				vC07N(hostsAvail[0]).coq(), vC07CoqRRs(lookups), strings.Join(probeCoq, ";"))
		}
		emit(map[string]any{
			"k": "lablocal-" + tags[0],
			"coq": coq,
			"nontrivial": true, "go_fail": goFail,
			"desc": map[string]any{"zone": vC07Evil, "question": qs, "attack": tags, "local_interface_addrs": fmt.Sprint(hostAll),
				"sent_authority": vC07DescRRs(attack.ns), "sent_additional": vC07DescRRs(attack.extra), "ns_host_address_lookup_returns": vC07DescRRs(lookups),
				"ns_address_cache": filedDesc, "delegation_servers": fmt.Sprint(srv), "glue_addresses_dialled": fmt.Sprint(dl),
				"queries_at_own_address": ownAsked, "client_rcode": crc, "client_reply_answer": repAns, "servers_asked": vC07Sorted(asked)},
		})
	}
}
