//go:build verif

package resolver

// C11 driver (g): chains of singleflight leaders in the REAL Resolver.groupLookup (the real
// SingleflightWrapper.TimedDoChanWithRole, the real Resolver.lookup up to its attempt-slot
// wait) in a testing/synctest bubble. The authority is "stalled" the way a silent server
// stalls a lookup: the one upstream attempt slot is taken, so every leader sits in its lookup
// until its OWN context ends (deadline or client cancellation) and fails request-locally.
// 2-8 callers of one key arrive staggered; each earlier arrival leads in turn and gives up at
// its own instant, so a late, patient caller stays a follower through 1..6 successive failed
// leaders. Optionally the authority recovers (the slot is handed back) and the lookup then
// goes to a loopback authority that answers. Recorded per caller: the virtual instant its
// groupLookup returned, what it returned (answer / a context error while its own context had
// ended / a request-local error while its own context was ALIVE = somebody else's / another
// error).  No wall-clock anywhere in a verdict.

import (
	"context"
	"encoding/json"
	"errors"
	"fmt"
	"hash/maphash"
	"math/rand"
	"net"
	"os"
	"sort"
	"strconv"
	"strings"
	"sync"
	"sync/atomic"
	"testing"
	"testing/synctest"
	"time"

	"github.com/miekg/dns"
	"github.com/semihalev/sdns/config"
	"github.com/semihalev/sdns/internal/authority"
	"github.com/semihalev/sdns/internal/dnsutil"
	internalcache "github.com/semihalev/sdns/internal/cache"
	"github.com/semihalev/sdns/middleware"
)

type vC11GCaller struct {
	key         int // which lookup key (flights mode: several keys share the capacity pools)
	arrive, end int
	kind        int // 1 own deadline, 2 client cancellation
	cancel      context.CancelFunc

	mu    sync.Mutex
	ret   int
	class int // 0 answer, 1 own context error, 2 foreign request-local error, 3 other error, 9 still running
	ekind int // 0 none, 1 DeadlineExceeded, 2 Canceled, 3 other
	errs  string
	// the error it ended with is one the middleware classes as request-local
	// (middleware.IsRequestLocalResolutionError): only then does DNSHandler.handle mark the
	// SERVFAIL it builds and the cache writer keep it out of the shared RFC 9520 failure state
	local bool
}

type vC11GEvent struct {
	t, kind, idx int // kind 0 arrive, 1 end (cancel fired / deadline reached), 2 recover
}

func vC11GEnvInt(name string, def int) int {
	if s := os.Getenv(name); s != "" {
		if n, err := strconv.Atoi(s); err == nil {
			return n
		}
	}
	return def
}

func vC11GResolver() *Resolver {
	cfg := &config.Config{DNSSEC: "off", Maxdepth: 30, MaxConcurrentQueries: 1, Timeout: config.Duration{Duration: time.Second}}
	return &Resolver{
		cfg:            cfg,
		delegations:    authority.NewCache(),
		rootServers:    &authority.Servers{Zone: "."},
		glueV4:         internalcache.New(defaultCacheSize),
		netTimeout:     time.Second,
		sfGroup:        &SingleflightWrapper{},                                     // no cleanup goroutine: flights here live < 15 s
		circuitBreaker: &circuitBreaker{failures: make(map[string]*serverFailure)}, // no janitor goroutine
	}
}

// corpus/C11/regroup.json: [{"note":..., "callers":[[arrive_ms, own_end_ms, kind 1 deadline | 2 cancel], ...], "recover_at":-1}]
type vC11GCorpusEntry struct {
	Note      string   `json:"note"`
	Callers   [][3]int `json:"callers"`
	RecoverAt int      `json:"recover_at"`
}

func vC11GCorpus() []vC11GCorpusEntry {
	dir := os.Getenv("VERIF_CORPUS")
	if dir == "" {
		return nil
	}
	b, err := os.ReadFile(dir + "/regroup.json")
	if err != nil {
		return nil
	}
	var es []vC11GCorpusEntry
	if json.Unmarshal(b, &es) != nil {
		return nil
	}
	return es
}

func TestVerifC11Regroup(t *testing.T) {
	out := os.Getenv("VERIF_OUT")
	if out == "" {
		t.Skip("VERIF_OUT not set")
	}
	f, err := os.Create(out)
	if err != nil {
		t.Fatal(err)
	}
	defer f.Close()
	seed := int64(vC11GEnvInt("VERIF_SEED", 1))
	n := vC11GEnvInt("VERIF_N", 100)
	r := rand.New(rand.NewSource(seed*86028121 + 41))

	// the authority that answers once the stall is over (outside every bubble)
	pc, err := net.ListenPacket("udp", "127.0.0.1:0")
	if err != nil {
		t.Skip("loopback bind failed")
	}
	var wire atomic.Int64
	srv := &dns.Server{Net: "udp", PacketConn: pc, Handler: dns.HandlerFunc(func(w dns.ResponseWriter, req *dns.Msg) {
		if len(req.Question) == 0 {
			return
		}
		wire.Add(1)
		m := new(dns.Msg)
		m.SetReply(req)
		m.Authoritative = true
		m.Answer = []dns.RR{&dns.A{Hdr: dns.RR_Header{Name: req.Question[0].Name, Rrtype: dns.TypeA, Class: dns.ClassINET, Ttl: 60}, A: net.IPv4(198, 51, 100, 11)}}
		_ = w.WriteMsg(m)
	})}
	go func() { _ = srv.ActivateAndServe() }()
	defer srv.Shutdown()
	addr := pc.LocalAddr().String()

	corpus := vC11GCorpus()
	for c := 0; c < n; c++ {
		// ---- generate: distinct instants (ms), arrival before own end ----
		used := map[int]bool{}
		pick := func(lo, hi int) int {
			for {
				v := lo + r.Intn(hi-lo)
				if !used[v] {
					used[v] = true
					return v
				}
			}
		}
		var callers []*vC11GCaller
		mode := "regroup-chain"
		nc := 2 + r.Intn(7)
		if os.Getenv("VERIF_TIER") == "thorough" {
			nc = 2 + r.Intn(11) // chains of up to 11 failed leaders
		}
		recoverAt := -1
		nkeys, capSlots, zcap := 1, 0, 0 // capSlots == 0: no capacity pools (the single-key modes)
		tmpl := r.Intn(5)
		if c < len(corpus) {
			tmpl = -1
		}
		switch tmpl {
		case -1:
			mode = "regroup-corpus"
			for _, cl := range corpus[c].Callers {
				callers = append(callers, &vC11GCaller{arrive: cl[0], end: cl[1], kind: cl[2]})
			}
			recoverAt = corpus[c].RecoverAt
			nc = len(callers)
		case 4:
			// several keys over small capacity pools: the global in-flight slots and the zone quota
			mode = "regroup-flights"
			nkeys, capSlots, zcap = 2+r.Intn(2), 1+r.Intn(3), 1+r.Intn(3)
			for i := 0; i < nc; i++ {
				a := pick(1, 3000)
				callers = append(callers, &vC11GCaller{key: r.Intn(nkeys), arrive: a, end: pick(a+1, a+6000), kind: 1 + r.Intn(2)})
			}
			if r.Intn(2) == 0 {
				recoverAt = pick(500, 9000)
			}
		case 0:
			// free mix: arrivals and ends anywhere
			mode = "regroup-mix"
			for i := 0; i < nc; i++ {
				a := pick(1, 3000)
				callers = append(callers, &vC11GCaller{arrive: a, end: pick(a+1, a+6000), kind: 1 + r.Intn(2)})
			}
			if r.Intn(2) == 0 {
				recoverAt = pick(500, 9000)
			}
		default:
			// a chain: impatient callers give up one after the other (ends strictly increasing);
			// each of them arrives before its predecessor gives up - early, or just in time
			// (while its pre-predecessor's successor already leads), so that late joiners keep
			// turning up in the later flights; one patient caller (any position, usually early)
			// ends long after everybody else
			ni := nc - 1
			ends := make([]int, ni)
			e := 0
			for i := 0; i < ni; i++ {
				e = pick(e+100, e+1500)
				ends[i] = e
			}
			for i := 0; i < ni; i++ {
				lo, hi := 1, ends[0]
				if i >= 1 {
					hi = ends[i-1]
				}
				if i >= 2 && r.Intn(2) == 0 {
					lo = ends[i-2] + 1
				}
				callers = append(callers, &vC11GCaller{arrive: pick(lo, hi), end: ends[i], kind: 1 + r.Intn(2)})
			}
			pa := pick(1, ends[0])
			if ni >= 2 && r.Intn(3) == 0 {
				pa = pick(1, ends[ni-2])
			}
			last := &vC11GCaller{arrive: pa, end: pick(e+2000, e+4000), kind: 1 + r.Intn(2)}
			callers = append(callers, last)
			r.Shuffle(len(callers), func(a, b int) { callers[a], callers[b] = callers[b], callers[a] })
			switch r.Intn(3) {
			case 0:
				mode = "regroup-chain-recover"
				recoverAt = pick(e+1, last.end-1) // after the last impatient one left
			case 1:
				mode = "regroup-chain-recover-mid"
				recoverAt = pick(ends[0]+1, last.end-1)
			}
		}
		var events []vC11GEvent
		for i, cl := range callers {
			events = append(events, vC11GEvent{cl.arrive, 0, i}, vC11GEvent{cl.end, 1, i})
		}
		if recoverAt >= 0 {
			events = append(events, vC11GEvent{recoverAt, 2, 0})
		}
		sort.Slice(events, func(a, b int) bool { return events[a].t < events[b].t })

		wire.Store(0)
		stuck := false
		var series [][2]int
		res := vC11GResolver() // built outside the bubble (its caches may own janitors); the channels inside
		synctest.Test(t, func(t *testing.T) {
			start := time.Now()
			res.maxConcurrent = make(chan struct{}, 1)
			res.maxConcurrent <- struct{}{} // stalled
			if capSlots > 0 {
				res.resolutionSlots = make(chan struct{}, capSlots)
				res.zoneInflight = newZoneInflightLimiter(zcap)
			}
			sample := func() {
				if capSlots > 0 {
					zb := &res.zoneInflight.buckets[maphash.String(res.zoneInflight.seed, ".")%zoneInflightBuckets]
					series = append(series, [2]int{len(res.resolutionSlots), int(zb.Load())})
				}
			}
			servers := &authority.Servers{Zone: ".", List: []*authority.Server{authority.NewServer(addr, authority.IPv4)}}
			base := new(dns.Msg)
			base.SetQuestion(fmt.Sprintf("regroup%d.c11.example.", c), dns.TypeA)
			var wg sync.WaitGroup
			launch := func(i int) {
				cl := callers[i]
				cl.class = 9
				var ctx context.Context
				if cl.kind == 1 {
					ctx, cl.cancel = context.WithDeadline(context.Background(), start.Add(time.Duration(cl.end)*time.Millisecond))
				} else {
					ctx, cl.cancel = context.WithCancel(context.Background())
				}
				req := base.Copy()
				if capSlots > 0 {
					req.Question[0].Name = fmt.Sprintf("regroup%d-k%d.c11.example.", c, cl.key)
				}
				req.Id = uint16(100 + i)
				wg.Add(1)
				go func() {
					defer wg.Done()
					resp, err := res.groupLookup(ctx, &resolveState{req: req, requestID: req.Id}, req, servers, false)
					own := ctx.Err()
					cl.mu.Lock()
					defer cl.mu.Unlock()
					cl.ret = int(time.Since(start) / time.Millisecond)
					switch {
					case err == nil && resp != nil && resp.Id == req.Id && len(resp.Answer) == 1:
						cl.class = 0
					case err == nil:
						cl.class, cl.errs = 3, "nil error without the answer"
					default:
						cl.errs = err.Error()
						cl.local = middleware.IsRequestLocalResolutionError(err)
						// which pool refused is read off what the error SAYS (the Extended DNS Error
						// text the client gets), never off a sentinel's identity: a refusal that
						// changes its Go value but not its meaning is still a refusal
						var ede *dnsutil.EDEError
						shed := 0
						if errors.As(err, &ede) && ede.Code == dns.ExtendedErrorCodeNoReachableAuthority {
							switch {
							case strings.HasPrefix(ede.Message, "Zone ") && strings.Contains(ede.Message, "capacity"):
								shed = 5
							case strings.HasPrefix(ede.Message, "Resolver ") && strings.Contains(ede.Message, "capacity"):
								shed = 4
							}
						}
						switch {
						case errors.Is(err, context.DeadlineExceeded):
							cl.ekind = 1
						case errors.Is(err, context.Canceled):
							cl.ekind = 2
						default:
							cl.ekind = 3
						}
						switch {
						case shed != 0:
							cl.class, cl.ekind = shed, 0
						case errors.Is(err, middleware.ErrResolutionCapacity):
							cl.class, cl.ekind = 4, 0
						case own != nil && errors.Is(err, own):
							cl.class = 1
						case middleware.IsRequestLocalResolutionError(err):
							cl.class = 2 // its own context is alive: this is somebody else's failure
						default:
							cl.class = 3
						}
					}
				}()
			}
			for _, ev := range events {
				if d := start.Add(time.Duration(ev.t) * time.Millisecond).Sub(time.Now()); d > 0 {
					time.Sleep(d)
				}
				synctest.Wait()
				switch ev.kind {
				case 0:
					launch(ev.idx)
				case 1:
					if callers[ev.idx].kind == 2 {
						callers[ev.idx].cancel()
					}
				case 2:
					<-res.maxConcurrent // the authority is reachable again
				}
				synctest.Wait()
				sample()
			}
			time.Sleep(30 * time.Second)
			synctest.Wait()
			for _, cl := range callers {
				cl.mu.Lock()
				if cl.class == 9 {
					stuck = true
				}
				cl.mu.Unlock()
				cl.cancel()
			}
			wg.Wait()
		})

		var cc, oc, ec []string
		var desc []map[string]any
		goFail := ""
		failedLeaders := 0
		for i, cl := range callers {
			cc = append(cc, fmt.Sprintf("mk_gcaller %d %d %d", cl.arrive, cl.end, cl.kind))
			oc = append(oc, fmt.Sprintf("mk_gobs %d %d %d", cl.ret, cl.class, cl.ekind))
			desc = append(desc, map[string]any{"i": i, "arrives": cl.arrive, "own_context_ends": cl.end, "by": []string{"", "deadline", "cancel"}[cl.kind],
				"returned_at": cl.ret, "key": cl.key, "request_local": cl.local, "class": []string{"answer", "own-context-error", "FOREIGN-request-local-error", "other-error", "capacity-refused", "zone-capacity-refused", "", "", "", "still-running"}[cl.class], "error": cl.errs})
			if cl.class == 2 && goFail == "" {
				goFail = fmt.Sprintf("caller %d (own context alive until %d ms) was failed at %d ms with another request's error: %s", i, cl.end, cl.ret, cl.errs)
			}
			if cl.class == 9 && goFail == "" {
				goFail = fmt.Sprintf("caller %d was still in groupLookup 30 s after the last event", i)
			}
			// expired, cancelled or capacity-refused resolution must stay with that client: the
			// handler marks the SERVFAIL request-local - and the cache keeps it out of the shared
			// failure state - exactly when the middleware recognises the error as request-local
			if (cl.class == 1 || cl.class == 4 || cl.class == 5) && !cl.local && goFail == "" {
				goFail = fmt.Sprintf("caller %d ended with its own %s (%s) but middleware.IsRequestLocalResolutionError says it is not request-local: its SERVFAIL is published to the shared failure cache and served to other clients of the name",
					i, []string{"", "context error", "", "", "capacity refusal", "zone-capacity refusal"}[cl.class], cl.errs)
			}
			if cl.class == 1 && (recoverAt < 0 || cl.end < recoverAt) {
				failedLeaders++
			}
		}
		_ = stuck
		// an error that is neither the caller's own nor request-local can only come from the
		// loopback exchange after the recovery (a real socket): infrastructure, not a verdict
		wireTrouble := false
		for _, cl := range callers {
			if cl.class == 3 {
				wireTrouble = true
			}
		}
		for _, ev := range events {
			switch ev.kind {
			case 0:
				ec = append(ec, fmt.Sprintf("GAt %d (GArrive %d)", ev.t, ev.idx))
			case 1:
				ec = append(ec, fmt.Sprintf("GAt %d (GEnd %d)", ev.t, ev.idx))
			case 2:
				ec = append(ec, fmt.Sprintf("GAt %d GRecover", ev.t))
			}
		}
		coqCase := fmt.Sprintf("CaseRegroup [%s] [%s] [%s]", strings.Join(cc, "; "), strings.Join(ec, "; "), strings.Join(oc, "; "))
		nontrivial := failedLeaders >= 3
		if capSlots > 0 {
			var ks, ss []string
			refused := 0
			for _, cl := range callers {
				ks = append(ks, fmt.Sprintf("%d%%nat", cl.key))
				if cl.class == 4 || cl.class == 5 {
					refused++
				}
			}
			for _, x := range series {
				ss = append(ss, fmt.Sprintf("(%d%%nat, %d%%nat)", x[0], x[1]))
				if (x[0] > capSlots || x[1] > zcap) && goFail == "" {
					goFail = fmt.Sprintf("%d global / %d zone slots held with capacities %d / %d", x[0], x[1], capSlots, zcap)
				}
			}
			if n := len(series); n > 0 && (series[n-1][0] != 0 || series[n-1][1] != 0) && goFail == "" {
				goFail = fmt.Sprintf("after every caller returned %d global and %d zone slots are still held", series[n-1][0], series[n-1][1])
			}
			coqCase = fmt.Sprintf("CaseFlights [%s] %d %d %d [%s] [%s] [%s] [%s]", strings.Join(ks, "; "), nkeys, capSlots, zcap,
				strings.Join(cc, "; "), strings.Join(ec, "; "), strings.Join(oc, "; "), strings.Join(ss, "; "))
			nontrivial = refused >= 1
		}
		b, _ := json.Marshal(map[string]any{
			"k":            mode,
			"coq":          coqCase,
			"nontrivial":   nontrivial,
			"go_fail":      goFail,
			"inconclusive": wireTrouble,
			"desc":         map[string]any{"mode": mode, "callers": desc, "authority_recovers_at": recoverAt, "wire_queries": wire.Load(), "keys": nkeys, "global_slots": capSlots, "zone_quota": zcap, "slots_after_each_event": series},
		})
		f.Write(append(b, '\n'))
	}
}
