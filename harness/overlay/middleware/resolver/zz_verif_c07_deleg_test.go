//go:build verif

package resolver

// C07 driver section "deleg": the delegation cache across a history of authority sections.
//
// The REAL Resolver.processAuthoritySection (-> processDelegation -> checkGlueRR -> lookupV4Nss) is handed, for
// one resolver with real caches, a sequence of replies as resolve() hands them over: empty Answer, an Authority
// section with NS records (valid downward referrals, self / upward / sideways / cousin / mixed-owner / mixed-class
// sets, SOA riding along), ANY response code, glue inside and outside the bailiwick, glue-less hosts whose address
// lookups go to a scripted Queryer.  rs.depth = 1 makes the call return right after the cache boundary (errMaxDepth)
// instead of descending to the new servers.
//
// Observed: how the call ended, the delegation entry on file under the NS owner's key AT EACH ADDRESS LOOKUP (the
// provisional entry nested lookups are routed through: zone label, hosts, server addresses), and the entries on
// file afterwards for every name that owned an NS record in any message so far.  Model: Model.deleg_apply.

import (
	"context"
	"errors"
	"fmt"
	"math/rand"
	"net"
	"sort"
	"strings"
	"time"

	"github.com/miekg/dns"
	"github.com/semihalev/sdns/config"
	"github.com/semihalev/sdns/internal/authority"
	"github.com/semihalev/sdns/internal/cache"
	"github.com/semihalev/sdns/middleware"
)

type vC07DelegQueryer struct {
	world map[string][]dns.RR
	asked []string
	probe func()
}

func (q *vC07DelegQueryer) Query(ctx context.Context, req *dns.Msg) (*dns.Msg, error) {
	name := strings.ToLower(req.Question[0].Name)
	q.asked = append(q.asked, name)
	if q.probe != nil {
		q.probe()
	}
	ans, ok := q.world[name]
	if !ok {
		return nil, middleware.ErrNoResponse
	}
	m := new(dns.Msg)
	m.SetReply(req)
	m.Answer = ans
	return m, nil
}

type vC07DelegSnap struct {
	zone    string
	hosts   []string
	servers []string
	coq     string
}

// the entry on file for name (NS, IN, checking-disabled bucket), nil if none
func vC07DelegGet(res *Resolver, name string) *vC07DelegSnap {
	d, err := res.delegations.Get(cache.Key(dns.Question{Name: name, Qtype: dns.TypeNS, Qclass: dns.ClassINET}, true))
	if err != nil || d == nil || d.Servers == nil {
		return nil
	}
	s := &vC07DelegSnap{}
	d.Servers.RLock()
	s.zone = d.Servers.Zone
	s.hosts = append([]string{}, d.Servers.Hosts...)
	var addrs []string
	for _, sv := range d.Servers.List {
		ap := sv.UDPAddr.AddrPort()
		s.servers = append(s.servers, ap.Addr().String())
		addrs = append(addrs, vC07CoqAddr(ap.Addr()))
	}
	d.Servers.RUnlock()
	var hs []vC07Name
	for _, h := range s.hosts {
		hs = append(hs, vC07Parse(h))
	}
	s.coq = fmt.Sprintf("(mk_de %s %s [%s])", vC07Parse(s.zone).coq(), vC07CoqNames(hs), strings.Join(addrs, ";"))
	return s
}

func (s *vC07DelegSnap) String() string {
	if s == nil {
		return "none"
	}
	return fmt.Sprintf("zone=%q hosts=%v servers=%v", s.zone, s.hosts, s.servers)
}

// labels shared from the root, ASCII case folded (the driver's own comparison, not dnsname's)
func vC07SharedLabels(a, b vC07Name) int {
	n := 0
	for i, j := len(a)-1, len(b)-1; i >= 0 && j >= 0; i, j = i-1, j-1 {
		if !strings.EqualFold(a[i], b[j]) {
			break
		}
		n++
	}
	return n
}

func vC07IsBelow(zone, n vC07Name) bool { return vC07SharedLabels(zone, n) == len(zone) }

// the order lookupV4Nss walks the hosts in: sorted as strings, then by the labels shared with the NS owner, deepest first
func vC07HostOrder(hosts []string, owner vC07Name) []string {
	out := append([]string{}, hosts...)
	sort.Strings(out)
	sort.SliceStable(out, func(i, j int) bool {
		return vC07SharedLabels(vC07Parse(out[i]), owner) > vC07SharedLabels(vC07Parse(out[j]), owner)
	})
	return out
}

func vC07DelegCases(r *rand.Rand, cnt int, local []net.IP, emit func(map[string]any)) {
	localCoq := vC07CoqIPList(local)
	gen := vC07NewIPGen(local)
	plain := [][]byte{{198, 51, 100, 1}, {198, 51, 100, 2}, {203, 0, 113, 5}, {6, 6, 6, 6}}
	rcodes := []int{dns.RcodeSuccess, dns.RcodeSuccess, dns.RcodeNameError, dns.RcodeNameError, dns.RcodeServerFailure,
		dns.RcodeRefused, dns.RcodeFormatError, dns.RcodeNotImplemented, dns.RcodeYXDomain, dns.RcodeNotAuth}
	for c := 0; c < cnt; c++ {
		res := &Resolver{cfg: &config.Config{IPv6Access: false}, glueV4: cache.New(1024), glueV6: cache.New(1024), delegations: authority.NewCache()}
		dq := &vC07DelegQueryer{}
		var qr middleware.Queryer = dq
		res.queryer.Store(&qr)
		qname := vC07RandQName(r)
		for len(qname) < 2 {
			qname = vC07RandQName(r)
		}
		steps := 1 + r.Intn(3)
		var evCoq, obsCoq []string
		var evDesc []map[string]any
		var probeNames []vC07Name
		addProbe := func(n vC07Name) {
			k := strings.ToLower(n.String())
			for _, p := range probeNames {
				if strings.ToLower(p.String()) == k {
					return
				}
			}
			probeNames = append(probeNames, vC07Parse(k))
		}
		goFail := ""
		var owners []vC07Name // NS owners of earlier events (to meet the cached branch)
		kind := "deleg"
		for e := 0; e < steps; e++ {
			// the zone whose servers answer: an ancestor of qname (as searchCache guarantees), now and then something else
			k := r.Intn(len(qname))
			auth := append(vC07Name{}, qname[len(qname)-k:]...)
			if r.Intn(10) == 0 {
				auth, _ = vC07Relative(r, qname)
			}
			level := len(auth)
			switch r.Intn(8) {
			case 0:
				level++ // a minimisation step happened at these servers
			case 1:
				level = len(qname) + 1 // deeper than any referral owner: parent detection
			}
			// the NS owner
			var owner vC07Name
			okind := ""
			switch x := r.Intn(20); {
			case x < 10 && len(qname) > len(auth) && vC07IsBelow(auth, qname):
				kk := len(auth) + 1 + r.Intn(len(qname)-len(auth))
				owner, okind = append(vC07Name{}, qname[len(qname)-kk:]...), "between"
			case x < 12:
				owner, okind = append(vC07Name{}, auth...), "self"
			case x < 14 && len(owners) > 0:
				owner, okind = owners[r.Intn(len(owners))], "again"
			case x < 16 && len(auth) > 0:
				// a sibling of the asked zone, or a cousin below it off the path
				owner, okind = append(vC07Name{"victim"}, auth[1:]...), "sideways"
				if r.Intn(2) == 0 {
					owner, okind = append(vC07Name{"cousin"}, auth...), "cousin"
				}
			default:
				owner, okind = vC07Relative(r, qname)
			}
			if r.Intn(5) == 0 {
				owner = vC07CaseMix(r, owner)
			}
			rcode := rcodes[r.Intn(len(rcodes))]
			var ns []vC07RRSpec
			var hostNames []vC07Name
			for i, nn := 0, 1+r.Intn(3); i < nn; i++ {
				s := vC07RRSpec{owner: owner, rrtype: dns.TypeNS, class: dns.ClassINET, ttl: uint32(120 + r.Intn(3000))}
				switch r.Intn(6) {
				case 0:
					s.target = append(vC07Name{"ns"}, auth...) // a host of the parent zone
				case 1:
					s.target = vC07Name{"ns", "elsewhere", "org"}
				default:
					s.target = append(vC07Name{[]string{"ns1", "ns2", "NS3", "a"}[r.Intn(4)]}, owner...)
				}
				switch r.Intn(14) {
				case 0:
					s.owner, _ = vC07Relative(r, qname) // mixed owner
				case 1:
					s.class = dns.ClassCHAOS
				case 2:
					s.owner = vC07CaseMix(r, owner)
				}
				ns = append(ns, s)
				hostNames = append(hostNames, s.target)
			}
			if r.Intn(12) == 0 {
				s := vC07RRSpec{owner: auth, rrtype: dns.TypeSOA, class: dns.ClassINET, ttl: 60}
				pos := r.Intn(len(ns) + 1)
				ns = append(ns[:pos], append([]vC07RRSpec{s}, ns[pos:]...)...)
			}
			if r.Intn(10) == 0 {
				ns = append(ns, vC07RRSpec{owner: owner, rrtype: dns.TypeDS, class: dns.ClassINET, ttl: 60})
			}
			// glue: for some hosts, mostly usable addresses; now and then hostile glue for another name
			var extra []vC07RRSpec
			for _, h := range hostNames {
				if r.Intn(2) == 0 {
					continue
				}
				sp := vC07RRSpec{owner: h, rrtype: dns.TypeA, class: dns.ClassINET, ttl: 60, ip: plain[r.Intn(len(plain))]}
				if r.Intn(3) == 0 {
					sp.ip, _ = gen.rand(r, false)
				}
				if r.Intn(4) == 0 {
					sp.owner = vC07CaseMix(r, h)
				}
				extra = append(extra, sp)
			}
			if r.Intn(4) == 0 {
				o, _ := vC07Relative(r, qname)
				extra = append(extra, vC07RRSpec{owner: append(vC07Name{"ns"}, o...), rrtype: dns.TypeA, class: dns.ClassINET, ttl: 60, ip: []byte{192, 0, 2, 99}})
			}
			// what address lookups return
			dq.world = map[string][]dns.RR{}
			var ansCoq []string
			seenHost := map[string]bool{}
			for _, h := range hostNames {
				hk := strings.ToLower(h.String())
				if seenHost[hk] || r.Intn(3) == 0 {
					continue
				}
				seenHost[hk] = true
				var recs []vC07RRSpec
				for i, na := 0, 1+r.Intn(2); i < na; i++ {
					sp := vC07RRSpec{owner: vC07Parse(hk), rrtype: dns.TypeA, class: dns.ClassINET, ttl: 60, ip: plain[r.Intn(len(plain))]}
					if r.Intn(3) == 0 {
						sp.ip, _ = gen.rand(r, false)
					}
					recs = append(recs, sp)
				}
				dq.world[hk] = vC07RRs(recs)
				ansCoq = append(ansCoq, fmt.Sprintf("(%s, %s)", vC07Parse(hk).coq(), vC07CoqRRs(recs)))
			}

			req := new(dns.Msg)
			req.SetQuestion(qname.String(), dns.TypeA)
			req.CheckingDisabled = true
			resp := new(dns.Msg)
			resp.SetReply(req)
			resp.Rcode = rcode
			resp.Ns = vC07RRs(ns)
			resp.Extra = vC07RRs(extra)
			// the first NS record anchors the set: its owner's key is where the delegation would be filed
			first := vC07Name(nil)
			hostSet := map[string]bool{}
			var hostList []string
			for _, s := range ns {
				if s.rrtype != dns.TypeNS {
					continue
				}
				addProbe(s.owner)
				if first == nil {
					first = s.owner
				}
				if strings.EqualFold(s.owner.String(), first.String()) && s.class == vC07Ns0Class(ns) {
					hk := strings.ToLower(s.target.String())
					if !hostSet[hk] {
						hostSet[hk] = true
						hostList = append(hostList, hk)
					}
				}
			}
			addProbe(auth)
			order := vC07HostOrder(hostList, first)
			var orderNames []vC07Name
			for _, h := range order {
				orderNames = append(orderNames, vC07Parse(h))
			}
			var snaps []*vC07DelegSnap
			dq.asked = nil
			dq.probe = func() {
				if s := vC07DelegGet(res, first.String()); s != nil {
					snaps = append(snaps, s)
				} else {
					snaps = append(snaps, &vC07DelegSnap{zone: "<no entry>", coq: "(mk_de [[0]] [] [])"})
				}
			}
			rs := &resolveState{req: req, servers: &authority.Servers{Zone: auth.String()}, depth: 1, level: level, nomin: true, requestID: req.Id}
			ctx, cancel := context.WithTimeout(context.Background(), 5*time.Second)
			out, err := res.processAuthoritySection(ctx, rs, req, resp, false)
			cancel()
			dq.probe = nil
			cls := 0
			switch {
			case errors.Is(err, errParentDetection) && out == nil:
				cls = 1
			case errors.Is(err, errParentDetection):
				cls = 2
			case errors.Is(err, errMaxDepth):
				cls = 3
			case errors.Is(err, errNoReachableAuth):
				cls = 4
			case err != nil:
				cls = 9
			}
			// a provisional publication needs a non-empty list, so the lookups that went out before the first
			// address was known see no entry: those are not publications (the model lists none for them)
			var snapCoq, snapDesc []string
			for _, s := range snaps {
				if s.zone == "<no entry>" {
					continue
				}
				snapCoq = append(snapCoq, s.coq)
				snapDesc = append(snapDesc, s.String())
			}
			var prCoq, prDesc []string
			for _, p := range probeNames {
				s := vC07DelegGet(res, p.String())
				if s == nil {
					prCoq = append(prCoq, fmt.Sprintf("(%s, None)", p.coq()))
					continue
				}
				prCoq = append(prCoq, fmt.Sprintf("(%s, Some %s)", p.coq(), s.coq))
				prDesc = append(prDesc, p.String()+": "+s.String())
				// Go-side oracle: the label the bailiwick tests will use is the name the entry is filed under, and that
				// name lies strictly below a zone whose servers were asked, on the way to the name being resolved
				if !strings.EqualFold(s.zone, p.String()) {
					goFail = fmt.Sprintf("the delegation entry filed under %s carries the zone label %q: replies of its servers are judged against that", p, s.zone)
				}
				if !vC07IsBelow(p, qname) {
					goFail = fmt.Sprintf("a delegation for %s is on file although %s is not on the path to %s", p, p, qname)
				}
			}
			for _, s := range snaps {
				if s.zone != "<no entry>" && !strings.EqualFold(s.zone, first.String()) {
					goFail = fmt.Sprintf("while the addresses of its name servers were looked up, the provisional entry for %s carried the zone label %q", first, s.zone)
				}
			}
			if cls == 3 {
				if s := vC07DelegGet(res, first.String()); s != nil && (!vC07IsBelow(auth, first) || len(first) <= len(auth)) {
					goFail = fmt.Sprintf("a referral for %s sent by the servers of %s (rcode %s) was followed", first, auth, dns.RcodeToString[rcode])
				}
			}
			m := vC07Attack{rcode: rcode, ns: ns, extra: extra}
			evCoq = append(evCoq, fmt.Sprintf("DelegMsg %s %d (mk_q %s 1 1) %s %s [%s]", auth.coq(), level, qname.coq(), m.coq(), vC07CoqNames(orderNames), strings.Join(ansCoq, ";")))
			obsCoq = append(obsCoq, fmt.Sprintf("(%d, [%s], [%s])", cls, strings.Join(snapCoq, ";"), strings.Join(prCoq, ";")))
			evDesc = append(evDesc, map[string]any{"asked_zone": auth.String(), "level": level, "qname": qname.String(), "rcode": dns.RcodeToString[rcode],
				"authority": vC07DescRRs(ns), "additional": vC07DescRRs(extra), "owner_kind": okind, "address_lookups": dq.asked,
				"ended": []string{"authority()", "referral rejected", "parent detection", "continued (errMaxDepth at depth 1)", "no reachable server", "", "", "", "", "other error: " + fmt.Sprint(err)}[cls],
				"provisional_entries_seen": snapDesc, "on_file_afterwards": prDesc})
			if cls == 3 {
				owners = append(owners, first)
			}
			if rcode != 0 {
				kind = "deleg-errcode"
			}
		}
		emit(map[string]any{
			"k":          fmt.Sprintf("%s-%d", kind, steps),
			"coq":        fmt.Sprintf("CaseDelegHist %s [%s] [%s]", localCoq, strings.Join(evCoq, ";"), strings.Join(obsCoq, ";")),
			"nontrivial": true, "go_fail": goFail,
			"desc": map[string]any{"events": evDesc},
		})
	}
}

// class of the first NS record of an authority section
func vC07Ns0Class(ns []vC07RRSpec) uint16 {
	for _, s := range ns {
		if s.rrtype == dns.TypeNS {
			return s.class
		}
	}
	return 0
}
