//go:build verif

package resolver

// C07 driver section "deleg": the delegation cache across a history of authority sections.
//
// The REAL Resolver.processAuthoritySection (-> processDelegation -> checkGlueRR -> lookupV4Nss) is handed, for
// one resolver with real caches, a sequence of replies as resolve() hands them over: empty Answer, an Authority
// section with NS records (valid downward referrals, self / upward / sideways / cousin / mixed-owner / mixed-class
// sets, SOA riding along), ANY response code, glue inside and outside the bailiwick, glue-less hosts whose address
// lookups go to a scripted Queryer.  rs.depth = 1 makes the call return right after the cache boundary (errMaxDepth)
// instead of descending to the new servers.
//
// Observed: how the call ended, the delegation entry on file under the NS owner's key AT EACH ADDRESS LOOKUP (the
// provisional entry nested lookups are routed through: zone label, hosts, server addresses), and the entries on
// file afterwards for every name that owned an NS record in any message so far.  Model: Model.deleg_apply.
//
// Fixed histories first (vC07DelegFixed and corpus/C07/unit.json kind "deleg"), then generated ones.

import (
	"context"
	"errors"
	"fmt"
	"math/rand"
	"net"
	"sort"
	"strings"
	"time"

	"github.com/miekg/dns"
	"github.com/semihalev/sdns/config"
	"github.com/semihalev/sdns/internal/authority"
	"github.com/semihalev/sdns/internal/cache"
	"github.com/semihalev/sdns/middleware"
)

type vC07DelegQueryer struct {
	world map[string][]dns.RR
	asked []string
	probe func()
}

func (q *vC07DelegQueryer) Query(ctx context.Context, req *dns.Msg) (*dns.Msg, error) {
	name := strings.ToLower(req.Question[0].Name)
	q.asked = append(q.asked, name)
	if q.probe != nil {
		q.probe()
	}
	ans, ok := q.world[name]
	if !ok {
		return nil, middleware.ErrNoResponse
	}
	m := new(dns.Msg)
	m.SetReply(req)
	m.Answer = ans
	return m, nil
}

type vC07DelegSnap struct {
	zone    string
	hosts   []string
	servers []string
	coq     string
}

// the entry on file for name (NS, IN, checking-disabled bucket), nil if none
func vC07DelegGet(res *Resolver, name string) *vC07DelegSnap {
	d, err := res.delegations.Get(cache.Key(dns.Question{Name: name, Qtype: dns.TypeNS, Qclass: dns.ClassINET}, true))
	if err != nil || d == nil || d.Servers == nil {
		return nil
	}
	s := &vC07DelegSnap{}
	d.Servers.RLock()
	s.zone = d.Servers.Zone
	s.hosts = append([]string{}, d.Servers.Hosts...)
	var addrs []string
	for _, sv := range d.Servers.List {
		ap := sv.UDPAddr.AddrPort()
		s.servers = append(s.servers, ap.Addr().String())
		addrs = append(addrs, vC07CoqAddr(ap.Addr()))
	}
	d.Servers.RUnlock()
	var hs []vC07Name
	for _, h := range s.hosts {
		hs = append(hs, vC07Parse(h))
	}
	s.coq = fmt.Sprintf("(mk_de %s %s [%s])", vC07Parse(s.zone).coq(), vC07CoqNames(hs), strings.Join(addrs, ";"))
	return s
}

func (s *vC07DelegSnap) String() string {
	if s == nil {
		return "none"
	}
	return fmt.Sprintf("zone=%q hosts=%v servers=%v", s.zone, s.hosts, s.servers)
}

// labels shared from the root, ASCII case folded (the driver's own comparison, not dnsname's)
func vC07SharedLabels(a, b vC07Name) int {
	n := 0
	for i, j := len(a)-1, len(b)-1; i >= 0 && j >= 0; i, j = i-1, j-1 {
		if !strings.EqualFold(a[i], b[j]) {
			break
		}
		n++
	}
	return n
}

func vC07IsBelow(zone, n vC07Name) bool { return vC07SharedLabels(zone, n) == len(zone) }

// the order lookupV4Nss walks the hosts in: sorted as strings, then by the labels shared with the NS owner, deepest first
func vC07HostOrder(hosts []string, owner vC07Name) []string {
	out := append([]string{}, hosts...)
	sort.Strings(out)
	sort.SliceStable(out, func(i, j int) bool {
		return vC07SharedLabels(vC07Parse(out[i]), owner) > vC07SharedLabels(vC07Parse(out[j]), owner)
	})
	return out
}

// class of the first NS record of an authority section
func vC07Ns0Class(ns []vC07RRSpec) uint16 {
	for _, s := range ns {
		if s.rrtype == dns.TypeNS {
			return s.class
		}
	}
	return 0
}

// one authority section as resolve() hands it over
type vC07DelegEv struct {
	auth  vC07Name
	level int
	rcode int
	ns    []vC07RRSpec
	extra []vC07RRSpec
	hosts []string                // lower-cased hosts for which an address lookup has an answer, in generation order
	world map[string][]vC07RRSpec // what that lookup returns (a host missing here fails to resolve)
	okind string
}

// vC07DelegHistory runs the events on one fresh resolver and emits one case
func vC07DelegHistory(kind string, qname vC07Name, evs []vC07DelegEv, local []net.IP, emit func(map[string]any)) {
	localCoq := vC07CoqIPList(local)
	res := &Resolver{cfg: &config.Config{IPv6Access: false}, glueV4: cache.New(1024), glueV6: cache.New(1024), delegations: authority.NewCache()}
	dq := &vC07DelegQueryer{}
	var qr middleware.Queryer = dq
	res.queryer.Store(&qr)
	var evCoq, obsCoq []string
	var evDesc []map[string]any
	var probeNames []vC07Name
	addProbe := func(n vC07Name) {
		k := strings.ToLower(n.String())
		for _, p := range probeNames {
			if strings.ToLower(p.String()) == k {
				return
			}
		}
		probeNames = append(probeNames, vC07Parse(k))
	}
	goFail := ""
	errcode := false
	for _, ev := range evs {
		auth, level, rcode, ns, extra := ev.auth, ev.level, ev.rcode, ev.ns, ev.extra
		dq.world = map[string][]dns.RR{}
		var ansCoq []string
		for _, hk := range ev.hosts {
			dq.world[hk] = vC07RRs(ev.world[hk])
			ansCoq = append(ansCoq, fmt.Sprintf("(%s, %s)", vC07Parse(hk).coq(), vC07CoqRRs(ev.world[hk])))
		}
		req := new(dns.Msg)
		req.SetQuestion(qname.String(), dns.TypeA)
		req.CheckingDisabled = true
		resp := new(dns.Msg)
		resp.SetReply(req)
		resp.Rcode = rcode
		resp.Ns = vC07RRs(ns)
		resp.Extra = vC07RRs(extra)
		// the first NS record anchors the set: its owner's key is where the delegation would be filed
		first := vC07Name(nil)
		hostSeen := map[string]bool{}
		var hostList []string
		for _, s := range ns {
			if s.rrtype != dns.TypeNS {
				continue
			}
			addProbe(s.owner)
			if first == nil {
				first = s.owner
			}
			if strings.EqualFold(s.owner.String(), first.String()) && s.class == vC07Ns0Class(ns) {
				hk := strings.ToLower(s.target.String())
				if !hostSeen[hk] {
					hostSeen[hk] = true
					hostList = append(hostList, hk)
				}
			}
		}
		addProbe(auth)
		order := vC07HostOrder(hostList, first)
		var orderNames []vC07Name
		for _, h := range order {
			orderNames = append(orderNames, vC07Parse(h))
		}
		var snaps []*vC07DelegSnap
		dq.asked = nil
		dq.probe = func() {
			if first == nil {
				return
			}
			// a provisional publication needs a non-empty list: lookups that go out before the first address is
			// known find no entry (the model lists no publication for them either)
			if s := vC07DelegGet(res, first.String()); s != nil {
				snaps = append(snaps, s)
			}
		}
		rs := &resolveState{req: req, servers: &authority.Servers{Zone: auth.String()}, depth: 1, level: level, nomin: true, requestID: req.Id}
		ctx, cancel := context.WithTimeout(context.Background(), 5*time.Second)
		out, err := res.processAuthoritySection(ctx, rs, req, resp, false)
		cancel()
		dq.probe = nil
		cls := 0
		switch {
		case errors.Is(err, errParentDetection) && out == nil:
			cls = 1
		case errors.Is(err, errParentDetection):
			cls = 2
		case errors.Is(err, errMaxDepth):
			cls = 3
		case errors.Is(err, errNoReachableAuth):
			cls = 4
		case err != nil:
			cls = 9
		}
		var snapCoq, snapDesc []string
		for _, s := range snaps {
			snapCoq = append(snapCoq, s.coq)
			snapDesc = append(snapDesc, s.String())
			if !strings.EqualFold(s.zone, first.String()) {
				goFail = fmt.Sprintf("while the addresses of its name servers were looked up, the provisional entry for %s carried the zone label %q", first, s.zone)
			}
		}
		var prCoq, prDesc []string
		for _, p := range probeNames {
			s := vC07DelegGet(res, p.String())
			if s == nil {
				prCoq = append(prCoq, fmt.Sprintf("(%s, None)", p.coq()))
				continue
			}
			prCoq = append(prCoq, fmt.Sprintf("(%s, Some %s)", p.coq(), s.coq))
			prDesc = append(prDesc, p.String()+": "+s.String())
			// Go-side oracle: the label the bailiwick tests will use is the name the entry is filed under, and that
			// name lies on the way to the name being resolved
			if !strings.EqualFold(s.zone, p.String()) {
				goFail = fmt.Sprintf("the delegation entry filed under %s carries the zone label %q: replies of its servers are judged against that", p, s.zone)
			}
			if !vC07IsBelow(p, qname) {
				goFail = fmt.Sprintf("a delegation for %s is on file although %s is not on the path to %s", p, p, qname)
			}
		}
		if cls == 3 && first != nil {
			if s := vC07DelegGet(res, first.String()); s != nil && (!vC07IsBelow(auth, first) || len(first) <= len(auth)) {
				goFail = fmt.Sprintf("a referral for %s sent by the servers of %s (rcode %s) was followed", first, auth, dns.RcodeToString[rcode])
			}
		}
		m := vC07Attack{rcode: rcode, ns: ns, extra: extra}
		evCoq = append(evCoq, fmt.Sprintf("DelegMsg %s %d (mk_q %s 1 1) %s %s [%s]", auth.coq(), level, qname.coq(), m.coq(), vC07CoqNames(orderNames), strings.Join(ansCoq, ";")))
		obsCoq = append(obsCoq, fmt.Sprintf("(%d, [%s], [%s])", cls, strings.Join(snapCoq, ";"), strings.Join(prCoq, ";")))
		evDesc = append(evDesc, map[string]any{"asked_zone": auth.String(), "level": level, "qname": qname.String(), "rcode": dns.RcodeToString[rcode],
			"authority": vC07DescRRs(ns), "additional": vC07DescRRs(extra), "owner_kind": ev.okind, "address_lookups": dq.asked,
			"ended": []string{"authority()", "referral rejected", "parent detection", "continued (errMaxDepth at depth 1)", "no reachable server", "", "", "", "", "other error: " + fmt.Sprint(err)}[cls],
			"provisional_entries_seen": snapDesc, "on_file_afterwards": prDesc})
		if rcode != 0 {
			errcode = true
		}
	}
	// where would later resolutions start?  the real searchCache on the cache this history left behind
	var sCoq, sDesc []string
	searchNames := []vC07Name{qname, append(vC07Name{"zz"}, qname...), vC07Parse("www.victim.com.")}
	for _, p := range probeNames {
		searchNames = append(searchNames, p, append(vC07Name{"deep", "er"}, p...), vC07CaseMix(rand.New(rand.NewSource(int64(len(p.String())))), append(vC07Name{"m"}, p...)))
	}
	if len(searchNames) > 9 {
		searchNames = searchNames[:9]
	}
	for i, n := range searchNames {
		if len(n) == 0 {
			continue
		}
		ds := i%3 == 1
		qt := dns.TypeA
		if ds {
			qt = dns.TypeDS
		}
		mt := res.searchCache(dns.Question{Name: n.String(), Qtype: qt, Qclass: dns.ClassINET}, true, n.String())
		zc := "None"
		zd := "root servers"
		if mt.servers != nil {
			zc = "(Some " + vC07Parse(mt.servers.Zone).coq() + ")"
			zd = fmt.Sprintf("zone label %q", mt.servers.Zone)
			if !vC07IsBelow(vC07Parse(mt.servers.Zone), n) {
				goFail = fmt.Sprintf("a resolution of %s would start at servers labelled %q: their replies would be judged against a zone that does not enclose the name", n, mt.servers.Zone)
			}
		}
		sCoq = append(sCoq, fmt.Sprintf("(%s, %v, %s, %d%%nat)", n.coq(), ds, zc, mt.level))
		sDesc = append(sDesc, fmt.Sprintf("%s %s -> %s, level %d", n, dns.TypeToString[qt], zd, mt.level))
	}
	if errcode {
		kind += "-errcode"
	}
	emit(map[string]any{
		"k":          fmt.Sprintf("%s-%d", kind, len(evs)),
		"coq":        fmt.Sprintf("CaseDelegHist %s [%s] [%s] [%s]", localCoq, strings.Join(evCoq, ";"), strings.Join(obsCoq, ";"), strings.Join(sCoq, ";")),
		"nontrivial": true, "go_fail": goFail,
		"desc": map[string]any{"events": evDesc, "search_cache_afterwards": sDesc},
	})
}

// fixed histories: a two-host referral (one host with glue, one looked up: a provisional publication is seen), then a
// sideways / self / sibling NS set with glue inside the sender's zone under every response code
func vC07DelegFixed(local []net.IP, emit func(map[string]any)) {
	in := uint16(dns.ClassINET)
	qname := vC07Parse("x.sub.attacker.com.")
	ns := func(owner, host string) vC07RRSpec {
		return vC07RRSpec{owner: vC07Parse(owner), rrtype: dns.TypeNS, class: in, ttl: 300, target: vC07Parse(host)}
	}
	a := func(owner string, ip ...byte) vC07RRSpec {
		return vC07RRSpec{owner: vC07Parse(owner), rrtype: dns.TypeA, class: in, ttl: 300, ip: ip}
	}
	down := vC07DelegEv{auth: vC07Parse("attacker.com."), level: 2, rcode: 0, okind: "between",
		ns:    []vC07RRSpec{ns("sub.attacker.com.", "ns1.sub.attacker.com."), ns("sub.attacker.com.", "ns2.sub.attacker.com."), ns("Sub.Attacker.com.", "ns3.sub.attacker.com.")},
		extra: []vC07RRSpec{a("ns1.sub.attacker.com.", 198, 51, 100, 1)},
		hosts: []string{"ns2.sub.attacker.com.", "ns3.sub.attacker.com."},
		world: map[string][]vC07RRSpec{"ns2.sub.attacker.com.": {a("ns2.sub.attacker.com.", 198, 51, 100, 2)}, "ns3.sub.attacker.com.": {a("ns3.sub.attacker.com.", 198, 51, 100, 3)}}}
	for _, rc := range []int{dns.RcodeSuccess, dns.RcodeNameError, dns.RcodeServerFailure, dns.RcodeRefused, dns.RcodeFormatError, dns.RcodeNotImplemented, dns.RcodeYXDomain} {
		for i, owner := range []string{"victim.com.", "attacker.com.", "com.", "other.attacker.com.", "sub.attacker.com."} {
			bad := vC07DelegEv{auth: vC07Parse("attacker.com."), level: 2, rcode: rc, okind: []string{"sideways", "self", "upward", "cousin", "valid"}[i],
				ns:    []vC07RRSpec{ns(owner, "ns.attacker.com.")},
				extra: []vC07RRSpec{a("ns.attacker.com.", 203, 0, 113, 66)}}
			evs := []vC07DelegEv{bad}
			if i%2 == 0 {
				evs = []vC07DelegEv{down, bad}
			}
			vC07DelegHistory("deleg-fixed", qname, evs, local, emit)
		}
	}
}

func vC07DelegCases(r *rand.Rand, cnt int, local []net.IP, emit func(map[string]any)) {
	vC07DelegFixed(local, emit)
	gen := vC07NewIPGen(local)
	plain := [][]byte{{198, 51, 100, 1}, {198, 51, 100, 2}, {203, 0, 113, 5}, {6, 6, 6, 6}}
	rcodes := []int{dns.RcodeSuccess, dns.RcodeSuccess, dns.RcodeNameError, dns.RcodeNameError, dns.RcodeServerFailure,
		dns.RcodeRefused, dns.RcodeFormatError, dns.RcodeNotImplemented, dns.RcodeYXDomain, dns.RcodeNotAuth}
	for c := 0; c < cnt; c++ {
		qname := vC07RandQName(r)
		for len(qname) < 2 {
			qname = vC07RandQName(r)
		}
		steps := 1 + r.Intn(3)
		var owners []vC07Name // NS owners of earlier events (to meet the cached branch)
		var evs []vC07DelegEv
		for e := 0; e < steps; e++ {
			// the zone whose servers answer: an ancestor of qname (as searchCache guarantees), now and then something else
			k := r.Intn(len(qname))
			auth := append(vC07Name{}, qname[len(qname)-k:]...)
			if r.Intn(16) == 0 {
				auth, _ = vC07Relative(r, qname)
			}
			level := len(auth)
			switch r.Intn(8) {
			case 0:
				level++ // a minimisation step happened at these servers
			case 1:
				level = len(qname) + 1 // deeper than any referral owner: parent detection
			}
			// the NS owner
			var owner vC07Name
			okind := ""
			switch x := r.Intn(20); {
			case x < 12 && len(qname) > len(auth) && vC07IsBelow(auth, qname):
				kk := len(auth) + 1 + r.Intn(len(qname)-len(auth))
				owner, okind = append(vC07Name{}, qname[len(qname)-kk:]...), "between"
			case x < 13:
				owner, okind = append(vC07Name{}, auth...), "self"
			case x < 15 && len(owners) > 0:
				owner, okind = owners[r.Intn(len(owners))], "again"
			case x < 17 && len(auth) > 0:
				// a sibling of the asked zone, or a cousin below it off the path
				owner, okind = append(vC07Name{"victim"}, auth[1:]...), "sideways"
				if r.Intn(2) == 0 {
					owner, okind = append(vC07Name{"cousin"}, auth...), "cousin"
				}
			default:
				owner, okind = vC07Relative(r, qname)
			}
			if r.Intn(5) == 0 {
				owner = vC07CaseMix(r, owner)
			}
			ev := vC07DelegEv{auth: auth, level: level, rcode: rcodes[r.Intn(len(rcodes))], okind: okind, world: map[string][]vC07RRSpec{}}
			var hostNames []vC07Name
			for i, nn := 0, 1+r.Intn(3); i < nn; i++ {
				s := vC07RRSpec{owner: owner, rrtype: dns.TypeNS, class: dns.ClassINET, ttl: uint32(120 + r.Intn(3000))}
				switch r.Intn(6) {
				case 0:
					s.target = append(vC07Name{"ns"}, auth...) // a host of the parent zone
				case 1:
					s.target = vC07Name{"ns", "elsewhere", "org"}
				default:
					s.target = append(vC07Name{[]string{"ns1", "ns2", "NS3", "a"}[r.Intn(4)]}, owner...)
				}
				switch r.Intn(30) {
				case 0:
					s.owner, _ = vC07Relative(r, qname) // mixed owner
				case 1:
					s.class = dns.ClassCHAOS
				case 2:
					s.owner = vC07CaseMix(r, owner)
				}
				ev.ns = append(ev.ns, s)
				hostNames = append(hostNames, s.target)
			}
			if r.Intn(12) == 0 {
				s := vC07RRSpec{owner: auth, rrtype: dns.TypeSOA, class: dns.ClassINET, ttl: 60}
				pos := r.Intn(len(ev.ns) + 1)
				ev.ns = append(ev.ns[:pos], append([]vC07RRSpec{s}, ev.ns[pos:]...)...)
			}
			if r.Intn(10) == 0 {
				ev.ns = append(ev.ns, vC07RRSpec{owner: owner, rrtype: dns.TypeDS, class: dns.ClassINET, ttl: 60})
			}
			// glue: for some hosts, mostly usable addresses; now and then hostile glue for another name
			for _, h := range hostNames {
				if r.Intn(2) == 0 {
					continue
				}
				sp := vC07RRSpec{owner: h, rrtype: dns.TypeA, class: dns.ClassINET, ttl: 60, ip: plain[r.Intn(len(plain))]}
				if r.Intn(3) == 0 {
					sp.ip, _ = gen.rand(r, false)
				}
				if r.Intn(4) == 0 {
					sp.owner = vC07CaseMix(r, h)
				}
				ev.extra = append(ev.extra, sp)
			}
			if r.Intn(4) == 0 {
				o, _ := vC07Relative(r, qname)
				ev.extra = append(ev.extra, vC07RRSpec{owner: append(vC07Name{"ns"}, o...), rrtype: dns.TypeA, class: dns.ClassINET, ttl: 60, ip: []byte{192, 0, 2, 99}})
			}
			// what address lookups return
			for _, h := range hostNames {
				hk := strings.ToLower(h.String())
				if _, dup := ev.world[hk]; dup || r.Intn(3) == 0 {
					continue
				}
				var recs []vC07RRSpec
				for i, na := 0, 1+r.Intn(2); i < na; i++ {
					sp := vC07RRSpec{owner: vC07Parse(hk), rrtype: dns.TypeA, class: dns.ClassINET, ttl: 60, ip: plain[r.Intn(len(plain))]}
					if r.Intn(3) == 0 {
						sp.ip, _ = gen.rand(r, false)
					}
					recs = append(recs, sp)
				}
				ev.world[hk] = recs
				ev.hosts = append(ev.hosts, hk)
			}
			evs = append(evs, ev)
			// an owner that may have been stored: offered again later to meet the cached branch
			if okind == "between" {
				owners = append(owners, owner)
			}
		}
		vC07DelegHistory("deleg", qname, evs, local, emit)
	}
}
