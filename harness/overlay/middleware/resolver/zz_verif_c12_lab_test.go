//go:build verif

package resolver

// C12 lab driver (package middleware/resolver).
//
// One client query at a time goes through a real pipeline — counting probe, cache middleware,
// DNSHandler — wired with the real pipelineQueryer, against scripted authoritative servers on
// loopback (UDP + TCP, one socket per server identity; advertised TEST-NET glue is remapped to
// the sockets through Resolver.resolveTarget, as the repo's own hermetic fixtures do).
// The adversary is the script: CNAME chains and cycles, DNAME ping-pong, glue-less NS fan-out
// (NXNS), NS dependency cycles, ever-deeper referrals, lame / self-referring servers, truncation.
//
// Observed per client query: datagrams + TCP queries RECEIVED by the scripted servers, the ledger's
// own counters, the number of sub-pipeline runs, the reply (rcode, EDE), and — after an over-budget
// reply — what a second client gets. Every topology is also resolved with the firewall off and in
// shadow mode; the two replies must be identical.

import (
	"context"
	"encoding/json"
	"errors"
	"fmt"
	"hash/crc32"
	"math/rand"
	"net"
	"os"
	"sort"
	"strconv"
	"strings"
	"sync"
	"sync/atomic"
	"testing"
	"time"

	"github.com/miekg/dns"
	"github.com/semihalev/sdns/config"
	"github.com/semihalev/sdns/internal/authority"
	internalcache "github.com/semihalev/sdns/internal/cache"
	"github.com/semihalev/sdns/internal/mock"
	"github.com/semihalev/sdns/middleware"
	cachemw "github.com/semihalev/sdns/middleware/cache"
	"github.com/semihalev/sdns/middleware/edns"
)

// ---------------------------------------------------------------- scripted servers

type vC12Answer func(srv int, q dns.Question, tcp bool) *dns.Msg

type vC12Srv struct {
	id   int
	addr string
	udp  *dns.Server
	tcp  *dns.Server
}

type vC12Net struct {
	mu      sync.Mutex
	srvs    []*vC12Srv
	packets atomic.Int64
	answer  vC12Answer
	bindErr error
	rec     *vC12Rec
	dead    string // the endpoint of the servers that are gone: bound for the life of the rig (so no listener of another
	// rig can take the port over), it answers every datagram with two octets of garbage and closes every connection at once
	deadPC net.PacketConn
	deadLN net.Listener
}

// vC12Rec is the step-by-step observer: while [on], every upstream packet arrival and every
// sub-pipeline entry/exit is appended, in arrival order, as a Coq [event] term together with the
// request tree's ledger counters read at that moment (the snapshot is taken under the same mutex that
// orders the log, so the logged counters are monotone).
type vC12Rec struct {
	mu    sync.Mutex
	on    bool
	led   *middleware.RecursionWorkLedger
	evs   []string
	pairs []string // (parent label option, label) of every sub-run, parent read from the context the probe handed down
	alien int      // sub-runs whose context carried a different ledger than the tree's
	// generation of every sub-run, in the order of [pairs]: how many detached-walk starts lie on its path from the
	// client's own chain. A run started through the Queryer has its parent's generation (handed down the context by
	// the probe); a run that finds no probe above it was started by a detached job: its context carries the request id
	// of the run whose processDelegation spawned the job — the probe gives every run its own id (the id only selects the
	// outbound address, and the lab has none configured), so it names the spawner: generation = the spawner's + 1.
	gens   []string
	byID   map[uint16]vC12RunInfo
	serial uint16
}

type vC12RunInfo struct {
	label string
	gen   int
}

// vC12GenKey carries the generation of the pipeline run a context descends from
type vC12GenKey struct{}

// contextKeyV6Walk by value: the driver must also build against a tree that does not have the identifier (the walk
// mark then simply reads as absent); the srcgen item context_key_v6_walk pins the number
const vC12WalkKey = contextKey(3)

// enter registers a pipeline run (the client's own chain included) and says what it descends from
func (r *vC12Rec) enter(ctx context.Context, nest int) (id uint16, gen int, parent string, hasParent bool) {
	r.mu.Lock()
	defer r.mu.Unlock()
	r.serial++
	id = r.serial
	if g, ok := ctx.Value(vC12GenKey{}).(int); ok {
		gen = g
		parent, hasParent = ctx.Value(vC12ParentKey{}).(string)
	} else if nest > 0 {
		gen = 1
		if sid, ok := ctx.Value(contextKeyRequestID).(uint16); ok {
			if sp, known := r.byID[sid]; known {
				gen, parent, hasParent = sp.gen+1, sp.label, true
			}
		}
	}
	if r.byID == nil {
		r.byID = map[uint16]vC12RunInfo{}
	}
	r.byID[id] = vC12RunInfo{label: vC12Label(ctx, nest), gen: gen}
	return
}

// vC12ParentKey carries the label of the pipeline run a context descends from (set by the probe, read by the probe of
// the next sub-run). A detached job starts from context.Background(): its first sub-run finds none.
type vC12ParentKey struct{}

func vC12Label(ctx context.Context, nest int) string { return vC12LabelAs("mk_sl", ctx, nest) }

func vC12LabelAs(ctor string, ctx context.Context, nest int) string {
	dn, _ := ctx.Value(contextKeyDnameDepth).(int)
	nsl := ctx.Value(contextKeyNSL) != nil
	return fmt.Sprintf("%s %d (mk_cx %s %d %d %s %s)", ctor, nest, vC12Flag(middleware.IsBestEffortRecursionWork(ctx)),
		cachemw.VC12ChaseDepth(ctx), dn, vC12Flag(nsl), vC12Flag(ctx.Value(vC12WalkKey) != nil))
}

func (r *vC12Rec) packet() {
	if r == nil {
		return
	}
	r.mu.Lock()
	defer r.mu.Unlock()
	if !r.on || r.led == nil {
		return
	}
	s := r.led.Snapshot()
	r.evs = append(r.evs, fmt.Sprintf("EvX %d %d", s.OutboundQueries, s.InternalQueries))
}

func (r *vC12Rec) sub(ctx context.Context, nest int, gen int, parent string, hasParent bool) bool {
	if r == nil {
		return false
	}
	r.mu.Lock()
	defer r.mu.Unlock()
	if !r.on || r.led == nil {
		return false
	}
	if l := middleware.RecursionWorkFrom(ctx); l != r.led {
		r.alien++
	}
	label := vC12Label(ctx, nest)
	s := r.led.Snapshot()
	r.evs = append(r.evs, fmt.Sprintf("EvS (%s) %d %d", label, s.OutboundQueries, s.InternalQueries))
	if hasParent {
		r.pairs = append(r.pairs, fmt.Sprintf("(Some (%s), %s)", parent, label))
	} else {
		r.pairs = append(r.pairs, fmt.Sprintf("(None, %s)", label))
	}
	r.gens = append(r.gens, fmt.Sprintf("%d%%nat", gen))
	return true
}

// vC12Store stands between the resolver and the cache's store: Resolver.subQuery (the DS / DNSKEY fetches of DNSSEC
// validation) is the store's only client. A miss is remembered with the context it came from; when the fetched
// response is handed back for storing, the direct sub-resolution has run to completion and is logged as a sub-run of
// kind mk_dl (same nesting, same context as the run it validates for) with the ledger counters of that moment.
type vC12Store struct {
	inner   middleware.Store
	rec     *vC12Rec
	mu      sync.Mutex
	pending map[string][3]string
}

func vC12StoreKey(q dns.Question, cd bool) string {
	return strings.ToLower(q.Name) + "|" + strconv.Itoa(int(q.Qtype)) + "|" + vC12Flag(cd)
}

func (s *vC12Store) Get(req *dns.Msg) (*dns.Msg, bool) { return s.inner.Get(req) }
func (s *vC12Store) GetWithContext(ctx context.Context, req *dns.Msg) (*dns.Msg, bool) {
	var msg *dns.Msg
	var ok bool
	if cs, aware := s.inner.(middleware.ContextStore); aware {
		msg, ok = cs.GetWithContext(ctx, req)
	} else {
		msg, ok = s.inner.Get(req)
	}
	if !ok && len(req.Question) == 1 {
		nest := middleware.VC12QueryerDepth(ctx)
		par, _ := ctx.Value(vC12ParentKey{}).(string)
		s.mu.Lock()
		g, _ := ctx.Value(vC12GenKey{}).(int)
		s.pending[vC12StoreKey(req.Question[0], req.CheckingDisabled)] = [3]string{vC12LabelAs("mk_dl", ctx, nest), par, strconv.Itoa(g)}
		s.mu.Unlock()
	}
	return msg, ok
}
func (s *vC12Store) done(resp *dns.Msg, keyCD bool) {
	if resp == nil || len(resp.Question) != 1 {
		return
	}
	k := vC12StoreKey(resp.Question[0], keyCD)
	s.mu.Lock()
	p, ok := s.pending[k]
	delete(s.pending, k)
	s.mu.Unlock()
	if ok {
		s.rec.direct(p[0], p[1], p[2])
	}
}
func (s *vC12Store) SetFromResponse(resp *dns.Msg, keyCD bool, cutUntil time.Time) {
	s.done(resp, keyCD)
	s.inner.SetFromResponse(resp, keyCD, cutUntil)
}
func (s *vC12Store) SetFromResponseWithCut(resp *dns.Msg, keyCD bool, cutUntil time.Time, cutKey uint64) {
	s.done(resp, keyCD)
	if cs, ok := s.inner.(middleware.CutStore); ok {
		cs.SetFromResponseWithCut(resp, keyCD, cutUntil, cutKey)
		return
	}
	s.inner.SetFromResponse(resp, keyCD, cutUntil)
}
func (s *vC12Store) RecordZoneFailure(q dns.Question, zone string) {
	if fs, ok := s.inner.(middleware.ResolutionFailureStore); ok {
		fs.RecordZoneFailure(q, zone)
	}
}
func (s *vC12Store) ClearZoneFailure(q dns.Question, zone string) {
	if fs, ok := s.inner.(middleware.ResolutionFailureStore); ok {
		fs.ClearZoneFailure(q, zone)
	}
}

func (r *vC12Rec) direct(label, parent, gen string) {
	r.mu.Lock()
	defer r.mu.Unlock()
	if !r.on || r.led == nil {
		return
	}
	s := r.led.Snapshot()
	r.evs = append(r.evs, fmt.Sprintf("EvS (%s) %d %d", label, s.OutboundQueries, s.InternalQueries), "EvE")
	if parent != "" {
		r.pairs = append(r.pairs, fmt.Sprintf("(Some (%s), %s)", parent, label))
	} else {
		r.pairs = append(r.pairs, fmt.Sprintf("(None, %s)", label))
	}
	r.gens = append(r.gens, gen+"%nat")
}

func (r *vC12Rec) end() {
	r.mu.Lock()
	defer r.mu.Unlock()
	if r.on {
		r.evs = append(r.evs, "EvE")
	}
}

// advertised address of server identity id. TEST-NET ranges; an address that happens to be
// configured on this machine would be filtered by the resolver (usableAddr), so it is skipped.
func vC12Glue(id int) net.IP {
	for _, base := range [][3]byte{{198, 51, 100}, {203, 0, 113}, {192, 0, 2}} {
		ip := net.IPv4(base[0], base[1], base[2], byte(10+id))
		if !isLocalIP(ip) {
			return ip
		}
	}
	return net.IPv4(198, 51, 100, byte(10+id))
}

// addresses of servers that no longer exist (mapped to an endpoint nothing listens on)
func vC12Dead(k int) net.IP {
	for _, base := range [][3]byte{{198, 51, 100}, {203, 0, 113}, {192, 0, 2}} {
		ip := net.IPv4(base[0], base[1], base[2], byte(200+k))
		if !isLocalIP(ip) {
			return ip
		}
	}
	return net.IPv4(198, 51, 100, byte(200+k))
}

// additional addresses of server 1 (several endpoints, one socket)
func vC12Extra(k int) net.IP {
	for _, base := range [][3]byte{{203, 0, 113}, {192, 0, 2}, {198, 51, 100}} {
		ip := net.IPv4(base[0], base[1], base[2], byte(100+k))
		if !isLocalIP(ip) {
			return ip
		}
	}
	return net.IPv4(203, 0, 113, byte(100+k))
}

func (n *vC12Net) handler(id int, tcp bool) dns.Handler {
	return dns.HandlerFunc(func(w dns.ResponseWriter, req *dns.Msg) {
		if len(req.Question) == 0 {
			return
		}
		n.packets.Add(1)
		n.rec.packet()
		src := n.answer(id, req.Question[0], tcp)
		reply := new(dns.Msg)
		reply.SetReply(req)
		reply.Compress = true
		if src != nil {
			reply.Authoritative = src.Authoritative
			reply.Truncated = src.Truncated
			reply.Rcode = src.Rcode
			reply.Answer = src.Answer
			reply.Ns = src.Ns
			reply.Extra = src.Extra
		}
		_ = w.WriteMsg(reply)
	})
}

func (n *vC12Net) start(count int) {
	// the endpoint the addresses vC12Dead names are mapped to
	for try := 0; try < 20 && n.deadPC == nil; try++ {
		pc, err := net.ListenPacket("udp", "127.0.0.1:0")
		if err != nil {
			continue
		}
		ln, err := net.Listen("tcp", pc.LocalAddr().String())
		if err != nil {
			pc.Close()
			continue
		}
		n.dead, n.deadPC, n.deadLN = pc.LocalAddr().String(), pc, ln
		go func() {
			buf := make([]byte, 2048)
			for {
				_, from, err := pc.ReadFrom(buf)
				if err != nil {
					return
				}
				_, _ = pc.WriteTo([]byte{0, 0}, from)
			}
		}()
		go func() {
			for {
				c, err := ln.Accept()
				if err != nil {
					return
				}
				c.Close()
			}
		}()
	}
	for id := 0; id < count; id++ {
		var pc net.PacketConn
		var ln net.Listener
		var err error
		for try := 0; try < 20; try++ {
			pc, err = net.ListenPacket("udp", "127.0.0.1:0")
			if err != nil {
				continue
			}
			ln, err = net.Listen("tcp", pc.LocalAddr().String())
			if err == nil {
				break
			}
			pc.Close()
		}
		if err != nil {
			n.bindErr = err
			return
		}
		s := &vC12Srv{id: id, addr: pc.LocalAddr().String()}
		s.udp = &dns.Server{PacketConn: pc, Net: "udp", Handler: n.handler(id, false)}
		s.tcp = &dns.Server{Listener: ln, Net: "tcp", Handler: n.handler(id, true)}
		started := make(chan struct{}, 2)
		s.udp.NotifyStartedFunc = func() { started <- struct{}{} }
		s.tcp.NotifyStartedFunc = func() { started <- struct{}{} }
		go func() { _ = s.udp.ActivateAndServe() }()
		go func() { _ = s.tcp.ActivateAndServe() }()
		<-started
		<-started
		n.srvs = append(n.srvs, s)
	}
}

// cache.New sets package-level metric hooks; production builds one cache at start-up, the lab builds rigs from two goroutines
var vC12RigMu sync.Mutex

func (n *vC12Net) stop() {
	if n.deadPC != nil {
		n.deadPC.Close()
		n.deadLN.Close()
	}
	for _, s := range n.srvs {
		_ = s.udp.Shutdown()
		_ = s.tcp.Shutdown()
	}
}

func (n *vC12Net) mapper() func(string) string {
	m := map[string]string{}
	for _, s := range n.srvs {
		m[net.JoinHostPort(vC12Glue(s.id).String(), "53")] = s.addr
	}
	return func(addr string) string {
		if to, ok := m[addr]; ok {
			return to
		}
		// extra addresses of server 1
		host, _, _ := net.SplitHostPort(addr)
		if ip := net.ParseIP(host).To4(); ip != nil && ip[3] >= 100 && ip[3] < 140 && len(n.srvs) > 1 {
			return n.srvs[1].addr
		}
		// addresses of servers that have gone away
		if ip := net.ParseIP(host).To4(); ip != nil && ip[3] >= 200 && ip[3] < 240 && n.dead != "" {
			return n.dead
		}
		return addr
	}
}

// ---------------------------------------------------------------- record helpers

func vC12A(name string, ip net.IP) dns.RR {
	return &dns.A{Hdr: dns.RR_Header{Name: name, Rrtype: dns.TypeA, Class: dns.ClassINET, Ttl: 60}, A: ip}
}
func vC12NS(zone, host string) dns.RR {
	return &dns.NS{Hdr: dns.RR_Header{Name: zone, Rrtype: dns.TypeNS, Class: dns.ClassINET, Ttl: 60}, Ns: host}
}
func vC12CNAME(name, target string) dns.RR {
	return &dns.CNAME{Hdr: dns.RR_Header{Name: name, Rrtype: dns.TypeCNAME, Class: dns.ClassINET, Ttl: 60}, Target: target}
}
func vC12DNAME(name, target string) dns.RR {
	return &dns.DNAME{Hdr: dns.RR_Header{Name: name, Rrtype: dns.TypeDNAME, Class: dns.ClassINET, Ttl: 60}, Target: target}
}
func vC12SOA(zone string) dns.RR {
	return &dns.SOA{Hdr: dns.RR_Header{Name: zone, Rrtype: dns.TypeSOA, Class: dns.ClassINET, Ttl: 30}, Ns: "ns." + zone, Mbox: "h." + zone, Serial: 1, Refresh: 30, Retry: 30, Expire: 30, Minttl: 30}
}
func vC12Referral(zone string, srv int) *dns.Msg {
	host := "ns." + zone
	return &dns.Msg{Ns: []dns.RR{vC12NS(zone, host)}, Extra: []dns.RR{vC12A(host, vC12Glue(srv))}}
}
func vC12Neg(zone string, rcode int) *dns.Msg {
	m := &dns.Msg{Ns: []dns.RR{vC12SOA(zone)}}
	m.Authoritative = true
	m.Rcode = rcode
	return m
}
func vC12Auth(rrs ...dns.RR) *dns.Msg {
	m := &dns.Msg{Answer: rrs}
	m.Authoritative = true
	return m
}
func vC12Sub(zone, name string) bool { return dns.IsSubDomain(zone, strings.ToLower(name)) }

// ---------------------------------------------------------------- topologies

type vC12Topo struct {
	fam, p1, p2 int
	endless     bool
	v6          bool // IPv6Access: detached AAAA enrichment jobs share the tree's ledger
	name        string
	servers     int
	qname       string
	answer      vC12Answer
	par         bool               // sub-runs of one tree run beside each other (no stack discipline in the event log)
	prepare     func(rig *vC12Rig) // history of the resolver before the observed client query (nil: none)
}

const (
	vC12FamDeep = iota + 1
	vC12FamCname
	vC12FamDname
	vC12FamNSFan
	vC12FamNSCycle
	vC12FamLame
	vC12FamTrunc
	vC12FamLate
	vC12FamRehome
)

// ever-deeper referrals: server i is authoritative for the zone made of the last i labels
func vC12Deep(depth int) vC12Topo {
	labels := make([]string, depth)
	for i := range labels {
		labels[i] = fmt.Sprintf("d%d", depth-i)
	}
	zone := func(i int) string { // last i labels
		if i == 0 {
			return "."
		}
		return strings.Join(labels[depth-i:], ".") + "."
	}
	qname := "www." + zone(depth)
	return vC12Topo{fam: vC12FamDeep, p1: depth, name: "deep-referrals", servers: depth + 1, qname: qname,
		answer: func(srv int, q dns.Question, tcp bool) *dns.Msg {
			if srv < depth {
				if vC12Sub(zone(srv+1), q.Name) {
					return vC12Referral(zone(srv+1), srv+1)
				}
				return vC12Neg(zone(srv), dns.RcodeNameError)
			}
			if strings.EqualFold(q.Name, qname) && q.Qtype == dns.TypeA {
				return vC12Auth(vC12A(q.Name, net.IPv4(203, 0, 113, 9)))
			}
			if vC12Sub(zone(depth), q.Name) {
				return vC12Neg(zone(depth), dns.RcodeSuccess)
			}
			return vC12Neg(zone(depth), dns.RcodeNameError)
		}}
}

// one zone cz. on server 1: c<k> CNAME c<k+1>; length 0 = endless; cyc: the last hop points at c0
func vC12Cname(length int, cyc bool) vC12Topo {
	p2 := 0
	if cyc {
		p2 = 1
	}
	return vC12Topo{fam: vC12FamCname, p1: length, p2: p2, endless: length == 0, name: "cname", servers: 2, qname: "c0.cz.",
		answer: func(srv int, q dns.Question, tcp bool) *dns.Msg {
			if srv == 0 {
				if vC12Sub("cz.", q.Name) {
					return vC12Referral("cz.", 1)
				}
				return vC12Neg(".", dns.RcodeNameError)
			}
			var k int
			if _, err := fmt.Sscanf(strings.ToLower(q.Name), "c%d.cz.", &k); err != nil {
				if strings.EqualFold(q.Name, "cz.") {
					return vC12Neg("cz.", dns.RcodeSuccess)
				}
				return vC12Neg("cz.", dns.RcodeNameError)
			}
			name := fmt.Sprintf("c%d.cz.", k)
			switch {
			case cyc && k == length-1:
				return vC12Auth(vC12CNAME(name, "c0.cz."))
			case length == 0 || k < length:
				return vC12Auth(vC12CNAME(name, fmt.Sprintf("c%d.cz.", k+1)))
			case q.Qtype == dns.TypeA:
				return vC12Auth(vC12A(name, net.IPv4(203, 0, 113, 10)))
			default:
				return vC12Neg("cz.", dns.RcodeSuccess)
			}
		}}
}

// zones dz0. .. dz<n-1>. on server 1: dz<j> DNAME dz<j+1>; cyc: the last one points at dz0,
// otherwise dz<n>. holds the address
func vC12Dname(n int, cyc bool) vC12Topo {
	p2 := 0
	if cyc {
		p2 = 1
	}
	return vC12Topo{fam: vC12FamDname, p1: n, p2: p2, name: "dname", servers: 2, qname: "host.dz0.",
		answer: func(srv int, q dns.Question, tcp bool) *dns.Msg {
			lower := strings.ToLower(q.Name)
			idx := strings.LastIndex(strings.TrimSuffix(lower, "."), ".")
			apex := lower[idx+1:]
			var j int
			if _, err := fmt.Sscanf(apex, "dz%d.", &j); err != nil {
				return vC12Neg(".", dns.RcodeNameError)
			}
			if srv == 0 {
				return vC12Referral(apex, 1)
			}
			switch {
			case cyc && j == n-1:
				return vC12Auth(vC12DNAME(apex, "dz0."))
			case j < n:
				return vC12Auth(vC12DNAME(apex, fmt.Sprintf("dz%d.", j+1)))
			case lower == apex:
				return vC12Neg(apex, dns.RcodeSuccess)
			case q.Qtype == dns.TypeA:
				return vC12Auth(vC12A(q.Name, net.IPv4(203, 0, 113, 11)))
			default:
				return vC12Neg(apex, dns.RcodeSuccess)
			}
		}}
}

// NXNS: victim. is delegated to n glue-less names; variant 0: all in evil. and resolvable,
// 1: all in evil. and non-existent, 2: each in its own zone evil<k>.
func vC12NSFan(n, variant int) vC12Topo {
	host := func(k int) string {
		if variant == 2 {
			return fmt.Sprintf("n.evil%d.", k)
		}
		return fmt.Sprintf("n%d.evil.", k)
	}
	return vC12Topo{fam: vC12FamNSFan, p1: n, p2: variant, name: "ns-fanout", servers: 3, qname: "www.victim.",
		answer: func(srv int, q dns.Question, tcp bool) *dns.Msg {
			lower := strings.ToLower(q.Name)
			switch srv {
			case 0:
				if vC12Sub("victim.", lower) {
					m := &dns.Msg{}
					for k := 0; k < n; k++ {
						m.Ns = append(m.Ns, vC12NS("victim.", host(k)))
					}
					return m
				}
				idx := strings.LastIndex(strings.TrimSuffix(lower, "."), ".")
				apex := lower[idx+1:]
				if strings.HasPrefix(apex, "evil") {
					return vC12Referral(apex, 2)
				}
				return vC12Neg(".", dns.RcodeNameError)
			case 1:
				if lower == "www.victim." && q.Qtype == dns.TypeA {
					return vC12Auth(vC12A(q.Name, net.IPv4(203, 0, 113, 12)))
				}
				return vC12Neg("victim.", dns.RcodeSuccess)
			default:
				idx := strings.LastIndex(strings.TrimSuffix(lower, "."), ".")
				apex := lower[idx+1:]
				if variant == 1 || q.Qtype != dns.TypeA || lower == apex {
					if lower == apex {
						return vC12Neg(apex, dns.RcodeSuccess)
					}
					return vC12Neg(apex, dns.RcodeNameError)
				}
				return vC12Auth(vC12A(q.Name, vC12Glue(1)))
			}
		}}
}

// cy<j>. is delegated (glue-less) to ns.cy<j+1 mod n>.
func vC12NSCycle(n int) vC12Topo {
	return vC12Topo{fam: vC12FamNSCycle, p1: n, name: "ns-cycle", servers: 1, qname: "www.cy0.",
		answer: func(srv int, q dns.Question, tcp bool) *dns.Msg {
			lower := strings.ToLower(q.Name)
			idx := strings.LastIndex(strings.TrimSuffix(lower, "."), ".")
			apex := lower[idx+1:]
			var j int
			if _, err := fmt.Sscanf(apex, "cy%d.", &j); err != nil {
				return vC12Neg(".", dns.RcodeNameError)
			}
			return &dns.Msg{Ns: []dns.RR{vC12NS(apex, fmt.Sprintf("ns.cy%d.", (j+1)%n))}}
		}}
}

// lz. has n addresses, all lame: variant 0 REFUSED, 1 SERVFAIL, 2 refers back to lz. itself,
// 3 refers upward to the root
func vC12Lame(n, variant int) vC12Topo {
	return vC12Topo{fam: vC12FamLame, p1: n, p2: variant, name: "lame", servers: 2, qname: "www.lz.",
		answer: func(srv int, q dns.Question, tcp bool) *dns.Msg {
			if srv == 0 {
				if !vC12Sub("lz.", q.Name) {
					return vC12Neg(".", dns.RcodeNameError)
				}
				m := &dns.Msg{}
				for k := 0; k < n; k++ {
					h := fmt.Sprintf("ns%d.lz.", k)
					m.Ns = append(m.Ns, vC12NS("lz.", h))
					m.Extra = append(m.Extra, vC12A(h, vC12Extra(k)))
				}
				return m
			}
			switch variant {
			case 0:
				m := &dns.Msg{}
				m.Rcode = dns.RcodeRefused
				return m
			case 1:
				m := &dns.Msg{}
				m.Rcode = dns.RcodeServerFailure
				return m
			case 2:
				return vC12Referral("lz.", 1)
			default:
				return &dns.Msg{Ns: []dns.RR{vC12NS(".", "ns.root.")}, Extra: []dns.RR{vC12A("ns.root.", vC12Glue(0))}}
			}
		}}
}

// tz. on server 1 answers every UDP query with TC=1; a chain of n CNAMEs forces n TCP retries
func vC12Trunc(n int) vC12Topo {
	return vC12Topo{fam: vC12FamTrunc, p1: n, name: "truncation", servers: 2, qname: "c0.tz.",
		answer: func(srv int, q dns.Question, tcp bool) *dns.Msg {
			if srv == 0 {
				if vC12Sub("tz.", q.Name) {
					return vC12Referral("tz.", 1)
				}
				return vC12Neg(".", dns.RcodeNameError)
			}
			if !tcp {
				m := &dns.Msg{}
				m.Truncated = true
				return m
			}
			var k int
			if _, err := fmt.Sscanf(strings.ToLower(q.Name), "c%d.tz.", &k); err != nil {
				return vC12Neg("tz.", dns.RcodeSuccess)
			}
			name := fmt.Sprintf("c%d.tz.", k)
			if k < n {
				return vC12Auth(vC12CNAME(name, fmt.Sprintf("c%d.tz.", k+1)))
			}
			if q.Qtype == dns.TypeA {
				return vC12Auth(vC12A(name, net.IPv4(203, 0, 113, 13)))
			}
			return vC12Neg("tz.", dns.RcodeSuccess)
		}}
}

// a lazy parent: the root answers the first [empty] labels of the name with an empty NOERROR (no
// SOA, as for an empty non-terminal) and only refers to the [zl]-label zone when asked a longer
// name. With qname-minimisation the resolver has then walked past the cut it is referred to
// (rs.level > labels of the referral) and restarts from the root without minimisation.
// [tail] further delegations, one label each, hang below the zone: everything the restarted walk
// sends — root, zone, tail levels — comes after the restart.
func vC12Late(zl, empty, ql int) vC12Topo { return vC12LateTail(zl, empty, ql, 0) }

func vC12LateTail(zl, empty, ql, tail int) vC12Topo {
	if tail > ql-zl-1 {
		tail = ql - zl - 1
	}
	if tail < 0 {
		tail = 0
	}
	labels := make([]string, ql)
	for i := range labels {
		labels[i] = fmt.Sprintf("l%d", ql-i)
	}
	suffix := func(i int) string { return strings.Join(labels[ql-i:], ".") + "." }
	zone, qname := suffix(zl), suffix(ql)
	return vC12Topo{fam: vC12FamLate, p1: empty, p2: tail*100 + ql*10 + zl, name: "late-referral", servers: 2 + tail, qname: qname,
		answer: func(srv int, q dns.Question, tcp bool) *dns.Msg {
			lower := strings.ToLower(q.Name)
			if srv == 0 {
				if !vC12Sub(suffix(1), lower) {
					return vC12Neg(".", dns.RcodeNameError)
				}
				if dns.CountLabel(lower) <= empty || !vC12Sub(zone, lower) {
					m := &dns.Msg{}
					m.Authoritative = true
					return m
				}
				return vC12Referral(zone, 1)
			}
			// server s is authoritative for the zone of zl+s-1 labels
			own := suffix(zl + srv - 1)
			if srv-1 < tail && vC12Sub(suffix(zl+srv), lower) {
				return vC12Referral(suffix(zl+srv), srv+1)
			}
			if lower == qname && q.Qtype == dns.TypeA {
				return vC12Auth(vC12A(q.Name, net.IPv4(203, 0, 113, 14)))
			}
			if vC12Sub(own, lower) {
				return vC12Neg(own, dns.RcodeSuccess)
			}
			return vC12Neg(own, dns.RcodeNameError)
		}}
}

// many zones z<i>. behind ONE authority address: the root refers each to ns.z<i>. with the same glue
// a zone that moved: rz.mv. (checkHosts leaves single-label zones alone) is delegated to ns0.rz.mv. (glue: an address nothing answers on any more) and to h out-of-zone
// nameserver names n<k>.rh. without glue. History before the observed query ([prepare]): the names n<k>.rh. still
// resolved to dead addresses when the delegation was learnt, and clients have kept failing on rz. — four times "every
// server of the zone failed"; since then the addresses the resolver and its cache held for n<k>.rh. have expired (the
// operator's purge entry point stands in for the TTL), the failure-cache entry of the zone too, n<k>.rh. now resolve
// to the live server and other clients have asked for them (the answer cache holds the new addresses). The observed query is the fifth failure: Resolver.checkHosts re-resolves all h names IN PARALLEL
// through the Queryer, ignores each lookup's error, and retries with what it found.
func vC12Rehome(h int) vC12Topo {
	phase := new(atomic.Int32)
	return vC12Topo{fam: vC12FamRehome, p1: h, name: "rehome", servers: 3, qname: "www.rz.mv.", par: true,
		answer: func(srv int, q dns.Question, tcp bool) *dns.Msg {
			lower := strings.ToLower(q.Name)
			switch srv {
			case 0:
				if vC12Sub("rz.mv.", lower) {
					m := &dns.Msg{Ns: []dns.RR{vC12NS("rz.mv.", "ns0.rz.mv.")}, Extra: []dns.RR{vC12A("ns0.rz.mv.", vC12Dead(0))}}
					for k := 0; k < h; k++ {
						m.Ns = append(m.Ns, vC12NS("rz.mv.", fmt.Sprintf("n%d.rh.", k)))
					}
					return m
				}
				if vC12Sub("rh.", lower) {
					return vC12Referral("rh.", 2)
				}
				return vC12Neg(".", dns.RcodeNameError)
			case 1:
				if lower == "www.rz.mv." && q.Qtype == dns.TypeA {
					return vC12Auth(vC12A(q.Name, net.IPv4(203, 0, 113, 21)))
				}
				return vC12Neg("rz.mv.", dns.RcodeSuccess)
			default:
				var k int
				if _, err := fmt.Sscanf(lower, "n%d.rh.", &k); err != nil || q.Qtype != dns.TypeA || k < 0 || k >= h {
					return vC12Neg("rh.", dns.RcodeSuccess)
				}
				if phase.Load() < 2 {
					return vC12Auth(vC12A(q.Name, vC12Dead(1+k)))
				}
				return vC12Auth(vC12A(q.Name, vC12Glue(1)))
			}
		},
		prepare: func(rig *vC12Rig) {
			t0 := time.Now()
			defer func() {
				if os.Getenv("VERIF_C12_DEBUG") != "" {
					fmt.Fprintf(os.Stderr, "rehome: prepare took %v\n", time.Since(t0))
				}
			}()
			phase.Store(1)
			ample := middleware.MustRecursionWorkPolicyFromConfig(config.RecursionFirewallConfig{Mode: config.RecursionFirewallModeShadow})
			w := rig.queryWith("w0.rz.mv.", false, middleware.NewRecursionWorkLedger(ample))
			if os.Getenv("VERIF_C12_DEBUG") != "" {
				fmt.Fprintf(os.Stderr, "rehome: warm-up %+v\n", w)
			}
			// the history is only taken as established when every step is OBSERVED to have taken: the first query failed as a
			// resolution failure after reaching the root, ...
			if !w.written || w.rcode != dns.RcodeServerFailure || w.packets < 1 {
				return
			}
			phase.Store(2)
			primed := true
			for k := 0; k < h; k++ {
				// the cached address of the name has expired; another client has asked for it since, so the answer cache
				// holds the new one (the resolver's own nameserver-address cache and the delegation still hold the old)
				q := dns.Question{Name: fmt.Sprintf("n%d.rh.", k), Qtype: dns.TypeA, Qclass: dns.ClassINET}
				rig.cm.Purge(q)
				rig.cd = true
				a := rig.queryWith(q.Name, false, middleware.NewRecursionWorkLedger(ample))
				// ... the name resolved to an address, and asking again is answered from the cache (nothing sent)
				b := rig.queryWith(q.Name, false, middleware.NewRecursionWorkLedger(ample))
				rig.cd = false
				if a.rcode != dns.RcodeSuccess || len(a.canon) <= 4 || a.packets < 1 ||
					b.rcode != dns.RcodeSuccess || len(b.canon) <= 4 || b.packets != 0 {
					primed = false
				}
			}
			if !primed {
				return
			}
			zq := dns.Question{Name: "rz.mv.", Qtype: dns.TypeNS, Qclass: dns.ClassINET}
			if fs, ok := rig.cm.Store().(middleware.ResolutionFailureStore); ok {
				fs.ClearZoneFailure(zq, "rz.mv.")
			}
			rig.cm.Purge(dns.Question{Name: "w0.rz.mv.", Qtype: dns.TypeA, Qclass: dns.ClassINET})
			// the delegation is filed under the CD bit the resolver gave the upstream request (DNSSEC off: CD=1)
			for _, cd := range []bool{false, true} {
				if d, err := rig.res.delegations.Get(internalcache.Key(zq, cd)); err == nil && d.Servers != nil {
					atomic.StoreUint32(&d.Servers.ErrorCount, 4)
					rig.prepared = true
				}
			}
		}}
}

func vC12Shared() vC12Topo {
	return vC12Topo{fam: 9, name: "shared-authority", servers: 2, qname: "www.z0.",
		answer: func(srv int, q dns.Question, tcp bool) *dns.Msg {
			lower := strings.ToLower(q.Name)
			idx := strings.LastIndex(strings.TrimSuffix(lower, "."), ".")
			apex := lower[idx+1:]
			var i int
			if _, err := fmt.Sscanf(apex, "z%d.", &i); err != nil {
				return vC12Neg(".", dns.RcodeNameError)
			}
			if srv == 0 {
				return vC12Referral(apex, 1)
			}
			if lower == "www."+apex && q.Qtype == dns.TypeA {
				return vC12Auth(vC12A(q.Name, net.IPv4(203, 0, 113, 15)))
			}
			if lower == apex {
				return vC12Neg(apex, dns.RcodeSuccess)
			}
			return vC12Neg(apex, dns.RcodeNameError)
		}}
}

// every zone g<k>. is delegated to ns.g<k+1>. with an A glue only: resolving www.g0. is two packets, but with
// IPv6Access each new delegation spawns a detached walk that asks AAAA ns.g<k+1>., which meets the delegation of
// g<k+1>., which spawns the next walk ... — one generation per defaultTimeout, each on a fresh context
func vC12V6Chain() vC12Topo {
	return vC12Topo{fam: 11, name: "v6-chain", servers: 2, v6: true, qname: "www.g0.",
		answer: func(srv int, q dns.Question, tcp bool) *dns.Msg {
			lower := strings.ToLower(q.Name)
			idx := strings.LastIndex(strings.TrimSuffix(lower, "."), ".")
			apex := lower[idx+1:]
			var k int
			if _, err := fmt.Sscanf(apex, "g%d.", &k); err != nil {
				return vC12Neg(".", dns.RcodeNameError)
			}
			if srv == 0 {
				host := fmt.Sprintf("ns.g%d.", k+1)
				return &dns.Msg{Ns: []dns.RR{vC12NS(apex, host)}, Extra: []dns.RR{vC12A(host, vC12Glue(1))}}
			}
			if lower == "www."+apex && q.Qtype == dns.TypeA {
				return vC12Auth(vC12A(q.Name, net.IPv4(203, 0, 113, 16)))
			}
			if lower == apex || strings.HasPrefix(lower, "ns.") || strings.HasPrefix(lower, "www.") {
				return vC12Neg(apex, dns.RcodeSuccess)
			}
			return vC12Neg(apex, dns.RcodeNameError)
		}}
}

// finite: the topology resolves (or fails) in bounded work even with the firewall off, quickly
func vC12RandTopo(r *rand.Rand, finite bool) vC12Topo {
	switch r.Intn(10) {
	case 9, 8:
		zl := 1 + r.Intn(2)
		empty := zl + r.Intn(4)
		ql := empty + 1 + r.Intn(3)
		return vC12LateTail(zl, empty, ql, r.Intn(4))
	case 0:
		return vC12Deep(1 + r.Intn(6))
	case 1:
		return vC12Deep(27 + r.Intn(8)) // around cfg.Maxdepth
	case 2:
		if !finite && r.Intn(3) == 0 {
			return vC12Cname(0, false) // endless chain
		}
		if r.Intn(2) == 0 {
			return vC12Cname(2+r.Intn(6), true)
		}
		return vC12Cname(1+r.Intn(24), false)
	case 3:
		if r.Intn(2) == 0 {
			return vC12Dname(1+r.Intn(3), true)
		}
		return vC12Dname(1+r.Intn(13), false)
	case 4:
		return vC12NSFan(1+r.Intn(20), r.Intn(3))
	case 5:
		return vC12NSCycle(1 + r.Intn(4))
	case 6:
		return vC12Lame(1+r.Intn(6), r.Intn(4))
	case 7:
		if os.Getenv("VERIF_TIER") == "thorough" && r.Intn(2) == 0 {
			return vC12Rehome(1 + r.Intn(4))
		}
		return vC12Trunc(r.Intn(4))
	default:
		return vC12Cname(1+r.Intn(12), false)
	}
}

// ---------------------------------------------------------------- pipeline under test

type vC12Probe struct {
	runs   atomic.Int64
	ledger atomic.Pointer[middleware.RecursionWorkLedger]
	rec    *vC12Rec
}

func (p *vC12Probe) Name() string { return "vc12probe" }
func (p *vC12Probe) ServeDNS(ctx context.Context, ch *middleware.Chain) {
	p.runs.Add(1)
	// the code's own nesting counter: 0 in the client's chain, depth+1 inside Queryer.Query
	nest := middleware.VC12QueryerDepth(ctx)
	id, gen, parent, hasParent := p.rec.enter(ctx, nest)
	if nest > 0 && p.rec.sub(ctx, nest, gen, parent, hasParent) {
		defer p.rec.end()
	}
	// hand this run's label, generation and id down: the probe of a sub-run started from here reads the label as its
	// parent; a detached job spawned from here carries the id away as its request id
	down := context.WithValue(ctx, vC12ParentKey{}, vC12Label(ctx, nest))
	down = context.WithValue(down, vC12GenKey{}, gen)
	down = context.WithValue(down, contextKeyRequestID, id)
	ch.Next(down)
	// the ledger is materialised by the first debit at the latest; the client's own chain
	// returns last, so the pointer left here is the tree's
	if l := middleware.RecursionWorkFrom(ctx); l != nil {
		p.ledger.Store(l)
	}
}

type vC12Rig struct {
	window int // generations of detached walks to wait for (0 = 1)
	v6     bool
	net    *vC12Net
	probe  *vC12Probe
	pipe   *middleware.Pipeline
	policy middleware.RecursionWorkPolicy
	rec    *vC12Rec
	res    *Resolver
	cm     *cachemw.Cache
	prepared bool // the topology's history was established (topologies without one: true)
	cd       bool // the next client queries carry CD=1 (the resolver's own nameserver-address lookups do, with DNSSEC off)
}

// traced runs one client query on its own ledger and returns the event sequence of its request tree
func (rig *vC12Rig) traced(qname string, edns bool) (vC12Reply, []string, []string, []string, int) {
	own := middleware.NewRecursionWorkLedger(rig.policy)
	rig.rec.mu.Lock()
	rig.rec.led, rig.rec.evs, rig.rec.pairs, rig.rec.alien, rig.rec.on = own, nil, nil, 0, own != nil
	rig.rec.gens, rig.rec.byID = nil, nil
	rig.rec.mu.Unlock()
	rep := rig.queryWith(qname, edns, own)
	rig.rec.mu.Lock()
	defer rig.rec.mu.Unlock()
	rig.rec.on = false
	return rep, rig.rec.evs, rig.rec.pairs, rig.rec.gens, rig.rec.alien
}

// ---------------------------------------------------------------- DNSSEC-on rig: the repository's hermetic signed namespace

// a signed root delegating: sec. (signed, in-zone nameserver with glue), via. (signed, its only nameserver is named in
// sec. — no glue, the address has to be looked up), ins. (insecure delegation: the root proves there is no DS),
// n3. (signed, NSEC3 denial). The validating resolver fetches DS / DNSKEY RRsets through Resolver.subQuery.
func vC12NewSignedRig(t *testing.T, mode int, maxOut, maxInt uint32, qmin, v6 bool) *vC12Rig {
	n := newHermeticNet(t)
	sec := n.Delegate("sec.")
	sec.Serve(vC12A("www.sec.", net.IPv4(203, 0, 113, 21)))
	via := n.DelegateVia("via.", "ns1.sec.")
	sec.Serve(vC12A("ns1.sec.", via.glue))
	via.Serve(vC12A("www.via.", net.IPv4(203, 0, 113, 22)))
	ins := n.DelegateInsecure("ins.")
	ins.Serve(vC12A("www.ins.", net.IPv4(203, 0, 113, 23)))
	n3 := n.DelegateNSEC3("n3.")
	n3.Serve(vC12A("www.n3.", net.IPv4(203, 0, 113, 24)))

	dir := os.Getenv("VERIF_SCRATCH")
	if dir == "" {
		dir = os.TempDir()
	}
	dir, _ = os.MkdirTemp(dir, "c12sec")
	cfg := &config.Config{
		Directory:            dir,
		RootServers:          []string{n.root.addr},
		RootKeys:             []string{n.rootKey.key.String()},
		DNSSEC:               "on",
		Maxdepth:             30,
		Expire:               600,
		CacheSize:            4096,
		MaxConcurrentQueries: 128,
		IPv6Access:           v6,
		Timeout:              config.Duration{Duration: time.Second},
		QueryTimeout:         config.Duration{Duration: 6 * time.Second},
	}
	if qmin {
		cfg.QnameMinLevel = 5
	}
	cfg.RecursionFirewall = config.RecursionFirewallConfig{Mode: vC12Mode(mode), MaxOutboundQueries: maxOut, MaxInternalQueries: maxInt}
	policy := middleware.MustRecursionWorkPolicyFromConfig(cfg.RecursionFirewall)
	h := n.handlerWithConfig(cfg)
	rec := &vC12Rec{}
	net0 := &vC12Net{rec: rec}
	hook := func(dns.Question) { net0.packets.Add(1); rec.packet() }
	servers := []*hermeticServer{n.root}
	for _, z := range n.zones {
		servers = append(servers, z.server)
	}
	for _, sv := range servers {
		sv.mu.Lock()
		sv.beforeReply = hook
		sv.mu.Unlock()
	}
	vC12RigMu.Lock()
	cm := cachemw.New(cfg)
	vC12RigMu.Unlock()
	probe := &vC12Probe{rec: rec}
	reg := middleware.NewRegistry()
	reg.Register("edns", func(c *config.Config) middleware.Handler { return edns.New(c) })
	reg.Register("vc12probe", func(*config.Config) middleware.Handler { return probe })
	reg.Register("cache", func(*config.Config) middleware.Handler { return cm })
	reg.Register("resolver", func(*config.Config) middleware.Handler { return h })
	p := reg.Build(cfg)
	q := middleware.NewPipelineQueryer(p.SubPipeline())
	h.SetQueryer(q)
	h.SetStore(&vC12Store{inner: cm.Store(), rec: rec, pending: map[string][3]string{}})
	cm.SetQueryer(q)
	cm.SetPrefetchQueryer(middleware.NewPipelineQueryer(p.SubPipeline("cache")))
	return &vC12Rig{v6: v6, net: net0, probe: probe, pipe: p, policy: policy, rec: rec}
}

func vC12Mode(m int) config.RecursionFirewallMode {
	switch m {
	case 0:
		return config.RecursionFirewallModeOff
	case 1:
		return config.RecursionFirewallModeShadow
	default:
		return config.RecursionFirewallModeEnforce
	}
}

func vC12NewRig(topo vC12Topo, mode int, maxOut, maxInt uint32, qmin bool) (*vC12Rig, error) {
	rec := &vC12Rec{}
	n := &vC12Net{answer: topo.answer, rec: rec}
	n.start(topo.servers)
	if n.bindErr != nil {
		n.stop()
		return nil, n.bindErr
	}
	cfg := &config.Config{
		DNSSEC:               "off",
		Maxdepth:             30,
		MaxConcurrentQueries: 128,
		Timeout:              config.Duration{Duration: time.Second},
		QueryTimeout:         config.Duration{Duration: 6 * time.Second},
		CacheSize:            4096,
		Expire:               600,
	}
	cfg.RecursionFirewall = config.RecursionFirewallConfig{Mode: vC12Mode(mode), MaxOutboundQueries: maxOut, MaxInternalQueries: maxInt}
	policy := middleware.MustRecursionWorkPolicyFromConfig(cfg.RecursionFirewall)
	root := &authority.Servers{Zone: ".", List: []*authority.Server{authority.NewServer(n.srvs[0].addr, authority.IPv4)}, CheckingDisable: true}
	r := &Resolver{
		cfg:             cfg,
		delegations:     authority.NewCache(),
		rootServers:     root,
		glueV4:          internalcache.New(defaultCacheSize),
		dnssec:          false,
		netTimeout:      time.Second,
		workPolicy:      policy,
		sfGroup:         NewSingleflightWrapper(),
		circuitBreaker:  newCircuitBreaker(),
		maxConcurrent:   make(chan struct{}, 128),
		resolutionSlots: make(chan struct{}, 128),
		probeSlots:      make(chan struct{}, maxInflightProbes),
	}
	if qmin {
		r.qnameMinLevel = 5
	}
	if topo.prepare != nil {
		// endpoints nothing listens on cost a full socket timeout each until the circuit breaker opens: keep the history cheap
		r.netTimeout = 120 * time.Millisecond
		cfg.Timeout = config.Duration{Duration: 120 * time.Millisecond}
	}
	if topo.v6 {
		cfg.IPv6Access = true
		r.glueV6 = internalcache.New(defaultCacheSize)
		r.v6LookupSlots = make(chan struct{}, 128)
	}
	mapper := n.mapper()
	r.resolveTarget.Store(&mapper)
	h := &DNSHandler{resolver: r, cfg: cfg}
	vC12RigMu.Lock()
	cm := cachemw.New(cfg)
	vC12RigMu.Unlock()
	probe := &vC12Probe{rec: rec}
	reg := middleware.NewRegistry()
	reg.Register("edns", func(c *config.Config) middleware.Handler { return edns.New(c) })
	reg.Register("vc12probe", func(*config.Config) middleware.Handler { return probe })
	reg.Register("cache", func(*config.Config) middleware.Handler { return cm })
	reg.Register("resolver", func(*config.Config) middleware.Handler { return h })
	p := reg.Build(cfg)
	q := middleware.NewPipelineQueryer(p.SubPipeline())
	h.SetQueryer(q)
	h.SetStore(cm.Store())
	cm.SetQueryer(q)
	cm.SetPrefetchQueryer(middleware.NewPipelineQueryer(p.SubPipeline("cache")))
	rig := &vC12Rig{v6: topo.v6, net: n, probe: probe, pipe: p, policy: policy, rec: rec, res: r, cm: cm, prepared: topo.prepare == nil}
	if topo.prepare != nil {
		topo.prepare(rig)
		if !rig.prepared {
			n.stop()
			return nil, errors.New("history of the topology could not be established")
		}
	}
	return rig, nil
}

type vC12Reply struct {
	packets, runs  int64
	ledOut, ledInt uint32
	first          int
	rcode          int
	ede            int // code+1, 0 = none
	canon          []uint32
	elapsed        time.Duration
	written        bool
}

func (rig *vC12Rig) query(qname string, edns bool) vC12Reply { return rig.queryWith(qname, edns, nil) }

// queryWith lets one client bring its own request-tree ledger (the first ledger of a tree wins), so
// clients with different remaining budgets can follow each other on one resolver
func (rig *vC12Rig) queryWith(qname string, edns bool, own *middleware.RecursionWorkLedger) vC12Reply {
	req := new(dns.Msg)
	req.SetQuestion(qname, dns.TypeA)
	if edns {
		req.SetEdns0(1232, false)
	}
	req.CheckingDisabled = rig.cd
	rig.probe.ledger.Store(nil)
	p0, r0 := rig.net.packets.Load(), rig.probe.runs.Load()
	w := mock.NewWriter("udp", "192.0.2.77:5300")
	ch := rig.pipe.NewChain()
	ch.Reset(w, req)
	t0 := time.Now()
	ctx := context.Background()
	if own != nil {
		ctx = middleware.WithRecursionWork(ctx, own)
	}
	ch.Next(ctx)
	el := time.Since(t0)
	rig.pipe.PutChain(ch)
	// stragglers of the two-server race have been sent before the winner was read; give the
	// loopback a moment to deliver them so they are counted with this query
	time.Sleep(15 * time.Millisecond)
	if rig.v6 {
		// the detached IPv6 walk starts after defaultTimeout; it debits the same (retained) ledger
		time.Sleep(defaultTimeout + 400*time.Millisecond)
		if rig.window > 1 {
			time.Sleep(time.Duration(rig.window-1) * (defaultTimeout + 200*time.Millisecond))
		}
	}
	out := vC12Reply{elapsed: el, written: w.Written(), rcode: -1}
	out.packets = rig.net.packets.Load() - p0
	out.runs = rig.probe.runs.Load() - r0 - 1 // minus the client's own chain
	if l := rig.probe.ledger.Load(); l != nil {
		s := l.Snapshot()
		out.ledOut, out.ledInt = s.OutboundQueries, s.InternalQueries
		var le *middleware.RecursionWorkLimitError
		if err := l.EnforcementError(); errors.As(err, &le) {
			out.first = int(le.Kind) + 1
		}
	}
	if w.Written() {
		m := w.Msg()
		out.rcode = m.Rcode
		if opt := m.IsEdns0(); opt != nil {
			for _, o := range opt.Option {
				if e, ok := o.(*dns.EDNS0_EDE); ok {
					out.ede = int(e.InfoCode) + 1
				}
			}
		}
		ad := uint32(0)
		if m.AuthenticatedData {
			ad = 1
		}
		var hs []uint32
		for _, rr := range m.Answer {
			c := dns.Copy(rr)
			c.Header().Ttl = 0
			hs = append(hs, crc32.ChecksumIEEE([]byte(c.String())))
		}
		sort.Slice(hs, func(i, j int) bool { return hs[i] < hs[j] })
		out.canon = append([]uint32{uint32(m.Rcode), uint32(out.ede), ad, uint32(len(m.Answer))}, hs...)
	}
	return out
}

func vC12List(l []uint32) string {
	var s []string
	for _, v := range l {
		s = append(s, strconv.FormatUint(uint64(v), 10))
	}
	return "[" + strings.Join(s, ";") + "]"
}

func TestVerifC12Lab(t *testing.T) {
	path := os.Getenv("VERIF_OUT")
	if path == "" {
		t.Skip("VERIF_OUT not set")
	}
	if scratch := os.Getenv("VERIF_SCRATCH"); scratch != "" {
		os.Setenv("TMPDIR", scratch)
	}
	f, err := os.Create(path)
	if err != nil {
		t.Fatal(err)
	}
	defer f.Close()
	emit := func(m map[string]any) {
		b, _ := json.Marshal(m)
		f.Write(append(b, '\n'))
	}
	seed, _ := strconv.Atoi(os.Getenv("VERIF_SEED"))
	n, _ := strconv.Atoi(os.Getenv("VERIF_N"))
	if n == 0 {
		n = 40
	}
	r := rand.New(rand.NewSource(int64(seed)*15485863 + 12))
	// crowds: k clients whose budget runs out right when the shared authority is addressed, then an
	// independent client with an ample budget; it must be served exactly as on a resolver the crowd never used
	crowds := 3
	if os.Getenv("VERIF_TIER") == "thorough" {
		crowds = 30
	}
	for c := 0; c < crowds; c++ {
		topo := vC12Shared()
		k := 5 + r.Intn(5)
		if c == 0 {
			k = 6
		}
		tiny := uint32(1 + r.Intn(2))
		if c == 0 {
			tiny = 1
		}
		qmin := r.Intn(2) == 0
		reask := r.Intn(2) == 0
		pol := func(out uint32) middleware.RecursionWorkPolicy {
			return middleware.MustRecursionWorkPolicyFromConfig(config.RecursionFirewallConfig{Mode: config.RecursionFirewallModeEnforce, MaxOutboundQueries: out})
		}
		final := fmt.Sprintf("www.z%d.", k+1)
		if reask {
			final = "www.z1."
		}
		rigA, errA := vC12NewRig(topo, 2, 128, 32, qmin)
		rigB, errB := vC12NewRig(topo, 2, 128, 32, qmin)
		if errA != nil || errB != nil {
			emit(map[string]any{"k": "lab-crowd", "inconclusive": true, "desc": "bind"})
			continue
		}
		over := 0
		for i := 1; i <= k; i++ {
			x := rigA.queryWith(fmt.Sprintf("www.z%d.", i), true, middleware.NewRecursionWorkLedger(pol(tiny)))
			if x.first != 0 {
				over++
			}
		}
		after := rigA.queryWith(final, true, middleware.NewRecursionWorkLedger(pol(128)))
		fresh := rigB.queryWith(final, true, middleware.NewRecursionWorkLedger(pol(128)))
		rigA.net.stop()
		rigB.net.stop()
		emit(map[string]any{
			"k":          "lab-crowd",
			"coq":        fmt.Sprintf("CaseCrowd %d %d %d %s %s", k, tiny, over, vC12List(after.canon), vC12List(fresh.canon)),
			"nontrivial": over >= 5,
			"desc": map[string]any{"topology": topo.name, "crowd": k, "crowd_outbound_budget": tiny, "crowd_over_budget": over, "final_qname": final, "qmin": qmin,
				"after_crowd": fmt.Sprintf("%+v", after), "fresh_resolver": fmt.Sprintf("%+v", fresh)},
		})
	}
	// boundary topologies first, in every run: each cap of the code is approached from both sides
	boundary := []vC12Topo{
		vC12Dname(9, false), vC12Dname(10, false), vC12Dname(11, false), vC12Dname(13, false), vC12Dname(2, true),
		vC12Cname(9, false), vC12Cname(10, false), vC12Cname(11, false), vC12Cname(30, false), vC12Cname(3, true),
		vC12Deep(28), vC12Deep(29), vC12Deep(30), vC12Deep(31),
		vC12NSFan(20, 0), vC12NSFan(33, 0), vC12NSFan(12, 2), vC12NSCycle(1), vC12NSCycle(3),
		vC12Lame(4, 0), vC12Lame(4, 2), vC12Trunc(3),
		vC12Late(2, 3, 4), vC12Late(1, 3, 5), vC12Late(2, 2, 4),
	}
	if os.Getenv("VERIF_TIER") == "thorough" {
		for _, k := range []int{1, 5, 9} {
			t6 := vC12NSFan(k, 0)
			t6.v6, t6.name = true, "ns-fanout-v6"
			boundary = append(boundary, t6)
		}
	}
	{
		t6 := vC12NSFan(3, 0)
		t6.v6, t6.name = true, "ns-fanout-v6"
		boundary = append(boundary, t6)
	}
	// warm-cache over-budget scenarios (EDNS client, the second client's chase starts from a cache
	// hit): fixed budgets, appended to the boundary list
	type vC12Fixed struct {
		maxOut, maxInt uint32
		qmin           bool
	}
	fixed := map[int]vC12Fixed{}
	for _, f := range []struct {
		t              vC12Topo
		maxOut, maxInt uint32
		qmin           bool
	}{
		{vC12Cname(5, true), 42, 10, true}, {vC12Cname(4, true), 40, 6, false}, {vC12Cname(14, false), 60, 5, true},
		{vC12Cname(25, false), 128, 9, false}, {vC12Dname(8, false), 64, 3, true},
		{vC12Late(2, 3, 4), 3, 4, true}, {vC12Late(2, 3, 4), 5, 4, true}, {vC12Late(1, 4, 6), 4, 4, true}, {vC12Late(2, 4, 5), 6, 2, true},
		// the budget ends inside the walk that follows the restart: in its root query, at the zone, in the tail
		{vC12LateTail(1, 3, 6, 3), 5, 4, true}, {vC12LateTail(1, 3, 6, 3), 6, 4, true}, {vC12LateTail(1, 3, 6, 3), 8, 4, true},
		{vC12LateTail(2, 4, 6, 2), 6, 4, true}, {vC12LateTail(2, 4, 6, 2), 7, 4, true}, {vC12LateTail(1, 2, 5, 3), 4, 4, true},
		// the internal budget ends among the parallel nameserver lookups of checkHosts (whose errors it ignores), or just holds
		{vC12Rehome(2), 128, 1, false}, {vC12Rehome(3), 128, 2, true}, {vC12Rehome(2), 128, 32, true},
		// ... or holds for all of them and ends right after: the walk has its answer when the tree is latched
		{vC12Rehome(2), 128, 2, false}, {vC12Rehome(1), 128, 1, true}, {vC12Rehome(3), 128, 3, false}, {vC12Rehome(4), 128, 4, true},
	} {
		fixed[len(boundary)] = vC12Fixed{f.maxOut, f.maxInt, f.qmin}
		boundary = append(boundary, f.t)
	}
	// one more client query on a fresh resolver, observed step by step
	buildTrace := func(name string, v6 bool, mode int, maxOut, maxInt uint32, rep vC12Reply, evs, pairs, gens []string, alien int, desc map[string]any) map[string]any {
		tree := !v6 // detached IPv6 walks run beside each other: no stack discipline, the (parent, child) pairs are still checked
		if par, _ := desc["parallel_subruns"].(bool); par {
			tree = false // checkHosts' parallel nameserver lookups: the same
		}
		if len(evs) > 600 {
			evs, tree = evs[:600], false
		}
		if len(pairs) > 300 {
			pairs = pairs[:300]
		}
		if len(gens) > len(pairs) {
			gens = gens[:len(pairs)]
		}
		maxGen := 0
		for _, g := range gens {
			if v, _ := strconv.Atoi(strings.TrimSuffix(g, "%nat")); v > maxGen {
				maxGen = v
			}
		}
		subs, xs, roots := 0, 0, 0
		for _, e := range evs {
			if strings.HasPrefix(e, "EvS") {
				subs++
			} else if strings.HasPrefix(e, "EvX") {
				xs++
			}
		}
		for _, pr := range pairs {
			if strings.HasPrefix(pr, "(None") {
				roots++
			}
		}
		goFail := ""
		if alien != 0 {
			goFail = fmt.Sprintf("%d sub-pipeline runs carried a ledger other than their request tree's", alien)
		}
		modeName := map[int]string{1: "shadow", 2: "enforce"}[mode]
		desc["mode"], desc["max_outbound"], desc["max_internal"] = modeName, maxOut, maxInt
		desc["upstream_arrivals"], desc["sub_pipeline_runs"], desc["detached_roots"] = xs, subs, roots
		desc["ledger_internal"], desc["reply"] = rep.ledInt, fmt.Sprintf("%+v", rep)
		desc["generations_of_detached_walks"] = maxGen
		return map[string]any{
			"k": "lab-trace-" + modeName + "-" + name,
			"coq": fmt.Sprintf("CaseTrace %d %d %d %s %s [%s] [%s] [%s]", mode, maxOut, maxInt, vC12Flag(v6), vC12Flag(tree),
				strings.Join(evs, "; "), strings.Join(pairs, "; "), strings.Join(gens, "; ")),
			"nontrivial": subs > 0 || xs > 1,
			"go_fail":    goFail,
			"desc":       desc,
		}
	}
	emitTrace := func(name string, v6 bool, mode int, maxOut, maxInt uint32, rep vC12Reply, evs, pairs, gens []string, alien int, desc map[string]any) {
		emit(buildTrace(name, v6, mode, maxOut, maxInt, rep, evs, pairs, gens, alien, desc))
	}
	// the chain of zones delegated to nameservers with A glue only (vC12V6Chain), IPv6Access on: one client query, observed
	// over a window of two (thorough: also three) walk generations — a walk started from inside a walk would show up as
	// generation 2. The wait is wall time only, so it runs beside the main loop; what it recorded is emitted at the end.
	var chainWG sync.WaitGroup
	var chainOut []map[string]any
	chainWG.Add(1)
	go func() {
		defer chainWG.Done()
		windows := []int{2}
		if os.Getenv("VERIF_TIER") == "thorough" {
			windows = []int{2, 3}
		}
		for _, win := range windows {
			for _, m := range []int{2, 1} {
				rig, err := vC12NewRig(vC12V6Chain(), m, 128, 32, win == 3)
				if err != nil {
					chainOut = append(chainOut, map[string]any{"k": "lab-trace", "inconclusive": true, "desc": err.Error()})
					continue
				}
				rig.window = win
				rep, evs, pairs, gens, alien := rig.traced("www.g0.", true)
				rig.net.stop()
				chainOut = append(chainOut, buildTrace("v6-chain", true, m, 128, 32, rep, evs, pairs, gens, alien,
					map[string]any{"topology": "v6-chain", "qname": "www.g0.", "window_generations": win}))
			}
		}
	}()
	defer func() {
		chainWG.Wait()
		for _, m := range chainOut {
			emit(m)
		}
	}()
	// one more client query on a fresh resolver, observed step by step
	traceCase := func(topo vC12Topo, mode int, maxOut, maxInt uint32, qmin, edns bool) {
		rig, err := vC12NewRig(topo, mode, maxOut, maxInt, qmin)
		if err != nil {
			emit(map[string]any{"k": "lab-trace", "inconclusive": true, "desc": err.Error()})
			return
		}
		rep, evs, pairs, gens, alien := rig.traced(topo.qname, edns)
		rig.net.stop()
		emitTrace(topo.name, topo.v6, mode, maxOut, maxInt, rep, evs, pairs, gens, alien,
			map[string]any{"topology": topo.name, "p1": topo.p1, "p2": topo.p2, "qname": topo.qname, "qmin": qmin, "edns": edns, "parallel_subruns": topo.par})
	}
	// DNSSEC on: the signed namespace; the validating resolver's DS / DNSKEY fetches are direct sub-resolutions that
	// debit the internal budget without passing the probe
	signedN := 8
	if os.Getenv("VERIF_TIER") == "thorough" {
		signedN = 60
	}
	for c := 0; c < signedN; c++ {
		qnames := []string{"www.sec.", "nx.sec.", "www.via.", "www.ins.", "www.n3.", "nx.n3.", "www.via.", "nx.ins."}
		qname := qnames[c%len(qnames)]
		mode := 2
		if c%4 == 3 {
			mode = 1
		}
		maxOut, maxInt := uint32(config.DefaultRecursionFirewallMaxOutboundQueries), uint32(config.DefaultRecursionFirewallMaxInternalQueries)
		if c >= len(qnames)/2 {
			maxOut, maxInt = uint32(2+r.Intn(12)), uint32(1+r.Intn(4))
		}
		qmin := c%2 == 0
		v6 := false
		rig := vC12NewSignedRig(t, mode, maxOut, maxInt, qmin, v6)
		rep, evs, pairs, gens, alien := rig.traced(qname, true)
		desc := map[string]any{"topology": "signed", "qname": qname, "qmin": qmin, "edns": true}
		emitTrace("signed", v6, mode, maxOut, maxInt, rep, evs, pairs, gens, alien, desc)
		emit(map[string]any{
			"k": "lab-" + map[int]string{1: "shadow", 2: "enforce"}[mode] + "-signed",
			"coq": fmt.Sprintf("CaseLab %d %d %d 10 %d 0 %s true false %d %d %d %d %d %d %d 0 0 0", mode, maxOut, maxInt, c%len(qnames), vC12Flag(qmin),
				rep.packets, rep.ledOut, rep.ledInt, rep.runs, rep.first, vC12Rcode(rep.rcode), rep.ede),
			"nontrivial": rep.ledInt > uint32(rep.runs),
			"desc":       desc,
		})
	}
	for c := 0; c < n+len(boundary); c++ {
		qmin := r.Intn(2) == 0
		edns := r.Intn(4) != 0
		fx, isFixed := fixed[c]
		if isFixed {
			qmin, edns = fx.qmin, true
		}
		// ---- enforce: budgets, including very small ones
		topo := vC12RandTopo(r, false)
		if c < len(boundary) {
			topo = boundary[c]
		}
		var maxOut, maxInt uint32
		budget := r.Intn(4)
		if c < len(boundary) {
			budget = 3
		}
		if topo.v6 {
			budget = 4
		}
		if isFixed {
			budget = 5
		}
		if !isFixed && c >= len(boundary) && topo.fam == vC12FamLate && r.Intn(3) != 0 {
			// restart-triggering topologies x budgets: the outbound budget runs out somewhere between the
			// last minimised question and the end of the walk that follows the restart
			budget, qmin = 6, true
		}
		switch budget {
		case 6:
			maxOut, maxInt = uint32(topo.p1+r.Intn(3+topo.p2/100+2)), 4
			if maxOut == 0 {
				maxOut = 1
			}
		case 5:
			maxOut, maxInt = fx.maxOut, fx.maxInt
		case 4:
			maxOut, maxInt = uint32(10+2*topo.p1), uint32(topo.p1+1)
		case 0:
			maxOut, maxInt = uint32(1+r.Intn(4)), uint32(1+r.Intn(3))
		case 1:
			maxOut, maxInt = uint32(3+r.Intn(12)), uint32(1+r.Intn(8))
		case 2:
			maxOut, maxInt = uint32(8+r.Intn(40)), uint32(4+r.Intn(20))
		default:
			maxOut, maxInt = config.DefaultRecursionFirewallMaxOutboundQueries, config.DefaultRecursionFirewallMaxInternalQueries
		}
		desc := map[string]any{"topology": topo.name, "p1": topo.p1, "p2": topo.p2, "qname": topo.qname, "qmin": qmin, "edns": edns}
		rig, err := vC12NewRig(topo, 2, maxOut, maxInt, qmin)
		if err != nil {
			emit(map[string]any{"k": "lab-enforce", "inconclusive": true, "desc": err.Error()})
		} else {
			a := rig.query(topo.qname, edns)
			var b vC12Reply
			resolvable := false
			if a.first != 0 {
				b = rig.query(topo.qname, edns)
			}
			rig.net.stop()
			if a.first != 0 && !topo.endless {
				// does the same topology resolve when nothing is budgeted? then the only failure
				// the first client saw was the budget, and nothing about it may be cached
				if off, err := vC12NewRig(topo, 0, 1, 1, qmin); err == nil {
					o := off.query(topo.qname, edns)
					off.net.stop()
					resolvable = o.rcode == dns.RcodeSuccess && len(o.canon) > 4
				}
			}
			desc["resolvable_without_budget"] = resolvable
			desc["mode"] = "enforce"
			desc["max_outbound"], desc["max_internal"] = maxOut, maxInt
			desc["first"] = fmt.Sprintf("%+v", a)
			desc["second"] = fmt.Sprintf("%+v", b)
			goFail := ""
			if !a.written {
				goFail = "no reply written to the client"
			}
			one := func(tag string, x, next vC12Reply) {
				// a second client meets a warm cache: the cold-cache predictions per family do not apply
				fam := topo.fam
				if tag != "" {
					fam += 100
				}
				// (former finding overbudget-tree-files-zone-failure, fixed by c55a314: a tree that ended over budget inside
				// checkHosts' nameserver re-resolution filed "every server of the zone failed" in the shared failure cache and
				// the next client was answered SERVFAIL / Cached Error; the cases are strict — no fkey)
				emit(map[string]any{
					"k": "lab-enforce-" + tag + topo.name,
					"coq": fmt.Sprintf("CaseLab 2 %d %d %d %d %d %s %s %s %d %d %d %d %d %d %d %d %d %d", maxOut, maxInt, fam, topo.p1, topo.p2, vC12Flag(qmin), vC12Flag(edns), vC12Flag(resolvable && tag == ""),
						x.packets, x.ledOut, x.ledInt, x.runs, x.first, vC12Rcode(x.rcode), x.ede, next.packets, vC12Rcode(next.rcode), next.ede),
					"nontrivial": x.first != 0 || uint32(x.packets) == maxOut,
					"go_fail":    goFail,
					"desc":       desc,
				})
			}
			one("", a, b)
			if a.first != 0 {
				one("second-", b, vC12Reply{})
			}
			if c < len(boundary) || c%3 == 0 {
				traceCase(topo, 2, maxOut, maxInt, qmin, edns)
			}
		}
		// ---- off vs shadow on a topology that is finite without the firewall
		topo = vC12RandTopo(r, true)
		if c < len(boundary) {
			topo = boundary[c]
		}
		desc = map[string]any{"topology": topo.name, "p1": topo.p1, "p2": topo.p2, "qname": topo.qname, "qmin": qmin, "edns": edns}
		var rep [2]vC12Reply
		bad := false
		for mode := 0; mode < 2; mode++ {
			// shadow budgets are tiny on purpose: crossings must not change anything
			rig, err := vC12NewRig(topo, mode, uint32(1+r.Intn(3)), uint32(1+r.Intn(2)), qmin)
			if err != nil {
				bad = true
				break
			}
			rep[mode] = rig.query(topo.qname, edns)
			rig.net.stop()
		}
		// an exchange that ran into its socket timeout (loopback hiccup) makes the two runs incomparable
		hiccup := 900 * time.Millisecond
		if topo.prepare != nil {
			hiccup = 100 * time.Millisecond // these rigs run on a 120 ms socket timeout
		}
		if topo.prepare != nil && (rep[0].packets < 1 || rep[1].packets < 1) {
			// with nothing budgeted (off) or nothing enforced (shadow) the re-homed zone is reached: a run in which no scripted
			// server received anything did not run on the rig it was meant to (observed, not assumed): not comparable
			bad = true
		}
		if bad || rep[0].elapsed > hiccup || rep[1].elapsed > hiccup {
			emit(map[string]any{"k": "lab-eq", "inconclusive": true, "desc": desc})
			continue
		}
		desc["off"] = fmt.Sprintf("%+v", rep[0])
		desc["shadow"] = fmt.Sprintf("%+v", rep[1])
		goFail := ""
		if !rep[0].written || !rep[1].written {
			goFail = "no reply written to the client"
		}
		emit(map[string]any{
			"k":          "lab-eq-" + topo.name,
			"coq":        fmt.Sprintf("CaseLabEq %d %d %d %s %s %s %d %d", topo.fam, topo.p1, topo.p2, vC12Flag(qmin), vC12List(rep[0].canon), vC12List(rep[1].canon), rep[0].packets, rep[1].packets),
			"nontrivial": rep[1].ledOut > 1 || rep[1].ledInt > 1,
			"go_fail":    goFail,
			"desc":       desc,
		})
		if c < len(boundary) || c%3 == 1 {
			traceCase(topo, 1, uint32(1+r.Intn(3)), uint32(1+r.Intn(2)), qmin, edns)
		}
		// shadow mode counts: the same case viewed as a ledger observation
		emit(map[string]any{
			"k": "lab-shadow-" + topo.name,
			"coq": fmt.Sprintf("CaseLab 1 %d %d %d %d %d %s %s false %d %d %d %d %d %d %d 0 0 0", 1, 1, topo.fam, topo.p1, topo.p2, vC12Flag(qmin), vC12Flag(edns),
				rep[1].packets, rep[1].ledOut, rep[1].ledInt, rep[1].runs, 0, vC12Rcode(rep[1].rcode), rep[1].ede),
			"nontrivial": rep[1].packets > 1,
			"desc":       desc,
		})
	}
}

func vC12Flag(b bool) string {
	if b {
		return "true"
	}
	return "false"
}

func vC12Rcode(rc int) int {
	if rc < 0 {
		return 999
	}
	return rc
}
