//go:build verif

package resolver

// C01 driver B (lab): the edns + cache + resolver pipeline, wired as
// middleware.Setup wires it, resolving over UDP on loopback against scripted
// authoritative servers that hold generated zones (real keys, signatures
// made at reply time, real NSEC chains). One socket may serve several zones
// — parent and child on one server is part of the property's quantifier.
// A scenario = topology x query x tamper script x client flags; every query is
// asked twice (the second answer comes from the caches filled by the first).
// The judgement is against the zone data the driver generated (ground truth),
// not against the model.

import (
	"context"
	"encoding/json"
	"fmt"
	"math/rand"
	"net"
	"os"
	"path/filepath"
	"sort"
	"strings"
	"sync"
	"testing"
	"time"

	"github.com/miekg/dns"
	"github.com/semihalev/sdns/config"
	"github.com/semihalev/sdns/internal/dnsutil"
	"github.com/semihalev/sdns/internal/mock"
	"github.com/semihalev/sdns/middleware"
	"github.com/semihalev/sdns/middleware/cache"
	"github.com/semihalev/sdns/middleware/edns"
)

type vC01LCut struct {
	name   string
	ds     []dns.RR // nil: insecure delegation
	nsHost string
	glue   net.IP
}

type vC01LZone struct {
	name     string
	signed   bool
	ksk, zsk *vC01Key
	rr       map[string][]dns.RR // lower(owner)|type
	cuts     map[string]*vC01LCut
	secure   bool // ground truth: every cut from the root down to here is a secure one and the zone signs
	nsec3    bool // hashed denial (SHA-1, no salt, 0 iterations)
	optout   bool // Opt-Out: insecure delegations are left out of the chain, every record carries the flag
}

type vC01LServer struct {
	mu     sync.Mutex
	zones  []*vC01LZone
	addr   string
	glue   net.IP
	tamper func(s *vC01LServer, z *vC01LZone, q dns.Question, m *dns.Msg)
	expire bool
	w      *vC01W
	stop   func()
	asked  int
}

func vC01Canon(a string) []string {
	l := dns.SplitDomainName(strings.ToLower(a))
	for i, j := 0, len(l)-1; i < j; i, j = i+1, j-1 {
		l[i], l[j] = l[j], l[i]
	}
	return l
}

// canonical DNS name order (RFC 4034 §6.1) for the plain-ASCII names of the lab
func vC01CanonLess(a, b string) bool {
	x, y := vC01Canon(a), vC01Canon(b)
	for i := 0; i < len(x) && i < len(y); i++ {
		if x[i] != y[i] {
			return x[i] < y[i]
		}
	}
	return len(x) < len(y)
}

func (z *vC01LZone) key(name string, t uint16) string {
	return strings.ToLower(name) + "|" + fmt.Sprint(t)
}
func (z *vC01LZone) add(rrs ...dns.RR) {
	for _, rr := range rrs {
		k := z.key(rr.Header().Name, rr.Header().Rrtype)
		z.rr[k] = append(z.rr[k], rr)
	}
}
func (z *vC01LZone) get(name string, t uint16) []dns.RR { return z.rr[z.key(name, t)] }

// owners: every name that owns records (delegation points included), canonical order
func (z *vC01LZone) owners() []string {
	seen := map[string]bool{}
	for k := range z.rr {
		seen[strings.Split(k, "|")[0]] = true
	}
	for c := range z.cuts {
		seen[strings.ToLower(c)] = true
	}
	var l []string
	for n := range seen {
		l = append(l, n)
	}
	sort.Slice(l, func(i, j int) bool { return vC01CanonLess(l[i], l[j]) })
	return l
}
func (z *vC01LZone) typesAt(name string) []uint16 {
	name = strings.ToLower(name)
	var ts []uint16
	if c, ok := z.cuts[name]; ok {
		ts = append(ts, dns.TypeNS)
		if len(c.ds) > 0 {
			ts = append(ts, dns.TypeDS)
		}
	}
	for k := range z.rr {
		p := strings.Split(k, "|")
		if p[0] == name {
			var t int
			fmt.Sscan(p[1], &t)
			ts = append(ts, uint16(t))
		}
	}
	ts = append(ts, dns.TypeRRSIG, dns.TypeNSEC)
	sort.Slice(ts, func(i, j int) bool { return ts[i] < ts[j] })
	var out []uint16
	for i, t := range ts {
		if i == 0 || t != ts[i-1] {
			out = append(out, t)
		}
	}
	return out
}
func (z *vC01LZone) exists(name string) bool {
	name = strings.ToLower(name)
	for _, o := range z.owners() {
		if o == name || dns.IsSubDomain(name, o) { // owner or empty non-terminal above one
			return true
		}
	}
	return false
}

// nsecFor: the chain link whose owner is name, or the one covering it
func (z *vC01LZone) nsecFor(name string) *dns.NSEC {
	name = strings.ToLower(name)
	os := z.owners()
	idx := len(os) - 1
	for i, o := range os {
		if o == name {
			idx = i
			break
		}
		if vC01CanonLess(o, name) {
			idx = i
		}
	}
	owner := os[idx]
	next := os[(idx+1)%len(os)]
	return &dns.NSEC{Hdr: dns.RR_Header{Name: owner, Rrtype: dns.TypeNSEC, Class: dns.ClassINET, Ttl: 60}, NextDomain: next, TypeBitMap: z.typesAt(owner)}
}

// ---- NSEC3 chain ----

func vC01H(name string) string { return dns.HashName(strings.ToLower(name), dns.SHA1, 0, "") }

// n3Names: owners and the empty non-terminals above them; under Opt-Out without the insecure delegations
func (z *vC01LZone) n3Names() []string {
	seen := map[string]bool{}
	for _, o := range z.owners() {
		if c, ok := z.cuts[o]; ok && z.optout && len(c.ds) == 0 {
			continue
		}
		for n := o; dns.IsSubDomain(z.name, n); {
			seen[n] = true
			if n == strings.ToLower(z.name) {
				break
			}
			off, end := dns.NextLabel(n, 0)
			if end {
				break
			}
			n = n[off:]
		}
	}
	var l []string
	for n := range seen {
		l = append(l, n)
	}
	sort.Slice(l, func(i, j int) bool { return vC01H(l[i]) < vC01H(l[j]) })
	return l
}
func (z *vC01LZone) typesAt3(name string) []uint16 {
	name = strings.ToLower(name)
	var ts []uint16
	if c, ok := z.cuts[name]; ok {
		ts = append(ts, dns.TypeNS)
		if len(c.ds) > 0 {
			ts = append(ts, dns.TypeDS, dns.TypeRRSIG)
		}
	}
	for k := range z.rr {
		p := strings.Split(k, "|")
		if p[0] == name {
			var t int
			fmt.Sscan(p[1], &t)
			ts = append(ts, uint16(t), dns.TypeRRSIG)
		}
	}
	sort.Slice(ts, func(i, j int) bool { return ts[i] < ts[j] })
	var out []uint16
	for i, t := range ts {
		if i == 0 || t != ts[i-1] {
			out = append(out, t)
		}
	}
	return out
}

// n3For: the record matching name, or the one whose interval covers its hash
func (z *vC01LZone) n3For(name string) *dns.NSEC3 {
	names := z.n3Names()
	h := vC01H(name)
	idx := len(names) - 1
	for i, n := range names {
		hn := vC01H(n)
		if hn == h {
			idx = i
			break
		}
		if hn < h {
			idx = i
		}
	}
	owner := names[idx]
	flags := uint8(0)
	if z.optout {
		flags = 1
	}
	return &dns.NSEC3{Hdr: dns.RR_Header{Name: vC01H(owner) + "." + z.name, Rrtype: dns.TypeNSEC3, Class: dns.ClassINET, Ttl: 60}, Hash: dns.SHA1, Flags: flags,
		Iterations: 0, SaltLength: 0, Salt: "", HashLength: 20, NextDomain: vC01H(names[(idx+1)%len(names)]), TypeBitMap: z.typesAt3(owner)}
}
func (z *vC01LZone) inChain(name string) bool {
	for _, n := range z.n3Names() {
		if n == strings.ToLower(name) {
			return true
		}
	}
	return false
}

// closest encloser of name inside the chain's name set, and the next closer name
func (z *vC01LZone) encloser(name string) (ce, nc string) {
	name = strings.ToLower(name)
	labels := dns.SplitDomainName(name)
	for i := 0; i <= len(labels); i++ {
		anc := "."
		if i < len(labels) {
			anc = strings.Join(labels[i:], ".") + "."
		}
		if dns.IsSubDomain(z.name, anc) && (z.exists(anc) && (!z.nsec3 || z.inChain(anc))) {
			ce = anc
			if i > 0 {
				nc = strings.Join(labels[i-1:], ".") + "."
			}
			return
		}
	}
	return strings.ToLower(z.name), name
}

// denial records for name, de-duplicated by owner: NSEC3 = encloser match + covers, NSEC = the covering/matching link(s)
func (s *vC01LServer) deny(z *vC01LZone, names ...string) []dns.RR {
	var out []dns.RR
	seen := map[string]bool{}
	for _, n := range names {
		if n == "" {
			continue
		}
		set := s.nsec(z, n)
		if len(set) == 0 || seen[set[0].Header().Name] {
			continue
		}
		seen[set[0].Header().Name] = true
		out = append(out, set...)
	}
	return out
}

func (s *vC01LServer) sign(z *vC01LZone, set []dns.RR) []dns.RR {
	if !z.signed || len(set) == 0 {
		return set
	}
	k := z.zsk
	if set[0].Header().Rrtype == dns.TypeDNSKEY {
		k = z.ksk
	}
	now := uint32(time.Now().Unix())
	inc, exp := now-6*3600, now+6*3600
	if s.expire && set[0].Header().Rrtype == dns.TypeA {
		inc, exp = now-48*3600, now-24*3600
	}
	sig, err := s.w.sign(k, set, inc, exp)
	if err != nil {
		return set
	}
	return append(append([]dns.RR{}, set...), sig)
}

func (s *vC01LServer) soa(z *vC01LZone) []dns.RR { return s.sign(z, z.get(z.name, dns.TypeSOA)) }
func (s *vC01LServer) nsec(z *vC01LZone, name string) []dns.RR {
	if !z.signed {
		return nil
	}
	if z.nsec3 {
		return s.sign(z, []dns.RR{z.n3For(name)})
	}
	return s.sign(z, []dns.RR{z.nsecFor(name)})
}

// denial for a name that has no record of its own in the chain (NXDOMAIN, opted-out cut, wildcard next closer)
func (s *vC01LServer) denyAbsent(z *vC01LZone, name string, withWildcard bool) []dns.RR {
	if !z.nsec3 {
		set := s.nsec(z, name)
		if withWildcard {
			ce, _ := z.encloser(name)
			wc := "*." + ce
			if ce == "." {
				wc = "*."
			}
			if w2 := s.nsec(z, wc); len(w2) > 0 && len(set) > 0 && !strings.EqualFold(w2[0].Header().Name, set[0].Header().Name) {
				set = append(set, w2...)
			}
		}
		return set
	}
	ce, nc := z.encloser(name)
	if withWildcard {
		wc := "*." + ce
		if ce == "." {
			wc = "*."
		}
		return s.deny(z, ce, nc, wc)
	}
	return s.deny(z, ce, nc)
}

func (s *vC01LServer) hosted(name string) *vC01LZone {
	for _, z := range s.zones {
		if strings.EqualFold(z.name, name) {
			return z
		}
	}
	return nil
}

// zoneFor: the deepest hosted zone holding the question (the parent side for a DS question at a cut)
func (s *vC01LServer) zoneFor(q dns.Question) *vC01LZone {
	var best *vC01LZone
	for _, z := range s.zones {
		if !dns.IsSubDomain(z.name, q.Name) {
			continue
		}
		if q.Qtype == dns.TypeDS && strings.EqualFold(z.name, q.Name) && z.name != "." {
			hasParent := false
			for _, p := range s.zones {
				if p != z && dns.IsSubDomain(p.name, z.name) {
					hasParent = true
				}
			}
			if hasParent {
				continue
			}
		}
		if best == nil || dns.CountLabel(z.name) > dns.CountLabel(best.name) {
			best = z
		}
	}
	return best
}

func (s *vC01LServer) reply(r *dns.Msg) *dns.Msg {
	q := r.Question[0]
	m := new(dns.Msg)
	m.SetReply(r)
	z := s.zoneFor(q)
	if z == nil {
		m.Rcode = dns.RcodeRefused
		return m
	}
	qn := strings.ToLower(q.Name)
	// below (or at) a cut whose child is not served here: referral
	for cn, c := range z.cuts {
		if dns.IsSubDomain(cn, qn) && !(q.Qtype == dns.TypeDS && cn == qn) {
			m.Ns = append(m.Ns, &dns.NS{Hdr: dns.RR_Header{Name: c.name, Rrtype: dns.TypeNS, Class: dns.ClassINET, Ttl: 3600}, Ns: c.nsHost})
			if len(c.ds) > 0 {
				m.Ns = append(m.Ns, s.sign(z, c.ds)...)
			} else if z.nsec3 && !z.inChain(cn) {
				m.Ns = append(m.Ns, s.denyAbsent(z, cn, false)...)
			} else {
				m.Ns = append(m.Ns, s.nsec(z, cn)...)
			}
			m.Extra = append(m.Extra, &dns.A{Hdr: dns.RR_Header{Name: c.nsHost, Rrtype: dns.TypeA, Class: dns.ClassINET, Ttl: 3600}, A: c.glue})
			if s.tamper != nil {
				s.tamper(s, z, q, m)
			}
			return m
		}
	}
	m.Authoritative = true
	switch {
	case q.Qtype == dns.TypeDS && z.cuts[qn] != nil:
		if c := z.cuts[qn]; len(c.ds) > 0 {
			m.Answer = s.sign(z, c.ds)
		} else if z.nsec3 && !z.inChain(qn) {
			m.Ns = append(s.soa(z), s.denyAbsent(z, qn, false)...)
		} else {
			m.Ns = append(s.soa(z), s.nsec(z, qn)...)
		}
	case len(z.get(qn, q.Qtype)) > 0:
		m.Answer = s.sign(z, z.get(qn, q.Qtype))
	case len(z.get(qn, dns.TypeCNAME)) > 0:
		m.Answer = s.sign(z, z.get(qn, dns.TypeCNAME))
	case z.exists(qn):
		m.Ns = append(s.soa(z), s.nsec(z, qn)...)
	default:
		// DNAME above?
		labels := dns.SplitDomainName(qn)
		done := false
		for i := 1; i < len(labels) && !done; i++ {
			anc := strings.Join(labels[i:], ".") + "."
			if !dns.IsSubDomain(z.name, anc) {
				break
			}
			if d := z.get(anc, dns.TypeDNAME); len(d) > 0 {
				target := strings.Join(labels[:i], ".") + "." + d[0].(*dns.DNAME).Target
				m.Answer = s.sign(z, d)
				m.Answer = append(m.Answer, &dns.CNAME{Hdr: dns.RR_Header{Name: q.Name, Rrtype: dns.TypeCNAME, Class: dns.ClassINET, Ttl: 300}, Target: target})
				done = true
			}
		}
		if done {
			break
		}
		// closest encloser and wildcard
		ce := z.name
		for i := 1; i < len(labels); i++ {
			anc := strings.Join(labels[i:], ".") + "."
			if dns.IsSubDomain(z.name, anc) && z.exists(anc) {
				ce = anc
				break
			}
		}
		wc := "*." + ce
		if ce == "." {
			wc = "*."
		}
		if set := z.get(wc, q.Qtype); len(set) > 0 {
			signed := s.sign(z, set)
			for _, rr := range signed {
				c := dns.Copy(rr)
				c.Header().Name = q.Name
				m.Answer = append(m.Answer, c)
			}
			if z.nsec3 {
				_, nc := z.encloser(qn)
				m.Ns = s.nsec(z, nc)
			} else {
				m.Ns = s.nsec(z, qn)
			}
		} else {
			m.Rcode = dns.RcodeNameError
			m.Ns = append(s.soa(z), s.denyAbsent(z, qn, true)...)
		}
	}
	if s.tamper != nil {
		s.tamper(s, z, q, m)
	}
	return m
}

func vC01StartServer(t *testing.T, w *vC01W, glue net.IP) (*vC01LServer, bool) {
	pc, err := net.ListenPacket("udp", "127.0.0.1:0")
	if err != nil {
		return nil, false
	}
	s := &vC01LServer{w: w, glue: glue, addr: pc.LocalAddr().String()}
	mux := dns.NewServeMux()
	mux.HandleFunc(".", func(rw dns.ResponseWriter, r *dns.Msg) {
		if len(r.Question) != 1 {
			return
		}
		s.mu.Lock()
		s.asked++
		m := s.reply(r)
		s.mu.Unlock()
		if opt := r.IsEdns0(); opt != nil {
			m.SetEdns0(4096, opt.Do())
			if !opt.Do() {
				m.Answer, m.Ns = vC01StripSigs(m.Answer), vC01StripSigs(m.Ns)
			}
		}
		_ = rw.WriteMsg(m)
	})
	srv := &dns.Server{Net: "udp", PacketConn: pc, Handler: mux}
	started := make(chan struct{})
	srv.NotifyStartedFunc = func() { close(started) }
	go func() { _ = srv.ActivateAndServe() }()
	select {
	case <-started:
	case <-time.After(3 * time.Second):
		return nil, false
	}
	s.stop = func() { _ = srv.Shutdown() }
	t.Cleanup(s.stop)
	return s, true
}

// ---- topologies ----

type vC01Lab struct {
	w       *vC01W
	servers []*vC01LServer
	zones   map[string]*vC01LZone
	root    *vC01LZone
	attKey  map[string]*vC01Key
}

func (l *vC01Lab) newZone(name string, signed bool) *vC01LZone {
	z := &vC01LZone{name: name, signed: signed, rr: map[string][]dns.RR{}, cuts: map[string]*vC01LCut{}}
	z.ksk, z.zsk = l.w.newKey(name, 257, dns.ED25519), l.w.newKey(name, 256, dns.ED25519)
	sub := func(lb string) string {
		if name == "." {
			return lb + "."
		}
		return lb + "." + name
	}
	z.add(&dns.SOA{Hdr: dns.RR_Header{Name: name, Rrtype: dns.TypeSOA, Class: dns.ClassINET, Ttl: 300}, Ns: sub("ns"), Mbox: sub("h"), Serial: 1, Refresh: 3600, Retry: 600, Expire: 86400, Minttl: 60})
	z.add(&dns.NS{Hdr: dns.RR_Header{Name: name, Rrtype: dns.TypeNS, Class: dns.ClassINET, Ttl: 3600}, Ns: sub("ns")})
	if signed {
		z.add(z.ksk.key, z.zsk.key)
	}
	l.zones[strings.ToLower(name)] = z
	return z
}

func (l *vC01Lab) populate(z *vC01LZone) {
	sub := func(lb string) string { return lb + "." + z.name }
	z.add(&dns.A{Hdr: dns.RR_Header{Name: sub("www"), Rrtype: dns.TypeA, Class: dns.ClassINET, Ttl: 300}, A: net.IPv4(192, 0, 2, 80).To4()},
		&dns.A{Hdr: dns.RR_Header{Name: sub("www"), Rrtype: dns.TypeA, Class: dns.ClassINET, Ttl: 300}, A: net.IPv4(192, 0, 2, 81).To4()})
	z.add(&dns.CNAME{Hdr: dns.RR_Header{Name: sub("alias"), Rrtype: dns.TypeCNAME, Class: dns.ClassINET, Ttl: 300}, Target: sub("www")})
	z.add(&dns.A{Hdr: dns.RR_Header{Name: sub("*.wild"), Rrtype: dns.TypeA, Class: dns.ClassINET, Ttl: 300}, A: net.IPv4(192, 0, 2, 90).To4()})
	z.add(&dns.A{Hdr: dns.RR_Header{Name: sub("real.wild"), Rrtype: dns.TypeA, Class: dns.ClassINET, Ttl: 300}, A: net.IPv4(192, 0, 2, 95).To4()})
	z.add(&dns.DNAME{Hdr: dns.RR_Header{Name: sub("dn"), Rrtype: dns.TypeDNAME, Class: dns.ClassINET, Ttl: 300}, Target: sub("tgt")})
	z.add(&dns.A{Hdr: dns.RR_Header{Name: sub("x.tgt"), Rrtype: dns.TypeA, Class: dns.ClassINET, Ttl: 300}, A: net.IPv4(192, 0, 2, 91).To4()})
}

// delegate child from parent; srv serves child; how = "secure" | "insecure" | "wrongds"
func (l *vC01Lab) delegate(parent, child *vC01LZone, srv *vC01LServer, how string) {
	c := &vC01LCut{name: child.name, nsHost: "ns." + child.name, glue: srv.glue}
	switch how {
	case "secure":
		c.ds = []dns.RR{l.w.ds(child.ksk.key, dns.SHA256)}
	case "wrongds":
		other := l.w.newKey(child.name, 257, dns.ED25519)
		c.ds = []dns.RR{l.w.ds(other.key, dns.SHA256)}
	}
	parent.cuts[strings.ToLower(child.name)] = c
	child.add(&dns.A{Hdr: dns.RR_Header{Name: "ns." + child.name, Rrtype: dns.TypeA, Class: dns.ClassINET, Ttl: 3600}, A: srv.glue.To4()})
	child.secure = parent.secure && how == "secure" && child.signed
	if how == "wrongds" {
		child.secure = parent.secure // the name IS under a signed chain; only SERVFAIL is acceptable
	}
}

func (l *vC01Lab) host(srv *vC01LServer, zs ...*vC01LZone) {
	srv.zones = append(srv.zones, zs...)
	// a zone served together with its parent is not a cut the server refers across
	for _, p := range srv.zones {
		for cn := range p.cuts {
			if srv.hosted(cn) != nil {
				// keep the cut data (DS / NSEC bits) but answer authoritatively: zoneFor picks the child first
				_ = cn
			}
		}
	}
}

// ---- the pipeline under test ----

type vC01Pipe struct {
	p   *middleware.Pipeline
	res *DNSHandler
}

func vC01NewPipe(lab *vC01Lab, anchor bool) *vC01Pipe {
	cfg := new(config.Config)
	cfg.RootServers = []string{lab.servers[0].addr}
	cfg.DNSSEC = "on"
	cfg.Directory = os.Getenv("VERIF_SCRATCH")
	cfg.Maxdepth = 30
	cfg.Expire = 600
	cfg.CacheSize = 4096
	cfg.Timeout.Duration = 1500 * time.Millisecond
	cfg.QueryTimeout.Duration = 8 * time.Second
	cfg.IPv6Access = false
	if anchor {
		cfg.RootKeys = []string{lab.root.ksk.key.String()}
	}
	reg := middleware.NewRegistry()
	reg.Register("edns", func(c *config.Config) middleware.Handler { return edns.New(c) })
	reg.Register("cache", func(c *config.Config) middleware.Handler { return cache.New(c) })
	reg.Register("resolver", func(c *config.Config) middleware.Handler { return New(c) })
	p := reg.Build(cfg)
	ch := p.Get("cache").(*cache.Cache)
	rh := p.Get("resolver").(*DNSHandler)
	// what Pipeline.autoWire does
	q := middleware.NewPipelineQueryer(p.SubPipeline())
	pq := middleware.NewPipelineQueryer(p.SubPipeline("cache"))
	ch.SetQueryer(q)
	ch.SetPrefetchQueryer(pq)
	ch.SetDNSSECCryptoLimiter(rh.DNSSECCryptoLimiter())
	rh.SetQueryer(q)
	rh.SetStore(ch.Store())
	byGlue := map[string]string{}
	for _, s := range lab.servers {
		byGlue[net.JoinHostPort(s.glue.String(), "53")] = s.addr
	}
	mapper := func(addr string) string {
		if t, ok := byGlue[addr]; ok {
			return t
		}
		return addr
	}
	rh.resolver.resolveTarget.Store(&mapper)
	return &vC01Pipe{p: p, res: rh}
}

func (pp *vC01Pipe) ask(qname string, qtype uint16, do, cd, ad, ednsOn bool) *dns.Msg {
	req := new(dns.Msg)
	req.SetQuestion(qname, qtype)
	req.RecursionDesired = true
	req.CheckingDisabled = cd
	req.AuthenticatedData = ad
	if ednsOn {
		req.SetEdns0(dnsutil.DefaultMsgSize, do)
	}
	w := mock.NewWriter("tcp", "192.0.2.250:5353")
	ch := pp.p.NewChain()
	ch.Reset(w, req)
	ctx, cancel := context.WithTimeout(context.Background(), 10*time.Second)
	defer cancel()
	ch.Next(ctx)
	m := w.Msg()
	pp.p.PutChain(ch)
	return m
}

// ---- scenarios ----

type vC01Scn struct {
	topo   string
	qname  string
	qtype  uint16
	expect int    // rcode the zone data dictates
	owner  string // zone the (final) answer lives in
	tamper string
}

func vC01BuildLab(t *testing.T, r *rand.Rand, topo string) (*vC01Lab, bool) {
	lab := &vC01Lab{w: vC01NewW(r), zones: map[string]*vC01LZone{}, attKey: map[string]*vC01Key{}}
	mk := func(i int) (*vC01LServer, bool) {
		s, ok := vC01StartServer(t, lab.w, net.IPv4(192, 0, 2, byte(10+i)))
		if ok {
			lab.servers = append(lab.servers, s)
		}
		return s, ok
	}
	s0, ok0 := mk(0)
	s1, ok1 := mk(1)
	s2, ok2 := mk(2)
	s3, ok3 := mk(3)
	if !(ok0 && ok1 && ok2 && ok3) {
		return nil, false
	}
	root := lab.newZone(".", true)
	root.secure = true
	lab.root = root
	lab.host(s0, root)
	tld := lab.newZone("tld.", true)
	lab.populate(tld)
	switch topo {
	case "separate": // . -> tld. -> zone.tld., one server each, all signed
		zone := lab.newZone("zone.tld.", true)
		lab.populate(zone)
		lab.delegate(root, tld, s1, "secure")
		lab.delegate(tld, zone, s2, "secure")
		lab.host(s1, tld)
		lab.host(s2, zone)
	case "insecure-child": // zone.tld. unsigned, no DS, proven by NSEC
		zone := lab.newZone("zone.tld.", false)
		lab.populate(zone)
		lab.delegate(root, tld, s1, "secure")
		lab.delegate(tld, zone, s2, "insecure")
		lab.host(s1, tld)
		lab.host(s2, zone)
	case "wrongds":
		zone := lab.newZone("zone.tld.", true)
		lab.populate(zone)
		lab.delegate(root, tld, s1, "secure")
		lab.delegate(tld, zone, s2, "wrongds")
		lab.host(s1, tld)
		lab.host(s2, zone)
	case "shared-secure": // tld. and zone.tld. on ONE server, both signed, DS published
		zone := lab.newZone("zone.tld.", true)
		lab.populate(zone)
		lab.delegate(root, tld, s1, "secure")
		lab.delegate(tld, zone, s1, "secure")
		lab.host(s1, tld, zone)
	case "shared-insecure": // tld. signed and zone.tld. unsigned on ONE server
		zone := lab.newZone("zone.tld.", false)
		lab.populate(zone)
		lab.delegate(root, tld, s1, "secure")
		lab.delegate(tld, zone, s1, "insecure")
		lab.host(s1, tld, zone)
	case "nsec3": // hashed denial in the leaf zone
		zone := lab.newZone("zone.tld.", true)
		zone.nsec3 = true
		lab.populate(zone)
		lab.delegate(root, tld, s1, "secure")
		lab.delegate(tld, zone, s2, "secure")
		lab.host(s1, tld)
		lab.host(s2, zone)
	case "nsec3-optout": // tld. denies with Opt-Out NSEC3; zone.tld. is an insecure delegation left out of the chain; sec.tld. is secure
		tld.nsec3, tld.optout = true, true
		zone := lab.newZone("zone.tld.", false)
		lab.populate(zone)
		sec := lab.newZone("sec.tld.", true)
		lab.populate(sec)
		lab.delegate(root, tld, s1, "secure")
		lab.delegate(tld, zone, s2, "insecure")
		lab.delegate(tld, sec, s3, "secure")
		lab.host(s1, tld)
		lab.host(s2, zone)
		lab.host(s3, sec)
	case "shared-island": // ONE server: tld. signed, zone.tld. INSECURE, sub.zone.tld. signed with its DS in the unsigned zone
		zone := lab.newZone("zone.tld.", false)
		lab.populate(zone)
		subz := lab.newZone("sub.zone.tld.", true)
		lab.populate(subz)
		lab.delegate(root, tld, s1, "secure")
		lab.delegate(tld, zone, s1, "insecure")
		lab.delegate(zone, subz, s1, "secure")
		subz.secure = false
		lab.host(s1, tld, zone, subz)
	}
	_ = s3
	return lab, true
}

// attacker material: a key pair claiming the zone's name
func (l *vC01Lab) attacker(zone string, flags uint16) *vC01Key {
	k := zone + fmt.Sprint(flags)
	if l.attKey[k] == nil {
		l.attKey[k] = l.w.newKey(zone, flags, dns.ED25519)
	}
	return l.attKey[k]
}

func (l *vC01Lab) forgeWith(k *vC01Key, set []dns.RR) []dns.RR {
	now := uint32(time.Now().Unix())
	plain := vC01StripSigs(set)
	if len(plain) == 0 {
		return set
	}
	sig, err := l.w.sign(k, plain, now-3600, now+3600)
	if err != nil {
		return plain
	}
	return append(plain, sig)
}

const vC01Forged = "203.0.113.66"

// install the tamper script on the lab's servers; returns false when it does not apply to the topology
func (l *vC01Lab) install(kind, target string) bool {
	tz := l.zones[strings.ToLower(target)]
	forgeA := func(m *dns.Msg) bool {
		hit := false
		for i, rr := range m.Answer {
			if a, ok := rr.(*dns.A); ok && !strings.HasPrefix(a.Hdr.Name, "ns.") {
				c := dns.Copy(a).(*dns.A)
				c.A = net.ParseIP(vC01Forged).To4()
				m.Answer[i] = c
				hit = true
			}
		}
		return hit
	}
	var f func(s *vC01LServer, z *vC01LZone, q dns.Question, m *dns.Msg)
	switch kind {
	case "none":
		return true
	case "strip-sigs":
		f = func(s *vC01LServer, z *vC01LZone, q dns.Question, m *dns.Msg) {
			if z == tz && q.Qtype != dns.TypeDNSKEY && q.Qtype != dns.TypeDS && q.Qtype != dns.TypeNS && !strings.HasPrefix(q.Name, "ns.") {
				m.Answer, m.Ns = vC01StripSigs(m.Answer), vC01StripSigs(m.Ns)
			}
		}
	case "alter-a":
		f = func(s *vC01LServer, z *vC01LZone, q dns.Question, m *dns.Msg) {
			if z == tz {
				forgeA(m)
			}
		}
	case "expired":
		for _, s := range l.servers {
			if s.hosted(target) != nil {
				s.expire = true
			}
		}
		return true
	case "signer-name", "bitflip", "labels":
		f = func(s *vC01LServer, z *vC01LZone, q dns.Question, m *dns.Msg) {
			if z != tz || q.Qtype == dns.TypeDNSKEY || q.Qtype == dns.TypeDS || strings.HasPrefix(q.Name, "ns.") {
				return
			}
			for _, rr := range append(append([]dns.RR{}, m.Answer...), m.Ns...) {
				if sg, ok := rr.(*dns.RRSIG); ok {
					switch kind {
					case "signer-name":
						sg.SignerName = "tld."
						if strings.EqualFold(tz.name, "tld.") {
							sg.SignerName = "."
						}
					case "bitflip":
						sg.Signature = vC01FlipSig(rand.New(rand.NewSource(1)), sg.Signature)
					case "labels":
						sg.Labels--
					}
				}
			}
		}
	case "alter-a-sig-alg", "sig-alg": // the genuine RRSIGs' algorithm octet rewritten to one no validator implements; data altered / left alone
		f = func(s *vC01LServer, z *vC01LZone, q dns.Question, m *dns.Msg) {
			if z != tz || q.Qtype == dns.TypeDNSKEY || q.Qtype == dns.TypeDS || strings.HasPrefix(q.Name, "ns.") {
				return
			}
			if kind == "alter-a-sig-alg" {
				forgeA(m)
			}
			for _, sec := range [][]dns.RR{m.Answer, m.Ns} {
				for i, rr := range sec {
					if sg, ok := rr.(*dns.RRSIG); ok {
						c := dns.Copy(sg).(*dns.RRSIG)
						c.Algorithm = dns.RSAMD5
						sec[i] = c
					}
				}
			}
		}
	case "bare-nxdomain", "bare-nodata": // the zone's answers replaced by a denial that brings nothing: no SOA, no NSEC / NSEC3, no signature
		f = func(s *vC01LServer, z *vC01LZone, q dns.Question, m *dns.Msg) {
			if z != tz || q.Qtype == dns.TypeDNSKEY || q.Qtype == dns.TypeDS || q.Qtype == dns.TypeNS || strings.HasPrefix(strings.ToLower(q.Name), "ns.") {
				return
			}
			m.Answer, m.Ns, m.Extra = nil, nil, nil
			m.Rcode = dns.RcodeNameError
			if kind == "bare-nodata" {
				m.Rcode = dns.RcodeSuccess
			}
		}
	case "ds-sig-alg": // downgrade: the signature over the target's DS (or over its denial) claims an unimplemented algorithm; below the cut data is forged, unsigned
		f = func(s *vC01LServer, z *vC01LZone, q dns.Question, m *dns.Msg) {
			if z != tz {
				for _, sec := range [][]dns.RR{m.Answer, m.Ns} {
					for i, rr := range sec {
						if sg, ok := rr.(*dns.RRSIG); ok && strings.EqualFold(sg.Hdr.Name, target) && (sg.TypeCovered == dns.TypeDS || sg.TypeCovered == dns.TypeNSEC) {
							c := dns.Copy(sg).(*dns.RRSIG)
							c.Algorithm = dns.RSAMD5
							sec[i] = c
						}
					}
				}
				return
			}
			if q.Qtype != dns.TypeDNSKEY && forgeA(m) {
				m.Answer = vC01StripSigs(m.Answer)
			}
		}
	case "forged-untrusted-key": // data rewritten and signed by a key that only claims the zone's name
		ak := l.attacker(target, 256)
		f = func(s *vC01LServer, z *vC01LZone, q dns.Question, m *dns.Msg) {
			if z == tz && forgeA(m) {
				m.Answer = l.forgeWith(ak, m.Answer)
			}
		}
	case "dnskey-extra-key": // F10: attacker key rides in the DNSKEY RRset, which it signs itself; data forged under it
		ak := l.attacker(target, 256)
		f = func(s *vC01LServer, z *vC01LZone, q dns.Question, m *dns.Msg) {
			if z != tz {
				return
			}
			if q.Qtype == dns.TypeDNSKEY && strings.EqualFold(q.Name, tz.name) {
				m.Answer = l.forgeWith(ak, append(vC01StripSigs(m.Answer), ak.key))
				return
			}
			if forgeA(m) {
				m.Answer = l.forgeWith(ak, m.Answer)
			}
		}
	case "ds-swap": // the DS handed down for the target is the attacker's (unsigned); the child then speaks with the attacker's key
		ak := l.attacker(target, 257)
		f = func(s *vC01LServer, z *vC01LZone, q dns.Question, m *dns.Msg) {
			swap := func(sec []dns.RR) []dns.RR {
				var out []dns.RR
				had := false
				for _, rr := range sec {
					if d, ok := rr.(*dns.DS); ok && strings.EqualFold(d.Hdr.Name, target) {
						had = true
						continue
					}
					if sg, ok := rr.(*dns.RRSIG); ok && sg.TypeCovered == dns.TypeDS && strings.EqualFold(sg.Hdr.Name, target) {
						continue
					}
					out = append(out, rr)
				}
				if had {
					out = append(out, l.w.ds(ak.key, dns.SHA256))
				}
				return out
			}
			m.Answer, m.Ns = swap(m.Answer), swap(m.Ns)
			if z == tz {
				if q.Qtype == dns.TypeDNSKEY && strings.EqualFold(q.Name, tz.name) {
					m.Answer = l.forgeWith(ak, []dns.RR{ak.key})
				} else if forgeA(m) {
					m.Answer = l.forgeWith(ak, m.Answer)
				}
			}
		}
	case "ds-drop": // referral / DS answer for the target loses DS and any denial: the child looks unsigned; data forged unsigned
		f = func(s *vC01LServer, z *vC01LZone, q dns.Question, m *dns.Msg) {
			drop := func(sec []dns.RR) []dns.RR {
				var out []dns.RR
				for _, rr := range sec {
					h := rr.Header()
					if strings.EqualFold(h.Name, target) && (h.Rrtype == dns.TypeDS || h.Rrtype == dns.TypeNSEC || h.Rrtype == dns.TypeRRSIG) {
						continue
					}
					out = append(out, rr)
				}
				return out
			}
			if z != tz {
				m.Answer, m.Ns = drop(m.Answer), drop(m.Ns)
				return
			}
			if q.Qtype != dns.TypeDNSKEY && forgeA(m) {
				m.Answer = vC01StripSigs(m.Answer)
			}
		}
	case "nsec-drop":
		f = func(s *vC01LServer, z *vC01LZone, q dns.Question, m *dns.Msg) {
			if z != tz || len(m.Answer) > 0 {
				return
			}
			var out []dns.RR
			for _, rr := range m.Ns {
				if t := rr.Header().Rrtype; t == dns.TypeNSEC || t == dns.TypeNSEC3 {
					continue
				}
				if sg, ok := rr.(*dns.RRSIG); ok && (sg.TypeCovered == dns.TypeNSEC || sg.TypeCovered == dns.TypeNSEC3) {
					continue
				}
				out = append(out, rr)
			}
			m.Ns = out
		}
	case "nxdomain-suffix-sibling-nsec":
		// an existing name denied with the zone's genuine SOA (replayable) and UNSIGNED NSECs of made-up sibling names whose
		// presentation ENDS with the zone's name off a label boundary ("0zone.tld." -> "zzzone.tld." around "zone.tld.", and
		// "!zone.tld." -> "+zone.tld." over the wildcard "*.tld." of the closest encloser the span implies): records outside
		// the zone by labels, inside it for a textual suffix test; nobody ever signed or verified them
		labels := dns.SplitDomainName(target)
		if tz == nil || len(labels) < 2 {
			return false
		}
		rest := strings.Join(labels[1:], ".") + "."
		span := func(lo, hi string) dns.RR {
			return &dns.NSEC{Hdr: dns.RR_Header{Name: lo + labels[0] + "." + rest, Rrtype: dns.TypeNSEC, Class: dns.ClassINET, Ttl: 60},
				NextDomain: hi + labels[0] + "." + rest, TypeBitMap: []uint16{dns.TypeA, dns.TypeRRSIG, dns.TypeNSEC}}
		}
		f = func(s *vC01LServer, z *vC01LZone, q dns.Question, m *dns.Msg) {
			if z == tz && q.Qtype == dns.TypeA && strings.HasPrefix(strings.ToLower(q.Name), "www.") {
				m.Answer = nil
				m.Rcode = dns.RcodeNameError
				m.Ns = append(s.soa(z), span("0", "zz"), span("!", "+"))
			}
		}
	case "ds-denial-forged-extra-key":
		// a combined downgrade: the referral to the target loses its DS and every signature; "target DS" is answered NODATA
		// with the parent's SOA and an NSEC at the cut signed by an attacker's key that claims the parent's name; that key
		// rides in the parent's DNSKEY answer next to the genuine keys (whose signature no longer covers the set); below the
		// cut the data is altered and unsigned. Each step alone ends in SERVFAIL.
		var pz *vC01LZone
		for _, z := range l.zones {
			if z.cuts[strings.ToLower(target)] != nil {
				pz = z
			}
		}
		if pz == nil || tz == nil || !pz.signed {
			return false
		}
		ak := l.attacker(pz.name, 256)
		f = func(s *vC01LServer, z *vC01LZone, q dns.Question, m *dns.Msg) {
			if q.Qtype == dns.TypeDNSKEY && strings.EqualFold(q.Name, pz.name) && len(m.Answer) > 0 {
				m.Answer = append(m.Answer, ak.key)
				return
			}
			if q.Qtype == dns.TypeDS && strings.EqualFold(q.Name, target) {
				m.Answer, m.Rcode = nil, dns.RcodeSuccess
				cut := &dns.NSEC{Hdr: dns.RR_Header{Name: tz.name, Rrtype: dns.TypeNSEC, Class: dns.ClassINET, Ttl: 60},
					NextDomain: "zzz." + pz.name, TypeBitMap: []uint16{dns.TypeNS, dns.TypeRRSIG, dns.TypeNSEC}}
				if pz.name == "." {
					cut.NextDomain = "zzz."
				}
				m.Ns = append(l.forgeWith(ak, s.soa(pz)), l.forgeWith(ak, []dns.RR{cut})...)
				return
			}
			if z != tz {
				// the referral (or the shared server's answer section) loses the target's DS, its denial and every signature
				var out []dns.RR
				for _, rr := range m.Ns {
					h := rr.Header()
					if h.Rrtype == dns.TypeRRSIG || (strings.EqualFold(h.Name, target) && (h.Rrtype == dns.TypeDS || h.Rrtype == dns.TypeNSEC || h.Rrtype == dns.TypeNSEC3)) || h.Rrtype == dns.TypeNSEC3 {
						continue
					}
					out = append(out, rr)
				}
				if len(m.Answer) == 0 {
					m.Ns = out
				}
				return
			}
			if q.Qtype != dns.TypeDNSKEY && forgeA(m) {
				m.Answer = vC01StripSigs(m.Answer)
				m.Ns = vC01StripSigs(m.Ns)
			}
		}
	case "nxdomain-forged": // an existing name denied with the zone's genuine apex records
		f = func(s *vC01LServer, z *vC01LZone, q dns.Question, m *dns.Msg) {
			if z == tz && q.Qtype == dns.TypeA && strings.HasPrefix(strings.ToLower(q.Name), "www.") {
				m.Answer = nil
				m.Rcode = dns.RcodeNameError
				m.Ns = append(s.soa(z), s.nsec(z, z.name)...)
			}
		}
	case "wildcard-replay", "wildcard-replay-decoy", "wildcard-replay-foreign-nsec", "wildcard-replay-parent-nsec", "wildcard-replay-foreign-nsec3", "wildcard-replay-straddling-nsec":
		// a name that exists is answered with the zone's genuine wildcard RRset and RRSIG, no next-closer denial of the zone's
		// own; the -foreign-/-parent-/-straddling- variants pad the authority section with a span over qname that is NOT the
		// zone's: owned just outside it (unsigned, signed by the parent, hashed) or pointing out of it
		var pz *vC01LZone
		for _, z := range l.zones {
			if z.cuts[strings.ToLower(target)] != nil {
				pz = z
			}
		}
		lo, hi := vC01Siblings(target)
		if lo == "" && kind != "wildcard-replay" && kind != "wildcard-replay-decoy" {
			return false
		}
		f = func(s *vC01LServer, z *vC01LZone, q dns.Question, m *dns.Msg) {
			defer func() {
				if z != tz || q.Qtype != dns.TypeA || !strings.HasPrefix(strings.ToLower(q.Name), "real.wild.") {
					return
				}
				span := &dns.NSEC{Hdr: dns.RR_Header{Name: lo, Rrtype: dns.TypeNSEC, Class: dns.ClassINET, Ttl: 60}, NextDomain: hi, TypeBitMap: []uint16{dns.TypeA, dns.TypeRRSIG, dns.TypeNSEC}}
				switch kind {
				case "wildcard-replay-foreign-nsec":
					m.Ns = []dns.RR{span}
				case "wildcard-replay-parent-nsec":
					m.Ns = []dns.RR{span}
					if pz != nil && pz.signed && dns.IsSubDomain(pz.name, lo) {
						m.Ns = s.sign(pz, []dns.RR{span})
					}
				case "wildcard-replay-foreign-nsec3":
					h := vC01H(q.Name)
					m.Ns = []dns.RR{&dns.NSEC3{Hdr: dns.RR_Header{Name: vC01HashMinus(h) + "." + lo, Rrtype: dns.TypeNSEC3, Class: dns.ClassINET, Ttl: 60}, Hash: dns.SHA1, Iterations: 0, SaltLength: 0, Salt: "", HashLength: 20,
						NextDomain: vC01HashPlus(h), TypeBitMap: []uint16{dns.TypeA, dns.TypeRRSIG}}}
				case "wildcard-replay-straddling-nsec":
					span.Hdr.Name = "a." + z.name
					m.Ns = []dns.RR{span}
				}
			}()
			if z != tz || q.Qtype != dns.TypeA || !strings.HasPrefix(strings.ToLower(q.Name), "real.wild.") {
				return
			}
			signed := s.sign(z, z.get("*.wild."+z.name, dns.TypeA))
			m.Answer, m.Ns = nil, nil
			for _, rr := range signed {
				c := dns.Copy(rr)
				c.Header().Name = q.Name
				if sg, ok := c.(*dns.RRSIG); ok && kind == "wildcard-replay-decoy" {
					d := dns.Copy(sg).(*dns.RRSIG)
					d.Labels = uint8(dns.CountLabel(q.Name))
					d.Signature = vC01FlipSig(rand.New(rand.NewSource(2)), d.Signature)
					m.Answer = append(m.Answer, d)
				}
				m.Answer = append(m.Answer, c)
			}
		}
	case "parent-denial-nxdomain", "parent-denial-nodata": // a denial in the PARENT's name, built from the parent's genuine SOA and its NSEC at the cut
		var pz *vC01LZone
		for _, z := range l.zones {
			if z.cuts[strings.ToLower(target)] != nil {
				pz = z
			}
		}
		if pz == nil || tz == nil {
			return false
		}
		f = func(s *vC01LServer, z *vC01LZone, q dns.Question, m *dns.Msg) {
			if z != tz || q.Qtype == dns.TypeDNSKEY || q.Qtype == dns.TypeDS || q.Qtype == dns.TypeNS || strings.HasPrefix(strings.ToLower(q.Name), "ns.") {
				return
			}
			atCut := strings.EqualFold(q.Name, tz.name)
			if (kind == "parent-denial-nodata") != atCut {
				return
			}
			m.Answer = nil
			m.Rcode = dns.RcodeSuccess
			if !atCut {
				m.Rcode = dns.RcodeNameError
			}
			m.Ns = append(s.soa(pz), s.nsec(pz, tz.name)...)
		}
	case "inject-foreign":
		f = func(s *vC01LServer, z *vC01LZone, q dns.Question, m *dns.Msg) {
			if z == tz && len(m.Answer) > 0 && q.Qtype == dns.TypeA {
				m.Answer = append(m.Answer, &dns.A{Hdr: dns.RR_Header{Name: "www.elsewhere.", Rrtype: dns.TypeA, Class: dns.ClassINET, Ttl: 300}, A: net.ParseIP(vC01Forged).To4()})
			}
		}
	case "island-hijack": // F9 attack: below the insecure cut everything is the attacker's: DS, DNSKEY and data of the island
		ak := l.attacker(target, 257)
		f = func(s *vC01LServer, z *vC01LZone, q dns.Question, m *dns.Msg) {
			if q.Qtype == dns.TypeDS && strings.EqualFold(q.Name, target) {
				m.Answer, m.Ns = []dns.RR{l.w.ds(ak.key, dns.SHA256)}, nil
				m.Rcode = dns.RcodeSuccess
				return
			}
			if z != tz {
				return
			}
			if q.Qtype == dns.TypeDNSKEY && strings.EqualFold(q.Name, tz.name) {
				m.Answer = l.forgeWith(ak, []dns.RR{ak.key})
			} else if forgeA(m) {
				m.Answer = l.forgeWith(ak, m.Answer)
			}
		}
	default:
		return false
	}
	if tz == nil {
		return false
	}
	for _, s := range l.servers {
		s.tamper = f
	}
	return true
}

func vC01HasEDE(m *dns.Msg) bool {
	opt := m.IsEdns0()
	if opt == nil {
		return false
	}
	for _, o := range opt.Option {
		if _, ok := o.(*dns.EDNS0_EDE); ok {
			return true
		}
	}
	return false
}

// dataOK: every record of the reply is what the generated zones hold for that owner and type
func (l *vC01Lab) dataOK(m *dns.Msg, scn vC01Scn) bool {
	if m.Rcode != dns.RcodeSuccess && m.Rcode != dns.RcodeNameError {
		return true // nothing served
	}
	if m.Rcode != scn.expect {
		return false
	}
	for _, rr := range m.Answer {
		h := rr.Header()
		if h.Rrtype == dns.TypeRRSIG {
			continue
		}
		ok := false
		for _, z := range l.zones {
			cands := z.get(h.Name, h.Rrtype)
			// wildcard source, for a name the zone does not hold
			labels := dns.SplitDomainName(h.Name)
			if !(dns.IsSubDomain(z.name, h.Name) && z.exists(h.Name)) {
				for i := 1; i < len(labels); i++ {
					cands = append(cands, z.get("*."+strings.Join(labels[i:], ".")+".", h.Rrtype)...)
				}
			}
			for _, c := range cands {
				if strings.TrimPrefix(c.String(), c.Header().String()) == strings.TrimPrefix(rr.String(), h.String()) {
					ok = true
				}
			}
			// CNAME synthesised from a DNAME of the zone
			if c, isC := rr.(*dns.CNAME); isC {
				for i := 1; i < len(labels); i++ {
					anc := strings.Join(labels[i:], ".") + "."
					if d := z.get(anc, dns.TypeDNAME); len(d) > 0 && strings.EqualFold(c.Target, strings.Join(labels[:i], ".")+"."+d[0].(*dns.DNAME).Target) {
						ok = true
					}
				}
			}
		}
		if !ok {
			return false
		}
	}
	if scn.expect == dns.RcodeSuccess && (scn.qtype == dns.TypeA || scn.qtype == dns.TypeSOA) && len(m.Answer) == 0 {
		return false // the data was withheld
	}
	return true
}

func TestVerifC01Lab(t *testing.T) {
	tr := vC01Open(t)
	vC01Quiet()
	seed := int64(vC01EnvInt("VERIF_SEED", 1))
	n := vC01EnvInt("VERIF_N", 48)
	r := rand.New(rand.NewSource(seed*31 + 3))
	type tq struct {
		q      string
		t      uint16
		expect int
	}
	queries := func(zone string) []tq {
		return []tq{{"www." + zone, dns.TypeA, 0}, {"alias." + zone, dns.TypeA, 0}, {"nx." + zone, dns.TypeA, 3}, {"www." + zone, dns.TypeAAAA, 0},
			{"foo.wild." + zone, dns.TypeA, 0}, {"x.dn." + zone, dns.TypeA, 0}, {"real.wild." + zone, dns.TypeA, 0}, {zone, dns.TypeSOA, 0}}
	}
	topos := []string{"separate", "separate", "insecure-child", "wrongds", "shared-secure", "shared-secure", "shared-insecure", "shared-island", "nsec3", "nsec3-optout"}
	tampers := []string{"none", "none", "strip-sigs", "alter-a", "expired", "signer-name", "bitflip", "labels", "forged-untrusted-key", "dnskey-extra-key",
		"ds-swap", "ds-drop", "nsec-drop", "nxdomain-forged", "inject-foreign", "island-hijack", "no-anchor", "wildcard-replay", "wildcard-replay-decoy", "parent-denial-nxdomain", "parent-denial-nodata",
		"wildcard-replay-foreign-nsec", "wildcard-replay-parent-nsec", "wildcard-replay-foreign-nsec3", "wildcard-replay-straddling-nsec",
		"alter-a-sig-alg", "sig-alg", "ds-sig-alg", "bare-nxdomain", "bare-nodata", "nxdomain-suffix-sibling-nsec", "ds-denial-forged-extra-key"}
	// a query asked ONCE on the same resolver before the question under test (DO=1, CD=0): another name and / or another
	// type, so that what the first walk leaves in the delegation and answer caches meets a different question. pre.t == 0: none
	type preQ struct {
		label string
		t     uint16
	}
	var pre preQ
	run := func(topo, tam, target string, q tq, origin string) {
		lab, ok := vC01BuildLab(t, r, topo)
		if !ok {
			tr.emit(map[string]any{"k": "lab-infra", "inconclusive": true, "desc": "bind failure"})
			return
		}
		anchor := tam != "no-anchor"
		if anchor && !lab.install(tam, target) {
			tam = "none"
		}
		if topo == "wrongds" && tam == "none" {
			tam = "wrong-ds-published"
		}
		pipe := vC01NewPipe(lab, anchor)
		scn := vC01Scn{topo: topo, qname: q.q, qtype: q.t, expect: q.expect, owner: target, tamper: tam}
		tz := lab.zones[strings.ToLower(target)]
		flagSets := [][4]bool{{true, false, false, true}, {true, false, false, true}, {false, false, false, true}, {true, true, false, true}, {false, false, true, false}, {false, false, false, false}}
		preTag := ""
		if pre.t != 0 {
			pn := target
			if pre.label != "" {
				pn = pre.label + "." + target
			}
			_ = pipe.ask(pn, pre.t, true, false, false, true)
			preTag = ":pre-" + pre.label + "-" + dns.TypeToString[pre.t]
		}
		for round, fl := range flagSets {
			do, cd, ad, ed := fl[0], fl[1], fl[2], fl[3]
			before := 0
			for _, s := range lab.servers {
				before += s.asked
			}
			m := pipe.ask(q.q, q.t, do, cd, ad, ed)
			if m == nil {
				tr.emit(map[string]any{"k": "lab-infra", "inconclusive": true, "desc": "no reply written"})
				continue
			}
			after := 0
			for _, s := range lab.servers {
				after += s.asked
			}
			timedOut := false
			if ede := dnsutil.GetEDE(m); ede != nil && (ede.InfoCode == dns.ExtendedErrorCodeNoReachableAuthority || ede.InfoCode == dns.ExtendedErrorCodeNetworkError) {
				timedOut = true
			}
			if timedOut {
				tr.emit(map[string]any{"k": "lab-infra", "inconclusive": true, "desc": "loopback exchange failed: " + m.String()})
				continue
			}
			dataOK := lab.dataOK(m, scn)
			adOptional := tz.optout && (q.expect == dns.RcodeNameError || strings.HasPrefix(q.q, "foo.wild."))
			g := fmt.Sprintf("(mk_labgt %s %s %d %s %s)", vC01Bool(tz.secure), vC01Bool(tam == "none"), q.expect, vC01Bool(anchor), vC01Bool(adOptional))
			b := fmt.Sprintf("(mk_labobs %s %s %s %s %d %s %s %s %s)", vC01Bool(cd), vC01Bool(do), vC01Bool(ad), vC01Bool(ed), m.Rcode,
				vC01Bool(m.AuthenticatedData), vC01Bool(vC01HasEDE(m)), vC01Bool(dataOK), vC01Bool(tz.secure))
			goFail := ""
			// a name inside a VALIDATED Opt-Out span (here: every name the Opt-Out zone does not hold — all its NSEC3 records
			// carry the flag) may be an unsigned delegation the chain leaves out (RFC 5155 §6): provenInsecureDelegation's DS
			// probe for it comes back with that signed, verified span, which IS the validated proof that no usable DS exists —
			// "chain secure" is false for such a name, an unauthenticated reply WITHOUT AD is allowed; AD on it stays forbidden
			if !cd && tz.secure && !adOptional && m.Rcode != dns.RcodeServerFailure && !dataOK {
				goFail = "altered data served to a validating client for a name under a signed chain"
			}
			// "missing its denial proof -> SERVFAIL": under a chain signed up to the anchor a denial reaches a validating
			// client only after authority() authenticated it, which a client that set DO or AD sees as the AD bit (a denial
			// resting on an Opt-Out span is the one exception)
			denial := m.Rcode == dns.RcodeNameError || (m.Rcode == dns.RcodeSuccess && len(m.Answer) == 0)
			if !cd && tz.secure && anchor && denial && (do || ad) && !adOptional && !m.AuthenticatedData && goFail == "" {
				goFail = "a denial nobody authenticated served to a validating client for a name under a signed chain"
			}
			// "a zone is treated as unsigned only on a validated proof": nothing was altered, the chain is signed up to the
			// anchor, the reply is what the zone holds — a client that asked for it must see AD
			if tam == "none" && !cd && tz.secure && anchor && (do || ad) && m.Rcode == q.expect && dataOK && !adOptional && !m.AuthenticatedData && goFail == "" {
				goFail = "a zone under a signed chain was treated as unsigned without any proof"
			}
			if m.AuthenticatedData && !(tz.secure && dataOK) {
				goFail = "AD set on a reply that is not authentic up to the trust anchor"
			}
			k := fmt.Sprintf("lab:%s:%s%s", topo, tam, preTag)
			if origin != "" {
				k = origin + ":" + k
			}
			if round > 0 && after == before {
				k += ":cached"
			}
			rec := map[string]any{"k": k, "coq": "CaseLab " + g + " " + b, "nontrivial": true,
				"desc": map[string]any{"topology": topo, "tamper": tam, "target": target, "query": fmt.Sprintf("%s %s", q.q, dns.TypeToString[q.t]), "do": do, "cd": cd, "ad_req": ad, "edns": ed,
					"rcode": dns.RcodeToString[m.Rcode], "ad": m.AuthenticatedData, "ede": vC01HasEDE(m), "answer": vC01Pres(m.Answer), "data_ok": dataOK, "zone_secure_in_truth": tz.secure, "upstream_queries": after - before, "asked_before": strings.TrimPrefix(preTag, ":pre-")}}
			if goFail != "" {
				rec["go_fail"] = goFail
			}
			tr.emit(rec)
		}
		for _, s := range lab.servers {
			s.stop()
		}
		pipe.res.Stop()
	}
	// corpus first: the scenarios of every finding and every seeded change this check caught
	if dir := os.Getenv("VERIF_CORPUS"); dir != "" {
		files, _ := filepath.Glob(filepath.Join(dir, "lab-*.json"))
		sort.Strings(files)
		for _, fn := range files {
			raw, err := os.ReadFile(fn)
			if err != nil {
				continue
			}
			var c struct {
				Topo, Tamper, Target, Query string
				Qtype                       uint16
				Expect                      int
				PreLabel                    string
				PreType                     uint16
			}
			if json.Unmarshal(raw, &c) != nil || c.Topo == "" {
				continue
			}
			pre = preQ{c.PreLabel, c.PreType}
			run(c.Topo, c.Tamper, c.Target, tq{c.Query, c.Qtype, c.Expect}, "corpus:"+filepath.Base(fn))
			pre = preQ{}
		}
	}
	// thorough tier: the full product topology x tamper script x question, instead of a sample of it
	exhaustive := os.Getenv("VERIF_TIER") == "thorough"
	nq := 8
	if exhaustive {
		n = len(topos) * len(tampers) * nq
	}
	for i := 0; i < n; i++ {
		topo := topos[i%len(topos)]
		tam := tampers[(i/len(topos)+i)%len(tampers)]
		if i < len(topos) {
			tam = "none"
		}
		forcedQ := -1
		if exhaustive {
			topo = topos[i%len(topos)]
			tam = tampers[(i/len(topos))%len(tampers)]
			forcedQ = (i / (len(topos) * len(tampers))) % nq
		}
		target := "zone.tld."
		if topo == "shared-island" {
			target = "sub.zone.tld."
		}
		if r.Intn(5) == 0 && topo != "shared-island" && tam != "ds-swap" && tam != "ds-drop" && tam != "ds-sig-alg" && tam != "ds-denial-forged-extra-key" {
			target = "tld."
		}
		if topo == "nsec3-optout" {
			target = []string{"tld.", "tld.", "zone.tld.", "sec.tld."}[r.Intn(4)]
		}
		qs := queries(target)
		q := qs[r.Intn(len(qs))]
		if forcedQ >= 0 {
			q = qs[forcedQ]
		}
		if tam == "nsec-drop" && forcedQ < 0 {
			q = qs[2+r.Intn(2)]
		}
		if forcedQ < 0 && strings.HasPrefix(tam, "wildcard-replay") {
			q = qs[6]
		}
		if forcedQ < 0 && tam == "parent-denial-nodata" {
			q = qs[7]
		}
		if forcedQ < 0 && tam == "parent-denial-nxdomain" {
			q = qs[0]
		}
		if forcedQ < 0 && (tam == "nxdomain-forged" || tam == "alter-a" || tam == "forged-untrusted-key" || tam == "dnskey-extra-key" || tam == "island-hijack" || tam == "ds-swap" || tam == "ds-drop" || tam == "inject-foreign" || tam == "expired" || tam == "alter-a-sig-alg" || tam == "ds-sig-alg" || tam == "nxdomain-suffix-sibling-nsec" || tam == "ds-denial-forged-extra-key") {
			q = qs[0]
		}
		// a quarter of the scenarios are two-query histories: a meta-ish or ordinary type, for another or the same name, first
		pre = preQ{}
		if r.Intn(4) == 0 {
			pre = preQ{[]string{"x", "www", "nx", ""}[r.Intn(4)],
				[]uint16{dns.TypeRRSIG, dns.TypeRRSIG, dns.TypeRRSIG, dns.TypeNSEC, dns.TypeNSEC3, dns.TypeDS, dns.TypeANY, dns.TypeAAAA, dns.TypeTXT, dns.TypeDNSKEY}[r.Intn(10)]}
		}
		run(topo, tam, target, q, "")
		pre = preQ{}
	}
}
