//go:build verif

package resolver

// C12 driver (DNSSEC signature work): dnssec.VerifyRRSIGWithWork governed by the resolver's real
// dnssecWorkBudget adapter over a real RecursionWorkLedger.
//
// Generated input: a response with 1..3 RRsets, each carrying several RRSIGs (Ed25519); every RRSIG
// names a key tag on which 1..6 distinct DNSKEYs collide (the colliding keys are arbitrary public keys
// whose last two octets are solved for the tag); at most one RRSIG per RRset is genuine. Limits
// (candidates per signature, operations per RRset, signature operations per tree) are small and
// random, mode is enforce or shadow.
// Observed: the verdict, the ledger (signature counter = public-key operations performed,
// exhaustion bits, first latched kind). The case gives the shape in PROCESSING order
// (RRsets by owner, RRSIGs by key tag then signature octets, candidates by public key).

import (
	"context"
	"crypto/ed25519"
	"encoding/base64"
	"encoding/json"
	"errors"
	"fmt"
	"math/rand"
	"net"
	"os"
	"sort"
	"strconv"
	"strings"
	"testing"
	"time"

	"github.com/miekg/dns"
	"github.com/semihalev/sdns/middleware"
	"github.com/semihalev/sdns/middleware/resolver/dnssec"
)

const vC12SigZone = "sig.verif.test."

func vC12Key(pub []byte) *dns.DNSKEY {
	return &dns.DNSKEY{
		Hdr:       dns.RR_Header{Name: vC12SigZone, Rrtype: dns.TypeDNSKEY, Class: dns.ClassINET, Ttl: 300},
		Flags:     256,
		Protocol:  3,
		Algorithm: dns.ED25519,
		PublicKey: base64.StdEncoding.EncodeToString(pub),
	}
}

// a 32-octet public key (not the genuine one) whose DNSKEY has key tag [tag]
func vC12Colliding(r *rand.Rand, tag uint16) *dns.DNSKEY {
	for {
		pub := make([]byte, 32)
		r.Read(pub)
		pub[30], pub[31] = 0, 0
		// RFC 4034 Appendix B over flags(256) protocol(3) algorithm(15) key: the last two octets
		// enter the sum as one big-endian word, so solve for it
		rdata := append([]byte{1, 0, 3, dns.ED25519}, pub...)
		var ac uint32
		for i, b := range rdata {
			if i&1 == 0 {
				ac += uint32(b) << 8
			} else {
				ac += uint32(b)
			}
		}
		for w := uint32(0); w < 65536; w++ {
			s := ac + w
			s += (s >> 16) & 0xFFFF
			if uint16(s&0xFFFF) == tag {
				pub[30], pub[31] = byte(w>>8), byte(w)
				if k := vC12Key(pub); dnssec.KeyTag(k) == tag {
					return k
				}
			}
		}
	}
}

type vC12SigDesc struct {
	sig   *dns.RRSIG
	cands []*dns.DNSKEY
	good  *dns.DNSKEY
}

func TestVerifC12Sig(t *testing.T) {
	path := os.Getenv("VERIF_OUT")
	if path == "" {
		t.Skip("VERIF_OUT not set")
	}
	f, err := os.Create(path)
	if err != nil {
		t.Fatal(err)
	}
	defer f.Close()
	seed, _ := strconv.Atoi(os.Getenv("VERIF_SEED"))
	n, _ := strconv.Atoi(os.Getenv("VERIF_N"))
	if n == 0 {
		n = 150
	}
	r := rand.New(rand.NewSource(int64(seed)*32452843 + 12))
	now := time.Now()
	incep, expir := uint32(now.Add(-time.Hour).Unix()), uint32(now.Add(time.Hour).Unix())
	// fixed shapes from corpus/C12/sig.json (minimal inputs of seeded changes the check caught), replayed first
	type vC12SigPlan struct {
		Mode  int     `json:"mode"`
		K     uint32  `json:"K"`
		Rl    uint32  `json:"Rl"`
		S     uint32  `json:"S"`
		Sets  [][]int `json:"sets"` // per RRset, per RRSIG: number of candidates with its key tag
		Good  []int   `json:"good"` // per RRset: index of the genuinely signed RRSIG, -1 none
	}
	var plans []vC12SigPlan
	if dir := os.Getenv("VERIF_CORPUS"); dir != "" {
		if b, err := os.ReadFile(dir + "/sig.json"); err == nil {
			_ = json.Unmarshal(b, &plans)
		}
	}
	for c := 0; c < n+len(plans); c++ {
		var plan *vC12SigPlan
		if c < len(plans) && len(plans[c].Sets) > 0 && len(plans[c].Good) == len(plans[c].Sets) {
			plan = &plans[c]
		}
		mode := middleware.RecursionWorkEnforce
		if r.Intn(4) == 0 {
			mode = middleware.RecursionWorkShadow
		}
		K := uint32(1 + r.Intn(5))  // candidates per signature
		Rl := uint32(1 + r.Intn(9)) // operations per RRset
		S := uint32(1 + r.Intn(20)) // signature operations per tree
		if r.Intn(3) == 0 {
			K, Rl, S = 4, 8, 32 // the defaults
		}
		if plan != nil {
			K, Rl, S = plan.K, plan.Rl, plan.S
			mode = middleware.RecursionWorkEnforce
			if plan.Mode == 1 {
				mode = middleware.RecursionWorkShadow
			}
		}
		pol := middleware.RecursionWorkPolicy{Mode: mode, MaxOutboundQueries: 128, MaxInternalQueries: 32, MaxDNSKEYCandidates: K,
			MaxRRsetSignatureChecks: Rl, MaxSignatureChecks: S, MaxDSDigests: 32, MaxNSEC3Hashes: 32, MaxConcurrentCrypto: 32}

		keys := map[uint16][]*dns.DNSKEY{}
		usedTags := map[uint16]bool{}
		msg := new(dns.Msg)
		nsets := 1 + r.Intn(3)
		if plan != nil {
			nsets = len(plan.Sets)
		}
		var shape []string
		bound := uint64(0) // sum over RRsets of min(Rl, sum over sigs of min(K, candidates))
		for s := 0; s < nsets; s++ {
			owner := fmt.Sprintf("n%d.%s", s, vC12SigZone)
			a := &dns.A{Hdr: dns.RR_Header{Name: owner, Rrtype: dns.TypeA, Class: dns.ClassINET, Ttl: 300}, A: net.IPv4(203, 0, 113, byte(s+1))}
			set := []dns.RR{a}
			msg.Answer = append(msg.Answer, a)
			nsigs := 1 + r.Intn(5)
			goodAt := -1
			if r.Intn(3) != 0 {
				goodAt = r.Intn(nsigs)
			}
			if plan != nil {
				nsigs, goodAt = len(plan.Sets[s]), plan.Good[s]
			}
			var descs []vC12SigDesc
			for i := 0; i < nsigs; i++ {
				sig := &dns.RRSIG{Hdr: dns.RR_Header{Name: owner, Rrtype: dns.TypeRRSIG, Class: dns.ClassINET, Ttl: 300},
					TypeCovered: dns.TypeA, Algorithm: dns.ED25519, Labels: uint8(dns.CountLabel(owner)), OrigTtl: 300,
					Expiration: expir, Inception: incep, SignerName: vC12SigZone}
				d := vC12SigDesc{sig: sig}
				ncoll := r.Intn(7) // colliding impostors
				if plan != nil {
					// candidates in all: the genuine key counts as one of them
					ncoll = plan.Sets[s][i]
					if i == goodAt && ncoll > 0 {
						ncoll--
					}
				}
				var tag uint16
				if i == goodAt {
					pubk, priv, _ := ed25519.GenerateKey(r)
					d.good = vC12Key(pubk)
					tag = dnssec.KeyTag(d.good)
					for usedTags[tag] {
						pubk, priv, _ = ed25519.GenerateKey(r)
						d.good = vC12Key(pubk)
						tag = dnssec.KeyTag(d.good)
					}
					sig.KeyTag = tag
					if err := sig.Sign(priv, set); err != nil {
						t.Fatal(err)
					}
					d.cands = append(d.cands, d.good)
				} else {
					tag = uint16(r.Intn(65536))
					for usedTags[tag] {
						tag = uint16(r.Intn(65536))
					}
					sig.KeyTag = tag
					raw := make([]byte, 64)
					r.Read(raw)
					sig.Signature = base64.StdEncoding.EncodeToString(raw)
					if ncoll == 0 {
						ncoll = 1
					}
				}
				usedTags[tag] = true
				for j := 0; j < ncoll; j++ {
					d.cands = append(d.cands, vC12Colliding(r, tag))
				}
				keys[tag] = append(keys[tag], d.cands...)
				msg.Answer = append(msg.Answer, sig)
				descs = append(descs, d)
			}
			// processing order: RRSIGs by key tag (all other identity fields are equal, tags distinct),
			// candidates by public key text
			sort.Slice(descs, func(i, j int) bool { return descs[i].sig.KeyTag < descs[j].sig.KeyTag })
			var sigShape []string
			per := uint64(0)
			for _, d := range descs {
				sort.Slice(d.cands, func(i, j int) bool { return d.cands[i].PublicKey < d.cands[j].PublicKey })
				valid := "None"
				for j, k := range d.cands {
					if k == d.good {
						valid = fmt.Sprintf("(Some %d%%nat)", j)
					}
				}
				sigShape = append(sigShape, fmt.Sprintf("(%d%%nat,%s)", len(d.cands), valid))
				m := uint64(len(d.cands))
				if m > uint64(K) {
					m = uint64(K)
				}
				per += m
			}
			if per > uint64(Rl) {
				per = uint64(Rl)
			}
			bound += per
			shape = append(shape, "["+strings.Join(sigShape, ";")+"]")
		}
		// shuffle the wire order: the verifier must not depend on it
		r.Shuffle(len(msg.Answer), func(i, j int) { msg.Answer[i], msg.Answer[j] = msg.Answer[j], msg.Answer[i] })
		for tag := range keys {
			ks := keys[tag]
			r.Shuffle(len(ks), func(i, j int) { ks[i], ks[j] = ks[j], ks[i] })
		}
		msg.SetQuestion("n0."+vC12SigZone, dns.TypeA)

		ledger := middleware.NewRecursionWorkLedger(pol)
		ctx := middleware.WithRecursionWork(context.Background(), ledger)
		res := (&Resolver{}).dnssecWork(ctx)
		ok, verr := dnssec.VerifyRRSIGWithWork(vC12SigZone, keys, msg, res)
		verdict, ekind := 0, 0 // 0 verified, 1 work error, 2 ordinary failure
		var le *middleware.RecursionWorkLimitError
		switch {
		case verr == nil && ok:
		case errors.As(verr, &le):
			verdict, ekind = 1, int(le.Kind)
		default:
			verdict = 2
		}
		snap := ledger.Snapshot()
		var exh uint32
		if snap.DNSKEYCandidatesExhausted {
			exh |= 4
		}
		if snap.RRsetSignatureChecksExhausted {
			exh |= 8
		}
		if snap.SignatureChecksExhausted {
			exh |= 16
		}
		first := 0
		if e := ledger.EnforcementError(); errors.As(e, &le) {
			first = int(le.Kind) + 1
		}
		ms := "enforce"
		if mode == middleware.RecursionWorkShadow {
			ms = "shadow"
		}
		b, _ := json.Marshal(map[string]any{
			"k": "sig-" + ms,
			"coq": fmt.Sprintf("CaseSig %d %d %d %d [%s] %d %d %d %d %d %d", mode, K, Rl, S, strings.Join(shape, ";"),
				verdict, ekind, snap.SignatureChecks, exh, first, bound),
			"nontrivial": verdict == 1 || uint64(snap.SignatureChecks) == bound,
			"desc": map[string]any{"mode": ms, "max_dnskey_candidates": K, "max_rrset_signature_checks": Rl, "max_signature_checks": S,
				"rrsets(sig: candidates, genuine index)": shape, "verdict": verdict, "limit_kind": ekind, "public_key_operations": snap.SignatureChecks,
				"exhausted_bits": exh, "first": first, "shape_bound": bound},
		})
		f.Write(append(b, '\n'))
	}
}
