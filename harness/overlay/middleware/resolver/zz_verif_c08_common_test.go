//go:build verif

package resolver

// C08 drivers — shared helpers (overlay-injected, never committed to /repo):
// trace output, Coq term formatting, the scripted authoritative "world"
// (root + zones on loopback sockets, parents that can withdraw / re-point a
// delegation at any instant, children that can say anything about
// themselves), and the pipeline under test (cache middleware + resolver
// handler) with a virtual clock that is advanced by shifting every stored
// instant into the past.

import (
	"context"
	"encoding/json"
	"fmt"
	"net"
	"os"
	"sort"
	"strconv"
	"strings"
	"sync"
	"testing"
	"time"

	"github.com/miekg/dns"
	"github.com/semihalev/sdns/config"
	"github.com/semihalev/sdns/internal/authority"
	"github.com/semihalev/sdns/internal/cache"
	"github.com/semihalev/sdns/internal/dnsutil"
	"github.com/semihalev/sdns/internal/mock"
	"github.com/semihalev/sdns/middleware"
	cachemw "github.com/semihalev/sdns/middleware/cache"
	"github.com/semihalev/zlog/v2"
)

type vC08Out struct{ f *os.File }

func vC08Open(t *testing.T) *vC08Out {
	p := os.Getenv("VERIF_OUT")
	if p == "" || os.Getenv("VERIF_SCRATCH") == "" {
		t.Skip("VERIF_OUT / VERIF_SCRATCH not set")
	}
	f, err := os.Create(p)
	if err != nil {
		t.Fatal(err)
	}
	// everything this process puts under os.TempDir() lands in the scratch dir
	os.Setenv("TMPDIR", os.Getenv("VERIF_SCRATCH"))
	zlog.SetLevel(zlog.LevelFatal)
	return &vC08Out{f: f}
}

func (o *vC08Out) emit(m map[string]any) {
	b, _ := json.Marshal(m)
	o.f.Write(append(b, '\n'))
}

func vC08EnvInt(name string, def int) int {
	if s := os.Getenv(name); s != "" {
		if n, err := strconv.Atoi(s); err == nil {
			return n
		}
	}
	return def
}

// ---------------------------------------------------------------- Coq terms

func vC08Z(x int64) string {
	if x < 0 {
		return fmt.Sprintf("(%d)", x)
	}
	return strconv.FormatInt(x, 10)
}

func vC08B(b bool) string {
	if b {
		return "true"
	}
	return "false"
}

func vC08OZ(ok bool, x int64) string {
	if !ok {
		return "None"
	}
	return "(Some " + vC08Z(x) + ")"
}

// zone names as root-first label lists over small numbers; labels are
// interned case-insensitively (the code folds case everywhere it compares).
type vC08Labels struct{ ids map[string]int }

func (l *vC08Labels) id(s string) int {
	s = strings.ToLower(s)
	if l.ids == nil {
		l.ids = map[string]int{}
	}
	if v, ok := l.ids[s]; ok {
		return v
	}
	v := len(l.ids) + 1
	l.ids[s] = v
	return v
}

func (l *vC08Labels) zone(name string) string {
	name = dns.Fqdn(name)
	if name == "." {
		return "[]"
	}
	labs := dns.SplitDomainName(name)
	out := make([]string, 0, len(labs))
	for i := len(labs) - 1; i >= 0; i-- {
		out = append(out, strconv.Itoa(l.id(labs[i])))
	}
	return "[" + strings.Join(out, ";") + "]%N"
}

// ------------------------------------------------------------- the world

const (
	vC08RespAnswer   = 0 // authoritative positive answer
	vC08RespNeg      = 1 // NXDOMAIN / NODATA with SOA
	vC08RespReferral = 2 // referral the parent publishes for a delegated child
	vC08RespJunk     = 3 // a referral the server has no business sending (self / upward / sideways)
)

// vC08BareNegTTL: the message TTL (s) the answer cache gives a reply without any record (dnsutil.MinCacheTTL)
var vC08BareNegTTL = uint32(dnsutil.MinCacheTTL / time.Second)

type vC08Deleg struct {
	nsTTL  []uint32 // TTL of each NS record in the referral (coherent RRset)
	target int      // server id the glue points to
	active bool
	noGlue bool
	bare   int // the last `bare` NS hosts are published without glue (a partly glue-less NS set)
}

type vC08LogEnt struct {
	srv    int
	name   string
	qtype  uint16
	kind   int
	refZ   string // referral owner
	refTTL []uint32
	refTo  int
	ansTTL uint32
}

type vC08Srv struct {
	id    int
	zone  string
	addr  string
	glue  string
	stop  func()
	deleg map[string]*vC08Deleg // children this server delegates
	// what the server says about itself
	mode   int    // 0 honest, 1 self-referral, 2 upward referral, 3 sideways referral, 4 answers + own NS set (long TTL) in authority/additional
	ansTTL uint32 // TTL on its positive answers
	negTTL uint32 // SOA TTL and MINIMUM on its denials
	dsTTLs []uint32 // when set: every DS question is answered with one DS record per TTL
	// aliases the zone publishes (alias driver): "d.<zone>" is a DNAME onto dnameTo (a zone name), and
	// "c<rest>.<zone>" is a CNAME onto "<rest>.<cnameTo>"; aliasTTL is the TTL of those records
	dnameTo  string
	cnameTo  string
	aliasTTL uint32
	allExist bool // every name in the zone exists (a re-pointed zone with other content)
	// shape of the zone's own denials: false = the SOA-carrying form (RFC 2308), true = "bare": the rcode (NXDOMAIN /
	// NOERROR) and nothing else - no SOA, empty authority section - as minimal or broken authoritative servers send it
	bareNeg bool
}

type vC08World struct {
	mu   sync.Mutex
	srvs []*vC08Srv
	log  []vC08LogEnt
	// hook, when set, runs in the server goroutine before a query is answered (and before the
	// reply is computed): the race driver uses it to run another resolution, move the clock or
	// change what the parent publishes while a referral is "on the wire"
	hook func(srv int, q dns.Question)
}

func (w *vC08World) start(t *testing.T, zone string) *vC08Srv {
	pc, err := net.ListenPacket("udp", "127.0.0.1:0")
	if err != nil {
		t.Fatalf("listen udp: %v", err)
	}
	w.mu.Lock()
	s := &vC08Srv{id: len(w.srvs), zone: dns.Fqdn(zone), deleg: map[string]*vC08Deleg{}, ansTTL: 300, negTTL: 60}
	s.glue = fmt.Sprintf("192.0.2.%d", 10+s.id)
	w.srvs = append(w.srvs, s)
	w.mu.Unlock()
	mux := dns.NewServeMux()
	mux.HandleFunc(".", func(rw dns.ResponseWriter, r *dns.Msg) {
		if len(r.Question) != 1 {
			return
		}
		reply := w.answer(s, r)
		_ = rw.WriteMsg(reply)
	})
	server := &dns.Server{Net: "udp", PacketConn: pc, Handler: mux}
	started := make(chan struct{})
	server.NotifyStartedFunc = func() { close(started) }
	go func() { _ = server.ActivateAndServe() }()
	<-started
	s.addr = pc.LocalAddr().String()
	s.stop = func() { _ = server.Shutdown() }
	return s
}

func (w *vC08World) stopAll() {
	for _, s := range w.srvs {
		s.stop()
	}
}

func vC08SOA(zone string, ttl uint32) dns.RR {
	ns, mb := "ns."+zone, "hostmaster."+zone
	if zone == "." {
		ns, mb = "ns.", "hostmaster."
	}
	return &dns.SOA{Hdr: dns.RR_Header{Name: zone, Rrtype: dns.TypeSOA, Class: dns.ClassINET, Ttl: ttl},
		Ns: ns, Mbox: mb, Serial: 1, Refresh: 3600, Retry: 600, Expire: 86400, Minttl: ttl}
}

func vC08Parent(zone string) string {
	if zone == "." {
		return "."
	}
	next, end := dns.NextLabel(zone, 0)
	if end {
		return "."
	}
	return zone[next:]
}

// answer is the whole behaviour of one authoritative socket.
func (w *vC08World) answer(s *vC08Srv, r *dns.Msg) *dns.Msg {
	q := r.Question[0]
	name := dns.CanonicalName(q.Name)
	reply := new(dns.Msg)
	reply.SetReply(r)
	w.mu.Lock()
	hook := w.hook
	w.mu.Unlock()
	if hook != nil {
		hook(s.id, q)
	}
	w.mu.Lock()
	defer w.mu.Unlock()
	ent := vC08LogEnt{srv: s.id, name: name, qtype: q.Qtype}
	defer func() { w.log = append(w.log, ent) }()

	neg := func(rcode int) *dns.Msg {
		reply.Authoritative = true
		reply.Rcode = rcode
		soa := vC08SOA(s.zone, s.negTTL)
		soa.(*dns.SOA).Serial = uint32(s.id) + 1 // provenance: which server's denial a reply carries
		reply.Ns = []dns.RR{soa}
		ent.kind = vC08RespNeg
		ent.ansTTL = s.negTTL
		return reply
	}
	// the zone's own denial of a name or type (not the parent-side NXDOMAIN of a withdrawn delegation, not DS)
	ownNeg := func(rcode int) *dns.Msg {
		m := neg(rcode)
		if s.bareNeg {
			m.Ns = nil
			ent.ansTTL = vC08BareNegTTL
		}
		return m
	}
	if name == "." && q.Qtype == dns.TypeNS && s.zone == "." {
		reply.Authoritative = true
		reply.Answer = []dns.RR{&dns.NS{Hdr: dns.RR_Header{Name: ".", Rrtype: dns.TypeNS, Class: dns.ClassINET, Ttl: 3600}, Ns: "ns.root."}}
		ent.kind = vC08RespAnswer
		return reply
	}
	// a delegation the parent publishes
	var dz string
	var d *vC08Deleg
	for z, dd := range s.deleg {
		if dd.active && dns.IsSubDomain(z, name) && (d == nil || len(z) > len(dz)) {
			dz, d = z, dd
		}
	}
	if d != nil && !(q.Qtype == dns.TypeDS && name == dz) {
		reply.Authoritative = false
		tgt := w.srvs[d.target]
		for i, ttl := range d.nsTTL {
			host := fmt.Sprintf("ns%d.%s", i, dz)
			reply.Ns = append(reply.Ns, &dns.NS{Hdr: dns.RR_Header{Name: dz, Rrtype: dns.TypeNS, Class: dns.ClassINET, Ttl: ttl}, Ns: host})
			if !d.noGlue && i < len(d.nsTTL)-d.bare {
				reply.Extra = append(reply.Extra, &dns.A{Hdr: dns.RR_Header{Name: host, Rrtype: dns.TypeA, Class: dns.ClassINET, Ttl: ttl}, A: net.ParseIP(tgt.glue)})
			}
		}
		ent.kind, ent.refZ, ent.refTTL, ent.refTo = vC08RespReferral, dz, append([]uint32{}, d.nsTTL...), d.target
		return reply
	}
	if q.Qtype == dns.TypeDS && len(s.dsTTLs) > 0 {
		reply.Authoritative = true
		for i, ttl := range s.dsTTLs {
			reply.Answer = append(reply.Answer, &dns.DS{Hdr: dns.RR_Header{Name: q.Name, Rrtype: dns.TypeDS, Class: dns.ClassINET, Ttl: ttl},
				KeyTag: uint16(i + 1), Algorithm: 13, DigestType: 2, Digest: "00"})
		}
		ent.kind = vC08RespAnswer
		return reply
	}
	if q.Qtype == dns.TypeDS {
		return neg(dns.RcodeSuccess)
	}
	for z, dd := range s.deleg {
		if !dd.active && dns.IsSubDomain(z, name) {
			return neg(dns.RcodeNameError) // the delegation was withdrawn: nothing exists there any more
		}
	}
	if !dns.IsSubDomain(s.zone, name) {
		reply.Rcode = dns.RcodeRefused
		ent.kind = vC08RespNeg
		return reply
	}
	// what the zone says about itself
	junk := func(owner string) *dns.Msg {
		reply.Authoritative = false
		host := "ns0." + s.zone
		if s.zone == "." {
			host = "ns0.root."
		}
		reply.Ns = []dns.RR{&dns.NS{Hdr: dns.RR_Header{Name: owner, Rrtype: dns.TypeNS, Class: dns.ClassINET, Ttl: 7 * 86400}, Ns: host}}
		reply.Extra = []dns.RR{&dns.A{Hdr: dns.RR_Header{Name: host, Rrtype: dns.TypeA, Class: dns.ClassINET, Ttl: 7 * 86400}, A: net.ParseIP(s.glue)}}
		ent.kind, ent.refZ, ent.refTTL, ent.refTo = vC08RespJunk, owner, []uint32{7 * 86400}, s.id
		return reply
	}
	switch s.mode {
	case 1:
		return junk(s.zone)
	case 2:
		return junk(vC08Parent(s.zone))
	case 3:
		return junk("sib." + vC08Parent(s.zone))
	}
	first := strings.ToLower(dns.SplitDomainName(name + ".")[0])
	if name == s.zone {
		first = "@"
	}
	if owner := "d." + s.zone; s.dnameTo != "" && name != owner && dns.IsSubDomain(owner, name) {
		target := q.Name[:len(q.Name)-len(owner)] + s.dnameTo
		reply.Authoritative = true
		reply.Answer = []dns.RR{
			&dns.DNAME{Hdr: dns.RR_Header{Name: owner, Rrtype: dns.TypeDNAME, Class: dns.ClassINET, Ttl: s.aliasTTL}, Target: s.dnameTo},
			&dns.CNAME{Hdr: dns.RR_Header{Name: q.Name, Rrtype: dns.TypeCNAME, Class: dns.ClassINET, Ttl: s.aliasTTL}, Target: target},
		}
		ent.kind, ent.ansTTL = vC08RespAnswer, s.aliasTTL
		return reply
	}
	if s.cnameTo != "" && name != s.zone && strings.HasPrefix(first, "c") && len(first) > 1 {
		reply.Authoritative = true
		reply.Answer = []dns.RR{&dns.CNAME{Hdr: dns.RR_Header{Name: q.Name, Rrtype: dns.TypeCNAME, Class: dns.ClassINET, Ttl: s.aliasTTL}, Target: first[1:] + "." + s.cnameTo}}
		ent.kind, ent.ansTTL = vC08RespAnswer, s.aliasTTL
		return reply
	}
	exists := name == s.zone || strings.HasPrefix(first, "w") || strings.HasPrefix(first, "ns") || s.allExist
	if !exists {
		return ownNeg(dns.RcodeNameError)
	}
	switch {
	case q.Qtype == dns.TypeA && name != s.zone:
		reply.Authoritative = true
		addr := net.IPv4(10, byte(s.id), 0, 1)
		if strings.HasPrefix(first, "ns") {
			addr = net.ParseIP(s.glue) // a nameserver host of the zone: the address its glue would carry
		}
		reply.Answer = []dns.RR{&dns.A{Hdr: dns.RR_Header{Name: q.Name, Rrtype: dns.TypeA, Class: dns.ClassINET, Ttl: s.ansTTL},
			A: addr}}
		ent.kind, ent.ansTTL = vC08RespAnswer, s.ansTTL
	case q.Qtype == dns.TypeNS && name == s.zone:
		reply.Authoritative = true
		reply.Answer = []dns.RR{&dns.NS{Hdr: dns.RR_Header{Name: s.zone, Rrtype: dns.TypeNS, Class: dns.ClassINET, Ttl: 7 * 86400}, Ns: "ns0." + s.zone}}
		ent.kind, ent.ansTTL = vC08RespAnswer, 7*86400
	default:
		return ownNeg(dns.RcodeSuccess)
	}
	if s.mode == 4 {
		// the ghost-domain trick: keep re-publishing the zone's own NS set with a
		// long TTL in every authoritative answer
		host := "ns0." + s.zone
		reply.Ns = append(reply.Ns, &dns.NS{Hdr: dns.RR_Header{Name: s.zone, Rrtype: dns.TypeNS, Class: dns.ClassINET, Ttl: 7 * 86400}, Ns: host})
		reply.Extra = append(reply.Extra, &dns.A{Hdr: dns.RR_Header{Name: host, Rrtype: dns.TypeA, Class: dns.ClassINET, Ttl: 7 * 86400}, A: net.ParseIP(s.glue)})
	}
	return reply
}

func (w *vC08World) takeLog() []vC08LogEnt {
	w.mu.Lock()
	defer w.mu.Unlock()
	l := w.log
	w.log = nil
	return l
}

// ------------------------------------------------------- pipeline under test

type vC08Queryer struct{ handlers []middleware.Handler }

func (q *vC08Queryer) Query(ctx context.Context, req *dns.Msg) (*dns.Msg, error) {
	w := mock.NewWriter("tcp", "127.0.0.255:0")
	ch := middleware.NewChain(q.handlers)
	ch.Reset(w, req)
	ch.Next(ctx)
	if !w.Written() {
		return nil, middleware.ErrNoResponse
	}
	return w.Msg(), nil
}

type vC08Pipe struct {
	t     *testing.T
	w     *vC08World
	h     *DNSHandler
	cm    *cachemw.Cache
	base  time.Time
	adv   time.Duration
	cd    bool // the CD bucket delegations live in (DNSSEC off: handler forces CD=1)
	zones []string
	tap   middleware.Handler
}

func vC08Config(prefetch int, minLevel int, root string) *config.Config {
	cfg := new(config.Config)
	cfg.RootServers = []string{root}
	cfg.Root6Servers = nil
	cfg.Maxdepth = 30
	cfg.Expire = 600
	cfg.CacheSize = 1024
	cfg.Timeout.Duration = 2 * time.Second
	cfg.Directory = os.Getenv("VERIF_SCRATCH")
	cfg.IPv6Access = false
	cfg.DNSSEC = "off"
	cfg.Prefetch = uint32(prefetch)
	cfg.RateLimit = 0
	cfg.QnameMinLevel = minLevel
	off := false
	cfg.RFC9520 = &off
	return cfg
}

func vC08NewPipe(t *testing.T, w *vC08World, prefetch, minLevel int) *vC08Pipe {
	return vC08NewPipeWith(t, w, prefetch, minLevel, nil)
}

// vC08NewPipeWith puts tap (if any) between the cache and the resolver on the
// client path only, so a client miss is told from a hit (+ background refresh).
func vC08NewPipeWith(t *testing.T, w *vC08World, prefetch, minLevel int, tap middleware.Handler) *vC08Pipe {
	cfg := vC08Config(prefetch, minLevel, w.srvs[0].addr)
	h := New(cfg)
	byGlue := map[string]string{}
	for _, s := range w.srvs {
		byGlue[net.JoinHostPort(s.glue, "53")] = s.addr
	}
	mapper := func(addr string) string {
		if to, ok := byGlue[addr]; ok {
			return to
		}
		return addr
	}
	h.resolver.resolveTarget.Store(&mapper)
	cm := cachemw.New(cfg)
	cm.SetPrefetchQueryer(&vC08Queryer{handlers: []middleware.Handler{h}})
	var sub middleware.Queryer = &vC08Queryer{handlers: []middleware.Handler{cm, h}}
	cm.SetQueryer(sub)
	h.resolver.queryer.Store(&sub)
	st := cm.Store()
	h.resolver.store.Store(&st)
	return &vC08Pipe{t: t, w: w, h: h, cm: cm, base: time.Now(), cd: true, tap: tap}
}

func (p *vC08Pipe) close() {
	p.cm.Stop()
	p.h.Stop()
}

// now is the virtual instant (ns since the pipeline was built).
func (p *vC08Pipe) now() int64 { return int64(time.Since(p.base) + p.adv) }

func (p *vC08Pipe) virt(t time.Time) int64 { return int64(t.Sub(p.base) + p.adv) }

// advance moves the virtual clock: every stored instant goes d into the past.
func (p *vC08Pipe) advance(d time.Duration) {
	p.adv += d
	authority.VC08Shift(p.h.resolver.delegations, d)
	cachemw.VC08Shift(p.cm, d, p.adv)
}

type vC08Reply struct {
	rcode int
	src   int // server id whose data the answer carries (-1: none)
	ttl   uint32
	ok    bool
}

// ask sends one client query through cache + resolver. wire selects the ingress shape:
// false = a decoded dns.Msg (Chain.Reset: DoH/DoQ, sub-pipelines), true = a wire-born
// request as the server's raw UDP/TCP ingress hands it over (Chain.ResetWire + an undecoded
// middleware.Request, which the cache materializes on a miss).
func (p *vC08Pipe) ask(name string, qtype uint16, wire bool) vC08Reply {
	req := new(dns.Msg)
	req.SetQuestion(dns.Fqdn(name), qtype)
	req.SetEdns0(1232, false)
	mw := mock.NewWriter("udp", "127.0.0.1:0")
	hs := []middleware.Handler{p.cm, p.h}
	if p.tap != nil {
		hs = []middleware.Handler{p.cm, p.tap, p.h}
	}
	ch := middleware.NewChain(hs)
	if wire {
		raw, err := req.Pack()
		if err != nil {
			return vC08Reply{src: -1}
		}
		wreq := new(middleware.Request)
		if !wreq.ParseWire(raw, time.Now(), nil) {
			return vC08Reply{src: -1}
		}
		ch.ResetWire(mw, wreq)
		ch.Next(context.Background())
		ch.Finish()
	} else {
		ch.Reset(mw, req)
		ch.Next(context.Background())
	}
	if !mw.Written() {
		return vC08Reply{src: -1}
	}
	m := mw.Msg()
	out := vC08Reply{rcode: m.Rcode, src: -1, ok: true}
	for _, rr := range m.Answer {
		if a, ok := rr.(*dns.A); ok {
			if ip := a.A.To4(); ip != nil && ip[0] == 10 {
				out.src = int(ip[1])
				out.ttl = a.Hdr.Ttl
			}
		}
	}
	return out
}

func (p *vC08Pipe) delegKey(zone string) uint64 {
	return cache.Key(dns.Question{Name: dns.Fqdn(zone), Qtype: dns.TypeNS, Qclass: dns.ClassINET}, p.cd)
}

// deleg returns the stored delegation expiry (virtual ns) for zone, live or not.
func (p *vC08Pipe) deleg(zone string) (int64, bool) {
	d, ok := authority.VC08Raw(p.h.resolver.delegations, p.delegKey(zone))
	if !ok {
		return 0, false
	}
	return p.virt(d.ExpiresAt), true
}

func (p *vC08Pipe) entry(name string, qtype uint16) (cachemw.VC08Entry, bool) {
	return cachemw.VC08Peek(p.cm, dns.Question{Name: dns.Fqdn(name), Qtype: qtype, Qclass: dns.ClassINET}, false)
}

// waitPrefetch waits until no stored entry for the given names carries a
// prefetch claim (the asynchronous refresh finished its CAS attempt).
func (p *vC08Pipe) waitPrefetch(names []string) bool {
	deadline := time.Now().Add(4 * time.Second)
	for {
		busy := false
		for _, n := range names {
			if e, ok := p.entry(n, dns.TypeA); ok && e.Prefetch {
				busy = true
			}
		}
		if !busy {
			return true
		}
		if time.Now().After(deadline) {
			return false
		}
		time.Sleep(2 * time.Millisecond)
	}
}

func vC08SortedKeys[M ~map[string]V, V any](m M) []string {
	ks := make([]string, 0, len(m))
	for k := range m {
		ks = append(ks, k)
	}
	sort.Strings(ks)
	return ks
}
