//go:build verif

package resolver

// C07 lab, two more sections (same zone tree, real DNSHandler behind the real cache middleware):
//
//   * errref: the attacker's server puts a referral into an ERROR reply (NXDOMAIN, SERVFAIL, REFUSED, FORMERR,
//     NOTIMP, YXDOMAIN; empty Answer, NS records only) - sideways, sibling, self, upward, mixed-owner, wrong class -
//     with NS hosts and glue inside its own zone.  resolve() hands such a reply to processAuthoritySection like
//     any other; the referral rule must hold whatever the response code.
//   * window: the attacker delegates sub.evil.l1. to two hosts, one with glue, one without.  While the resolver
//     looks up the second host's address (the delegated server itself is asked, through the provisional
//     delegation entry), the scripted server - from inside its handler, i.e. with the lookup still outstanding -
//     sends a SECOND client query through the same resolver for a name in the delegated zone and answers it with
//     a hostile message (out-of-zone alias tails, forged records, self / upward / sideways referrals).  Sequencing
//     is by the handler, not by the clock.  In half of the scenarios the answer to the address lookup itself
//     carries forged records for victim names as well.

import (
	"fmt"
	"math/rand"
	"net/netip"
	"strings"
	"sync"

	"github.com/miekg/dns"
	"github.com/semihalev/sdns/internal/cache"
	"github.com/semihalev/sdns/middleware"
)

// vC07LabObserve: what of the attacker's message became visible after question qs was answered with it
func vC07LabObserve(l *vC07Lab, p *vC07Pipe, attack vC07Attack, rep *dns.Msg, ownZone string, ownHost string) (vis []string, glueObs, delegObs []vC07Name, glueDesc, delegDesc, repAns []string) {
	seen := map[string]bool{}
	if rep != nil {
		for _, rr := range rep.Answer {
			seen[vC07Ident(rr)] = true
		}
		repAns = vC07RRStrings(rep.Answer)
	}
	for _, s := range attack.answer {
		vis = append(vis, fmt.Sprint(seen[vC07Ident(s.rr())]))
	}
	seenG := map[string]bool{}
	for _, sec := range [][]vC07RRSpec{attack.answer, attack.ns, attack.extra} {
		for _, s := range sec {
			if s.rrtype != dns.TypeA {
				continue
			}
			key := strings.ToLower(s.owner.String())
			addrs, ok := p.h.resolver.getIPv4Cache(key)
			if !ok || seenG[key] {
				continue
			}
			want, _ := netip.AddrFromSlice(s.ip)
			for _, a := range addrs {
				if a == want.Unmap() {
					seenG[key] = true
					glueObs = append(glueObs, vC07Parse(key))
					glueDesc = append(glueDesc, key+"="+a.String())
				}
			}
		}
	}
	seenD := map[string]bool{}
	for _, s := range attack.ns {
		if s.rrtype != dns.TypeNS {
			continue
		}
		key := strings.ToLower(s.owner.String())
		if seenD[key] {
			continue
		}
		for _, cd := range []bool{true, false} {
			d, derr := p.h.resolver.delegations.Get(cache.Key(dns.Question{Name: key, Qtype: dns.TypeNS, Qclass: dns.ClassINET}, cd))
			if derr != nil {
				continue
			}
			d.Servers.RLock()
			hosts := append([]string{}, d.Servers.Hosts...)
			d.Servers.RUnlock()
			for _, h := range hosts {
				for _, s2 := range attack.ns {
					if s2.rrtype == dns.TypeNS && strings.EqualFold(s2.owner.String(), key) && strings.EqualFold(s2.target.String(), h) && !seenD[key] &&
						!(key == ownZone && strings.EqualFold(h, ownHost)) {
						seenD[key] = true
						delegObs = append(delegObs, vC07Parse(key))
						delegDesc = append(delegDesc, key+" via "+h)
					}
				}
			}
		}
	}
	return
}

func vC07LabGoFail(l *vC07Lab, qs string, attack vC07Attack, rep *dns.Msg, vis []string, glueObs, delegObs []vC07Name, bad []string) string {
	goFail := ""
	if rep != nil {
		for _, rr := range rep.Answer {
			if !l.truth(rr) {
				goFail = "reply to " + qs + " relays " + vC07Ident(rr) + ", which the zone owning that name never published"
			}
		}
	}
	for i, sp := range attack.answer {
		if vis[i] == "true" && !vC07InEvil(sp.owner.String()) && goFail == "" {
			goFail = "reply to " + qs + " relays " + sp.String() + " sent by the attacker's server"
		}
	}
	for _, g := range glueObs {
		if !vC07InEvil(g.String()) {
			goFail = "glue cache holds the attacker's address for " + g.String()
		}
	}
	for _, d := range delegObs {
		if !vC07InEvil(d.String()) {
			goFail = "delegation cache holds the attacker's servers for " + d.String()
		}
	}
	if len(bad) > 0 {
		goFail = strings.Join(bad, "; ")
	}
	return goFail
}

func vC07RcodeOf(rep *dns.Msg) int {
	if rep == nil {
		return -1
	}
	return rep.Rcode
}

// ------------------------------------------------------------------ referrals inside error replies
func vC07LabErrReferrals(l *vC07Lab, r *rand.Rand, cnt int, scratch string, emit func(map[string]any)) {
	in := uint16(dns.ClassINET)
	rrNS := func(owner, target string) vC07RRSpec {
		return vC07RRSpec{owner: vC07N(owner), rrtype: dns.TypeNS, class: in, ttl: 300, target: vC07N(target)}
	}
	glue := func(owner string, ip []byte) vC07RRSpec {
		return vC07RRSpec{owner: vC07N(owner), rrtype: dns.TypeA, class: in, ttl: 300, ip: ip}
	}
	rcodes := []int{dns.RcodeNameError, dns.RcodeRefused, dns.RcodeServerFailure, dns.RcodeNameError, dns.RcodeFormatError, dns.RcodeNotImplemented, dns.RcodeYXDomain}
	type shape struct {
		tag string
		ns  []vC07RRSpec
	}
	shapes := []shape{
		{"sideways", []vC07RRSpec{rrNS("victim.l2.", "ns9.evil.l1.")}},
		{"sibling", []vC07RRSpec{rrNS("bank.l1.", "ns9.evil.l1."), rrNS("bank.l1.", "ns8.evil.l1.")}},
		{"self", []vC07RRSpec{rrNS("evil.l1.", "ns9.evil.l1.")}},
		{"mixed", []vC07RRSpec{rrNS("victim.l2.", "ns9.evil.l1."), rrNS("bank.l1.", "ns9.evil.l1.")}},
		{"sideways-case", []vC07RRSpec{rrNS("Victim.L2.", "NS9.evil.l1.")}},
		{"cousin", []vC07RRSpec{rrNS("other.evil.l1.", "ns9.evil.l1.")}},
		{"sibling-deep", []vC07RRSpec{rrNS("www.bank.l1.", "ns9.evil.l1.")}},
	}
	for c := 0; c < cnt; c++ {
		minLevel := []int{0, 3}[c%2]
		qn := vC07Name{fmt.Sprintf("r%d", c), "evil", "l1"}
		qs := qn.String()
		sh := shapes[c%len(shapes)]
		attack := vC07Attack{rcode: rcodes[(c/len(shapes)+c)%len(rcodes)], ns: sh.ns}
		attack.extra = []vC07RRSpec{glue("ns9.evil.l1.", vC07Rogue), glue("ns8.evil.l1.", vC07Rogue)}
		if r.Intn(3) == 0 {
			attack.extra = append(attack.extra, glue("ns.victim.l2.", vC07Rogue))
		}
		tags := []string{"errref-" + sh.tag, strings.ToLower(dns.RcodeToString[attack.rcode])}
		amsg := attack.msg()
		l.evil.setHandle(func(q dns.Question) *dns.Msg {
			if strings.EqualFold(q.Name, qs) && q.Qtype == dns.TypeA {
				return amsg
			}
			name := strings.ToLower(q.Name)
			if (name == "ns9.evil.l1." || name == "ns8.evil.l1.") && q.Qtype == dns.TypeA {
				m := &dns.Msg{}
				m.Authoritative = true
				m.Answer = []dns.RR{vC07RR(name + " 300 IN A " + vC07AddrRogue)}
				return m
			}
			return l.honestEvil(q)
		})
		p := l.newPipe(minLevel, scratch)
		rep := p.ask(qs, dns.TypeA)
		askedAttack := l.drainAsked()
		vis, glueObs, delegObs, glueDesc, delegDesc, repAns := vC07LabObserve(l, p, attack, rep, "evil.l1.", "ns.evil.l1.")
		bad, vdesc := l.health(p)
		p.close()
		l.evil.setHandle(l.honestEvil)
		goFail := vC07LabGoFail(l, qs, attack, rep, vis, glueObs, delegObs, bad)
		emit(map[string]any{
			"k": "attack-" + tags[0],
			"coq": fmt.Sprintf("CaseLab %s 2 (mk_q %s 1 1) %s [%s] %s %s %v", vC07N(vC07Evil).coq(), qn.coq(), attack.coq(),
				strings.Join(vis, ";"), vC07CoqNames(glueObs), vC07CoqNames(delegObs), len(bad) > 0),
			"nontrivial": true, "go_fail": goFail,
			"desc": map[string]any{"zone": vC07Evil, "question": qs, "qname_min_level": minLevel, "attack": tags,
				"sent_rcode": attack.rcode, "sent_authority": vC07DescRRs(attack.ns), "sent_additional": vC07DescRRs(attack.extra),
				"client_rcode": vC07RcodeOf(rep), "client_reply_answer": repAns, "glue_cache": glueDesc, "delegation_cache": delegDesc,
				"victim_replies": vdesc, "servers_asked_during_attack": vC07Sorted(askedAttack)},
		})
	}
}

// ------------------------------------------------------------------ the NS-address lookup window
func vC07LabWindow(l *vC07Lab, r *rand.Rand, cnt int, scratch string, emit func(map[string]any)) {
	in := uint16(dns.ClassINET)
	const sub = "sub.evil.l1."
	rrA := func(owner string, last byte) vC07RRSpec {
		return vC07RRSpec{owner: vC07N(owner), rrtype: dns.TypeA, class: in, ttl: 300, ip: []byte{6, 6, 6, last}}
	}
	rrCN := func(owner vC07Name, target string) vC07RRSpec {
		return vC07RRSpec{owner: owner, rrtype: dns.TypeCNAME, class: in, ttl: 300, target: vC07N(target)}
	}
	rrNS := func(owner, target string) vC07RRSpec {
		return vC07RRSpec{owner: vC07N(owner), rrtype: dns.TypeNS, class: in, ttl: 300, target: vC07N(target)}
	}
	for c := 0; c < cnt; c++ {
		minLevel := []int{0, 0, 3}[c%3]
		q1 := fmt.Sprintf("a%d.%s", c, sub)
		qn := vC07Name{fmt.Sprintf("w%d", c), "sub", "evil", "l1"}
		qs := qn.String()
		var attack vC07Attack
		var tags []string
		if c%2 == 0 {
			switch (c / 2) % 5 {
			case 0:
				attack.answer, tags = []vC07RRSpec{rrCN(qn, "www.victim.l2."), rrA("www.victim.l2.", 31)}, []string{"win-ans-cname-out-tail"}
			case 1:
				attack.answer, tags = []vC07RRSpec{rrA("www.victim.l2.", 32)}, []string{"win-ans-foreign"}
			case 2:
				attack.answer, tags = []vC07RRSpec{{owner: qn, rrtype: dns.TypeA, class: in, ttl: 300, ip: []byte{198, 51, 100, 72}}, rrA("www.bank.l1.", 33), rrA("mail.victim.l2.", 34)}, []string{"win-ans-own+foreign"}
			case 3:
				attack.answer, tags = []vC07RRSpec{rrA("www.victim.l2.", 35), rrCN(qn, "www.victim.l2.")}, []string{"win-ans-tail-before-cname"}
			default:
				attack.answer, tags = []vC07RRSpec{rrCN(qn, "t.evil.l1."), rrA("t.evil.l1.", 36)}, []string{"win-ans-cname-to-parent-zone-tail"}
			}
			attack.rcode = []int{0, 0, 3}[r.Intn(3)]
		} else {
			switch (c / 2) % 4 {
			case 0:
				attack.ns, tags = []vC07RRSpec{rrNS(sub, "ns9."+sub)}, []string{"win-ns-self"}
				attack.extra = []vC07RRSpec{{owner: vC07N("ns9." + sub), rrtype: dns.TypeA, class: in, ttl: 300, ip: vC07Rogue}}
			case 1:
				attack.ns, tags = []vC07RRSpec{rrNS("evil.l1.", "ns9."+sub)}, []string{"win-ns-upward"}
				attack.extra = []vC07RRSpec{{owner: vC07N("ns9." + sub), rrtype: dns.TypeA, class: in, ttl: 300, ip: vC07Rogue}}
			case 2:
				attack.ns, tags = []vC07RRSpec{rrNS("victim.l2.", "ns9."+sub)}, []string{"win-ns-sideways"}
				attack.extra = []vC07RRSpec{{owner: vC07N("ns9." + sub), rrtype: dns.TypeA, class: in, ttl: 300, ip: vC07Rogue}}
			default:
				attack.ns, tags = []vC07RRSpec{rrNS("l1.", "ns9."+sub)}, []string{"win-ns-upward-2"}
				attack.extra = []vC07RRSpec{{owner: vC07N("ns9." + sub), rrtype: dns.TypeA, class: in, ttl: 300, ip: vC07Rogue}}
			}
			attack.rcode = []int{0, 3, 0, 5}[r.Intn(4)]
		}
		hostileAddr := c%4 >= 2
		if hostileAddr {
			tags = append(tags, "ns-address-answer-with-forged-records")
		}
		amsg := attack.msg()
		referral := &dns.Msg{
			Ns:    []dns.RR{vC07RR(sub + " 300 IN NS ns1." + sub), vC07RR(sub + " 300 IN NS ns2." + sub)},
			Extra: []dns.RR{vC07RR("ns1." + sub + " 300 IN A " + vC07AddrEvil)},
		}
		p := l.newPipe(minLevel, scratch)
		// the resolver's own sub-lookups (NS addresses) go through a recording Queryer as well
		inner := *p.h.resolver.queryer.Load()
		irec := &vC07RecQueryer{inner: inner}
		var iq middleware.Queryer = irec
		p.h.resolver.queryer.Store(&iq)

		var mu sync.Mutex
		firstSeen := 0
		windowRan := false
		var rep2 *dns.Msg
		var provZone []string
		window := func() {
			// the delegation entry the nested lookup was routed through, as it is on file right now
			for _, cd := range []bool{true, false} {
				if d, err := p.h.resolver.delegations.Get(cache.Key(dns.Question{Name: sub, Qtype: dns.TypeNS, Qclass: dns.ClassINET}, cd)); err == nil {
					d.Servers.RLock()
					provZone = append(provZone, d.Servers.Zone)
					d.Servers.RUnlock()
				}
			}
			rep2 = p.ask(qs, dns.TypeA)
		}
		l.evil.setHandle(func(q dns.Question) *dns.Msg {
			name := strings.ToLower(q.Name)
			switch {
			case name == "ns2."+sub && q.Qtype == dns.TypeA:
				mu.Lock()
				run := !windowRan
				windowRan = true
				mu.Unlock()
				if run {
					window()
				}
				m := &dns.Msg{}
				m.Authoritative = true
				m.Answer = []dns.RR{vC07RR("ns2." + sub + " 300 IN A " + vC07AddrEvil)}
				if hostileAddr {
					m.Answer = append(m.Answer, vC07RR("www.victim.l2. 300 IN A 6.6.6.77"), vC07RR("ns.victim.l2. 300 IN A "+vC07AddrRogue))
				}
				return m
			case name == "ns1."+sub && q.Qtype == dns.TypeA:
				m := &dns.Msg{}
				m.Authoritative = true
				m.Answer = []dns.RR{vC07RR("ns1." + sub + " 300 IN A " + vC07AddrEvil)}
				return m
			case name == strings.ToLower(qs) && q.Qtype == dns.TypeA:
				return amsg
			case name == sub:
				mu.Lock()
				done := windowRan
				mu.Unlock()
				if done {
					return vC07SoftNeg(sub, false) // asked of the delegated servers themselves
				}
				return referral
			case name == strings.ToLower(q1) && q.Qtype == dns.TypeA:
				mu.Lock()
				firstSeen++
				n := firstSeen
				mu.Unlock()
				if n == 1 {
					return referral // asked of evil.l1.'s server: the cut
				}
				m := &dns.Msg{}
				m.Authoritative = true
				m.Answer = []dns.RR{vC07RR(q1 + " 300 IN A 198.51.100.70")}
				return m
			case dns.IsSubDomain(sub, name):
				return vC07SoftNeg(sub, false)
			case name == "t.evil.l1." && q.Qtype == dns.TypeA:
				m := &dns.Msg{}
				m.Authoritative = true
				m.Answer = []dns.RR{vC07RR("t.evil.l1. 300 IN A 198.51.100.78")}
				return m
			}
			return l.honestEvil(q)
		})
		rep1 := p.ask(q1, dns.TypeA)
		p.rec.take()
		internal := irec.take()
		askedAttack := l.drainAsked()
		mu.Lock()
		ran := windowRan
		mu.Unlock()
		if !ran || rep2 == nil {
			// the referral did not lead to an address lookup at the delegated server (lost datagram, retry order):
			// nothing was staged, nothing can be concluded from this scenario
			p.close()
			l.evil.setHandle(l.honestEvil)
			emit(map[string]any{"k": "window", "inconclusive": true, "desc": fmt.Sprintf("the address lookup window did not open (first reply %v)", vC07RcodeOf(rep1))})
			continue
		}
		vis, glueObs, delegObs, glueDesc, delegDesc, repAns := vC07LabObserve(l, p, attack, rep2, sub, "ns1."+sub)
		bad, vdesc := l.health(p)
		p.close()
		l.evil.setHandle(l.honestEvil)
		goFail := vC07LabGoFail(l, qs, attack, rep2, vis, glueObs, delegObs, bad)
		var intDesc []string
		for _, ir := range internal {
			if ir.err {
				intDesc = append(intDesc, ir.name+": error")
				continue
			}
			intDesc = append(intDesc, fmt.Sprintf("%s %s: %s %v", ir.name, dns.TypeToString[ir.qtype], dns.RcodeToString[ir.rcode], vC07RRStrings(ir.answer)))
			for _, rr := range ir.answer {
				if !l.truth(rr) {
					goFail = "the resolver's own lookup of " + ir.name + " was answered with " + vC07Ident(rr) + ", which the zone owning that name never published"
				}
			}
		}
		for _, z := range provZone {
			if !strings.EqualFold(z, sub) {
				goFail = fmt.Sprintf("during the address lookup the delegation entry for %s carried the zone label %q: replies of its servers were judged against that", sub, z)
			}
		}
		emit(map[string]any{
			"k": "window-" + tags[0],
			"coq": fmt.Sprintf("CaseLab %s 3 (mk_q %s 1 1) %s [%s] %s %s %v", vC07N(sub).coq(), qn.coq(), attack.coq(),
				strings.Join(vis, ";"), vC07CoqNames(glueObs), vC07CoqNames(delegObs), len(bad) > 0),
			"nontrivial": true, "go_fail": goFail,
			"desc": map[string]any{"zone": sub, "first_question": q1, "question_during_address_lookup": qs, "qname_min_level": minLevel, "attack": tags,
				"sent_rcode": attack.rcode, "sent_answer": vC07DescRRs(attack.answer), "sent_authority": vC07DescRRs(attack.ns), "sent_additional": vC07DescRRs(attack.extra),
				"provisional_entry_zone_label": provZone, "first_client_rcode": vC07RcodeOf(rep1),
				"client_rcode": vC07RcodeOf(rep2), "client_reply_answer": repAns, "glue_cache": glueDesc, "delegation_cache": delegDesc,
				"resolver_internal_lookups": intDesc, "victim_replies": vdesc, "servers_asked": vC07Sorted(askedAttack)},
		})
	}
}
