//go:build verif

package dnssec

// C01 driver A: the pure DNSSEC verification entry points the resolver calls
// (VerifyDSWithWork, VerifyRRSIGWithWork, VerifyWildcardAnswerForZoneWithWork,
// ValidateSigner) on messages built from real keys and real signatures, then
// tampered. Each case carries the symbolic abstraction of the same message
// (see zz_verif_c01_abs_test.go) so coq/theories/C01/Run.v can run the model on
// it and judge the observed verdict against the specification.

import (
	"encoding/base64"
	"encoding/json"
	"os"
	"path/filepath"
	"sort"
	"errors"
	"fmt"
	"math/rand"
	"strings"
	"testing"
	"time"

	"github.com/miekg/dns"
)

func vC01KeyTag(k *dns.DNSKEY) uint16 { return KeyTag(k) }

func vC01Err(err error) string {
	if err == nil {
		return "None"
	}
	switch {
	case errors.Is(err, ErrNoDNSKEY):
		return "(Some ENoDNSKEY)"
	case errors.Is(err, ErrMissingKSK):
		return "(Some EMissingKSK)"
	case errors.Is(err, ErrFailedToConvertKSK):
		return "(Some EFailedToConvertKSK)"
	case errors.Is(err, ErrMismatchingDS):
		return "(Some EMismatchingDS)"
	case errors.Is(err, ErrNoSignatures):
		return "(Some ENoSignatures)"
	case errors.Is(err, ErrMissingDNSKEY):
		return "(Some EMissingDNSKEY)"
	case errors.Is(err, ErrInvalidSignaturePeriod):
		return "(Some EInvalidSignaturePeriod)"
	case errors.Is(err, ErrMissingSigned):
		return "(Some EMissingSigned)"
	case errors.Is(err, ErrDSRecords):
		return "(Some EDSRecords)"
	case errors.Is(err, ErrWildcardNoDenial):
		return "(Some EWildcardNoDenial)"
	case errors.Is(err, ErrNSECMissingCoverage):
		return "(Some ENSECMissingCoverage)"
	case errors.Is(err, dns.ErrAlg):
		return "(Some EAlg)"
	case errors.Is(err, dns.ErrSig):
		return "(Some ESig)"
	}
	if strings.Contains(err.Error(), "bad rdata") {
		return "(Some EPack)"
	}
	return "(Some (EOracle 6))"
}

type vC01Sig struct {
	set []dns.RR
	sig *dns.RRSIG
}

func vC01A(name string, ttl uint32, last byte) dns.RR {
	return &dns.A{Hdr: dns.RR_Header{Name: name, Rrtype: dns.TypeA, Class: dns.ClassINET, Ttl: ttl}, A: []byte{192, 0, 2, last}}
}

func vC01Sub(l, zone string) string {
	if zone == "." {
		return l + "."
	}
	return l + "." + zone
}

var vC01Zones = []string{"example.", "example.", "sub.example.", ".", "a.b.example.", "test."}
var vC01Algs = []uint8{dns.ED25519, dns.ED25519, dns.ECDSAP256SHA256}

// genSigCase builds one VerifyRRSIGWithWork case.
func vC01GenSig(r *rand.Rand, pool *vC01Pool, tr *vC01Trace) {
	w := vC01NewW(r)
	zone := vC01Zones[r.Intn(len(vC01Zones))]
	now := uint32(time.Now().Unix())
	inc, exp := now-6*3600, now+6*3600
	ksk := w.newKey(zone, 257, vC01Algs[r.Intn(len(vC01Algs))])
	zsk := w.newKey(zone, 256, vC01Algs[r.Intn(len(vC01Algs))])
	trusted := []*vC01Key{ksk, zsk}
	var kinds []string
	// a same-tag sibling of the ZSK: a second genuine zone key, or an unrelated key
	var twin *vC01Key
	if len(pool.pairs) > 0 && vC01Pin("sig.twin", r.Intn(3)) == 0 {
		p := pool.pairs[r.Intn(len(pool.pairs))]
		zsk = w.keyFromSeed(zone, 256, dns.ED25519, p[0])
		twin = w.keyFromSeed(zone, 256, dns.ED25519, p[1])
		trusted = []*vC01Key{ksk, zsk}
		switch r.Intn(3) {
		case 0:
			trusted = append(trusted, twin) // both in the key set
			kinds = append(kinds, "tag-twin-in-keys")
		case 1:
			trusted = []*vC01Key{ksk, twin, zsk}
			kinds = append(kinds, "tag-twin-first")
		default:
			twin = w.cloneKey(twin, vC01Sub("other", zone), 256)
			trusted = []*vC01Key{ksk, twin, zsk} // foreign-owner clone with the same tag
			kinds = append(kinds, "tag-twin-foreign-owner")
		}
	}
	attacker := w.newKey(zone, 256, dns.ED25519)           // claims the zone's name, not in the key set
	foreign := w.newKey(vC01Sub("evil", zone), 256, dns.ED25519) // another zone's key
	parentZone := "."
	if i := strings.Index(zone, "."); zone != "." && i+1 < len(zone) {
		parentZone = zone[i+1:]
	}
	parentKey := w.newKey(parentZone, 256, dns.ED25519)

	var ans, ns []dns.RR
	var signed []*vC01Sig
	altered := map[string]bool{}
	setKey := func(rr dns.RR) string {
		return strings.ToLower(rr.Header().Name) + "|" + fmt.Sprint(rr.Header().Rrtype)
	}
	signWith := func(k *vC01Key, set []dns.RR) *dns.RRSIG {
		s, err := w.sign(k, set, inc, exp)
		if err != nil {
			return nil
		}
		signed = append(signed, &vC01Sig{set: set, sig: s})
		return s
	}
	addSet := func(sec *[]dns.RR, k *vC01Key, set ...dns.RR) {
		*sec = append(*sec, set...)
		if k != nil {
			if s := signWith(k, set); s != nil {
				*sec = append(*sec, s)
			}
		}
	}
	shape := vC01Pin("sig.shape", r.Intn(7))
	switch shape {
	case 0, 1: // address RRset
		n := 1 + r.Intn(3)
		var set []dns.RR
		for i := 0; i < n; i++ {
			set = append(set, vC01A(vC01Sub("www", zone), 300, byte(10+i)))
		}
		addSet(&ans, zsk, set...)
		kinds = append(kinds, "a")
	case 2: // CNAME inside the zone and its target
		c := &dns.CNAME{Hdr: dns.RR_Header{Name: vC01Sub("alias", zone), Rrtype: dns.TypeCNAME, Class: dns.ClassINET, Ttl: 300}, Target: vC01Sub("www", zone)}
		addSet(&ans, zsk, c)
		addSet(&ans, zsk, vC01A(vC01Sub("www", zone), 300, 20))
		kinds = append(kinds, "cname")
	case 3: // DNAME + synthesised CNAME (unsigned by design)
		d := &dns.DNAME{Hdr: dns.RR_Header{Name: vC01Sub("d", zone), Rrtype: dns.TypeDNAME, Class: dns.ClassINET, Ttl: 300}, Target: "t.other."}
		addSet(&ans, zsk, d)
		target := "x.t.other."
		if vC01Pin("sig.badsynth", r.Intn(4)) == 0 {
			target = "x.wrong.other." // not what the DNAME yields
			kinds = append(kinds, "bad-synthesis")
			altered[strings.ToLower(vC01Sub("x.d", zone))+"|5"] = true
		}
		cOwner := vC01Sub("x.d", zone)
		switch vC01Pin("sig.cnameplace", r.Intn(5)) {
		case 0: // an unsigned CNAME AT the DNAME owner pointing at the DNAME target: not a synthesis (RFC 6672: names BELOW the owner)
			cOwner, target = vC01Sub("d", zone), "t.other."
			kinds = append(kinds, "cname-at-dname-owner")
			altered[strings.ToLower(cOwner)+"|5"] = true
		case 1: // two labels below the owner
			cOwner, target = vC01Sub("y.x.d", zone), "y.x.t.other."
			kinds = append(kinds, "cname-two-below")
		case 2: // a sibling of the owner
			cOwner, target = vC01Sub("x.e", zone), "x.t.other."
			kinds = append(kinds, "cname-beside-dname")
			altered[strings.ToLower(cOwner)+"|5"] = true
		}
		c := &dns.CNAME{Hdr: dns.RR_Header{Name: cOwner, Rrtype: dns.TypeCNAME, Class: dns.ClassINET, Ttl: 300}, Target: target}
		ans = append(ans, c)
		kinds = append(kinds, "dname")
	case 4: // wildcard expansion
		set := []dns.RR{vC01A(vC01Sub("*.w", zone), 300, 30)}
		s := signWith(zsk, set)
		expanded := vC01A(vC01Sub("foo.w", zone), 300, 30)
		ans = append(ans, expanded)
		if s != nil {
			s.Hdr.Name = expanded.Header().Name
			ans = append(ans, s)
			signed[len(signed)-1].set = []dns.RR{expanded}
		}
		kinds = append(kinds, "wildcard")
	case 5: // the zone's own DNSKEY RRset
		set := []dns.RR{ksk.key, zsk.key}
		ans = append(ans, set...)
		if s := signWith(ksk, set); s != nil {
			ans = append(ans, s)
		}
		if r.Intn(2) == 0 {
			if s := signWith(zsk, set); s != nil {
				ans = append(ans, s)
			}
		}
		kinds = append(kinds, "dnskey")
	default: // negative: nothing in the answer
		kinds = append(kinds, "negative")
	}
	// authority
	switch vC01Pin("sig.auth", r.Intn(4)) {
	case 0:
		soa := &dns.SOA{Hdr: dns.RR_Header{Name: zone, Rrtype: dns.TypeSOA, Class: dns.ClassINET, Ttl: 300}, Ns: "ns.", Mbox: "h.", Serial: 1, Refresh: 1, Retry: 1, Expire: 1, Minttl: 60}
		addSet(&ns, zsk, soa)
		nsec := &dns.NSEC{Hdr: dns.RR_Header{Name: zone, Rrtype: dns.TypeNSEC, Class: dns.ClassINET, Ttl: 60}, NextDomain: vC01Sub("zz", zone), TypeBitMap: []uint16{dns.TypeSOA, dns.TypeRRSIG, dns.TypeNSEC}}
		addSet(&ns, zsk, nsec)
		kinds = append(kinds, "auth-soa-nsec")
	case 1:
		nsr := &dns.NS{Hdr: dns.RR_Header{Name: zone, Rrtype: dns.TypeNS, Class: dns.ClassINET, Ttl: 300}, Ns: "ns1.example."}
		var k *vC01Key
		if r.Intn(2) == 0 {
			k = zsk
		}
		addSet(&ns, k, nsr)
		kinds = append(kinds, "auth-ns")
	case 2: // referral remnant owned outside the signer zone
		nsr := &dns.NS{Hdr: dns.RR_Header{Name: "elsewhere.", Rrtype: dns.TypeNS, Class: dns.ClassINET, Ttl: 300}, Ns: "ns.elsewhere."}
		ns = append(ns, nsr)
		if zone != "." {
			nsec := &dns.NSEC{Hdr: dns.RR_Header{Name: "elsewhere.", Rrtype: dns.TypeNSEC, Class: dns.ClassINET, Ttl: 60}, NextDomain: "f.", TypeBitMap: []uint16{dns.TypeNS}}
			ns = append(ns, nsec)
			kinds = append(kinds, "auth-foreign")
		}
	}

	// ---- tampering ----
	nops := []int{0, 0, 1, 1, 1, 2, 3}[vC01Pin("sig.nops", r.Intn(7))]
	var ops []string
	pickSig := func() *vC01Sig {
		if len(signed) == 0 {
			return nil
		}
		return signed[r.Intn(len(signed))]
	}
	replaceIn := func(sec *[]dns.RR, old, nw dns.RR) {
		for i, rr := range *sec {
			if rr == old {
				(*sec)[i] = nw
			}
		}
	}
	resign := func(k *vC01Key, s *vC01Sig, i0, e0 uint32) {
		ns2, err := w.sign(k, s.set, i0, e0)
		if err != nil {
			return
		}
		ns2.Hdr.Name = s.sig.Hdr.Name
		replaceIn(&ans, s.sig, ns2)
		replaceIn(&ns, s.sig, ns2)
		s.sig = ns2
	}
	for i := 0; i < nops; i++ {
		s := pickSig()
		op := r.Intn(24)
		switch {
		case op == 0 && s != nil:
			s.sig.SignerName = []string{parentZone, vC01Sub("evil", zone), vC01Sub("www", zone), "other."}[r.Intn(4)]
			ops = append(ops, "sig-signer")
		case op == 1 && s != nil:
			if r.Intn(2) == 0 && s.sig.Labels > 0 {
				s.sig.Labels--
			} else {
				s.sig.Labels++
			}
			ops = append(ops, "sig-labels")
		case op == 2 && s != nil:
			s.sig.Expiration = now - 3600
			s.sig.Inception = now - 7*3600
			ops = append(ops, "sig-window-field")
		case op == 3 && s != nil: // genuinely signed but outside its window
			switch r.Intn(4) {
			case 0:
				resign(zsk, s, now-48*3600, now-24*3600)
			case 1:
				resign(zsk, s, now+24*3600, now+48*3600)
			case 2:
				resign(zsk, s, now+6*3600, now-6*3600)
			default:
				resign(zsk, s, now-6*3600, now+(1<<31)-3600) // far end of the serial-number half space
			}
			ops = append(ops, "sig-window-signed")
		case op == 4 && s != nil:
			s.sig.TypeCovered = []uint16{dns.TypeAAAA, dns.TypeTXT, dns.TypeCNAME}[r.Intn(3)]
			ops = append(ops, "sig-covered")
		case op == 5 && s != nil:
			s.sig.KeyTag = []uint16{s.sig.KeyTag + 1, KeyTag(ksk.key), KeyTag(attacker.key)}[r.Intn(3)]
			ops = append(ops, "sig-keytag")
		case op == 6 && s != nil:
			s.sig.Algorithm = []uint8{dns.RSASHA256, dns.ECDSAP256SHA256, dns.ED25519, dns.ED448, dns.RSAMD5}[r.Intn(5)]
			ops = append(ops, "sig-alg")
		case op == 7 && s != nil:
			s.sig.Signature = vC01FlipSig(r, s.sig.Signature)
			ops = append(ops, "sig-bitflip")
		case op == 8 && s != nil:
			resign(attacker, s, inc, exp)
			ops = append(ops, "signed-by-untrusted-same-name")
		case op == 9 && s != nil:
			resign(foreign, s, inc, exp)
			ops = append(ops, "signed-by-foreign-zone")
		case op == 10 && s != nil:
			resign(parentKey, s, inc, exp)
			ops = append(ops, "signed-by-parent-key")
		case op == 11 && s != nil: // alter one record of a signed RRset
			old := s.set[r.Intn(len(s.set))]
			if a, ok := old.(*dns.A); ok {
				nw := dns.Copy(a).(*dns.A)
				nw.A = []byte{203, 0, 113, byte(r.Intn(250))}
				replaceIn(&ans, old, nw)
				replaceIn(&ns, old, nw)
				altered[setKey(old)] = true
				ops = append(ops, "alter-rdata")
			}
		case op == 12 && s != nil: // add a record to a signed RRset
			h := s.set[0].Header()
			if h.Rrtype == dns.TypeA {
				extra := vC01A(h.Name, h.Ttl, byte(200+r.Intn(50)))
				ans = append(ans, extra)
				altered[setKey(extra)] = true
				ops = append(ops, "add-record")
			}
		case op == 13 && s != nil && len(s.set) > 1: // drop a record
			old := s.set[0]
			ans = vC01Without(ans, old)
			ns = vC01Without(ns, old)
			altered[setKey(old)] = true
			ops = append(ops, "drop-record")
		case op == 14 && s != nil: // drop the signature
			ans = vC01Without(ans, s.sig)
			ns = vC01Without(ns, s.sig)
			ops = append(ops, "drop-sig")
		case op == 15 && s != nil: // garbage signature ahead of the real one
			g := dns.Copy(s.sig).(*dns.RRSIG)
			g.Signature = base64.StdEncoding.EncodeToString([]byte("garbage-garbage-garbage-garbage-garbage-garbage-garbage-garbage-"))
			g.SignerName = []string{s.sig.SignerName, parentZone}[r.Intn(2)]
			ans = append([]dns.RR{g}, ans...)
			ops = append(ops, "junk-sig-first")
		case op == 16: // foreign RRset in the answer
			f := vC01A("www.elsewhere.", 300, 99)
			ans = append(ans, f)
			if r.Intn(2) == 0 {
				if fs, err := w.sign(foreign, []dns.RR{f}, inc, exp); err == nil {
					ans = append(ans, fs)
				}
			}
			ops = append(ops, "inject-foreign-answer")
		case op == 17: // unsigned in-zone RRset
			u := vC01A(vC01Sub("extra", zone), 300, 77)
			if r.Intn(2) == 0 {
				ans = append(ans, u)
			} else {
				ns = append(ns, u)
			}
			altered[setKey(u)] = true
			ops = append(ops, "inject-unsigned-inzone")
		case op == 18 && s != nil: // class of the signature
			s.sig.Hdr.Class = dns.ClassCHAOS
			ops = append(ops, "sig-class")
		case op == 19 && s != nil:
			s.sig.OrigTtl++
			ops = append(ops, "sig-origttl")
		case op == 20 && s != nil: // move the signature to another owner
			s.sig.Hdr.Name = vC01Sub("moved", zone)
			ops = append(ops, "sig-owner")
		case op == 21 && s != nil: // duplicate signature
			ans = append(ans, dns.Copy(s.sig))
			ops = append(ops, "dup-sig")
		case op == 22 && s != nil: // upper-case the signer name
			s.sig.SignerName = strings.ToUpper(s.sig.SignerName)
			ops = append(ops, "sig-signer-case")
		case op == 23: // TTL of a record lowered in transit (not part of the signed data)
			if len(ans) > 0 {
				ans[0].Header().Ttl = 5
				ops = append(ops, "ttl-change")
			}
		}
	}

	// key set as verifyDNSSEC builds it: every supplied key under its own tag
	var keyList []*dns.DNSKEY
	for _, k := range trusted {
		keyList = append(keyList, k.key)
	}
	switch vC01Pin("sig.keys", r.Intn(12)) {
	case 0: // a key without the ZONE bit / wrong protocol rides along
		bad := w.cloneKey(zsk, zone, 0)
		keyList = append([]*dns.DNSKEY{bad.key}, keyList...)
		kinds = append(kinds, "nonzone-key")
	case 1:
		bad := w.cloneKey(zsk, zone, 256)
		bad.key.Protocol = 2
		keyList = append([]*dns.DNSKEY{bad.key}, keyList...)
		kinds = append(kinds, "proto2-key")
	case 2:
		keyList = nil
		kinds = append(kinds, "no-keys")
	case 3: // only a non-zone clone of the signing key is supplied
		bad := w.cloneKey(zsk, zone, 0)
		keyList = []*dns.DNSKEY{ksk.key, bad.key}
		kinds = append(kinds, "only-nonzone-clone")
	}
	keyMap := map[uint16][]*dns.DNSKEY{}
	for _, k := range keyList {
		keyMap[KeyTag(k)] = append(keyMap[KeyTag(k)], k)
	}
	// flat list in map-bucket order (bucket order is irrelevant to the model: candidates are filtered by tag)
	msg := new(dns.Msg)
	msg.SetQuestion(vC01Sub("www", zone), dns.TypeA)
	msg.Answer, msg.Ns = ans, ns
	signerArg := zone
	if vC01Pin("sig.upper", r.Intn(10)) == 0 {
		signerArg = strings.ToUpper(zone)
	}
	t0 := time.Now().Unix()
	ok, err := VerifyRRSIGWithWork(signerArg, keyMap, msg, nil)
	rk := vC01RankAll(ans, ns)
	coqAns, coqNs := w.coqRRs(ans, rk), w.coqRRs(ns, rk)
	coqKeys := w.coqKeys(keyList)
	signerCoq := w.name(zone)
	body := fmt.Sprintf("CaseSig %s %d %s %s %s %s %s %s", w.namesSorted(), t0, signerCoq, coqKeys, coqAns, coqNs, vC01Bool(ok), vC01Err(err))
	goFail := ""
	if ok {
		for _, rr := range ans {
			if rr.Header().Rrtype != dns.TypeRRSIG && altered[setKey(rr)] {
				goFail = "accepted an RRset the harness altered after signing: " + rr.String()
			}
		}
		for _, rr := range ns {
			if rr.Header().Rrtype != dns.TypeRRSIG && rr.Header().Rrtype != dns.TypeNS && altered[setKey(rr)] {
				goFail = "accepted an authority RRset the harness altered after signing: " + rr.String()
			}
		}
	}
	if len(ops) == 0 && len(kinds) > 0 && !ok && len(keyList) >= 2 && !vC01Has(kinds, "bad-synthesis") && !vC01Has(kinds, "only-nonzone-clone") &&
		!vC01Has(kinds, "cname-at-dname-owner") && !vC01Has(kinds, "cname-beside-dname") {
		goFail = "genuine message rejected: " + fmt.Sprint(err)
	}
	k := "sig-reject"
	if ok {
		k = "sig-accept"
	}
	tr.emit(map[string]any{"k": k + ":" + strings.Join(append(kinds, ops...), "+"), "coq": w.wrap(body), "nontrivial": len(ans)+len(ns) > 0, "go_fail": goFail,
		"desc": map[string]any{"signer": signerArg, "answer": vC01Pres(ans), "authority": vC01Pres(ns), "keys": vC01Pres(vC01KeysRR(keyList)), "ops": ops, "ok": ok, "err": fmt.Sprint(err)}})
}

func ans0Name(ans []dns.RR) string {
	if len(ans) == 0 {
		return ""
	}
	return ans[0].Header().Name
}

func vC01Has(l []string, s string) bool {
	for _, x := range l {
		if x == s {
			return true
		}
	}
	return false
}

func vC01KeysRR(keys []*dns.DNSKEY) []dns.RR {
	var l []dns.RR
	for _, k := range keys {
		l = append(l, k)
	}
	return l
}

func vC01Without(l []dns.RR, x dns.RR) []dns.RR {
	var out []dns.RR
	for _, rr := range l {
		if rr != x {
			out = append(out, rr)
		}
	}
	return out
}

// genDS builds one VerifyDSWithWork case.
func vC01GenDS(r *rand.Rand, pool *vC01Pool, tr *vC01Trace) {
	w := vC01NewW(r)
	zone := vC01Zones[r.Intn(len(vC01Zones))]
	ksk := w.newKey(zone, 257, vC01Algs[r.Intn(len(vC01Algs))])
	zsk := w.newKey(zone, 256, dns.ED25519)
	keys := []*dns.DNSKEY{ksk.key, zsk.key}
	var kinds []string
	var twin *vC01Key
	if len(pool.pairs) > 0 && vC01Pin("ds.twin", r.Intn(3)) == 0 {
		p := pool.pairs[r.Intn(len(pool.pairs))]
		ksk = w.keyFromSeed(zone, 256, dns.ED25519, p[0]) // a ZONE-bit key the DS points at
		twin = w.keyFromSeed(zone, 256, dns.ED25519, p[1])
		if r.Intn(2) == 0 {
			keys = []*dns.DNSKEY{twin.key, ksk.key, zsk.key}
		} else {
			keys = []*dns.DNSKEY{ksk.key, zsk.key, twin.key}
		}
		kinds = append(kinds, "tag-twin")
	}
	other := w.newKey(zone, 257, dns.ED25519) // a key the child does not publish
	var dsset []dns.RR
	n := 1 + vC01Pin("ds.n", r.Intn(3))
	for i := 0; i < n; i++ {
		dt := []uint8{dns.SHA256, dns.SHA256, dns.SHA1, dns.SHA384}[r.Intn(4)]
		switch vC01Pin("ds.entry", r.Intn(14)) {
		case 0, 1, 2, 3:
			if d := w.ds(ksk.key, dt); d != nil {
				dsset = append(dsset, d)
				kinds = append(kinds, "genuine")
			}
		case 4:
			if d := w.ds(other.key, dt); d != nil {
				dsset = append(dsset, d)
				kinds = append(kinds, "absent-key")
			}
		case 5: // right tag, wrong digest
			if d := w.ds(ksk.key, dt); d != nil {
				b := []byte(d.Digest)
				if b[0] == 'A' || b[0] == 'a' {
					b[0] = 'B'
				} else {
					b[0] = 'A'
				}
				d.Digest = string(b)
				dsset = append(dsset, d)
				kinds = append(kinds, "wrong-digest")
			}
		case 6: // unsupported digest type (GOST / 5)
			if d := w.ds(ksk.key, dns.SHA256); d != nil {
				d.DigestType = []uint8{3, 5, 0, 200}[r.Intn(4)]
				dsset = append(dsset, d)
				kinds = append(kinds, "unsupported-digest")
			}
		case 7: // unsupported algorithm advertised
			if d := w.ds(ksk.key, dt); d != nil {
				d.Algorithm = []uint8{dns.ECCGOST, dns.ED448, dns.RSAMD5, 200}[r.Intn(4)]
				dsset = append(dsset, d)
				kinds = append(kinds, "unsupported-alg")
			}
		case 8: // digest type relabelled without recomputing
			if d := w.ds(ksk.key, dns.SHA256); d != nil {
				d.DigestType = dns.SHA1
				dsset = append(dsset, d)
				kinds = append(kinds, "relabelled-digest-type")
			}
		case 9: // undecodable / empty digest
			if d := w.ds(ksk.key, dt); d != nil {
				d.Digest = []string{"", "zz", "abc"}[r.Intn(3)]
				dsset = append(dsset, d)
				kinds = append(kinds, "bad-hex")
			}
		case 10: // key tag field changed
			if d := w.ds(ksk.key, dt); d != nil {
				d.KeyTag = []uint16{d.KeyTag + 1, KeyTag(zsk.key)}[r.Intn(2)]
				dsset = append(dsset, d)
				kinds = append(kinds, "tag-changed")
			}
		case 11: // owner or class of the DS differs from the key's
			if d := w.ds(ksk.key, dt); d != nil {
				if r.Intn(2) == 0 {
					d.Hdr.Name = vC01Sub("x", zone)
				} else {
					d.Hdr.Class = dns.ClassCHAOS
				}
				dsset = append(dsset, d)
				kinds = append(kinds, "owner-or-class")
			}
		case 12: // DS for the ZSK (still a zone key)
			if d := w.ds(zsk.key, dt); d != nil {
				dsset = append(dsset, d)
				kinds = append(kinds, "ds-for-zsk")
			}
		case 13: // duplicate, digest in lower case
			if d := w.ds(ksk.key, dt); d != nil {
				d2 := dns.Copy(d).(*dns.DS)
				d2.Digest = strings.ToLower(d2.Digest)
				dsset = append(dsset, d, d2)
				kinds = append(kinds, "duplicate")
			}
		}
	}
	switch vC01Pin("ds.final", r.Intn(10)) {
	case 0: // the DS-matched key lacks the ZONE bit / protocol 3 in the child's set
		bad := w.cloneKey(ksk, zone, 1)
		keys = []*dns.DNSKEY{bad.key, zsk.key}
		kinds = append(kinds, "nonzone-ksk")
	case 1:
		bad := w.cloneKey(ksk, zone, ksk.key.Flags)
		bad.key.Protocol = 4
		keys = []*dns.DNSKEY{bad.key, zsk.key}
		kinds = append(kinds, "proto4-ksk")
	case 2:
		dsset = nil
		kinds = append(kinds, "empty-ds")
	}
	r.Shuffle(len(dsset), func(i, j int) { dsset[i], dsset[j] = dsset[j], dsset[i] })
	keyMap := map[uint16][]*dns.DNSKEY{}
	for _, k := range keys {
		keyMap[KeyTag(k)] = append(keyMap[KeyTag(k)], k)
	}
	unsup, err := VerifyDSWithWork(keyMap, dsset, nil)
	rk := vC01RankAll(dsset)
	_ = rk
	body := fmt.Sprintf("CaseDS %s %s %s %s", w.coqKeys(keys), w.coqRRs(dsset, rk), vC01Bool(unsup), vC01Err(err))
	// the keys DSMatchedKeys vouches for on the same input
	{
		got := DSMatchedKeys(keyMap, dsset, nil)
		seen := map[int]bool{}
		var mats []int
		for _, bucket := range got {
			for _, kk := range bucket {
				if m := w.mat(kk.PublicKey); !seen[m] {
					seen[m] = true
					mats = append(mats, m)
				}
			}
		}
		sort.Ints(mats)
		var ms []string
		for _, m := range mats {
			ms = append(ms, fmt.Sprint(m))
		}
		tr.emit(map[string]any{"k": fmt.Sprintf("ds-matched-keys:%d", len(mats)), "coq": w.wrap(fmt.Sprintf("CaseMatched %s %s [%s]", w.coqKeys(keys), w.coqRRs(dsset, rk), strings.Join(ms, ";"))), "nontrivial": len(dsset) > 0,
			"desc": map[string]any{"keys": vC01Pres(vC01KeysRR(keys)), "ds": vC01Pres(dsset), "kinds": kinds, "matched_materials": mats}})
	}
	k := "ds-reject"
	if err == nil {
		k = "ds-match"
	} else if unsup {
		k = "ds-unsupported-only"
	}
	tr.emit(map[string]any{"k": k, "coq": w.wrap(body), "nontrivial": len(dsset) > 0,
		"desc": map[string]any{"keys": vC01Pres(vC01KeysRR(keys)), "ds": vC01Pres(dsset), "kinds": kinds, "unsupportedOnly": unsup, "err": fmt.Sprint(err)}})
}

// genWild builds one VerifyWildcardAnswerForZoneWithWork case; the next-closer
// denial itself (NSEC/NSEC3 semantics) is the oracle, asked of the real code.
func vC01GenWild(r *rand.Rand, tr *vC01Trace) {
	w := vC01NewW(r)
	zone := []string{"example.", "sub.example."}[r.Intn(2)]
	now := uint32(time.Now().Unix())
	zsk := w.newKey(zone, 256, dns.ED25519)
	var ans, ns []dns.RR
	nsig := 1 + vC01Pin("wild.nsig", r.Intn(2))
	var kinds []string
	for i := 0; i < nsig; i++ {
		lbl := []string{"w", "v"}[i%2]
		set := []dns.RR{vC01A(vC01Sub("*."+lbl, zone), 300, byte(40+i))}
		s, err := w.sign(zsk, set, now-3600, now+3600)
		if err != nil {
			continue
		}
		owner := vC01Sub("foo."+lbl, zone)
		if r.Intn(4) == 0 {
			owner = vC01Sub("a.b."+lbl, zone) // two labels under the wildcard's parent
		}
		if vC01Pin("wild.exact", r.Intn(5)) == 0 { // not an expansion at all
			set = []dns.RR{vC01A(owner, 300, byte(40+i))}
			s, _ = w.sign(zsk, set, now-3600, now+3600)
			kinds = append(kinds, "exact")
		} else {
			kinds = append(kinds, "expanded")
		}
		exp := vC01A(owner, 300, byte(40+i))
		s.Hdr.Name = owner
		// an RRset may carry several signatures (key or algorithm rollover, replayed or junk ones), in any order
		// and with differing Labels fields; each one is looked at
		switch vC01Pin("wild.multi", r.Intn(6)) {
		case 0: // a full-label-count signature with garbage octets ahead of the real one
			d := dns.Copy(s).(*dns.RRSIG)
			d.Labels = uint8(dns.CountLabel(owner))
			d.Signature = vC01FlipSig(r, d.Signature)
			ans = append(ans, exp, d, s)
			kinds = append(kinds, "decoy-first")
		case 1: // ... or behind it
			d := dns.Copy(s).(*dns.RRSIG)
			d.Labels = uint8(dns.CountLabel(owner))
			d.Signature = vC01FlipSig(r, d.Signature)
			ans = append(ans, exp, s, d)
			kinds = append(kinds, "decoy-last")
		case 2: // the same signature twice
			ans = append(ans, exp, s, dns.Copy(s))
			kinds = append(kinds, "sig-twice")
		default:
			ans = append(ans, exp, s)
		}
		// denial material
		switch vC01Pin("wild.denial", r.Intn(6)) {
		case 0, 1: // NSEC covering the next closer name
			ncl := vC01NextCloser(owner, s.Labels)
			nsec := &dns.NSEC{Hdr: dns.RR_Header{Name: vC01Sub(lbl, zone), Rrtype: dns.TypeNSEC, Class: dns.ClassINET, Ttl: 60}, NextDomain: "zz." + ncl, TypeBitMap: []uint16{dns.TypeRRSIG, dns.TypeNSEC}}
			if r.Intn(3) == 0 {
				nsec.NextDomain = "a" + "." + vC01Sub(lbl, zone) // ends before the next closer
				kinds = append(kinds, "nsec-short")
			} else {
				kinds = append(kinds, "nsec-cover")
			}
			ns = append(ns, nsec)
		case 2, 3: // NSEC3 ring around the next closer hash
			ncl := vC01NextCloser(owner, s.Labels)
			h := dns.HashName(ncl, dns.SHA1, 0, "")
			optout := uint8(0)
			if r.Intn(2) == 0 {
				optout = 1
				kinds = append(kinds, "nsec3-optout")
			} else {
				kinds = append(kinds, "nsec3-cover")
			}
			lo, hi := vC01HashAdd(h, -1), vC01HashAdd(h, 1)
			if r.Intn(4) == 0 {
				lo, hi = vC01HashAdd(h, 1), vC01HashAdd(h, 2) // does not cover
				kinds = append(kinds, "nsec3-miss")
			}
			n3 := &dns.NSEC3{Hdr: dns.RR_Header{Name: lo + "." + zone, Rrtype: dns.TypeNSEC3, Class: dns.ClassINET, Ttl: 60}, Hash: dns.SHA1, Flags: optout, Iterations: 0, SaltLength: 0, Salt: "", HashLength: 20, NextDomain: hi, TypeBitMap: []uint16{dns.TypeA}}
			ns = append(ns, n3)
		default:
			kinds = append(kinds, "no-denial")
		}
	}
	resp := new(dns.Msg)
	resp.SetQuestion(ans0Name(ans), dns.TypeA)
	resp.Answer, resp.Ns = ans, ns
	signer := zone
	if r.Intn(3) == 0 {
		signer = ""
	}
	// oracle table: what the real next-closer check says for every expanded signature
	var nsecSet, nsec3Set []dns.RR
	for _, rr := range ns {
		switch rr.(type) {
		case *dns.NSEC:
			nsecSet = append(nsecSet, rr)
		case *dns.NSEC3:
			nsec3Set = append(nsec3Set, rr)
		}
	}
	var orc []string
	for _, rr := range ans {
		s, ok := rr.(*dns.RRSIG)
		if !ok {
			continue
		}
		labels := dns.SplitDomainName(s.Hdr.Name)
		if int(s.Labels) >= len(labels) {
			continue
		}
		nc := strings.Join(labels[len(labels)-int(s.Labels)-1:], ".") + "."
		denied, auth, err := nextCloserDeniedWithWork(nc, signer, nsecSet, nsec3Set, nil)
		res := fmt.Sprintf("WRes %s %s", vC01Bool(denied), vC01Bool(auth))
		if err != nil {
			res = "WErr " + strings.TrimSuffix(strings.TrimPrefix(vC01Err(err), "(Some "), ")")
		}
		orc = append(orc, fmt.Sprintf("(%s, %s)", w.name(nc), res))
	}
	secure, err := VerifyWildcardAnswerForZoneWithWork(resp, signer, nil)
	rk := vC01RankAll(ans, ns)
	body := fmt.Sprintf("CaseWild %s [%s] %s %s", w.coqRRs(ans, rk), strings.Join(orc, ";"), vC01Bool(secure), vC01Err(err))
	k := "wild-secure"
	if err != nil {
		k = "wild-error"
	} else if !secure {
		k = "wild-insecure"
	}
	tr.emit(map[string]any{"k": k, "coq": w.wrap(body), "nontrivial": len(orc) > 0,
		"desc": map[string]any{"answer": vC01Pres(ans), "authority": vC01Pres(ns), "kinds": kinds, "signer": signer, "secure": secure, "err": fmt.Sprint(err)}})
}

func vC01NextCloser(owner string, sigLabels uint8) string {
	labels := dns.SplitDomainName(owner)
	if int(sigLabels) >= len(labels) {
		return owner
	}
	return strings.Join(labels[len(labels)-int(sigLabels)-1:], ".") + "."
}

// base32hex arithmetic on the last character, enough to place a hash just around another
func vC01HashAdd(h string, d int) string {
	const alpha = "0123456789ABCDEFGHIJKLMNOPQRSTUV"
	b := []byte(strings.ToUpper(h))
	i := len(b) - 1
	for d != 0 && i >= 0 {
		v := strings.IndexByte(alpha, b[i]) + d
		d = 0
		if v < 0 {
			v += 32
			d = -1
		} else if v >= 32 {
			v -= 32
			d = 1
		}
		b[i] = alpha[v]
		i--
	}
	return string(b)
}

func vC01GenSigner(r *rand.Rand, tr *vC01Trace) {
	w := vC01NewW(r)
	names := []string{".", "example.", "sub.example.", "www.sub.example.", "evilexample.", "xexample.", "example.com.", "EXAMPLE.", "Sub.Example.", "a.b.c.example.", "b.c.example."}
	signer := names[r.Intn(len(names))]
	qname := names[r.Intn(len(names))]
	err := ValidateSigner(signer, qname)
	body := fmt.Sprintf("CaseSigner %s %s %s", w.name(signer), w.name(qname), vC01Err(err))
	k := "signer-ok"
	if err != nil {
		k = "signer-rejected"
	}
	tr.emit(map[string]any{"k": k, "coq": w.wrap(body), "nontrivial": true, "desc": map[string]any{"signer": signer, "qname": qname, "err": fmt.Sprint(err)}})
}

// corpus scenarios pin the generator choices that define them (everything else stays drawn)
var vC01Pins map[string]int

func vC01Pin(name string, drawn int) int {
	if v, ok := vC01Pins[name]; ok {
		return v
	}
	return drawn
}

func TestVerifC01Dnssec(t *testing.T) {
	tr := vC01Open(t)
	seed := int64(vC01EnvInt("VERIF_SEED", 1))
	n := vC01EnvInt("VERIF_N", 600)
	r := rand.New(rand.NewSource(seed*7919 + 101))
	pool := vC01BuildPool(rand.New(rand.NewSource(seed+5)), 1500, 256)
	if dir := os.Getenv("VERIF_CORPUS"); dir != "" {
		files, _ := filepath.Glob(filepath.Join(dir, "dnssec-*.json"))
		sort.Strings(files)
		for _, fn := range files {
			raw, err := os.ReadFile(fn)
			if err != nil {
				continue
			}
			var c struct {
				Kind string
				Pins map[string]int
			}
			if json.Unmarshal(raw, &c) != nil {
				continue
			}
			vC01Pins = c.Pins
			cr := rand.New(rand.NewSource(77))
			for j := 0; j < 4; j++ {
				switch c.Kind {
				case "sig":
					vC01GenSig(cr, pool, tr)
				case "ds":
					vC01GenDS(cr, pool, tr)
				case "wild":
					vC01GenWild(cr, tr)
				}
			}
			vC01Pins = nil
		}
	}
	for i := 0; i < n; i++ {
		switch {
		case i%10 < 6:
			vC01GenSig(r, pool, tr)
		case i%10 < 8:
			vC01GenDS(r, pool, tr)
		case i%10 < 9:
			vC01GenWild(r, tr)
		default:
			vC01GenSigner(r, tr)
		}
	}
}
