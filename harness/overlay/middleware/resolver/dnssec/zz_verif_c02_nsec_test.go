//go:build verif

package dnssec

// C02 driver, NSEC part: canonical order / suffix primitives, the three exact
// NSEC verifiers and the three aggressive NSEC entry points, run on subsets /
// orderings / polluted mixtures of generated zones' genuine NSEC chains.

import (
	"encoding/json"
	"fmt"
	"math/rand"
	"os"
	"path/filepath"
	"sort"
	"strings"
	"testing"

	"github.com/miekg/dns"
	"github.com/semihalev/sdns/internal/dnsname"
	"github.com/semihalev/sdns/internal/dnsutil"
)

type vC02Probe struct {
	q      vC02Name
	qtype  uint16
	qclass uint16
	dname  *[2]vC02Name // owner, target
	// observed
	ne, nd, dl      int
	ag, agp, ags    int
	agi, agpi, agsi []int
	eff             vC02Name // effective (DNAME-rewritten) question name
	effStr          string
	note            string
	fails           []vC02Failure
}

// one verdict of a probe that contradicts the ground truth
type vC02Failure struct{ field, msg, fkey string }

// only(field): a copy with every other verdict marked "not part of this case" (99)
func (p *vC02Probe) only(field string) *vC02Probe {
	q := *p
	if field != "ne" {
		q.ne = 99
	}
	if field != "nd" {
		q.nd = 99
	}
	if field != "dl" {
		q.dl = 99
	}
	if field != "ag" {
		q.ag, q.agp, q.ags, q.agi, q.agpi, q.agsi = 99, 99, 99, nil, nil, nil
	}
	return &q
}

// without(field): a copy with that verdict masked
func (p *vC02Probe) without(field string) *vC02Probe {
	q := *p
	switch field {
	case "ne":
		q.ne = 99
	case "nd":
		q.nd = 99
	case "dl":
		q.dl = 99
	case "ag":
		q.ag, q.agp, q.ags, q.agi, q.agpi, q.agsi = 99, 99, 99, nil, nil, nil
	}
	return &q
}

func (p *vC02Probe) coq() string {
	d := "None"
	if p.dname != nil {
		d = "(Some (" + vC02Coq(p.dname[0]) + "," + vC02Coq(p.dname[1]) + "))"
	}
	return fmt.Sprintf("mk_nprobe %s %d %d %s %d %d %d %s %s %s", vC02Coq(p.q), p.qtype, p.qclass, d,
		p.ne, p.nd, p.dl, vC02CoqAobs(p.ag, p.agi), vC02CoqAobs(p.agp, p.agpi), vC02CoqAobs(p.ags, p.agsi))
}

func (p *vC02Probe) desc() string {
	s := fmt.Sprintf("%s %s class=%d", vC02Pres(p.q), dns.TypeToString[p.qtype], p.qclass)
	if p.dname != nil {
		s += fmt.Sprintf(" [answer: %s DNAME %s => %s]", vC02Pres(p.dname[0]), vC02Pres(p.dname[1]), p.effStr)
	}
	return s + fmt.Sprintf(" -> NameErrorNSEC=%d NODATANSEC=%d DelegationNSEC=%d aggressive=%d%v prepared=%d%v set=%d%v %s",
		p.ne, p.nd, p.dl, p.ag, p.agi, p.agp, p.agpi, p.ags, p.agsi, p.note)
}

var vC02QTypes = []uint16{
	dns.TypeA, dns.TypeA, dns.TypeA, dns.TypeA, dns.TypeA, dns.TypeA,
	dns.TypeDS, dns.TypeDS, dns.TypeDS, dns.TypeNS, dns.TypeNS, dns.TypeCNAME,
	dns.TypeTXT, dns.TypeTXT, dns.TypeAAAA, dns.TypeSOA, dns.TypeDNAME, dns.TypeANY,
	dns.TypeNone, dns.TypeOPT, dns.TypeNSEC, dns.TypeRRSIG, dns.TypeMX, dns.TypeAXFR,
}

// vC02FlipSome toggles the case of about half the ASCII letters of every label, in both directions:
// the spelling of a name in a zone file, on the wire (RFC 6840 s5.1 keeps the case of NextDomain) and
// in a 0x20-mixed query are independent of one another.
func vC02FlipSome(r *rand.Rand, n vC02Name) vC02Name {
	o := make(vC02Name, len(n))
	for i, l := range n {
		c := append([]byte(nil), l...)
		for j, b := range c {
			if r.Intn(2) == 0 {
				if b >= 'a' && b <= 'z' {
					c[j] = b - 32
				} else if b >= 'A' && b <= 'Z' {
					c[j] = b + 32
				}
			}
		}
		o[i] = c
	}
	return o
}

func (g *vC02Gen) qtypeFor(z *vC02Zone, q vC02Name) uint16 {
	// below (or at) a zone cut the parent-side type DS and the child-side types are judged differently
	// by every route: ask both kinds often
	if how := z.existsHow(q); how == "below-cut" && g.r.Intn(3) == 0 {
		return dns.TypeDS
	}
	if nd := z.owner(q); nd != nil && g.r.Intn(6) == 0 {
		return nd.types[g.r.Intn(len(nd.types))]
	}
	return vC02QTypes[g.r.Intn(len(vC02QTypes))]
}

func (g *vC02Gen) qclass() uint16 {
	switch g.r.Intn(40) {
	case 0:
		return 3
	case 1:
		return 255
	case 2:
		return 0
	case 3:
		return 254
	}
	return 1
}

func TestVerifC02Nsec(t *testing.T) {
	tr := vC02Open(t)
	defer tr.f.Close()
	seed := int64(vC02EnvInt("VERIF_SEED", 1))
	n := vC02EnvInt("VERIF_N", 300)
	r := rand.New(rand.NewSource(seed*7919 + 11))
	g := &vC02Gen{r: r}

	// ---- primitives: CanonicalCompare, CompareSuffix, NameInZone
	for c := 0; c < n/2; c++ {
		g.newPool(false)
		base := vC02Name{}
		for d := r.Intn(3); d > 0; d-- {
			base = vC02Child(g.poolLabel(), base)
		}
		mk := func() vC02Name {
			x := base
			switch r.Intn(7) {
			case 0:
				return x
			case 1:
				if len(x) > 0 {
					return x[1:]
				}
			case 2:
				return vC02UpperSome(r, x)
			}
			for d := r.Intn(3); d >= 0; d-- {
				x = vC02Child(g.poolLabel(), x)
			}
			if r.Intn(4) == 0 && len(x) > 0 { // perturb one byte of one label
				i := r.Intn(len(x))
				l := append([]byte(nil), x[i]...)
				l[r.Intn(len(l))] = vC02Alphabet[r.Intn(len(vC02Alphabet))]
				y := append(vC02Name(nil), x...)
				y[i] = l
				x = y
			}
			return x
		}
		a, b := mk(), mk()
		if r.Intn(5) == 0 && len(b) > 0 {
			// prefix siblings: a is b with one label (any position) continued by a plain octet, the
			// names otherwise re-spelled independently
			i := r.Intn(len(b))
			a = append(vC02Name(nil), b...)
			a[i] = g.extend(b[i])
			if r.Intn(2) == 0 {
				a = vC02FlipSome(r, a)
			}
			if r.Intn(2) == 0 {
				a, b = b, a
			}
		} else if r.Intn(8) == 0 && len(b) > 0 {
			// a label that merely ends with the text of b's first label after a literal dot:
			// "x\.b.c." is not below "b.c."
			l := append(append(g.poolLabel(), '.'), b[0]...)
			a = vC02Child(l, b[1:])
			if r.Intn(3) == 0 {
				l = append(append(g.poolLabel(), '\\', '.'), b[0]...)
				a = vC02Child(l, b[1:])
			}
		}
		vC02CmpCase(tr, a, b, "cmp")
	}

	// ---- NSEC verifiers
	vC02Witnesses(tr, g)
	vC02NsecCorpus(t, tr, g)
	if os.Getenv("VERIF_TIER") == "thorough" {
		vC02Exhaustive(tr, g)
	}
	for c := 0; c < n; c++ {
		g.newPool(r.Intn(3) == 0)
		var apex vC02Name
		switch k := r.Intn(12); {
		case k == 0:
			apex = vC02Name{}
		case k < 7:
			apex = vC02Name{g.poolLabel()}
		default:
			apex = vC02Name{g.poolLabel(), g.poolLabel()}
		}
		z := g.genZone(apex, 1+r.Intn(9))
		vC02NsecCase(tr, g, z, nil)
	}
}


// vC02CmpCase: the three name primitives on one pair of names, judged by the independent RFC 4034 order
func vC02CmpCase(tr *vC02Trace, a, b vC02Name, kind string) {
	sa, sb := vC02Pres(a), vC02Pres(b)
	cmp := dnsname.CanonicalCompare(sa, sb)
	if cmp < 0 {
		cmp = -1
	} else if cmp > 0 {
		cmp = 1
	}
	shared := dnsname.CompareSuffix(sa, sb)
	inzone := dnsutil.NameInZone(dns.CanonicalName(sa), dns.CanonicalName(sb))
	fail := ""
	if want := vC02Cmp(a, b); want != cmp {
		fail = fmt.Sprintf("CanonicalCompare(%q,%q)=%d, RFC 4034 order says %d", sa, sb, cmp, want)
	} else if rev := dnsname.CanonicalCompare(sb, sa); (rev < 0) != (cmp > 0) || (rev > 0) != (cmp < 0) {
		fail = fmt.Sprintf("CanonicalCompare not antisymmetric on %q,%q", sa, sb)
	} else if want := vC02Shared(a, b); want != shared {
		fail = fmt.Sprintf("CompareSuffix(%q,%q)=%d, want %d", sa, sb, shared, want)
	} else if want := vC02Sub(a, b); want != inzone {
		fail = fmt.Sprintf("NameInZone(%q,%q)=%v, want %v", sa, sb, inzone, want)
	}
	tr.emit(map[string]any{
		"k":          kind,
		"coq":        fmt.Sprintf("(CaseCmp %s %s %d %d %v)%%N", vC02Coq(a), vC02Coq(b), cmp+1, shared, inzone),
		"go_fail":    fail,
		"nontrivial": cmp != 0 || len(a) > 0,
		"desc":       fmt.Sprintf("a=%q b=%q cmp=%d shared=%d inzone=%v", sa, sb, cmp, shared, inzone),
	})
}

type vC02FixedProbe struct {
	q     vC02Name
	qtype uint16
}

// controls for the exhaustive (thorough) sweep: which chain records to hand over, and whether a
// case without an unlisted failure is written to the trace (all are judged by the Go oracle)
var (
	vC02Subset    []int
	vC02SubsetSet bool
	vC02Quiet     bool
	vC02KindTag   string
	vC02Swept     int
	vC02SweptFail int
)


// corpus/C02/nsec-*.json: fixed regression inputs (minimal forms of what seeded changes were caught on),
// replayed first on every run.  kind "cmp": pairs of names for the name primitives; kind "zone": a zone,
// the positions of the chain records handed over, extra records of other zones (note "child": a child
// zone's record replayed into the answer), and the questions.
type vC02CorpusRec struct {
	Owner [][]int `json:"owner"`
	Next  [][]int `json:"next"`
	Types []uint16 `json:"types"`
	Note  string  `json:"note"`
}
type vC02CorpusFile struct {
	Kind  string `json:"kind"`
	Pairs []struct {
		A [][]int `json:"a"`
		B [][]int `json:"b"`
	} `json:"pairs"`
	Apex  [][]int `json:"apex"`
	Nodes []struct {
		Name  [][]int  `json:"name"`
		Types []uint16 `json:"types"`
	} `json:"nodes"`
	Subset []int           `json:"subset"`
	Extra  []vC02CorpusRec `json:"extra"`
	Probes []struct {
		Q     [][]int `json:"q"`
		Qtype uint16  `json:"qtype"`
	} `json:"probes"`
}

func vC02CorpusName(ls [][]int) vC02Name {
	n := make(vC02Name, len(ls))
	for i, l := range ls {
		n[i] = make([]byte, len(l))
		for j, b := range l {
			n[i][j] = byte(b)
		}
	}
	return n
}

var vC02Extra []vC02Rec

func vC02NsecCorpus(t *testing.T, tr *vC02Trace, g *vC02Gen) {
	dir := os.Getenv("VERIF_CORPUS")
	if dir == "" {
		return
	}
	files, _ := filepath.Glob(filepath.Join(dir, "nsec-*.json"))
	sort.Strings(files)
	for _, f := range files {
		b, err := os.ReadFile(f)
		if err != nil {
			t.Fatalf("corpus %s: %v", f, err)
		}
		var cf vC02CorpusFile
		if err := json.Unmarshal(b, &cf); err != nil {
			t.Fatalf("corpus %s: %v", f, err)
		}
		switch cf.Kind {
		case "cmp":
			for _, p := range cf.Pairs {
				vC02CmpCase(tr, vC02CorpusName(p.A), vC02CorpusName(p.B), "cmp-corpus")
				vC02CmpCase(tr, vC02CorpusName(p.B), vC02CorpusName(p.A), "cmp-corpus")
			}
		case "zone":
			var nodes []vC02Node
			for _, nd := range cf.Nodes {
				nodes = append(nodes, vC02Node{vC02CorpusName(nd.Name), nd.Types})
			}
			z := vC02MkZone(vC02CorpusName(cf.Apex), nodes...)
			var probes []vC02FixedProbe
			for _, p := range cf.Probes {
				probes = append(probes, vC02FixedProbe{vC02CorpusName(p.Q), p.Qtype})
			}
			vC02Extra = nil
			for _, e := range cf.Extra {
				vC02Extra = append(vC02Extra, vC02Rec{owner: vC02CorpusName(e.Owner), next: vC02CorpusName(e.Next), types: e.Types, class: 1, note: e.Note})
			}
			vC02Subset, vC02SubsetSet, vC02KindTag = append([]int(nil), cf.Subset...), true, "corpus"
			g.newPool(true)
			vC02NsecCase(tr, g, z, probes)
			vC02SubsetSet, vC02Extra = false, nil
		default:
			t.Fatalf("corpus %s: unknown kind %q", f, cf.Kind)
		}
	}
}

func vC02N(labels ...string) vC02Name {
	var n vC02Name
	for _, l := range labels {
		n = append(n, []byte(l))
	}
	return n
}

func vC02MkZone(apex vC02Name, nodes ...vC02Node) *vC02Zone {
	z := &vC02Zone{apex: apex, nodes: nodes}
	z.index()
	return z
}

// the witnesses of the Coq refutation theorems (Proofs_NsecTop.v), replayed on the real code first
func vC02Witnesses(tr *vC02Trace, g *vC02Gen) {
	apexT := []uint16{2, 6, 46, 47, 48}
	plain := []uint16{1, 46, 47}
	deleg := []uint16{2, 46, 47}
	e := vC02N("e")
	// w_zone_ent: only a.b.e. below b.e.
	vC02NsecCase(tr, g, vC02MkZone(e, vC02Node{e, apexT}, vC02Node{vC02N("a", "b", "e"), plain}),
		[]vC02FixedProbe{{vC02N("b", "e"), 1}, {vC02N("c", "e"), 1}})
	// w_zone_cut: delegation s.e.; x.s.e. is below it; s.e. A is the child's
	vC02NsecCase(tr, g, vC02MkZone(e, vC02Node{e, apexT}, vC02Node{vC02N("s", "e"), deleg}, vC02Node{vC02N("z", "e"), plain}),
		[]vC02FixedProbe{{vC02N("x", "s", "e"), 1}, {vC02N("s", "e"), 1}, {vC02N("s", "e"), 43}, {vC02N("t", "e"), 1}})
	// w_zone_went: the wildcard *.e. is an empty non-terminal
	vC02NsecCase(tr, g, vC02MkZone(e, vC02Node{e, apexT}, vC02Node{vC02N("a", "*", "e"), plain}),
		[]vC02FixedProbe{{vC02N("x", "e"), 1}})
	// root zone owning a wildcard
	root := vC02Name{}
	vC02NsecCase(tr, g, vC02MkZone(root, vC02Node{root, apexT}, vC02Node{vC02N("*"), plain}, vC02Node{vC02N("com"), deleg}),
		[]vC02FixedProbe{{vC02N("x"), 1}, {vC02N("x"), 28}})
}

// one zone -> one record set -> several probes
func vC02NsecCase(tr *vC02Trace, g *vC02Gen, z *vC02Zone, fixed []vC02FixedProbe) {
	r := g.r
	chain := z.nsecChain()
	cands := g.candidates(z)

	// subset of the genuine chain
	var recs []vC02Rec
	kind := ""
	switch k := r.Intn(10); {
	case k < 3:
		kind = "full"
		recs = append(recs, chain...)
	case k < 7:
		kind = "subset"
		for _, rc := range chain {
			if r.Intn(2) == 0 {
				recs = append(recs, rc)
			}
		}
	case k < 9:
		kind = "few"
		for i := 0; i < 1+r.Intn(2); i++ {
			recs = append(recs, chain[r.Intn(len(chain))])
		}
	default:
		kind = "empty"
	}
	if fixed != nil {
		kind = "witness"
		recs = append([]vC02Rec(nil), chain...)
		if vC02SubsetSet {
			kind = vC02KindTag
			recs = nil
			for _, i := range vC02Subset {
				recs = append(recs, chain[i])
			}
			recs = append(recs, vC02Extra...)
		}
	}
	// pollution
	var child *vC02Zone
	polluted := ""
	if fixed == nil && r.Intn(100) < 40 {
		switch r.Intn(13) {
		case 0: // records of a sibling zone
			if len(z.apex) > 0 {
				sib := append([]byte(nil), z.apex[0]...)
				sib[len(sib)-1] ^= 1
				sz := g.genZone(vC02Child(sib, z.apex[1:]), 3)
				for _, rc := range sz.nsecChain() {
					rc.genuine = false
					rc.note = "sibling"
					recs = append(recs, rc)
				}
				polluted = "sibling"
			}
		case 1, 2, 8, 9, 10, 11, 12: // records of a child zone below one of the delegations (any of them)
			var cuts []vC02Node
			for _, nd := range z.nodes {
				if vC02Has(nd.types, dns.TypeNS) && !vC02Has(nd.types, dns.TypeSOA) {
					cuts = append(cuts, nd)
				}
			}
			if len(cuts) > 0 {
				nd := cuts[r.Intn(len(cuts))]
				if last := z.nodes[len(z.nodes)-1]; vC02Key(nd.name) == vC02Key(last.name) {
					nd = cuts[r.Intn(len(cuts))] // prefer a cut that has names of the zone after it
				}
				child = g.genZone(nd.name, 1+r.Intn(4))
				for try := 0; try < 3 && len(child.nodes) < 2; try++ { // an apex-only child has one singleton record
					child = g.genZone(nd.name, 2+r.Intn(3))
				}
				// the parent's NSEC at the delegation point and the child's apex NSEC have the same owner
				// (a conflict refuses the whole set): both together only in a quarter of such mixtures
				parentAtCut := false
				for _, rc := range recs {
					if vC02Key(rc.owner) == vC02Key(nd.name) {
						parentAtCut = true
					}
				}
				skipApex := parentAtCut && r.Intn(4) > 0
				cc := child.nsecChain()
				all := r.Intn(3) == 0
				for i, rc := range cc {
					if i == 0 && skipApex {
						continue
					}
					// the chain-closing record (NextDomain = the child apex) is the one that reaches
					// furthest: replayed in two mixtures out of three, the others at random
					if all || r.Intn(2) == 0 || (i == len(cc)-1 && r.Intn(3) > 0) {
						rc.genuine = false
						rc.note = "child"
						recs = append(recs, rc)
					}
				}
				polluted = "child"
			}
		case 3: // forged: in-zone owner, NextDomain outside the zone
			o := cands[r.Intn(len(cands))]
			out := vC02Name{[]byte("zz"), []byte("outside")}
			recs = append(recs, vC02Rec{owner: o, next: out, types: []uint16{dns.TypeA, dns.TypeRRSIG, dns.TypeNSEC}, class: 1, note: "next-outside"})
			polluted = "next-outside"
		case 4: // genuine content, other class
			if len(recs) > 0 {
				rc := recs[r.Intn(len(recs))]
				rc.class = 3
				rc.note = "class"
				recs = append(recs, rc)
				polluted = "class"
			}
		case 5: // exact duplicate (still a sub-multiset of the chain), possibly in another case
			if len(recs) > 0 {
				rc := recs[r.Intn(len(recs))]
				rc.owner = vC02UpperSome(r, rc.owner)
				rc.next = vC02UpperSome(r, rc.next)
				recs = append(recs, rc)
				polluted = "duplicate"
			}
		case 6: // conflicting record for an owner already present
			if len(recs) > 0 {
				rc := recs[r.Intn(len(recs))]
				rc.genuine = false
				rc.note = "conflict"
				if r.Intn(2) == 0 {
					rc.types = vC02SortTypes(append(append([]uint16(nil), rc.types...), dns.TypeSRV))
				} else {
					rc.next = cands[r.Intn(len(cands))]
				}
				recs = append(recs, rc)
				polluted = "conflict"
			}
		case 7: // made-up interval inside the zone
			a, b := cands[r.Intn(len(cands))], cands[r.Intn(len(cands))]
			if vC02Sub(a, z.apex) && vC02Sub(b, z.apex) {
				recs = append(recs, vC02Rec{owner: a, next: b, types: []uint16{dns.TypeA, dns.TypeRRSIG, dns.TypeNSEC}, class: 1, note: "made-up"})
				polluted = "made-up"
			}
		}
	}
	// genuineness is a matter of content: owner, next and bitmap of a chain link
	for i := range recs {
		recs[i].genuine = false
		for _, cl := range chain {
			if vC02Key(cl.owner) == vC02Key(recs[i].owner) && vC02Key(cl.next) == vC02Key(recs[i].next) &&
				vC02CoqTypes(cl.types) == vC02CoqTypes(recs[i].types) {
				recs[i].genuine = true
			}
		}
	}
	r.Shuffle(len(recs), func(i, j int) { recs[i], recs[j] = recs[j], recs[i] })
	if len(recs) > 14 {
		recs = recs[:14]
	}
	// the zone file's / the wire's spelling: in a quarter of the cases every owner and NextDomain is
	// re-spelled independently, letter by letter, at every label (content and genuineness unchanged)
	if fixed == nil && r.Intn(4) == 0 {
		for i := range recs {
			recs[i].owner = vC02FlipSome(r, recs[i].owner)
			recs[i].next = vC02FlipSome(r, recs[i].next)
		}
	}

	var rrs []dns.RR
	for _, rc := range recs {
		rrs = append(rrs, rc.rr())
	}
	rrs = vC02RoundTrip(rrs)
	signer := z.apex
	if fixed == nil && r.Intn(5) == 0 {
		signer = vC02UpperSome(r, signer)
	}
	signerStr := vC02Pres(signer)
	filtered := dnsutil.FilterRRsToZone(rrs, signerStr)
	var kept []int
	var keptRecs []vC02Rec
	for _, f := range filtered {
		for i, rr := range rrs {
			if rr == f {
				kept = append(kept, i)
				keptRecs = append(keptRecs, recs[i])
			}
		}
	}
	prefilter := r.Intn(3) > 0
	aggrIn, aggrRecs := rrs, recs
	if prefilter {
		aggrIn, aggrRecs = filtered, keptRecs
	}
	// the exact verifiers are judged when every record they saw is a genuine record of z;
	// the aggressive evaluators also when genuine records of a child zone are mixed in
	// (then the child zone is the truth for names at or below its apex)
	judge := func(rs []vC02Rec, aggr bool) bool {
		for _, rc := range rs {
			if !(rc.genuine || (aggr && rc.note == "child")) {
				return false
			}
			if aggr && rc.class != 1 {
				return false
			}
		}
		return true
	}
	exactJudged, aggrJudged := judge(keptRecs, false), judge(aggrRecs, true)

	// truth in the world made of z and (when its records are mixed in) the child zone
	truth := func(q vC02Name, qtype uint16) (*vC02Zone, bool) {
		if !vC02Sub(q, z.apex) {
			return nil, false
		}
		// DS at the cut is the parent's data; everything else at or below the cut is the child's
		if child != nil && (vC02StrictSub(q, child.apex) || (vC02Sub(q, child.apex) && qtype != dns.TypeDS)) {
			hasChild := false
			for _, rc := range recs {
				if rc.note == "child" {
					hasChild = true
				}
			}
			if hasChild {
				return child, true
			}
		}
		return z, true
	}

	nprobes := 4 + r.Intn(4)
	// records of another zone mixed in: what they must not touch are the zone's own names — ask about
	// three more of its owners
	ownProbes := 0
	var reach []vC02Name
	if polluted == "child" || polluted == "sibling" {
		// names of the zone (owners first) outside the foreign zone's subtree that sort after the last /
		// before the first foreign record supplied: where an over-reaching interval would land
		var lo, hi vC02Name
		for _, rc := range recs {
			if rc.note == "child" || rc.note == "sibling" {
				if lo == nil || vC02Cmp(rc.owner, lo) < 0 {
					lo = rc.owner
				}
				if hi == nil || vC02Cmp(rc.owner, hi) > 0 {
					hi = rc.owner
				}
			}
		}
		for _, nd := range z.nodes {
			if hi != nil && (child == nil || !vC02Sub(nd.name, child.apex)) && (vC02Cmp(nd.name, hi) > 0 || vC02Cmp(nd.name, lo) < 0) {
				reach = append(reach, nd.name)
			}
		}
		ownProbes = 3
		if len(reach) > 3 {
			ownProbes = 5
		}
		nprobes += ownProbes
	}
	if fixed != nil {
		nprobes = len(fixed)
	}
	var probes []*vC02Probe
	for i := 0; i < nprobes; i++ {
		p := &vC02Probe{}
		if fixed != nil {
			p.q, p.qtype, p.qclass = fixed[i].q, fixed[i].qtype, 1
		} else {
			p.q = cands[r.Intn(len(cands))]
			if i < ownProbes {
				p.q = z.nodes[r.Intn(len(z.nodes))].name
				if len(reach) > 0 && r.Intn(4) > 0 {
					p.q = reach[r.Intn(len(reach))]
				}
			} else if len(recs) > 0 && r.Intn(5) == 0 { // interval end points of the records actually supplied
				rc := recs[r.Intn(len(recs))]
				if r.Intn(2) == 0 {
					p.q = rc.next
				} else {
					p.q = rc.owner
				}
			}
			if r.Intn(3) == 0 { // 0x20-mixed query spelling, independent of the records' spelling
				p.q = vC02FlipSome(r, p.q)
			}
			p.qtype = g.qtypeFor(z, p.q)
			p.qclass = g.qclass()
		}
		if fixed == nil && r.Intn(12) == 0 && len(p.q) > 0 {
			var o vC02Name
			switch r.Intn(4) {
			case 0:
				o = p.q
			case 1:
				o = cands[r.Intn(len(cands))]
			default:
				o = p.q[1+r.Intn(len(p.q)):]
			}
			tg := cands[r.Intn(len(cands))]
			if len(tg) == 0 {
				tg = vC02Name{[]byte("t")}
			}
			p.dname = &[2]vC02Name{o, tg}
		}
		qs := vC02Pres(p.q)
		msg := new(dns.Msg)
		msg.SetQuestion(qs, p.qtype)
		msg.Question[0].Qclass = p.qclass
		msg.Response = true
		p.eff, p.effStr = p.q, qs
		if p.dname != nil {
			msg.Answer = []dns.RR{&dns.DNAME{Hdr: dns.RR_Header{Name: vC02Pres(p.dname[0]), Rrtype: dns.TypeDNAME, Class: 1, Ttl: 300}, Target: vC02Pres(p.dname[1])}}
			if tgt := dnsutil.DnameTarget(msg); tgt != "" {
				p.effStr = tgt
				k := len(p.q) - len(p.dname[0])
				p.eff = append(append(vC02Name(nil), p.q[:k]...), p.dname[1]...)
			}
		}
		p.ne = vC02ErrClass(VerifyNameErrorNSEC(msg, filtered))
		p.nd = vC02ErrClass(VerifyNODATANSEC(msg, filtered))
		p.dl = vC02ErrClass(VerifyDelegationNSEC(qs, filtered))
		pq := msg.Question[0]
		pq.Name = p.effStr
		res, err := EvaluateAggressiveNSEC(pq, signerStr, aggrIn)
		p.ag, p.agi = vC02AggrObs(res, err, aggrIn)
		// prepared
		var prepared []PreparedNSEC
		var perr error
		for _, rr := range aggrIn {
			pn, e := PrepareAggressiveNSEC(rr.(*dns.NSEC))
			if e != nil {
				perr = e
				break
			}
			prepared = append(prepared, pn)
		}
		if perr != nil {
			p.agp, p.ags = vC02ErrClass(perr), vC02ErrClass(perr)
		} else {
			res, err = EvaluateAggressiveNSECPrepared(pq, signerStr, prepared)
			p.agp, p.agpi = vC02AggrObs(res, err, aggrIn)
			set, serr := NewAggressiveNSECSet(prepared, signerStr)
			if serr != nil {
				p.ags = vC02ErrClass(serr)
			} else {
				res, err = EvaluateAggressiveNSECSet(pq, set)
				p.ags, p.agsi = vC02AggrObs(res, err, aggrIn)
			}
		}

		// ---- ground truth, verdict by verdict
		if tz, ok := truth(p.eff, p.qtype); ok {
			how := z.existsHow(p.eff)
			ndTrue := z.nodataTrue(p.eff, p.qtype)
			p.note = fmt.Sprintf("[truth: exists=%q nodata=%v]", how, ndTrue)
			// (findings nsec-nxdomain-ent / -below-cut / -wildcard-ent / -root-wildcard and
			// nsec-nodata-at-delegation were fixed by 130ba3b: no input class is tolerated any more)
			neKey, ndKey := "", ""
			if exactJudged && p.ne == 0 && how != "" {
				p.fails = append(p.fails, vC02Failure{field: "ne", fkey: neKey,
					msg: fmt.Sprintf("VerifyNameErrorNSEC accepted NXDOMAIN for %s which exists (%s)", p.effStr, how)})
			} else if neKey != "" {
				p.fails = append(p.fails, vC02Failure{field: "ne", fkey: neKey})
			}
			if exactJudged && p.nd == 0 && !ndTrue {
				p.fails = append(p.fails, vC02Failure{field: "nd", fkey: ndKey,
					msg: fmt.Sprintf("VerifyNODATANSEC accepted NODATA for %s %s which is not true of the zone", p.effStr, dns.TypeToString[p.qtype])})
			} else if ndKey != "" {
				p.fails = append(p.fails, vC02Failure{field: "nd", fkey: ndKey})
			}
			if exactJudged {
				if p.dl == 0 && vC02Sub(p.q, z.apex) && !z.insecureDelegation(p.q) {
					p.fails = append(p.fails, vC02Failure{field: "dl", msg: fmt.Sprintf("VerifyDelegationNSEC accepted %s as an insecure delegation", qs)})
				}
			}
			if aggrJudged {
				how, ndTrue = tz.existsHow(p.eff), tz.nodataTrue(p.eff, p.qtype)
				for _, o := range []struct {
					code int
					name string
				}{{p.ag, "EvaluateAggressiveNSEC"}, {p.agp, "EvaluateAggressiveNSECPrepared"}, {p.ags, "EvaluateAggressiveNSECSet"}} {
					if o.code == 13 && (how != "" || p.qclass != 1) {
						p.fails = append(p.fails, vC02Failure{field: "ag", msg: fmt.Sprintf("%s synthesised NXDOMAIN for %s which exists (%s) / class %d", o.name, p.effStr, how, p.qclass)})
						break
					} else if o.code == 10 && (!ndTrue || p.qclass != 1) {
						p.fails = append(p.fails, vC02Failure{field: "ag", msg: fmt.Sprintf("%s synthesised NODATA for %s %s which is not true of the zone", o.name, p.effStr, dns.TypeToString[p.qtype])})
						break
					}
				}
			}
		}
		if p.ag != p.agp || fmt.Sprint(p.agi) != fmt.Sprint(p.agpi) {
			p.fails = append(p.fails, vC02Failure{field: "ag", msg: "EvaluateAggressiveNSEC and EvaluateAggressiveNSECPrepared disagree"})
		}
		probes = append(probes, p)
	}

	var rcoq, rdesc []string
	for i, rc := range recs {
		rcoq = append(rcoq, rc.coq())
		rdesc = append(rdesc, strings.TrimSpace(fmt.Sprintf("%d: %s NSEC %s %s class=%d %s", i, vC02Pres(rc.owner), vC02Pres(rc.next), vC02CoqTypes(rc.types), rc.class, rc.note)))
	}
	emit := func(ps []*vC02Probe, fkey, fail string) {
		vC02Swept += len(ps)
		if fail != "" && fkey == "" {
			vC02SweptFail++
		}
		if vC02Quiet && (fail == "" || fkey != "") {
			return
		}
		var pc, pd []string
		denial, refusal := false, false
		for _, p := range ps {
			pc = append(pc, p.coq())
			pd = append(pd, p.desc())
			for _, v := range []int{p.ne, p.nd, p.dl, p.ag, p.ags} {
				if v == 0 || v >= 10 {
					denial = true
				} else {
					refusal = true
				}
			}
		}
		k := "nsec-" + kind
		if polluted != "" {
			k += "+" + polluted
		}
		m := map[string]any{
			"k": k,
			"coq": fmt.Sprintf("(CaseNsec %s %s [%s] %s %v [%s])%%N", z.coq(), vC02Coq(signer), strings.Join(rcoq, ";"),
				vC02CoqInts(kept), prefilter, strings.Join(pc, ";")),
			"go_fail":    fail,
			"nontrivial": len(recs) > 0 && denial && refusal,
			"desc":       map[string]any{"zone": z.desc(), "signer": signerStr, "records": rdesc, "kept_by_FilterRRsToZone": kept, "aggressive_input_filtered": prefilter, "probes": pd},
		}
		if fkey != "" {
			m["fkey"] = fkey
		}
		tr.emit(m)
	}
	// a verdict that reproduces a listed finding travels alone with its key, so that it can never
	// hide another failure on the same probe
	var group []*vC02Probe
	for _, p := range probes {
		rest := p
		unlisted := ""
		for _, f := range p.fails {
			if f.fkey != "" {
				emit([]*vC02Probe{p.only(f.field)}, f.fkey, f.msg)
				rest = rest.without(f.field)
			} else if unlisted == "" {
				unlisted = f.msg
			}
		}
		if unlisted != "" {
			emit([]*vC02Probe{rest}, "", unlisted)
		} else {
			group = append(group, rest)
		}
	}
	if len(group) > 0 {
		emit(group, "", "")
	}
}

// vC02Exhaustive: every zone over the label alphabet {a, b, *} below the apex "e."
//
//	(A) owners of depth <= 2, at most 4 of them;  (B) owners of depth <= 3, at most 2 of them;
//
// each with every choice of at most one special owner (delegation without DS, delegation with DS,
// DNAME — never at a wildcard); every non-empty subset of the genuine chain; every question name
// of the same universe (plus the apex) for types A and DS.  Every verdict is judged by the Go
// oracle; one case in vC02SweepStride (and every failing one) also goes through the Coq model.
const vC02SweepStride = 389

func vC02Exhaustive(tr *vC02Trace, g *vC02Gen) {
	apex := vC02N("e")
	labels := []string{"a", "b", "*"}
	universe := func(depth int) []vC02Name {
		var out []vC02Name
		var rec func(prefix vC02Name, d int)
		rec = func(prefix vC02Name, d int) {
			if d == 0 {
				return
			}
			for _, l := range labels {
				n := vC02Child([]byte(l), prefix)
				out = append(out, n)
				rec(n, d-1)
			}
		}
		rec(apex, depth)
		return out
	}
	apexT := []uint16{2, 6, 46, 47, 48}
	plain := []uint16{1, 46, 47}
	specials := [][]uint16{{2, 46, 47}, {2, 43, 46, 47}, {39, 46, 47}}
	counter := 0
	sweep := func(names []vC02Name, maxOwners int, tag string) {
		questions := append([]vC02Name{apex}, names...)
		var probes []vC02FixedProbe
		for _, q := range questions {
			probes = append(probes, vC02FixedProbe{q, 1}, vC02FixedProbe{q, 43})
		}
		var choose func(start int, picked []int)
		choose = func(start int, picked []int) {
			if len(picked) > 0 {
				// type variants: all plain, or exactly one special (non-wildcard) owner
				for sp := -1; sp < len(picked); sp++ {
					for _, st := range specials {
						if sp == -1 && &st[0] != &specials[0][0] {
							continue
						}
						if sp >= 0 && string(names[picked[sp]][0]) == "*" {
							continue
						}
						nodes := []vC02Node{{apex, apexT}}
						for i, pi := range picked {
							ts := plain
							if i == sp {
								ts = st
							}
							nodes = append(nodes, vC02Node{names[pi], ts})
						}
						z := vC02MkZone(apex, nodes...)
						// nothing owned below a cut
						wf := true
						for _, a := range z.nodes {
							for _, b := range z.nodes {
								if vC02CutTypes(a.types) && vC02StrictSub(b.name, a.name) {
									wf = false
								}
							}
						}
						if !wf {
							continue
						}
						nrec := len(z.nodes)
						for mask := 1; mask < 1<<nrec; mask++ {
							vC02Subset = vC02Subset[:0]
							for i := 0; i < nrec; i++ {
								if mask&(1<<i) != 0 {
									vC02Subset = append(vC02Subset, i)
								}
							}
							counter++
							vC02SubsetSet, vC02KindTag = true, tag
							vC02Quiet = counter%vC02SweepStride != 0
							vC02NsecCase(tr, g, z, probes)
						}
					}
				}
			}
			if len(picked) == maxOwners {
				return
			}
			for i := start; i < len(names); i++ {
				choose(i+1, append(picked, i))
			}
		}
		choose(0, nil)
	}
	sweep(universe(2), 4, "exhaustive-d2")
	sweep(universe(3), 2, "exhaustive-d3")
	vC02SubsetSet, vC02Quiet = false, false
	tr.emit(map[string]any{"k": "exhaustive-summary", "go_fail": "", "nontrivial": false,
		"desc": fmt.Sprintf("exhaustive sweep: %d record sets, %d verdict groups judged by the Go oracle, %d unlisted failures", counter, vC02Swept, vC02SweptFail)})
}
