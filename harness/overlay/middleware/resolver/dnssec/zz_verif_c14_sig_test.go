//go:build verif

package dnssec

// C14 correspondence driver, part 2: the canonical signed data, the binding
// preflight, cryptoVerify for every implemented algorithm, verifyOneSig and
// VerifyRRSIG.
//
// Signatures are made over the *library's* canonical form of the RRset (the
// octets miekg/dns RRSIG.Sign hands to its crypto.Signer), with Ed25519 /
// ECDSA from crypto/* and RSA in plain math/big, so a signature that sdns
// accepts was produced without any code of the package under test.

import (
	"crypto"
	"crypto/ecdsa"
	"crypto/ed25519"
	"crypto/elliptic"
	"encoding/base64"
	"encoding/binary"
	"errors"
	"fmt"
	"io"
	"math/big"
	"math/rand"
	"os"
	"strings"
	"testing"
	"time"

	"github.com/miekg/dns"
	"github.com/semihalev/sdns/internal/dnsname"
	"github.com/semihalev/sdns/internal/dnsutil"
)

// ------------------------------------------------------------- records

type vC14F struct {
	isName bool
	b      []byte
	name   string
}

type vC14RR struct {
	rr     dns.RR
	kind   string
	fields []vC14F
}

func (x vC14RR) coq() string {
	h := x.rr.Header()
	var fs []string
	for _, f := range x.fields {
		if f.isName {
			fs = append(fs, "FName "+vC14Str(f.name))
		} else {
			fs = append(fs, "FBytes "+vC14Hex(f.b))
		}
	}
	return fmt.Sprintf("(mk_rr %s %d %d %d %s [%s])", vC14Str(h.Name), h.Rrtype, h.Class, h.Ttl, vC14Str(x.kind), strings.Join(fs, "; "))
}

func vC14U16(v uint16) []byte { return []byte{byte(v >> 8), byte(v)} }
func vC14U32(v uint32) []byte { return []byte{byte(v >> 24), byte(v >> 16), byte(v >> 8), byte(v)} }
func vC14CharStr(s string) []byte {
	return append([]byte{byte(len(s))}, s...)
}
func vC14FB(b ...[]byte) vC14F {
	var out []byte
	for _, x := range b {
		out = append(out, x...)
	}
	return vC14F{b: out}
}
func vC14FN(n string) vC14F { return vC14F{isName: true, name: n} }

func vC14Word(r *rand.Rand) string {
	n := r.Intn(9)
	b := make([]byte, n)
	for i := range b {
		b[i] = "abcdefghijklmnopqrstuvwxyzABCDEFGHIJKLMNOPQRSTUVWXYZ0123456789"[r.Intn(62)]
	}
	return string(b)
}

var vC14Types = []string{"A", "A", "AAAA", "NS", "NS", "CNAME", "PTR", "DNAME", "MB", "MG", "MR", "MD", "MF", "MX", "MX", "KX", "AFSDB", "RT",
	"SOA", "SRV", "MINFO", "RP", "PX", "NAPTR", "TXT", "TXT", "HINFO", "DS", "DNSKEY", "NSEC", "RRSIG", "SIG", "CAA", "TLSA", "RFC3597", "RFC3597",
	// types that carry a domain name the canonical form does NOT fold (they are outside the RFC 4034 6.2 / RFC 6840 5.1
	// list): two records that differ in the case of that name are two records of the RRset
	"SVCB", "HTTPS", "LP", "TALINK", "NSAPPTR"}

// vC14GenRR builds one record of the given type: the library's struct and,
// independently, the RDATA as the sequence of fields RFC 1035 / 4034 define.
func vC14GenRR(r *rand.Rand, typ string, h dns.RR_Header, unknownType uint16) vC14RR {
	nm := func() string { return vC14MixCase(r, vC14Name(r, 1+r.Intn(3))) }
	u16 := func() uint16 { return uint16(r.Intn(65536)) }
	switch typ {
	case "A":
		ip := vC14RandBytes(r, 4)
		h.Rrtype = dns.TypeA
		return vC14RR{&dns.A{Hdr: h, A: ip}, "A", []vC14F{vC14FB(ip)}}
	case "AAAA":
		ip := vC14RandBytes(r, 16)
		ip[0] = 0x20
		h.Rrtype = dns.TypeAAAA
		return vC14RR{&dns.AAAA{Hdr: h, AAAA: ip}, "AAAA", []vC14F{vC14FB(ip)}}
	case "NS":
		n := nm()
		h.Rrtype = dns.TypeNS
		return vC14RR{&dns.NS{Hdr: h, Ns: n}, "NS", []vC14F{vC14FN(n)}}
	case "CNAME":
		n := nm()
		h.Rrtype = dns.TypeCNAME
		return vC14RR{&dns.CNAME{Hdr: h, Target: n}, "CNAME", []vC14F{vC14FN(n)}}
	case "PTR":
		n := nm()
		h.Rrtype = dns.TypePTR
		return vC14RR{&dns.PTR{Hdr: h, Ptr: n}, "PTR", []vC14F{vC14FN(n)}}
	case "DNAME":
		n := nm()
		h.Rrtype = dns.TypeDNAME
		return vC14RR{&dns.DNAME{Hdr: h, Target: n}, "DNAME", []vC14F{vC14FN(n)}}
	case "MB":
		n := nm()
		h.Rrtype = dns.TypeMB
		return vC14RR{&dns.MB{Hdr: h, Mb: n}, "MB", []vC14F{vC14FN(n)}}
	case "MG":
		n := nm()
		h.Rrtype = dns.TypeMG
		return vC14RR{&dns.MG{Hdr: h, Mg: n}, "MG", []vC14F{vC14FN(n)}}
	case "MR":
		n := nm()
		h.Rrtype = dns.TypeMR
		return vC14RR{&dns.MR{Hdr: h, Mr: n}, "MR", []vC14F{vC14FN(n)}}
	case "MD":
		n := nm()
		h.Rrtype = dns.TypeMD
		return vC14RR{&dns.MD{Hdr: h, Md: n}, "MD", []vC14F{vC14FN(n)}}
	case "MF":
		n := nm()
		h.Rrtype = dns.TypeMF
		return vC14RR{&dns.MF{Hdr: h, Mf: n}, "MF", []vC14F{vC14FN(n)}}
	case "MX":
		p, n := u16(), nm()
		h.Rrtype = dns.TypeMX
		return vC14RR{&dns.MX{Hdr: h, Preference: p, Mx: n}, "MX", []vC14F{vC14FB(vC14U16(p)), vC14FN(n)}}
	case "KX":
		p, n := u16(), nm()
		h.Rrtype = dns.TypeKX
		return vC14RR{&dns.KX{Hdr: h, Preference: p, Exchanger: n}, "KX", []vC14F{vC14FB(vC14U16(p)), vC14FN(n)}}
	case "AFSDB":
		p, n := u16(), nm()
		h.Rrtype = dns.TypeAFSDB
		return vC14RR{&dns.AFSDB{Hdr: h, Subtype: p, Hostname: n}, "AFSDB", []vC14F{vC14FB(vC14U16(p)), vC14FN(n)}}
	case "RT":
		p, n := u16(), nm()
		h.Rrtype = dns.TypeRT
		return vC14RR{&dns.RT{Hdr: h, Preference: p, Host: n}, "RT", []vC14F{vC14FB(vC14U16(p)), vC14FN(n)}}
	case "SOA":
		a, b := nm(), nm()
		v := []uint32{r.Uint32(), r.Uint32(), r.Uint32(), r.Uint32(), r.Uint32()}
		h.Rrtype = dns.TypeSOA
		return vC14RR{&dns.SOA{Hdr: h, Ns: a, Mbox: b, Serial: v[0], Refresh: v[1], Retry: v[2], Expire: v[3], Minttl: v[4]}, "SOA",
			[]vC14F{vC14FN(a), vC14FN(b), vC14FB(vC14U32(v[0]), vC14U32(v[1]), vC14U32(v[2]), vC14U32(v[3]), vC14U32(v[4]))}}
	case "SRV":
		a, b, c, n := u16(), u16(), u16(), nm()
		h.Rrtype = dns.TypeSRV
		return vC14RR{&dns.SRV{Hdr: h, Priority: a, Weight: b, Port: c, Target: n}, "SRV", []vC14F{vC14FB(vC14U16(a), vC14U16(b), vC14U16(c)), vC14FN(n)}}
	case "MINFO":
		a, b := nm(), nm()
		h.Rrtype = dns.TypeMINFO
		return vC14RR{&dns.MINFO{Hdr: h, Rmail: a, Email: b}, "MINFO", []vC14F{vC14FN(a), vC14FN(b)}}
	case "RP":
		a, b := nm(), nm()
		h.Rrtype = dns.TypeRP
		return vC14RR{&dns.RP{Hdr: h, Mbox: a, Txt: b}, "RP", []vC14F{vC14FN(a), vC14FN(b)}}
	case "PX":
		p, a, b := u16(), nm(), nm()
		h.Rrtype = dns.TypePX
		return vC14RR{&dns.PX{Hdr: h, Preference: p, Map822: a, Mapx400: b}, "PX", []vC14F{vC14FB(vC14U16(p)), vC14FN(a), vC14FN(b)}}
	case "NAPTR":
		o, p, f, s, re, n := u16(), u16(), vC14Word(r), vC14Word(r), vC14Word(r), nm()
		h.Rrtype = dns.TypeNAPTR
		return vC14RR{&dns.NAPTR{Hdr: h, Order: o, Preference: p, Flags: f, Service: s, Regexp: re, Replacement: n}, "NAPTR",
			[]vC14F{vC14FB(vC14U16(o), vC14U16(p), vC14CharStr(f), vC14CharStr(s), vC14CharStr(re)), vC14FN(n)}}
	case "TXT":
		cnt := 1 + r.Intn(3)
		var ss []string
		var b []byte
		for i := 0; i < cnt; i++ {
			s := vC14Word(r)
			ss = append(ss, s)
			b = append(b, vC14CharStr(s)...)
		}
		h.Rrtype = dns.TypeTXT
		return vC14RR{&dns.TXT{Hdr: h, Txt: ss}, "TXT", []vC14F{vC14FB(b)}}
	case "HINFO":
		a, b := vC14Word(r), vC14Word(r)
		h.Rrtype = dns.TypeHINFO
		return vC14RR{&dns.HINFO{Hdr: h, Cpu: a, Os: b}, "HINFO", []vC14F{vC14FB(vC14CharStr(a), vC14CharStr(b))}}
	case "DS":
		kt, a, d, dg := u16(), uint8(r.Intn(256)), uint8(r.Intn(5)), vC14RandBytes(r, 20+r.Intn(14))
		h.Rrtype = dns.TypeDS
		return vC14RR{&dns.DS{Hdr: h, KeyTag: kt, Algorithm: a, DigestType: d, Digest: fmt.Sprintf("%X", dg)}, "DS", []vC14F{vC14FB(vC14U16(kt), []byte{a, d}, dg)}}
	case "DNSKEY":
		fl, a, pk := vC14Flags(r), vC14Alg(r), vC14RandBytes(r, 1+r.Intn(40))
		h.Rrtype = dns.TypeDNSKEY
		return vC14RR{&dns.DNSKEY{Hdr: h, Flags: fl, Protocol: 3, Algorithm: a, PublicKey: base64.StdEncoding.EncodeToString(pk)}, "DNSKEY", []vC14F{vC14FB(vC14U16(fl), []byte{3, a}, pk)}}
	case "NSEC":
		n := nm()
		types := []uint16{dns.TypeA, dns.TypeNS, dns.TypeRRSIG, dns.TypeNSEC, 1234}[:1+r.Intn(5)]
		return vC14NSEC(h, n, types)
	case "RRSIG", "SIG":
		cov, a, l, ot, ex, in, kt, n, sg := u16(), uint8(r.Intn(256)), uint8(r.Intn(5)), r.Uint32(), r.Uint32(), r.Uint32(), u16(), nm(), vC14RandBytes(r, 8+r.Intn(30))
		inner := dns.RRSIG{Hdr: h, TypeCovered: cov, Algorithm: a, Labels: l, OrigTtl: ot, Expiration: ex, Inception: in, KeyTag: kt, SignerName: n, Signature: base64.StdEncoding.EncodeToString(sg)}
		fs := []vC14F{vC14FB(vC14U16(cov), []byte{a, l}, vC14U32(ot), vC14U32(ex), vC14U32(in), vC14U16(kt)), vC14FN(n), vC14FB(sg)}
		if typ == "SIG" {
			inner.Hdr.Rrtype = dns.TypeSIG
			return vC14RR{&dns.SIG{RRSIG: inner}, "SIG", fs}
		}
		inner.Hdr.Rrtype = dns.TypeRRSIG
		return vC14RR{&inner, "RRSIG", fs}
	case "CAA":
		fl, tag, val := uint8(r.Intn(256)), []string{"issue", "issuewild", "iodef"}[r.Intn(3)], vC14Word(r)
		h.Rrtype = dns.TypeCAA
		return vC14RR{&dns.CAA{Hdr: h, Flag: fl, Tag: tag, Value: val}, "CAA", []vC14F{vC14FB([]byte{fl}, vC14CharStr(tag), []byte(val))}}
	case "TLSA":
		a, b, c, d := uint8(r.Intn(4)), uint8(r.Intn(2)), uint8(r.Intn(3)), vC14RandBytes(r, 1+r.Intn(33))
		h.Rrtype = dns.TypeTLSA
		return vC14RR{&dns.TLSA{Hdr: h, Usage: a, Selector: b, MatchingType: c, Certificate: fmt.Sprintf("%x", d)}, "TLSA", []vC14F{vC14FB([]byte{a, b, c}, d)}}
	case "SVCB", "HTTPS":
		p, n := uint16(r.Intn(4)), nm()
		if typ == "HTTPS" {
			h.Rrtype = dns.TypeHTTPS
			return vC14RR{&dns.HTTPS{SVCB: dns.SVCB{Hdr: h, Priority: p, Target: n}}, "HTTPS", []vC14F{vC14FB(vC14U16(p)), vC14FN(n)}}
		}
		h.Rrtype = dns.TypeSVCB
		return vC14RR{&dns.SVCB{Hdr: h, Priority: p, Target: n}, "SVCB", []vC14F{vC14FB(vC14U16(p)), vC14FN(n)}}
	case "LP":
		p, n := u16(), nm()
		h.Rrtype = dns.TypeLP
		return vC14RR{&dns.LP{Hdr: h, Preference: p, Fqdn: n}, "LP", []vC14F{vC14FB(vC14U16(p)), vC14FN(n)}}
	case "TALINK":
		a, b := nm(), nm()
		h.Rrtype = dns.TypeTALINK
		return vC14RR{&dns.TALINK{Hdr: h, PreviousName: a, NextName: b}, "TALINK", []vC14F{vC14FN(a), vC14FN(b)}}
	case "NSAPPTR":
		n := nm()
		h.Rrtype = dns.TypeNSAPPTR
		return vC14RR{&dns.NSAPPTR{Hdr: h, Ptr: n}, "NSAPPTR", []vC14F{vC14FN(n)}}
	default: // RFC 3597 unknown type
		d := vC14RandBytes(r, r.Intn(24))
		h.Rrtype = unknownType
		return vC14RR{&dns.RFC3597{Hdr: h, Rdata: fmt.Sprintf("%x", d)}, "RFC3597", []vC14F{vC14FB(d)}}
	}
}

// vC14NSEC builds an NSEC record and its RDATA fields.
func vC14NSEC(h dns.RR_Header, n string, types []uint16) vC14RR {
	h.Rrtype = dns.TypeNSEC
	rr := &dns.NSEC{Hdr: h, NextDomain: n, TypeBitMap: types}
	// the bitmap octets, taken from the library's own packing of this record
	buf := make([]byte, 1024)
	off, err := dns.PackRR(rr, buf, 0, nil, false)
	nb := make([]byte, 300)
	noff, err2 := dns.PackDomainName(n, nb, 0, nil, false)
	ob := make([]byte, 300)
	ooff, err3 := dns.PackDomainName(h.Name, ob, 0, nil, false)
	if err != nil || err2 != nil || err3 != nil {
		panic("nsec pack")
	}
	return vC14RR{rr, "NSEC", []vC14F{vC14FN(n), vC14FB(buf[ooff+10+noff : off])}}
}

// vC14VaryRR returns a record that canonicalises to the same octets as x
// (embedded names in another case) when the type allows it, else a copy.
func vC14VaryRR(r *rand.Rand, x vC14RR) vC14RR {
	c := dns.Copy(x.rr)
	fs := append([]vC14F{}, x.fields...)
	flip := func(s *string) {
		v := vC14MixCase(r, *s)
		for i := range fs {
			if fs[i].isName && fs[i].name == *s {
				fs[i].name = v
				break
			}
		}
		*s = v
	}
	switch t := c.(type) {
	case *dns.NS:
		flip(&t.Ns)
	case *dns.MX:
		flip(&t.Mx)
	case *dns.CNAME:
		flip(&t.Target)
	case *dns.PTR:
		flip(&t.Ptr)
	case *dns.SRV:
		flip(&t.Target)
	case *dns.DNAME:
		flip(&t.Target)
	case *dns.MB:
		flip(&t.Mb)
	case *dns.MG:
		flip(&t.Mg)
	case *dns.MR:
		flip(&t.Mr)
	case *dns.MD:
		flip(&t.Md)
	case *dns.MF:
		flip(&t.Mf)
	case *dns.KX:
		flip(&t.Exchanger)
	case *dns.AFSDB:
		flip(&t.Hostname)
	case *dns.RT:
		flip(&t.Host)
	case *dns.SOA:
		if r.Intn(2) == 0 {
			flip(&t.Ns)
		} else {
			flip(&t.Mbox)
		}
	case *dns.MINFO:
		if r.Intn(2) == 0 {
			flip(&t.Rmail)
		} else {
			flip(&t.Email)
		}
	case *dns.RP:
		if r.Intn(2) == 0 {
			flip(&t.Mbox)
		} else {
			flip(&t.Txt)
		}
	case *dns.PX:
		if r.Intn(2) == 0 {
			flip(&t.Map822)
		} else {
			flip(&t.Mapx400)
		}
	case *dns.NAPTR:
		flip(&t.Replacement)
	// from here on: names the canonical form leaves as they are — the variant stays a distinct record
	case *dns.NSEC:
		flip(&t.NextDomain)
	case *dns.RRSIG:
		flip(&t.SignerName)
	case *dns.SIG:
		flip(&t.SignerName)
	case *dns.SVCB:
		flip(&t.Target)
	case *dns.HTTPS:
		flip(&t.Target)
	case *dns.LP:
		flip(&t.Fqdn)
	case *dns.TALINK:
		if r.Intn(2) == 0 {
			flip(&t.PreviousName)
		} else {
			flip(&t.NextName)
		}
	case *dns.NSAPPTR:
		flip(&t.Ptr)
	}
	return vC14RR{c, x.kind, fs}
}

// vC14GenRRset builds an RRset: one type, one owner spelling, possibly with
// duplicates, case variants of embedded names, and in random order.
func vC14GenRRset(r *rand.Rand, owner string, class uint16) []vC14RR {
	typ := vC14Types[r.Intn(len(vC14Types))]
	unknown := uint16(65280 + r.Intn(100))
	n := 1 + r.Intn(4)
	if r.Intn(3) == 0 {
		n = 1
	}
	var set []vC14RR
	for i := 0; i < n; i++ {
		h := dns.RR_Header{Name: owner, Class: class, Ttl: uint32(60 * (1 + r.Intn(100)))}
		if len(set) > 0 && r.Intn(4) == 0 {
			v := vC14VaryRR(r, set[r.Intn(len(set))])
			v.rr.Header().Ttl = h.Ttl
			set = append(set, v)
			continue
		}
		set = append(set, vC14GenRR(r, typ, h, unknown))
	}
	r.Shuffle(len(set), func(i, j int) { set[i], set[j] = set[j], set[i] })
	return set
}

func vC14RRs(set []vC14RR) []dns.RR {
	out := make([]dns.RR, len(set))
	for i, x := range set {
		out[i] = x.rr
	}
	return out
}

func vC14SetCoq(set []vC14RR) string {
	var p []string
	for _, x := range set {
		p = append(p, x.coq())
	}
	return "[" + strings.Join(p, "; ") + "]"
}

func vC14SigCoq(s *dns.RRSIG) string {
	return fmt.Sprintf("(mk_sig %s %d %d %d %d %d %d %d %d %s %s)", vC14Str(s.Hdr.Name), s.Hdr.Class, s.TypeCovered, s.Algorithm, s.Labels, s.OrigTtl,
		s.Expiration, s.Inception, s.KeyTag, vC14Str(s.SignerName), vC14Str(s.Signature))
}

// ------------------------------------------------------ library reference

// vC14Capture is a crypto.Signer that only records what it is asked to sign.
type vC14Capture struct{ got []byte }

func (c *vC14Capture) Public() crypto.PublicKey { return nil }
func (c *vC14Capture) Sign(_ io.Reader, digest []byte, _ crypto.SignerOpts) ([]byte, error) {
	c.got = append([]byte{}, digest...)
	return make([]byte, 64), nil
}

// vC14LibSigned returns the octets miekg/dns signs for (sig, rrset): the
// library's RRSIG.Sign is run with a recording signer under ED25519 (the one
// algorithm whose signer receives the message rather than a digest), on an
// input arranged so that Sign's own derivation of Labels reproduces the
// canonical owner RRSIG.Verify would use; the algorithm octet (and the few
// fields Sign refuses or rewrites) are then put back.
func vC14LibSigned(sig *dns.RRSIG, rrset []dns.RR) (out []byte, ok bool) {
	if len(rrset) == 0 || !dns.IsRRset(rrset) || sig.SignerName == "" {
		return nil, false
	}
	h0 := rrset[0].Header()
	cnt := dns.CountLabel(h0.Name)
	if int(sig.Labels) > cnt {
		return nil, false
	}
	set := make([]dns.RR, len(rrset))
	for i, rr := range rrset {
		set[i] = dns.Copy(rr)
	}
	if int(sig.Labels) < cnt {
		if sig.Labels == 0 {
			return nil, false // the library builds "*.." and fails to pack it
		}
		labels := dns.SplitDomainName(h0.Name)
		w := "*." + strings.Join(labels[len(labels)-int(sig.Labels):], ".") + "."
		for _, rr := range set {
			rr.Header().Name = w
		}
	}
	c := *sig
	c.Algorithm = dns.ED25519
	if c.KeyTag == 0 {
		c.KeyTag = 1
	}
	if c.OrigTtl == 0 {
		for _, rr := range set {
			rr.Header().Ttl = 0
		}
	}
	cap := &vC14Capture{}
	var err error
	if p := vC14Guard(func() { err = c.Sign(cap, set) }); p != "" || err != nil || len(cap.got) < 18 {
		return nil, false
	}
	out = cap.got
	if c.Labels != sig.Labels && !(strings.HasPrefix(h0.Name, "*") && int(sig.Labels) == cnt) {
		return nil, false
	}
	binary.BigEndian.PutUint16(out[0:2], sig.TypeCovered)
	out[2] = sig.Algorithm
	out[3] = sig.Labels
	binary.BigEndian.PutUint16(out[16:18], sig.KeyTag)
	return out, true
}

// vC14LibPreflight transcribes the checks dns.RRSIG.Verify makes before it
// touches any cryptography (dnssec.go, "First the easy checks").
func vC14LibPreflight(k *dns.DNSKEY, s *dns.RRSIG, rrset []dns.RR) (ok bool, panicked bool) {
	if !dns.IsRRset(rrset) {
		return false, false
	}
	tag, pan := vC14LibKeyTag(k)
	if pan {
		return false, true
	}
	if s.KeyTag != tag || s.Hdr.Class != k.Hdr.Class || s.Algorithm != k.Algorithm {
		return false, false
	}
	signer := dns.CanonicalName(s.SignerName)
	eq := func(a, b string) bool { // dns.equal: ASCII case-insensitive, same length
		if len(a) != len(b) {
			return false
		}
		for i := 0; i < len(a); i++ {
			x, y := a[i], b[i]
			if x >= 'A' && x <= 'Z' {
				x |= 0x20
			}
			if y >= 'A' && y <= 'Z' {
				y |= 0x20
			}
			if x != y {
				return false
			}
		}
		return true
	}
	if !eq(signer, k.Hdr.Name) || k.Protocol != 3 || k.Flags&dns.ZONE == 0 {
		return false, false
	}
	h0 := rrset[0].Header()
	if h0.Class != s.Hdr.Class || h0.Rrtype != s.TypeCovered || uint8(dns.CountLabel(h0.Name)) < s.Labels ||
		!eq(h0.Name, s.Hdr.Name) || !strings.HasSuffix(dns.CanonicalName(h0.Name), signer) {
		return false, false
	}
	return true, false
}

// vC14RefRSA reads an RFC 3110 key independently of the code under test.
func vC14RefRSA(pk string) (n, e *big.Int, ok bool) {
	raw, err := base64.StdEncoding.DecodeString(pk)
	if err != nil || len(raw) < 1 {
		return nil, nil, false
	}
	el, off := int(raw[0]), 1
	if el == 0 {
		if len(raw) < 3 {
			return nil, nil, false
		}
		el, off = int(raw[1])<<8|int(raw[2]), 3
	}
	if el == 0 || len(raw) <= off+el || raw[off] == 0 || raw[off+el] == 0 {
		return nil, nil, false
	}
	return new(big.Int).SetBytes(raw[off+el:]), new(big.Int).SetBytes(raw[off : off+el]), true
}

func vC14IsRSA(a uint8) bool   { return a == 5 || a == 7 || a == 8 || a == 10 }
func vC14IsECDSA(a uint8) bool { return a == 13 || a == 14 }

var vC14Max31 = big.NewInt(1<<31 - 1)

// vC14RefVerify is the independent reference verdict for one (key, signature,
// RRset): the library's, or — for an RSA exponent the library cannot load —
// the library's preflight and canonical form with the arithmetic in math/big
// and the documented key limits.
func vC14RefVerify(k *dns.DNSKEY, s *dns.RRSIG, rrset []dns.RR) (refok, libok bool) {
	var err error
	if p := vC14Guard(func() { err = s.Verify(k, rrset) }); p == "" && err == nil {
		return true, true
	}
	if !vC14IsRSA(s.Algorithm) {
		return false, false
	}
	n, e, ok := vC14RefRSA(k.PublicKey)
	if !ok || e.Cmp(vC14Max31) <= 0 {
		return false, false
	}
	if n.BitLen() < 1024 || n.BitLen() > 4096 || e.Bit(0) == 0 || e.Cmp(big.NewInt(3)) < 0 || e.Cmp(n) >= 0 || e.BitLen() > 64 {
		return false, false
	}
	if pre, _ := vC14LibPreflight(k, s, rrset); !pre {
		return false, false
	}
	signed, ok := vC14LibSigned(s, rrset)
	if !ok {
		return false, false
	}
	sg, err := base64.StdEncoding.DecodeString(s.Signature)
	if err != nil {
		return false, false
	}
	return vC14BigVerify(n, e, s.Algorithm, vC14HashFor(s.Algorithm, signed), sg), false
}

// vC14EqDomain reports whether the input lies outside every documented
// deliberate difference between the package and the library, so that the two
// verdicts must be equal.
func vC14EqDomain(k *dns.DNSKEY, s *dns.RRSIG, rrset []dns.RR) bool {
	if !dns.IsFqdn(k.Hdr.Name) || !dns.IsFqdn(s.SignerName) || !dns.IsFqdn(s.Hdr.Name) {
		return false
	}
	for _, rr := range rrset {
		if !dns.IsFqdn(rr.Header().Name) {
			return false
		}
	}
	if vC14IsECDSA(s.Algorithm) {
		sg, err := base64.StdEncoding.DecodeString(s.Signature)
		size := 64
		if s.Algorithm == 14 {
			size = 96
		}
		if err == nil && len(sg) != size {
			return false // RFC 6605 fixed width: refused here, split in half by the library
		}
	}
	if vC14IsRSA(s.Algorithm) {
		if _, e, ok := vC14RefRSA(k.PublicKey); ok && e.Cmp(vC14Max31) > 0 {
			return false // wide exponent: the library cannot load the key
		}
	}
	if len(rrset) > 0 {
		owner, signer := dns.CanonicalName(rrset[0].Header().Name), dns.CanonicalName(s.SignerName)
		if strings.HasSuffix(owner, signer) && !dns.IsSubDomain(signer, owner) {
			return false // textual suffix that is not on a label boundary
		}
	}
	return true
}

// ------------------------------------------------------------------ keys

type vC14SigKey struct {
	alg   uint8
	ed    ed25519.PrivateKey
	ec    *ecdsa.PrivateKey
	rsa   *vC14RSAKey
	e     *big.Int
	pub   string // base64 public key field
	label string
	cost  int // 0 = cheap in Coq, 1 = a 1024-bit modexp, 2 = bigger
}

func (k *vC14SigKey) dnskey(owner string, flags uint16) *dns.DNSKEY {
	return &dns.DNSKEY{Hdr: dns.RR_Header{Name: owner, Rrtype: dns.TypeDNSKEY, Class: dns.ClassINET, Ttl: 3600}, Flags: flags, Protocol: 3, Algorithm: k.alg, PublicKey: k.pub}
}

// signRaw signs the given signed-data octets.
func (k *vC14SigKey) signRaw(msg []byte) []byte {
	switch {
	case k.ed != nil:
		return ed25519.Sign(k.ed, msg)
	case k.ec != nil:
		opt := crypto.SHA256
		if k.alg == 14 {
			opt = crypto.SHA384
		}
		der, err := k.ec.Sign(nil, vC14HashFor(k.alg, msg), opt) // rand == nil: RFC 6979, deterministic
		if err != nil {
			panic(err)
		}
		// DER: SEQUENCE { INTEGER r, INTEGER s }
		size := (k.ec.Curve.Params().BitSize + 7) / 8
		rs := vC14DerInts(der)
		out := make([]byte, 2*size)
		rs[0].FillBytes(out[:size])
		rs[1].FillBytes(out[size:])
		return out
	default:
		em := vC14EM(k.rsa.n, k.alg, vC14HashFor(k.alg, msg))
		if em == nil {
			return nil
		}
		return k.rsa.sign(k.e, em)
	}
}

func vC14DerInts(der []byte) [2]*big.Int {
	// minimal reader for the two INTEGERs of an ECDSA-Sig-Value
	p := 2
	if der[1]&0x80 != 0 {
		p = 2 + int(der[1]&0x7f)
	}
	var out [2]*big.Int
	for i := 0; i < 2; i++ {
		l := int(der[p+1])
		out[i] = new(big.Int).SetBytes(der[p+2 : p+2+l])
		p += 2 + l
	}
	return out
}

func vC14Keys(r *rand.Rand, thorough bool) []*vC14SigKey {
	var keys []*vC14SigKey
	for i := 0; i < 3; i++ {
		priv := ed25519.NewKeyFromSeed(vC14RandBytes(r, 32))
		keys = append(keys, &vC14SigKey{alg: 15, ed: priv, pub: base64.StdEncoding.EncodeToString(priv.Public().(ed25519.PublicKey)), label: "ed25519"})
	}
	for i, curve := range []elliptic.Curve{elliptic.P256(), elliptic.P256(), elliptic.P384()} {
		size := (curve.Params().BitSize + 7) / 8
		var priv *ecdsa.PrivateKey
		for priv == nil {
			d := vC14RandBytes(r, size)
			d[0] &= 0x7f
			if p, err := ecdsa.ParseRawPrivateKey(curve, d); err == nil {
				priv = p
			}
		}
		pb, err := priv.PublicKey.Bytes()
		if err != nil {
			panic(err)
		}
		alg := uint8(13)
		if i == 2 {
			alg = 14
		}
		keys = append(keys, &vC14SigKey{alg: alg, ec: priv, pub: base64.StdEncoding.EncodeToString(pb[1:]), label: fmt.Sprintf("ecdsa-p%d", curve.Params().BitSize)})
	}
	bi := func(s string) *big.Int { v, _ := new(big.Int).SetString(s, 10); return v }
	type spec struct {
		p, q  string
		e     *big.Int
		algs  []uint8
		label string
		cost  int
		long  bool
	}
	specs := []spec{
		{"p512a", "p512b", bi("65537"), []uint8{8, 5}, "rsa1024-e65537", 1, false},
		{"p512c", "p512d", bi("4294967297"), []uint8{10, 7}, "rsa1024-wide-2^32+1", 1, false},
		{"p512a", "p512c", bi("3"), []uint8{8}, "rsa1024-e3", 1, false},
		{"p512b", "p512d", bi("2147483647"), []uint8{8}, "rsa1024-e2^31-1", 1, false},
		{"p512a", "p512d", bi("2147483659"), []uint8{8}, "rsa1024-wide-2^31+11", 1, false},
		{"p512b", "p512c", bi("18446744073709551557"), []uint8{5}, "rsa1024-wide-64bit", 1, false},
		{"p512b", "p512c", bi("18446744073709551629"), []uint8{8}, "rsa1024-e-65bit", 0, false},
		{"p512a", "p512b", bi("65537"), []uint8{8}, "rsa1024-e65537-3octet-length", 1, true},
		{"p511", "p512a", bi("65537"), []uint8{8}, "rsa-below-1024", 0, false},
		{"p511", "p512a", bi("4294967297"), []uint8{8, 10}, "rsa-below-1024-wide", 0, false},
		{"p511", "p512b", bi("18446744073709551557"), []uint8{5}, "rsa-below-1024-wide", 0, false},
		{"p513", "p512a", bi("65537"), []uint8{8}, "rsa1025", 1, false},
		{"p1024a", "p1024b", bi("65537"), []uint8{8, 10}, "rsa2048-e65537", 2, false},
		{"p2049", "p2048a", bi("65537"), []uint8{8}, "rsa-above-4096", 0, false},
		{"p2049", "p2048a", bi("4294967297"), []uint8{8}, "rsa-above-4096-wide", 0, false},
	}
	if thorough {
		specs = append(specs, spec{"p2048a", "p2048b", bi("65537"), []uint8{8}, "rsa4096-e65537", 3, false},
			spec{"p1024a", "p1024b", bi("4294967297"), []uint8{8}, "rsa2048-wide", 2, false})
	}
	for _, s := range specs {
		k := vC14NewRSA(vC14P(s.p), vC14P(s.q))
		for _, a := range s.algs {
			keys = append(keys, &vC14SigKey{alg: a, rsa: k, e: s.e, pub: base64.StdEncoding.EncodeToString(vC14EncodeRSA(s.e, k.n, s.long)), label: s.label, cost: s.cost})
		}
	}
	// an even modulus 2p: crypto/rsa refuses it, the raw path has no such check
	even := vC14NewRSA(big.NewInt(2), vC14P("p1024a"))
	keys = append(keys,
		&vC14SigKey{alg: 8, rsa: even, e: bi("65537"), pub: base64.StdEncoding.EncodeToString(vC14EncodeRSA(bi("65537"), even.n, false)), label: "rsa-even-modulus", cost: 0},
		&vC14SigKey{alg: 8, rsa: even, e: bi("4294967297"), pub: base64.StdEncoding.EncodeToString(vC14EncodeRSA(bi("4294967297"), even.n, false)), label: "rsa-even-modulus-wide", cost: 1})
	return keys
}

// ------------------------------------------------------------- scenarios

type vC14Scn struct {
	key   *vC14SigKey
	k     *dns.DNSKEY
	sig   *dns.RRSIG
	set   []vC14RR
	zone  string
	notes []string
	// signedOK: the library produced a canonical form and the key could sign it
	signedOK bool
}

const (
	vC14Inception  = 1500000000 // 2017
	vC14Expiration = 2100000000 // 2036
)

// vC14NewScn builds a correctly signed RRset.
func vC14NewScn(r *rand.Rand, key *vC14SigKey) *vC14Scn {
	zone := vC14Name(r, r.Intn(4))
	for strings.Contains(zone, "LLLL") && r.Intn(2) == 0 {
		zone = vC14Name(r, 1+r.Intn(2))
	}
	s := &vC14Scn{key: key, zone: zone}
	s.k = key.dnskey(vC14MixCase(r, zone), []uint16{256, 257}[r.Intn(2)])
	zl := dns.CountLabel(zone)
	// owner: apex, below the apex, or the expansion of a wildcard
	sub := r.Intn(4)
	owner := zone
	for i := 0; i < sub; i++ {
		if owner == "." {
			owner = vC14Label(r) + "."
		} else {
			owner = vC14Label(r) + "." + owner
		}
	}
	owner = vC14MixCase(r, owner)
	labels := dns.CountLabel(owner)
	if sub > 0 && r.Intn(3) == 0 && zl+r.Intn(sub) > 0 { // wildcard expansion: fewer labels signed than the owner has
		labels = max(1, zl+r.Intn(sub))
		s.notes = append(s.notes, "wildcard-expansion")
	} else if sub > 0 && r.Intn(6) == 0 { // the wildcard itself
		if i := strings.Index(owner, "."); i >= 0 {
			owner = "*" + owner[i:]
			labels = dns.CountLabel(owner) - 1
			s.notes = append(s.notes, "wildcard-owner")
		}
	}
	s.set = vC14GenRRset(r, owner, dns.ClassINET)
	h0 := s.set[0].rr.Header()
	tag, _ := vC14LibKeyTag(s.k)
	ottl := h0.Ttl
	if r.Intn(3) == 0 {
		ottl = uint32(1 + r.Intn(86400))
	}
	s.sig = &dns.RRSIG{Hdr: dns.RR_Header{Name: vC14MixCase(r, owner), Rrtype: dns.TypeRRSIG, Class: dns.ClassINET, Ttl: h0.Ttl},
		TypeCovered: h0.Rrtype, Algorithm: key.alg, Labels: uint8(labels), OrigTtl: ottl, Expiration: vC14Expiration, Inception: vC14Inception,
		KeyTag: tag, SignerName: vC14MixCase(r, zone)}
	s.resign()
	return s
}

// resign recomputes the signature over the library's canonical form.
func (s *vC14Scn) resign() bool {
	s.signedOK = false
	signed, ok := vC14LibSigned(s.sig, vC14RRs(s.set))
	if !ok {
		s.sig.Signature = base64.StdEncoding.EncodeToString(make([]byte, 64))
		return false
	}
	sg := s.key.signRaw(signed)
	if sg == nil {
		s.sig.Signature = base64.StdEncoding.EncodeToString(make([]byte, 64))
		return false
	}
	s.sig.Signature = base64.StdEncoding.EncodeToString(sg)
	s.signedOK = true
	return true
}

// vC14Perturb applies one change to a correctly signed scenario and names it.
func vC14Perturb(r *rand.Rand, s *vC14Scn, keys []*vC14SigKey) string {
	sgRaw, _ := base64.StdEncoding.DecodeString(s.sig.Signature)
	setSig := func(b []byte) { s.sig.Signature = base64.StdEncoding.EncodeToString(b) }
	switch r.Intn(40) {
	case 0, 1, 2, 3, 4, 5:
		return "valid"
	case 37, 38, 39: // key material of another size: at and around every width an algorithm
		// or a fixed buffer could care about, far beyond it now and then; the rest of the
		// record (tag, owner, algorithm, signature width) stays consistent so that only the
		// verifier's own handling of the material decides
		sizes := []int{0, 1, 2, 31, 32, 33, 63, 64, 65, 95, 96, 97, 98, 127, 128, 129, 130, 192, 200, 256, 257, 513}
		n := sizes[r.Intn(len(sizes))]
		if r.Intn(12) == 0 {
			n = []int{1024, 4091, 4092, 4093}[r.Intn(4)]
		}
		raw, _ := base64.StdEncoding.DecodeString(s.k.PublicKey)
		nb := make([]byte, n)
		copy(nb, raw)
		for i := len(raw); i < n; i++ {
			nb[i] = byte(r.Intn(256))
		}
		s.k.PublicKey = base64.StdEncoding.EncodeToString(nb)
		tag, pan := vC14LibKeyTag(s.k)
		if !pan {
			s.sig.KeyTag = tag
		}
		return "key-material-resized"
	case 34: // the key's class alone: not part of the tag nor of the signed data, only the binding sees it
		s.k.Hdr.Class = []uint16{dns.ClassCHAOS, dns.ClassHESIOD, 0}[r.Intn(3)]
		return "key-class-changed"
	case 35: // the key's algorithm alone, within the family so that the material still parses
		other := map[uint8]uint8{5: 7, 7: 5, 8: 10, 10: 8, 13: 14, 14: 13, 15: 13}[s.k.Algorithm]
		s.k.Algorithm = other
		tag, _ := vC14LibKeyTag(s.k)
		s.sig.KeyTag = tag
		s.resign()
		s.signedOK = false
		return "key-algorithm-changed"
	case 36: // the RRSIG's own owner name: not part of the signed data either
		s.sig.Hdr.Name = vC14Label(r) + "." + s.sig.Hdr.Name
		if r.Intn(2) == 0 {
			s.sig.Hdr.Name = s.zone
		}
		return "sig-owner-changed"
	case 6:
		sgRaw[r.Intn(len(sgRaw))] ^= 1 << uint(r.Intn(8))
		setSig(sgRaw)
		return "sig-bit-flipped"
	case 7:
		setSig(sgRaw[:len(sgRaw)-1-r.Intn(2)])
		return "sig-truncated"
	case 8:
		setSig(append(sgRaw, byte(r.Intn(256))))
		return "sig-extended"
	case 9: // leading zeros: one per half for ECDSA (the 66-octet P-256 signature), one in front otherwise
		if s.key.ec != nil {
			h := len(sgRaw) / 2
			setSig(append(append(append([]byte{0}, sgRaw[:h]...), 0), sgRaw[h:]...))
			return "sig-leading-zero-per-half"
		}
		setSig(append([]byte{0}, sgRaw...))
		return "sig-leading-zero"
	case 10:
		s.sig.Signature = vC14Wrap(r, s.sig.Signature)
		return "sig-base64-wrapped"
	case 11:
		s.sig.Signature = vC14Mangle(r, s.sig.Signature)
		return "sig-base64-mangled"
	case 12: // a record changed after signing
		x := s.set[r.Intn(len(s.set))]
		for i := range x.fields {
			if !x.fields[i].isName && len(x.fields[i].b) > 0 {
				h := *x.rr.Header()
				n := vC14GenRR(r, x.kind, h, h.Rrtype)
				s.set[0] = n
				return "record-replaced"
			}
		}
		return "valid"
	case 13: // the TTL on the wire differs from the original TTL: still valid
		for _, x := range s.set {
			x.rr.Header().Ttl = uint32(r.Intn(5000))
		}
		return "valid-ttl-decremented"
	case 14:
		s.sig.OrigTtl++
		return "origttl-changed"
	case 15:
		if r.Intn(2) == 0 {
			s.sig.Labels++
		} else if s.sig.Labels > 0 {
			s.sig.Labels--
		}
		return "labels-changed"
	case 16: // owner spelled in another case everywhere: still valid
		n := vC14MixCase(r, s.set[0].rr.Header().Name)
		for _, x := range s.set {
			x.rr.Header().Name = n
		}
		s.sig.Hdr.Name = vC14MixCase(r, n)
		return "valid-owner-case"
	case 17:
		r.Shuffle(len(s.set), func(i, j int) { s.set[i], s.set[j] = s.set[j], s.set[i] })
		return "valid-reordered"
	case 18:
		x := s.set[r.Intn(len(s.set))]
		s.set = append(s.set, vC14RR{dns.Copy(x.rr), x.kind, x.fields})
		return "valid-duplicated-record"
	case 19:
		if len(s.set) > 1 {
			s.set = s.set[1:]
			return "record-dropped"
		}
		return "valid"
	case 20:
		s.sig.Inception++
		return "inception-changed"
	case 21:
		s.k.Flags ^= []uint16{dns.ZONE, dns.SEP, dns.REVOKE}[r.Intn(3)]
		return "key-flags-changed"
	case 22:
		s.k.Protocol = uint8(r.Intn(5))
		return "key-protocol-changed"
	case 23:
		s.sig.SignerName = vC14MixCase(r, s.sig.SignerName)
		s.k.Hdr.Name = vC14MixCase(r, s.k.Hdr.Name)
		return "valid-signer-case"
	case 24:
		s.k.PublicKey = vC14Wrap(r, s.k.PublicKey)
		return "valid-key-base64-wrapped"
	case 25:
		s.k.PublicKey = vC14Mangle(r, s.k.PublicKey)
		tag, _ := vC14LibKeyTag(s.k)
		s.sig.KeyTag = tag
		return "key-base64-mangled"
	case 26: // another key of the same algorithm, tag adjusted to it
		for _, o := range keys {
			if o.alg == s.key.alg && o.pub != s.key.pub {
				s.k.PublicKey = o.pub
				tag, _ := vC14LibKeyTag(s.k)
				s.sig.KeyTag = tag
				return "other-key"
			}
		}
		return "valid"
	case 27:
		s.sig.KeyTag++
		return "keytag-changed"
	case 28:
		s.sig.Hdr.Class, s.k.Hdr.Class = dns.ClassCHAOS, dns.ClassCHAOS
		return "class-mismatch-with-rrset"
	case 29: // a signer that is only a textual suffix of the owner
		owner := s.set[0].rr.Header().Name
		if len(owner) > 3 {
			cut := 1 + r.Intn(len(owner)-2)
			if owner[cut-1] != '.' && owner[cut] != '.' {
				z := owner[cut:]
				s.sig.SignerName, s.k.Hdr.Name = z, z
				tag, _ := vC14LibKeyTag(s.k)
				s.sig.KeyTag = tag
				if int(s.sig.Labels) > dns.CountLabel(owner) {
					s.sig.Labels = uint8(dns.CountLabel(owner))
				}
				s.resign()
				return "signer-textual-suffix-only"
			}
		}
		return "valid"
	case 30: // key material in another shape of the same length class
		raw, _ := base64.StdEncoding.DecodeString(s.k.PublicKey)
		if len(raw) > 2 {
			if r.Intn(2) == 0 {
				raw = raw[:len(raw)-1]
			} else {
				raw = append(raw, 7)
			}
			s.k.PublicKey = base64.StdEncoding.EncodeToString(raw)
			tag, _ := vC14LibKeyTag(s.k)
			s.sig.KeyTag = tag
			return "key-length-changed"
		}
		return "valid"
	case 31: // a point that is not on the curve / a different Ed25519 key
		raw, _ := base64.StdEncoding.DecodeString(s.k.PublicKey)
		if len(raw) > 2 {
			raw[len(raw)-1] ^= 1
			s.k.PublicKey = base64.StdEncoding.EncodeToString(raw)
			tag, _ := vC14LibKeyTag(s.k)
			s.sig.KeyTag = tag
			return "key-last-bit-flipped"
		}
		return "valid"
	case 32:
		s.sig.Algorithm, s.k.Algorithm = []uint8{1, 3, 6, 12, 16, 0, 200}[r.Intn(7)], s.sig.Algorithm
		s.k.Algorithm = s.sig.Algorithm
		tag, pan := vC14LibKeyTag(s.k)
		if !pan {
			s.sig.KeyTag = tag
		}
		return "unimplemented-algorithm"
	default:
		s.sig.TypeCovered++
		return "type-covered-changed"
	}
}

func vC14ErrCode(err error) int {
	switch {
	case err == nil:
		return 0
	case errors.Is(err, ErrMissingSigned):
		return 1
	case errors.Is(err, ErrMissingDNSKEY):
		return 2
	case errors.Is(err, dns.ErrSig):
		return 3
	}
	return 4
}

// vC14WalkErrCode names the error verifyOneSig / VerifyRRSIG returned: 0 nil, 1 ErrMissingSigned,
// 2 ErrMissingDNSKEY, 3 dns.ErrSig, 5 ErrInvalidSignaturePeriod, 6 dns.ErrAlg, 7 ErrNoSignatures,
// 9 another sentinel of the package (none is documented for these two functions), 4 anything else
// (an error of the library's packer).  Sentinels are compared by identity.
func vC14WalkErrCode(err error) int {
	switch err {
	case nil:
		return 0
	case error(ErrMissingSigned):
		return 1
	case error(ErrMissingDNSKEY):
		return 2
	case error(dns.ErrSig):
		return 3
	case error(ErrInvalidSignaturePeriod):
		return 5
	case error(dns.ErrAlg):
		return 6
	case error(ErrNoSignatures):
		return 7
	}
	var ede *dnsutil.EDEError
	if errors.As(err, &ede) || IsWorkError(err) {
		return 9
	}
	return 4
}

// vC14CryptoOracle evaluates the elliptic primitives on msg for (key, sig).
func vC14CryptoOracle(k *dns.DNSKEY, s *dns.RRSIG, msg []byte) vC14Oracle {
	o := vC14Oracle{msg: msg, hids: vC14HashIDFor(s.Algorithm)}
	pub, err1 := base64.StdEncoding.DecodeString(k.PublicKey)
	sg, err2 := base64.StdEncoding.DecodeString(s.Signature)
	if err1 != nil || err2 != nil {
		return o
	}
	switch s.Algorithm {
	case 13, 14:
		curve := elliptic.P256()
		if s.Algorithm == 14 {
			curve = elliptic.P384()
		}
		size := (curve.Params().BitSize + 7) / 8
		if len(pub) != 2*size {
			return o
		}
		pk, err := ecdsa.ParseUncompressedPublicKey(curve, append([]byte{4}, pub...))
		if err != nil {
			return o
		}
		o.ecp = true
		if len(sg) == 2*size {
			o.ecv = ecdsa.Verify(pk, vC14HashFor(s.Algorithm, msg), new(big.Int).SetBytes(sg[:size]), new(big.Int).SetBytes(sg[size:]))
		}
	case 15:
		if len(pub) == ed25519.PublicKeySize && len(sg) == ed25519.SignatureSize {
			o.edv = ed25519.Verify(ed25519.PublicKey(pub), msg, sg)
		}
	}
	return o
}

// --------------------------------------------------------------- driver

func TestVerifC14Sig(t *testing.T) {
	tr := vC14Open(t)
	defer tr.f.Close()
	seed := int64(vC14EnvInt("VERIF_SEED", 1))
	n := vC14EnvInt("VERIF_N", 1200)
	thorough := os.Getenv("VERIF_TIER") == "thorough"
	r := rand.New(rand.NewSource(seed))
	keys := vC14Keys(r, thorough)
	var cheap, rsa1, rsa2 []*vC14SigKey
	for _, k := range keys {
		switch {
		case k.rsa == nil:
			cheap = append(cheap, k)
		case k.cost >= 2:
			rsa2 = append(rsa2, k)
		default:
			rsa1 = append(rsa1, k)
		}
	}
	// modular exponentiations the Coq side can afford per run
	budget1, budget2 := 10, 0
	if thorough {
		budget1, budget2 = 120, 12
	}
	if !time.Unix(vC14Inception, 0).Before(time.Now()) || !time.Unix(vC14Expiration, 0).After(time.Now()) {
		t.Fatal("fixed validity window no longer contains the present")
	}
	// spread the expensive keys evenly over the run (about 34% of the cases reach pick)
	verifyCases := float64(n) * 0.34
	pr2 := 1.2 * float64(budget2) / verifyCases
	pr1 := 1.6 * float64(budget1) / verifyCases
	pick := func() *vC14SigKey {
		x := r.Float64()
		if budget2 > 0 && x < pr2 {
			budget2--
			return rsa2[r.Intn(len(rsa2))]
		}
		if budget1 > 0 && x < pr2+pr1 {
			k := rsa1[r.Intn(len(rsa1))]
			budget1 -= k.cost
			return k
		}
		return cheap[r.Intn(len(cheap))]
	}
	vC14Probes(tr, r, cheap)
	vC14ReplayCorpus(t, tr, cheap[0])
	// every key once with a correctly signed RRset, spread over the run so that the
	// expensive ones land in different evaluation shards
	every := max(1, n/(len(keys)+1))
	next := 0
	for c := 0; c < n; c++ {
		if c == n/3 || c == 2*n/3 {
			vC14CaseConcurrent(tr, r, cheap, keys)
			continue
		}
		if c%every == every/2 && next < len(keys) {
			vC14CaseShowcase(tr, r, keys[next])
			next++
			continue
		}
		switch x := r.Intn(100); {
		case x < 22:
			vC14CaseSigned(tr, r, cheap)
		case x < 40:
			vC14CaseBinding(tr, r, cheap)
		case x < 74:
			vC14CaseVerify(tr, r, pick(), keys)
		case x < 85:
			vC14CaseOneSig(tr, r, cheap, keys)
		default:
			vC14CaseMsg(tr, r, cheap)
		}
	}
}

// ---- fixed regression inputs (corpus/C14/regressions.json)

func vC14ReplayCorpus(t *testing.T, tr *vC14Trace, key *vC14SigKey) {
	corpus := vC14LoadCorpus(t)
	for _, c := range corpus.Nsec {
		s := &vC14Scn{key: key, zone: c.Zone, k: key.dnskey(c.Zone, 257)}
		for _, nx := range c.Next {
			h := dns.RR_Header{Name: c.Owner, Class: dns.ClassINET, Ttl: 3600}
			s.set = append(s.set, vC14NSEC(h, nx, []uint16{dns.TypeA, dns.TypeRRSIG, dns.TypeNSEC}))
		}
		tag, _ := vC14LibKeyTag(s.k)
		s.sig = &dns.RRSIG{Hdr: dns.RR_Header{Name: c.Owner, Rrtype: dns.TypeRRSIG, Class: dns.ClassINET, Ttl: 3600}, TypeCovered: dns.TypeNSEC, Algorithm: key.alg,
			Labels: c.Labels, OrigTtl: 3600, Expiration: vC14Expiration, Inception: vC14Inception, KeyTag: tag, SignerName: c.Zone}
		if !s.resign() {
			t.Fatalf("corpus: nsec entry %q cannot be signed", c.Note)
		}
		vC14EmitSigned(tr, s, "corpus")
		vC14EmitVerify(tr, key, s, "valid-corpus")
	}
	for _, c := range corpus.Suffix {
		vC14EmitSuffix(tr, c.A, c.B)
	}
	for _, c := range corpus.Synth {
		vC14EmitSynth(tr, c.Owner, c.Target, c.Dnames)
	}
}

// ---- probes outside the property's input domain

// vC14Probes records two inputs that cannot come out of the library's unpacker
// and on which the binding preflight is wider than the library's: a key owner
// that is not fully qualified, and an owner name of more than 255 labels.  They
// show that the hypotheses of the binding theorem are necessary; they are not
// judged (CaseProbe has no specification).
func vC14Probes(tr *vC14Trace, r *rand.Rand, keys []*vC14SigKey) {
	// (a) relative names on both the key and the signer field
	s := vC14NewScn(r, keys[0])
	for s.zone == "." || !s.signedOK {
		s = vC14NewScn(r, keys[0])
	}
	rel := strings.TrimSuffix(strings.ToLower(s.zone), ".")
	s.k.Hdr.Name, s.sig.SignerName = rel, rel
	set := vC14RRs(s.set)
	err := signatureBinding(s.k, s.sig, set)
	lib, _ := vC14LibPreflight(s.k, s.sig, set)
	full := cryptoVerify(s.k, s.sig, set)
	tr.emit("probe-relative-key-owner", fmt.Sprintf("CaseProbe %s %s %s %d (Some %s)", vC14Key(s.k), vC14SigCoq(s.sig), vC14SetCoq(s.set), vC14ErrCode(err), vC14Bool(lib)), "", false,
		map[string]any{"key_owner": rel, "signer": rel, "binding": fmt.Sprint(err), "lib_preflight": lib, "cryptoVerify": fmt.Sprint(full),
			"note": "outside the input domain: names out of the unpacker are fully qualified"})
	// (b) 302 labels: the library compares uint8(CountLabel) with Labels
	s2 := vC14NewScn(r, keys[0])
	for s2.zone == "." {
		s2 = vC14NewScn(r, keys[0])
	}
	owner := strings.Repeat("a.", 300) + strings.ToLower(s2.zone)
	h := dns.RR_Header{Name: owner, Rrtype: dns.TypeA, Class: dns.ClassINET, Ttl: 60}
	s2.set = []vC14RR{vC14GenRR(r, "A", h, 0)}
	s2.sig.Hdr.Name, s2.sig.TypeCovered, s2.sig.Labels = owner, dns.TypeA, 100
	set2 := vC14RRs(s2.set)
	err2 := signatureBinding(s2.k, s2.sig, set2)
	lib2, _ := vC14LibPreflight(s2.k, s2.sig, set2)
	tr.emit("probe-302-labels", fmt.Sprintf("CaseProbe %s %s %s %d (Some %s)", vC14Key(s2.k), vC14SigCoq(s2.sig), vC14SetCoq(s2.set), vC14ErrCode(err2), vC14Bool(lib2)), "", false,
		map[string]any{"labels": dns.CountLabel(owner), "sig_labels": 100, "binding": fmt.Sprint(err2), "lib_preflight": lib2,
			"note": "outside the input domain: a name of 302 labels does not fit a DNS message"})
	// (c) an RRSIG whose signer field lacks the final dot, next to its fully-qualified twin: the two have one
	// identity (rrsigID applies dns.Fqdn), the first of the two is kept, and the relative one names no key
	// (strings.EqualFold on the raw names) — the witness of sig_order_needs_fqdn_signers
	s3 := vC14NewScn(r, keys[0])
	for bad := true; bad; {
		t := s3.set[0].rr.Header().Rrtype
		bad = s3.zone == "." || !s3.signedOK || t == dns.TypeRRSIG || t == dns.TypeCNAME || t == dns.TypeDNAME
		if bad {
			s3 = vC14NewScn(r, keys[0])
		}
	}
	relSig := dns.Copy(s3.sig).(*dns.RRSIG)
	relSig.SignerName = strings.TrimSuffix(relSig.SignerName, ".")
	keyMap := map[uint16][]*dns.DNSKEY{s3.sig.KeyTag: {s3.k}}
	for _, first := range []bool{true, false} {
		var ans []vC14MItem
		for i := range s3.set {
			ans = append(ans, vC14MItem{rec: &s3.set[i]})
		}
		name := "probe-relative-signer-second"
		if first {
			ans = append(ans, vC14MItem{sig: relSig}, vC14MItem{sig: s3.sig})
			name = "probe-relative-signer-first"
		} else {
			ans = append(ans, vC14MItem{sig: s3.sig}, vC14MItem{sig: relSig})
		}
		msg := new(dns.Msg)
		msg.Answer = vC14ItemsRR(ans)
		var ok bool
		var verr error
		pan := vC14Guard(func() { ok, verr = VerifyRRSIG(s3.zone, keyMap, msg) })
		ref, _, groups := vC14RefWalk(s3.zone, keyMap, msg.Answer, nil)
		orcs, ecp, ev, conflict := vC14MsgOracles(keyMap, groups, ans)
		coq := ""
		if !conflict && pan == "" {
			coq = fmt.Sprintf("CaseMsgProbe %s [(%d%%N, [%s])] %s [] %s %s %s %d%%N", vC14Str(s3.zone), s3.sig.KeyTag, vC14Key(s3.k), vC14ItemsCoq(ans), orcs, ecp, ev, vC14WalkErrCode(verr))
		}
		tr.emit(name, coq, "", false, map[string]any{"zone": s3.zone, "relative_signer": relSig.SignerName, "ok": ok, "err": fmt.Sprint(verr), "panic": pan, "reference": ref,
			"note": "outside the input domain: names out of the unpacker are fully qualified"})
	}
}

// ---- rrsigSignedData

// the slice the previous call returned (not a copy) and its contents at that time
var (
	vC14HeldSigned []byte
	vC14HeldCopy   string
)

func vC14CaseSigned(tr *vC14Trace, r *rand.Rand, keys []*vC14SigKey) {
	s := vC14NewScn(r, keys[r.Intn(len(keys))])
	shape := "signer-produced"
	switch r.Intn(8) {
	case 0:
		s.sig.Labels = uint8(r.Intn(6))
		shape = "labels-arbitrary"
	case 1:
		s.sig.OrigTtl = []uint32{0, 1, 0xffffffff}[r.Intn(3)]
		shape = "origttl-extreme"
	case 2:
		s.sig.KeyTag = []uint16{0, 1, 0xffff}[r.Intn(3)]
		shape = "keytag-extreme"
	case 3:
		s.sig.Algorithm = uint8(r.Intn(256))
		shape = "algorithm-arbitrary"
	}
	if len(s.notes) > 0 {
		shape += "+" + strings.Join(s.notes, "+")
	}
	vC14EmitSigned(tr, s, shape)
}

func vC14EmitSigned(tr *vC14Trace, s *vC14Scn, shape string) {
	set := vC14RRs(s.set)
	var got []byte
	var err error
	fail := ""
	if p := vC14Guard(func() { got, err = rrsigSignedData(s.sig, set) }); p != "" {
		fail = "rrsigSignedData panicked: " + p
	}
	// what a call returned belongs to its caller: it must not change while later calls run
	if vC14HeldSigned != nil && string(vC14HeldSigned) != vC14HeldCopy {
		fail = "the signed data returned by the previous call to rrsigSignedData changed during this call (the result aliases state that later calls write)"
	}
	vC14HeldSigned, vC14HeldCopy = got, string(got)
	lib, libOK := vC14LibSigned(s.sig, set)
	if fail == "" {
		switch {
		case libOK && err != nil:
			fail = "rrsigSignedData failed where the library produces signed data: " + err.Error()
		case libOK && string(got) != string(lib):
			fail = "rrsigSignedData differs from the octets the library signs"
		case err == nil && s.sig.Labels == 0 && dns.CountLabel(set[0].Header().Name) > 0:
			fail = "rrsigSignedData produced data for Labels=0 below the root, which the library cannot pack"
		}
	}
	gotCoq := fmt.Sprintf("(inl %d%%N)", vC14ErrCode(err))
	if err == nil {
		gotCoq = "(inr " + vC14Hex(got) + ")"
	}
	libCoq := "None"
	if libOK {
		libCoq = "(Some " + vC14Hex(lib) + ")"
	}
	tr.emit("signed-"+s.set[0].kind, fmt.Sprintf("CaseSigned %s %s %s %s", vC14SigCoq(s.sig), vC14SetCoq(s.set), gotCoq, libCoq), fail, len(s.set) > 1 || len(s.notes) > 0,
		map[string]any{"owner": set[0].Header().Name, "type": s.set[0].kind, "records": len(set), "labels": s.sig.Labels, "shape": shape, "err": fmt.Sprint(err), "lib_available": libOK})
}

// ---- signatureBinding

func vC14CaseBinding(tr *vC14Trace, r *rand.Rand, keys []*vC14SigKey) {
	s := vC14NewScn(r, keys[r.Intn(len(keys))])
	what := vC14Perturb(r, s, keys)
	if r.Intn(5) == 0 { // not an RRset
		extra := vC14GenRRset(r, vC14Name(r, 2), dns.ClassINET)
		s.set = append(s.set, extra[0])
		what += "+not-an-rrset"
	}
	set := vC14RRs(s.set)
	var err error
	fail := ""
	if p := vC14Guard(func() { err = signatureBinding(s.k, s.sig, set) }); p != "" {
		fail = "signatureBinding panicked: " + p
	}
	lib, libPanic := vC14LibPreflight(s.k, s.sig, set)
	if fail == "" && err == nil && !lib {
		fail = "signatureBinding passed an input the library's preflight refuses (" + what + ")"
	}
	// self-check of the transcription: whatever the library's Verify accepts passed its preflight
	if _, libok := vC14RefVerify(s.k, s.sig, set); libok && !lib {
		fail = "driver: preflight transcription refuses what dns.RRSIG.Verify accepts"
	}
	libCoq := "None"
	if !libPanic {
		libCoq = "(Some " + vC14Bool(lib) + ")"
	}
	tr.emit("binding-"+what, fmt.Sprintf("CaseBinding %s %s %s %d %s", vC14Key(s.k), vC14SigCoq(s.sig), vC14SetCoq(s.set), vC14ErrCode(err), libCoq), fail, true,
		map[string]any{"what": what, "owner": set[0].Header().Name, "signer": s.sig.SignerName, "sdns": fmt.Sprint(err), "lib_preflight": lib})
}

// ---- cryptoVerify

// vC14CaseShowcase is one unperturbed, correctly signed RRset for the key.
func vC14CaseShowcase(tr *vC14Trace, r *rand.Rand, key *vC14SigKey) {
	var s *vC14Scn
	for try := 0; try < 12; try++ {
		s = vC14NewScn(r, key)
		if !s.signedOK {
			continue
		}
		if ok, _ := vC14RefVerify(s.k, s.sig, vC14RRs(s.set)); ok || !strings.HasPrefix(key.label, "rsa-even-modulus-wide") {
			break
		}
	}
	vC14EmitVerify(tr, key, s, "valid")
}

func vC14CaseVerify(tr *vC14Trace, r *rand.Rand, key *vC14SigKey, keys []*vC14SigKey) {
	s := vC14NewScn(r, key)
	what := vC14Perturb(r, s, keys)
	vC14EmitVerify(tr, key, s, what)
}

func vC14EmitVerify(tr *vC14Trace, key *vC14SigKey, s *vC14Scn, what string) {
	set := vC14RRs(s.set)
	var err error
	fail := ""
	if p := vC14Guard(func() { err = cryptoVerify(s.k, s.sig, set) }); p != "" {
		fail = "cryptoVerify panicked: " + p
	}
	refok, libok := vC14RefVerify(s.k, s.sig, set)
	eq := vC14EqDomain(s.k, s.sig, set)
	if fail == "" {
		switch {
		case err == nil && !refok:
			fail = fmt.Sprintf("cryptoVerify accepted (%s, %s) and the reference (library / math/big) rejects", key.label, what)
		case eq && (err == nil) != libok:
			fail = fmt.Sprintf("cryptoVerify accept=%v, dns.RRSIG.Verify accept=%v on an input outside the documented differences (%s, %s)", err == nil, libok, key.label, what)
		case s.signedOK && strings.HasPrefix(what, "valid") && !strings.HasPrefix(key.label, "rsa-below-1024") && !strings.HasPrefix(key.label, "rsa-above-4096") && key.label != "rsa1024-e-65bit" &&
			!strings.HasPrefix(key.label, "rsa-even-modulus") && err != nil:
			fail = fmt.Sprintf("cryptoVerify rejected a correctly signed RRset (%s, %s): %v", key.label, what, err)
		}
	}
	// oracle data for the model: the message is the library's canonical form when it has one
	var msg []byte
	if lib, ok := vC14LibSigned(s.sig, set); ok {
		msg = lib
	} else if own, e2 := rrsigSignedData(s.sig, set); e2 == nil {
		msg = own
	}
	o := vC14Oracle{none: true}
	if msg != nil {
		o = vC14CryptoOracle(s.k, s.sig, msg)
	}
	kind := "verify-" + key.label + "-" + what
	tr.emit(kind, fmt.Sprintf("CaseVerify %s %s %s %s %d %s %s %s", vC14Key(s.k), vC14SigCoq(s.sig), vC14SetCoq(s.set), o.coq(), vC14ErrCode(err),
		vC14Bool(libok), vC14Bool(refok), vC14Bool(eq)), fail, true,
		map[string]any{"key": key.label, "what": what, "notes": s.notes, "owner": set[0].Header().Name, "type": s.set[0].kind, "records": len(set),
			"sdns": fmt.Sprint(err), "lib_accepts": libok, "reference_accepts": refok, "equal_domain": eq})
}

// ---- concurrent callers

// vC14CaseConcurrent runs cryptoVerify and rrsigSignedData on a fixed set of
// inputs from several goroutines at once and compares every result with the
// one the same input gave when it ran alone.  The functions are specified as
// pure; a result that depends on what else is running is a wrong verdict for
// some caller.  (On correct code this cannot fail; which call fails on broken
// code depends on the schedule, so the first few are reported as found.)
func vC14CaseConcurrent(tr *vC14Trace, r *rand.Rand, cheap []*vC14SigKey, keys []*vC14SigKey) {
	type item struct {
		s      *vC14Scn
		set    []dns.RR
		code   int
		signed string
		what   string
	}
	var items []item
	for i := 0; i < 48; i++ {
		s := vC14NewScn(r, cheap[r.Intn(len(cheap))])
		what := vC14Perturb(r, s, keys)
		set := vC14RRs(s.set)
		it := item{s: s, set: set, what: what, code: -1}
		if p := vC14Guard(func() {
			it.code = vC14ErrCode(cryptoVerify(s.k, s.sig, set))
			if b, err := rrsigSignedData(s.sig, set); err == nil {
				it.signed = string(b)
			}
		}); p != "" {
			continue
		}
		items = append(items, it)
	}
	const workers, rounds = 8, 12
	fails := make([][]string, workers)
	done := make(chan int, workers)
	for w := 0; w < workers; w++ {
		go func(w int) {
			defer func() { done <- w }()
			for round := 0; round < rounds; round++ {
				for j := range items {
					it := items[(j*7+w*5+round)%len(items)]
					var code int
					var b []byte
					var err error
					if p := vC14Guard(func() {
						b, err = rrsigSignedData(it.s.sig, it.set)
						code = vC14ErrCode(cryptoVerify(it.s.k, it.s.sig, it.set))
					}); p != "" {
						fails[w] = append(fails[w], "panic under concurrency: "+p)
						continue
					}
					if code != it.code {
						fails[w] = append(fails[w], fmt.Sprintf("cryptoVerify gave code %d alone and %d next to other callers (%s, %s)", it.code, code, it.s.key.label, it.what))
					}
					if err == nil && string(b) != it.signed {
						fails[w] = append(fails[w], fmt.Sprintf("rrsigSignedData returned other octets next to other callers than alone (%s)", it.what))
					}
				}
			}
		}(w)
	}
	for w := 0; w < workers; w++ {
		<-done
	}
	fail, total := "", 0
	for _, f := range fails {
		total += len(f)
		if fail == "" && len(f) > 0 {
			fail = f[0]
		}
	}
	if total > 1 {
		fail += fmt.Sprintf(" (+%d more)", total-1)
	}
	tr.emit("concurrent-callers", "", fail, true, map[string]any{"inputs": len(items), "workers": workers, "rounds": rounds, "disagreements": total})
}

// vC14TagTwin is another key with the tag, algorithm, flags and owner of k: two 16-bit words of the key
// material change places (the tag is a sum of words).  Both are eligible candidates for a signature that names
// the tag, so the walk has to try both and — when neither verifies — reports the error of the one that sorts
// last by identity.  Only for the cheap (non-RSA) algorithms; nil when the words are equal.
func vC14TagTwin(k *dns.DNSKEY, at int) *dns.DNSKEY {
	if vC14IsRSA(k.Algorithm) || k.Algorithm == dns.RSAMD5 {
		return nil
	}
	raw, err := base64.StdEncoding.DecodeString(k.PublicKey)
	if err != nil || len(raw) < 4 {
		return nil
	}
	i := 2 * (at % (len(raw)/2 - 1))
	if raw[i] == raw[i+2] && raw[i+1] == raw[i+3] {
		return nil
	}
	raw[i], raw[i+1], raw[i+2], raw[i+3] = raw[i+2], raw[i+3], raw[i], raw[i+1]
	tw := dns.Copy(k).(*dns.DNSKEY)
	tw.PublicKey = base64.StdEncoding.EncodeToString(raw)
	a, pa := vC14LibKeyTag(k)
	b, pb := vC14LibKeyTag(tw)
	if pa || pb || a != b {
		return nil
	}
	return tw
}

// vC14FailingSigs makes two or three signatures for the scenario's RRset that all fail, each for another
// reason (the number in the name is the error verifyOneSig gives), in random order.  Every one differs from
// the good signature in its signature octets, so that the recorded primitive verdicts stay keyed uniquely.
func vC14FailingSigs(r *rand.Rand, s *vC14Scn) ([]*dns.RRSIG, string) {
	flip := func(g *dns.RRSIG) {
		raw, err := base64.StdEncoding.DecodeString(g.Signature)
		if err != nil || len(raw) == 0 {
			return
		}
		raw[r.Intn(len(raw))] ^= 1 << uint(r.Intn(8))
		g.Signature = base64.StdEncoding.EncodeToString(raw)
	}
	var out []*dns.RRSIG
	var names []string
	for _, v := range r.Perm(6)[:2+r.Intn(2)] {
		g := dns.Copy(s.sig).(*dns.RRSIG)
		switch v {
		case 0:
			flip(g)
			names = append(names, "flipped3")
		case 1:
			g.Expiration = 1600000000 + uint32(r.Intn(1000))
			c := &vC14Scn{key: s.key, zone: s.zone, k: s.k, set: s.set, sig: g}
			c.resign()
			names = append(names, "expired5")
		case 2:
			g.KeyTag += uint16(1 + r.Intn(3))
			flip(g)
			names = append(names, "othertag2")
		case 3:
			g.Algorithm = []uint8{0, 1, 3, 6, 12, 16, 17, 253}[r.Intn(8)]
			flip(g)
			names = append(names, "algorithm6")
		case 4:
			g.Labels = uint8(dns.CountLabel(g.Hdr.Name) + 1 + r.Intn(2))
			flip(g)
			names = append(names, "labels1")
		case 5:
			g.Inception += uint32(1 + r.Intn(1000))
			flip(g)
			names = append(names, "inception3")
		}
		out = append(out, g)
	}
	return out, strings.Join(names, ",")
}

// ---- verifyOneSig

func vC14CaseOneSig(tr *vC14Trace, r *rand.Rand, cheap []*vC14SigKey, keys []*vC14SigKey) {
	s := vC14NewScn(r, cheap[r.Intn(len(cheap))])
	what := vC14Perturb(r, s, keys)
	if r.Intn(8) == 0 {
		s.sig.Expiration = 1600000000
		s.resign()
		what += "+expired"
	}
	set := vC14RRs(s.set)
	// candidate list: the key, plus decoys filed under the same tag
	cands := []*dns.DNSKEY{s.k}
	for i := r.Intn(3); i > 0; i-- {
		o := cheap[r.Intn(len(cheap))]
		d := o.dnskey(s.k.Hdr.Name, 257)
		switch r.Intn(4) {
		case 0:
			d.Hdr.Name = vC14Name(r, 2)
		case 1:
			d = dns.Copy(s.k).(*dns.DNSKEY)
		}
		cands = append(cands, d)
	}
	if r.Intn(3) == 0 {
		// a second eligible candidate: same tag, algorithm, owner and flags, other material
		if tw := vC14TagTwin(s.k, r.Intn(64)); tw != nil {
			cands = append(cands, tw)
			what += "+tag-twin"
			if r.Intn(3) == 0 {
				if tw2 := vC14TagTwin(tw, r.Intn(64)); tw2 != nil {
					cands = append(cands, tw2)
				}
			}
		}
	}
	r.Shuffle(len(cands), func(i, j int) { cands[i], cands[j] = cands[j], cands[i] })
	keyMap := map[uint16][]*dns.DNSKEY{s.sig.KeyTag: cands}
	if r.Intn(12) == 0 {
		keyMap = map[uint16][]*dns.DNSKEY{s.sig.KeyTag + 1: cands}
		what += "+no-candidates"
	}
	var err error
	fail := ""
	if p := vC14Guard(func() { err = verifyOneSig(keyMap, set, s.sig) }); p != "" {
		fail = "verifyOneSig panicked: " + p
	}
	valid := s.sig.ValidityPeriod(time.Time{})
	code := vC14WalkErrCode(err)
	if fail == "" && code == 9 {
		fail = fmt.Sprintf("verifyOneSig returned an error that is none of the documented ones: %v (%s)", err, what)
	}
	supported := false
	for _, a := range []uint8{5, 7, 8, 10, 13, 14, 15} {
		supported = supported || s.sig.Algorithm == a
	}
	ref, eq := false, true
	for _, k := range keyMap[s.sig.KeyTag] {
		ok, _ := vC14RefVerify(k, s.sig, set)
		ref = ref || ok
		eq = eq && vC14EqDomain(k, s.sig, set)
	}
	ref = ref && valid && supported
	if fail == "" {
		if err == nil && !ref {
			fail = "verifyOneSig accepted and no candidate key verifies under the reference (" + what + ")"
		} else if eq && (err == nil) != ref {
			fail = fmt.Sprintf("verifyOneSig accept=%v, reference accept=%v (%s)", err == nil, ref, what)
		}
	}
	var msg []byte
	if lib, ok := vC14LibSigned(s.sig, set); ok {
		msg = lib
	} else if own, e2 := rrsigSignedData(s.sig, set); e2 == nil {
		msg = own
	}
	orcs := "[]"
	if msg != nil {
		orcs = "[" + vC14Oracle{msg: msg, hids: vC14HashIDFor(s.sig.Algorithm)}.coq() + "]"
	}
	var ks, ecp, ev []string
	seen := map[string]bool{}
	sgRaw, sgErr := base64.StdEncoding.DecodeString(s.sig.Signature)
	for _, k := range keyMap[s.sig.KeyTag] {
		if seen[k.PublicKey] || msg == nil || sgErr != nil {
			continue
		}
		seen[k.PublicKey] = true
		pub, e1 := base64.StdEncoding.DecodeString(k.PublicKey)
		if e1 != nil {
			continue
		}
		o := vC14CryptoOracle(k, s.sig, msg)
		ecp = append(ecp, fmt.Sprintf("(%s, %s)", vC14Hex(pub), vC14Bool(o.ecp)))
		ev = append(ev, fmt.Sprintf("(%s, %s, %s)", vC14Hex(pub), vC14Hex(sgRaw), vC14Bool(o.ecv || o.edv)))
	}
	for t, l := range keyMap {
		var p []string
		for _, k := range l {
			p = append(p, vC14Key(k))
		}
		ks = append(ks, fmt.Sprintf("(%d%%N, [%s])", t, strings.Join(p, "; ")))
	}
	tr.emit("onesig-"+what, fmt.Sprintf("CaseOneSig [%s] %s %s %s %s [%s] [%s] %s %s %s %d%%N", strings.Join(ks, "; "), vC14SetCoq(s.set), vC14SigCoq(s.sig), vC14Bool(valid), orcs,
		strings.Join(ecp, "; "), strings.Join(ev, "; "), vC14Bool(err == nil), vC14Bool(ref), vC14Bool(eq), code), fail, true,
		map[string]any{"what": what, "candidates": len(cands), "sdns": fmt.Sprint(err), "reference_accepts": ref})
}

// ---- VerifyRRSIG on whole messages: the code, an independent walk written with the
// library's helpers, and the Coq model of the walk (CaseMsg)

// vC14MItem is one record of a message section: a data record or an RRSIG.
type vC14MItem struct {
	rec *vC14RR
	sig *dns.RRSIG
}

func (it vC14MItem) rr() dns.RR {
	if it.sig != nil {
		return it.sig
	}
	return it.rec.rr
}

func (it vC14MItem) coq() string {
	if it.sig != nil {
		return "MS " + vC14SigCoq(it.sig) + " " + vC14Bool(it.sig.ValidityPeriod(time.Time{}))
	}
	return "MR " + it.rec.coq()
}

func vC14ItemsCoq(l []vC14MItem) string {
	var p []string
	for _, it := range l {
		p = append(p, it.coq())
	}
	return "[" + strings.Join(p, "; ") + "]"
}

func vC14ItemsRR(l []vC14MItem) []dns.RR {
	var out []dns.RR
	for _, it := range l {
		out = append(out, it.rr())
	}
	return out
}

// vC14RefSynth is RFC 6672 §3.3 with the library's helpers only: some DNAME owns
// a proper ancestor of the CNAME owner, and replacing that suffix by the DNAME
// target gives the CNAME target.
func vC14RefSynth(owner, target string, dnames [][2]string) bool {
	idx := dns.Split(owner)
	for _, d := range dnames {
		dl := dns.CountLabel(d[0])
		if dl == 0 || len(idx) <= dl || dns.CompareDomainName(d[0], owner) != dl {
			continue
		}
		prefix := owner[:idx[len(idx)-dl]]
		if strings.EqualFold(dns.Fqdn(prefix+d[1]), dns.Fqdn(target)) {
			return true
		}
	}
	return false
}

// vC14RefGroup is one RRset of the reference walk.
type vC14RefGroup struct {
	name  string
	rtype uint16
	class uint16
	set   []dns.RR
}

// vC14RefWalk decides a message the way the property reads: every answer record
// belongs to the signer zone; every RRset that takes part (not RRSIGs, not CNAMEs
// an in-zone DNAME synthesises, in the authority section neither NS sets nor
// out-of-zone remnants) has an RRSIG owned in the zone, of its name, type and
// class, inside its validity period, of an implemented algorithm, that the
// reference verifier accepts for the whole RRset under a key filed under the
// signature's tag.  eq: every (key, signature, RRset) it looked at lies outside the
// documented differences, so the code must give the same verdict.
func vC14RefWalk(signer string, keyMap map[uint16][]*dns.DNSKEY, answer, ns []dns.RR) (ok, eq bool, groups []*vC14RefGroup) {
	zone := strings.ToLower(dns.Fqdn(signer))
	inZone := func(name string) bool { return dns.IsSubDomain(zone, strings.ToLower(name)) }
	var dnames [][2]string
	for _, sec := range [][]dns.RR{answer, ns} {
		for _, rr := range sec {
			if d, isD := rr.(*dns.DNAME); isD && inZone(d.Hdr.Name) {
				dnames = append(dnames, [2]string{d.Hdr.Name, d.Target})
			}
		}
	}
	eq = true
	foreign := false
	find := func(rr dns.RR) *vC14RefGroup {
		h := rr.Header()
		for _, g := range groups {
			if g.name == strings.ToLower(h.Name) && g.rtype == h.Rrtype && g.class == h.Class {
				return g
			}
		}
		g := &vC14RefGroup{name: strings.ToLower(h.Name), rtype: h.Rrtype, class: h.Class}
		groups = append(groups, g)
		return g
	}
	for si, sec := range [][]dns.RR{answer, ns} {
		for _, rr := range sec {
			h := rr.Header()
			if h.Rrtype == dns.TypeRRSIG || (si == 1 && h.Rrtype == dns.TypeNS) {
				continue
			}
			if c, isC := rr.(*dns.CNAME); isC && h.Rrtype == dns.TypeCNAME && vC14RefSynth(h.Name, c.Target, dnames) {
				continue
			}
			if !inZone(h.Name) {
				if si == 0 {
					foreign = true
				}
				continue
			}
			g := find(rr)
			g.set = append(g.set, rr)
		}
	}
	if foreign {
		return false, true, groups
	}
	ok = true
	for _, g := range groups {
		good := false
		for _, rr := range append(append([]dns.RR{}, answer...), ns...) {
			sg, isSig := rr.(*dns.RRSIG)
			if !isSig || strings.ToLower(sg.Hdr.Name) != g.name || sg.TypeCovered != g.rtype || sg.Hdr.Class != g.class || !inZone(sg.Hdr.Name) {
				continue
			}
			supported := false
			for _, a := range []uint8{5, 7, 8, 10, 13, 14, 15} {
				supported = supported || sg.Algorithm == a
			}
			for _, k := range keyMap[sg.KeyTag] {
				eq = eq && vC14EqDomain(k, sg, g.set)
				if rok, _ := vC14RefVerify(k, sg, g.set); rok && supported && sg.ValidityPeriod(time.Time{}) {
					good = true
				}
			}
		}
		ok = ok && good
	}
	return ok, eq, groups
}

// vC14MsgOracles records, for every (signature, RRset it covers, candidate key), what
// the hash functions and the elliptic primitives say; conflict: one (key, signature)
// pair met two different messages with different verdicts (the tables are keyed by
// the pair), in which case the case carries no Coq term.
func vC14MsgOracles(keyMap map[uint16][]*dns.DNSKEY, groups []*vC14RefGroup, items []vC14MItem) (orcs, ecp, ev string, conflict bool) {
	var ol, el, vl []string
	seenMsg := map[string]bool{}
	seenP := map[string]bool{}
	seenV := map[string]bool{}
	for _, it := range items {
		sg := it.sig
		if sg == nil {
			continue
		}
		sgRaw, sgErr := base64.StdEncoding.DecodeString(sg.Signature)
		for _, g := range groups {
			if strings.ToLower(sg.Hdr.Name) != g.name || sg.TypeCovered != g.rtype || sg.Hdr.Class != g.class {
				continue
			}
			var msg []byte
			if lib, ok := vC14LibSigned(sg, g.set); ok {
				msg = lib
			} else if own, e2 := rrsigSignedData(sg, g.set); e2 == nil {
				msg = own
			}
			if msg == nil {
				continue
			}
			if !seenMsg[string(msg)] {
				seenMsg[string(msg)] = true
				ol = append(ol, vC14Oracle{msg: msg, hids: vC14HashIDFor(sg.Algorithm)}.coq())
			}
			if sgErr != nil {
				continue
			}
			for _, k := range keyMap[sg.KeyTag] {
				pub, e1 := base64.StdEncoding.DecodeString(k.PublicKey)
				if e1 != nil {
					continue
				}
				// the elliptic primitives are consulted for signatures of the elliptic algorithms only: a record of
				// what they say under another algorithm number would shadow the entry of the same key material
				if !vC14IsECDSA(sg.Algorithm) && sg.Algorithm != dns.ED25519 {
					continue
				}
				o := vC14CryptoOracle(k, sg, msg)
				pk := fmt.Sprintf("(%s, %s)", vC14Hex(pub), vC14Bool(o.ecp))
				id := fmt.Sprintf("%d/%x", sg.Algorithm, pub)
				if !seenP[pk] && vC14IsECDSA(sg.Algorithm) {
					if seenP[id] && vC14IsECDSA(sg.Algorithm) {
						conflict = true
					}
					seenP[pk], seenP[id] = true, true
					el = append(el, pk)
				}
				vk := fmt.Sprintf("(%s, %s, %s)", vC14Hex(pub), vC14Hex(sgRaw), vC14Bool(o.ecv || o.edv))
				vid := fmt.Sprintf("%x/%x", pub, sgRaw)
				if !seenV[vk] {
					if seenV[vid] {
						conflict = true
					}
					seenV[vk], seenV[vid] = true, true
					vl = append(vl, vk)
				}
			}
		}
	}
	return "[" + strings.Join(ol, "; ") + "]", "[" + strings.Join(el, "; ") + "]", "[" + strings.Join(vl, "; ") + "]", conflict
}

func vC14CaseMsg(tr *vC14Trace, r *rand.Rand, cheap []*vC14SigKey) {
	if r.Intn(6) == 0 {
		vC14CaseSynth(tr, r)
		return
	}
	zone := vC14Name(r, 1+r.Intn(2))
	key := cheap[r.Intn(len(cheap))]
	k := key.dnskey(zone, 257)
	tag, _ := vC14LibKeyTag(k)
	var ans, ns []vC14MItem
	// sign makes the RRSIG of a set under the zone's key
	sign := func(set []vC14RR) *vC14Scn {
		h0 := set[0].rr.Header()
		s := &vC14Scn{key: key, zone: zone, k: k, set: set}
		s.sig = &dns.RRSIG{Hdr: dns.RR_Header{Name: vC14MixCase(r, h0.Name), Rrtype: dns.TypeRRSIG, Class: h0.Class, Ttl: h0.Ttl}, TypeCovered: h0.Rrtype, Algorithm: key.alg,
			Labels: uint8(dns.CountLabel(h0.Name)), OrigTtl: h0.Ttl, Expiration: vC14Expiration, Inception: vC14Inception, KeyTag: tag, SignerName: vC14MixCase(r, zone)}
		s.resign()
		return s
	}
	add := func(sec *[]vC14MItem, set []vC14RR) {
		for i := range set {
			*sec = append(*sec, vC14MItem{rec: &set[i]})
		}
	}
	what := "all-signed"
	expect, sure := true, true // the generator's intent, where it knows
	seenSet := map[string]bool{}
	nsets := 1 + r.Intn(3)
	for i := 0; i < nsets; i++ {
		owner := zone
		if r.Intn(2) == 0 {
			owner = vC14Label(r) + "." + zone
		}
		set := vC14GenRRset(r, vC14MixCase(r, owner), dns.ClassINET)
		h0 := set[0].rr.Header()
		id := fmt.Sprintf("%s/%d", strings.ToLower(h0.Name), h0.Rrtype)
		if seenSet[id] || h0.Rrtype == dns.TypeRRSIG {
			// two sets collapsing into one RRset would not be covered by either signature;
			// a data record of type RRSIG is a signature to the walk
			continue
		}
		seenSet[id] = true
		if h0.Rrtype == dns.TypeCNAME || h0.Rrtype == dns.TypeDNAME {
			sure = false // may or may not be a synthesis pair with another set: the reference walk decides
		}
		s := sign(set)
		// authority-section data (anything but NS) is validated exactly like answer data
		sec := &ans
		if r.Intn(4) == 0 {
			sec = &ns
			if h0.Rrtype == dns.TypeNS {
				what = "authority-ns-set" // left alone, signed or not
			}
		}
		inAuthorityNS := sec == &ns && h0.Rrtype == dns.TypeNS
		add(sec, s.set)
		switch r.Intn(24) {
		case 9: // the only signature sits under a name outside the zone: it is not this RRset's
			out := dns.Copy(s.sig).(*dns.RRSIG)
			out.Hdr.Name = "other.invalid."
			*sec = append(*sec, vC14MItem{sig: out})
			if !inAuthorityNS {
				what, expect = "signature-owned-outside-zone", false
			}
			continue
		case 10: // the only signature covers another type
			other := dns.Copy(s.sig).(*dns.RRSIG)
			other.TypeCovered++
			*sec = append(*sec, vC14MItem{sig: other})
			if !inAuthorityNS {
				what, expect = "signature-covers-other-type", false
			}
			continue
		case 11: // one record of the set spells the owner in another case: the same RRset to the
			// walk (it groups case-insensitively), not an RRset to the library's IsRRset
			if len(s.set) > 1 {
				alt := vC14MixCase(r, h0.Name)
				if alt != h0.Name {
					s.set[len(s.set)-1].rr.Header().Name = alt
					if !inAuthorityNS {
						what, expect = "owner-case-split", false
					}
				}
			}
		case 12: // the signature is filed in the other section: sections are searched together
			other := &ns
			if sec == &ns {
				other = &ans
			}
			*other = append(*other, vC14MItem{sig: s.sig})
			if what == "all-signed" {
				what = "signature-in-other-section"
			}
			continue
		case 0:
			if i == nsets-1 || r.Intn(2) == 0 {
				if !inAuthorityNS {
					what, expect = "one-set-unsigned", false
				}
				continue
			}
		case 1:
			raw, _ := base64.StdEncoding.DecodeString(s.sig.Signature)
			raw[0] ^= 0x40
			bad := dns.Copy(s.sig).(*dns.RRSIG)
			bad.Signature = base64.StdEncoding.EncodeToString(raw)
			*sec = append(*sec, vC14MItem{sig: bad})
			if r.Intn(2) == 0 { // a bad sibling next to a good signature does not matter
				if what == "all-signed" {
					what = "bad-sibling-signature"
				}
			} else {
				if !inAuthorityNS {
					what, expect = "only-a-bad-signature", false
				}
				continue
			}
		case 2:
			s.sig.Expiration = 1600000000
			s.resign()
			if !inAuthorityNS {
				what, expect = "expired", false
			}
		case 3: // the same signature twice
			*sec = append(*sec, vC14MItem{sig: dns.Copy(s.sig).(*dns.RRSIG)})
		case 4, 5, 6: // several signatures that fail for different reasons, in random order, with or without a
			// good one among them: the walk tries them in identity order, so only the error depends on it
			bad, names := vC14FailingSigs(r, s)
			l := make([]vC14MItem, 0, len(bad)+2)
			for _, g := range bad {
				l = append(l, vC14MItem{sig: g})
				if r.Intn(5) == 0 { // and one of them twice, the owner respelled
					g2 := dns.Copy(g).(*dns.RRSIG)
					g2.Hdr.Name = vC14MixCase(r, g2.Hdr.Name)
					l = append(l, vC14MItem{sig: g2})
				}
			}
			if r.Intn(3) == 0 {
				l = append(l, vC14MItem{sig: s.sig})
				if what == "all-signed" {
					what = "failing-siblings(" + names + ")"
				}
			} else if !inAuthorityNS {
				what, expect = "only-failing-signatures("+names+")", false
			}
			r.Shuffle(len(l), func(i, j int) { l[i], l[j] = l[j], l[i] })
			*sec = append(*sec, l...)
			continue
		}
		*sec = append(*sec, vC14MItem{sig: s.sig})
	}
	// a DNAME of the zone and the CNAME synthesised from it (RFC 6672): the CNAME carries no signature
	if r.Intn(4) == 0 {
		downer := zone
		if r.Intn(3) != 0 {
			downer = vC14Label(r) + "." + zone
		}
		shape := r.Intn(8)
		if shape == 6 { // a DNAME outside the zone authorises nothing
			downer = vC14Label(r) + ".other.invalid."
		}
		target := vC14Name(r, 1+r.Intn(2))
		id := fmt.Sprintf("%s/%d", strings.ToLower(downer), dns.TypeDNAME)
		cl := vC14Label(r)
		if r.Intn(3) == 0 {
			cl = vC14Label(r) + "." + cl
		}
		cowner := cl + "." + downer
		cid := fmt.Sprintf("%s/%d", strings.ToLower(cowner), dns.TypeCNAME)
		if !seenSet[id] && !seenSet[cid] && !strings.Contains(cl, `\`) {
			seenSet[id], seenSet[cid] = true, true
			dh := dns.RR_Header{Name: vC14MixCase(r, downer), Rrtype: dns.TypeDNAME, Class: dns.ClassINET, Ttl: 300}
			dset := []vC14RR{{&dns.DNAME{Hdr: dh, Target: target}, "DNAME", []vC14F{vC14FN(target)}}}
			ctarget := vC14MixCase(r, cl+"."+target)
			synth := "synthesised-cname"
			switch shape {
			case 0: // not what the substitution gives
				ctarget = cl + "x." + target
				synth = "cname-target-not-the-substitution"
			case 1: // the CNAME sits at the DNAME owner itself: not a proper descendant
				cowner, ctarget = downer, target
				synth = "cname-at-dname-owner"
			case 2: // relative spelling of the target: Fqdn is applied to both sides
				ctarget = strings.TrimSuffix(ctarget, ".")
				synth = "synthesised-cname-relative-target"
			case 6:
				synth = "dname-outside-zone"
			}
			ch := dns.RR_Header{Name: vC14MixCase(r, cowner), Rrtype: dns.TypeCNAME, Class: dns.ClassINET, Ttl: 300}
			cset := []vC14RR{{&dns.CNAME{Hdr: ch, Target: ctarget}, "CNAME", []vC14F{vC14FN(ctarget)}}}
			ds := sign(dset)
			dsec := &ans
			if r.Intn(5) == 0 {
				dsec = &ns
			}
			add(dsec, ds.set)
			if shape != 7 {
				*dsec = append(*dsec, vC14MItem{sig: ds.sig})
			} else {
				synth = "dname-unsigned"
			}
			add(&ans, cset)
			if r.Intn(6) == 0 { // a signed CNAME is fine either way
				ans = append(ans, vC14MItem{sig: sign(cset).sig})
				synth += "+cname-signed"
			}
			what += "+" + synth
			sure = false
		}
	}
	switch r.Intn(14) {
	case 0: // a foreign record in the answer
		h := dns.RR_Header{Name: "foreign.invalid.", Rrtype: dns.TypeA, Class: dns.ClassINET, Ttl: 60}
		ans = append(ans, vC14MItem{rec: &vC14RR{&dns.A{Hdr: h, A: []byte{192, 0, 2, 9}}, "A", []vC14F{vC14FB([]byte{192, 0, 2, 9})}}})
		what, expect = what+"+foreign-answer-record", false
	case 1: // a referral remnant in the authority section is ignored
		h := dns.RR_Header{Name: "other.invalid.", Rrtype: dns.TypeNS, Class: dns.ClassINET, Ttl: 60}
		ns = append(ns, vC14MItem{rec: &vC14RR{&dns.NS{Hdr: h, Ns: "ns.other.invalid."}, "NS", []vC14F{vC14FN("ns.other.invalid.")}}})
		what += "+authority-remnant"
	case 2: // so is out-of-zone data of another type there (the zone cut's DS denial)
		h := dns.RR_Header{Name: "other.invalid.", Rrtype: dns.TypeTXT, Class: dns.ClassINET, Ttl: 60}
		ns = append(ns, vC14MItem{rec: &vC14RR{&dns.TXT{Hdr: h, Txt: []string{"x"}}, "TXT", []vC14F{vC14FB(vC14CharStr("x"))}}})
		what += "+authority-foreign-data"
	case 3: // a name that only ends in the zone's text
		if zone != "." {
			h := dns.RR_Header{Name: "evil" + zone, Rrtype: dns.TypeA, Class: dns.ClassINET, Ttl: 60}
			ans = append(ans, vC14MItem{rec: &vC14RR{&dns.A{Hdr: h, A: []byte{192, 0, 2, 9}}, "A", []vC14F{vC14FB([]byte{192, 0, 2, 9})}}})
			what, expect = what+"+textual-suffix-answer-record", false
		}
	}
	if r.Intn(24) == 0 {
		// no RRSIG anywhere in the message
		strip := func(l []vC14MItem) []vC14MItem {
			var out []vC14MItem
			for _, it := range l {
				if it.sig == nil {
					out = append(out, it)
				}
			}
			return out
		}
		ans, ns = strip(ans), strip(ns)
		what += "+no-signatures"
		sure = false
	}
	keyMap := map[uint16][]*dns.DNSKEY{tag: {k}}
	switch r.Intn(16) {
	case 2, 3: // a second eligible candidate under the tag: same tag, algorithm, owner, flags, other material
		if tw := vC14TagTwin(k, r.Intn(64)); tw != nil {
			keyMap[tag] = []*dns.DNSKEY{tw, k}
			if r.Intn(2) == 0 {
				keyMap[tag] = []*dns.DNSKEY{k, tw}
			}
			what += "+tag-twin"
		}
	case 0: // a second candidate under the tag
		o := cheap[r.Intn(len(cheap))]
		keyMap[tag] = []*dns.DNSKEY{o.dnskey(zone, 257), k}
	case 1: // the key is filed under another tag
		keyMap = map[uint16][]*dns.DNSKEY{tag + 1: {k}}
		if len(ans)+len(ns) > 0 {
			sure = false
		}
		what += "+key-under-other-tag"
	}
	signer := zone
	switch r.Intn(6) {
	case 0:
		signer = vC14MixCase(r, zone)
	case 1:
		signer = strings.TrimSuffix(zone, ".")
	}
	msg := new(dns.Msg)
	msg.Answer, msg.Ns = vC14ItemsRR(ans), vC14ItemsRR(ns)
	var ok bool
	var err error
	fail := ""
	if p := vC14Guard(func() { ok, err = VerifyRRSIG(signer, keyMap, msg) }); p != "" {
		fail = "VerifyRRSIG panicked: " + p
	}
	got := ok && err == nil
	code := vC14WalkErrCode(err)
	ref, eq, groups := vC14RefWalk(signer, keyMap, msg.Answer, msg.Ns)
	if fail == "" {
		if ok != (err == nil) {
			fail = fmt.Sprintf("VerifyRRSIG = (%v, %v): the verdict and the error disagree (%s)", ok, err, what)
		} else if code == 9 {
			fail = fmt.Sprintf("VerifyRRSIG returned an error that is none of the documented ones: %v (%s)", err, what)
		} else if got && !ref {
			fail = "VerifyRRSIG accepted a message the reference rejects (" + what + ")"
		} else if eq && got != ref {
			fail = fmt.Sprintf("VerifyRRSIG = (%v, %v), reference says %v (%s)", ok, err, ref, what)
		} else if sure && ref != expect {
			fail = "driver: the reference verdict differs from the generator's intent (" + what + ")"
		}
	}
	orcs, ecp, ev, conflict := vC14MsgOracles(keyMap, groups, append(append([]vC14MItem{}, ans...), ns...))
	coq := ""
	if !conflict {
		var ks []string
		for t, l := range keyMap {
			var p []string
			for _, kk := range l {
				p = append(p, vC14Key(kk))
			}
			ks = append(ks, fmt.Sprintf("(%d%%N, [%s])", t, strings.Join(p, "; ")))
		}
		coq = fmt.Sprintf("CaseMsg %s [%s] %s %s %s %s %s %s %s %s %d%%N", vC14Str(signer), strings.Join(ks, "; "), vC14ItemsCoq(ans), vC14ItemsCoq(ns), orcs, ecp, ev,
			vC14Bool(got), vC14Bool(ref), vC14Bool(eq), code)
	}
	tr.emit("msg-"+what, coq, fail, true, map[string]any{"zone": zone, "signer": signer, "answer": len(ans), "authority": len(ns), "rrsets": len(groups), "what": what, "ok": ok, "err": fmt.Sprint(err), "reference": ref})
}

// ---- isSynthesizedCNAME and internal/dnsname.CompareSuffix on their own

func vC14CaseSynth(tr *vC14Trace, r *rand.Rand) {
	for i := 0; i < 4; i++ {
		vC14CaseSuffix(tr, r)
	}
	for i := 0; i < 3; i++ {
		vC14CaseSynthOne(tr, r)
	}
}

func vC14WellFormed(s string) bool { _, ok := dns.IsDomainName(s); return ok && dns.IsFqdn(s) }

func vC14OddOrName(r *rand.Rand) string {
	if r.Intn(4) == 0 {
		return vC14OddName(r)
	}
	return vC14MixCase(r, vC14Name(r, r.Intn(6)))
}

// vC14CaseSuffix: CompareSuffix on related names (ancestor, case variant, sibling under a
// shared ancestor, the same labels with one in the middle replaced — equal labels that are
// not part of the shared suffix must not count) and on unrelated ones.
func vC14CaseSuffix(tr *vC14Trace, r *rand.Rand) {
	a := vC14OddOrName(r)
	b := vC14OddOrName(r)
	switch r.Intn(6) {
	case 0:
		b = vC14MixCase(r, vC14Label(r)+"."+a)
	case 1:
		b = vC14MixCase(r, a)
	case 2:
		if idx := dns.Split(a); len(idx) > 1 {
			b = vC14Label(r) + "." + a[idx[1+r.Intn(len(idx)-1)]:]
		}
	case 3, 4: // one label replaced, the labels to its left kept
		if idx := dns.Split(a); len(idx) > 1 {
			k := 1 + r.Intn(len(idx)-1)
			end := len(a)
			if k+1 < len(idx) {
				end = idx[k+1]
			}
			b = vC14MixCase(r, a[:idx[k]]+vC14Label(r)+"x."+a[end:])
			if r.Intn(3) == 0 {
				b = vC14Label(r) + "." + b
			}
		}
	}
	if r.Intn(2) == 0 {
		a, b = b, a
	}
	vC14EmitSuffix(tr, a, b)
}

func vC14EmitSuffix(tr *vC14Trace, a, b string) {
	var n, lib int
	fail := ""
	if p := vC14Guard(func() { n = dnsname.CompareSuffix(a, b) }); p != "" {
		fail = "CompareSuffix panicked: " + p
	}
	vC14Guard(func() { lib = dns.CompareDomainName(a, b) })
	wf := vC14WellFormed(a) && vC14WellFormed(b)
	if fail == "" && wf && n != lib {
		fail = fmt.Sprintf("CompareSuffix(%q, %q) = %d, dns.CompareDomainName = %d", a, b, n, lib)
	}
	tr.emit("suffix", fmt.Sprintf("CaseSuffix %s %s %d %d %s", vC14Str(a), vC14Str(b), n, lib, vC14Bool(wf)), fail, true, map[string]any{"a": a, "b": b, "shared": n, "lib": lib})
}

func vC14CaseSynthOne(tr *vC14Trace, r *rand.Rand) {
	var pairs [][2]string
	for i := 0; i < 1+r.Intn(3); i++ {
		pairs = append(pairs, [2]string{vC14MixCase(r, vC14Name(r, r.Intn(4))), vC14Name(r, 1+r.Intn(2))})
	}
	d := pairs[r.Intn(len(pairs))]
	lbl := vC14Label(r)
	for strings.Contains(lbl, `\`) {
		lbl = vC14Label(r)
	}
	owner, target := lbl+"."+d[0], lbl+"."+d[1]
	if d[0] == "." {
		owner = lbl + "."
	}
	switch r.Intn(8) {
	case 0:
		target = lbl + "x." + d[1]
	case 1:
		owner, target = d[0], d[1]
	case 2:
		owner = vC14MixCase(r, owner)
		target = strings.TrimSuffix(vC14MixCase(r, target), ".")
	case 3:
		owner, target = "a."+owner, "a."+target
	case 4:
		owner = vC14OddOrName(r)
	case 5: // the DNAME owner with one label replaced: equal labels, not an ancestor
		if idx := dns.Split(d[0]); len(idx) > 1 {
			k := 1 + r.Intn(len(idx)-1)
			end := len(d[0])
			if k+1 < len(idx) {
				end = idx[k+1]
			}
			owner = lbl + "." + d[0][:idx[k]] + "zz." + d[0][end:]
		}
	}
	vC14EmitSynth(tr, owner, target, pairs)
}

func vC14EmitSynth(tr *vC14Trace, owner, target string, pairs [][2]string) {
	var dn []*dns.DNAME
	var dcoq []string
	for _, p := range pairs {
		dn = append(dn, &dns.DNAME{Hdr: dns.RR_Header{Name: p[0], Rrtype: dns.TypeDNAME, Class: dns.ClassINET}, Target: p[1]})
		dcoq = append(dcoq, fmt.Sprintf("(%s, %s)", vC14Str(p[0]), vC14Str(p[1])))
	}
	cn := &dns.CNAME{Hdr: dns.RR_Header{Name: owner, Rrtype: dns.TypeCNAME, Class: dns.ClassINET}, Target: target}
	var got bool
	fail := ""
	if p := vC14Guard(func() { got = isSynthesizedCNAME(cn, dn) }); p != "" {
		fail = "isSynthesizedCNAME panicked: " + p
	}
	ref := false
	vC14Guard(func() { ref = vC14RefSynth(owner, target, pairs) })
	wf := vC14WellFormed(owner)
	if fail == "" && wf && got != ref {
		fail = fmt.Sprintf("isSynthesizedCNAME(%q -> %q) = %v, RFC 6672 substitution with the library's helpers says %v", owner, target, got, ref)
	}
	tr.emit("synth", fmt.Sprintf("CaseSynth %s %s [%s] %s %s %s", vC14Str(owner), vC14Str(target), strings.Join(dcoq, "; "), vC14Bool(got), vC14Bool(ref), vC14Bool(wf)), fail, true,
		map[string]any{"owner": owner, "target": target, "dnames": pairs, "got": got, "ref": ref})
}
