//go:build verif

package dnssec

// C02 driver, NSEC3 part: real SHA-1 NSEC3 chains (iterations, salt, Opt-Out)
// of generated zones; subsets / orderings / polluted mixtures handed to the
// three signer-bound verifiers and to EvaluateAggressiveNSEC3.  The model
// receives every hash value as data (its rank among the values of the case).

import (
	"encoding/hex"
	"fmt"
	"math/big"
	"math/rand"
	"sort"
	"strings"
	"testing"
	"testing/synctest"

	"github.com/miekg/dns"
	"github.com/semihalev/sdns/internal/dnsutil"
)

type vC02Probe3 struct {
	q              vC02Name
	qtype, qclass  uint16
	dname          *[2]vC02Name
	ne, nd, dl, ag int
	nes, nds       bool
	agi            []int
	eff            vC02Name
	effStr         string
	note           string
	fails          []vC02Failure
	msg            *dns.Msg
	pq             dns.Question
}

func (p *vC02Probe3) only(field string) *vC02Probe3 {
	q := *p
	if field != "ne" {
		q.ne = 99
	}
	if field != "nd" {
		q.nd = 99
	}
	if field != "dl" {
		q.dl = 99
	}
	if field != "ag" {
		q.ag, q.agi = 99, nil
	}
	return &q
}

func (p *vC02Probe3) without(field string) *vC02Probe3 {
	q := *p
	switch field {
	case "ne":
		q.ne = 99
	case "nd":
		q.nd = 99
	case "dl":
		q.dl = 99
	case "ag":
		q.ag, q.agi = 99, nil
	}
	return &q
}

func (p *vC02Probe3) coq() string {
	d := "None"
	if p.dname != nil {
		d = "(Some (" + vC02Coq(p.dname[0]) + "," + vC02Coq(p.dname[1]) + "))"
	}
	return fmt.Sprintf("mk_probe3 %s %d %d %s (%d,%v) (%d,%v) %d %s", vC02Coq(p.q), p.qtype, p.qclass, d,
		p.ne, p.nes, p.nd, p.nds, p.dl, vC02CoqAobs(p.ag, p.agi))
}

func (p *vC02Probe3) desc() string {
	s := fmt.Sprintf("%s %s class=%d", vC02Pres(p.q), dns.TypeToString[p.qtype], p.qclass)
	if p.dname != nil {
		s += fmt.Sprintf(" [answer: %s DNAME %s => %s]", vC02Pres(p.dname[0]), vC02Pres(p.dname[1]), p.effStr)
	}
	return s + fmt.Sprintf(" -> NameError=(%d,secure=%v) NODATA=(%d,secure=%v) Delegation=%d aggressive=%d%v %s",
		p.ne, p.nes, p.nd, p.nds, p.dl, p.ag, p.agi, p.note)
}

func TestVerifC02Nsec3(t *testing.T) {
	tr := vC02Open(t)
	defer tr.f.Close()
	seed := int64(vC02EnvInt("VERIF_SEED", 1))
	n := vC02EnvInt("VERIF_N", 200)
	r := rand.New(rand.NewSource(seed*104729 + 3))
	g := &vC02Gen{r: r}
	for c := 0; c < n; c++ {
		g.newPool(r.Intn(3) == 0)
		var apex vC02Name
		switch k := r.Intn(12); {
		case k == 0:
			apex = vC02Name{}
		case k < 7:
			apex = vC02Name{g.poolLabel()}
		default:
			apex = vC02Name{g.poolLabel(), g.poolLabel()}
		}
		z := g.genZone(apex, 1+r.Intn(8))
		vC02Nsec3Case(t, tr, g, z)
	}
}

func vC02Nsec3Case(t *testing.T, tr *vC02Trace, g *vC02Gen, zin *vC02Zone) {
	r := g.r
	// an NSEC3-signed zone has no NSEC RRsets
	z := &vC02Zone{apex: zin.apex}
	for _, nd := range zin.nodes {
		var ts []uint16
		for _, t := range nd.types {
			if t != dns.TypeNSEC {
				ts = append(ts, t)
			}
		}
		z.nodes = append(z.nodes, vC02Node{nd.name, ts})
	}
	z.index()
	params := vC02Params{iter: []uint16{0, 0, 1, 5, 150}[r.Intn(5)], salt: []string{"", "", "ab", "beef"}[r.Intn(4)]}
	optout := r.Intn(3) == 0
	chain, omitted := g.nsec3Chain(z, params, optout, r.Intn(2) == 0)
	cands := g.candidates(z)

	var recs []vC02Rec3
	kind := ""
	switch k := r.Intn(10); {
	case k < 4:
		kind = "full"
		recs = append(recs, chain...)
	case k < 8:
		kind = "subset"
		for _, rc := range chain {
			if r.Intn(3) > 0 {
				recs = append(recs, rc)
			}
		}
	case k < 9:
		kind = "few"
		for i := 0; i < 1+r.Intn(3); i++ {
			recs = append(recs, chain[r.Intn(len(chain))])
		}
	default:
		kind = "empty"
	}
	polluted := ""
	if r.Intn(100) < 35 && len(chain) > 0 {
		// pick a record to tamper with; half of the time it is taken out of the set first,
		// so the tampered copy does not also collide with its original
		pick := func() vC02Rec3 {
			if len(recs) > 0 {
				i := r.Intn(len(recs))
				rc := recs[i]
				if r.Intn(2) == 0 {
					recs = append(recs[:i:i], recs[i+1:]...)
				}
				return rc
			}
			return chain[r.Intn(len(chain))]
		}
		switch r.Intn(12) {
		case 11: // a genuine interval with the Opt-Out flag flipped
			rc := pick()
			rc.flags ^= 1
			rc.genuine = false
			recs = append(recs, rc)
			polluted = "optout-flip"
		case 0: // a sibling zone's chain
			if len(z.apex) > 0 {
				sib := append([]byte(nil), z.apex[0]...)
				sib[len(sib)-1] ^= 1
				sz := g.genZone(vC02Child(sib, z.apex[1:]), 2)
				sc, _ := g.nsec3Chain(sz, params, false, false)
				for _, rc := range sc {
					rc.genuine = false
					recs = append(recs, rc)
				}
				polluted = "sibling"
			}
		case 1: // a child zone's chain (owners two labels below the signer)
			for _, nd := range z.nodes {
				if vC02Has(nd.types, dns.TypeNS) && !vC02Has(nd.types, dns.TypeSOA) {
					cz := g.genZone(nd.name, 2)
					cc, _ := g.nsec3Chain(cz, params, false, false)
					for _, rc := range cc {
						rc.genuine = false
						recs = append(recs, rc)
					}
					polluted = "child"
					break
				}
			}
		case 2: // another parameter tuple
			rc := pick()
			if r.Intn(2) == 0 {
				rc.salt = "00"
			} else {
				rc.iter++
			}
			rc.genuine = false
			recs = append(recs, rc)
			polluted = "params"
		case 3: // a record the validator must ignore
			rc := pick()
			switch r.Intn(3) {
			case 0:
				rc.alg = 2
			case 1:
				rc.flags = 2 + uint8(r.Intn(2))
			default:
				rc.iter = 151
			}
			rc.genuine = false
			recs = append(recs, rc)
			polluted = "unsafe"
		case 4:
			rc := pick()
			rc.class = 3
			rc.genuine = false
			recs = append(recs, rc)
			polluted = "class"
		case 5: // same owner, different content
			rc := pick()
			switch r.Intn(3) {
			case 0:
				rc.types = vC02SortTypes(append(append([]uint16(nil), rc.types...), dns.TypeSRV))
			case 1:
				rc.flags ^= 1
			default:
				rc.next = chain[r.Intn(len(chain))].next
			}
			rc.genuine = false
			recs = append(recs, rc)
			polluted = "conflict"
		case 6: // exact duplicate, owner label in the other case
			rc := pick()
			rc.label = strings.ToUpper(rc.label)
			recs = append(recs, rc)
			polluted = "duplicate"
		case 7: // owner label that is no hash
			rc := pick()
			if r.Intn(2) == 0 {
				rc.label = rc.label[:31]
			} else {
				rc.label = "w" + rc.label[1:]
			}
			rc.genuine = false
			recs = append(recs, rc)
			polluted = "bad-owner"
		case 8: // next hash of the wrong length
			rc := pick()
			rc.next = rc.next[:16]
			rc.genuine = false
			recs = append(recs, rc)
			polluted = "bad-next"
		case 9: // made-up interval
			rc := pick()
			nx := make([]byte, 20)
			r.Read(nx)
			rc.next = nx
			rc.genuine = false
			recs = append(recs, rc)
			polluted = "made-up"
		case 10: // made-up Opt-Out interval around everything
			lo := make([]byte, 20)
			r.Read(lo)
			rc := vC02Rec3{zone: z.apex, label: strings.ToLower(vC02B32.EncodeToString(lo)), next: lo, alg: 1, flags: 1, iter: params.iter, salt: params.salt, class: 1}
			recs = append(recs, rc)
			polluted = "made-up-optout"
		}
	}
	// genuineness by content
	for i := range recs {
		recs[i].genuine = false
		for _, cl := range chain {
			if strings.EqualFold(cl.label, recs[i].label) && vC02Key(cl.zone) == vC02Key(recs[i].zone) && string(cl.next) == string(recs[i].next) &&
				cl.alg == recs[i].alg && cl.flags == recs[i].flags && cl.iter == recs[i].iter && cl.salt == recs[i].salt &&
				cl.class == recs[i].class && vC02CoqTypes(cl.types) == vC02CoqTypes(recs[i].types) {
				recs[i].genuine = true
			}
		}
	}
	r.Shuffle(len(recs), func(i, j int) { recs[i], recs[j] = recs[j], recs[i] })
	if len(recs) > 14 {
		recs = recs[:14]
	}
	var rrs []dns.RR
	for _, rc := range recs {
		rrs = append(rrs, rc.rr())
	}
	rrs = vC02RoundTrip(rrs)
	signer := z.apex
	if r.Intn(5) == 0 {
		signer = vC02UpperSome(r, signer)
	}
	signerStr := vC02Pres(signer)
	filtered := dnsutil.FilterRRsToZone(rrs, signerStr)
	var kept []int
	var keptRecs []vC02Rec3
	for _, f := range filtered {
		for i, rr := range rrs {
			if rr == f {
				kept = append(kept, i)
				keptRecs = append(keptRecs, recs[i])
			}
		}
	}
	prefilter := r.Intn(3) > 0
	aggrIn, aggrRecs := rrs, recs
	if prefilter {
		aggrIn, aggrRecs = filtered, keptRecs
	}
	allGenuine := func(rs []vC02Rec3) bool {
		for _, rc := range rs {
			if !rc.genuine {
				return false
			}
		}
		return true
	}
	exactJudged, aggrJudged := allGenuine(keptRecs), allGenuine(aggrRecs)

	// hash parameters the code will use: those of the records (all equal, or the set is refused)
	hp := params
	for i, rr := range rrs {
		n3 := rr.(*dns.NSEC3)
		if nsec3Safe(n3) && recs[i].class != 0 {
			hp = vC02Params{iter: n3.Iterations, salt: n3.Salt}
			break
		}
	}

	tabNames := map[string]vC02Name{}
	addTab := func(q vC02Name) {
		for k := 0; k <= len(q); k++ {
			s := vC02Suffix(q, k)
			if vC02Sub(s, z.apex) {
				tabNames[vC02Key(s)] = s
				w := vC02Child(vC02Star, s)
				tabNames[vC02Key(w)] = w
			}
		}
	}

	nprobes := 3 + r.Intn(4)
	var probes []*vC02Probe3
	for i := 0; i < nprobes; i++ {
		p := &vC02Probe3{}
		p.q = cands[r.Intn(len(cands))]
		if len(omitted) > 0 && r.Intn(4) == 0 {
			p.q = omitted[r.Intn(len(omitted))]
			if r.Intn(2) == 0 {
				p.q = vC02Child(g.poolLabel(), p.q)
			}
		}
		if r.Intn(3) == 0 {
			p.q = vC02FlipSome(r, p.q)
		}
		p.qtype = g.qtypeFor(z, p.q)
		p.qclass = g.qclass()
		if r.Intn(14) == 0 && len(p.q) > 0 {
			o := p.q[1+r.Intn(len(p.q)):]
			tg := cands[r.Intn(len(cands))]
			if len(tg) == 0 {
				tg = vC02Name{[]byte("t")}
			}
			p.dname = &[2]vC02Name{o, tg}
		}
		qs := vC02Pres(p.q)
		msg := new(dns.Msg)
		msg.SetQuestion(qs, p.qtype)
		msg.Question[0].Qclass = p.qclass
		msg.Response = true
		p.eff, p.effStr = p.q, qs
		if p.dname != nil {
			msg.Answer = []dns.RR{&dns.DNAME{Hdr: dns.RR_Header{Name: vC02Pres(p.dname[0]), Rrtype: dns.TypeDNAME, Class: 1, Ttl: 300}, Target: vC02Pres(p.dname[1])}}
			if tgt := dnsutil.DnameTarget(msg); tgt != "" {
				p.effStr = tgt
				k := len(p.q) - len(p.dname[0])
				p.eff = append(append(vC02Name(nil), p.q[:k]...), p.dname[1]...)
			}
		}
		addTab(p.q)
		addTab(p.eff)
		sec, err := VerifyNameErrorForZoneWithWork(msg, filtered, signerStr, nil)
		p.ne, p.nes = vC02ErrClass(err), sec
		sec, err = VerifyNODATAForZoneWithWork(msg, filtered, signerStr, nil)
		p.nd, p.nds = vC02ErrClass(err), sec
		p.dl = vC02ErrClass(VerifyDelegationForZoneWithWork(qs, signerStr, filtered, nil))
		pq := msg.Question[0]
		pq.Name = p.effStr
		p.msg, p.pq = msg, pq
		res, aerr := EvaluateAggressiveNSEC3(pq, signerStr, aggrIn, nil)
		p.ag, p.agi = vC02AggrObs(res, aerr, aggrIn)

		if vC02Sub(p.eff, z.apex) {
			how := z.existsHow(p.eff)
			ndTrue := z.nodataTrue(p.eff, p.qtype)
			p.note = fmt.Sprintf("[truth: exists=%q nodata=%v]", how, ndTrue)
			ndKey := "" // nsec3-nodata-at-delegation was fixed by 130ba3b
			if exactJudged && p.nd == 0 && p.nds && (!ndTrue || p.qclass != 1) {
				p.fails = append(p.fails, vC02Failure{field: "nd", fkey: ndKey,
					msg: fmt.Sprintf("VerifyNODATAForZoneWithWork authenticated NODATA for %s %s which is not true of the zone", p.effStr, dns.TypeToString[p.qtype])})
			} else if ndKey != "" {
				p.fails = append(p.fails, vC02Failure{field: "nd", fkey: ndKey})
			}
			if exactJudged {
				if p.ne == 0 && p.nes && (how != "" || p.qclass != 1) {
					p.fails = append(p.fails, vC02Failure{field: "ne", msg: fmt.Sprintf("VerifyNameErrorForZoneWithWork authenticated NXDOMAIN for %s which exists (%s)", p.effStr, how)})
				}
				if p.dl == 0 && vC02Sub(p.q, z.apex) && z.owner(p.q) != nil && !z.insecureDelegation(p.q) {
					p.fails = append(p.fails, vC02Failure{field: "dl", msg: fmt.Sprintf("VerifyDelegationForZoneWithWork accepted %s as an insecure delegation", qs)})
				}
				// round 6: "no DS, insecure" is never proven for a name strictly below a delegation that has a DS (or
				// below a DNAME): every name on the way down to the cut is in the chain, no Opt-Out span covers it
				if p.dl == 0 && vC02Sub(p.q, z.apex) && vC02BelowSecureCut(z, p.q) != nil {
					p.fails = append(p.fails, vC02Failure{field: "dl", msg: fmt.Sprintf("VerifyDelegationForZoneWithWork accepted %s as lying in an insecure (Opt-Out) span although it is below the secure cut %s",
						qs, vC02Pres(vC02BelowSecureCut(z, p.q).name))})
				}
				if p.nd == 0 && p.qtype == dns.TypeDS && vC02BelowSecureCut(z, p.eff) != nil {
					p.fails = append(p.fails, vC02Failure{field: "nd", msg: fmt.Sprintf("VerifyNODATAForZoneWithWork accepted 'no DS' (secure=%v) for %s although it is below the secure cut %s",
						p.nds, p.effStr, vC02Pres(vC02BelowSecureCut(z, p.eff).name))})
				}
			}
			if aggrJudged {
				if p.ag == 13 && (how != "" || p.qclass != 1) {
					p.fails = append(p.fails, vC02Failure{field: "ag", msg: fmt.Sprintf("EvaluateAggressiveNSEC3 synthesised NXDOMAIN for %s which exists (%s) / class %d", p.effStr, how, p.qclass)})
				} else if p.ag == 10 && (!ndTrue || p.qclass != 1) {
					p.fails = append(p.fails, vC02Failure{field: "ag", msg: fmt.Sprintf("EvaluateAggressiveNSEC3 synthesised NODATA for %s %s which is not true of the zone", p.effStr, dns.TypeToString[p.qtype])})
				}
			}
		}
		// Opt-Out never supports shared state: a denial from the aggressive evaluator must not
		// have an Opt-Out record among its covering records
		if p.ag == 13 {
			for _, i := range p.agi[1:] {
				if aggrIn[i].(*dns.NSEC3).Flags&1 != 0 {
					p.fails = append(p.fails, vC02Failure{field: "ag", msg: "EvaluateAggressiveNSEC3 returned NXDOMAIN resting on an Opt-Out interval"})
					break
				}
			}
		}
		probes = append(probes, p)
	}

	// hash values -> ranks
	vals := map[string]*big.Int{}
	type rh struct{ o, n *big.Int }
	rhs := make([]rh, len(rrs))
	for i, rr := range rrs {
		n3 := rr.(*dns.NSEC3)
		lbl := strings.SplitN(n3.Hdr.Name, ".", 2)[0]
		if v, ok := vC02Decode32(lbl); ok {
			rhs[i].o = v
			vals[v.String()] = v
		}
		if v, ok := vC02Decode32(n3.NextDomain); ok {
			rhs[i].n = v
			vals[v.String()] = v
		}
	}
	type te struct {
		n vC02Name
		v *big.Int
	}
	var tab []te
	var keys []string
	for k := range tabNames {
		keys = append(keys, k)
	}
	sort.Strings(keys)
	for _, k := range keys {
		v := new(big.Int).SetBytes(vC02Hash(tabNames[k], hp))
		tab = append(tab, te{tabNames[k], v})
		vals[v.String()] = v
	}
	var sorted []*big.Int
	for _, v := range vals {
		sorted = append(sorted, v)
	}
	sort.Slice(sorted, func(i, j int) bool { return sorted[i].Cmp(sorted[j]) < 0 })
	ranks := map[string]int{}
	for i, v := range sorted {
		ranks[v.String()] = i
	}

	var rcoq, rdesc []string
	for i, rr := range rrs {
		n3 := rr.(*dns.NSEC3)
		salt, _ := hex.DecodeString(n3.Salt)
		rcoq = append(rcoq, fmt.Sprintf("mk_nsec3 %s %s %s %d %d %d %d %s %d %s", vC02Coq(recs[i].zone), vC02CoqOptN(rhs[i].o, ranks), vC02CoqOptN(rhs[i].n, ranks),
			n3.HashLength, n3.Hash, n3.Flags, n3.Iterations, vC02CoqLabel(salt), n3.Hdr.Class, vC02CoqTypes(n3.TypeBitMap)))
		of := ""
		if recs[i].genuine {
			of = "H(" + vC02Pres(recs[i].hashedOf) + ")"
		}
		rdesc = append(rdesc, strings.TrimSpace(fmt.Sprintf("%d: %s NSEC3 %d %d %d %q %s %s class=%d %s %s", i, n3.Hdr.Name, n3.Hash, n3.Flags, n3.Iterations, n3.Salt, n3.NextDomain,
			vC02CoqTypes(n3.TypeBitMap), n3.Hdr.Class, of, recs[i].note)))
	}
	var tcoq []string
	for _, e := range tab {
		tcoq = append(tcoq, fmt.Sprintf("(%s,%d)", vC02Coq(e.n), ranks[e.v.String()]))
	}
	var om []string
	for _, o := range omitted {
		om = append(om, vC02Pres(o))
	}
	workFailed := "" // set for CaseNsec3Work
	workDesc := ""
	emit := func(ps []*vC02Probe3, fkey, fail string) {
		var pc, pd []string
		denial, refusal := false, false
		for _, p := range ps {
			pc = append(pc, p.coq())
			pd = append(pd, p.desc())
			for _, v := range []int{p.ne, p.nd, p.dl, p.ag} {
				if v == 0 || v >= 10 {
					denial = true
				} else {
					refusal = true
				}
			}
		}
		k := "nsec3-" + kind
		if optout {
			k += "-optout"
		}
		if polluted != "" {
			k += "+" + polluted
		}
		m := map[string]any{
			"k": k,
			"coq": fmt.Sprintf("(CaseNsec3%s %s %s [%s] %s %v [%s] %v %v %s[%s])%%N", map[bool]string{false: "", true: "Work"}[workFailed != ""], z.coq(), vC02Coq(signer), strings.Join(rcoq, ";"),
				vC02CoqInts(kept), prefilter, strings.Join(tcoq, ";"), exactJudged, aggrJudged, workFailed, strings.Join(pc, ";")),
			"go_fail":    fail,
			"nontrivial": len(recs) > 0 && denial && refusal,
			"desc": map[string]any{"zone": z.desc(), "signer": signerStr, "iterations": params.iter, "salt": params.salt, "opt_out_omitted": om,
				"records": rdesc, "kept_by_FilterRRsToZone": kept, "aggressive_input_filtered": prefilter, "probes": pd},
		}
		if fkey != "" {
			m["fkey"] = fkey
		}
		if workFailed != "" {
			m["k"] = "nsec3-work"
			m["desc"].(map[string]any)["work_governor"] = workDesc
		}
		tr.emit(m)
	}
	var group []*vC02Probe3
	for _, p := range probes {
		rest := p
		unlisted := ""
		for _, f := range p.fails {
			if f.fkey != "" {
				emit([]*vC02Probe3{p.only(f.field)}, f.fkey, f.msg)
				rest = rest.without(f.field)
			} else if unlisted == "" {
				unlisted = f.msg
			}
		}
		if unlisted != "" {
			emit([]*vC02Probe3{rest}, "", unlisted)
		} else {
			group = append(group, rest)
		}
	}
	if len(group) > 0 {
		emit(group, "", "")
	}

	// ---- the same validation under a work governor: the k-th hash computation is refused while a
	// second validation of the same request tree (sharing the NSEC3 hash memo) is parked on that
	// slot.  Neither may turn the missing hash into a denial.
	if len(probes) == 0 || len(filtered) == 0 || r.Intn(2) == 0 {
		return
	}
	p := probes[r.Intn(len(probes))]
	field := []string{"ne", "nd", "dl", "ag"}[r.Intn(4)]
	failAt := 1 + r.Intn(3)
	type wres struct {
		code int
		sec  bool
		idx  []int
	}
	run := func(work NSEC3Work) wres {
		switch field {
		case "ne":
			sec, err := VerifyNameErrorForZoneWithWork(p.msg, filtered, signerStr, work)
			return wres{vC02ErrClass(err), sec, nil}
		case "nd":
			sec, err := VerifyNODATAForZoneWithWork(p.msg, filtered, signerStr, work)
			return wres{vC02ErrClass(err), sec, nil}
		case "dl":
			return wres{vC02ErrClass(VerifyDelegationForZoneWithWork(vC02Pres(p.q), signerStr, filtered, work)), false, nil}
		}
		res, err := EvaluateAggressiveNSEC3(p.pq, signerStr, aggrIn, work)
		c, idx := vC02AggrObs(res, err, aggrIn)
		return wres{c, false, idx}
	}
	var leader, follower wres
	failedKey := ""
	parked := false
	synctest.Test(t, func(t *testing.T) {
		memo := NewNSEC3HashMemo()
		lw := &vC02Work{memo: memo, failAt: failAt, entered: make(chan struct{}), release: make(chan struct{})}
		fw := &vC02Work{memo: memo}
		lch, fch := make(chan wres, 1), make(chan wres, 1)
		go func() { lch <- run(lw) }()
		synctest.Wait() // the leader has finished, or is held inside the governor at its failing hash
		select {
		case <-lw.entered:
			parked = true
		default:
		}
		go func() { fch <- run(fw) }()
		synctest.Wait() // the follower has finished, or is parked on the leader's memo slot
		if parked {
			close(lw.release) // now the leader's hash fails
		}
		leader, follower = <-lch, <-fch
		failedKey = lw.failedKey
	})
	var failedName vC02Name
	if parked && failedKey != "" {
		saltLen := len(hp.salt) / 2
		off := 1 + 2 + 2 + 2 + saltLen + len(vC02Wire(z.apex))
		if off <= len(failedKey) {
			w := []byte(failedKey[off:])
			var labels vC02Name
			for i := 0; i < len(w) && w[i] != 0; i += 1 + int(w[i]) {
				labels = append(labels, w[i+1:i+1+int(w[i])])
			}
			failedName = labels
			tabNamesHas := false
			for _, e := range tab {
				if vC02Key(e.n) == vC02Key(labels) {
					tabNamesHas = true
				}
			}
			if !tabNamesHas {
				return // a name outside the table: the model cannot follow this run
			}
		}
	}
	mk := func(w wres, who string) *vC02Probe3 {
		q := *p
		q.fails = nil
		q.ne, q.nd, q.dl, q.ag, q.agi = 99, 99, 99, 99, nil
		switch field {
		case "ne":
			q.ne, q.nes = w.code, w.sec
		case "nd":
			q.nd, q.nds = w.code, w.sec
		case "dl":
			q.dl = w.code
		default:
			q.ag, q.agi = w.code, w.idx
		}
		q.note = who
		return &q
	}
	lp, fp := mk(leader, "[leader]"), mk(follower, "[follower]")
	fail := ""
	if parked {
		workFailed = "[" + vC02Coq(failedName) + "] "
		workDesc = fmt.Sprintf("%s: hash computation #%d (%s) refused while a second validation waited on the shared memo slot", field, failAt, vC02Pres(failedName))
		for _, w := range []struct {
			r   wres
			who string
		}{{leader, "the validation whose hash was refused"}, {follower, "the validation waiting on the shared memo slot"}} {
			if w.r.code == 0 || w.r.code == 10 || w.r.code == 13 {
				fail = fmt.Sprintf("%s accepted a denial (code %d, secure=%v) for %s although the NSEC3 hash of %s could not be computed", w.who, w.r.code, w.r.sec, p.effStr, vC02Pres(failedName))
			}
		}
	} else {
		workFailed = "[] "
		workDesc = fmt.Sprintf("%s: governor never refused (fewer than %d hash computations)", field, failAt)
	}
	emit([]*vC02Probe3{lp, fp}, "", fail)
}

type vC02WorkErr struct{}

func (vC02WorkErr) Error() string { return "verif: NSEC3 work budget exhausted" }

// vC02Work: a work governor sharing one request-tree memo; refuses its failAt-th hash computation,
// after holding it until released
type vC02Work struct {
	memo      *NSEC3HashMemo
	failAt    int
	calls     int
	entered   chan struct{}
	release   chan struct{}
	failedKey string
}

func (w *vC02Work) BeginNSEC3Hash() (func(), error) {
	w.calls++
	if w.failAt != 0 && w.calls == w.failAt {
		// the slot being computed is the one memo entry that is not ready yet
		w.memo.mu.Lock()
		for k, e := range w.memo.entries {
			select {
			case <-e.ready:
			default:
				w.failedKey = k
			}
		}
		w.memo.mu.Unlock()
		close(w.entered)
		<-w.release
		return nil, vC02WorkErr{}
	}
	return func() {}, nil
}

func (w *vC02Work) NSEC3HashMemos() NSEC3HashMemoAccess {
	return NSEC3HashMemoAccess{Read: w.memo, Write: w.memo}
}

// the delegation with a DS (or DNAME owner) strictly above n, if any
func vC02BelowSecureCut(z *vC02Zone, n vC02Name) *vC02Node {
	for i := range z.nodes {
		ts := z.nodes[i].types
		secureCut := (vC02Has(ts, dns.TypeNS) && !vC02Has(ts, dns.TypeSOA) && vC02Has(ts, dns.TypeDS)) || vC02Has(ts, dns.TypeDNAME)
		if secureCut && vC02StrictSub(n, z.nodes[i].name) {
			return &z.nodes[i]
		}
	}
	return nil
}
