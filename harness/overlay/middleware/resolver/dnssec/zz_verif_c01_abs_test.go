//go:build verif

package dnssec

// C01 — abstraction shared by the C01 drivers (this file is copied verbatim,
// apart from the package clause, to ../zz_verif_c01_abs_test.go).
//
// A vC01W turns the concrete records a driver built (real keys, real
// signatures, real digests) into the symbolic terms of coq/theories/C01/Model.v:
//   - a key is its owner/class/flags/protocol/algorithm, a material id (one per
//     generated key pair) and its REAL key tag;
//   - an RRSIG's signature field is labelled, at signing time, with
//     "made with material m over these octets" (SigBy m (Signed ...)); a
//     signature string the harness did not produce itself is junk;
//   - a DS digest is labelled, when computed, with "digest type dt of this key".
// Labels are keyed by the signature / digest text, so they survive copying and a
// trip through the wire, and any later tampering of the surrounding fields leaves
// the label describing what was really signed.

import (
	"crypto"
	"crypto/ecdsa"
	"crypto/ed25519"
	"crypto/elliptic"
	"encoding/base64"
	"encoding/hex"
	"encoding/json"
	"errors"
	"fmt"
	"math/big"
	"math/rand"
	"os"
	"sort"
	"strconv"
	"strings"
	"testing"

	"github.com/miekg/dns"
)

type vC01Trace struct{ f *os.File }

func vC01Open(t *testing.T) *vC01Trace {
	p := os.Getenv("VERIF_OUT")
	if p == "" {
		t.Skip("VERIF_OUT not set")
	}
	f, err := os.Create(p)
	if err != nil {
		t.Fatal(err)
	}
	t.Cleanup(func() { f.Close() })
	return &vC01Trace{f: f}
}

func (v *vC01Trace) emit(m map[string]any) {
	b, _ := json.Marshal(m)
	v.f.Write(append(b, '\n'))
}

func vC01EnvInt(name string, def int) int {
	if s := os.Getenv(name); s != "" {
		if n, err := strconv.Atoi(s); err == nil {
			return n
		}
	}
	return def
}

type vC01Key struct {
	key  *dns.DNSKEY
	priv crypto.Signer
}

type vC01W struct {
	r       *rand.Rand
	labels  map[string]int
	nameVar map[string]string
	lets    []string
	rdata   map[string]int
	mats    map[string]int
	sigs    map[string]string
	digs    map[string]string
	junk    map[string]int
	names   map[string]bool
}

func vC01NewW(r *rand.Rand) *vC01W {
	return &vC01W{r: r, labels: map[string]int{"*": 0}, nameVar: map[string]string{}, rdata: map[string]int{},
		mats: map[string]int{}, sigs: map[string]string{}, digs: map[string]string{}, junk: map[string]int{}, names: map[string]bool{}}
}

// seeded byte source for key generation
type vC01Rand struct{ r *rand.Rand }

func (s vC01Rand) Read(p []byte) (int, error) { return s.r.Read(p) }

// newKey makes a real key pair deterministically from the case PRNG.
func (w *vC01W) newKey(zone string, flags uint16, alg uint8) *vC01Key {
	k := &dns.DNSKEY{Hdr: dns.RR_Header{Name: dns.Fqdn(zone), Rrtype: dns.TypeDNSKEY, Class: dns.ClassINET, Ttl: 3600}, Flags: flags, Protocol: 3, Algorithm: alg}
	var priv crypto.Signer
	switch alg {
	case dns.ECDSAP256SHA256:
		var b [40]byte
		w.r.Read(b[:])
		c := elliptic.P256()
		d := new(big.Int).SetBytes(b[:])
		d.Mod(d, new(big.Int).Sub(c.Params().N, big.NewInt(1)))
		d.Add(d, big.NewInt(1))
		x, y := c.ScalarBaseMult(d.Bytes()) //nolint:staticcheck // deterministic test key
		pk := &ecdsa.PrivateKey{PublicKey: ecdsa.PublicKey{Curve: c, X: x, Y: y}, D: d}
		pub := make([]byte, 64)
		x.FillBytes(pub[:32])
		y.FillBytes(pub[32:])
		k.PublicKey = base64.StdEncoding.EncodeToString(pub)
		priv = pk
	default: // Ed25519 material, whatever algorithm number the record then claims
		var seed [32]byte
		w.r.Read(seed[:])
		pk := ed25519.NewKeyFromSeed(seed[:])
		k.PublicKey = base64.StdEncoding.EncodeToString(pk.Public().(ed25519.PublicKey))
		priv = pk
	}
	w.mats[k.PublicKey] = len(w.mats) + 1
	return &vC01Key{key: k, priv: priv}
}

// clone: same material under another owner / flags (a key re-used by another zone, or a
// non-zone key record)
func (w *vC01W) cloneKey(k *vC01Key, zone string, flags uint16) *vC01Key {
	c := dns.Copy(k.key).(*dns.DNSKEY)
	c.Hdr.Name = dns.Fqdn(zone)
	c.Flags = flags
	return &vC01Key{key: c, priv: k.priv}
}

func (w *vC01W) label(l string) int {
	l = strings.ToLower(l)
	if id, ok := w.labels[l]; ok {
		return id
	}
	id := len(w.labels)
	w.labels[l] = id
	return id
}

// name: Coq term (a let-bound variable) for a presentation-form name
func (w *vC01W) name(s string) string {
	s = strings.ToLower(dns.Fqdn(s))
	if v, ok := w.nameVar[s]; ok {
		return v
	}
	w.names[s] = true
	var ids []string
	for _, l := range dns.SplitDomainName(s) {
		ids = append(ids, strconv.Itoa(w.label(l)))
	}
	v := fmt.Sprintf("n%d", len(w.nameVar))
	w.nameVar[s] = v
	w.lets = append(w.lets, fmt.Sprintf("let %s := [%s] in ", v, strings.Join(ids, ";")))
	return v
}

func (w *vC01W) optName(s string) string {
	if s == "" {
		return "None"
	}
	return "(Some " + w.name(s) + ")"
}

// namesSorted: every name seen so far, in Go's string order of the lower-cased form
func (w *vC01W) namesSorted() string {
	var l []string
	for n := range w.names {
		l = append(l, n)
	}
	sort.Strings(l)
	var out []string
	for _, n := range l {
		out = append(out, w.nameVar[n])
	}
	return "[" + strings.Join(out, ";") + "]"
}

func (w *vC01W) wrap(body string) string { return "(" + strings.Join(w.lets, "") + body + ")" }

func vC01Rdata(rr dns.RR) string {
	return strconv.Itoa(int(rr.Header().Rrtype)) + "|" + strings.TrimPrefix(rr.String(), rr.Header().String())
}

func (w *vC01W) rid(rr dns.RR) int {
	k := vC01Rdata(rr)
	if id, ok := w.rdata[k]; ok {
		return id
	}
	id := len(w.rdata) + 1
	w.rdata[k] = id
	return id
}

func (w *vC01W) junkID(s string) int {
	if id, ok := w.junk[s]; ok {
		return id
	}
	id := len(w.junk) + 1
	w.junk[s] = id
	return id
}

func (w *vC01W) mat(pub string) int {
	if id, ok := w.mats[pub]; ok {
		return id
	}
	id := 1000 + len(w.mats)
	w.mats[pub] = id
	return id
}

// canonRds: ascending distinct rdata ids of an RRset
func (w *vC01W) canonRds(set []dns.RR) string {
	seen := map[int]bool{}
	var ids []int
	for _, rr := range set {
		id := w.rid(rr)
		if !seen[id] {
			seen[id] = true
			ids = append(ids, id)
		}
	}
	sort.Ints(ids)
	var s []string
	for _, i := range ids {
		s = append(s, strconv.Itoa(i))
	}
	return "[" + strings.Join(s, ";") + "]"
}

// sign makes a genuine RRSIG with the key's private half and records what was signed.
// The RRset is signed under the owner it has NOW (sign a "*.zone." RRset and rename it
// afterwards to obtain a wildcard expansion).
func (w *vC01W) sign(k *vC01Key, set []dns.RR, inception, expiration uint32) (*dns.RRSIG, error) {
	sig := &dns.RRSIG{Algorithm: k.key.Algorithm, KeyTag: vC01KeyTag(k.key), SignerName: k.key.Hdr.Name, Inception: inception, Expiration: expiration}
	if sig.KeyTag == 0 {
		return nil, errors.New("key tag 0")
	}
	if err := sig.Sign(k.priv, set); err != nil {
		return nil, err
	}
	h := set[0].Header()
	w.sigs[sig.Signature] = fmt.Sprintf("(SigBy %d (Signed %d %d %d %d %d %d %d %s %s %d %s))", w.mat(k.key.PublicKey),
		sig.TypeCovered, sig.Algorithm, sig.Labels, sig.OrigTtl, sig.Expiration, sig.Inception, sig.KeyTag,
		w.name(sig.SignerName), w.name(h.Name), h.Class, w.canonRds(set))
	return sig, nil
}

// ds computes the real DS of a key and records which key and digest type it is the digest of.
func (w *vC01W) ds(k *dns.DNSKEY, dt uint8) *dns.DS {
	d := k.ToDS(dt)
	if d == nil {
		return nil
	}
	w.digs[strings.ToUpper(d.Digest)] = fmt.Sprintf("(DigOf %d %s %d %d %d %d)", dt, w.name(k.Hdr.Name), k.Flags, k.Protocol, k.Algorithm, w.mat(k.PublicKey))
	return d
}

func (w *vC01W) coqKey(k *dns.DNSKEY) string {
	return fmt.Sprintf("(mk_key %s %d %d %d %d %d %d)", w.name(k.Hdr.Name), k.Hdr.Class, k.Flags, k.Protocol, k.Algorithm, w.mat(k.PublicKey), vC01KeyTag(k))
}

func (w *vC01W) coqKeys(keys []*dns.DNSKEY) string {
	var s []string
	for _, k := range keys {
		s = append(s, w.coqKey(k))
	}
	return "[" + strings.Join(s, ";") + "]"
}

// ---- the code's two sort orders, restated (uniqueSortedRRSIGs / uniqueSortedDSRecords) ----

type vC01SigID struct {
	name                      string
	class, cov                uint16
	alg, labels               uint8
	ottl, exp, inc            uint32
	tag                       uint16
	signer, signature         string
}

func vC01SigIDOf(s *dns.RRSIG) vC01SigID {
	return vC01SigID{strings.ToLower(dns.Fqdn(s.Hdr.Name)), s.Hdr.Class, s.TypeCovered, s.Algorithm, s.Labels, s.OrigTtl, s.Expiration, s.Inception, s.KeyTag,
		strings.ToLower(dns.Fqdn(s.SignerName)), s.Signature}
}

func vC01SigLess(a, b vC01SigID) bool {
	switch {
	case a.name != b.name:
		return a.name < b.name
	case a.class != b.class:
		return a.class < b.class
	case a.cov != b.cov:
		return a.cov < b.cov
	case a.alg != b.alg:
		return a.alg < b.alg
	case a.tag != b.tag:
		return a.tag < b.tag
	case a.signer != b.signer:
		return a.signer < b.signer
	case a.labels != b.labels:
		return a.labels < b.labels
	case a.ottl != b.ottl:
		return a.ottl < b.ottl
	case a.inc != b.inc:
		return a.inc < b.inc
	case a.exp != b.exp:
		return a.exp < b.exp
	default:
		return a.signature < b.signature
	}
}

type vC01DSID struct {
	name      string
	class     uint16
	tag       uint16
	alg, dt   uint8
	digest    string
}

func vC01DSIDOf(d *dns.DS) vC01DSID {
	return vC01DSID{strings.ToLower(dns.Fqdn(d.Hdr.Name)), d.Hdr.Class, d.KeyTag, d.Algorithm, d.DigestType, strings.ToUpper(d.Digest)}
}

func vC01DSLess(a, b vC01DSID) bool {
	switch {
	case a.name != b.name:
		return a.name < b.name
	case a.class != b.class:
		return a.class < b.class
	case a.tag != b.tag:
		return a.tag < b.tag
	case a.alg != b.alg:
		return a.alg < b.alg
	case a.dt != b.dt:
		return a.dt < b.dt
	default:
		return a.digest < b.digest
	}
}

type vC01Ranks struct {
	sig map[vC01SigID]int
	ds  map[vC01DSID]int
}

// ranks over every RRSIG / DS in the given record lists (1-based; equal identity = equal rank)
func vC01RankAll(lists ...[]dns.RR) vC01Ranks {
	var sids []vC01SigID
	var dids []vC01DSID
	for _, l := range lists {
		for _, rr := range l {
			switch x := rr.(type) {
			case *dns.RRSIG:
				sids = append(sids, vC01SigIDOf(x))
			case *dns.DS:
				dids = append(dids, vC01DSIDOf(x))
			}
		}
	}
	sort.Slice(sids, func(i, j int) bool { return vC01SigLess(sids[i], sids[j]) })
	sort.Slice(dids, func(i, j int) bool { return vC01DSLess(dids[i], dids[j]) })
	rk := vC01Ranks{sig: map[vC01SigID]int{}, ds: map[vC01DSID]int{}}
	for _, id := range sids {
		if _, ok := rk.sig[id]; !ok {
			rk.sig[id] = len(rk.sig) + 1
		}
	}
	for _, id := range dids {
		if _, ok := rk.ds[id]; !ok {
			rk.ds[id] = len(rk.ds) + 1
		}
	}
	return rk
}

func (w *vC01W) coqRR(rr dns.RR, rk vC01Ranks) string {
	h := rr.Header()
	rd := "RdOther"
	switch x := rr.(type) {
	case *dns.CNAME:
		rd = "(RdCname " + w.name(x.Target) + ")"
	case *dns.DNAME:
		rd = "(RdDname " + w.name(x.Target) + ")"
	case *dns.NSEC:
		rd = "(RdNsec " + w.name(x.NextDomain) + ")"
	case *dns.DS:
		dg := "DigBad"
		if b, err := hex.DecodeString(x.Digest); err == nil && len(b) > 0 {
			if t, ok := w.digs[strings.ToUpper(x.Digest)]; ok {
				dg = t
			} else {
				dg = fmt.Sprintf("(DigJunk %d)", w.junkID("d"+strings.ToUpper(x.Digest)))
			}
		}
		rd = fmt.Sprintf("(RdDS %d %d %d %s %d)", x.KeyTag, x.Algorithm, x.DigestType, dg, rk.ds[vC01DSIDOf(x)])
	case *dns.DNSKEY:
		rd = fmt.Sprintf("(RdKey %d %d %d %d %d)", x.Flags, x.Protocol, x.Algorithm, w.mat(x.PublicKey), vC01KeyTag(x))
	case *dns.RRSIG:
		body, ok := w.sigs[x.Signature]
		if !ok {
			body = fmt.Sprintf("(SigJunk %d)", w.junkID("s"+x.Signature))
		}
		rd = fmt.Sprintf("(RdSig (mk_sig %d %d %d %d %d %d %d %s %s %d))", x.TypeCovered, x.Algorithm, x.Labels, x.OrigTtl, x.Expiration, x.Inception, x.KeyTag,
			w.name(x.SignerName), body, rk.sig[vC01SigIDOf(x)])
	}
	return fmt.Sprintf("mk_rr %s %d %d %d %s", w.name(h.Name), h.Rrtype, h.Class, w.rid(rr), rd)
}

func (w *vC01W) coqRRs(l []dns.RR, rk vC01Ranks) string {
	var s []string
	for _, rr := range l {
		s = append(s, w.coqRR(rr, rk))
	}
	return "[" + strings.Join(s, ";") + "]"
}

func vC01Bool(b bool) string {
	if b {
		return "true"
	}
	return "false"
}

func vC01Pres(l []dns.RR) []string {
	var s []string
	for _, rr := range l {
		t := strings.Join(strings.Fields(rr.String()), " ")
		if len(t) > 150 {
			t = t[:150] + "…"
		}
		s = append(s, t)
	}
	return s
}

// flipSig: a different, still decodable signature string
func vC01FlipSig(r *rand.Rand, s string) string {
	b, err := base64.StdEncoding.DecodeString(s)
	if err != nil || len(b) == 0 {
		return "AAAA"
	}
	b[r.Intn(len(b))] ^= byte(1 << uint(r.Intn(8)))
	return base64.StdEncoding.EncodeToString(b)
}

// ---- forced key-tag collisions: pairs of Ed25519 seeds whose DNSKEY RDATA (given flags,
// protocol 3, algorithm 15) have the same tag, found by search ----

type vC01Pool struct {
	pairs [][2][32]byte
}

func vC01BuildPool(r *rand.Rand, n int, flags uint16) *vC01Pool {
	w := vC01NewW(r)
	byTag := map[uint16][][32]byte{}
	p := &vC01Pool{}
	for i := 0; i < n; i++ {
		var seed [32]byte
		r.Read(seed[:])
		k := w.keyFromSeed("x.", flags, dns.ED25519, seed)
		t := vC01KeyTag(k.key)
		for _, other := range byTag[t] {
			p.pairs = append(p.pairs, [2][32]byte{other, seed})
		}
		byTag[t] = append(byTag[t], seed)
	}
	return p
}

func (w *vC01W) keyFromSeed(zone string, flags uint16, alg uint8, seed [32]byte) *vC01Key {
	sub := rand.New(rand.NewSource(int64(seed[0]) | int64(seed[1])<<8 | int64(seed[2])<<16 | int64(seed[3])<<24 | int64(seed[4])<<32 | int64(seed[5])<<40 | int64(seed[6])<<48))
	save := w.r
	w.r = sub
	k := w.newKey(zone, flags, alg)
	w.r = save
	return k
}

