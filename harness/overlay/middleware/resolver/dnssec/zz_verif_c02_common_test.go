//go:build verif

package dnssec

// C02 correspondence drivers — shared part (overlay-injected, never committed
// to /repo): trace output, names as label lists, the zone generator, the
// genuine NSEC chain builder and the Go-side ground-truth oracle.
//
// A name is a list of labels, leaf first, each label a byte string.  Every
// string handed to the code under test is produced from the labels by the
// library's own wire decoder (dns.UnpackDomainName), i.e. it is spelled
// exactly as production sees names off the wire.

import (
	"bytes"
	"encoding/base32"
	"encoding/hex"
	"math/big"
	"encoding/json"
	"errors"
	"fmt"
	"math/rand"
	"os"
	"sort"
	"strconv"
	"strings"
	"testing"

	"github.com/miekg/dns"
)

type vC02Trace struct{ f *os.File }

func vC02Open(t *testing.T) *vC02Trace {
	p := os.Getenv("VERIF_OUT")
	if p == "" {
		t.Skip("VERIF_OUT not set")
	}
	f, err := os.Create(p)
	if err != nil {
		t.Fatal(err)
	}
	return &vC02Trace{f: f}
}

func (v *vC02Trace) emit(m map[string]any) {
	b, _ := json.Marshal(m)
	v.f.Write(append(b, '\n'))
}

func vC02EnvInt(name string, def int) int {
	if s := os.Getenv(name); s != "" {
		if n, err := strconv.Atoi(s); err == nil {
			return n
		}
	}
	return def
}

// ---------------------------------------------------------------- names

type vC02Name [][]byte // leaf first

func vC02Wire(n vC02Name) []byte {
	var w []byte
	for _, l := range n {
		w = append(w, byte(len(l)))
		w = append(w, l...)
	}
	return append(w, 0)
}

// vC02Pres spells the name the way the library prints a wire name.
func vC02Pres(n vC02Name) string {
	s, _, err := dns.UnpackDomainName(vC02Wire(n), 0)
	if err != nil {
		panic(fmt.Sprintf("vC02Pres: %v for %v", err, n))
	}
	return s
}

func vC02CoqLabel(l []byte) string {
	p := make([]string, len(l))
	for i, b := range l {
		p[i] = strconv.Itoa(int(b))
	}
	return "[" + strings.Join(p, ";") + "]"
}

func vC02Coq(n vC02Name) string {
	p := make([]string, len(n))
	for i, l := range n {
		p[i] = vC02CoqLabel(l)
	}
	return "[" + strings.Join(p, ";") + "]"
}

func vC02CoqTypes(ts []uint16) string {
	p := make([]string, len(ts))
	for i, t := range ts {
		p[i] = strconv.Itoa(int(t))
	}
	return "[" + strings.Join(p, ";") + "]"
}

func vC02CoqInts(ts []int) string {
	p := make([]string, len(ts))
	for i, t := range ts {
		p[i] = strconv.Itoa(t)
	}
	return "[" + strings.Join(p, ";") + "]"
}

func vC02FoldLabel(l []byte) []byte {
	o := make([]byte, len(l))
	for i, b := range l {
		if b >= 'A' && b <= 'Z' {
			b += 'a' - 'A'
		}
		o[i] = b
	}
	return o
}

// vC02Key: canonical identity of a name (folded, root first, unambiguous).
func vC02Key(n vC02Name) string {
	var sb strings.Builder
	for i := len(n) - 1; i >= 0; i-- {
		l := vC02FoldLabel(n[i])
		sb.WriteByte(byte(len(l)))
		sb.Write(l)
	}
	return sb.String()
}

// vC02Cmp: RFC 4034 §6.1 written independently of the code under test:
// compare label by label from the root, labels as folded octet strings,
// a proper ancestor sorts first.
func vC02Cmp(a, b vC02Name) int {
	i, j := len(a)-1, len(b)-1
	for i >= 0 && j >= 0 {
		if c := bytes.Compare(vC02FoldLabel(a[i]), vC02FoldLabel(b[j])); c != 0 {
			return c
		}
		i--
		j--
	}
	switch {
	case i >= 0:
		return 1
	case j >= 0:
		return -1
	}
	return 0
}

// number of labels shared from the root
func vC02Shared(a, b vC02Name) int {
	n := 0
	for i, j := len(a)-1, len(b)-1; i >= 0 && j >= 0; i, j = i-1, j-1 {
		if !bytes.Equal(vC02FoldLabel(a[i]), vC02FoldLabel(b[j])) {
			break
		}
		n++
	}
	return n
}

// a at or below b
func vC02Sub(a, b vC02Name) bool { return len(a) >= len(b) && vC02Shared(a, b) == len(b) }
func vC02StrictSub(a, b vC02Name) bool {
	return len(a) > len(b) && vC02Shared(a, b) == len(b)
}

func vC02Child(l []byte, parent vC02Name) vC02Name {
	n := make(vC02Name, 0, len(parent)+1)
	n = append(n, append([]byte(nil), l...))
	return append(n, parent...)
}

func vC02Suffix(n vC02Name, k int) vC02Name { return n[len(n)-k:] }

// ---------------------------------------------------------------- zones

type vC02Node struct {
	name  vC02Name
	types []uint16
}

type vC02Zone struct {
	apex  vC02Name
	nodes []vC02Node // sorted canonically, apex first
	byKey map[string]*vC02Node
}

func vC02Has(ts []uint16, t uint16) bool {
	for _, x := range ts {
		if x == t {
			return true
		}
	}
	return false
}

func vC02CutTypes(ts []uint16) bool {
	return (vC02Has(ts, dns.TypeNS) && !vC02Has(ts, dns.TypeSOA)) || vC02Has(ts, dns.TypeDNAME)
}

func (z *vC02Zone) index() {
	sort.SliceStable(z.nodes, func(i, j int) bool { return vC02Cmp(z.nodes[i].name, z.nodes[j].name) < 0 })
	z.byKey = map[string]*vC02Node{}
	for i := range z.nodes {
		z.byKey[vC02Key(z.nodes[i].name)] = &z.nodes[i]
	}
}

func (z *vC02Zone) owner(n vC02Name) *vC02Node { return z.byKey[vC02Key(n)] }

func (z *vC02Zone) existsDirect(n vC02Name) bool {
	for i := range z.nodes {
		if vC02Sub(z.nodes[i].name, n) {
			return true
		}
	}
	return false
}

func (z *vC02Zone) isENT(n vC02Name) bool {
	if z.owner(n) != nil {
		return false
	}
	for i := range z.nodes {
		if vC02StrictSub(z.nodes[i].name, n) {
			return true
		}
	}
	return false
}

func (z *vC02Zone) belowCut(n vC02Name) *vC02Node {
	for i := range z.nodes {
		if vC02CutTypes(z.nodes[i].types) && vC02StrictSub(n, z.nodes[i].name) {
			return &z.nodes[i]
		}
	}
	return nil
}

// longest existing proper ancestor
func (z *vC02Zone) closestEncloser(n vC02Name) (vC02Name, bool) {
	for k := len(n) - 1; k >= 0; k-- {
		if c := vC02Suffix(n, k); z.existsDirect(c) {
			return c, true
		}
	}
	return nil, false
}

var vC02Star = []byte{'*'}

func (z *vC02Zone) wildcardSource(n vC02Name) (vC02Name, bool) {
	if len(n) == 0 || z.existsDirect(n) {
		return nil, false
	}
	ce, ok := z.closestEncloser(n)
	if !ok {
		return nil, false
	}
	src := vC02Child(vC02Star, ce)
	if z.existsDirect(src) {
		return src, true
	}
	return nil, false
}

// how a name exists in the zone: "" (it does not), "owner", "ent", "below-cut", "wildcard", "wildcard-ent"
func (z *vC02Zone) existsHow(n vC02Name) string {
	if z.owner(n) != nil {
		return "owner"
	}
	if z.isENT(n) {
		return "ent"
	}
	if z.belowCut(n) != nil {
		return "below-cut"
	}
	if src, ok := z.wildcardSource(n); ok {
		if z.owner(src) != nil {
			return "wildcard"
		}
		return "wildcard-ent"
	}
	return ""
}

func vC02NodeLacks(ts []uint16, qtype uint16) bool {
	if vC02Has(ts, qtype) || vC02Has(ts, dns.TypeCNAME) {
		return false
	}
	if qtype == dns.TypeDS && vC02Has(ts, dns.TypeSOA) {
		return false
	}
	if qtype != dns.TypeDS && vC02Has(ts, dns.TypeNS) && !vC02Has(ts, dns.TypeSOA) {
		return false
	}
	return true
}

// NOERROR/NODATA for (n, qtype) is a true statement about the zone
func (z *vC02Zone) nodataTrue(n vC02Name, qtype uint16) bool {
	if z.belowCut(n) != nil {
		return false
	}
	if nd := z.owner(n); nd != nil {
		return vC02NodeLacks(nd.types, qtype)
	}
	if z.isENT(n) {
		return true
	}
	if src, ok := z.wildcardSource(n); ok {
		if nd := z.owner(src); nd != nil {
			return vC02NodeLacks(nd.types, qtype)
		}
		return true // wildcard is an empty non-terminal
	}
	return false
}

func (z *vC02Zone) insecureDelegation(n vC02Name) bool {
	nd := z.owner(n)
	return nd != nil && vC02Has(nd.types, dns.TypeNS) && !vC02Has(nd.types, dns.TypeDS) && !vC02Has(nd.types, dns.TypeSOA)
}

func (z *vC02Zone) coq() string {
	p := make([]string, len(z.nodes))
	for i, nd := range z.nodes {
		p[i] = "(" + vC02Coq(nd.name) + "," + vC02CoqTypes(nd.types) + ")"
	}
	return "(mk_rzone " + vC02Coq(z.apex) + " [" + strings.Join(p, ";") + "])"
}

func (z *vC02Zone) desc() string {
	var p []string
	for _, nd := range z.nodes {
		var ts []string
		for _, t := range nd.types {
			ts = append(ts, dns.TypeToString[t])
		}
		p = append(p, vC02Pres(nd.name)+" "+strings.Join(ts, ","))
	}
	return strings.Join(p, " | ")
}

// ---------------------------------------------------------------- generator

type vC02Gen struct {
	r      *rand.Rand
	labels [][]byte // the zone's label pool
}

var vC02Alphabet = []byte{'a', 'a', 'b', 'b', 'c', 'z', 'A', 'B', 'Z', '*', 0x00, '.', '\\', 0xFF, '0', '-', ' ', '@', 0x7F, '"'}

func (g *vC02Gen) randLabel() []byte {
	n := 1
	switch g.r.Intn(10) {
	case 0, 1, 2:
		n = 2
	case 3:
		n = 3
	}
	l := make([]byte, n)
	for i := range l {
		l[i] = vC02Alphabet[g.r.Intn(len(vC02Alphabet))]
	}
	if len(l) == 1 && l[0] == '*' && g.r.Intn(2) == 0 {
		l[0] = 'a' // a bare "*" is chosen deliberately elsewhere
	}
	return l
}

// octets that continue a label which is a proper prefix of a sibling's label: plain (never escaped by the
// library) octets on both sides of the separator '.' (0x2E) — '-' '*' '+' '!' '$' ',' sort below it, the
// others above — so "www" / "www-2" style pairs occur in every other zone
var vC02ExtOctets = []byte{'-', '-', '-', '*', '+', '!', '$', ',', '/', '0', '0', 'a', 'A', '_', '~'}

// vC02Extend: the label continued by one or two plain octets
func (g *vC02Gen) extend(l []byte) []byte {
	o := append([]byte(nil), l...)
	o = append(o, vC02ExtOctets[g.r.Intn(len(vC02ExtOctets))])
	if g.r.Intn(3) == 0 {
		o = append(o, vC02ExtOctets[g.r.Intn(len(vC02ExtOctets))])
	}
	return o
}

func (g *vC02Gen) newPool(simple bool) {
	g.labels = nil
	k := 3 + g.r.Intn(4)
	for i := 0; i < k; i++ {
		if simple {
			g.labels = append(g.labels, []byte{"abcxyz"[g.r.Intn(6)]})
		} else {
			g.labels = append(g.labels, g.randLabel())
		}
	}
	// prefix siblings: labels of the pool continued by a plain octet (half of the pools)
	if g.r.Intn(2) == 0 {
		for i := 1 + g.r.Intn(2); i > 0; i-- {
			g.labels = append(g.labels, g.extend(g.labels[g.r.Intn(len(g.labels))]))
		}
	}
}

func (g *vC02Gen) poolLabel() []byte {
	if g.r.Intn(8) == 0 {
		return g.randLabel()
	}
	l := append([]byte(nil), g.labels[g.r.Intn(len(g.labels))]...)
	if g.r.Intn(6) == 0 { // case variant of the same label
		for i, b := range l {
			if b >= 'a' && b <= 'z' {
				l[i] = b - 32
			} else if b >= 'A' && b <= 'Z' {
				l[i] = b + 32
			}
		}
	}
	return l
}

var vC02PlainTypes = []uint16{dns.TypeA, dns.TypeAAAA, dns.TypeTXT, dns.TypeMX}

func vC02SortTypes(ts []uint16) []uint16 {
	m := map[uint16]bool{}
	var o []uint16
	for _, t := range ts {
		if !m[t] {
			m[t] = true
			o = append(o, t)
		}
	}
	sort.Slice(o, func(i, j int) bool { return o[i] < o[j] })
	return o
}

func (g *vC02Gen) plainTypes() []uint16 {
	var ts []uint16
	if g.r.Intn(8) == 0 {
		ts = []uint16{dns.TypeCNAME}
	} else {
		for _, t := range vC02PlainTypes {
			if g.r.Intn(3) == 0 {
				ts = append(ts, t)
			}
		}
		if len(ts) == 0 {
			ts = []uint16{dns.TypeA}
		}
	}
	return vC02SortTypes(append(ts, dns.TypeRRSIG, dns.TypeNSEC))
}

// genZone builds a well-formed signed zone: apex (SOA NS DNSKEY), plain
// owners, empty non-terminals, wildcards, delegations (with or without DS),
// DNAME owners; nothing is owned below a delegation or DNAME.
func (g *vC02Gen) genZone(apex vC02Name, maxNodes int) *vC02Zone {
	z := &vC02Zone{apex: apex}
	apexTypes := []uint16{dns.TypeNS, dns.TypeSOA, dns.TypeDNSKEY, dns.TypeRRSIG, dns.TypeNSEC}
	if g.r.Intn(3) == 0 {
		apexTypes = append(apexTypes, dns.TypeA)
	}
	if g.r.Intn(40) == 0 {
		apexTypes = append(apexTypes, dns.TypeDNAME)
	}
	z.nodes = append(z.nodes, vC02Node{apex, vC02SortTypes(apexTypes)})
	seen := map[string]bool{vC02Key(apex): true}
	parents := []vC02Name{apex}
	cnt := g.r.Intn(maxNodes + 1)
	for i := 0; i < cnt; i++ {
		p := parents[g.r.Intn(len(parents))]
		if len(p)-len(apex) >= 4 {
			p = apex
		}
		var n vC02Name
		wild := g.r.Intn(7) == 0
		if wild {
			n = vC02Child(vC02Star, p)
		} else {
			n = vC02Child(g.poolLabel(), p)
			if g.r.Intn(4) == 0 && len(n)-len(apex) < 4 { // skip a level: creates an empty non-terminal
				parents = append(parents, n)
				n = vC02Child(g.poolLabel(), n)
			}
		}
		if bytes.Equal(n[0], vC02Star) {
			wild = true // wildcard owners carry ordinary data only (RFC 4592 §4.2/§4.4)
		}
		if seen[vC02Key(n)] {
			continue
		}
		seen[vC02Key(n)] = true
		var ts []uint16
		switch k := g.r.Intn(20); {
		case wild:
			ts = g.plainTypes()
		case k < 3:
			ts = []uint16{dns.TypeNS, dns.TypeRRSIG, dns.TypeNSEC} // insecure delegation
		case k < 5:
			ts = []uint16{dns.TypeNS, dns.TypeDS, dns.TypeRRSIG, dns.TypeNSEC} // secure delegation
		case k < 6:
			ts = []uint16{dns.TypeDNAME, dns.TypeRRSIG, dns.TypeNSEC}
			if g.r.Intn(2) == 0 {
				ts = append(ts, dns.TypeA)
			}
		default:
			ts = g.plainTypes()
		}
		z.nodes = append(z.nodes, vC02Node{n, vC02SortTypes(ts)})
		parents = append(parents, n)
	}
	// nothing owned below a cut
	var keep []vC02Node
	for _, nd := range z.nodes {
		under := false
		for _, c := range z.nodes {
			if vC02CutTypes(c.types) && vC02StrictSub(nd.name, c.name) {
				under = true
			}
		}
		if !under {
			keep = append(keep, nd)
		}
	}
	z.nodes = keep
	z.index()
	return z
}

// ---------------------------------------------------------------- NSEC chain

type vC02Rec struct {
	owner, next vC02Name
	types       []uint16
	class       uint16
	genuine     bool // a record of the zone's own chain
	note        string
}

func (z *vC02Zone) nsecChain() []vC02Rec {
	var out []vC02Rec
	for i, nd := range z.nodes {
		nx := z.nodes[(i+1)%len(z.nodes)].name
		out = append(out, vC02Rec{owner: nd.name, next: nx, types: nd.types, class: dns.ClassINET, genuine: true})
	}
	return out
}

func (r vC02Rec) rr() *dns.NSEC {
	return &dns.NSEC{
		Hdr:        dns.RR_Header{Name: vC02Pres(r.owner), Rrtype: dns.TypeNSEC, Class: r.class, Ttl: 300},
		NextDomain: vC02Pres(r.next),
		TypeBitMap: append([]uint16(nil), r.types...),
	}
}

func (r vC02Rec) coq() string {
	return fmt.Sprintf("mk_nsec %s %s %s %d", vC02Coq(r.owner), vC02Coq(r.next), vC02CoqTypes(r.types), r.class)
}

// vC02RoundTrip packs the records into a message and unpacks it again, so
// the code under test receives exactly what the wire decoder produces.
func vC02RoundTrip(rrs []dns.RR) []dns.RR {
	if len(rrs) == 0 {
		return nil
	}
	m := new(dns.Msg)
	m.SetQuestion(".", dns.TypeA)
	m.Response = true
	m.Ns = rrs
	b, err := m.Pack()
	if err != nil {
		panic(fmt.Sprintf("vC02RoundTrip pack: %v", err))
	}
	o := new(dns.Msg)
	if err := o.Unpack(b); err != nil {
		panic(fmt.Sprintf("vC02RoundTrip unpack: %v", err))
	}
	if len(o.Ns) != len(rrs) {
		panic("vC02RoundTrip: record count changed")
	}
	return o.Ns
}

// error class, as the resolver distinguishes them
func vC02ErrClass(err error) int {
	switch {
	case err == nil:
		return 0
	case err == ErrNSECMissingCoverage:
		return 1
	case errors.Is(err, ErrNSECMissingCoverage):
		return 2
	case err == ErrNSECTypeExists:
		return 3
	case err == ErrNSECBadDelegation:
		return 4
	case err == ErrNSECNSMissing:
		return 5
	case err == ErrNSECOptOut:
		return 6
	}
	return 7
}

func vC02AggrObs(res AggressiveNegativeResult, err error, input []dns.RR) (int, []int) {
	if err != nil {
		return vC02ErrClass(err), nil
	}
	var idx []int
	for _, p := range res.Proof {
		found := -1
		for i, rr := range input {
			if rr == p {
				found = i
				break
			}
		}
		idx = append(idx, found+0)
	}
	return 10 + res.Rcode, idx
}

func vC02CoqAobs(code int, idx []int) string {
	return fmt.Sprintf("(%d,%s)", code, vC02CoqInts(idx))
}

func vC02UpperSome(r *rand.Rand, n vC02Name) vC02Name {
	o := make(vC02Name, len(n))
	for i, l := range n {
		c := append([]byte(nil), l...)
		for j, b := range c {
			if b >= 'a' && b <= 'z' && r.Intn(2) == 0 {
				c[j] = b - 32
			}
		}
		o[i] = c
	}
	return o
}

// ---------------------------------------------------------------- NSEC3 chains

var vC02B32 = base32.HexEncoding.WithPadding(base32.NoPadding)

type vC02Rec3 struct {
	zone     vC02Name // owner without the hash label
	label    string   // first label as text
	next     []byte   // next hashed owner (raw)
	alg      uint8
	flags    uint8
	iter     uint16
	salt     string // hex
	class    uint16
	types    []uint16
	genuine  bool
	note     string
	hashedOf vC02Name
}

func (r vC02Rec3) rr() *dns.NSEC3 {
	return &dns.NSEC3{
		Hdr:        dns.RR_Header{Name: r.label + "." + strings.TrimPrefix(vC02Pres(r.zone), "."), Rrtype: dns.TypeNSEC3, Class: r.class, Ttl: 300},
		Hash:       r.alg,
		Flags:      r.flags,
		Iterations: r.iter,
		SaltLength: uint8(len(r.salt) / 2),
		Salt:       r.salt,
		HashLength: uint8(len(r.next)),
		NextDomain: vC02B32.EncodeToString(r.next),
		TypeBitMap: append([]uint16(nil), r.types...),
	}
}

// decode a 32-char base32hex label to its value; ok=false when it is not one
func vC02Decode32(s string) (*big.Int, bool) {
	if len(s) != 32 {
		return nil, false
	}
	b, err := vC02B32.DecodeString(strings.ToUpper(s))
	if err != nil || len(b) != 20 {
		return nil, false
	}
	return new(big.Int).SetBytes(b), true
}

type vC02Params struct {
	iter uint16
	salt string
}

func vC02Hash(n vC02Name, p vC02Params) []byte {
	h := dns.HashName(vC02Pres(n), dns.SHA1, p.iter, p.salt)
	b, err := vC02B32.DecodeString(strings.ToUpper(h))
	if err != nil || len(b) != 20 {
		panic("vC02Hash: " + h)
	}
	return b
}

// the genuine NSEC3 chain: every owner and empty non-terminal is hashed, except
// (Opt-Out) insecure delegations chosen to be left out and the empty
// non-terminals that exist only because of them
func (g *vC02Gen) nsec3Chain(z *vC02Zone, p vC02Params, optout bool, allFlagged bool) (chain []vC02Rec3, omitted []vC02Name) {
	r := g.r
	type hn struct {
		name  vC02Name
		types []uint16
		h     []byte
	}
	omit := map[string]bool{}
	if optout {
		for _, nd := range z.nodes {
			underWild := false // Opt-Out never hides a wildcard name (optout_discipline in Proofs_Nsec3.v)
			for _, l := range nd.name[:len(nd.name)-len(z.apex)] {
				if string(l) == "*" {
					underWild = true
				}
			}
			if !underWild && vC02Has(nd.types, dns.TypeNS) && !vC02Has(nd.types, dns.TypeSOA) && !vC02Has(nd.types, dns.TypeDS) && r.Intn(3) > 0 {
				omit[vC02Key(nd.name)] = true
				omitted = append(omitted, nd.name)
			}
		}
	}
	seen := map[string]bool{}
	var hs []hn
	for _, nd := range z.nodes {
		if omit[vC02Key(nd.name)] {
			continue
		}
		var ts []uint16
		for _, t := range nd.types {
			if t != dns.TypeNSEC {
				ts = append(ts, t)
			}
		}
		if !seen[vC02Key(nd.name)] {
			seen[vC02Key(nd.name)] = true
			hs = append(hs, hn{nd.name, ts, vC02Hash(nd.name, p)})
		}
		for k := len(z.apex); k < len(nd.name); k++ { // ancestors: empty non-terminals get an NSEC3 with no types
			a := vC02Suffix(nd.name, k)
			if z.owner(a) == nil && !seen[vC02Key(a)] {
				seen[vC02Key(a)] = true
				hs = append(hs, hn{a, nil, vC02Hash(a, p)})
			}
		}
	}
	// empty non-terminals above omitted delegations only
	for _, o := range omitted {
		for k := len(z.apex); k < len(o); k++ {
			a := vC02Suffix(o, k)
			if z.owner(a) == nil && !seen[vC02Key(a)] {
				omitted = append(omitted, a)
				seen[vC02Key(a)] = true
			}
		}
	}
	sort.Slice(hs, func(i, j int) bool { return string(hs[i].h) < string(hs[j].h) })
	for i, x := range hs {
		nx := hs[(i+1)%len(hs)].h
		fl := uint8(0)
		if optout && allFlagged {
			fl = 1
		}
		for _, o := range omitted { // a span hiding an unsigned delegation must carry Opt-Out
			oh := string(vC02Hash(o, p))
			lo, hi := string(x.h), string(nx)
			in := false
			switch {
			case lo < hi:
				in = lo < oh && oh < hi
			case lo > hi:
				in = oh > lo || oh < hi
			default:
				in = oh != lo
			}
			if in {
				fl = 1
			}
		}
		chain = append(chain, vC02Rec3{zone: z.apex, label: strings.ToLower(vC02B32.EncodeToString(x.h)), next: nx, alg: 1, flags: fl,
			iter: p.iter, salt: p.salt, class: 1, types: x.types, genuine: true, hashedOf: x.name})
	}
	return chain, omitted
}

func vC02CoqOptN(v *big.Int, ranks map[string]int) string {
	if v == nil {
		return "None"
	}
	return fmt.Sprintf("(Some %d)", ranks[v.String()])
}


// vC02Nsec3Coq renders NSEC3 records and a hash table for the Coq model: every hash value is
// replaced by its rank among all hash values of the case (the model only uses = and <).
func vC02Nsec3Coq(rrs []dns.RR, zones []vC02Name, tabNames map[string]vC02Name, hp vC02Params) (rcoq, tcoq []string) {
	vals := map[string]*big.Int{}
	type rh struct{ o, n *big.Int }
	rhs := make([]rh, len(rrs))
	for i, rr := range rrs {
		n3 := rr.(*dns.NSEC3)
		lbl := strings.SplitN(n3.Hdr.Name, ".", 2)[0]
		if v, ok := vC02Decode32(lbl); ok {
			rhs[i].o = v
			vals[v.String()] = v
		}
		if v, ok := vC02Decode32(n3.NextDomain); ok {
			rhs[i].n = v
			vals[v.String()] = v
		}
	}
	var keys []string
	for k := range tabNames {
		keys = append(keys, k)
	}
	sort.Strings(keys)
	tv := map[string]*big.Int{}
	for _, k := range keys {
		v := new(big.Int).SetBytes(vC02Hash(tabNames[k], hp))
		tv[k] = v
		vals[v.String()] = v
	}
	var sorted []*big.Int
	for _, v := range vals {
		sorted = append(sorted, v)
	}
	sort.Slice(sorted, func(i, j int) bool { return sorted[i].Cmp(sorted[j]) < 0 })
	ranks := map[string]int{}
	for i, v := range sorted {
		ranks[v.String()] = i
	}
	for i, rr := range rrs {
		n3 := rr.(*dns.NSEC3)
		salt, _ := hex.DecodeString(n3.Salt)
		rcoq = append(rcoq, fmt.Sprintf("mk_nsec3 %s %s %s %d %d %d %d %s %d %s", vC02Coq(zones[i]), vC02CoqOptN(rhs[i].o, ranks), vC02CoqOptN(rhs[i].n, ranks),
			n3.HashLength, n3.Hash, n3.Flags, n3.Iterations, vC02CoqLabel(salt), n3.Hdr.Class, vC02CoqTypes(n3.TypeBitMap)))
	}
	for _, k := range keys {
		tcoq = append(tcoq, fmt.Sprintf("(%s,%d)", vC02Coq(tabNames[k]), ranks[tv[k].String()]))
	}
	return rcoq, tcoq
}

// candidate question names around a zone: owners, ENTs, names below cuts,
// wildcard expansions, immediate canonical neighbours of every owner, the
// apex, names outside.
func (g *vC02Gen) candidates(z *vC02Zone) []vC02Name {
	var c []vC02Name
	add := func(n vC02Name) { c = append(c, n) }
	for _, nd := range z.nodes {
		add(nd.name)
		for k := len(z.apex); k < len(nd.name); k++ {
			add(vC02Suffix(nd.name, k)) // ancestors: ENTs or owners
		}
		add(vC02Child(g.poolLabel(), nd.name))
		add(vC02Child([]byte{0}, nd.name)) // canonical successor of the owner
		if vC02CutTypes(nd.types) {
			add(vC02Child(g.poolLabel(), vC02Child(g.poolLabel(), nd.name)))
		}
		if len(nd.name) > len(z.apex) {
			par := nd.name[1:]
			l := append([]byte(nil), nd.name[0]...)
			// neighbours of the leaf label
			l2 := append(append([]byte(nil), l...), 0)
			add(vC02Child(l2, par))
			// the label continued by a plain octet, and its proper prefixes (prefix siblings)
			add(vC02Child(g.extend(l), par))
			if len(l) > 1 {
				add(vC02Child(l[:len(l)-1], par))
			}
			if l[len(l)-1] > 0 {
				l3 := append([]byte(nil), l...)
				l3[len(l3)-1]--
				add(vC02Child(append(l3, 0xFF), par))
			}
			if l[0] == '*' && len(l) == 1 {
				add(vC02Child(g.poolLabel(), par))
				add(vC02Child(g.poolLabel(), vC02Child(g.poolLabel(), par)))
			}
		}
	}
	add(z.apex)
	add(vC02Child(g.poolLabel(), z.apex))
	add(vC02Child(g.poolLabel(), vC02Child(g.poolLabel(), z.apex)))
	add(vC02Child(vC02Star, z.apex))
	if len(z.apex) > 0 {
		add(z.apex[1:])
		sib := append([]byte(nil), z.apex[0]...)
		sib[len(sib)-1] ^= 1
		add(vC02Child(sib, z.apex[1:]))
	}
	return c
}

