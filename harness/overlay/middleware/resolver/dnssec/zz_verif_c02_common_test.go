//go:build verif

package dnssec

// C02 correspondence drivers — shared part (overlay-injected, never committed
// to /repo): trace output, names as label lists, the zone generator, the
// genuine NSEC chain builder and the Go-side ground-truth oracle.
//
// A name is a list of labels, leaf first, each label a byte string.  Every
// string handed to the code under test is produced from the labels by the
// library's own wire decoder (dns.UnpackDomainName), i.e. it is spelled
// exactly as production sees names off the wire.

import (
	"bytes"
	"encoding/json"
	"errors"
	"fmt"
	"math/rand"
	"os"
	"sort"
	"strconv"
	"strings"
	"testing"

	"github.com/miekg/dns"
)

type vC02Trace struct{ f *os.File }

func vC02Open(t *testing.T) *vC02Trace {
	p := os.Getenv("VERIF_OUT")
	if p == "" {
		t.Skip("VERIF_OUT not set")
	}
	f, err := os.Create(p)
	if err != nil {
		t.Fatal(err)
	}
	return &vC02Trace{f: f}
}

func (v *vC02Trace) emit(m map[string]any) {
	b, _ := json.Marshal(m)
	v.f.Write(append(b, '\n'))
}

func vC02EnvInt(name string, def int) int {
	if s := os.Getenv(name); s != "" {
		if n, err := strconv.Atoi(s); err == nil {
			return n
		}
	}
	return def
}

// ---------------------------------------------------------------- names

type vC02Name [][]byte // leaf first

func vC02Wire(n vC02Name) []byte {
	var w []byte
	for _, l := range n {
		w = append(w, byte(len(l)))
		w = append(w, l...)
	}
	return append(w, 0)
}

// vC02Pres spells the name the way the library prints a wire name.
func vC02Pres(n vC02Name) string {
	s, _, err := dns.UnpackDomainName(vC02Wire(n), 0)
	if err != nil {
		panic(fmt.Sprintf("vC02Pres: %v for %v", err, n))
	}
	return s
}

func vC02CoqLabel(l []byte) string {
	p := make([]string, len(l))
	for i, b := range l {
		p[i] = strconv.Itoa(int(b))
	}
	return "[" + strings.Join(p, ";") + "]"
}

func vC02Coq(n vC02Name) string {
	p := make([]string, len(n))
	for i, l := range n {
		p[i] = vC02CoqLabel(l)
	}
	return "[" + strings.Join(p, ";") + "]"
}

func vC02CoqTypes(ts []uint16) string {
	p := make([]string, len(ts))
	for i, t := range ts {
		p[i] = strconv.Itoa(int(t))
	}
	return "[" + strings.Join(p, ";") + "]"
}

func vC02CoqInts(ts []int) string {
	p := make([]string, len(ts))
	for i, t := range ts {
		p[i] = strconv.Itoa(t)
	}
	return "[" + strings.Join(p, ";") + "]"
}

func vC02FoldLabel(l []byte) []byte {
	o := make([]byte, len(l))
	for i, b := range l {
		if b >= 'A' && b <= 'Z' {
			b += 'a' - 'A'
		}
		o[i] = b
	}
	return o
}

// vC02Key: canonical identity of a name (folded, root first, unambiguous).
func vC02Key(n vC02Name) string {
	var sb strings.Builder
	for i := len(n) - 1; i >= 0; i-- {
		l := vC02FoldLabel(n[i])
		sb.WriteByte(byte(len(l)))
		sb.Write(l)
	}
	return sb.String()
}

// vC02Cmp: RFC 4034 §6.1 written independently of the code under test:
// compare label by label from the root, labels as folded octet strings,
// a proper ancestor sorts first.
func vC02Cmp(a, b vC02Name) int {
	i, j := len(a)-1, len(b)-1
	for i >= 0 && j >= 0 {
		if c := bytes.Compare(vC02FoldLabel(a[i]), vC02FoldLabel(b[j])); c != 0 {
			return c
		}
		i--
		j--
	}
	switch {
	case i >= 0:
		return 1
	case j >= 0:
		return -1
	}
	return 0
}

// number of labels shared from the root
func vC02Shared(a, b vC02Name) int {
	n := 0
	for i, j := len(a)-1, len(b)-1; i >= 0 && j >= 0; i, j = i-1, j-1 {
		if !bytes.Equal(vC02FoldLabel(a[i]), vC02FoldLabel(b[j])) {
			break
		}
		n++
	}
	return n
}

// a at or below b
func vC02Sub(a, b vC02Name) bool { return len(a) >= len(b) && vC02Shared(a, b) == len(b) }
func vC02StrictSub(a, b vC02Name) bool {
	return len(a) > len(b) && vC02Shared(a, b) == len(b)
}

func vC02Child(l []byte, parent vC02Name) vC02Name {
	n := make(vC02Name, 0, len(parent)+1)
	n = append(n, append([]byte(nil), l...))
	return append(n, parent...)
}

func vC02Suffix(n vC02Name, k int) vC02Name { return n[len(n)-k:] }

// ---------------------------------------------------------------- zones

type vC02Node struct {
	name  vC02Name
	types []uint16
}

type vC02Zone struct {
	apex  vC02Name
	nodes []vC02Node // sorted canonically, apex first
	byKey map[string]*vC02Node
}

func vC02Has(ts []uint16, t uint16) bool {
	for _, x := range ts {
		if x == t {
			return true
		}
	}
	return false
}

func vC02CutTypes(ts []uint16) bool {
	return (vC02Has(ts, dns.TypeNS) && !vC02Has(ts, dns.TypeSOA)) || vC02Has(ts, dns.TypeDNAME)
}

func (z *vC02Zone) index() {
	sort.SliceStable(z.nodes, func(i, j int) bool { return vC02Cmp(z.nodes[i].name, z.nodes[j].name) < 0 })
	z.byKey = map[string]*vC02Node{}
	for i := range z.nodes {
		z.byKey[vC02Key(z.nodes[i].name)] = &z.nodes[i]
	}
}

func (z *vC02Zone) owner(n vC02Name) *vC02Node { return z.byKey[vC02Key(n)] }

func (z *vC02Zone) existsDirect(n vC02Name) bool {
	for i := range z.nodes {
		if vC02Sub(z.nodes[i].name, n) {
			return true
		}
	}
	return false
}

func (z *vC02Zone) isENT(n vC02Name) bool {
	if z.owner(n) != nil {
		return false
	}
	for i := range z.nodes {
		if vC02StrictSub(z.nodes[i].name, n) {
			return true
		}
	}
	return false
}

func (z *vC02Zone) belowCut(n vC02Name) *vC02Node {
	for i := range z.nodes {
		if vC02CutTypes(z.nodes[i].types) && vC02StrictSub(n, z.nodes[i].name) {
			return &z.nodes[i]
		}
	}
	return nil
}

// longest existing proper ancestor
func (z *vC02Zone) closestEncloser(n vC02Name) (vC02Name, bool) {
	for k := len(n) - 1; k >= 0; k-- {
		if c := vC02Suffix(n, k); z.existsDirect(c) {
			return c, true
		}
	}
	return nil, false
}

var vC02Star = []byte{'*'}

func (z *vC02Zone) wildcardSource(n vC02Name) (vC02Name, bool) {
	if len(n) == 0 || z.existsDirect(n) {
		return nil, false
	}
	ce, ok := z.closestEncloser(n)
	if !ok {
		return nil, false
	}
	src := vC02Child(vC02Star, ce)
	if z.existsDirect(src) {
		return src, true
	}
	return nil, false
}

// how a name exists in the zone: "" (it does not), "owner", "ent", "below-cut", "wildcard", "wildcard-ent"
func (z *vC02Zone) existsHow(n vC02Name) string {
	if z.owner(n) != nil {
		return "owner"
	}
	if z.isENT(n) {
		return "ent"
	}
	if z.belowCut(n) != nil {
		return "below-cut"
	}
	if src, ok := z.wildcardSource(n); ok {
		if z.owner(src) != nil {
			return "wildcard"
		}
		return "wildcard-ent"
	}
	return ""
}

func vC02NodeLacks(ts []uint16, qtype uint16) bool {
	if vC02Has(ts, qtype) || vC02Has(ts, dns.TypeCNAME) {
		return false
	}
	if qtype == dns.TypeDS && vC02Has(ts, dns.TypeSOA) {
		return false
	}
	if qtype != dns.TypeDS && vC02Has(ts, dns.TypeNS) && !vC02Has(ts, dns.TypeSOA) {
		return false
	}
	return true
}

// NOERROR/NODATA for (n, qtype) is a true statement about the zone
func (z *vC02Zone) nodataTrue(n vC02Name, qtype uint16) bool {
	if z.belowCut(n) != nil {
		return false
	}
	if nd := z.owner(n); nd != nil {
		return vC02NodeLacks(nd.types, qtype)
	}
	if z.isENT(n) {
		return true
	}
	if src, ok := z.wildcardSource(n); ok {
		if nd := z.owner(src); nd != nil {
			return vC02NodeLacks(nd.types, qtype)
		}
		return true // wildcard is an empty non-terminal
	}
	return false
}

func (z *vC02Zone) insecureDelegation(n vC02Name) bool {
	nd := z.owner(n)
	return nd != nil && vC02Has(nd.types, dns.TypeNS) && !vC02Has(nd.types, dns.TypeDS) && !vC02Has(nd.types, dns.TypeSOA)
}

func (z *vC02Zone) coq() string {
	p := make([]string, len(z.nodes))
	for i, nd := range z.nodes {
		p[i] = "(" + vC02Coq(nd.name) + "," + vC02CoqTypes(nd.types) + ")"
	}
	return "(mk_rzone " + vC02Coq(z.apex) + " [" + strings.Join(p, ";") + "])"
}

func (z *vC02Zone) desc() string {
	var p []string
	for _, nd := range z.nodes {
		var ts []string
		for _, t := range nd.types {
			ts = append(ts, dns.TypeToString[t])
		}
		p = append(p, vC02Pres(nd.name)+" "+strings.Join(ts, ","))
	}
	return strings.Join(p, " | ")
}

// ---------------------------------------------------------------- generator

type vC02Gen struct {
	r      *rand.Rand
	labels [][]byte // the zone's label pool
}

var vC02Alphabet = []byte{'a', 'a', 'b', 'b', 'c', 'z', 'A', 'B', 'Z', '*', 0x00, '.', '\\', 0xFF, '0', '-', ' ', '@', 0x7F, '"'}

func (g *vC02Gen) randLabel() []byte {
	n := 1
	switch g.r.Intn(10) {
	case 0, 1, 2:
		n = 2
	case 3:
		n = 3
	}
	l := make([]byte, n)
	for i := range l {
		l[i] = vC02Alphabet[g.r.Intn(len(vC02Alphabet))]
	}
	if len(l) == 1 && l[0] == '*' && g.r.Intn(2) == 0 {
		l[0] = 'a' // a bare "*" is chosen deliberately elsewhere
	}
	return l
}

func (g *vC02Gen) newPool(simple bool) {
	g.labels = nil
	k := 3 + g.r.Intn(4)
	for i := 0; i < k; i++ {
		if simple {
			g.labels = append(g.labels, []byte{"abcxyz"[g.r.Intn(6)]})
		} else {
			g.labels = append(g.labels, g.randLabel())
		}
	}
}

func (g *vC02Gen) poolLabel() []byte {
	if g.r.Intn(8) == 0 {
		return g.randLabel()
	}
	l := append([]byte(nil), g.labels[g.r.Intn(len(g.labels))]...)
	if g.r.Intn(6) == 0 { // case variant of the same label
		for i, b := range l {
			if b >= 'a' && b <= 'z' {
				l[i] = b - 32
			} else if b >= 'A' && b <= 'Z' {
				l[i] = b + 32
			}
		}
	}
	return l
}

var vC02PlainTypes = []uint16{dns.TypeA, dns.TypeAAAA, dns.TypeTXT, dns.TypeMX}

func vC02SortTypes(ts []uint16) []uint16 {
	m := map[uint16]bool{}
	var o []uint16
	for _, t := range ts {
		if !m[t] {
			m[t] = true
			o = append(o, t)
		}
	}
	sort.Slice(o, func(i, j int) bool { return o[i] < o[j] })
	return o
}

func (g *vC02Gen) plainTypes() []uint16 {
	var ts []uint16
	if g.r.Intn(8) == 0 {
		ts = []uint16{dns.TypeCNAME}
	} else {
		for _, t := range vC02PlainTypes {
			if g.r.Intn(3) == 0 {
				ts = append(ts, t)
			}
		}
		if len(ts) == 0 {
			ts = []uint16{dns.TypeA}
		}
	}
	return vC02SortTypes(append(ts, dns.TypeRRSIG, dns.TypeNSEC))
}

// genZone builds a well-formed signed zone: apex (SOA NS DNSKEY), plain
// owners, empty non-terminals, wildcards, delegations (with or without DS),
// DNAME owners; nothing is owned below a delegation or DNAME.
func (g *vC02Gen) genZone(apex vC02Name, maxNodes int) *vC02Zone {
	z := &vC02Zone{apex: apex}
	apexTypes := []uint16{dns.TypeNS, dns.TypeSOA, dns.TypeDNSKEY, dns.TypeRRSIG, dns.TypeNSEC}
	if g.r.Intn(3) == 0 {
		apexTypes = append(apexTypes, dns.TypeA)
	}
	if g.r.Intn(40) == 0 {
		apexTypes = append(apexTypes, dns.TypeDNAME)
	}
	z.nodes = append(z.nodes, vC02Node{apex, vC02SortTypes(apexTypes)})
	seen := map[string]bool{vC02Key(apex): true}
	parents := []vC02Name{apex}
	cnt := g.r.Intn(maxNodes + 1)
	for i := 0; i < cnt; i++ {
		p := parents[g.r.Intn(len(parents))]
		if len(p)-len(apex) >= 4 {
			p = apex
		}
		var n vC02Name
		wild := g.r.Intn(7) == 0
		if wild {
			n = vC02Child(vC02Star, p)
		} else {
			n = vC02Child(g.poolLabel(), p)
			if g.r.Intn(4) == 0 && len(n)-len(apex) < 4 { // skip a level: creates an empty non-terminal
				parents = append(parents, n)
				n = vC02Child(g.poolLabel(), n)
			}
		}
		if bytes.Equal(n[0], vC02Star) {
			wild = true // wildcard owners carry ordinary data only (RFC 4592 §4.2/§4.4)
		}
		if seen[vC02Key(n)] {
			continue
		}
		seen[vC02Key(n)] = true
		var ts []uint16
		switch k := g.r.Intn(20); {
		case wild:
			ts = g.plainTypes()
		case k < 3:
			ts = []uint16{dns.TypeNS, dns.TypeRRSIG, dns.TypeNSEC} // insecure delegation
		case k < 5:
			ts = []uint16{dns.TypeNS, dns.TypeDS, dns.TypeRRSIG, dns.TypeNSEC} // secure delegation
		case k < 6:
			ts = []uint16{dns.TypeDNAME, dns.TypeRRSIG, dns.TypeNSEC}
			if g.r.Intn(2) == 0 {
				ts = append(ts, dns.TypeA)
			}
		default:
			ts = g.plainTypes()
		}
		z.nodes = append(z.nodes, vC02Node{n, vC02SortTypes(ts)})
		parents = append(parents, n)
	}
	// nothing owned below a cut
	var keep []vC02Node
	for _, nd := range z.nodes {
		under := false
		for _, c := range z.nodes {
			if vC02CutTypes(c.types) && vC02StrictSub(nd.name, c.name) {
				under = true
			}
		}
		if !under {
			keep = append(keep, nd)
		}
	}
	z.nodes = keep
	z.index()
	return z
}

// ---------------------------------------------------------------- NSEC chain

type vC02Rec struct {
	owner, next vC02Name
	types       []uint16
	class       uint16
	genuine     bool // a record of the zone's own chain
	note        string
}

func (z *vC02Zone) nsecChain() []vC02Rec {
	var out []vC02Rec
	for i, nd := range z.nodes {
		nx := z.nodes[(i+1)%len(z.nodes)].name
		out = append(out, vC02Rec{owner: nd.name, next: nx, types: nd.types, class: dns.ClassINET, genuine: true})
	}
	return out
}

func (r vC02Rec) rr() *dns.NSEC {
	return &dns.NSEC{
		Hdr:        dns.RR_Header{Name: vC02Pres(r.owner), Rrtype: dns.TypeNSEC, Class: r.class, Ttl: 300},
		NextDomain: vC02Pres(r.next),
		TypeBitMap: append([]uint16(nil), r.types...),
	}
}

func (r vC02Rec) coq() string {
	return fmt.Sprintf("mk_nsec %s %s %s %d", vC02Coq(r.owner), vC02Coq(r.next), vC02CoqTypes(r.types), r.class)
}

// vC02RoundTrip packs the records into a message and unpacks it again, so
// the code under test receives exactly what the wire decoder produces.
func vC02RoundTrip(rrs []dns.RR) []dns.RR {
	if len(rrs) == 0 {
		return nil
	}
	m := new(dns.Msg)
	m.SetQuestion(".", dns.TypeA)
	m.Response = true
	m.Ns = rrs
	b, err := m.Pack()
	if err != nil {
		panic(fmt.Sprintf("vC02RoundTrip pack: %v", err))
	}
	o := new(dns.Msg)
	if err := o.Unpack(b); err != nil {
		panic(fmt.Sprintf("vC02RoundTrip unpack: %v", err))
	}
	if len(o.Ns) != len(rrs) {
		panic("vC02RoundTrip: record count changed")
	}
	return o.Ns
}

// error class, as the resolver distinguishes them
func vC02ErrClass(err error) int {
	switch {
	case err == nil:
		return 0
	case err == ErrNSECMissingCoverage:
		return 1
	case errors.Is(err, ErrNSECMissingCoverage):
		return 2
	case err == ErrNSECTypeExists:
		return 3
	case err == ErrNSECBadDelegation:
		return 4
	case err == ErrNSECNSMissing:
		return 5
	case err == ErrNSECOptOut:
		return 6
	}
	return 7
}

func vC02AggrObs(res AggressiveNegativeResult, err error, input []dns.RR) (int, []int) {
	if err != nil {
		return vC02ErrClass(err), nil
	}
	var idx []int
	for _, p := range res.Proof {
		found := -1
		for i, rr := range input {
			if rr == p {
				found = i
				break
			}
		}
		idx = append(idx, found+0)
	}
	return 10 + res.Rcode, idx
}

func vC02CoqAobs(code int, idx []int) string {
	return fmt.Sprintf("(%d,%s)", code, vC02CoqInts(idx))
}

func vC02UpperSome(r *rand.Rand, n vC02Name) vC02Name {
	o := make(vC02Name, len(n))
	for i, l := range n {
		c := append([]byte(nil), l...)
		for j, b := range c {
			if b >= 'a' && b <= 'z' && r.Intn(2) == 0 {
				c[j] = b - 32
			}
		}
		o[i] = c
	}
	return o
}
