//go:build verif

package dnssec

// C02 driver for wildcard.go (overlay-injected, never committed to /repo): VerifyWildcardAnswerForZoneWithWork —
// the RFC 4035 5.3.4 / RFC 5155 8.8 check that every wildcard-expanded RRSIG of an Answer section comes with an
// NSEC / NSEC3 in the Authority section denying the owner's next closer name.  Accepting an expansion IS accepting
// a denial ("the next closer name does not exist"): a genuine wildcard RRSIG replayed over a name that exists must
// never be accepted from genuine denial records.  Generated: zones with wildcards, Answers of 1-4 RRSIGs (genuine
// expansions, expansions replayed over existing names / names below empty non-terminals, several owners under one
// wildcard in both orders, exact owners), Authority = subsets of the genuine NSEC or NSEC3 chain (Opt-Out, foreign
// records).  Observed: error class and the secure flag.  Compared with ModelAuth.wild_answer, judged against the zone.

import (
	"encoding/json"
	"fmt"
	"math/rand"
	"os"
	"path/filepath"
	"sort"
	"strings"
	"testing"

	"github.com/miekg/dns"
)

type vC02WildSig struct {
	Owner  [][]int `json:"owner"`
	Labels int     `json:"labels"`
}

type vC02WildFile struct {
	Kind  string  `json:"kind"`
	Why   string  `json:"why"`
	Apex  [][]int `json:"apex"`
	Nodes []struct {
		Name  [][]int  `json:"name"`
		Types []uint16 `json:"types"`
	} `json:"nodes"`
	NSEC3  bool          `json:"nsec3"`
	Subset []int         `json:"subset"` // positions of the chain handed over; absent = the full chain
	Sigs   []vC02WildSig `json:"sigs"`
}

func vC02WildName(n [][]int) vC02Name {
	var out vC02Name
	for _, l := range n {
		b := make([]byte, len(l))
		for i, c := range l {
			b[i] = byte(c)
		}
		out = append(out, b)
	}
	return out
}

func TestVerifC02Wild(t *testing.T) {
	tr := vC02Open(t)
	defer tr.f.Close()
	seed := int64(vC02EnvInt("VERIF_SEED", 1))
	n := vC02EnvInt("VERIF_N", 100)
	r := rand.New(rand.NewSource(seed*2750159 + 17))
	g := &vC02Gen{r: r}
	if dir := os.Getenv("VERIF_CORPUS"); dir != "" {
		files, _ := filepath.Glob(filepath.Join(dir, "wild-*.json"))
		sort.Strings(files)
		for _, f := range files {
			b, err := os.ReadFile(f)
			if err != nil {
				t.Fatalf("corpus %s: %v", f, err)
			}
			var cf vC02WildFile
			if err := json.Unmarshal(b, &cf); err != nil || cf.Kind != "wild" {
				t.Fatalf("corpus %s: %v (kind %q)", f, err, cf.Kind)
			}
			z := &vC02Zone{apex: vC02WildName(cf.Apex)}
			for _, nd := range cf.Nodes {
				z.nodes = append(z.nodes, vC02Node{vC02WildName(nd.Name), nd.Types})
			}
			z.index()
			g.newPool(true)
			vC02WildCase(tr, g, z, cf.NSEC3, &cf)
		}
	}
	for c := 0; c < n; c++ {
		g.newPool(r.Intn(3) == 0)
		var apex vC02Name
		switch k := r.Intn(12); {
		case k < 7:
			apex = vC02Name{g.poolLabel()}
		default:
			apex = vC02Name{g.poolLabel(), g.poolLabel()}
		}
		z := g.genZone(apex, 1+r.Intn(7))
		vC02WildCase(tr, g, z, r.Intn(3) == 0, nil)
	}
}

type vC02WSig struct {
	owner  vC02Name
	labels int
	note   string
}

func vC02WildCase(tr *vC02Trace, g *vC02Gen, zin *vC02Zone, useNSEC3 bool, fixed *vC02WildFile) {
	r := g.r
	z := &vC02Zone{apex: zin.apex}
	for _, nd := range zin.nodes {
		var ts []uint16
		for _, ty := range nd.types {
			if ty != dns.TypeNSEC || !useNSEC3 {
				ts = append(ts, ty)
			}
		}
		z.nodes = append(z.nodes, vC02Node{nd.name, ts})
	}
	// make sure there is a wildcard to expand: below the apex or below one of the plain owners
	if fixed == nil {
		has := false
		for _, nd := range z.nodes {
			if len(nd.name) > len(z.apex) && string(nd.name[0]) == "*" {
				has = true
			}
		}
		if !has || r.Intn(3) == 0 {
			ce := z.nodes[r.Intn(len(z.nodes))].name
			z.index()
			w := vC02Child(vC02Star, ce)
			if z.owner(w) == nil && z.belowCut(w) == nil && !vC02CutTypes(z.owner(ce).types) && string(ce[0]) != "*" {
				ts := []uint16{dns.TypeA, dns.TypeRRSIG}
				if !useNSEC3 {
					ts = append(ts, dns.TypeNSEC)
				}
				z.nodes = append(z.nodes, vC02Node{w, ts})
			}
		}
	}
	z.index()
	zoneStr := vC02Pres(z.apex)
	cands := g.candidates(z)
	params := vC02Params{iter: []uint16{0, 0, 1}[r.Intn(3)], salt: []string{"", "ab"}[r.Intn(2)]}

	var rrs []dns.RR
	var recsN []vC02Rec
	var recs3 []vC02Rec3
	allGenuine := true
	kind := "full"
	if fixed == nil && r.Intn(2) == 0 {
		kind = "subset"
	}
	polluted := ""
	keep := func(i int) bool {
		if fixed != nil {
			if fixed.Subset == nil {
				return true
			}
			for _, j := range fixed.Subset {
				if i == j {
					return true
				}
			}
			return false
		}
		return kind == "full" || r.Intn(4) > 0
	}
	if useNSEC3 {
		optout := fixed == nil && r.Intn(3) == 0
		chain, _ := g.nsec3Chain(z, params, optout, r.Intn(2) == 0)
		for i, rc := range chain {
			if keep(i) {
				recs3 = append(recs3, rc)
			}
		}
		if optout {
			polluted = "optout"
		}
		if fixed == nil && r.Intn(8) == 0 && len(recs3) > 0 {
			recs3[r.Intn(len(recs3))].flags ^= 1
			allGenuine = false
			polluted = "optout-flip"
		}
		if fixed == nil {
			r.Shuffle(len(recs3), func(i, j int) { recs3[i], recs3[j] = recs3[j], recs3[i] })
		}
		for _, rc := range recs3 {
			rrs = append(rrs, rc.rr())
		}
	} else {
		for i, rc := range z.nsecChain() {
			if keep(i) {
				recsN = append(recsN, rc)
			}
		}
		if fixed == nil && r.Intn(8) == 0 {
			a, b := cands[r.Intn(len(cands))], cands[r.Intn(len(cands))]
			collides := false
			for _, rc := range recsN {
				if vC02Key(rc.owner) == vC02Key(a) {
					collides = true
				}
			}
			if !collides && vC02Sub(a, z.apex) && vC02Sub(b, z.apex) {
				recsN = append(recsN, vC02Rec{owner: a, next: b, types: []uint16{dns.TypeA, dns.TypeRRSIG, dns.TypeNSEC}, class: 1, note: "made-up"})
				allGenuine = false
				polluted = "made-up"
			}
		}
		if fixed == nil {
			r.Shuffle(len(recsN), func(i, j int) { recsN[i], recsN[j] = recsN[j], recsN[i] })
		}
		for _, rc := range recsN {
			rrs = append(rrs, rc.rr())
		}
	}
	rrs = vC02RoundTrip(rrs)

	// the RRSIGs of the Answer section
	var sigs []vC02WSig
	if fixed != nil {
		for _, s := range fixed.Sigs {
			sigs = append(sigs, vC02WSig{vC02WildName(s.Owner), s.Labels, "corpus"})
		}
	} else {
		var wilds []vC02Name // closest enclosers that own a wildcard
		for _, nd := range z.nodes {
			if len(nd.name) > len(z.apex) && string(nd.name[0]) == "*" {
				wilds = append(wilds, nd.name[1:])
			}
		}
		below := func(ce vC02Name) vC02Name { // some name strictly below ce
			var opts []vC02Name
			for _, c := range cands {
				if vC02StrictSub(c, ce) && string(c[0]) != "*" {
					opts = append(opts, c)
				}
			}
			if len(opts) > 0 && r.Intn(3) > 0 {
				return opts[r.Intn(len(opts))]
			}
			q := vC02Child(g.poolLabel(), ce)
			if r.Intn(3) == 0 {
				q = vC02Child(g.poolLabel(), q)
			}
			return q
		}
		nsig := 1 + r.Intn(4)
		for i := 0; i < nsig; i++ {
			switch k := r.Intn(10); {
			case k < 6 && len(wilds) > 0: // an expansion claimed from an existing wildcard (genuine or replayed)
				ce := wilds[r.Intn(len(wilds))]
				sigs = append(sigs, vC02WSig{below(ce), len(ce), "wild"})
			case k < 8: // an expansion claimed below an arbitrary name of the zone
				ce := cands[r.Intn(len(cands))]
				if !vC02Sub(ce, z.apex) {
					ce = z.apex
				}
				sigs = append(sigs, vC02WSig{below(ce), len(ce), "any"})
			default: // an exact owner: Labels = its label count (or more)
				o := cands[r.Intn(len(cands))]
				sigs = append(sigs, vC02WSig{o, len(o) + r.Intn(2), "exact"})
			}
		}
		// several owners under one wildcard: the situation a per-wildcard verdict would confuse — repeat the
		// closest encloser of one signature with another owner, before or after it
		if len(sigs) > 0 && r.Intn(2) == 0 {
			s := sigs[r.Intn(len(sigs))]
			if s.labels < len(s.owner) {
				ce := vC02Suffix(s.owner, s.labels)
				extra := vC02WSig{below(ce), s.labels, "same-wildcard"}
				if r.Intn(2) == 0 {
					sigs = append(sigs, extra)
				} else {
					sigs = append([]vC02WSig{extra}, sigs...)
				}
			}
		}
		if r.Intn(4) == 0 {
			for i := range sigs {
				if r.Intn(3) == 0 {
					k := len(sigs[i].owner) - len(z.apex)
					if k > 0 {
						sigs[i].owner = append(vC02UpperSome(r, sigs[i].owner[:k]), sigs[i].owner[k:]...)
					}
				}
			}
		}
	}

	resp := new(dns.Msg)
	resp.Response = true
	for _, s := range sigs {
		name := vC02Pres(s.owner)
		if dns.CountLabel(name) != len(s.owner) {
			return
		}
		resp.Answer = append(resp.Answer, &dns.A{Hdr: dns.RR_Header{Name: name, Rrtype: dns.TypeA, Class: dns.ClassINET, Ttl: 300}, A: []byte{192, 0, 2, 1}})
		resp.Answer = append(resp.Answer, &dns.RRSIG{Hdr: dns.RR_Header{Name: name, Rrtype: dns.TypeRRSIG, Class: dns.ClassINET, Ttl: 300},
			TypeCovered: dns.TypeA, Algorithm: dns.ECDSAP256SHA256, Labels: uint8(s.labels), OrigTtl: 300, SignerName: zoneStr, KeyTag: 1})
	}
	for _, rr := range rrs {
		resp.Ns = append(resp.Ns, rr)
	}
	secure, err := VerifyWildcardAnswerForZoneWithWork(resp, zoneStr, nil)
	ec := vC02ErrClass(err)

	// ground truth: an accepted, authenticated expansion claims that the next closer name does not exist directly
	goFail := ""
	tabNames := map[string]vC02Name{}
	var scoq, sdesc []string
	for _, s := range sigs {
		scoq = append(scoq, fmt.Sprintf("(%s,%d)", vC02Coq(s.owner), s.labels))
		d := fmt.Sprintf("%s labels=%d (%s)", vC02Pres(s.owner), s.labels, s.note)
		if s.labels < len(s.owner) {
			nc := vC02Suffix(s.owner, s.labels+1)
			tabNames[vC02Key(nc)] = nc
			d += fmt.Sprintf(" next closer %s exists=%q", vC02Pres(nc), z.existsHow(nc))
			if allGenuine && err == nil && secure && vC02Sub(nc, z.apex) && z.existsDirect(nc) {
				if goFail == "" {
					goFail = fmt.Sprintf("VerifyWildcardAnswerForZoneWithWork accepted (secure) an expansion over %s although its next closer name %s exists (%s)",
						vC02Pres(s.owner), vC02Pres(nc), z.existsHow(nc))
				}
			}
		}
		sdesc = append(sdesc, d)
	}
	var rdesc []string
	for i, rr := range rrs {
		rdesc = append(rdesc, fmt.Sprintf("%d: %s", i, strings.Join(strings.Fields(rr.String()), " ")))
	}
	k := "wild-nsec-" + kind
	ncoq, r3coq, tcoq := []string{}, []string{}, []string{}
	if useNSEC3 {
		k = "wild-nsec3-" + kind
		zones := make([]vC02Name, len(rrs))
		for i := range zones {
			zones[i] = recs3[i].zone
		}
		r3coq, tcoq = vC02Nsec3Coq(rrs, zones, tabNames, params)
	} else {
		for _, rc := range recsN {
			ncoq = append(ncoq, rc.coq())
		}
	}
	if fixed != nil {
		k = strings.Replace(k, kind, "corpus", 1)
	}
	if polluted != "" {
		k += "+" + polluted
	}
	coq := fmt.Sprintf("(CaseWild %s %s [%s] [%s] [%s] %v [%s] %d %v)%%N", z.coq(), vC02Coq(z.apex), strings.Join(ncoq, ";"), strings.Join(r3coq, ";"),
		strings.Join(tcoq, ";"), allGenuine, strings.Join(scoq, ";"), ec, secure)
	expanded := false
	for _, s := range sigs {
		if s.labels < len(s.owner) {
			expanded = true
		}
	}
	// the former finding wildcard-nextcloser-ent (an empty non-terminal as next closer name, fixed by d3c4aec) is a
	// strict regression class now: no case is tagged, every offender fails the check
	tr.emit(map[string]any{
		"k": k, "coq": coq, "go_fail": goFail, "nontrivial": expanded && len(rrs) > 0,
		"desc": map[string]any{"zone": z.desc(), "records": rdesc, "sigs": sdesc, "verdict": fmt.Sprintf("err=%d (%v) secure=%v", ec, err, secure)},
	})
}
